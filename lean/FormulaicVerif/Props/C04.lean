import FormulaicVerif.Proofs.C04Pipeline
import FormulaicVerif.Proofs.C04Dict
import FormulaicVerif.Proofs.C04Session
import FormulaicVerif.Proofs.C04Args
import FormulaicVerif.Gen.Names
/-! # C04 — A model spec replays the recorded encoding row by row on any data

Property theorems only; helper lemmas are in `Proofs/C04*.lean`.  Every `theorem` in this file is an
obligation audited with `#print axioms`.

Models: `Model/Stateful.lean` (the state-first protocol `T` of a stateful transform with the
instances `scaleT` (`center`/`scale`/`standardize`), `polyT`, `bsT`, `csT` (`cr`/`cs`/`cc`), `catT`
(categorical encoding with recorded levels), the decorator's nested state `T.callDict`, the state
key `stateKey`) and `Model/Replay.lean` (`evalExpr` = `stateful_eval`, `materialize` =
`get_model_matrix` on a `ModelSpec` with the `spec.structure` branch, rehydration and
`_enforce_structure`, `getstate`/`restore`, the materializer object `Mat.getModelMatrix`/`Mat.run`) and
`Model/CallArgs.lean` (Python's argument binding against the live signatures of the stateful
transforms).  These are the functions the engine `c04` runs against the real code on every check.  Reference notions (`Lawful`, `Reachable`, `Complete`, `Ready`,
`Value.select`, `selEntry`) are in `Spec/Replay.lean`.

Row selection: `select is xs` are the rows `is` of `xs` in that order — any subset, duplication or
reordering (`frame.iloc[is]`). -/

namespace FormulaicVerif.Props.C04
open FormulaicVerif.Model FormulaicVerif.Model.Replay FormulaicVerif.Spec.Replay FormulaicVerif.Proofs.C04

/-! ## 1. the state-first protocol, for every transform that obeys its laws -/
section protocol
variable {α β σ ε : Type}

/-- C04.1a  Replay on the training data reproduces the fitted output (and leaves the recorded state
as it is). -/
theorem apply_after_fit {t : T α β σ ε} {Good : σ → Prop} (L : Lawful t Good) (xs : List α) (st : σ)
    (out : List β) (h : t.fit xs = .ok (st, out)) : Good st ∧ t.run st xs = .ok (out, st) :=
  ⟨L.fit_good xs st out h, L.after_fit xs st out h⟩

/-- C04.1b  Each output row of a replay depends only on its input row and the recorded state. -/
theorem apply_rowwise {t : T α β σ ε} {Good : σ → Prop} (L : Lawful t Good) (st : σ) (hg : Good st)
    (xs : List α) (out : List β) (st' : σ) (h : t.run st xs = .ok (out, st')) :
    out = xs.map (t.row st) ∧ st' = st :=
  L.rowwise st xs out st' hg h

/-- C04.1c  Hence any subset, duplication or reordering of the rows yields the corresponding rows:
a replay that succeeds on `xs` succeeds on every selection of its rows, with the selected output. -/
theorem select_of_rowwise {t : T α β σ ε} {Good : σ → Prop} (L : Lawful t Good) (st : σ) (hg : Good st)
    (xs : List α) (out : List β) (st' : σ) (h : t.run st xs = .ok (out, st')) (is : List Nat) :
    t.run st (select is xs) = .ok (select is out, st) :=
  run_select L st hg xs out st' h is

end protocol

/-! ## 2. the built-in transforms obey the laws

Each instance is the executable model of C13 / C12 / C11 unchanged; the laws are derived from the
theorems proved there (`Props.C13.scale_never_refits` through `Proofs.C13.run_state_complete` /
`run_recorded`; `Props.C13.poly_applies_recorded` through `Proofs.C13.run_eq`, with the hypotheses
on the sample derived from the success of the fit; `Props.C12.bs_fit_shape`'s row function
`BSpline.rowFor`; `Model.Contrasts.apply` as in `Props.C11.apply_is_product`) or proved directly
(`cr`/`cc`). -/

/-- C04.2a  `center`, `scale`, `standardize` (any `center`/`scale`/`ddof` arguments, any `sqrt`):
a complete state — all three statistics recorded — is what a fit leaves and what a replay needs;
the replayed row is `scaleRow st x = (x - center) / scale`. -/
theorem scale_lawful (sqrt : Rat → Rat) (ca sa : Scale.Arg Rat) (dd : Rat) :
    Lawful (scaleT sqrt ca sa dd) ScaleComplete :=
  Proofs.C04.scale_lawful sqrt ca sa dd

/-- C04.2b  `poly` (any degree, orthogonal or raw, any `sqrt`): for every state recorded by a fit
(`alpha`/`norms2`), with no hypothesis on the data. -/
theorem poly_lawful (sqrt : Rat → Rat) (d : Nat) (raw : Bool) :
    Lawful (polyT sqrt d raw) (Reachable (polyT sqrt d raw)) :=
  Proofs.C04.poly_lawful sqrt d raw

/-- C04.2c  `bs` (any arguments, any quantile routine, every recorded bounds/knots); a replay with
`extrapolation='raise'` fails exactly when a selected row lies outside the recorded bounds, which is
why the law is stated for replays that succeed. -/
theorem bs_lawful (a : BSpline.Args) (quant : List Rat → Nat → List Rat) :
    Lawful (bsT a quant) (fun _ => True) :=
  Proofs.C04.bs_lawful a quant

/-- C04.2d  `cr` / `cs` / `cc` (any arguments, any quantile / linear-solve / QR routines, every
recorded bounds/knots/constraints). -/
theorem cs_lawful (a : CubicSpline.Args) (quant : List Rat → Nat → List Rat)
    (getF : List Rat → List (List Rat)) (getQ2 : List (List Rat) → List (List Rat)) :
    Lawful (csT a quant getF getQ2) (fun _ => True) :=
  Proofs.C04.cs_lawful a quant getF getQ2

/-- C04.2e  Categorical encoding with recorded levels (every built-in contrast, both rank settings,
every output type): the levels a fit infers are replayed as they are — levels absent from the new
data keep their (all-zero) columns, and a row is encoded the same way whatever the other rows are. -/
theorem cat_lawful (c : Contrasts.Contrast) (reduced : Bool) (output : String) :
    Lawful (catT c reduced output) (fun _ => True) :=
  Proofs.C04.cat_lawful c reduced output

/-- C04.2f  The whole encoding of a categorical factor (values AND column names, drop field, formats)
replays: with recorded levels the encoder applied to a selection of rows returns the selected
values and exactly the same metadata — including for levels that no selected row carries. -/
theorem cat_select (c : Contrasts.Contrast) (reduced : Bool) (output : String) (cats : List Contrasts.Label)
    (data : List (Option Contrasts.Label)) (enc : Contrasts.Encoded) (cats' : List Contrasts.Label)
    (h : catCall c reduced output (some cats) data = .ok (enc, cats')) (is : List Nat) :
    cats' = cats ∧
    catCall c reduced output (some cats) (select is data)
      = .ok ({ enc with values := select is enc.values }, cats) := by
  obtain ⟨h1, _⟩ := catCall_some_spec h
  subst h1
  refine ⟨rfl, ?_⟩
  rw [catCall_select, h]
  rfl

/-- non-vacuity: `center` fitted on `[1, 3]` records mean 2; the replay on `[5, 1, 5]` (another
frame, with a duplicated row) uses it -/
example : (scaleT id (.flag true) (.flag false) 1).fit [1, 3]
      = .ok (⟨some 1, some (some 2), some none⟩, [-1, 1]) ∧
    ScaleComplete ⟨some 1, some (some 2), some none⟩ ∧
    (scaleT id (.flag true) (.flag false) 1).run ⟨some 1, some (some 2), some none⟩ [5, 1, 5]
      = .ok ([3, -1, 3], ⟨some 1, some (some 2), some none⟩) := by
  refine ⟨by decide +kernel, by decide, by decide +kernel⟩

/-- completeness is not decoration: with the mean missing from the state a "replay" re-fits it on
the new data, so the same row `5` gives different output in different frames -/
example : (scaleT id (.flag true) (.flag false) 1).run ⟨some 1, none, some none⟩ [5, 1]
      = .ok ([2, -2], ⟨some 1, some (some 3), some none⟩) ∧
    (scaleT id (.flag true) (.flag false) 1).run ⟨some 1, none, some none⟩ [5, 3]
      = .ok ([1, -1], ⟨some 1, some (some 4), some none⟩) := by
  constructor <;> decide +kernel

/-- non-vacuity for recorded levels: level `c` is absent from the new data and keeps its column -/
example : (catT .sum false "pandas").run [.str "a", .str "b", .str "c"] [some (.str "b"), some (.str "a")]
    = .ok ([[0, 1, 0], [1, 0, 0]], [.str "a", .str "b", .str "c"]) := by decide +kernel

/-! ## 3. the decorator's nested state for dict-valued data, and the state key -/

/-- C04.3a  `stateful_transform.wrapper` on a dict: starting from good per-key states (e.g. none),
the loop records a good state for every visible key, and running it again under the recorded
dictionary — or any extension of it — returns the same result and leaves the dictionary unchanged;
with good states recorded for the visible keys it commutes with row selection applied to every
column of the dict. -/
theorem callDict_lawful {α σ ε κ : Type} [DecidableEq κ] {t : T α α σ ε} {Good : σ → Prop}
    (L : Lawful t Good) (hidden : κ → Bool) (cs : List (κ × List α)) (m : List (κ × σ))
    (hg : ∀ k s, getKey m k = some s → Good s) (res : List (κ × List α)) (m1 : List (κ × σ))
    (h : t.callDict hidden m cs = .ok (res, m1)) :
    (∀ k s, getKey m1 k = some s → Good s) ∧
    t.callDict hidden m1 cs = .ok (res, m1) ∧
    ∀ is, t.callDict hidden m1 (cs.map (fun p => (p.1, select is p.2)))
      = .ok (res.map (fun p => (p.1, select is p.2)), m1) := by
  obtain ⟨h1, _, h3, h4⟩ := callDict_stable L hidden cs m hg res m1 h
  have h5 := h4 m1 (extends_refl _)
  refine ⟨h1, h5, ?_⟩
  exact (callDict_replay L hidden cs m1
    (fun p hp hh => by
      obtain ⟨s, hs⟩ := h3 p hp hh
      exact ⟨s, hs, h1 _ _ hs⟩) res m1 h5).2

/-- non-vacuity: `center` over a two-key dict, fitted from the empty state -/
example : (scaleT id (.flag true) (.flag false) 1).callDict (fun (k : Nat) => decide (k = 0)) []
      [(1, [1, 3]), (0, [7, 7]), (2, [0, 4])]
    = .ok ([(1, [-1, 1]), (0, [7, 7]), (2, [-2, 2])],
        [(1, ⟨some 1, some (some 2), some none⟩), (2, ⟨some 1, some (some 2), some none⟩)]) := by
  decide +kernel


/-- C04.3c  **Per-column state of a call on a 2-D array** (`scale(poly(x, 2))`: numpy records arrays of
statistics, one entry per column): the fitting call records one good state per column, replaying
exactly those states on the same array reproduces the columns, and with good recorded states the
call leaves them unchanged, keeps the number and the length of the columns, and commutes with row
selection applied to every column. -/
theorem callCols_lawful {t : T Rat Rat (Scale.State Rat) TErr} {Good : Scale.State Rat → Prop} (L : Lawful t Good)
    (cols : List (List Rat)) :
    (∀ outs ss, callCols t none cols = .ok (outs, ss) →
      (∀ s ∈ ss, Good s) ∧ ss.length = cols.length ∧ callCols t (some ss) cols = .ok (outs, ss)) ∧
    (∀ ss outs ss', (∀ s ∈ ss, Good s) → callCols t (some ss) cols = .ok (outs, ss') →
      ss' = ss ∧ outs.length = cols.length ∧
      ∀ is, callCols t (some ss) (cols.map (select is)) = .ok (outs.map (select is), ss)) :=
  ⟨fun outs ss h => callCols_fit L cols outs ss h,
   fun ss outs ss' hg h =>
    let ⟨h1, _, h3, _, h5⟩ := callCols_replay L cols outs ss ss' hg h
    ⟨h1, h3, h5⟩⟩

/-- C04.3d  **The decorator's wrapper replays on every kind of argument** — a vector, a dict (nested
per-key state: `center(bs(x))`, `scale(cr(x))`, a mapped call of a mapped call) or a 2-D array
(`scale(poly(x, 2))`).  With the recorded state ready for the shape of the argument (`ReadyFor`: a
complete state; a complete entry for every visible key; one complete state per column) the call
leaves the state unchanged, returns one entry per row in every column, commutes with ANY selection
of rows, and its result has the shape that the recorded state alone determines (`resultShape`: so
the readiness of an enclosing call can be read off the spec, without data). -/
theorem wrapper_replays (tr : Tr) (p : Params) (st : TState) (v : Value) (hr : ReadyFor p tr st v.shape)
    (v2 : Value) (st' : TState) (h : wrapper tr p (some st) v = .ok (v2, st')) (n : Nat) (hl : v.Len n) :
    st' = st ∧ v2.Len n ∧ (∀ is, wrapper tr p (some st) (v.select is) = .ok (v2.select is, st)) ∧
      resultShape tr p st (some v.shape) = some v2.shape :=
  wrapper_replay tr p st v hr v2 st' h n hl

/-- C04.3e  **Fit (or refit), then replay, on every kind of argument.**  Called without state — or with
a state in which nothing is half-fitted — the wrapper leaves such a state, which extends the one it
found (`StExt`: equal, or a nested per-key state with more keys), is ready for the shape of the
argument, and gives the same value again, also after the state has been extended further. -/
theorem wrapper_fit_then_replay (tr : Tr) (p : Params) (o : Option TState) (v : Value)
    (ho : ∀ st0, o = some st0 → CompleteAny p tr st0) (v2 : Value) (st : TState)
    (h : wrapper tr p o v = .ok (v2, st)) :
    CompleteAny p tr st ∧ (∀ st0, o = some st0 → StExt st0 st) ∧ ReadyFor p tr st v.shape ∧
      ∀ st', StExt st st' → wrapper tr p (some st') v = .ok (v2, st') :=
  wrapper_stable tr p o v ho v2 st h

/-- decidable views of a value / a recorded state, for the examples -/
def colsView : Value → Bool × DictMeta × List (Field × List Rat)
  | .cols d m cs => (d, m, cs)
  | .vec v => (false, ⟨false, none⟩, [(⟨"vec", true⟩, v)])
def keyedView : TState → List (Field × Scale.State Rat)
  | .keyed m => m
  | _ => []
def arrView : TState → List (Scale.State Rat)
  | .arr ss => ss
  | _ => []

def demoParams : Params := ⟨id, fun _ _ => [], fun _ => [], fun _ => []⟩

/-- non-vacuity (dict): `center` mapped over a two-key dict value records one state per key, returns a
plain dict (metadata of the argument dropped), and the recorded nested state is ready for that shape -/
example :
    (wrapper (.scale (.flag true) (.flag false) 1) demoParams none
        (.cols true ⟨true, some (natField 0)⟩ [(natField 1, [1, 3]), (natField 2, [0, 4])])).toOption.map
        (fun r => colsView r.1)
      = some (true, ⟨false, none⟩, [(natField 1, [-1, 1]), (natField 2, [-2, 2])]) ∧
    (wrapper (.scale (.flag true) (.flag false) 1) demoParams none
        (.cols true ⟨true, some (natField 0)⟩ [(natField 1, [1, 3]), (natField 2, [0, 4])])).toOption.map
        (fun r => keyedView r.2)
      = some [(natField 1, ⟨some 1, some (some 2), some none⟩), (natField 2, ⟨some 1, some (some 2), some none⟩)] ∧
    ReadyFor demoParams (.scale (.flag true) (.flag false) 1)
      (.keyed [(natField 1, ⟨some 1, some (some 2), some none⟩), (natField 2, ⟨some 1, some (some 2), some none⟩)])
      (Value.cols true ⟨true, some (natField 0)⟩ [(natField 1, [1, 3]), (natField 2, [0, 4])]).shape := by
  refine ⟨by decide +kernel, by decide +kernel, ?_⟩
  intro k hk _
  simp only [List.map_cons, List.map_nil, List.mem_cons, List.not_mem_nil, or_false] at hk
  rcases hk with rfl | rfl
  · exact ⟨⟨some 1, some (some 2), some none⟩, by decide +kernel, by decide⟩
  · exact ⟨⟨some 1, some (some 2), some none⟩, by decide +kernel, by decide⟩

/-- non-vacuity (2-D array): `center` of a two-column array records one state per column and returns
an array keyed by position -/
example :
    (wrapper (.scale (.flag true) (.flag false) 1) demoParams none
        (.cols false ⟨false, none⟩ [(strField "1", [1, 3]), (strField "2", [0, 4])])).toOption.map
        (fun r => colsView r.1)
      = some (false, ⟨false, none⟩, [(natField 0, [-1, 1]), (natField 1, [-2, 2])]) ∧
    (wrapper (.scale (.flag true) (.flag false) 1) demoParams none
        (.cols false ⟨false, none⟩ [(strField "1", [1, 3]), (strField "2", [0, 4])])).toOption.map
        (fun r => arrView r.2)
      = some [⟨some 1, some (some 2), some none⟩, ⟨some 1, some (some 2), some none⟩] := by
  constructor <;> decide +kernel

/-- C04.3b  `stateful_eval` keys the state of a call by its NORMALISED text: evaluating a call node
reads and writes exactly `stateKey norm text` (every other key of the dictionary keeps its value),
leaves a state there, and two call texts with the same normal form use the same key. -/
theorem state_key_normalised (env : Env) (f : Frame) (text : String) (a : Expr) (ts : TStates) (v : Value)
    (ts1 : TStates) (h : evalExpr env f (.call text a) ts = .ok (v, ts1)) :
    (∃ va tsa st, evalExpr env f a ts = .ok (va, tsa) ∧
      getKey ts1 (stateKey env.norm text) = some st ∧
      ∀ k, k ≠ stateKey env.norm text → getKey ts1 k = getKey tsa k) ∧
    ∀ text', env.norm text' = env.norm text → stateKey env.norm text' = stateKey env.norm text := by
  refine ⟨?_, fun text' h' => by simp only [stateKey, h']⟩
  simp only [evalExpr] at h
  cases ha : evalExpr env f a ts with
  | error x => simp [ha] at h
  | ok r =>
    obtain ⟨va, tsa⟩ := r
    simp only [ha] at h
    cases hc : env.call (stateKey env.norm text) with
    | none => simp [hc] at h
    | some trp =>
      obtain ⟨tr, p⟩ := trp
      simp only [hc] at h
      cases hw : liftT (wrapper tr p (getKey tsa (stateKey env.norm text)) va) with
      | error x => simp [hw] at h
      | ok r2 =>
        obtain ⟨v2, st⟩ := r2
        simp only [hw, Except.ok.injEq, Prod.mk.injEq] at h
        obtain ⟨rfl, rfl⟩ := h
        exact ⟨va, tsa, st, rfl, getKey_setKey_same _ _ _, fun k hk => getKey_setKey_ne _ _ _ _ hk⟩

/-! ## 4. the whole pipeline: `get_model_matrix` on a model spec

`Ready env spec`: every call node of every factor finds a complete recorded state under its key and
every categorical factor finds its recorded levels.  `fit_ready` shows that this holds for every
spec attached to a fitted matrix, so the hypothesis below is about the INPUT of a hand-made spec
only.  The structure hypothesis `spec.structure_ = some (s :: ss)` says the spec has been fitted
on a formula with at least one term (`if spec.structure:` in the code). -/

/-- a concrete instance used by the non-vacuity examples: the formula `1 + center( x ) + A` -/
def demoEnv : Env :=
  { norm := fun t => if t = "center( x )" then "center(x)" else t
    elem := fun _ _ => none
    sem := fun e => if e = "center(x)" then some (.num (.call "center( x )" (.col "x")))
      else if e = "A" then some (.cat "A" (.treatment none) false)
      else if e = "1" then some (.lit 1) else none
    call := fun k => if k = "center(x)" then
        some (.scale (.flag true) (.flag false) 1, ⟨id, fun _ _ => [], fun _ => [], fun _ => []⟩) else none }

def demoRow (x : Rat) (a : String) : Row := [("x", .num x), ("A", .lab (some (.str a)))]
def demoFrame : Frame :=
  { columns := ["x", "A"], declared := [], rows := [demoRow 1 "a", demoRow 3 "b", demoRow 5 "c", demoRow 3 "a"] }
def demoSpec0 : Spec := Spec.fresh [["1"], ["center(x)"], ["A"]] true none "none"

/-- C04.4a  **A fitted spec is ready**: the spec attached to the result of a fit (a spec without
structure, any complete pre-existing state — in particular `Spec.fresh`) carries a complete state
for every call and recorded levels for every categorical factor, and is already prepared. -/
theorem fit_ready (env : Env) (spec0 : Spec) (hnone : spec0.structure_ = none)
    (hsc : StatesComplete env spec0.transformState) (f : Frame) (spec : Spec) (m : List Entry)
    (h : materialize env spec0 f = .ok (spec, m)) :
    Ready env spec ∧ StatesComplete env spec.transformState ∧ prepare spec = .ok spec :=
  let ⟨h1, h2, h3, _⟩ := materialize_fit env spec0 hnone hsc f spec m h
  ⟨h1, h2, h3⟩

/-- C04.4b  **Replay on the original data reproduces the matrix**, for every formula over the
modelled transforms, every frame and every configuration, and returns the spec unchanged. -/
theorem replay_reproduces (env : Env) (spec0 : Spec) (hnone : spec0.structure_ = none)
    (hsc : StatesComplete env spec0.transformState) (f : Frame) (spec : Spec) (m : List Entry)
    (h : materialize env spec0 f = .ok (spec, m)) :
    materialize env spec f = .ok (spec, m) ∧ replay env spec f = .ok m := by
  obtain ⟨_, _, _, h4⟩ := materialize_fit env spec0 hnone hsc f spec m h
  exact ⟨h4, by simp only [replay, h4]⟩

/-- the hypotheses of `fit_ready` / `replay_reproduces` hold for every fresh spec -/
example (env : Env) (formula : List MTerm) (efr : Bool) (o : Option String) (cb : String) :
    (Spec.fresh formula efr o cb).structure_ = none ∧
      StatesComplete env (Spec.fresh formula efr o cb).transformState :=
  ⟨rfl, fun _ _ _ _ _ h => by simp [Spec.fresh, getKey] at h⟩

/-- non-vacuity: the demo fit succeeds (4 rows, `Intercept`, `center(x)`, `A[T.b]`, `A[T.c]`) -/
example : ((materialize demoEnv demoSpec0 demoFrame).toOption.map (fun r => r.2.map (fun e => (e.name, e.col))))
    = some [("Intercept", [1, 1, 1, 1]), ("center(x)", [-2, 0, 2, 0]), ("A[T.b]", [0, 1, 0, 0]),
            ("A[T.c]", [0, 0, 1, 0])] := by decide +kernel

/-- C04.4c  **Names**: a replay, on any data, yields the recorded column names in the recorded order
(`outNames`: per term the recorded list, collated; a function of the recorded structure and the
output type only — for pandas output a repeated name keeps its first position, as in a `dict`). -/
theorem replay_names (env : Env) (spec : Spec) (s : TermStruct) (ss : List TermStruct)
    (hst : spec.structure_ = some (s :: ss)) (f : Frame) (spec' : Spec) (m : List Entry)
    (h : materialize env spec f = .ok (spec', m)) :
    ∃ sp, prepare spec = .ok sp ∧ m.map (·.name) = outNames (sp.outputOr == "pandas") (s :: ss) :=
  materialize_names env spec s ss hst f spec' m h

/-- C04.4c'  When the recorded names are pairwise distinct (always the case for the structure a fit
records term by term; across terms unless two terms print the same label) they are exactly
`ModelSpec.column_names`. -/
theorem replay_names_nodup (env : Env) (spec : Spec) (s : TermStruct) (ss : List TermStruct)
    (hst : spec.structure_ = some (s :: ss)) (hnd : spec.columnNames.Nodup) (f : Frame) (spec' : Spec)
    (m : List Entry) (h : materialize env spec f = .ok (spec', m)) :
    m.map (·.name) = spec.columnNames := by
  obtain ⟨sp, _, hn⟩ := materialize_names env spec s ss hst f spec' m h
  rw [hn]
  simp only [Spec.columnNames, hst] at hnd ⊢
  generalize (s :: ss) = st at hnd
  unfold outNames
  have hterm : ∀ t ∈ st, Model.dictUpdate [] (t.columns.map nameOnly) = t.columns.map nameOnly := by
    intro t ht
    apply FormulaicVerif.Proofs.C02.dictOfList_of_nodup
    rw [List.map_map]
    have : ((fun e : Entry => e.name) ∘ nameOnly) = id := by funext n; rfl
    rw [this, List.map_id]
    exact (List.nodup_flatMap.1 hnd).1 t ht
  have hflat : st.flatMap (fun t => Model.dictUpdate [] (t.columns.map nameOnly))
      = (st.flatMap (·.columns)).map nameOnly := by
    rw [List.map_flatMap]
    exact List.flatMap_congr hterm
  rw [hflat]
  have hnames : ((st.flatMap (·.columns)).map nameOnly).map (·.name) = st.flatMap (·.columns) := by
    rw [List.map_map]
    have : ((fun e : Entry => e.name) ∘ nameOnly) = id := by funext n; rfl
    rw [this, List.map_id]
  unfold Model.combineColumns
  split
  · have := FormulaicVerif.Proofs.C02.dictOfList_of_nodup ((st.flatMap (·.columns)).map nameOnly)
      (by rw [hnames]; exact hnd)
    simp only [FormulaicVerif.Spec.dictOfList] at this
    rw [this, hnames]
  · exact hnames

/-- C04.4d  **Any subset, duplication or reordering of rows yields the corresponding rows**: a
replay of `frame.iloc[is]` is, column by column, the selection `is` of the replay of `frame` — with
the same names, for every index list `is`, including selections in which some recorded level no
longer occurs. -/
theorem replay_select (env : Env) (spec : Spec) (hr : Ready env spec) (s : TermStruct) (ss : List TermStruct)
    (hst : spec.structure_ = some (s :: ss)) (f : Frame) (m : List Entry)
    (h : replay env spec f = .ok m) (is : List Nat) :
    replay env spec (f.select is) = .ok (m.map (selEntry is)) := by
  simp only [replay] at h ⊢
  cases hm : materialize env spec f with
  | error e => simp [hm] at h
  | ok r =>
    obtain ⟨spec', m'⟩ := r
    simp only [hm, Except.ok.injEq] at h
    subst h
    rw [materialize_select env spec hr s ss hst f spec' m' hm is]

/-- C04.4e  **Each output row depends only on the corresponding input row and the recorded state**:
row `i` of a replay is the single row of the replay of the one-row frame made of input row `i`
(`selEntry [i]` keeps entry `i` of every column), whatever the other rows of the frame are. -/
theorem replay_rowwise (env : Env) (spec : Spec) (hr : Ready env spec) (s : TermStruct) (ss : List TermStruct)
    (hst : spec.structure_ = some (s :: ss)) (f : Frame) (m : List Entry)
    (h : replay env spec f = .ok m) (i : Nat) (r : Row) (hi : f.rows[i]? = some r) :
    replay env spec { f with rows := [r] } = .ok (m.map (selEntry [i])) ∧
      ∀ e ∈ m, (selEntry [i] e).name = e.name ∧ (selEntry [i] e).col = (e.col[i]?).toList := by
  have := replay_select env spec hr s ss hst f m h [i]
  have hsel : f.select [i] = { f with rows := [r] } := by
    simp only [Frame.select, select, List.filterMap_cons, hi, List.filterMap_nil]
  rw [hsel] at this
  refine ⟨this, fun e _ => ⟨rfl, ?_⟩⟩
  simp only [selEntry, select, List.filterMap_cons, List.filterMap_nil]
  cases e.col[i]? <;> rfl

/-- C04.4f  **A replay leaves the spec as it is** (the recorded state is read, never written), so any
SEQUENCE of follow-up data sets behaves like independent replays of the same spec. -/
theorem replay_state_unchanged (env : Env) (spec : Spec) (hr : Ready env spec) (s : TermStruct)
    (ss : List TermStruct) (hst : spec.structure_ = some (s :: ss)) (f : Frame) (spec' : Spec)
    (m : List Entry) (h : materialize env spec f = .ok (spec', m)) :
    prepare spec = .ok spec' ∧ (prepare spec = .ok spec → spec' = spec) := by
  have h1 := materialize_unchanged env spec hr s ss hst f spec' m h
  exact ⟨h1, fun h2 => by rw [h2] at h1; exact (Except.ok.inj h1).symm⟩

/-- non-vacuity of `Ready` and of the structure hypothesis: the demo fit yields a ready spec with a
non-empty structure; its replay on the rows `[2, 2, 0]` (a duplication, a reordering, and level `b`
absent from the new data) gives rows 2, 2, 0 of the fitted matrix under the recorded names -/
example : ∃ spec m, materialize demoEnv demoSpec0 demoFrame = .ok (spec, m) ∧ Ready demoEnv spec ∧
    (∃ s ss, spec.structure_ = some (s :: ss)) ∧
    (replay demoEnv spec (demoFrame.select [2, 2, 0])).toOption.map (·.map (fun e => (e.name, e.col)))
      = some [("Intercept", [1, 1, 1]), ("center(x)", [2, 2, -2]), ("A[T.b]", [0, 0, 0]), ("A[T.c]", [1, 1, 0])] := by
  cases hm : materialize demoEnv demoSpec0 demoFrame with
  | error e =>
    have : (materialize demoEnv demoSpec0 demoFrame).toOption.isSome = true := by decide +kernel
    rw [hm] at this
    cases this
  | ok r =>
    obtain ⟨spec, m⟩ := r
    obtain ⟨h1, _, _⟩ := fit_ready demoEnv demoSpec0 rfl (fun _ _ _ _ _ h => by simp [demoSpec0, Spec.fresh, getKey] at h)
      demoFrame spec m hm
    refine ⟨spec, m, rfl, h1, ?_, ?_⟩
    · have : ((materialize demoEnv demoSpec0 demoFrame).toOption.map (fun r => r.1.structure_.map List.length)) = some (some 3) := by
        decide +kernel
      rw [hm] at this
      simp only [Except.toOption, Option.map_some, Option.some.injEq] at this
      cases hs : spec.structure_ with
      | none => rw [hs] at this; cases this
      | some l =>
        cases l with
        | nil => rw [hs] at this; cases this
        | cons s ss => exact ⟨s, ss, rfl⟩
    · have : ((materialize demoEnv demoSpec0 demoFrame).toOption.bind (fun r =>
          (replay demoEnv r.1 (demoFrame.select [2, 2, 0])).toOption.map (·.map (fun e => (e.name, e.col)))))
          = some [("Intercept", [1, 1, 1]), ("center(x)", [2, 2, -2]), ("A[T.b]", [0, 0, 0]), ("A[T.c]", [1, 1, 0])] := by
        decide +kernel
      rw [hm] at this
      exact this


/-- a formula with NESTED state: `scale(poly(x, 2, raw=True))` (a 2-D array: one recorded state per
column) — the theorems of this section apply to it as they are -/
def demoEnvN : Env :=
  { norm := fun t => t
    elem := fun _ _ => none
    sem := fun e => if e = "center(poly(x, 2, raw=True))" then
        some (.num (.call "center(poly(x, 2, raw=True))" (.call "poly(x, 2, raw=True)" (.col "x"))))
      else if e = "1" then some (.lit 1) else none
    call := fun k => if k = "center(poly(x, 2, raw=True))" then some (.scale (.flag true) (.flag false) 1, demoParams)
      else if k = "poly(x, 2, raw=True)" then some (.poly 2 true, demoParams) else none }

/-- non-vacuity for nested state: the fit succeeds (columns `[0]`, `[1]` = `x - mean x`, `x² - mean x²`),
and the replay of the fitted spec on the rows `[3, 3, 0]` gives rows 3, 3, 0 -/
example :
    ((materialize demoEnvN (Spec.fresh [["1"], ["center(poly(x, 2, raw=True))"]] true none "none") demoFrame).toOption.bind
      (fun r => (replay demoEnvN r.1 (demoFrame.select [3, 3, 0])).toOption.map
        (fun m => (r.2.map (fun e => (e.name, e.col)), m.map (fun e => (e.name, e.col))))))
    = some ([("Intercept", [1, 1, 1, 1]), ("center(poly(x, 2, raw=True))[0]", [-2, 0, 2, 0]),
             ("center(poly(x, 2, raw=True))[1]", [-10, -2, 14, -2])],
            [("Intercept", [1, 1, 1]), ("center(poly(x, 2, raw=True))[0]", [0, 0, -2]),
             ("center(poly(x, 2, raw=True))[1]", [-2, -2, -10])]) := by
  decide +kernel

/-! ## 5. pickling -/

/-- C04.5  `ModelSpec.__getstate__` keeps exactly the dataclass fields — the list the model uses is
the live `ModelSpec.__dataclass_fields__` (`Gen/Names.lean`, regenerated from the package on every
run) — so a restored instance reads back the same spec as the live one, whatever else the instance
`__dict__` held (cached properties); a spec written to an instance dictionary is read back as
itself; and since `materialize`/`replay` are functions of the `Spec` (the ten fields) alone, the
restored spec replays identically. -/
theorem pickle_fields :
    fieldNames = Gen.modelSpecFields ∧
    (∀ d : PyDict, (∀ kv ∈ getstate d, kv.1 ∈ fieldNames) ∧ (∀ kv ∈ d, kv.1 ∈ fieldNames → kv ∈ getstate d)) ∧
    (∀ d : PyDict, Spec.ofDict (restore (getstate d)) = Spec.ofDict d) ∧
    (∀ (s : Spec) (extra : PyDict), Spec.ofDict (restore (getstate (s.toDict ++ extra))) = some s) ∧
    (∀ (env : Env) (s : Spec) (extra : PyDict) (f : Frame),
      (Spec.ofDict (restore (getstate (s.toDict ++ extra)))).map (fun s' => replay env s' f)
        = some (replay env s f)) := by
  refine ⟨by decide, fun d => ⟨getstate_keys d, getstate_keeps d⟩, ofDict_getstate, ?_, ?_⟩
  · intro s extra
    rw [ofDict_getstate, ofDict_toDict]
  · intro env s extra f
    rw [ofDict_getstate, ofDict_toDict]
    rfl


/-! ## 6. one materializer object, any history of calls

`Mat.getModelMatrix strict m env spec frame` is one `get_model_matrix(spec)` call on a materializer
object whose `factor_cache` holds `m` (left by earlier calls, possibly by a call that raised after
some factors had been evaluated under ANOTHER spec's state); factors are evaluated through the cache
(`if factor.expr not in self.factor_cache`). -/

/-- C04.6a  **Evaluation through the object's cache**: for distinct factor expressions none of which is
cached, the loop over `_evaluate_factor` is the pure evaluation `evalFactors` — same outcome, same
states — and the cache grows by exactly the evaluated factors, in order. -/
theorem evalFactors_through_cache (env : Env) (o : String) (f : Frame) (xs : List String) (hd : xs.Nodup)
    (c : Cache) (hc : ∀ x ∈ xs, c.any (fun g => g.expr == x) = false) (ts : TStates) (es : EStates) :
    match evalFactors env o f xs ts es with
    | .ok (c', ts', es') => evalFactorsOn env o f c xs ts es = (.ok (ts', es'), c ++ c')
    | .error e => (evalFactorsOn env o f c xs ts es).1 = .error e :=
  evalFactorsOn_spec env o f xs hd c hc ts es

/-- C04.6b  **A call on a used object is the call on a new object**: whatever the cache holds, the
outcome is `materialize env spec frame` — the function all theorems of section 4 are about.  With
`DataMismatchWarning` promoted to an error the outcome is that error or, again, `materialize`. -/
theorem materializer_call_is_pure (m : Cache) (env : Env) (spec : Spec) (f : Frame) :
    (Mat.getModelMatrix false m env spec f).1 = materialize env spec f ∧
    ((Mat.getModelMatrix true m env spec f).1 = materialize env spec f ∨
      ∃ e, (Mat.getModelMatrix true m env spec f).1 = .error e) := by
  refine ⟨getModelMatrix_eq m env spec f, ?_⟩
  have h := getModelMatrix_eq m env spec f
  unfold Mat.getModelMatrix at h ⊢
  cases hp : prepare spec with
  | error e => exact .inr ⟨e, rfl⟩
  | ok sp =>
    simp only [hp] at h ⊢
    generalize evalFactorsOn env sp.outputOr f [] (dedupStr sp.formula.flatten) sp.transformState
      sp.encoderState = r at h ⊢
    obtain ⟨r1, c⟩ := r
    cases r1 with
    | error e => exact .inr ⟨e, rfl⟩
    | ok tses =>
      obtain ⟨ts, es⟩ := tses
      simp only at h ⊢
      by_cases hu : unseenLevel env f sp es = true
      · exact .inr ⟨.dataMismatch, by simp [hu]⟩
      · left
        simp only [Bool.not_eq_true] at hu
        simpa [hu] using h

/-- C04.6c  **Any history on one object**: the outcomes of a sequence of calls (specs with different
recorded state, strict or not, failing or not, in any order) on ONE materializer object are, call by
call, the outcomes of the same calls on new objects — from any initial cache content. -/
theorem materializer_history (env : Env) (f : Frame) (m : Cache) (calls : List (Bool × Spec)) :
    Mat.run env f m calls = calls.map (fun c => (Mat.getModelMatrix c.1 [] env c.2 f).1) ∧
    ((∀ c ∈ calls, c.1 = false) → Mat.run env f m calls = calls.map (fun c => materialize env c.2 f)) := by
  refine ⟨run_history env f m calls, fun h => ?_⟩
  rw [run_history]
  apply List.map_congr_left
  intro c hc
  obtain ⟨strict, spec⟩ := c
  have : strict = false := h _ hc
  subst this
  exact getModelMatrix_eq [] env spec f

/-- the reset is what makes C04.6b true: WITHOUT it (`Mat.getModelMatrixStale`), the cache left by a call
for a spec fitted on rows 0-1 (mean of `x` = 2) makes a call for a spec fitted on rows 2-3 (mean 4)
return the first spec's centred column -/
example :
    ((materialize demoEnv (Spec.fresh [["1"], ["center(x)"]] true none "none") (demoFrame.select [0, 1])).toOption.bind fun r1 =>
     (materialize demoEnv (Spec.fresh [["1"], ["center(x)"]] true none "none") (demoFrame.select [2, 3])).toOption.bind fun r2 =>
       let c := (Mat.getModelMatrix false [] demoEnv r1.1 demoFrame).2
       some (((Mat.getModelMatrixStale c demoEnv r2.1 demoFrame).1.toOption.map (fun r => r.2.map (fun e => (e.name, e.col)))),
             ((Mat.getModelMatrix false c demoEnv r2.1 demoFrame).1.toOption.map (fun r => r.2.map (fun e => (e.name, e.col))))))
    = some (some [("Intercept", [1, 1, 1, 1]), ("center(x)", [-1, 1, 3, 1])],
            some [("Intercept", [1, 1, 1, 1]), ("center(x)", [-3, -1, 1, -1])]) := by
  decide +kernel

/-! ## 7. which transform a call denotes: argument binding against the LIVE signatures

`Gen.statefulSignatures` is `inspect.signature` of every stateful transform in `TRANSFORMS`,
regenerated on every run; the engine derives the transform description of every call node of a
formula from the call as written (`CallArgs.trOfCall`), so a changed default value or parameter
order in the code changes the model with it. -/

/-- C04.7a  **Binding**: whenever the arguments bind, every parameter of the signature gets exactly one
value, in signature order; without explicit arguments that value is the parameter's default; a
keyword argument is the value of its parameter. -/
theorem call_binding (ps : List CallArgs.Param) :
    (∀ pos kw b, CallArgs.bind ps pos kw = .ok b → b.map (·.1) = ps.map (·.1)) ∧
    (∀ b, CallArgs.bind ps [] [] = .ok b → ∀ n v, (n, v) ∈ b →
      ∃ p ∈ ps, p.1 = n ∧ ∃ r, p.2.2 = some r ∧ CallArgs.PyLit.ofRepr r = some v) ∧
    (∀ k v b, CallArgs.bind ps [] [(k, v)] = .ok b → (k, v) ∈ b) :=
  ⟨bind_names ps, bind_defaults ps, bind_keyword ps⟩

/-- C04.7b  the delegations written in the code: `center(x)` is `scale(x, scale=False)` and
`standardize(x, …)` is `scale(x, center=center, scale=rescale, ddof=ddof)` with `standardize`'s own
defaults — for ANY signature table in which `center` has no parameters of its own (true of the
live one: decided below). -/
theorem center_delegates (sigs : List (String × List CallArgs.Param)) (h : sigs.lookup "center" = some []) :
    CallArgs.trOfCall sigs "center" [] [] = CallArgs.trOfCall sigs "scale" [] [("scale", .bool false)] := by
  unfold CallArgs.trOfCall
  simp only [h]
  cases hs : sigs.lookup "scale" with
  | none => simp [CallArgs.bind, CallArgs.bindPos, CallArgs.bindKw, CallArgs.fillDefaults]
  | some sps =>
    simp only [CallArgs.bind, List.filter_nil, CallArgs.bindPos, CallArgs.bindKw, CallArgs.fillDefaults]
    simp

/-- the live table: `center` takes nothing but the data; the parameters of `scale` and of
`standardize` are the three the model reads, and every default of every stateful transform is a
literal the model understands -/
theorem live_signatures :
    Gen.statefulSignatures.lookup "center" = some [] ∧
    (Gen.statefulSignatures.lookup "scale").map (·.map (·.1)) = some ["center", "scale", "ddof"] ∧
    (Gen.statefulSignatures.lookup "standardize").map (·.map (·.1)) = some ["center", "rescale", "ddof"] ∧
    (Gen.statefulSignatures.all (fun s => s.2.all (fun p => match p.2.2 with
      | some r => (CallArgs.PyLit.ofRepr r).isSome
      | none => false))) = true ∧
    registeredOutputs = ((Gen.materializerOutputs.lookup "pandas").getD []) := by
  decide

/-- non-vacuity: `scale(x, ddof=0)`, `poly(x, 2, raw=True)` and `standardize(x)` bound against the live table -/
example :
    CallArgs.bind ((Gen.statefulSignatures.lookup "scale").getD []) [] [("ddof", .num 0)]
      = .ok [("center", .bool true), ("scale", .bool true), ("ddof", .num 0)] ∧
    CallArgs.bind ((Gen.statefulSignatures.lookup "poly").getD []) [.num 2] [("raw", .bool true)]
      = .ok [("degree", .num 2), ("raw", .bool true)] ∧
    CallArgs.bind ((Gen.statefulSignatures.lookup "standardize").getD []) [] []
      = .ok [("center", .bool true), ("rescale", .bool true), ("ddof", .num 0)] ∧
    CallArgs.bind ((Gen.statefulSignatures.lookup "poly").getD []) [.num 2, .bool true, .num 1] []
      = .error .tooManyPositional ∧
    CallArgs.bind ((Gen.statefulSignatures.lookup "poly").getD []) [.num 2] [("degree", .num 3)]
      = .error (.multipleValues "degree") := by
  decide +kernel

/-! ## 8. structured specs (`lhs ~ a | b`: a `ModelSpecs`) -/

/-- C04.8  **Every part of a structured fit carries the state of all its stateful calls.**
`materializeParts` is `get_model_matrix` on several specs (pooled transform state, written back into
every part).  The spec attached to each part of a fit is `Ready` on its own — every stateful call of
its factors, NESTED ones included (`bs(center(x))`, `I(scale(z) * 2)`, `center(y) ~ poly(scale(x), 2)`),
finds its recorded state — and replaying it alone on the training frame reproduces that part; so
`replay_select`, `replay_rowwise`, `replay_names` and `replay_state_unchanged` apply to every part's
spec as they are. -/
theorem structured_parts_ready (env : Env) (specs : List Spec) (hnone : ∀ s ∈ specs, s.structure_ = none)
    (hsc : StatesComplete env (poolOf specs)) (f : Frame) (rs : List (Spec × List Entry))
    (h : materializeParts env specs f = .ok rs) :
    ∀ r ∈ rs, Ready env r.1 ∧ StatesComplete env r.1.transformState ∧ materialize env r.1 f = .ok r ∧
      replay env r.1 f = .ok r.2 := by
  intro r hr
  obtain ⟨h1, h2, h3⟩ := materializeParts_fit env specs hnone hsc f rs h r hr
  exact ⟨h1, h2, h3, by simp only [replay, h3]⟩

/-- the hypotheses hold for the fresh specs of a formula -/
example (env : Env) (fs : List (List MTerm)) :
    (∀ s ∈ fs.map (fun t => Spec.fresh t true none "none"), s.structure_ = none) ∧
      StatesComplete env (poolOf (fs.map (fun t => Spec.fresh t true none "none"))) := by
  refine ⟨fun s hs => ?_, ?_⟩
  · obtain ⟨t, _, rfl⟩ := List.mem_map.1 hs; rfl
  · have : poolOf (fs.map (fun t => Spec.fresh t true none "none")) = [] := by
      unfold poolOf
      induction fs with
      | nil => rfl
      | cons a r ih => simpa [List.foldl, Spec.fresh] using ih
    rw [this]
    intro _ _ _ _ _ h
    simp [getKey] at h

/-- non-vacuity: `center(x) ~ A` and `1 + center(x)` as two parts — both parts carry the state of `center(x)` -/
example :
    ((materializeParts demoEnv [Spec.fresh [["center(x)"]] true none "none", Spec.fresh [["1"], ["center(x)"], ["A"]] true none "none"]
        demoFrame).toOption.map (fun rs => rs.map (fun r => (r.1.transformState.map (·.1), r.2.map (fun e => (e.name, e.col))))))
    = some [(["center(x)"], [("center(x)", [-2, 0, 2, 0])]),
            (["center(x)"], [("Intercept", [1, 1, 1, 1]), ("center(x)", [-2, 0, 2, 0]), ("A[T.b]", [0, 1, 0, 0]),
                             ("A[T.c]", [0, 0, 1, 0])])] := by
  decide +kernel

end FormulaicVerif.Props.C04
