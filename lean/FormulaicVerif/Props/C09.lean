import FormulaicVerif.Proofs.C09Ext
import FormulaicVerif.Proofs.C09Order
/-! # C09 — Reusing a spec on incompatible data fails loudly and never reshapes columns

"When a recorded spec is applied to new data, a factor whose kind (categorical versus numerical)
differs from the recorded one causes an encoding error instead of a matrix; levels absent from the
new data still produce their (all-zero) columns; and levels unseen at fit time never add, remove or
rename columns and are announced with a data-mismatch warning."

Property theorems only, about `Model.Reuse.replay` and `Model.Reuse.replayDerived` (= `derive`, then
`replay`) — the functions the correspondence engine runs — for ALL recorded specs (lists of parts),
derivation histories (part / subset / round trip), follow-up frames and set-iteration orders. Helper lemmas
are in `Proofs/C09.lean`. Every `theorem` here is audited with `#print axioms`. -/

namespace FormulaicVerif.Props.C09
open FormulaicVerif.Model.Reuse FormulaicVerif.Proofs.C09

/-! ## Clause 1 — a kind change is an encoding error, never a matrix -/

/-- C09.0  The spec `_evaluate_factor` is handed (the pooled evaluation spec) carries the recorded
kind of every factor any part recorded: for a single recorded spec its `encoder_state` verbatim,
for several parts the `dict.update` pooling (any part's record is visible; when the parts agree on
the kind, that kind). This is the link D10 was missing. -/
theorem eval_spec_sees_recorded_kinds (specs : List Spec) (es : EvalSpec)
    (hes : prepareEvalSpec specs = .ok es) :
    (∀ s, specs = [s] → ∀ e, dget e es.encoderState = dget e s.encoderState) ∧
    (∀ s ∈ specs, ∀ e r, dget e s.encoderState = some r →
      (∀ s' ∈ specs, ∀ r', dget e s'.encoderState = some r' → r'.kind = r.kind) →
      ∃ r', dget e es.encoderState = some r' ∧ r'.kind = r.kind) := by
  have henc := prepareEvalSpec_enc specs es hes
  refine ⟨?_, ?_⟩
  · intro s hs e
    subst hs
    simp [henc, poolEnc, dupdate]
  · intro s hs e r hr hagree
    have hsome := poolEnc_some e specs [] (Or.inr ⟨s, hs, by simp [hr]⟩)
    rw [← henc] at hsome
    cases hd : dget e es.encoderState with
    | none => simp [hd] at hsome
    | some r' =>
      refine ⟨r', rfl, ?_⟩
      rw [henc] at hd
      exact poolEnc_kind e r.kind specs [] (by simp [dget]) hagree r' hd

/-- a factor that occurs in a term of ANY degree (alone or inside any interaction) of any part is
a member of the pooled factor set that `get_model_matrix` evaluates -/
theorem every_term_factor_is_evaluated (specs : List Spec) (s : Spec) (t : List FactorDecl)
    (d : FactorDecl) (hs : s ∈ specs) (ht : t ∈ s.terms) (hd : d ∈ t) :
    ∃ d' ∈ pooledFactors specs, d'.expr = d.expr :=
  pooled_covers specs s t d hs ht hd

/-- C09.1a  `kind_change_is_error`: if a pooled factor (standing alone or inside any interaction —
see `every_term_factor_is_evaluated`) has on the new data a kind different from the one the
evaluation spec records for it, the replay raises `FactorEncodingError`, provided no other factor
fails in a different way (a missing column, nulls under `na_action='raise'`) — in every iteration
order of the factor set. -/
theorem kind_change_is_error (specs : List Spec) (fr : Frame) (order : List String) (es : EvalSpec)
    (d : FactorDecl) (r : RecState) (k : Kind)
    (hes : prepareEvalSpec specs = .ok es)
    (hd : d ∈ pooledFactors specs) (hord : d.expr ∈ order)
    (hrec : dget d.expr es.encoderState = some r)
    (hk : newKind fr d = .ok k) (hne : k ≠ r.kind)
    (hothers : ∀ g ∈ pooledFactors specs, ∀ dr e', evalFactor es fr g dr = .error e' → e' = .factorEncoding) :
    replay specs fr order = .error .factorEncoding := by
  obtain ⟨pre, post, hsplit, hfirst⟩ := orderedFactors_split specs order d hd hord
  have hsub := orderedFactors_sub specs order
  have := evalPhase_error_at es fr .factorEncoding d
    (fun dr => evalFactor_kind_change es fr d dr k r hk hrec hne) pre post [] [] rfl hfirst
    (fun g hg dr e' he => hothers g (hsub g (by rw [hsplit]; simp [hg])) dr e' he)
  simp [replay, hes, hsplit, this]

/-- C09.1b  `kind_change_never_matrix`: with no side condition at all, a kind change means the
replay is an error — it never returns a matrix. -/
theorem kind_change_never_matrix (specs : List Spec) (fr : Frame) (order : List String) (es : EvalSpec)
    (d : FactorDecl) (r : RecState) (k : Kind)
    (hes : prepareEvalSpec specs = .ok es)
    (hd : d ∈ pooledFactors specs) (hord : d.expr ∈ order)
    (hrec : dget d.expr es.encoderState = some r)
    (hk : newKind fr d = .ok k) (hne : k ≠ r.kind) :
    ∃ e, replay specs fr order = .error e := by
  obtain ⟨pre, post, hsplit, hfirst⟩ := orderedFactors_split specs order d hd hord
  obtain ⟨e, he⟩ := evalPhase_never_ok es fr .factorEncoding d
    (fun dr => evalFactor_kind_change es fr d dr k r hk hrec hne) pre post [] [] rfl hfirst
  exact ⟨e, by simp [replay, hes, hsplit, he]⟩

/-- C09.4  `enforce_never_broadcasts_kind_change`: whenever a replay gets as far as
`_enforce_structure` — in particular whenever its 1 → many padding branch copies a single
generated column under several recorded names — every evaluated factor has exactly the kind the
evaluation spec records for it. The padding branch is unreachable under a kind change. -/
theorem enforce_never_broadcasts_kind_change (specs : List Spec) (fr : Frame) (order : List String)
    (es : EvalSpec) (rs : List Result) (res : Result)
    (hes : prepareEvalSpec specs = .ok es)
    (hrun : replay specs fr order = .ok rs) (_hres : res ∈ rs) (_hb : Branch.broadcast ∈ res.branches) :
    ∀ d ∈ pooledFactors specs, d.expr ∈ order → ∀ r k,
      dget d.expr es.encoderState = some r → newKind fr d = .ok k → k = r.kind := by
  intro d hd hord r k hrec hk
  apply Classical.byContradiction
  intro hne
  obtain ⟨e, he⟩ := kind_change_never_matrix specs fr order es d r k hes hd hord hrec hk hne
  rw [he] at hrun
  simp at hrun

/-! ## Clauses 2 and 3 — the column names never change -/

/-- C09.2a/3a  `replay_names_recorded`: every matrix a replay returns carries exactly the recorded
column names of its part, in the recorded order — whatever the data contained, whatever branch of
`_enforce_structure` was taken. (`dictKeys` = the names as dict keys; for a recorded structure
whose per-term names are distinct, as every fit produces, this is `spec.column_names`.) -/
theorem replay_names_recorded (specs : List Spec) (fr : Frame) (order : List String) (rs : List Result)
    (h : replay specs fr order = .ok rs) :
    rs.length = specs.length ∧ ∀ p ∈ specs.zip rs,
      p.2.names = p.1.structure_.flatMap (fun t => dictKeys t.columns) ∧
      ((∀ t ∈ p.1.structure_, t.columns.Nodup) → p.2.names = p.1.columnNames) := by
  obtain ⟨es, cache, drop, _, _, hb⟩ := replay_ok specs fr order rs h
  obtain ⟨hl, hz⟩ := buildAll_zip fr drop cache specs rs hb
  refine ⟨hl, fun p hp => ?_⟩
  have hn := buildMatrix_names p.1 fr drop cache p.2 (hz p hp)
  refine ⟨hn, fun hnd => ?_⟩
  rw [hn, flatMap_dictKeys_nodup _ hnd]
  rfl

/-- C09.2b  `pinned_levels_fix_columns`: encoding a dummy-coded categorical factor (a bare column or
`C(x)`) against nominated levels — the recorded ones, or an explicit `levels=` — yields one column per
level (minus the reference level under reduced rank), named from the level alone; cell by cell it is
the indicator of that level; the column of a level that no retained row holds is therefore present
and all zero. (The levels are distinct, as `pandas.Categorical` demands; the last hypothesis excludes
the one route on which `Contrasts.apply` refuses an empty encoding: `C(x)` under `output='narwhals'`.) -/
theorem pinned_levels_fix_columns (s : Spec) (fr : Frame) (drop : List Nat) (ev : Evaled) (red : Bool)
    (L : List Val) (hk : ev.kind = .categorical) (hp : nominatedLevels s ev.decl = some L)
    (hnd : hasDupVal L = false) (hc : (callArgs ev.decl).1 = .default)
    (hsc : encoderShortCircuitFails s.output ev.decl.via L red = false) :
    ∃ cols w, encodeFactor s fr drop ev red = .ok (cols, w) ∧
      cols.map (·.name) = (if red then L.drop 1 else L).map (levelName ev.decl.expr red) ∧
      (∀ c, c ∈ cols ↔ ∃ l ∈ (if red then L.drop 1 else L),
          c = ⟨levelName ev.decl.expr red l, (dropRows drop ev.cells).map (indicator l)⟩) ∧
      (∀ l ∈ (if red then L.drop 1 else L), some l ∉ dropRows drop ev.cells →
          (⟨levelName ev.decl.expr red l, List.replicate (dropRows drop ev.cells).length (some 0)⟩ : EncCol) ∈ cols) := by
  refine ⟨_, _, encodeFactor_pinned s fr drop ev red L hk hp hnd hc hsc, dummyColumns_names _ _ _ _,
    fun c => dummyColumns_mem _ _ _ _ c, ?_⟩
  intro l hl habs
  rw [dummyColumns_mem]
  exact ⟨l, hl, by rw [indicator_absent l _ habs]⟩

/-- C09.2c  `absent_levels_zero_columns`: in a successful replay every part comes out under its
recorded names, and for every term that `_enforce_structure` let through unchanged, each final
column IS one of the term's generated columns, which is the intercept or the scaled product of one
encoded column per factor; if one of those is the dummy column of a recorded level absent from the
retained rows, the final column is zero wherever it is a number, and all zero when no multiplied
column holds a NaN. -/
theorem absent_levels_zero_columns (specs : List Spec) (fr : Frame) (order : List String)
    (rs : List Result) (h : replay specs fr order = .ok rs) :
    ∃ cache drop, ∀ p ∈ specs.zip rs,
      p.2.names = p.1.structure_.flatMap (fun t => dictKeys t.columns) ∧
      ∃ runs : List TermRun, runs.map (·.t) = p.1.structure_ ∧ p.2.cols = runs.flatMap (·.fin) ∧
        p.2.branches = runs.map (·.branch) ∧
        ∀ r ∈ runs, r.branch = .exact →
          (∀ e, e ∈ r.fin ↔ e ∈ r.gen) ∧
          ∀ e ∈ r.fin, RawOrigin p.1 fr drop cache r.t e ∧
            ∀ (scale : Rat) (rp : List EncCol) (ev : Evaled) (red : Bool) (L : List Val) (l : Val),
              productEntry scale rp = .ok e →
              ev.kind = .categorical → nominatedLevels p.1 ev.decl = some L →
              some l ∉ dropRows drop ev.cells →
              (⟨levelName ev.decl.expr red l, (dropRows drop ev.cells).map (indicator l)⟩ : EncCol) ∈ rp →
              ZeroOrNaN e.vals ∧ ((∀ c ∈ rp, NoNaN c.vals) → ∀ v ∈ e.vals, v = some 0) := by
  obtain ⟨es, cache, drop, _, _, hb⟩ := replay_ok specs fr order rs h
  obtain ⟨_, hz⟩ := buildAll_zip fr drop cache specs rs hb
  refine ⟨cache, drop, fun p hp => ?_⟩
  have hbm := hz p hp
  refine ⟨buildMatrix_names p.1 fr drop cache p.2 hbm, ?_⟩
  obtain ⟨runs, h1, h2, h3, _, h5, _⟩ := buildMatrix_runs p.1 fr drop cache p.2 hbm
  refine ⟨runs, h1, h3, h5, ?_⟩
  intro r hr hex
  obtain ⟨hgen, henf⟩ := h2 r hr
  rw [hex] at henf
  obtain ⟨hnd, horig⟩ := termColumns_inv p.1 fr drop cache r.t r.gen r.warn hgen
  obtain ⟨ha, hb'⟩ := enforce_exact_mem _ r.gen r.t.columns r.fin henf hnd
  refine ⟨fun e => ⟨ha e, hb' e⟩, ?_⟩
  intro e he
  refine ⟨horig e (ha e he), ?_⟩
  intro scale rp ev red L l hpe _ _ habs hmem
  apply productEntry_zero scale rp e _ hpe hmem
  intro v hv
  simp only at hv
  rw [indicator_absent l _ habs] at hv
  left
  exact (List.mem_replicate.mp hv).2

/-! ## Clause 3 — unseen levels: no reshaping, and a warning -/

/-- C09.3b  `generated_names_data_independent`: the column names a term generates BEFORE
`_enforce_structure` are a function (`termNames`) of the recorded spec and of the KINDS of its
factors only. Two replays of the same spec on any two data sets whose factors have the same kinds
generate the same names — values unseen at fit time, or lost levels, cannot add, remove or rename a
column. (The hypothesis `isSome` holds as soon as every categorical factor of the term has pinned
levels: `termNames_defined`.) -/
theorem generated_names_data_independent (s : Spec) (t : TermStruct)
    (fr₁ fr₂ : Frame) (drop₁ drop₂ : List Nat) (cache₁ cache₂ : Cache)
    (gen₁ gen₂ : List EncCol) (w₁ w₂ : Bool)
    (hc₁ : Coherent cache₁) (hc₂ : Coherent cache₂)
    (hk : ∀ e, kindOf cache₁ e = kindOf cache₂ e)
    (hdef : (termNames s (kindOf cache₁) t).isSome)
    (h₁ : termColumns s fr₁ drop₁ cache₁ t = .ok (gen₁, w₁))
    (h₂ : termColumns s fr₂ drop₂ cache₂ t = .ok (gen₂, w₂)) :
    gen₁.map (·.name) = gen₂.map (·.name) := by
  have hfun : kindOf cache₁ = kindOf cache₂ := funext hk
  cases hn : termNames s (kindOf cache₁) t with
  | none => simp [hn] at hdef
  | some ns =>
    rw [termColumns_names s fr₁ drop₁ cache₁ hc₁ t gen₁ w₁ ns h₁ hn,
      termColumns_names s fr₂ drop₂ cache₂ hc₂ t gen₂ w₂ ns h₂ (hfun ▸ hn)]

theorem termNames_defined (s : Spec) (ko : String → Option (Kind × FactorDecl)) (t : TermStruct)
    (h : ∀ st ∈ t.scopedTerms, ∀ sf ∈ st.factors, ∃ k d, ko sf.expr = some (k, d) ∧
      (k = .categorical → ∃ L, nominatedLevels s d = some L ∧
        (codedNames d.expr (callArgs d).1 sf.reduced L).isSome)) : (termNames s ko t).isSome :=
  termNames_isSome s ko t h

/-- the cache a successful evaluation phase leaves behind is keyed coherently, every entry has the
kind `newKind` computes, and that kind is the recorded one wherever the evaluation spec records one -/
theorem evaluated_cache_agrees (es : EvalSpec) (fr : Frame) (fs : List FactorDecl) (cache : Cache)
    (drop : List Nat) (h : evalPhase es fr fs [] [] = .ok (cache, drop)) :
    Coherent cache ∧ ∀ k ev, dget k cache = some ev →
      newKind fr ev.decl = .ok ev.kind ∧ ∀ r, dget k es.encoderState = some r → ev.kind = r.kind := by
  obtain ⟨hc, hok⟩ := evalPhase_cache es fr fs cache drop h
  exact ⟨hc, fun k ev hd => ⟨(hok k ev hd).kind, (hok k ev hd).recorded⟩⟩

/-- C09.3c  `consistent_spec_never_reshaped`: if the names the spec itself generates for a term
(`termNames`, data-independent) are, in number and as a set, the recorded names of that term —
true of every spec produced by a fit — then on ANY data with those kinds `_enforce_structure`
takes its pass-through branch: no padding, no zero filling, no error, and the final columns are
exactly the generated ones. -/
theorem consistent_spec_never_reshaped (s : Spec) (fr : Frame) (drop : List Nat) (cache : Cache)
    (t : TermStruct) (gen : List EncCol) (w : Bool) (ns : List String) (zero : List (Option Rat))
    (hc : Coherent cache)
    (hn : termNames s (kindOf cache) t = some ns)
    (hlen : ns.length = t.columns.length) (hset : sameNameSet ns t.columns = true)
    (h : termColumns s fr drop cache t = .ok (gen, w)) :
    ∃ cols, enforceTerm zero gen t.columns = .ok (.exact, cols) ∧
      cols.map (·.name) = dictKeys t.columns ∧ (∀ e, e ∈ cols ↔ e ∈ gen) := by
  have hnames := termColumns_names s fr drop cache hc t gen w ns h hn
  have hl : gen.length = t.columns.length := by
    rw [← hlen, ← hnames]; simp
  obtain ⟨cols, hcols⟩ := enforce_exact zero gen t.columns hl (by rw [hnames]; exact hset)
  obtain ⟨hnd, _⟩ := termColumns_inv s fr drop cache t gen w h
  obtain ⟨ha, hb⟩ := enforce_exact_mem zero gen t.columns cols hcols hnd
  exact ⟨cols, hcols, enforceTerm_names zero gen t.columns _ cols hcols, fun e => ⟨ha e, hb e⟩⟩

/-- C09.3d  an unseen value (or a null) is an all-zero row of the dummy coding -/
theorem unseen_value_zero_row (L : List Val) (c : Cell) (hc : ∀ l ∈ L, c ≠ some l) :
    ∀ l ∈ L, indicator l c = some 0 :=
  fun l hl => indicator_unseen L c hc l hl

/-- C09.3e  `unseen_levels_no_reshape`: a successful replay returns every part under its recorded
names, and a part's `DataMismatchWarning` flag is raised EXACTLY when some categorical factor that
the structure encodes has pinned levels and a retained cell that is not one of them (an unseen
value, or a null — nulls survive only under `na_action='ignore'`). Under `na_action='drop'` the
condition is: some non-null retained value is not a recorded level. -/
theorem unseen_levels_no_reshape (specs : List Spec) (fr : Frame) (order : List String)
    (rs : List Result) (h : replay specs fr order = .ok rs) :
    ∃ es cache drop, prepareEvalSpec specs = .ok es ∧ ∀ p ∈ specs.zip rs,
      p.2.names = p.1.structure_.flatMap (fun t => dictKeys t.columns) ∧
      (p.2.warn = true ↔ ∃ t ∈ p.1.structure_, ∃ st ∈ t.scopedTerms, ∃ sf ∈ st.factors, ∃ ev,
          dget sf.expr cache = some ev ∧ FactorWarns p.1 drop ev) ∧
      (es.naAction = .drop → ∀ sf ev, dget sf cache = some ev →
        (FactorWarns p.1 drop ev ↔ ev.kind = .categorical ∧ ∃ L, nominatedLevels p.1 ev.decl = some L ∧
          ∃ v, some v ∈ dropRows drop ev.cells ∧ v ∉ L)) := by
  obtain ⟨es, cache, drop, hes, hev, hb⟩ := replay_ok specs fr order rs h
  obtain ⟨_, hz⟩ := buildAll_zip fr drop cache specs rs hb
  obtain ⟨_, hok⟩ := evalPhase_cache es fr _ cache drop hev
  refine ⟨es, cache, drop, hes, fun p hp => ?_⟩
  have hbm := hz p hp
  refine ⟨buildMatrix_names p.1 fr drop cache p.2 hbm, buildMatrix_warn p.1 fr drop cache p.2 hbm, ?_⟩
  intro hna sf ev hd
  have hnn := retained_non_null es fr drop sf ev (hok sf ev hd) hna
  unfold FactorWarns
  constructor
  · rintro ⟨hk, L, hL, c, hc, hcase⟩
    refine ⟨hk, L, hL, ?_⟩
    rcases hcase with rfl | ⟨v, rfl, hv⟩
    · exact absurd rfl (hnn none hc)
    · exact ⟨v, hc, hv⟩
  · rintro ⟨hk, L, hL, v, hv, hvL⟩
    exact ⟨hk, L, hL, some v, hv, Or.inr ⟨v, rfl, hvL⟩⟩


/-! ## Histories — a spec DERIVED from a recorded one (a part used alone, `subset`, a pickle round
trip) is reused with the state recorded at fit time -/

/-- C09.5a  `derived_spec_keeps_record`: every spec a derivation history produces descends from one
of the recorded specs and carries that spec's `encoder_state` (recorded kinds and levels),
`transform_state` and settings verbatim; its terms and structure rows are terms and rows of that
spec (so its column names are recorded column names). -/
theorem derived_spec_keeps_record (specs specs' : List Spec) (steps : List Step)
    (h : derive specs steps = .ok specs') :
    ∀ s' ∈ specs', ∃ s ∈ specs,
      s'.encoderState = s.encoderState ∧ s'.transformState = s.transformState ∧
      s'.naAction = s.naAction ∧ s'.ensureFullRank = s.ensureFullRank ∧ s'.output = s.output ∧
      (∀ t ∈ s'.terms, t ∈ s.terms) ∧ (∀ t ∈ s'.structure_, t ∈ s.structure_) ∧
      (∀ d, nominatedLevels s' d = nominatedLevels s d) := by
  intro s' hs'
  obtain ⟨s, hs, hd⟩ := derive_derived steps specs specs' h s' hs'
  exact ⟨s, hs, hd.enc, hd.ts, hd.na, hd.efr, hd.out, hd.terms, hd.rows,
    fun d => by simp [nominatedLevels, hd.enc]⟩

/-- C09.5b  `derived_kind_change_never_matrix`: reuse of a derived single spec (any history of
part / subset / round-trip steps): a factor of ANY retained term — alone or only inside an
interaction — whose kind on the new data differs from the kind recorded by the spec it descends
from makes the reuse an error, never a matrix. -/
theorem derived_kind_change_never_matrix (specs : List Spec) (steps : List Step) (s' : Spec)
    (fr : Frame) (order : List String) (hder : derive specs steps = .ok [s']) :
    ∃ s ∈ specs, s'.encoderState = s.encoderState ∧
      ∀ d ∈ pooledFactors [s'], d.expr ∈ order → ∀ r k,
        dget d.expr s.encoderState = some r → newKind fr d = .ok k → k ≠ r.kind →
        ∃ e, replayDerived specs steps fr order = .error e := by
  obtain ⟨s, hs, hd⟩ := derive_derived steps specs [s'] hder s' (by simp)
  refine ⟨s, hs, hd.enc, ?_⟩
  intro d hdm hord r k hrec hk hne
  obtain ⟨es, hes⟩ : ∃ es, prepareEvalSpec [s'] = .ok es := by simp [prepareEvalSpec]
  have hsee := (eval_spec_sees_recorded_kinds [s'] es hes).1 s' rfl d.expr
  rw [hd.enc] at hsee
  obtain ⟨e, he⟩ := kind_change_never_matrix [s'] fr order es d r k hes hdm hord (hsee.trans hrec) hk hne
  exact ⟨e, by simp [replayDerived, hder, he]⟩

/-- C09.5c  `derived_kind_change_is_error`: … and the error is `FactorEncodingError` when no other
factor of the derived spec fails in a different way. -/
theorem derived_kind_change_is_error (specs : List Spec) (steps : List Step) (s' : Spec)
    (fr : Frame) (order : List String) (es : EvalSpec)
    (hder : derive specs steps = .ok [s']) (hes : prepareEvalSpec [s'] = .ok es) :
    ∃ s ∈ specs, s'.encoderState = s.encoderState ∧
      ∀ d ∈ pooledFactors [s'], d.expr ∈ order → ∀ r k,
        dget d.expr s.encoderState = some r → newKind fr d = .ok k → k ≠ r.kind →
        (∀ g ∈ pooledFactors [s'], ∀ dr e', evalFactor es fr g dr = .error e' → e' = .factorEncoding) →
        replayDerived specs steps fr order = .error .factorEncoding := by
  obtain ⟨s, hs, hd⟩ := derive_derived steps specs [s'] hder s' (by simp)
  refine ⟨s, hs, hd.enc, ?_⟩
  intro d hdm hord r k hrec hk hne hothers
  have hsee := (eval_spec_sees_recorded_kinds [s'] es hes).1 s' rfl d.expr
  rw [hd.enc] at hsee
  have := kind_change_is_error [s'] fr order es d r k hes hdm hord (hsee.trans hrec) hk hne hothers
  simp [replayDerived, hder, this]

/-- C09.5d  `derived_names_recorded`: a successful reuse of derived specs returns, per derived
spec, exactly the column names of its structure rows — which are rows of a recorded spec — and its
pinned levels are that spec's recorded levels (so `pinned_levels_fix_columns`,
`absent_levels_zero_columns` and `unseen_levels_no_reshape` speak about the levels recorded at fit
time). -/
theorem derived_names_recorded (specs : List Spec) (steps : List Step) (fr : Frame)
    (order : List String) (rs : List Result) (h : replayDerived specs steps fr order = .ok rs) :
    ∃ specs', derive specs steps = .ok specs' ∧ replay specs' fr order = .ok rs ∧
      rs.length = specs'.length ∧ ∀ p ∈ specs'.zip rs,
        p.2.names = p.1.structure_.flatMap (fun t => dictKeys t.columns) ∧
        ∃ s ∈ specs, (∀ t ∈ p.1.structure_, t ∈ s.structure_) ∧
          ∀ d, nominatedLevels p.1 d = nominatedLevels s d := by
  unfold replayDerived at h
  cases hd : derive specs steps with
  | error e => simp [hd] at h
  | ok specs' =>
    simp only [hd] at h
    obtain ⟨hl, hz⟩ := replay_names_recorded specs' fr order rs h
    refine ⟨specs', rfl, h, hl, fun p hp => ⟨(hz p hp).1, ?_⟩⟩
    obtain ⟨s, hs, _, _, _, _, _, _, hrows, hpin⟩ :=
      derived_spec_keeps_record specs specs' steps hd p.1 (List.of_mem_zip hp).1
    exact ⟨s, hs, hrows, hpin⟩


/-! ## Contrasts other than the default treatment coding (`C(x, contr.…)`, custom contrasts), explicit
`levels=` — reuse against nominated levels for an ARBITRARY coding matrix -/

/-- C09.6a  `coded_columns_fixed_by_levels`: whatever the contrast — treatment/SAS with a base, sum,
Helmert, difference, polynomial, a custom matrix or dictionary — the encoding of a categorical factor
against nominated levels `L` succeeds or fails, and names its columns, in a way that does not depend
on any cell of the data: levels lost or gained by the new data cannot add, remove or rename a column,
nor turn a working coding into a failing one. -/
theorem coded_columns_fixed_by_levels (expr : String) (c : Contr) (red : Bool) (L : List Val)
    (cells₁ cells₂ : List Cell) (cols₁ : List EncCol)
    (h : codedColumns expr c red L cells₁ = .ok cols₁) :
    ∃ cols₂, codedColumns expr c red L cells₂ = .ok cols₂ ∧
      cols₂.map (·.name) = cols₁.map (·.name) ∧ codedNames expr c red L = some (cols₁.map (·.name)) := by
  have h1 := codedColumns_names expr c red L cells₁ cols₁ h
  obtain ⟨cols₂, h2⟩ := codedColumns_total expr c red L cells₂ _ h1
  have h3 := codedColumns_names expr c red L cells₂ cols₂ h2
  exact ⟨cols₂, h2, by rw [h1] at h3; exact (Option.some.inj h3).symm, h1⟩

/-- C09.6a'  `builtin_contrasts_always_codable`: the default coding, `contr.sum`, `contr.helmert` and
`contr.diff` (any options) can be coded against ANY list of nominated levels — so for them the
hypothesis of `termNames_defined` asks for nominated levels only, and no data set can make a reuse of
such a factor fail in `Contrasts.apply`. (`contr.treatment/SAS` need their base among the levels,
`contr.poly` as many scores as levels, a custom matrix as many rows as levels.) -/
theorem builtin_contrasts_always_codable (expr : String) (c : Contr) (red : Bool) (L : List Val) (cells : List Cell)
    (hc : c = .default ∨ c = .sum ∨ (∃ r s, c = .helmert r s) ∨ (∃ b, c = .diff b)) :
    (codedNames expr c red L).isSome ∧ ∃ cols, codedColumns expr c red L cells = .ok cols := by
  have h := codedNames_builtin expr c red L hc
  refine ⟨h, ?_⟩
  cases hn : codedNames expr c red L with
  | none => simp [hn] at h
  | some ns => exact codedColumns_total expr c red L cells ns hn

/-- C09.6b  `coded_cell_is_matrix_row`: `dummies @ coding_matrix` cell by cell, for ANY coding matrix
`M` (one row per level) and distinct levels: a cell holding the `i`-th level contributes entry
`M[i][j]` to coded column `j`; a cell holding none of the levels — a value unseen at fit time, a
null — contributes 0 to every coded column (the zero row, as for the dummy coding). A level that is
absent from the new data simply never selects its row: its columns are still there. -/
theorem coded_cell_is_matrix_row (L : List Val) (M : List (List Rat)) (j : Nat)
    (hnd : hasDupVal L = false) (hM : ∀ row ∈ M, j < row.length) :
    (∀ (i : Nat) (hi : i < L.length) (row : List Rat) (v : Rat), M[i]? = some row → row[j]? = some v →
        codedCell L M j (some L[i]) = some v) ∧
    (∀ c : Cell, (∀ l ∈ L, c ≠ some l) → codedCell L M j c = some 0) :=
  codedCell_row L M j ((hasDupVal_false_iff L).mp hnd) hM

/-- C09.6c  `contrast_coded_factor_on_reuse`: a categorical factor coded by a matrix contrast (sum,
Helmert, difference, polynomial, custom) that is successfully encoded against nominated levels `L`
(recorded at fit time, or an explicit `levels=`): the levels are distinct; the warning flag is raised
exactly when a retained cell is none of them; and the columns are those of `Contrasts.apply` — none at
all in the empty short-circuit, else one per coding column name (a function of the contrast and `L`
only), column `j` holding `dummies @ coding_matrix[:, j]` (see `coded_cell_is_matrix_row`), the matrix
having one row per nominated level. -/
theorem contrast_coded_factor_on_reuse (s : Spec) (fr : Frame) (drop : List Nat) (ev : Evaled) (red : Bool)
    (cols : List EncCol) (w : Bool) (L : List Val)
    (hk : ev.kind = .categorical) (hp : nominatedLevels s ev.decl = some L)
    (hc : IsMatrixCoded (callArgs ev.decl).1)
    (h : encodeFactor s fr drop ev red = .ok (cols, w)) :
    hasDupVal L = false ∧
    (w = true ↔ ∃ c ∈ dropRows drop ev.cells, c = none ∨ ∃ v, c = some v ∧ v ∉ L) ∧
    ((shortCircuit L red = true ∧ cols = []) ∨
      ∃ M fields, codingMatrix (callArgs ev.decl).1 L red = .ok M ∧ M.length = L.length ∧
        codingFields (callArgs ev.decl).1 L red = .ok fields ∧
        cols.map (·.name) = fields.map (fieldName (callArgs ev.decl).1 ev.decl.expr red) ∧
        ∀ (j : Nat) (f : String), fields[j]? = some f →
          cols[j]? = some ⟨fieldName (callArgs ev.decl).1 ev.decl.expr red f,
            (dropRows drop ev.cells).map (codedCell L M j)⟩) := by
  obtain ⟨_, L', hpl, _, hcc⟩ := encodeFactor_cat_ok s fr drop ev red cols w hk h
  rw [hp] at hpl
  obtain ⟨hnd, rfl, hw⟩ := pinnedLevels_some _ _ _ _ _ hpl
  refine ⟨hnd, by rw [hw, hasUnseen_iff], ?_⟩
  by_cases hsc : shortCircuit L' red = true
  · left
    rw [codedColumns_matrix _ _ hc] at hcc
    simp only [hsc, if_true, Except.ok.injEq] at hcc
    exact ⟨hsc, hcc.symm⟩
  · right
    exact matrix_coded_columns _ _ hc red L' _ cols hcc (by simpa using hsc)

/-- C09.6d  `treatment_base_on_reuse`: `contr.treatment(base)` / `contr.SAS(base)` on reuse: the dummy
columns of every nominated level but the base (all of them at full rank), named from the levels
alone; a level absent from the retained rows has an all-zero column; a base that is not among the
nominated levels is an error whatever the data. -/
theorem treatment_base_on_reuse (expr : String) (sas : Bool) (base : Option Val) (red : Bool) (L : List Val)
    (cells : List Cell) :
    (∀ cols, codedColumns expr (.treatment sas base) red L cells = .ok cols →
      (shortCircuit L red = true ∧ cols = []) ∨
      ∃ i, findBase sas base L = .ok i ∧
        cols = (if red then L.eraseIdx i else L).map
          (fun l => ⟨fieldName (.treatment sas base) expr red l.render, cells.map (indicator l)⟩) ∧
        ∀ l ∈ (if red then L.eraseIdx i else L), some l ∉ cells →
          (⟨fieldName (.treatment sas base) expr red l.render, List.replicate cells.length (some 0)⟩ : EncCol) ∈ cols) ∧
    (shortCircuit L red = false → (∃ e, findBase sas base L = .error e) →
      ∃ e, codedColumns expr (.treatment sas base) red L cells = .error e) := by
  refine ⟨?_, ?_⟩
  · intro cols h
    rcases treatment_coded_columns expr sas base red L cells cols h with h' | ⟨i, hi, hcols⟩
    · exact Or.inl h'
    · refine Or.inr ⟨i, hi, hcols, ?_⟩
      intro l hl habs
      rw [hcols, List.mem_map]
      exact ⟨l, hl, by rw [indicator_absent l _ habs]⟩
  · rintro hsc ⟨e, he⟩
    exact ⟨e, by simp [codedColumns, hsc, he]⟩

/-- C09.6e  `generated_columns_are_products_of_encodings`: in a successful replay, every column a
term generates is the intercept, or the scaled product of one column from the encoding of EACH factor
of one of its scoped terms — the encodings being those of `pinned_levels_fix_columns`,
`contrast_coded_factor_on_reuse` and `treatment_base_on_reuse`. So a contrast-coded factor enters an
interaction through rows of its coding matrix exactly as it enters a main effect. -/
theorem generated_columns_are_products_of_encodings (specs : List Spec) (fr : Frame) (order : List String)
    (rs : List Result) (h : replay specs fr order = .ok rs) :
    ∃ cache drop, ∀ p ∈ specs.zip rs,
      ∃ runs : List TermRun, runs.map (·.t) = p.1.structure_ ∧ p.2.cols = runs.flatMap (·.fin) ∧
        ∀ r ∈ runs, ∀ e ∈ r.gen, ∃ st ∈ r.t.scopedTerms,
          (e = ⟨"Intercept", List.replicate (nRetained fr drop) (some st.scale)⟩) ∨
          ∃ rp, productEntry st.scale rp = .ok e ∧
            ∀ c ∈ rp, ∃ sf ∈ st.factors, ∃ ev, dget sf.expr cache = some ev ∧
              ∃ enc w, encodeFactor p.1 fr drop ev sf.reduced = .ok (enc, w) ∧ c ∈ enc := by
  obtain ⟨es, cache, drop, _, _, hb⟩ := replay_ok specs fr order rs h
  obtain ⟨_, hz⟩ := buildAll_zip fr drop cache specs rs hb
  refine ⟨cache, drop, fun p hp => ?_⟩
  obtain ⟨runs, h1, h2, h3, _, _, _⟩ := buildMatrix_runs p.1 fr drop cache p.2 (hz p hp)
  refine ⟨runs, h1, h3, ?_⟩
  intro r hr e he
  obtain ⟨_, horig⟩ := termColumns_inv p.1 fr drop cache r.t r.gen r.warn (h2 r hr).1
  exact rawOrigin_factors p.1 fr drop cache r.t e (horig e he)

/-- C09.6f  `custom_names_mismatch_is_error`: `names=` that do not match the columns of a custom
contrast array / dictionary are the ValueError of `CustomContrasts.__init__` … -/
theorem custom_names_mismatch_is_error (a : CustomArg) (ns : List String) (v : List Rat) (vs : List (List Rat))
    (hn : a.names = some ns) (hv : a.vectors = v :: vs)
    (hm : ns.length ≠ (if a.isDict then a.vectors.length else v.length)) :
    customInit a = .error .valueError :=
  customInit_names_mismatch a ns v vs hn hv hm

/-- C09.6g  `bad_contrast_argument_never_matrix`: … and a factor whose `contr.custom(…)` argument cannot
be constructed on the reuse's evaluation context (mismatching names, a ragged matrix, an empty
dictionary) makes the replay an error — a `FactorEvaluationError` when no other factor fails
differently — never a matrix, in every iteration order. -/
theorem bad_contrast_argument_never_matrix (specs : List Spec) (fr : Frame) (order : List String)
    (es : EvalSpec) (d : FactorDecl) (c : Contr) (ls : Option (List Val)) (e : Err)
    (hes : prepareEvalSpec specs = .ok es) (hd : d ∈ pooledFactors specs) (hord : d.expr ∈ order)
    (hvia : d.via = .cwrap c ls) (hbad : ctorCheck c = .error e) :
    (∃ e', replay specs fr order = .error e') ∧
    ((∀ g ∈ pooledFactors specs, ∀ dr e', evalFactor es fr g dr = .error e' → e' = .factorEvaluation) →
      replay specs fr order = .error .factorEvaluation) := by
  obtain ⟨pre, post, hsplit, hfirst⟩ := orderedFactors_split specs order d hd hord
  have hev := fun dr => evalFactor_bad_ctor es fr d dr c ls e hvia hbad
  refine ⟨?_, ?_⟩
  · obtain ⟨e', he'⟩ := evalPhase_never_ok es fr .factorEvaluation d hev pre post [] [] rfl hfirst
    exact ⟨e', by simp [replay, hes, hsplit, he']⟩
  · intro hothers
    have := evalPhase_error_at es fr .factorEvaluation d hev pre post [] [] rfl hfirst
      (fun g hg dr e' he => hothers g (orderedFactors_sub specs order g (by rw [hsplit]; simp [hg])) dr e' he)
    simp [replay, hes, hsplit, this]

/-! ## Every route: outputs, `attr_overrides`, one materializer object serving several calls -/

/-- C09.7a  `replay_output_irrelevant`: the outcome of a reuse — error class, column names, values and
the `DataMismatchWarning` flag — is the same for every output other than `narwhals` (pandas, numpy,
sparse: the dense and the sparse encoder alike). The correspondence ties each of these routes, and
the pandas / narwhals / pyarrow input routes, to this one model. -/
theorem replay_output_irrelevant (o o' : Output) (ho : o ≠ .narwhals) (ho' : o' ≠ .narwhals)
    (specs : List Spec) (fr : Frame) (order : List String) :
    replayWith { output := some o } specs fr order = replayWith { output := some o' } specs fr order :=
  replayWith_output_irrelevant o o' ho ho' specs fr order

/-- C09.7b  `override_keeps_record`: `get_model_matrix(data, **attr_overrides)` cannot touch what was
recorded: encoder state (kinds and levels), structure, terms, transform state. -/
theorem override_keeps_record (o : Overrides) (s : Spec) :
    (o.apply s).encoderState = s.encoderState ∧ (o.apply s).structure_ = s.structure_ ∧
    (o.apply s).terms = s.terms ∧ (o.apply s).transformState = s.transformState ∧
    (∀ d, nominatedLevels (o.apply s) d = nominatedLevels s d) :=
  ⟨rfl, rfl, rfl, rfl, fun _ => rfl⟩

/-- C09.7c  `override_kind_change_never_matrix`: … so a kind change is an error under any overrides of
`na_action`, `output`, `ensure_full_rank` too. -/
theorem override_kind_change_never_matrix (o : Overrides) (s : Spec) (fr : Frame) (order : List String)
    (d : FactorDecl) (r : RecState) (k : Kind)
    (hd : d ∈ pooledFactors [s]) (hord : d.expr ∈ order)
    (hrec : dget d.expr s.encoderState = some r)
    (hk : newKind fr d = .ok k) (hne : k ≠ r.kind) :
    ∃ e, replayWith o [s] fr order = .error e := by
  obtain ⟨es, hes⟩ : ∃ es, prepareEvalSpec [o.apply s] = .ok es := by simp [prepareEvalSpec]
  have hsee := (eval_spec_sees_recorded_kinds [o.apply s] es hes).1 (o.apply s) rfl d.expr
  have hd' : d ∈ pooledFactors [o.apply s] := hd
  exact kind_change_never_matrix [o.apply s] fr order es d r k hes hd' hord (hsee.trans hrec) hk hne

/-- C09.7d  `override_names_recorded`: … and a successful reuse under overrides returns the recorded names. -/
theorem override_names_recorded (o : Overrides) (specs : List Spec) (fr : Frame) (order : List String)
    (rs : List Result) (h : replayWith o specs fr order = .ok rs) :
    rs.length = specs.length ∧ ∀ p ∈ specs.zip rs,
      p.2.names = p.1.structure_.flatMap (fun t => dictKeys t.columns) := by
  obtain ⟨hl, hz⟩ := replay_names_recorded (specs.map o.apply) fr order rs h
  refine ⟨by simpa using hl, ?_⟩
  intro p hp
  have : (o.apply p.1, p.2) ∈ (specs.map o.apply).zip rs := by
    rw [List.zip_map_left]
    exact List.mem_map.mpr ⟨p, hp, rfl⟩
  exact (hz _ this).1

/-- C09.7d'  `no_overrides_is_plain_reuse`: without overrides the call is the plain reuse the other
theorems speak about (the correspondence engine always runs `replayWith` / `replayDerivedWith`) -/
theorem no_overrides_is_plain_reuse (specs : List Spec) (steps : List Step) (fr : Frame) (order : List String) :
    replayWith {} specs fr order = replay specs fr order ∧
    replayDerivedWith {} specs steps fr order = replayDerived specs steps fr order := by
  have hid : ∀ l : List Spec, l.map ({} : Overrides).apply = l := by
    intro l
    conv => rhs; rw [← List.map_id l]
    apply List.map_congr_left
    intro s _
    cases s; rfl
  refine ⟨by simp [replayWith, hid], ?_⟩
  simp only [replayDerivedWith, replayDerived, replayWith, hid]

/-- C09.7e  `materializer_history_irrelevant`: `get_model_matrix` on a materializer OBJECT that already
served other calls — successful ones, or one that failed after its factors were evaluated — answers
exactly like a new materializer: whatever the object's `factor_cache` holds, the call starts by
emptying it, so every factor of the recorded spec goes through both kind guards again. -/
theorem materializer_history_irrelevant (m : MatState) (specs : List Spec) (fr : Frame) (order : List String) :
    (getModelMatrix m specs fr order).2 = replay specs fr order :=
  getModelMatrix_eq_replay m specs fr order

/-- C09.7f  `replay_order_irrelevant`: the order in which Python iterates the pooled `set` of factors
(a parameter of the model, recorded from the live run) does not influence a reuse: for any two
duplicate-free orders over the same expressions, one replay returns matrices iff the other does — the
very same names, values, warning flags and `_enforce_structure` branches — and one fails iff the other
fails (only WHICH factor's error surfaces first may differ). The rows to drop are collected as a set,
the factor cache is read by lookup, and every factor is evaluated on its own. -/
theorem replay_order_irrelevant (specs : List Spec) (fr : Frame) (o₁ o₂ : List String)
    (hn₁ : o₁.Nodup) (hn₂ : o₂.Nodup) (hm : ∀ e, e ∈ o₁ ↔ e ∈ o₂) :
    (∀ rs, replay specs fr o₁ = .ok rs ↔ replay specs fr o₂ = .ok rs) ∧
    ((∃ e, replay specs fr o₁ = .error e) ↔ (∃ e, replay specs fr o₂ = .error e)) := by
  have h12 := replay_order_ok specs fr o₁ o₂ hn₁ hn₂ hm
  have h21 := replay_order_ok specs fr o₂ o₁ hn₂ hn₁ (fun e => (hm e).symm)
  refine ⟨fun rs => ⟨h12 rs, h21 rs⟩, ?_⟩
  constructor
  · rintro ⟨e, he⟩
    cases h2 : replay specs fr o₂ with
    | error e' => exact ⟨e', rfl⟩
    | ok rs => rw [h21 rs h2] at he; simp at he
  · rintro ⟨e, he⟩
    cases h1 : replay specs fr o₁ with
    | error e' => exact ⟨e', rfl⟩
    | ok rs => rw [h12 rs h1] at he; simp at he

/-! ## Sessions: one recorded spec applied again and again -/

/-- C09.8a  `application_keeps_recorded_state`: an application leaves every recorded spec exactly as
it found it (encoder state included), provided the parts agree on the kind they record for a factor
and every entry of a categorical factor records the very levels the reuse nominates — its own
categories, equal to an explicit `levels=` argument if there is one. That is the state every fit
leaves. (Without recorded categories the first application writes the levels it found into the spec:
`specAfter`.) -/
theorem application_keeps_recorded_state (specs : List Spec) (fr : Frame) (order : List String)
    (rs : List Result) (specs' : List Spec)
    (h : replayState specs fr order = .ok (rs, specs'))
    (hkinds : ∀ s ∈ specs, ∀ s' ∈ specs, ∀ e r r', (e, r) ∈ s.encoderState →
      dget e s'.encoderState = some r' → r'.kind = r.kind)
    (hset : ∀ s ∈ specs, ∀ d ∈ pooledFactors specs, ∀ r, (d.expr, r) ∈ s.encoderState →
      r.kind = .categorical → ∃ L, nominatedLevels s d = some L ∧ r.levels = some L) :
    specs' = specs ∧ replay specs fr order = .ok rs := by
  refine ⟨replayState_keeps_specs specs fr order rs specs' h hkinds hset, ?_⟩
  have := replayState_fst specs fr order
  rw [h] at this
  exact this.symm

/-- C09.8b  `session_repeats_replay`: under the same hypotheses, applying the recorded specs to any
sequence of data sets — each application starting from the specs as the previous one left them — gives,
application by application, exactly what a first application to that data set gives: the same error,
or the same names, values and `DataMismatchWarning` flag. An unseen level announced once is announced
again every time it is met. -/
theorem session_repeats_replay (specs : List Spec)
    (hkinds : ∀ s ∈ specs, ∀ s' ∈ specs, ∀ e r r', (e, r) ∈ s.encoderState →
      dget e s'.encoderState = some r' → r'.kind = r.kind)
    (hset : ∀ s ∈ specs, ∀ d ∈ pooledFactors specs, ∀ r, (d.expr, r) ∈ s.encoderState →
      r.kind = .categorical → ∃ L, nominatedLevels s d = some L ∧ r.levels = some L)
    (apps : List (Frame × List String)) :
    session specs apps = apps.map (fun a => replay specs a.1 a.2) :=
  session_stable specs
    (fun fr order rs specs' h => replayState_keeps_specs specs fr order rs specs' h hkinds hset) apps

/-! ## Non-vacuity: concrete instances (evaluated by the kernel) -/

section examples
deriving instance DecidableEq for Except

/-- recorded spec of `A + A:x` fitted on text `A ∈ {a, b, c}` and numeric `x` -/
def exSpec : Spec :=
  { terms := [[⟨"1", .literal 1, "", none⟩], [⟨"A", .lookup, "A", none⟩],
              [⟨"A", .lookup, "A", none⟩, ⟨"x", .lookup, "x", none⟩]]
    structure_ := [⟨[⟨[], 1⟩], ["Intercept"]⟩,
                   ⟨[⟨[⟨"A", true⟩], 1⟩], ["A[T.b]", "A[T.c]"]⟩,
                   ⟨[⟨[⟨"A", false⟩, ⟨"x", false⟩], 1⟩], ["A[a]:x", "A[b]:x", "A[c]:x"]⟩]
    encoderState := [("A", ⟨.categorical, some [.str "a", .str "b", .str "c"]⟩), ("x", ⟨.numerical, none⟩)]
    transformState := []
    naAction := .drop
    ensureFullRank := true
    output := .pandas }

/-- follow-up frame in which `A` arrives numeric (the D10 input) -/
def exNumeric : Frame :=
  { nrows := 2, cols := [("A", ⟨.numerical, [some (.num 5), some (.num 6)], none⟩),
                         ("x", ⟨.numerical, [some (.num 1), some (.num 2)], none⟩)] }

/-- follow-up frame that lost level `b` and gained the unseen value `z` -/
def exLevels : Frame :=
  { nrows := 3, cols := [("A", ⟨.categorical, [some (.str "a"), some (.str "z"), some (.str "c")], none⟩),
                         ("x", ⟨.numerical, [some (.num 1), some (.num 2), some (.num 3)], none⟩)] }

def exEvalSpec : EvalSpec :=
  { ensureFullRank := true, naAction := .drop, output := .pandas, transformState := [],
    encoderState := exSpec.encoderState }

def exA : FactorDecl := ⟨"A", .lookup, "A", none⟩

example : prepareEvalSpec [exSpec] = .ok exEvalSpec := by rfl

/-- `kind_change_is_error` applies to the D10 input: every hypothesis holds, `A` inside `A` and
inside `A:x` alike (one pooled factor) -/
example : replay [exSpec] exNumeric ["x", "1", "A"] = .error .factorEncoding := by
  refine kind_change_is_error [exSpec] exNumeric ["x", "1", "A"] exEvalSpec exA
    ⟨.categorical, some [.str "a", .str "b", .str "c"]⟩ .numerical (by rfl) (by decide) (by decide)
    (by decide) (by decide) (by decide) ?_
  intro g hg dr e' he
  have hg' : g = ⟨"1", .literal 1, "", none⟩ ∨ g = exA ∨ g = ⟨"x", .lookup, "x", none⟩ := by
    have : pooledFactors [exSpec] = [⟨"1", .literal 1, "", none⟩, exA, ⟨"x", .lookup, "x", none⟩] := by decide
    rw [this] at hg
    simpa using hg
  rcases hg' with rfl | rfl | rfl
  · simp [evalFactor, evalValue, guardDeclared, guardRecorded, checkNulls, exEvalSpec, exSpec, dget] at he
  · simp [evalFactor, evalValue, guardDeclared, guardRecorded, exA, exEvalSpec, exSpec, exNumeric, dget] at he
    exact he.symm
  · simp [evalFactor, evalValue, guardDeclared, guardRecorded, checkNulls, exEvalSpec, exSpec, exNumeric, dget] at he

/-- the hypothesis `hrec` is not decoration (this was D10): against an evaluation spec WITHOUT the
pooled encoder state, the same factor passes both guards -/
example : evalFactor { exEvalSpec with encoderState := [] } exNumeric exA []
    = .ok (⟨exA, .numerical, [some (.num 5), some (.num 6)], none⟩, []) := by decide

/-- lost level `b`, unseen value `z`: recorded names, all-zero `b` columns, an all-zero row for `z`,
the warning flag, and only pass-through branches of `_enforce_structure` -/
example : replay [exSpec] exLevels ["x", "1", "A"] = .ok [
    { cols := [⟨"Intercept", [some 1, some 1, some 1]⟩,
               ⟨"A[T.b]", [some 0, some 0, some 0]⟩, ⟨"A[T.c]", [some 0, some 0, some 1]⟩,
               ⟨"A[a]:x", [some 1, some 0, some 0]⟩, ⟨"A[b]:x", [some 0, some 0, some 0]⟩,
               ⟨"A[c]:x", [some 0, some 0, some 3]⟩]
      warn := true
      branches := [.exact, .exact, .exact]
      generated := [["Intercept"], ["A[T.b]", "A[T.c]"], ["A[a]:x", "A[b]:x", "A[c]:x"]] }] := by
  decide +kernel

/-- the hypotheses of `consistent_spec_never_reshaped` hold for every term of `exSpec`: the names
it generates from its own pinned levels are the recorded ones -/
example : let ko : String → Option (Kind × FactorDecl) := fun e =>
      if e = "A" then some (.categorical, exA) else if e = "x" then some (.numerical, ⟨"x", .lookup, "x", none⟩) else none
    exSpec.structure_.map (termNames exSpec ko)
      = [some ["Intercept"], some ["A[T.b]", "A[T.c]"], some ["A[a]:x", "A[b]:x", "A[c]:x"]] := by
  decide

/-- the 1 → many padding branch exists and is reachable when kinds agree (a hand-edited structure
that records two names for the single column of `x`): `enforce_never_broadcasts_kind_change` is
about a branch that does occur -/
example : replay
    [{ exSpec with terms := [[⟨"x", .lookup, "x", none⟩]]
                   structure_ := [⟨[⟨[⟨"x", false⟩], 1⟩], ["x", "x2"]⟩] }]
    exLevels ["x"] = .ok [
      { cols := [⟨"x", [some 1, some 2, some 3]⟩, ⟨"x2", [some 1, some 2, some 3]⟩]
        warn := false, branches := [.broadcast], generated := [["x"]] }] := by
  decide +kernel


/-! ### contrasts, routes, sessions -/

/-- the seven contrast classes of the live package are in the generated format table, and the
reduced-rank formats are the ones the theorems above mention through `fieldName` -/
example : ["TreatmentContrasts", "SASContrasts", "SumContrasts", "HelmertContrasts", "DiffContrasts",
      "PolyContrasts", "CustomContrasts"].map (fun c => (formatOf c true).mid)
    = ["[T.", "[T.", "[S.", "[H.", "[D.", "[", "["] := by decide

example : (["TreatmentContrasts", "SASContrasts", "SumContrasts", "HelmertContrasts", "DiffContrasts",
      "PolyContrasts", "CustomContrasts"].all
    (fun c => FormulaicVerif.Gen.contrastFormats.any (fun r => r.cls == c))) = true := by decide

def exSumA : FactorDecl := ⟨"C(A, contr.sum)", .cwrap .sum none, "A", none⟩

/-- recorded spec of `C(A, contr.sum) + C(A, contr.sum):x` fitted on `A ∈ {a, b, c}` -/
def exSumSpec : Spec :=
  { terms := [[⟨"1", .literal 1, "", none⟩], [exSumA], [exSumA, ⟨"x", .lookup, "x", none⟩]]
    structure_ := [⟨[⟨[], 1⟩], ["Intercept"]⟩,
                   ⟨[⟨[⟨"C(A, contr.sum)", true⟩], 1⟩], ["C(A, contr.sum)[S.a]", "C(A, contr.sum)[S.b]"]⟩,
                   ⟨[⟨[⟨"C(A, contr.sum)", false⟩, ⟨"x", false⟩], 1⟩],
                     ["C(A, contr.sum)[a]:x", "C(A, contr.sum)[b]:x", "C(A, contr.sum)[c]:x"]⟩]
    encoderState := [("C(A, contr.sum)", ⟨.categorical, some [.str "a", .str "b", .str "c"]⟩), ("x", ⟨.numerical, none⟩)]
    transformState := []
    naAction := .drop
    ensureFullRank := true
    output := .sparse }

/-- sum coding on reuse: `a` ↦ (1, 0), the unseen `z` ↦ the zero row (with the warning), `c` ↦ (−1, −1);
level `b` is absent and its column is still there -/
example : replay [exSumSpec] exLevels ["x", "1", "C(A, contr.sum)"] = .ok [
    { cols := [⟨"Intercept", [some 1, some 1, some 1]⟩,
               ⟨"C(A, contr.sum)[S.a]", [some 1, some 0, some (-1)]⟩, ⟨"C(A, contr.sum)[S.b]", [some 0, some 0, some (-1)]⟩,
               ⟨"C(A, contr.sum)[a]:x", [some 1, some 0, some 0]⟩, ⟨"C(A, contr.sum)[b]:x", [some 0, some 0, some 0]⟩,
               ⟨"C(A, contr.sum)[c]:x", [some 0, some 0, some 3]⟩]
      warn := true
      branches := [.exact, .exact, .exact]
      generated := [["Intercept"], ["C(A, contr.sum)[S.a]", "C(A, contr.sum)[S.b]"],
                    ["C(A, contr.sum)[a]:x", "C(A, contr.sum)[b]:x", "C(A, contr.sum)[c]:x"]] }] := by
  decide +kernel

/-- the hypotheses of `contrast_coded_factor_on_reuse` hold for that factor -/
example : IsMatrixCoded (callArgs exSumA).1 ∧
    nominatedLevels exSumSpec exSumA = some [.str "a", .str "b", .str "c"] := ⟨trivial, by decide⟩

/-- … a numeric `A` passed through `C(…)` IS categorical (no kind change: its numbers become unseen
levels, announced, zero rows), while `x` arriving as text next to it is the encoding error -/
example : (replay [exSumSpec] exNumeric ["x", "1", "C(A, contr.sum)"]).map (fun rs => rs.map (fun r => (r.warn, r.names.length)))
    = .ok [(true, 6)] := by decide +kernel

example : replay [exSumSpec]
    { nrows := 1, cols := [("A", ⟨.categorical, [some (.str "a")], none⟩), ("x", ⟨.categorical, [some (.str "a")], none⟩)] }
    ["x", "1", "C(A, contr.sum)"] = .error .factorEncoding := by decide +kernel

/-- a custom contrast built by `contr.custom(M, names=N)` from the evaluation context: with matching
names it codes `a, b, c` by the rows of `M`; with one name too many the reuse fails while the factor is
evaluated (`custom_names_mismatch_is_error`, `bad_contrast_argument_never_matrix`) -/
def exCustom (names : List String) : FactorDecl :=
  ⟨"C(A, contr.custom(M, names=N))", .cwrap (.custom ⟨false, [[1, 2], [3, 4], [5, 6]], [], some names, true⟩) none, "A", none⟩

def exCustomSpec (names : List String) : Spec :=
  { exSumSpec with
    terms := [[exCustom names]]
    structure_ := [⟨[⟨[⟨"C(A, contr.custom(M, names=N))", true⟩], 1⟩],
      ["C(A, contr.custom(M, names=N))[u]", "C(A, contr.custom(M, names=N))[v]"]⟩]
    encoderState := [("C(A, contr.custom(M, names=N))", ⟨.categorical, some [.str "a", .str "b", .str "c"]⟩)] }

example : (replay [exCustomSpec ["u", "v"]] exLevels ["C(A, contr.custom(M, names=N))"]).map (fun rs => rs.map (·.cols))
    = .ok [[⟨"C(A, contr.custom(M, names=N))[u]", [some 1, some 0, some 5]⟩,
            ⟨"C(A, contr.custom(M, names=N))[v]", [some 2, some 0, some 6]⟩]] := by decide +kernel

example : replay [exCustomSpec ["u", "v", "w"]] exLevels ["C(A, contr.custom(M, names=N))"]
    = .error .factorEvaluation := by decide +kernel

/-- `contr.treatment(base='b')`: `b` is the reference level; a recorded level list without `b` makes the
reuse fail (ValueError), whatever the data -/
example : (codedColumns "K" (.treatment false (some (.str "b"))) true [.str "a", .str "b", .str "c"]
      [some (.str "a"), some (.str "z")]).map (fun cs => cs.map (fun c => (c.name, c.vals)))
    = .ok [("K[T.a]", [some 1, some 0]), ("K[T.c]", [some 0, some 0])] := by decide +kernel

example : codedColumns "K" (.treatment false (some (.str "b"))) true [.str "a", .str "c"] [some (.str "a")]
    = .error .valueError := by decide +kernel

/-- `get_model_matrix(data, na_action='ignore')`: the override changes which rows survive, not the record -/
example : (replayWith { naAction := some .ignore } [exSpec]
      { nrows := 2, cols := [("A", ⟨.categorical, [some (.str "a"), none], none⟩),
                             ("x", ⟨.numerical, [some (.num 1), some (.num 2)], none⟩)] }
      ["x", "1", "A"]).map (fun rs => rs.map (fun r => (r.names, r.warn, r.cols.map (·.vals.length))))
    = .ok [(["Intercept", "A[T.b]", "A[T.c]", "A[a]:x", "A[b]:x", "A[c]:x"], true, [2, 2, 2, 2, 2, 2])] := by
  decide +kernel

/-- the reset at the start of `get_model_matrix` is what `materializer_history_irrelevant` rests on:
WITHOUT it, a materializer whose earlier call (a fresh formula, no recorded kinds) left `A` in its
factor cache as a numerical factor lets the D10 input through — neither guard runs, and the single
numeric column is copied under every recorded dummy name -/
example : getModelMatrixNoReset ⟨[("A", ⟨exA, .numerical, [some (.num 5), some (.num 6)], none⟩)]⟩
      [exSpec] exNumeric ["x", "1", "A"]
    = .ok [{ cols := [⟨"Intercept", [some 1, some 1]⟩, ⟨"A[T.b]", [some 5, some 6]⟩, ⟨"A[T.c]", [some 5, some 6]⟩,
                       ⟨"A[a]:x", [some 5, some 12]⟩, ⟨"A[b]:x", [some 5, some 12]⟩, ⟨"A[c]:x", [some 5, some 12]⟩]
             warn := false, branches := [.exact, .broadcast, .broadcast]
             generated := [["Intercept"], ["A"], ["A:x"]] }] := by
  decide +kernel

example : (getModelMatrix ⟨[("A", ⟨exA, .numerical, [some (.num 5), some (.num 6)], none⟩)]⟩
      [exSpec] exNumeric ["x", "1", "A"]).2 = .error .factorEncoding := by decide +kernel

/-- the hypotheses of `replay_order_irrelevant` for two iteration orders of the factors of `exSpec` -/
example : (["x", "1", "A"] : List String).Nodup ∧ (["A", "x", "1"] : List String).Nodup ∧
    ∀ e, e ∈ (["x", "1", "A"] : List String) ↔ e ∈ (["A", "x", "1"] : List String) := by
  refine ⟨by decide, by decide, fun e => ?_⟩
  simp only [List.mem_cons, List.not_mem_nil, or_false]
  constructor <;> (intro h; rcases h with h | h | h <;> simp [h])

/-- a session: the unseen `z` is announced by the first application AND by the second, and the spec is
handed on unchanged (the hypotheses of `session_repeats_replay` hold for `exSpec`) -/
example : (session [exSpec] [(exLevels, ["x", "1", "A"]), (exLevels, ["A", "x", "1"])]).map
      (fun r => r.map (fun rs => rs.map (·.warn)))
    = [.ok [true], .ok [true]] := by decide +kernel

example : (replayState [exSpec] exLevels ["x", "1", "A"]).map (·.2) = .ok [exSpec] := by decide +kernel

example : (∀ s ∈ [exSpec], ∀ s' ∈ [exSpec], ∀ e r r', (e, r) ∈ s.encoderState →
      dget e s'.encoderState = some r' → r'.kind = r.kind) ∧
    (∀ s ∈ [exSpec], ∀ d ∈ pooledFactors [exSpec], ∀ r, (d.expr, r) ∈ s.encoderState →
      r.kind = .categorical → ∃ L, nominatedLevels s d = some L ∧ r.levels = some L) := by
  have hp : pooledFactors [exSpec] = [⟨"1", .literal 1, "", none⟩, exA, ⟨"x", .lookup, "x", none⟩] := by decide
  refine ⟨?_, ?_⟩
  · intro s hs s' hs' e r r' hr hr'
    simp only [List.mem_singleton] at hs hs'
    subst hs; subst hs'
    simp only [exSpec, List.mem_cons, Prod.mk.injEq, List.not_mem_nil, or_false] at hr
    rcases hr with ⟨rfl, rfl⟩ | ⟨rfl, rfl⟩ <;> simp [exSpec, dget] at hr' <;> simp [← hr']
  · intro s hs d hd r hr hk
    simp only [List.mem_singleton] at hs
    subst hs
    rw [hp] at hd
    simp only [List.mem_cons, List.not_mem_nil, or_false] at hd
    rcases hd with rfl | rfl | rfl
    · simp [exSpec] at hr
    · simp only [exSpec, exA, List.mem_cons, Prod.mk.injEq, List.not_mem_nil, or_false] at hr
      rcases hr with ⟨_, rfl⟩ | ⟨h, _⟩
      · exact ⟨_, by decide, rfl⟩
      · simp at h
    · simp only [exSpec, List.mem_cons, Prod.mk.injEq, List.not_mem_nil, or_false] at hr
      rcases hr with ⟨h, _⟩ | ⟨_, rfl⟩
      · simp at h
      · simp at hk

/-- without recorded categories (a hand-edited spec) the first application writes the levels it found
into the spec it was given -/
example : (replayState [{ exSpec with encoderState := [("A", ⟨.categorical, none⟩), ("x", ⟨.numerical, none⟩)]
                                      structure_ := [⟨[⟨[⟨"A", false⟩], 1⟩], ["A[a]", "A[c]", "A[z]"]⟩]
                                      terms := [[exA]] }] exLevels ["A"]).map (fun p => p.2.map (·.encoderState))
    = .ok [[("A", ⟨.categorical, some [.str "a", .str "c", .str "z"]⟩), ("x", ⟨.numerical, none⟩)]] := by
  decide +kernel

/-! ### derived specs -/

/-- `exSpec.subset(["A:x"])`: the interaction alone; the encoder state of `A` (which now occurs only
inside the interaction) is still there -/
example : derive [exSpec] [.subset [2]] = .ok [{ exSpec with
    terms := [[⟨"A", .lookup, "A", none⟩, ⟨"x", .lookup, "x", none⟩]]
    structure_ := [⟨[⟨[⟨"A", false⟩, ⟨"x", false⟩], 1⟩], ["A[a]:x", "A[b]:x", "A[c]:x"]⟩] }] := by
  decide

/-- the terms are re-ordered by degree whatever the order they are nominated in -/
example : (derive [exSpec] [.subset [2, 0]]).map (fun l => l.map (fun s => s.terms.map termDegree))
    = .ok [[0, 2]] := by decide

/-- … and terms of equal degree keep the order they are nominated in (a stable sort) -/
example : (sortByDegree [([exA], ⟨[], ["p"]⟩), ([], ⟨[], ["q"]⟩), ([⟨"x", .lookup, "x", none⟩], ⟨[], ["r"]⟩),
      ([exA, exA], ⟨[], ["s"]⟩), ([⟨"1", .literal 1, "", none⟩], ⟨[], ["t"]⟩)]).map (·.2.columns)
    = [["q"], ["t"], ["p"], ["r"], ["s"]] := by decide

/-- kind change under a subset that keeps `A` only inside `A:x` -/
example : replayDerived [exSpec] [.subset [2], .roundTrip] exNumeric ["x", "A"] = .error .factorEncoding := by
  decide +kernel

/-- lost level `b`, unseen `z` under the same subset: recorded names, zero column, warning -/
example : replayDerived [exSpec] [.part 0, .subset [2]] exLevels ["x", "A"] = .ok [
    { cols := [⟨"A[a]:x", [some 1, some 0, some 0]⟩, ⟨"A[b]:x", [some 0, some 0, some 0]⟩,
               ⟨"A[c]:x", [some 0, some 0, some 3]⟩]
      warn := true, branches := [.exact], generated := [["A[a]:x", "A[b]:x", "A[c]:x"]] }] := by
  decide +kernel

end examples

end FormulaicVerif.Props.C09
