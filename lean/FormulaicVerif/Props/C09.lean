import FormulaicVerif.Proofs.C09
/-! # C09 — Reusing a spec on incompatible data fails loudly and never reshapes columns

"When a recorded spec is applied to new data, a factor whose kind (categorical versus numerical)
differs from the recorded one causes an encoding error instead of a matrix; levels absent from the
new data still produce their (all-zero) columns; and levels unseen at fit time never add, remove or
rename columns and are announced with a data-mismatch warning."

Property theorems only, about `Model.Reuse.replay` and `Model.Reuse.replayDerived` (= `derive`, then
`replay`) — the functions the correspondence engine runs — for ALL recorded specs (lists of parts),
derivation histories (part / subset / round trip), follow-up frames and set-iteration orders. Helper lemmas
are in `Proofs/C09.lean`. Every `theorem` here is audited with `#print axioms`. -/

namespace FormulaicVerif.Props.C09
open FormulaicVerif.Model.Reuse FormulaicVerif.Proofs.C09

/-! ## Clause 1 — a kind change is an encoding error, never a matrix -/

/-- C09.0  The spec `_evaluate_factor` is handed (the pooled evaluation spec) carries the recorded
kind of every factor any part recorded: for a single recorded spec its `encoder_state` verbatim,
for several parts the `dict.update` pooling (any part's record is visible; when the parts agree on
the kind, that kind). This is the link D10 was missing. -/
theorem eval_spec_sees_recorded_kinds (specs : List Spec) (es : EvalSpec)
    (hes : prepareEvalSpec specs = .ok es) :
    (∀ s, specs = [s] → ∀ e, dget e es.encoderState = dget e s.encoderState) ∧
    (∀ s ∈ specs, ∀ e r, dget e s.encoderState = some r →
      (∀ s' ∈ specs, ∀ r', dget e s'.encoderState = some r' → r'.kind = r.kind) →
      ∃ r', dget e es.encoderState = some r' ∧ r'.kind = r.kind) := by
  have henc := prepareEvalSpec_enc specs es hes
  refine ⟨?_, ?_⟩
  · intro s hs e
    subst hs
    simp [henc, poolEnc, dupdate]
  · intro s hs e r hr hagree
    have hsome := poolEnc_some e specs [] (Or.inr ⟨s, hs, by simp [hr]⟩)
    rw [← henc] at hsome
    cases hd : dget e es.encoderState with
    | none => simp [hd] at hsome
    | some r' =>
      refine ⟨r', rfl, ?_⟩
      rw [henc] at hd
      exact poolEnc_kind e r.kind specs [] (by simp [dget]) hagree r' hd

/-- a factor that occurs in a term of ANY degree (alone or inside any interaction) of any part is
a member of the pooled factor set that `get_model_matrix` evaluates -/
theorem every_term_factor_is_evaluated (specs : List Spec) (s : Spec) (t : List FactorDecl)
    (d : FactorDecl) (hs : s ∈ specs) (ht : t ∈ s.terms) (hd : d ∈ t) :
    ∃ d' ∈ pooledFactors specs, d'.expr = d.expr :=
  pooled_covers specs s t d hs ht hd

/-- C09.1a  `kind_change_is_error`: if a pooled factor (standing alone or inside any interaction —
see `every_term_factor_is_evaluated`) has on the new data a kind different from the one the
evaluation spec records for it, the replay raises `FactorEncodingError`, provided no other factor
fails in a different way (a missing column, nulls under `na_action='raise'`) — in every iteration
order of the factor set. -/
theorem kind_change_is_error (specs : List Spec) (fr : Frame) (order : List String) (es : EvalSpec)
    (d : FactorDecl) (r : RecState) (k : Kind)
    (hes : prepareEvalSpec specs = .ok es)
    (hd : d ∈ pooledFactors specs) (hord : d.expr ∈ order)
    (hrec : dget d.expr es.encoderState = some r)
    (hk : newKind fr d = .ok k) (hne : k ≠ r.kind)
    (hothers : ∀ g ∈ pooledFactors specs, ∀ dr e', evalFactor es fr g dr = .error e' → e' = .factorEncoding) :
    replay specs fr order = .error .factorEncoding := by
  have hmem := mem_orderedFactors specs order d hd hord
  obtain ⟨pre, post, hsplit⟩ := List.append_of_mem hmem
  have hsub : ∀ g ∈ orderedFactors specs order, g ∈ pooledFactors specs := by
    intro g hg
    obtain ⟨e, _, hf⟩ := List.mem_filterMap.mp hg
    exact List.mem_of_find?_eq_some hf
  have := evalPhase_error_at es fr .factorEncoding d
    (fun dr => evalFactor_kind_change es fr d dr k r hk hrec hne) pre post [] []
    (fun g hg dr e' he => hothers g (hsub g (by rw [hsplit]; simp [hg])) dr e' he)
  simp [replay, hes, hsplit, this]

/-- C09.1b  `kind_change_never_matrix`: with no side condition at all, a kind change means the
replay is an error — it never returns a matrix. -/
theorem kind_change_never_matrix (specs : List Spec) (fr : Frame) (order : List String) (es : EvalSpec)
    (d : FactorDecl) (r : RecState) (k : Kind)
    (hes : prepareEvalSpec specs = .ok es)
    (hd : d ∈ pooledFactors specs) (hord : d.expr ∈ order)
    (hrec : dget d.expr es.encoderState = some r)
    (hk : newKind fr d = .ok k) (hne : k ≠ r.kind) :
    ∃ e, replay specs fr order = .error e := by
  have hmem := mem_orderedFactors specs order d hd hord
  obtain ⟨pre, post, hsplit⟩ := List.append_of_mem hmem
  obtain ⟨e, he⟩ := evalPhase_never_ok es fr .factorEncoding d
    (fun dr => evalFactor_kind_change es fr d dr k r hk hrec hne) pre post [] []
  exact ⟨e, by simp [replay, hes, hsplit, he]⟩

/-- C09.4  `enforce_never_broadcasts_kind_change`: whenever a replay gets as far as
`_enforce_structure` — in particular whenever its 1 → many padding branch copies a single
generated column under several recorded names — every evaluated factor has exactly the kind the
evaluation spec records for it. The padding branch is unreachable under a kind change. -/
theorem enforce_never_broadcasts_kind_change (specs : List Spec) (fr : Frame) (order : List String)
    (es : EvalSpec) (rs : List Result) (res : Result)
    (hes : prepareEvalSpec specs = .ok es)
    (hrun : replay specs fr order = .ok rs) (_hres : res ∈ rs) (_hb : Branch.broadcast ∈ res.branches) :
    ∀ d ∈ pooledFactors specs, d.expr ∈ order → ∀ r k,
      dget d.expr es.encoderState = some r → newKind fr d = .ok k → k = r.kind := by
  intro d hd hord r k hrec hk
  apply Classical.byContradiction
  intro hne
  obtain ⟨e, he⟩ := kind_change_never_matrix specs fr order es d r k hes hd hord hrec hk hne
  rw [he] at hrun
  simp at hrun

/-! ## Clauses 2 and 3 — the column names never change -/

/-- C09.2a/3a  `replay_names_recorded`: every matrix a replay returns carries exactly the recorded
column names of its part, in the recorded order — whatever the data contained, whatever branch of
`_enforce_structure` was taken. (`dictKeys` = the names as dict keys; for a recorded structure
whose per-term names are distinct, as every fit produces, this is `spec.column_names`.) -/
theorem replay_names_recorded (specs : List Spec) (fr : Frame) (order : List String) (rs : List Result)
    (h : replay specs fr order = .ok rs) :
    rs.length = specs.length ∧ ∀ p ∈ specs.zip rs,
      p.2.names = p.1.structure_.flatMap (fun t => dictKeys t.columns) ∧
      ((∀ t ∈ p.1.structure_, t.columns.Nodup) → p.2.names = p.1.columnNames) := by
  obtain ⟨es, cache, drop, _, _, hb⟩ := replay_ok specs fr order rs h
  obtain ⟨hl, hz⟩ := buildAll_zip fr drop cache specs rs hb
  refine ⟨hl, fun p hp => ?_⟩
  have hn := buildMatrix_names p.1 fr drop cache p.2 (hz p hp)
  refine ⟨hn, fun hnd => ?_⟩
  rw [hn, flatMap_dictKeys_nodup _ hnd]
  rfl

/-- C09.2b  `pinned_levels_fix_columns`: encoding a categorical factor against pinned (recorded)
levels yields one column per recorded level (minus the reference level under reduced rank), named
from the recorded level alone; cell by cell it is the indicator of that level; the column of a
level that no retained row holds is therefore present and all zero. -/
theorem pinned_levels_fix_columns (s : Spec) (fr : Frame) (drop : List Nat) (ev : Evaled) (red : Bool)
    (L : List Val) (hk : ev.kind = .categorical) (hp : pinnedOf s ev.decl.expr = some L) :
    ∃ cols w, encodeFactor s fr drop ev red = .ok (cols, w) ∧
      cols.map (·.name) = (if red then L.drop 1 else L).map (levelName ev.decl.expr red) ∧
      (∀ c, c ∈ cols ↔ ∃ l ∈ (if red then L.drop 1 else L),
          c = ⟨levelName ev.decl.expr red l, (dropRows drop ev.cells).map (indicator l)⟩) ∧
      (∀ l ∈ (if red then L.drop 1 else L), some l ∉ dropRows drop ev.cells →
          (⟨levelName ev.decl.expr red l, List.replicate (dropRows drop ev.cells).length (some 0)⟩ : EncCol) ∈ cols) := by
  refine ⟨_, _, encodeFactor_pinned s fr drop ev red L hk hp, dummyColumns_names _ _ _ _,
    fun c => dummyColumns_mem _ _ _ _ c, ?_⟩
  intro l hl habs
  rw [dummyColumns_mem]
  exact ⟨l, hl, by rw [indicator_absent l _ habs]⟩

/-- C09.2c  `absent_levels_zero_columns`: in a successful replay every part comes out under its
recorded names, and for every term that `_enforce_structure` let through unchanged, each final
column IS one of the term's generated columns, which is the intercept or the scaled product of one
encoded column per factor; if one of those is the dummy column of a recorded level absent from the
retained rows, the final column is zero wherever it is a number, and all zero when no multiplied
column holds a NaN. -/
theorem absent_levels_zero_columns (specs : List Spec) (fr : Frame) (order : List String)
    (rs : List Result) (h : replay specs fr order = .ok rs) :
    ∃ cache drop, ∀ p ∈ specs.zip rs,
      p.2.names = p.1.structure_.flatMap (fun t => dictKeys t.columns) ∧
      ∃ runs : List TermRun, runs.map (·.t) = p.1.structure_ ∧ p.2.cols = runs.flatMap (·.fin) ∧
        p.2.branches = runs.map (·.branch) ∧
        ∀ r ∈ runs, r.branch = .exact →
          (∀ e, e ∈ r.fin ↔ e ∈ r.gen) ∧
          ∀ e ∈ r.fin, RawOrigin p.1 fr drop cache r.t e ∧
            ∀ (scale : Rat) (rp : List EncCol) (ev : Evaled) (red : Bool) (L : List Val) (l : Val),
              productEntry scale rp = .ok e →
              ev.kind = .categorical → pinnedOf p.1 ev.decl.expr = some L →
              some l ∉ dropRows drop ev.cells →
              (⟨levelName ev.decl.expr red l, (dropRows drop ev.cells).map (indicator l)⟩ : EncCol) ∈ rp →
              ZeroOrNaN e.vals ∧ ((∀ c ∈ rp, NoNaN c.vals) → ∀ v ∈ e.vals, v = some 0) := by
  obtain ⟨es, cache, drop, _, _, hb⟩ := replay_ok specs fr order rs h
  obtain ⟨_, hz⟩ := buildAll_zip fr drop cache specs rs hb
  refine ⟨cache, drop, fun p hp => ?_⟩
  have hbm := hz p hp
  refine ⟨buildMatrix_names p.1 fr drop cache p.2 hbm, ?_⟩
  obtain ⟨runs, h1, h2, h3, _, h5, _⟩ := buildMatrix_runs p.1 fr drop cache p.2 hbm
  refine ⟨runs, h1, h3, h5, ?_⟩
  intro r hr hex
  obtain ⟨hgen, henf⟩ := h2 r hr
  rw [hex] at henf
  obtain ⟨hnd, horig⟩ := termColumns_inv p.1 fr drop cache r.t r.gen r.warn hgen
  obtain ⟨ha, hb'⟩ := enforce_exact_mem _ r.gen r.t.columns r.fin henf hnd
  refine ⟨fun e => ⟨ha e, hb' e⟩, ?_⟩
  intro e he
  refine ⟨horig e (ha e he), ?_⟩
  intro scale rp ev red L l hpe _ _ habs hmem
  apply productEntry_zero scale rp e _ hpe hmem
  intro v hv
  simp only at hv
  rw [indicator_absent l _ habs] at hv
  left
  exact (List.mem_replicate.mp hv).2

/-! ## Clause 3 — unseen levels: no reshaping, and a warning -/

/-- C09.3b  `generated_names_data_independent`: the column names a term generates BEFORE
`_enforce_structure` are a function (`termNames`) of the recorded spec and of the KINDS of its
factors only. Two replays of the same spec on any two data sets whose factors have the same kinds
generate the same names — values unseen at fit time, or lost levels, cannot add, remove or rename a
column. (The hypothesis `isSome` holds as soon as every categorical factor of the term has pinned
levels: `termNames_defined`.) -/
theorem generated_names_data_independent (s : Spec) (t : TermStruct)
    (fr₁ fr₂ : Frame) (drop₁ drop₂ : List Nat) (cache₁ cache₂ : Cache)
    (gen₁ gen₂ : List EncCol) (w₁ w₂ : Bool)
    (hc₁ : Coherent cache₁) (hc₂ : Coherent cache₂)
    (hk : ∀ e, kindOf cache₁ e = kindOf cache₂ e)
    (hdef : (termNames s (kindOf cache₁) t).isSome)
    (h₁ : termColumns s fr₁ drop₁ cache₁ t = .ok (gen₁, w₁))
    (h₂ : termColumns s fr₂ drop₂ cache₂ t = .ok (gen₂, w₂)) :
    gen₁.map (·.name) = gen₂.map (·.name) := by
  have hfun : kindOf cache₁ = kindOf cache₂ := funext hk
  cases hn : termNames s (kindOf cache₁) t with
  | none => simp [hn] at hdef
  | some ns =>
    rw [termColumns_names s fr₁ drop₁ cache₁ hc₁ t gen₁ w₁ ns h₁ hn,
      termColumns_names s fr₂ drop₂ cache₂ hc₂ t gen₂ w₂ ns h₂ (hfun ▸ hn)]

theorem termNames_defined (s : Spec) (ko : String → Option Kind) (t : TermStruct)
    (h : ∀ st ∈ t.scopedTerms, ∀ sf ∈ st.factors, ∃ k, ko sf.expr = some k ∧
      (k = .categorical → (pinnedOf s sf.expr).isSome)) : (termNames s ko t).isSome :=
  termNames_isSome s ko t h

/-- the cache a successful evaluation phase leaves behind is keyed coherently, every entry has the
kind `newKind` computes, and that kind is the recorded one wherever the evaluation spec records one -/
theorem evaluated_cache_agrees (es : EvalSpec) (fr : Frame) (fs : List FactorDecl) (cache : Cache)
    (drop : List Nat) (h : evalPhase es fr fs [] [] = .ok (cache, drop)) :
    Coherent cache ∧ ∀ k ev, dget k cache = some ev →
      newKind fr ev.decl = .ok ev.kind ∧ ∀ r, dget k es.encoderState = some r → ev.kind = r.kind := by
  obtain ⟨hc, hok⟩ := evalPhase_cache es fr fs cache drop h
  exact ⟨hc, fun k ev hd => ⟨(hok k ev hd).kind, (hok k ev hd).recorded⟩⟩

/-- C09.3c  `consistent_spec_never_reshaped`: if the names the spec itself generates for a term
(`termNames`, data-independent) are, in number and as a set, the recorded names of that term —
true of every spec produced by a fit — then on ANY data with those kinds `_enforce_structure`
takes its pass-through branch: no padding, no zero filling, no error, and the final columns are
exactly the generated ones. -/
theorem consistent_spec_never_reshaped (s : Spec) (fr : Frame) (drop : List Nat) (cache : Cache)
    (t : TermStruct) (gen : List EncCol) (w : Bool) (ns : List String) (zero : List (Option Rat))
    (hc : Coherent cache)
    (hn : termNames s (kindOf cache) t = some ns)
    (hlen : ns.length = t.columns.length) (hset : sameNameSet ns t.columns = true)
    (h : termColumns s fr drop cache t = .ok (gen, w)) :
    ∃ cols, enforceTerm zero gen t.columns = .ok (.exact, cols) ∧
      cols.map (·.name) = dictKeys t.columns ∧ (∀ e, e ∈ cols ↔ e ∈ gen) := by
  have hnames := termColumns_names s fr drop cache hc t gen w ns h hn
  have hl : gen.length = t.columns.length := by
    rw [← hlen, ← hnames]; simp
  obtain ⟨cols, hcols⟩ := enforce_exact zero gen t.columns hl (by rw [hnames]; exact hset)
  obtain ⟨hnd, _⟩ := termColumns_inv s fr drop cache t gen w h
  obtain ⟨ha, hb⟩ := enforce_exact_mem zero gen t.columns cols hcols hnd
  exact ⟨cols, hcols, enforceTerm_names zero gen t.columns _ cols hcols, fun e => ⟨ha e, hb e⟩⟩

/-- C09.3d  an unseen value (or a null) is an all-zero row of the dummy coding -/
theorem unseen_value_zero_row (L : List Val) (c : Cell) (hc : ∀ l ∈ L, c ≠ some l) :
    ∀ l ∈ L, indicator l c = some 0 :=
  fun l hl => indicator_unseen L c hc l hl

/-- C09.3e  `unseen_levels_no_reshape`: a successful replay returns every part under its recorded
names, and a part's `DataMismatchWarning` flag is raised EXACTLY when some categorical factor that
the structure encodes has pinned levels and a retained cell that is not one of them (an unseen
value, or a null — nulls survive only under `na_action='ignore'`). Under `na_action='drop'` the
condition is: some non-null retained value is not a recorded level. -/
theorem unseen_levels_no_reshape (specs : List Spec) (fr : Frame) (order : List String)
    (rs : List Result) (h : replay specs fr order = .ok rs) :
    ∃ es cache drop, prepareEvalSpec specs = .ok es ∧ ∀ p ∈ specs.zip rs,
      p.2.names = p.1.structure_.flatMap (fun t => dictKeys t.columns) ∧
      (p.2.warn = true ↔ ∃ t ∈ p.1.structure_, ∃ st ∈ t.scopedTerms, ∃ sf ∈ st.factors, ∃ ev,
          dget sf.expr cache = some ev ∧ FactorWarns p.1 drop ev) ∧
      (es.naAction = .drop → ∀ sf ev, dget sf cache = some ev →
        (FactorWarns p.1 drop ev ↔ ev.kind = .categorical ∧ ∃ L, pinnedOf p.1 ev.decl.expr = some L ∧
          ∃ v, some v ∈ dropRows drop ev.cells ∧ v ∉ L)) := by
  obtain ⟨es, cache, drop, hes, hev, hb⟩ := replay_ok specs fr order rs h
  obtain ⟨_, hz⟩ := buildAll_zip fr drop cache specs rs hb
  obtain ⟨_, hok⟩ := evalPhase_cache es fr _ cache drop hev
  refine ⟨es, cache, drop, hes, fun p hp => ?_⟩
  have hbm := hz p hp
  refine ⟨buildMatrix_names p.1 fr drop cache p.2 hbm, buildMatrix_warn p.1 fr drop cache p.2 hbm, ?_⟩
  intro hna sf ev hd
  have hnn := retained_non_null es fr drop sf ev (hok sf ev hd) hna
  unfold FactorWarns
  constructor
  · rintro ⟨hk, L, hL, c, hc, hcase⟩
    refine ⟨hk, L, hL, ?_⟩
    rcases hcase with rfl | ⟨v, rfl, hv⟩
    · exact absurd rfl (hnn none hc)
    · exact ⟨v, hc, hv⟩
  · rintro ⟨hk, L, hL, v, hv, hvL⟩
    exact ⟨hk, L, hL, some v, hv, Or.inr ⟨v, rfl, hvL⟩⟩


/-! ## Histories — a spec DERIVED from a recorded one (a part used alone, `subset`, a pickle round
trip) is reused with the state recorded at fit time -/

/-- C09.5a  `derived_spec_keeps_record`: every spec a derivation history produces descends from one
of the recorded specs and carries that spec's `encoder_state` (recorded kinds and levels),
`transform_state` and settings verbatim; its terms and structure rows are terms and rows of that
spec (so its column names are recorded column names). -/
theorem derived_spec_keeps_record (specs specs' : List Spec) (steps : List Step)
    (h : derive specs steps = .ok specs') :
    ∀ s' ∈ specs', ∃ s ∈ specs,
      s'.encoderState = s.encoderState ∧ s'.transformState = s.transformState ∧
      s'.naAction = s.naAction ∧ s'.ensureFullRank = s.ensureFullRank ∧ s'.output = s.output ∧
      (∀ t ∈ s'.terms, t ∈ s.terms) ∧ (∀ t ∈ s'.structure_, t ∈ s.structure_) ∧
      (∀ e, pinnedOf s' e = pinnedOf s e) := by
  intro s' hs'
  obtain ⟨s, hs, hd⟩ := derive_derived steps specs specs' h s' hs'
  exact ⟨s, hs, hd.enc, hd.ts, hd.na, hd.efr, hd.out, hd.terms, hd.rows,
    fun e => by simp [pinnedOf, hd.enc]⟩

/-- C09.5b  `derived_kind_change_never_matrix`: reuse of a derived single spec (any history of
part / subset / round-trip steps): a factor of ANY retained term — alone or only inside an
interaction — whose kind on the new data differs from the kind recorded by the spec it descends
from makes the reuse an error, never a matrix. -/
theorem derived_kind_change_never_matrix (specs : List Spec) (steps : List Step) (s' : Spec)
    (fr : Frame) (order : List String) (hder : derive specs steps = .ok [s']) :
    ∃ s ∈ specs, s'.encoderState = s.encoderState ∧
      ∀ d ∈ pooledFactors [s'], d.expr ∈ order → ∀ r k,
        dget d.expr s.encoderState = some r → newKind fr d = .ok k → k ≠ r.kind →
        ∃ e, replayDerived specs steps fr order = .error e := by
  obtain ⟨s, hs, hd⟩ := derive_derived steps specs [s'] hder s' (by simp)
  refine ⟨s, hs, hd.enc, ?_⟩
  intro d hdm hord r k hrec hk hne
  obtain ⟨es, hes⟩ : ∃ es, prepareEvalSpec [s'] = .ok es := by simp [prepareEvalSpec]
  have hsee := (eval_spec_sees_recorded_kinds [s'] es hes).1 s' rfl d.expr
  rw [hd.enc] at hsee
  obtain ⟨e, he⟩ := kind_change_never_matrix [s'] fr order es d r k hes hdm hord (hsee.trans hrec) hk hne
  exact ⟨e, by simp [replayDerived, hder, he]⟩

/-- C09.5c  `derived_kind_change_is_error`: … and the error is `FactorEncodingError` when no other
factor of the derived spec fails in a different way. -/
theorem derived_kind_change_is_error (specs : List Spec) (steps : List Step) (s' : Spec)
    (fr : Frame) (order : List String) (es : EvalSpec)
    (hder : derive specs steps = .ok [s']) (hes : prepareEvalSpec [s'] = .ok es) :
    ∃ s ∈ specs, s'.encoderState = s.encoderState ∧
      ∀ d ∈ pooledFactors [s'], d.expr ∈ order → ∀ r k,
        dget d.expr s.encoderState = some r → newKind fr d = .ok k → k ≠ r.kind →
        (∀ g ∈ pooledFactors [s'], ∀ dr e', evalFactor es fr g dr = .error e' → e' = .factorEncoding) →
        replayDerived specs steps fr order = .error .factorEncoding := by
  obtain ⟨s, hs, hd⟩ := derive_derived steps specs [s'] hder s' (by simp)
  refine ⟨s, hs, hd.enc, ?_⟩
  intro d hdm hord r k hrec hk hne hothers
  have hsee := (eval_spec_sees_recorded_kinds [s'] es hes).1 s' rfl d.expr
  rw [hd.enc] at hsee
  have := kind_change_is_error [s'] fr order es d r k hes hdm hord (hsee.trans hrec) hk hne hothers
  simp [replayDerived, hder, this]

/-- C09.5d  `derived_names_recorded`: a successful reuse of derived specs returns, per derived
spec, exactly the column names of its structure rows — which are rows of a recorded spec — and its
pinned levels are that spec's recorded levels (so `pinned_levels_fix_columns`,
`absent_levels_zero_columns` and `unseen_levels_no_reshape` speak about the levels recorded at fit
time). -/
theorem derived_names_recorded (specs : List Spec) (steps : List Step) (fr : Frame)
    (order : List String) (rs : List Result) (h : replayDerived specs steps fr order = .ok rs) :
    ∃ specs', derive specs steps = .ok specs' ∧ replay specs' fr order = .ok rs ∧
      rs.length = specs'.length ∧ ∀ p ∈ specs'.zip rs,
        p.2.names = p.1.structure_.flatMap (fun t => dictKeys t.columns) ∧
        ∃ s ∈ specs, (∀ t ∈ p.1.structure_, t ∈ s.structure_) ∧ ∀ e, pinnedOf p.1 e = pinnedOf s e := by
  unfold replayDerived at h
  cases hd : derive specs steps with
  | error e => simp [hd] at h
  | ok specs' =>
    simp only [hd] at h
    obtain ⟨hl, hz⟩ := replay_names_recorded specs' fr order rs h
    refine ⟨specs', rfl, h, hl, fun p hp => ⟨(hz p hp).1, ?_⟩⟩
    obtain ⟨s, hs, _, _, _, _, _, _, hrows, hpin⟩ :=
      derived_spec_keeps_record specs specs' steps hd p.1 (List.of_mem_zip hp).1
    exact ⟨s, hs, hrows, hpin⟩

/-! ## Non-vacuity: concrete instances (evaluated by the kernel) -/

section examples
deriving instance DecidableEq for Except

/-- recorded spec of `A + A:x` fitted on text `A ∈ {a, b, c}` and numeric `x` -/
def exSpec : Spec :=
  { terms := [[⟨"1", .literal 1, "", none⟩], [⟨"A", .lookup, "A", none⟩],
              [⟨"A", .lookup, "A", none⟩, ⟨"x", .lookup, "x", none⟩]]
    structure_ := [⟨[⟨[], 1⟩], ["Intercept"]⟩,
                   ⟨[⟨[⟨"A", true⟩], 1⟩], ["A[T.b]", "A[T.c]"]⟩,
                   ⟨[⟨[⟨"A", false⟩, ⟨"x", false⟩], 1⟩], ["A[a]:x", "A[b]:x", "A[c]:x"]⟩]
    encoderState := [("A", ⟨.categorical, some [.str "a", .str "b", .str "c"]⟩), ("x", ⟨.numerical, none⟩)]
    transformState := []
    naAction := .drop
    ensureFullRank := true
    output := .pandas }

/-- follow-up frame in which `A` arrives numeric (the D10 input) -/
def exNumeric : Frame :=
  { nrows := 2, cols := [("A", ⟨.numerical, [some (.num 5), some (.num 6)], none⟩),
                         ("x", ⟨.numerical, [some (.num 1), some (.num 2)], none⟩)] }

/-- follow-up frame that lost level `b` and gained the unseen value `z` -/
def exLevels : Frame :=
  { nrows := 3, cols := [("A", ⟨.categorical, [some (.str "a"), some (.str "z"), some (.str "c")], none⟩),
                         ("x", ⟨.numerical, [some (.num 1), some (.num 2), some (.num 3)], none⟩)] }

def exEvalSpec : EvalSpec :=
  { ensureFullRank := true, naAction := .drop, output := .pandas, transformState := [],
    encoderState := exSpec.encoderState }

def exA : FactorDecl := ⟨"A", .lookup, "A", none⟩

example : prepareEvalSpec [exSpec] = .ok exEvalSpec := by rfl

/-- `kind_change_is_error` applies to the D10 input: every hypothesis holds, `A` inside `A` and
inside `A:x` alike (one pooled factor) -/
example : replay [exSpec] exNumeric ["x", "1", "A"] = .error .factorEncoding := by
  refine kind_change_is_error [exSpec] exNumeric ["x", "1", "A"] exEvalSpec exA
    ⟨.categorical, some [.str "a", .str "b", .str "c"]⟩ .numerical (by rfl) (by decide) (by decide)
    (by decide) (by decide) (by decide) ?_
  intro g hg dr e' he
  have hg' : g = ⟨"1", .literal 1, "", none⟩ ∨ g = exA ∨ g = ⟨"x", .lookup, "x", none⟩ := by
    have : pooledFactors [exSpec] = [⟨"1", .literal 1, "", none⟩, exA, ⟨"x", .lookup, "x", none⟩] := by decide
    rw [this] at hg
    simpa using hg
  rcases hg' with rfl | rfl | rfl
  · simp [evalFactor, evalValue, guardDeclared, guardRecorded, checkNulls, exEvalSpec, exSpec, dget] at he
  · simp [evalFactor, evalValue, guardDeclared, guardRecorded, exA, exEvalSpec, exSpec, exNumeric, dget] at he
    exact he.symm
  · simp [evalFactor, evalValue, guardDeclared, guardRecorded, checkNulls, exEvalSpec, exSpec, exNumeric, dget] at he

/-- the hypothesis `hrec` is not decoration (this was D10): against an evaluation spec WITHOUT the
pooled encoder state, the same factor passes both guards -/
example : evalFactor { exEvalSpec with encoderState := [] } exNumeric exA []
    = .ok (⟨exA, .numerical, [some (.num 5), some (.num 6)], none⟩, []) := by decide

/-- lost level `b`, unseen value `z`: recorded names, all-zero `b` columns, an all-zero row for `z`,
the warning flag, and only pass-through branches of `_enforce_structure` -/
example : replay [exSpec] exLevels ["x", "1", "A"] = .ok [
    { cols := [⟨"Intercept", [some 1, some 1, some 1]⟩,
               ⟨"A[T.b]", [some 0, some 0, some 0]⟩, ⟨"A[T.c]", [some 0, some 0, some 1]⟩,
               ⟨"A[a]:x", [some 1, some 0, some 0]⟩, ⟨"A[b]:x", [some 0, some 0, some 0]⟩,
               ⟨"A[c]:x", [some 0, some 0, some 3]⟩]
      warn := true
      branches := [.exact, .exact, .exact]
      generated := [["Intercept"], ["A[T.b]", "A[T.c]"], ["A[a]:x", "A[b]:x", "A[c]:x"]] }] := by
  decide +kernel

/-- the hypotheses of `consistent_spec_never_reshaped` hold for every term of `exSpec`: the names
it generates from its own pinned levels are the recorded ones -/
example : let ko : String → Option Kind := fun e =>
      if e = "A" then some .categorical else if e = "x" then some .numerical else none
    exSpec.structure_.map (termNames exSpec ko)
      = [some ["Intercept"], some ["A[T.b]", "A[T.c]"], some ["A[a]:x", "A[b]:x", "A[c]:x"]] := by
  decide

/-- the 1 → many padding branch exists and is reachable when kinds agree (a hand-edited structure
that records two names for the single column of `x`): `enforce_never_broadcasts_kind_change` is
about a branch that does occur -/
example : replay
    [{ exSpec with terms := [[⟨"x", .lookup, "x", none⟩]]
                   structure_ := [⟨[⟨[⟨"x", false⟩], 1⟩], ["x", "x2"]⟩] }]
    exLevels ["x"] = .ok [
      { cols := [⟨"x", [some 1, some 2, some 3]⟩, ⟨"x2", [some 1, some 2, some 3]⟩]
        warn := false, branches := [.broadcast], generated := [["x"]] }] := by
  decide +kernel

/-! ### derived specs -/

/-- `exSpec.subset(["A:x"])`: the interaction alone; the encoder state of `A` (which now occurs only
inside the interaction) is still there -/
example : derive [exSpec] [.subset [2]] = .ok [{ exSpec with
    terms := [[⟨"A", .lookup, "A", none⟩, ⟨"x", .lookup, "x", none⟩]]
    structure_ := [⟨[⟨[⟨"A", false⟩, ⟨"x", false⟩], 1⟩], ["A[a]:x", "A[b]:x", "A[c]:x"]⟩] }] := by
  decide

/-- the terms are re-ordered by degree whatever the order they are nominated in -/
example : (derive [exSpec] [.subset [2, 0]]).map (fun l => l.map (fun s => s.terms.map termDegree))
    = .ok [[0, 2]] := by decide

/-- … and terms of equal degree keep the order they are nominated in (a stable sort) -/
example : (sortByDegree [([exA], ⟨[], ["p"]⟩), ([], ⟨[], ["q"]⟩), ([⟨"x", .lookup, "x", none⟩], ⟨[], ["r"]⟩),
      ([exA, exA], ⟨[], ["s"]⟩), ([⟨"1", .literal 1, "", none⟩], ⟨[], ["t"]⟩)]).map (·.2.columns)
    = [["q"], ["t"], ["p"], ["r"], ["s"]] := by decide

/-- kind change under a subset that keeps `A` only inside `A:x` -/
example : replayDerived [exSpec] [.subset [2], .roundTrip] exNumeric ["x", "A"] = .error .factorEncoding := by
  decide +kernel

/-- lost level `b`, unseen `z` under the same subset: recorded names, zero column, warning -/
example : replayDerived [exSpec] [.part 0, .subset [2]] exLevels ["x", "A"] = .ok [
    { cols := [⟨"A[a]:x", [some 1, some 0, some 0]⟩, ⟨"A[b]:x", [some 0, some 0, some 0]⟩,
               ⟨"A[c]:x", [some 0, some 0, some 3]⟩]
      warn := true, branches := [.exact], generated := [["A[a]:x", "A[b]:x", "A[c]:x"]] }] := by
  decide +kernel

end examples

end FormulaicVerif.Props.C09
