import FormulaicVerif.Proofs.C16Tree
import FormulaicVerif.Proofs.C16Parse
import FormulaicVerif.Proofs.C16Total
import FormulaicVerif.Proofs.C16Forms
import FormulaicVerif.Proofs.C16Hom
import FormulaicVerif.Proofs.C16Render
import FormulaicVerif.Proofs.C16Order
import FormulaicVerif.Gen.OperatorTable
import FormulaicVerif.Gen.ConstraintMessages
/-! # C16 — Linear-constraint specifications compile to the affine map they express

Property theorems only; helper lemmas are in `Proofs/C16Terms.lean`, `Proofs/C16Tree.lean`,
`Proofs/C16Accept.lean` (which trees are accepted), `Proofs/C16Hom.lean` (homomorphism laws, uniqueness of the
row) and `Proofs/C16Forms.lean` (the specification forms and the constructor).
Every `theorem` here is an obligation audited with `#print axioms`.

Vocabulary (all from `Model/Constraints.lean` and `Spec/Affine.lean`):
* `fromSpec sh names parse spec` — the model of `LinearConstraints.from_spec(spec, names)`;
  `parse` is the tokenizer + shunting-yard (a parameter: any function from strings to trees),
  `sh` is the order in which Python happens to iterate over its sets.
* `written parse spec` — the constraints the specification says, in the order written, each as an
  expression with the value it is set equal to; `eval` is exact rational evaluation;
  `RowExpresses names (r, c) (e, off)` is the property's equation
  `r·x − c = ⟦lhs e⟧x − ⟦rhs e⟧x − off` for every `x` (with both sides defined). -/

namespace FormulaicVerif.Props.C16
open FormulaicVerif.Model.Constraints FormulaicVerif.Spec.Affine FormulaicVerif.Proofs.C16

/-- **C16.1**  Whenever the model returns `(A, b)` — for a string, a list of strings or a mapping,
for every tree the parser may have produced (structural induction: unbounded nesting, repeated
variables, constants on both sides), every list of column names and every set iteration order —
there is exactly one row per written constraint, in the order written, and row `i` satisfies
`A_i·x − b_i = ⟦lhs_i⟧x − ⟦rhs_i⟧x` (minus the mapped value, for the mapping form) for EVERY
vector `x`; no division by zero occurs on either side. -/
theorem compile_sound (sh : Shuffle) (hsh : IsShuffle sh) (names : List String) (parse : String → Parsed)
    (spec : Spec) (A : List (List Rat)) (b : List Rat) (h : fromSpec sh names parse spec = .ok (A, b)) :
    ∃ cs, written parse spec = some cs ∧ A.length = cs.length ∧ b.length = cs.length ∧
      ∀ (i : Nat) (hA : i < A.length) (hb : i < b.length) (hc : i < cs.length),
        RowExpresses names (A[i], b[i]) cs[i] := by
  obtain ⟨cs, hcs, hr⟩ := fromSpec_sound hsh names parse spec h
  refine ⟨cs, hcs, hr.lengths.1, hr.lengths.2, ?_⟩
  intro i hA hb hc
  exact rowExpresses_of_off names (hr.get i hA hb hc)

/-- **C16.1b**  "In the order written", stated on the model alone: the rows of `l , r` are the
rows of `l` followed by the rows of `r`; and the rows of a mapping are the rows of its entries
in insertion order, each shifted by its value. -/
theorem rows_in_order_written (sh : Shuffle) (names : List String) :
    (∀ (l r : Node) (A : List (List Rat)) (b : List Rat),
      getMatrix sh names (.ast (.bin .comma l r)) = .ok (A, b) →
      ∃ A₁ b₁ A₂ b₂, getMatrix sh names (.ast l) = .ok (A₁, b₁) ∧ getMatrix sh names (.ast r) = .ok (A₂, b₂) ∧
        A = A₁ ++ A₂ ∧ b = b₁ ++ b₂) ∧
    (∀ (parse : String → Parsed) (k : String) (c : Rat) (rest : List (String × Rat)) (A : List (List Rat)) (b : List Rat),
      fromSpec sh names parse (.dict ((k, c) :: rest)) = .ok (A, b) →
      ∃ A₁ b₁ A₂ b₂, getMatrix sh names (parse k) = .ok (A₁, b₁) ∧ dictRows sh names parse rest = .ok (A₂, b₂) ∧
        A = A₁ ++ A₂ ∧ b = b₁.map (· + c) ++ b₂) := by
  constructor
  · intro l r A b h
    simp only [getMatrix] at h ⊢
    unfold toTerms at h
    cases hl : toTerms sh l with
    | error e => rw [hl] at h; cases h
    | ok va =>
      rw [hl] at h
      cases hr : toTerms sh r with
      | error e => rw [hr] at h; cases h
      | ok vb =>
        rw [hr] at h
        simp only [applyBin, Value.items] at h
        obtain ⟨A₁, b₁, A₂, b₂, h1, h2, rfl, rfl⟩ := rowsOf_append sh names _ _ _ _ h
        exact ⟨A₁, b₁, A₂, b₂, h1, h2, rfl, rfl⟩
  · intro parse k c rest A b h
    simp only [fromSpec, dictRows] at h
    cases h1 : getMatrix sh names (parse k) with
    | error e => rw [h1] at h; cases h
    | ok r1 =>
      obtain ⟨A₁, b₁⟩ := r1
      rw [h1] at h
      simp only at h
      cases h2 : dictRows sh names parse rest with
      | error e => rw [h2] at h; cases h
      | ok r2 =>
        obtain ⟨A₂, b₂⟩ := r2
        rw [h2] at h
        simp only [reduceCtorEq, if_false, Except.ok.injEq, Prod.mk.injEq] at h
        exact ⟨A₁, b₁, A₂, b₂, rfl, rfl, h.1.symm, h.2.symm⟩

/-- **C16.2**  Python's set iteration order does not matter: for any two orders the model returns
the same matrix and vector, or rejects under both (which exception surfaces first may differ). -/
theorem order_independent (sh₁ sh₂ : Shuffle) (h₁ : IsShuffle sh₁) (h₂ : IsShuffle sh₂)
    (names : List String) (parse : String → Parsed) (spec : Spec) :
    (fromSpec sh₁ names parse spec).toOption = (fromSpec sh₂ names parse spec).toOption :=
  (fromSpec_rel h₁ h₂ names parse spec).toOption

/-- **C16.3**  Specifications that are not linear are rejected: if any string the library parses
contains, anywhere, a product of two subexpressions that both mention a column, or a division by
a subexpression that mentions a column, no matrix is returned (whatever the names, the set order,
and whatever else the specification contains). -/
theorem nonlinear_rejected (sh : Shuffle) (hsh : IsShuffle sh) (names : List String) (parse : String → Parsed)
    (spec : Spec) (h : specNonlinear parse spec) : ∃ e, fromSpec sh names parse spec = .error e :=
  fromSpec_nonlinear hsh names parse spec h

/-- **C16.4**  The documented n+1-point test is complete: a row `(r', c')` of the right width that
agrees with `⟦lhs⟧ − ⟦rhs⟧ − off` at `x = 0` and at the unit vectors is THE row the model returns
for that constraint. (So the oracle's n+1-point check on the implementation's output pins the
output down completely.) -/
theorem npoint_test_complete (names : List String) (r r' : List Rat) (c c' : Rat) (eo : Expr × Rat)
    (h : RowExpresses names (r, c) eo) (hl : r'.length = names.length)
    (test : ∀ x, (x = (fun _ => 0) ∨ ∃ j, j < names.length ∧ x = unitVec j) →
      ∃ vl vr, eval (colValue names x) eo.1.lhs = some vl ∧ eval (colValue names x) eo.1.rhs = some vr ∧
        dot r' x - c' = vl - vr - eo.2) :
    r' = r ∧ c' = c := by
  have key : ∀ x, (x = (fun _ => 0) ∨ ∃ j, j < names.length ∧ x = unitVec j) → dot r' x - c' = dot r x - c := by
    intro x hx
    obtain ⟨vl, vr, e1, e2, e3⟩ := test x hx
    obtain ⟨vl', vr', f1, f2, f3⟩ := h.2 x
    rw [e1] at f1; rw [e2] at f2
    cases f1; cases f2
    simp only at f3
    rw [e3, f3]
  exact npoint (hl.trans h.1.symm) (key _ (Or.inl rfl)) (fun j hj => key _ (Or.inr ⟨j, hl ▸ hj, rfl⟩))

/-- **C16.5** (tie to the source, finite table)  The operator table of `ConstraintOperatorResolver`,
regenerated from the live package on every run, consists of exactly the operators the model
interprets (`Op1`, `Op2`), with `,` the only structural one. -/
theorem operator_table_covered :
    FormulaicVerif.Gen.constraintTable.flatMap (fun p => p.2.map (fun o => (o.symbol, o.arity, o.structural)))
      = [(",", 2, true), ("=", 2, false), ("+", 2, false), ("+", 1, false), ("-", 2, false), ("-", 1, false),
         ("*", 2, false), ("/", 2, false)] := by decide

/-- **C16.6** (what the correspondence compares on failures)  `ASTNode.to_terms` schedules independent
subtrees with `graphlib` and `div_terms` meets the divisor's elements in set order, so WHICH exception
surfaces is not determined by the text. `toTermsAll` (run by the engine) succeeds exactly when the
evaluation succeeds, and otherwise lists every error any set order can surface at a minimal failing node. -/
theorem error_class_covered (sh : Shuffle) (hsh : IsShuffle sh) (n : Node) :
    (∀ v, toTermsAll n = .ok v ↔ toTerms id n = .ok v) ∧
    (∀ e, toTerms sh n = .error e → ∃ es, toTermsAll n = .error es ∧ e ∈ es) :=
  ⟨toTermsAll_ok n, toTerms_error_mem hsh n⟩

/-! ## Non-vacuity and negative witnesses -/

/-- a parser stub for the examples: the trees the real parser returns for these strings -/
def exParse : String → Parsed
  | "a + 2*b = 3, a/2" => .ast (.bin .comma
      (.bin .eq (.bin .add (.leaf .name "a") (.bin .mul (.leaf .value "2") (.leaf .name "b"))) (.leaf .value "3"))
      (.bin .div (.leaf .name "a") (.leaf .value "2")))
  | "a - a + 0.5*(b + b)" => .ast (.bin .add (.bin .sub (.leaf .name "a") (.leaf .name "a"))
      (.bin .mul (.leaf .value "0.5") (.bin .add (.leaf .name "b") (.leaf .name "b"))))
  | "a*b" => .ast (.bin .mul (.leaf .name "a") (.leaf .name "b"))
  | "(a-a)*b" => .ast (.bin .mul (.bin .sub (.leaf .name "a") (.leaf .name "a")) (.leaf .name "b"))
  | "a/(b+0)" => .ast (.bin .div (.leaf .name "a") (.bin .add (.leaf .name "b") (.leaf .value "0")))
  | "-(a,b)" => .ast (.un .neg (.bin .comma (.leaf .name "a") (.leaf .name "b")))
  | "" => .empty
  | _ => .error "FormulaSyntaxError"

/-- the hypothesis of `compile_sound` is satisfiable, non-trivially, in all three forms -/
example : fromSpec id ["a", "b"] exParse (.str "a + 2*b = 3, a/2") = .ok ([[1, 2], [1/2, 0]], [3, 0]) := by
  decide +kernel
example : fromSpec id ["a", "b"] exParse (.list ["a + 2*b = 3", " a/2"]) = .ok ([[1, 2], [1/2, 0]], [3, 0]) := by
  decide +kernel
example : fromSpec id ["a", "b"] exParse (.dict [("a - a + 0.5*(b + b)", 4), ("a + 2*b = 3, a/2", -1)])
    = .ok ([[0, 1], [1, 2], [1/2, 0]], [4, 2, -1]) := by decide +kernel
/-- a different iteration order (reversal) gives the same answer -/
example : fromSpec List.reverse ["a", "b"] exParse (.str "a + 2*b = 3, a/2") = .ok ([[1, 2], [1/2, 0]], [3, 0]) := by
  decide +kernel
example : IsShuffle List.reverse := fun s => List.reverse_perm s
/-- the hypothesis of `nonlinear_rejected` is satisfiable; and the rejection it predicts -/
example : specNonlinear exParse (.str "a*b") := ⟨_, rfl, by decide⟩
example : fromSpec id ["a", "b"] exParse (.str "a*b") = .error .runtimeMul := by decide +kernel
/-- completeness is NOT claimed: `(a-a)*b` is linear but rejected (the zero-scaled `a` is kept) -/
example : fromSpec id ["a", "b"] exParse (.str "(a-a)*b") = .error .runtimeMul := by decide +kernel
/-- which exception surfaces can depend on the order (`order_independent` only promises rejection) -/
example : fromSpec id ["a", "b"] exParse (.str "a/(b+0)") = .error .runtimeDiv
    ∧ fromSpec List.reverse ["a", "b"] exParse (.str "a/(b+0)") = .error .zeroDiv := by decide +kernel
/-- an operator applied to a tuple is rejected too (AttributeError in `get_matrix`) -/
example : fromSpec id ["a", "b"] exParse (.str "-(a,b)") = .error .structRow := by decide +kernel
/-- `RowExpresses` is not trivially true: the wrong row does not express the constraint -/
example : ¬ RowExpresses ["a"] ([2], 0) (.var "a", 0) := by
  intro h
  obtain ⟨vl, vr, h1, h2, h3⟩ := h.2 (fun _ => 1)
  simp only [Expr.lhs, Expr.rhs, eval, Option.some.injEq] at h1 h2
  subst h1; subst h2
  have : colValue ["a"] (fun _ => (1 : Rat)) "a" = 1 := by decide +kernel
  rw [this] at h3
  simp [dot] at h3

/-! ## The parser inside the model

`Model/ConstraintParse.lean` models `LinearConstraintParser.get_ast` (tokenizer + shunting-yard with the
BASE operator resolver over the live constraint table); the correspondence compares its tree with the
real parser's for every string of every case. -/

/-- **C16.p1**  The constraint parser is the general shunting-yard restricted to operator tokens found
verbatim in the table: whatever it accepts, the general algorithm of C01/C14 accepts with the same
tree (so `shunt_complete`, `disabled_never_used`, … transfer), for every token list and table. -/
theorem parser_refines_general (tab : FormulaicVerif.Model.OpTable) (ts : List FormulaicVerif.Model.Tok)
    (r : Option FormulaicVerif.Model.Ast)
    (h : FormulaicVerif.Model.ConstraintParse.tokensToAstBase tab ts = .ok r) :
    FormulaicVerif.Model.tokensToAst tab ts = .ok r :=
  FormulaicVerif.Proofs.C16Parse.tokensToAstBase_ok tab ts r h

/-- **C16.p2**  For EVERY string, `get_ast` either returns a tree (or nothing, for an empty string) or
fails with the library's syntax error — never with an internal exception. -/
theorem parser_fails_only_with_syntax_error (cs : List FormulaicVerif.Model.CharInfo)
    (e : FormulaicVerif.Model.ParseErr)
    (h : FormulaicVerif.Model.ConstraintParse.getAst cs = .error e) : ∃ w, e = .syntax w :=
  FormulaicVerif.Proofs.C16Parse.getAst_err cs e h

/-- the model of `from_spec` as a function of the specification's CHARACTERS: `chars` attaches the
two regex classes of the tokenizer to every character of a string -/
def parseString (chars : String → List FormulaicVerif.Model.CharInfo) (s : String) : Parsed :=
  (FormulaicVerif.Model.ConstraintParse.parse (chars s)).getD (.error "unmodelled-shape")

/-- **C16.p3**  `compile_sound` with the modelled parser plugged in: the statement of the property
for the model that starts at the string. -/
theorem compile_sound_from_string (sh : Shuffle) (hsh : IsShuffle sh) (names : List String)
    (chars : String → List FormulaicVerif.Model.CharInfo)
    (spec : Spec) (A : List (List Rat)) (b : List Rat)
    (h : fromSpec sh names (parseString chars) spec = .ok (A, b)) :
    ∃ cs, written (parseString chars) spec = some cs ∧ A.length = cs.length ∧ b.length = cs.length ∧
      ∀ (i : Nat) (hA : i < A.length) (hb : i < b.length) (hc : i < cs.length),
        RowExpresses names (A[i], b[i]) cs[i] :=
  compile_sound sh hsh names (parseString chars) spec A b h

/-- non-vacuity: the modelled parser on the characters of `a + 2*b = 3` -/
def asciiChars (s : String) : List FormulaicVerif.Model.CharInfo :=
  s.toList.map (fun c => { c := c, word := c.isAlphanum || c == '_' || c == '.', space := c == ' ' })
example : fromSpec id ["a", "b"] (parseString asciiChars) (.str "a + 2*b = 3, a/2") = .ok ([[1, 2], [1/2, 0]], [3, 0]) := by
  decide +kernel
example : fromSpec id ["a", "b"] (parseString asciiChars) (.str "-a + b = 3") = .ok ([[-1, 1]], [3]) := by
  decide +kernel

/-- **C16.p4**  (totality of the modelled parser)  For EVERY string the modelled constraint parser
returns a verdict: a tree in the evaluator's `Node` type, "empty", or an error class. The reading of
the shunting-yard's tree can never fail, because every tree built over the live constraint table has
only the operators `, = + - * /` with two arguments and prefix `+ -` with one, and every leaf is a
name, a number or a Python fragment (`Proofs/C16Total.lean`: a shape invariant of the shunting-yard
for any table, a `decide`-checked fact about `Gen.constraintTable`, and `tokens_have_kinds`). So the
default `"unmodelled-shape"` in `parseString` is never used, and `compile_sound_from_string` has no
hidden escape. -/
theorem parser_total (chars : String → List FormulaicVerif.Model.CharInfo) (s : String) :
    (∃ p, FormulaicVerif.Model.ConstraintParse.parse (chars s) = some p ∧ parseString chars s = p) ∧
    parseString chars s ≠ .error "unmodelled-shape" := by
  have ht := FormulaicVerif.Proofs.C16Total.parse_total (chars s)
  cases hp : FormulaicVerif.Model.ConstraintParse.parse (chars s) with
  | none => rw [hp] at ht; cases ht
  | some p =>
    have hps : parseString chars s = p := by simp [parseString, hp]
    refine ⟨⟨p, rfl, hps⟩, ?_⟩
    rw [hps]
    intro hpe
    subst hpe
    unfold FormulaicVerif.Model.ConstraintParse.parse at hp
    cases hg : FormulaicVerif.Model.ConstraintParse.getAst (chars s) with
    | error e =>
      obtain ⟨w, hw⟩ := FormulaicVerif.Proofs.C16Parse.getAst_err (chars s) e hg
      subst hw
      rw [hg] at hp
      simp only [Option.some.injEq, Parsed.error.injEq] at hp
      exact absurd hp (by decide)
    | ok r =>
      rw [hg] at hp
      cases r with
      | none => simp at hp
      | some a =>
        simp only at hp
        cases hn : FormulaicVerif.Model.ConstraintParse.nodeOfAst a with
        | none => rw [hn] at hp; simp at hp
        | some n => rw [hn] at hp; simp at hp

/-- non-vacuity: on the characters of `-a + 2*(b, c) = 3` (nested brackets, a prefix sign, a comma
inside brackets) the parser returns a tree, and an unbalanced string gets the syntax-error verdict -/
example : (FormulaicVerif.Model.ConstraintParse.parse (asciiChars "-a + 2*(b, c) = 3")).isSome = true
    ∧ parseString asciiChars "-a + 2*(b, c) = 3" = .ast (.bin .eq
        (.bin .add (.un .neg (.leaf .name "a"))
          (.bin .mul (.leaf .value "2") (.bin .comma (.leaf .name "b") (.leaf .name "c"))))
        (.leaf .value "3"))
    ∧ parseString asciiChars "(a + b" = .error "FormulaSyntaxError" :=
  ⟨by decide +kernel, by rfl, by rfl⟩


/-! ## Exactly which specifications are accepted

`nonlinear_rejected` is one half of a characterisation. `Spec/Affine.lean` defines `acceptable names n`:
the tree is a comma-separated list of scalar expressions with numeric literals, nowhere a product of two
column-mentioning subexpressions or a division by one, no division by a constant that is zero, and
every name it mentions is a column. -/

/-- **C16.a1**  The compiler returns a matrix for a specification EXACTLY when every string it parses is
acceptable (and a mapping is not empty): the syntactically linear fragment is accepted completely, and
nothing outside it is accepted — whatever the set iteration order. (`(a-a)*b` is outside: both factors
mention a column.) -/
theorem accepted_iff (sh : Shuffle) (hsh : IsShuffle sh) (names : List String) (parse : String → Parsed) (spec : Spec) :
    (∃ A b, fromSpec sh names parse spec = .ok (A, b)) ↔ specAcceptable names parse spec :=
  fromSpec_ok_iff hsh names parse spec

/-- **C16.a2**  The same for one tree, and what the scalar evaluator needs: `toTerms` yields a set of
scaled factors exactly on scalar expressions with numeric literals that are syntactically linear and
divide by no constant zero; its factors are then exactly the names the tree mentions. -/
theorem tree_accepted_iff (sh : Shuffle) (hsh : IsShuffle sh) (names : List String) (n : Node) :
    ((∃ A b, getMatrix sh names (.ast n) = .ok (A, b)) ↔ acceptable names n) ∧
    ((∃ s, toTerms sh n = .ok (.one s)) ↔
      ∃ e, exprOf n = some e ∧ nonlinear n = false ∧ (eval env0 e).isSome = true) ∧
    (∀ s, toTerms sh n = .ok (.one s) → ∀ x, (∃ t ∈ s, t.factor = some x) ↔ x ∈ namesOf n) :=
  ⟨getMatrix_ok_iff hsh names n, toTerms_scalar_iff hsh n,
   fun s h x => by rw [← toTerms_keys hsh n s h x]; exact mem_keys.symm⟩

/-- non-vacuity: an acceptable tree, and three unacceptable ones (non-linear, constant zero divisor, unknown name) -/
example : acceptable ["a", "b"] (.bin .add (.leaf .name "a") (.bin .mul (.leaf .value "2") (.leaf .name "b"))) :=
  ⟨_, rfl, by decide, by decide +kernel, by decide⟩
example : ¬ acceptable ["a", "b"] (.bin .mul (.leaf .name "a") (.leaf .name "b")) := by
  rintro ⟨_, _, hn, _⟩; exact absurd hn (by decide)
example : ¬ acceptable ["a"] (.bin .div (.leaf .name "a") (.leaf .value "0")) := by
  intro h
  obtain ⟨A, b, hh⟩ := (getMatrix_ok_iff isShuffle_id ["a"] _).mpr h
  have e : getMatrix id ["a"] (.ast (.bin .div (.leaf .name "a") (.leaf .value "0"))) = .error .zeroDiv := by decide +kernel
  rw [e] at hh; cases hh
example : ¬ acceptable ["a"] (.leaf .name "zz") := by
  rintro ⟨_, _, _, _, hnm⟩; exact absurd (hnm "zz" (by simp [namesOf])) (by decide)

/-- **C16.a3**  `l , r` compiles exactly when both sides do, and the rows are those of `l` followed by those
of `r` (the converse of `rows_in_order_written`, first part). -/
theorem comma_compiles_iff (sh : Shuffle) (names : List String) (l r : Node) (A : List (List Rat)) (b : List Rat) :
    getMatrix sh names (.ast (.bin .comma l r)) = .ok (A, b) ↔
      ∃ A₁ b₁ A₂ b₂, getMatrix sh names (.ast l) = .ok (A₁, b₁) ∧ getMatrix sh names (.ast r) = .ok (A₂, b₂) ∧
        A = A₁ ++ A₂ ∧ b = b₁ ++ b₂ :=
  getMatrix_comma_iff sh names l r A b

/-! ## Compiling is a homomorphism

Rows are vectors: `vadd`, `vsub`, `vsmul` are entrywise sum, difference and scalar multiple. Each law
says: if the compound tree compiles (to one row, necessarily), its operands compile to one row each
and the compound row is the stated combination. -/

/-- **C16.h1**  `compile (l + r) = compile l + compile r`. -/
theorem compile_add_hom (sh : Shuffle) (hsh : IsShuffle sh) (names : List String) (l r : Node) (A : List (List Rat)) (b : List Rat)
    (h : getMatrix sh names (.ast (.bin .add l r)) = .ok (A, b)) :
    ∃ v₁ c₁ v₂ c₂, getMatrix sh names (.ast l) = .ok ([v₁], [c₁]) ∧ getMatrix sh names (.ast r) = .ok ([v₂], [c₂]) ∧
      A = [vadd v₁ v₂] ∧ b = [c₁ + c₂] :=
  FormulaicVerif.Proofs.C16.compile_add hsh names h

/-- **C16.h2**  `compile (l - r) = compile l - compile r`. -/
theorem compile_sub_hom (sh : Shuffle) (hsh : IsShuffle sh) (names : List String) (l r : Node) (A : List (List Rat)) (b : List Rat)
    (h : getMatrix sh names (.ast (.bin .sub l r)) = .ok (A, b)) :
    ∃ v₁ c₁ v₂ c₂, getMatrix sh names (.ast l) = .ok ([v₁], [c₁]) ∧ getMatrix sh names (.ast r) = .ok ([v₂], [c₂]) ∧
      A = [vsub v₁ v₂] ∧ b = [c₁ - c₂] :=
  FormulaicVerif.Proofs.C16.compile_sub hsh names h

/-- **C16.h3**  `l = r` compiles to the row of `l - r`: constants and columns on the right-hand side move across
with the opposite sign. -/
theorem compile_eq_hom (sh : Shuffle) (hsh : IsShuffle sh) (names : List String) (l r : Node) (A : List (List Rat)) (b : List Rat)
    (h : getMatrix sh names (.ast (.bin .eq l r)) = .ok (A, b)) :
    ∃ v₁ c₁ v₂ c₂, getMatrix sh names (.ast l) = .ok ([v₁], [c₁]) ∧ getMatrix sh names (.ast r) = .ok ([v₂], [c₂]) ∧
      A = [vsub v₁ v₂] ∧ b = [c₁ - c₂] :=
  FormulaicVerif.Proofs.C16.compile_eq hsh names h

/-- **C16.h4**  `compile (-e) = -compile e`, `compile (+e) = compile e`. -/
theorem compile_sign_hom (sh : Shuffle) (hsh : IsShuffle sh) (names : List String) (op : Op1) (a : Node)
    (A : List (List Rat)) (b : List Rat) (h : getMatrix sh names (.ast (.un op a)) = .ok (A, b)) :
    ∃ v₁ c₁, getMatrix sh names (.ast a) = .ok ([v₁], [c₁]) ∧ A = [unRow op v₁] ∧ b = [unConst op c₁] :=
  FormulaicVerif.Proofs.C16.compile_un hsh names op h

/-- **C16.h5**  `compile (q * e) = q • compile e` for a numeric literal `q`. -/
theorem compile_scalar_mul_hom (sh : Shuffle) (hsh : IsShuffle sh) (names : List String) (t : String) (r : Node)
    (A : List (List Rat)) (b : List Rat) (h : getMatrix sh names (.ast (.bin .mul (.leaf .value t) r)) = .ok (A, b)) :
    ∃ q v₂ c₂, literalEval t = .ok q ∧ getMatrix sh names (.ast r) = .ok ([v₂], [c₂]) ∧
      A = [vsmul q v₂] ∧ b = [q * c₂] :=
  FormulaicVerif.Proofs.C16.compile_smul hsh names h

/-- **C16.h6**  `compile (e / q) = (1/q) • compile e` for a numeric literal `q`, which is not zero. -/
theorem compile_scalar_div_hom (sh : Shuffle) (hsh : IsShuffle sh) (names : List String) (t : String) (l : Node)
    (A : List (List Rat)) (b : List Rat) (h : getMatrix sh names (.ast (.bin .div l (.leaf .value t))) = .ok (A, b)) :
    ∃ q v₁ c₁, literalEval t = .ok q ∧ q ≠ 0 ∧ getMatrix sh names (.ast l) = .ok ([v₁], [c₁]) ∧
      A = [vsmul (1 / q) v₁] ∧ b = [c₁ / q] :=
  FormulaicVerif.Proofs.C16.compile_sdiv hsh names h

/-- **C16.h7**  Products and quotients in general: the row of `l * r` expresses the product of the two affine maps,
the row of `l / r` their quotient, and the divisor's map never vanishes. -/
theorem compile_mul_div_sem (sh : Shuffle) (hsh : IsShuffle sh) (names : List String) (l r : Node) (A : List (List Rat)) (b : List Rat) :
    (getMatrix sh names (.ast (.bin .mul l r)) = .ok (A, b) →
      ∃ v₁ c₁ v₂ c₂ v c, getMatrix sh names (.ast l) = .ok ([v₁], [c₁]) ∧ getMatrix sh names (.ast r) = .ok ([v₂], [c₂]) ∧
        A = [v] ∧ b = [c] ∧ ∀ x, dot v x - c = (dot v₁ x - c₁) * (dot v₂ x - c₂)) ∧
    (getMatrix sh names (.ast (.bin .div l r)) = .ok (A, b) →
      ∃ v₁ c₁ v₂ c₂ v c, getMatrix sh names (.ast l) = .ok ([v₁], [c₁]) ∧ getMatrix sh names (.ast r) = .ok ([v₂], [c₂]) ∧
        A = [v] ∧ b = [c] ∧ ∀ x, dot v₂ x - c₂ ≠ 0 ∧ dot v x - c = (dot v₁ x - c₁) / (dot v₂ x - c₂)) :=
  ⟨FormulaicVerif.Proofs.C16.compile_mul hsh names, FormulaicVerif.Proofs.C16.compile_div hsh names⟩

/-- **C16.h8**  A chained equality `a = b = c` is ONE constraint (the code as it is: `=` is an ordinary binary
operator, `(a = b) = c`): one row, that of `a - b - c`. It is not read as the two constraints `a = b, b = c`. -/
theorem chained_equalities_one_row (sh : Shuffle) (hsh : IsShuffle sh) (names : List String) (a b c : Node)
    (A : List (List Rat)) (bb : List Rat) (h : getMatrix sh names (.ast (.bin .eq (.bin .eq a b) c)) = .ok (A, bb)) :
    ∃ va ca vb cb vc cc, getMatrix sh names (.ast a) = .ok ([va], [ca]) ∧ getMatrix sh names (.ast b) = .ok ([vb], [cb]) ∧
      getMatrix sh names (.ast c) = .ok ([vc], [cc]) ∧ A = [vsub (vsub va vb) vc] ∧ bb = [ca - cb - cc] := by
  obtain ⟨v₁, c₁, vc, cc, h1, h2, rfl, rfl⟩ := FormulaicVerif.Proofs.C16.compile_eq hsh names h
  obtain ⟨va, ca, vb, cb, h3, h4, hA, hb⟩ := FormulaicVerif.Proofs.C16.compile_eq hsh names h1
  simp only [List.cons.injEq, and_true] at hA hb
  subst hA; subst hb
  exact ⟨va, ca, vb, cb, vc, cc, h3, h4, h2, rfl, rfl⟩

/-- **C16.h9**  The linear operations are TOTAL on what compiles: if the scalar expressions `l` and `r` compile (over
`names`), so do `l + r`, `l - r`, `l = r`, `+l`, `-l`, `q * l`, `l * q` for every numeric literal `q`, and `l / q` for
every non-zero one (with the rows the homomorphism laws give). Rejection can only come from a leaf, a product of two
column-mentioning factors, a divisor that mentions a column or is zero, or a `,` under an operator. -/
theorem linear_operations_total (sh : Shuffle) (hsh : IsShuffle sh) (names : List String) (l r : Node) (ea eb : Expr)
    (hea : exprOf l = some ea) (heb : exprOf r = some eb)
    (hl : ∃ A b, getMatrix sh names (.ast l) = .ok (A, b)) (hr : ∃ A b, getMatrix sh names (.ast r) = .ok (A, b)) :
    (∃ A b, getMatrix sh names (.ast (.bin .add l r)) = .ok (A, b)) ∧
    (∃ A b, getMatrix sh names (.ast (.bin .sub l r)) = .ok (A, b)) ∧
    (∃ A b, getMatrix sh names (.ast (.bin .eq l r)) = .ok (A, b)) ∧
    (∀ op, ∃ A b, getMatrix sh names (.ast (.un op l)) = .ok (A, b)) ∧
    (∀ t q, literalEval t = .ok q →
      (∃ A b, getMatrix sh names (.ast (.bin .mul (.leaf .value t) l)) = .ok (A, b)) ∧
      (∃ A b, getMatrix sh names (.ast (.bin .mul l (.leaf .value t))) = .ok (A, b)) ∧
      (q ≠ 0 → ∃ A b, getMatrix sh names (.ast (.bin .div l (.leaf .value t))) = .ok (A, b))) := by
  have g := fun n => getMatrix_ok_iff hsh names n
  obtain ⟨h1, h2, h3, h4, h5⟩ := linear_ops_acceptable hea heb ((g l).mp hl) ((g r).mp hr)
  refine ⟨(g _).mpr h1, (g _).mpr h2, (g _).mpr h3, fun op => (g _).mpr (h4 op), fun t q hq => ?_⟩
  obtain ⟨m1, m2, m3⟩ := h5 t q hq
  exact ⟨(g _).mpr m1, (g _).mpr m2, fun hz => (g _).mpr (m3 hz)⟩

/-- non-vacuity of the laws: `a + 2*b`, `a = b = 3`, `-(a/2)` over the columns `a, b` -/
example : getMatrix id ["a", "b"] (.ast (.bin .add (.leaf .name "a") (.bin .mul (.leaf .value "2") (.leaf .name "b"))))
    = .ok ([[1, 2]], [0]) := by decide +kernel
example : getMatrix id ["a", "b"] (.ast (.bin .eq (.bin .eq (.leaf .name "a") (.leaf .name "b")) (.leaf .value "3")))
    = .ok ([[1, -1]], [3]) := by decide +kernel
example : getMatrix id ["a", "b"] (.ast (.un .neg (.bin .div (.leaf .name "a") (.leaf .value "2"))))
    = .ok ([[-1/2, 0]], [0]) := by decide +kernel

/-- **C16.u1**  The result is a function of the MAPS the constraints denote, not of how they are written or in
which form they come: two accepted specifications over the same columns (any forms, parsers, iteration orders)
whose written constraints have pairwise the same value `lhs − rhs − offset` at every `x` compile to the same
`(A, b)`. -/
theorem same_map_same_result (sh₁ sh₂ : Shuffle) (h₁ : IsShuffle sh₁) (h₂ : IsShuffle sh₂) (names : List String)
    (parse₁ parse₂ : String → Parsed) (spec₁ spec₂ : Spec) (A₁ A₂ : List (List Rat)) (b₁ b₂ : List Rat)
    (e₁ : fromSpec sh₁ names parse₁ spec₁ = .ok (A₁, b₁)) (e₂ : fromSpec sh₂ names parse₂ spec₂ = .ok (A₂, b₂))
    (cs₁ cs₂ : List (Expr × Rat)) (w₁ : written parse₁ spec₁ = some cs₁) (w₂ : written parse₂ spec₂ = some cs₂)
    (hlen : cs₁.length = cs₂.length)
    (same : ∀ (i : Nat) (hi₁ : i < cs₁.length) (hi₂ : i < cs₂.length) (x : Nat → Rat) (vl vr vl' vr' : Rat),
      eval (colValue names x) cs₁[i].1.lhs = some vl → eval (colValue names x) cs₁[i].1.rhs = some vr →
      eval (colValue names x) cs₂[i].1.lhs = some vl' → eval (colValue names x) cs₂[i].1.rhs = some vr' →
      vl - vr - cs₁[i].2 = vl' - vr' - cs₂[i].2) :
    A₁ = A₂ ∧ b₁ = b₂ := by
  obtain ⟨cs₁', w₁', la₁, lb₁, r₁⟩ := compile_sound sh₁ h₁ names parse₁ spec₁ A₁ b₁ e₁
  obtain ⟨cs₂', w₂', la₂, lb₂, r₂⟩ := compile_sound sh₂ h₂ names parse₂ spec₂ A₂ b₂ e₂
  rw [w₁] at w₁'; cases w₁'
  rw [w₂] at w₂'; cases w₂'
  have key : ∀ (i : Nat) (hA₁ : i < A₁.length) (hA₂ : i < A₂.length) (hb₁ : i < b₁.length) (hb₂ : i < b₂.length),
      A₁[i] = A₂[i] ∧ b₁[i] = b₂[i] := by
    intro i hA₁ hA₂ hb₁ hb₂
    have hc₁ : i < cs₁.length := la₁ ▸ hA₁
    have hc₂ : i < cs₂.length := la₂ ▸ hA₂
    exact rowExpresses_unique (r₁ i hA₁ hb₁ hc₁) (r₂ i hA₂ hb₂ hc₂) (same i hc₁ hc₂)
  constructor
  · apply List.ext_getElem (by rw [la₁, la₂, hlen])
    intro i hA₁ hA₂
    exact (key i hA₁ hA₂ (by rw [lb₁, ← la₁]; exact hA₁) (by rw [lb₂, ← la₂]; exact hA₂)).1
  · apply List.ext_getElem (by rw [lb₁, lb₂, hlen])
    intro i hb₁ hb₂
    exact (key i (by rw [la₁, ← lb₁]; exact hb₁) (by rw [la₂, ← lb₂]; exact hb₂) hb₁ hb₂).2

/-- **C16.u2**  The column list matters only through which name sits where: compile the same tree against two lists of
distinct names with the same members (a permutation), under any iteration orders. It compiles against one exactly when
it compiles against the other; the values `b` are identical and every coefficient moves with its column:
`A'[i][j'] = A[i][j]` whenever `names'[j'] = names[j]`. (The history stream compiles one specification against
permuted lists in one process; this is the statement it checks.) -/
theorem column_order_equivariant (sh sh' : Shuffle) (hsh : IsShuffle sh) (hsh' : IsShuffle sh') (names names' : List String)
    (hnd : names.Nodup) (hnd' : names'.Nodup) (hset : ∀ v, v ∈ names ↔ v ∈ names') (n : Node) :
    ((∃ A b, getMatrix sh names (.ast n) = .ok (A, b)) ↔ (∃ A' b', getMatrix sh' names' (.ast n) = .ok (A', b'))) ∧
    (∀ A b A' b', getMatrix sh names (.ast n) = .ok (A, b) → getMatrix sh' names' (.ast n) = .ok (A', b') →
      b' = b ∧ A'.length = A.length ∧
      ∀ (i : Nat) (hi : i < A.length) (hi' : i < A'.length) (j j' : Nat) (hj : j < names.length) (hj' : j' < names'.length),
        names[j] = names'[j'] → (A'[i])[j']? = (A[i])[j]?) := by
  constructor
  · rw [getMatrix_ok_iff hsh names n, getMatrix_ok_iff hsh' names' n]
    exact acceptable_same_columns hset n
  · intro A b A' b' h h'
    obtain ⟨es, hes, hr⟩ := getMatrix_sound hsh names _ h
    obtain ⟨es', hes', hr'⟩ := getMatrix_sound hsh' names' _ h'
    rw [hes] at hes'; cases hes'
    exact rows_equivariant hnd hnd' hset hr hr'

/-- **C16.u3**  …and against ANY list of distinct names (permuted, extended, shrunk): every entry of the result is
determined by the tree and the NAME of its column alone — `b_i = −⟦e_i⟧(0)` and `A[i][j] = ⟦e_i⟧(1 at names[j], 0
elsewhere) − ⟦e_i⟧(0)` — not by the column's position, the other columns, earlier compilations or the iteration
order. -/
theorem entries_depend_only_on_the_name (sh : Shuffle) (hsh : IsShuffle sh) (names : List String) (hnd : names.Nodup)
    (n : Node) (A : List (List Rat)) (b : List Rat) (h : getMatrix sh names (.ast n) = .ok (A, b)) :
    ∃ es, constraintsOf n = some es ∧ A.length = es.length ∧ b.length = es.length ∧
      ∀ (i : Nat) (hA : i < A.length) (hb : i < b.length) (he : i < es.length),
        eval env0 es[i] = some (-b[i]) ∧
        ∀ (j : Nat) (hj : j < names.length), ∃ a, (A[i])[j]? = some a ∧ eval (indicator names[j]) es[i] = some (a - b[i]) := by
  obtain ⟨es, hes, hr⟩ := getMatrix_sound hsh names _ h
  refine ⟨es, hes, hr.lengths.1, hr.lengths.2, fun i hA hb he => ?_⟩
  have r := hr.get i hA hb he
  obtain ⟨h0, hj⟩ := row_by_name hnd r
  refine ⟨h0, fun j hjl => ⟨(A[i])[j]'(r.1 ▸ hjl), List.getElem?_eq_getElem _, hj j hjl⟩⟩

/-- non-vacuity: `a + 2*b = 3` against `a, b` and against `b, a` -/
example : getMatrix id ["a", "b"] (.ast (.bin .eq (.bin .add (.leaf .name "a") (.bin .mul (.leaf .value "2") (.leaf .name "b"))) (.leaf .value "3")))
      = .ok ([[1, 2]], [3])
    ∧ getMatrix id ["b", "a"] (.ast (.bin .eq (.bin .add (.leaf .name "a") (.bin .mul (.leaf .value "2") (.leaf .name "b"))) (.leaf .value "3")))
      = .ok ([[2, 1]], [3]) := by decide +kernel

/-! ## Every kind of specification: `LinearConstraints.from_spec` and the constructor

`Model/ConstraintForms.lean`: `fromSpecAny sh parse names spec` is the model of
`LinearConstraints.from_spec(spec, variable_names)` for a Python object `spec : PyVal` (instance, string, list,
mapping, tuple, ndarray, number, `None`) and `names : Option (List String)` (`None` or a list), including the
constructor's `numpy.array` shape discovery, reshaping, broadcasting, default names and validations.
`encode` turns the three formula forms into the Python objects; `compiledLC A b ns` is the instance holding a
compiled `(A, b)` over the columns `ns`; `ratMatrix M`, `rowArr v` are a table / a row of numbers as array-likes. -/

open FormulaicVerif.Model.ConstraintForms FormulaicVerif.Proofs.C16Forms

/-- **C16.f1**  The formula forms (string, list of strings, mapping) given variable names: the result of the compiler
goes through the constructor unchanged — the constructor cannot fail on it — so every theorem about `fromSpec`
is a theorem about `from_spec`. -/
theorem from_spec_formula_forms (sh : Shuffle) (hsh : IsShuffle sh) (parse : String → Parsed) (ns : List String) (spec : Spec) :
    fromSpecAny sh parse (some ns) (encode spec) = match fromSpec sh ns parse spec with
      | .error e => .error (.compile e)
      | .ok (A, b) => .ok (compiledLC A b ns) := by
  rw [fromSpecAny_encode]; exact formula_eq hsh parse ns spec

/-- **C16.f2**  `compile_sound` for `from_spec` itself: a returned instance holds one row and one value per written
constraint, in order, `n_constraints` is their number, every row is as wide as the column list, and row `i`
satisfies `A_i·x − b_i = ⟦lhs_i⟧x − ⟦rhs_i⟧x − offset_i` for every `x`. -/
theorem compile_sound_every_form (sh : Shuffle) (hsh : IsShuffle sh) (parse : String → Parsed) (ns : List String)
    (spec : Spec) (lc : LC) (h : fromSpecAny sh parse (some ns) (encode spec) = .ok lc) :
    ∃ A b cs, lc = compiledLC A b ns ∧ written parse spec = some cs ∧ lc.nConstraints = cs.length ∧
      lc.values.length = cs.length ∧ lc.ncols = ns.length ∧
      ∀ (i : Nat) (hA : i < A.length) (hb : i < b.length) (hc : i < cs.length), RowExpresses ns (A[i], b[i]) cs[i] := by
  rw [from_spec_formula_forms sh hsh] at h
  cases hf : fromSpec sh ns parse spec with
  | error e => rw [hf] at h; cases h
  | ok r =>
    obtain ⟨A, b⟩ := r
    rw [hf] at h
    simp only [Except.ok.injEq] at h
    obtain ⟨cs, hw, la, lb, hr⟩ := compile_sound sh hsh ns parse spec A b hf
    exact ⟨A, b, cs, h.symm, hw, by simp [← h, LC.nConstraints, compiledLC, la],
      by simp [← h, compiledLC, numCells, lb], by simp [← h, compiledLC], hr⟩

/-- **C16.f3**  …and `accepted_iff` for `from_spec` itself. -/
theorem accepted_iff_every_form (sh : Shuffle) (hsh : IsShuffle sh) (parse : String → Parsed) (ns : List String) (spec : Spec) :
    (∃ lc, fromSpecAny sh parse (some ns) (encode spec) = .ok lc) ↔ specAcceptable ns parse spec := by
  rw [from_spec_formula_forms sh hsh, ← accepted_iff sh hsh]
  cases fromSpec sh ns parse spec with
  | error e => simp
  | ok r => obtain ⟨A, b⟩ := r; simp

/-- **C16.f4**  Without variable names a formula form is rejected, whatever it says (before anything is parsed). -/
theorem names_required (sh : Shuffle) (parse : String → Parsed) (spec : Spec) :
    fromSpecAny sh parse none (encode spec) = .error .namesRequired := by
  rw [fromSpecAny_encode]; rfl

/-- **C16.f5**  A `LinearConstraints` instance is returned as it is; the variable names passed along are ignored. -/
theorem instance_returned_as_is (sh : Shuffle) (parse : String → Parsed) (names : Option (List String)) (lc : LC) :
    fromSpecAny sh parse names (.inst lc) = .ok lc := rfl

/-- **C16.f6**  A list of strings is the string obtained by joining with commas — also without names, also when
malformed, also the empty list (the empty string: no constraint). -/
theorem list_form_is_joined_string (sh : Shuffle) (parse : String → Parsed) (names : Option (List String)) (ss : List String) :
    fromSpecAny sh parse names (encode (.list ss)) = fromSpecAny sh parse names (encode (.str (",".intercalate ss))) := by
  rw [fromSpecAny_encode, fromSpecAny_encode]
  cases names <;> rfl

/-- **C16.f7**  Everything that is not an instance, a formula form or a 2-tuple is a matrix with all values zero:
a numpy array, a list that is not all strings, a tuple of another length — the same as the pair `(spec, 0)`. -/
theorem bare_matrix_is_pair_with_zero (sh : Shuffle) (parse : String → Parsed) (names : Option (List String)) :
    (∀ a, fromSpecAny sh parse names (.nd a) = fromSpecAny sh parse names (.tuple [a, .num 0])) ∧
    (∀ xs, allText xs = none → fromSpecAny sh parse names (.list xs) = fromSpecAny sh parse names (.tuple [.seq xs, .num 0])) ∧
    (∀ xs, xs.length ≠ 2 → fromSpecAny sh parse names (.tuple xs) = fromSpecAny sh parse names (.tuple [.seq xs, .num 0])) := by
  refine ⟨fun a => rfl, fun xs h => by simp only [fromSpecAny, h], fun xs h => ?_⟩
  match xs, h with
  | [], _ => rfl
  | [_], _ => rfl
  | [_, _], h => exact absurd rfl h
  | _ :: _ :: _ :: _, _ => rfl

/-- **C16.f8**  `(matrix, values)` with a table of numbers and a row of numbers: accepted EXACTLY when the table is
rectangular, there is one value per row and the names, when given (and not empty), are one per column; the
instance then holds the table and the values as given, in order. A ragged table is rejected by numpy. -/
theorem pair_form_accepted_iff (sh : Shuffle) (parse : String → Parsed) (names : Option (List String))
    (r : List Rat) (M : List (List Rat)) (v : List Rat) (lc : LC) :
    (fromSpecAny sh parse names (.tuple [ratMatrix (r :: M), rowArr v]) = .ok lc ↔
      (∀ r' ∈ M, r'.length = r.length) ∧ v.length = M.length + 1 ∧ (resolved names r.length).length = r.length ∧
      lc = { matrix := (r :: M).map numCells, ncols := r.length, values := numCells v,
             names := finalNames (resolved names r.length) (M.length + 1) }) ∧
    (¬ (∀ r' ∈ M, r'.length = r.length) →
      ∀ vv, fromSpecAny sh parse names (.tuple [ratMatrix (r :: M), vv]) = .error .inhomogeneous) := by
  refine ⟨initLC_pair r M v names lc, fun hrag vv => ?_⟩
  simp only [fromSpecAny, initLC, npArray]
  cases hs : (ratMatrix (r :: M)).shape with
  | error e => rw [shape_ratMatrix_error r M e hs]
  | ok s => exact absurd ((shape_ratMatrix r M s).mp hs).2 hrag

/-- **C16.f9**  A scalar value (and the bare matrix: value 0) is repeated for every row; a flat row of numbers is
a one-row table. -/
theorem scalar_values_and_flat_rows (sh : Shuffle) (parse : String → Parsed) (names : Option (List String))
    (r : List Rat) (M : List (List Rat)) (q : Rat) (lc : LC) :
    (fromSpecAny sh parse names (.tuple [ratMatrix (r :: M), .num q]) = .ok lc ↔
      (∀ r' ∈ M, r'.length = r.length) ∧ (resolved names r.length).length = r.length ∧
      lc = { matrix := (r :: M).map numCells, ncols := r.length, values := List.replicate (M.length + 1) (.num q),
             names := finalNames (resolved names r.length) (M.length + 1) }) ∧
    (∀ vv, fromSpecAny sh parse names (.tuple [rowArr r, vv]) = fromSpecAny sh parse names (.tuple [ratMatrix [r], vv])) :=
  ⟨initLC_scalar r M q names lc, fun vv => initLC_flat_row r vv names⟩

/-- **C16.f10**  Whatever is passed (any nest of numbers and strings, any names), an instance that `from_spec`
BUILDS is well shaped: one value per row, every row `ncols` wide, one name per column — except that with no
column the names are `x0 … x(rows−1)` (the constructor's last line, code as it is). -/
theorem built_instance_well_shaped (sh : Shuffle) (hsh : IsShuffle sh) (parse : String → Parsed) (names : Option (List String))
    (spec : PyVal) (lc : LC) (hni : ∀ lc', spec ≠ .inst lc') (h : fromSpecAny sh parse names spec = .ok lc) :
    WellShaped lc := by
  have form : ∀ sp, formula sh parse names sp = .ok lc → WellShaped lc := by
    intro sp hf
    cases names with
    | none => cases hf
    | some ns =>
      rw [formula_eq hsh] at hf
      cases hc : fromSpec sh ns parse sp with
      | error e => rw [hc] at hf; cases hf
      | ok r =>
        obtain ⟨A, b⟩ := r
        rw [hc] at hf
        simp only [Except.ok.injEq] at hf
        subst hf
        exact compiledLC_wellShaped hsh ns parse sp hc
  cases spec with
  | inst lc' => exact absurd rfl (hni lc')
  | none => cases h
  | num q => exact initLC_wellShaped (.num q) (.num 0) names lc h
  | str s => exact form _ h
  | dict items => exact form _ h
  | nd a => exact initLC_wellShaped a (.num 0) names lc h
  | list xs =>
    simp only [fromSpecAny] at h
    cases ha : allText xs with
    | some ss => rw [ha] at h; exact form _ h
    | none => rw [ha] at h; exact initLC_wellShaped _ _ _ _ h
  | tuple xs =>
    match xs, h with
    | [], h => exact initLC_wellShaped (.seq []) (.num 0) names lc h
    | [x], h => exact initLC_wellShaped (.seq [x]) (.num 0) names lc h
    | [m, v], h => exact initLC_wellShaped m v names lc h
    | x :: y :: z :: rest, h => exact initLC_wellShaped (.seq (x :: y :: z :: rest)) (.num 0) names lc h

/-- **C16.f11**  What a matrix form denotes: over distinct column names, row `i` of an accepted `(matrix, values)`
expresses — in the very sense of `compile_sound` — the linear combination `Σ M_ij·name_j` set equal to `values_i`. -/
theorem matrix_form_denotes (ns : List String) (hnd : ns.Nodup) (row : List Rat) (hl : row.length = ns.length) (c : Rat) :
    RowExpresses ns (row, c) (linExpr ns row, c) :=
  row_expresses_linExpr hnd hl c

/-- **C16.f12**  The forms agree: the `(A, b)` a formula form compiles to, passed back as the pair `(A, b)` with the
same names, is accepted and gives the same instance (at least one constraint; an empty table of numbers has no
width). Together with `same_map_same_result` and `matrix_form_denotes`: a matrix form and any formula form that
says the same maps yield the same instance. -/
theorem forms_agree (sh : Shuffle) (hsh : IsShuffle sh) (parse : String → Parsed) (ns : List String) (spec : Spec)
    (A : List (List Rat)) (b : List Rat) (h : fromSpec sh ns parse spec = .ok (A, b)) (hne : A ≠ []) :
    fromSpecAny sh parse (some ns) (encode spec) = .ok (compiledLC A b ns) ∧
    fromSpecAny sh parse (some ns) (.tuple [ratMatrix A, rowArr b]) = .ok (compiledLC A b ns) := by
  refine ⟨by rw [from_spec_formula_forms sh hsh, h], ?_⟩
  obtain ⟨cs, _, la, lb, hr⟩ := compile_sound sh hsh ns parse spec A b h
  have width : ∀ a ∈ A, a.length = ns.length := by
    intro a ha
    obtain ⟨i, hi, rfl⟩ := List.mem_iff_getElem.mp ha
    exact (hr i hi (by rw [lb, ← la]; exact hi) (by rw [← la]; exact hi)).1
  cases A with
  | nil => exact absurd rfl hne
  | cons r M =>
    have hr0 : r.length = ns.length := width r (by simp)
    apply (pair_form_accepted_iff sh parse (some ns) r M b _).1.mpr
    refine ⟨fun r' hr' => (width r' (by simp [hr'])).trans hr0.symm, by rw [lb, ← la]; rfl, ?_, ?_⟩
    · cases ns with
      | nil => simpa [resolved, defaultNames] using hr0.symm
      | cons n ns' => simpa [resolved] using hr0.symm
    · simp only [compiledLC, List.length_cons, hr0]
      cases ns with
      | nil => rfl
      | cons n ns' => rfl

/-- **C16.f13**  `n_constraints` of a built instance: the number of written constraints (formula forms, in
`compile_sound_every_form`), the number of rows given (matrix forms), one for a flat row. -/
theorem n_constraints_matrix_forms (sh : Shuffle) (parse : String → Parsed) (names : Option (List String))
    (r : List Rat) (M : List (List Rat)) (lc : LC) :
    (∀ v, fromSpecAny sh parse names (.tuple [ratMatrix (r :: M), rowArr v]) = .ok lc → lc.nConstraints = M.length + 1) ∧
    (∀ q, fromSpecAny sh parse names (.tuple [ratMatrix (r :: M), .num q]) = .ok lc → lc.nConstraints = M.length + 1) ∧
    (∀ q, fromSpecAny sh parse names (.tuple [rowArr r, .num q]) = .ok lc → lc.nConstraints = 1) := by
  refine ⟨fun v h => ?_, fun q h => ?_, fun q h => ?_⟩
  · obtain ⟨_, _, _, rfl⟩ := (pair_form_accepted_iff sh parse names r M v lc).1.mp h
    simp [LC.nConstraints]
  · obtain ⟨_, _, rfl⟩ := (scalar_values_and_flat_rows sh parse names r M q lc).1.mp h
    simp [LC.nConstraints]
  · rw [(scalar_values_and_flat_rows sh parse names r [] q lc).2] at h
    obtain ⟨_, _, rfl⟩ := (scalar_values_and_flat_rows sh parse names r [] q lc).1.mp h
    simp [LC.nConstraints]

/-- **C16.f16**  Every matrix form has an equivalent formula, constructively: over distinct column names, row `i` of
an accepted `(matrix, values)` pair is EXACTLY what the formula tree `rowNode` — `M_i0 * n_0 + (M_i1 * n_1 + …) = v_i`,
each number written as the quotient of two numeric literals — compiles to (whatever the set iteration order). So the
matrix forms add nothing to what formulas can say, and say it identically. -/
theorem matrix_form_has_formula (sh : Shuffle) (hsh : IsShuffle sh) (parse : String → Parsed) (ns : List String)
    (hnd : ns.Nodup) (hne : ns ≠ []) (r : List Rat) (M : List (List Rat)) (v : List Rat) (lc : LC)
    (h : fromSpecAny sh parse (some ns) (.tuple [ratMatrix (r :: M), rowArr v]) = .ok lc) :
    ∀ (i : Nat) (hi : i < (r :: M).length) (hv : i < v.length),
      getMatrix sh ns (.ast (rowNode ns (r :: M)[i] v[i])) = .ok ([(r :: M)[i]], [v[i]]) := by
  obtain ⟨hrect, _, hnm, _⟩ := (pair_form_accepted_iff sh parse (some ns) r M v lc).1.mp h
  have hns : ns.length = r.length := by
    cases ns with
    | nil => exact absurd rfl hne
    | cons n ns' => simpa [resolved] using hnm
  intro i hi hv
  apply getMatrix_rowNode hsh hnd
  have hmem : (r :: M)[i] ∈ r :: M := List.getElem_mem hi
  rcases List.mem_cons.mp hmem with e | e
  · rw [e, hns]
  · rw [hrect _ e, hns]

/-- non-vacuity, and the link to strings: the modelled parser reads the text of such a formula as that tree -/
example : getMatrix id ["a", "b"] (.ast (rowNode ["a", "b"] [1, -1/2] 3)) = .ok ([[1, -1/2]], [3]) := by decide +kernel
example : (match parseString asciiChars "1./1.*a + ((-(1./2.))*b + 0.) = 3./1." with | .ast n => some n | _ => none)
    = some (rowNode ["a", "b"] [1, -1/2] 3) := by decide +kernel

/-- **C16.f14**  A mapping with one entry `{k: c}` is the string `k` with every value raised by `c` (and
`rows_in_order_written` gives the entries of a longer mapping one after the other). -/
theorem dict_entry_is_string_shifted (sh : Shuffle) (names : List String) (parse : String → Parsed) (k : String) (c : Rat) :
    fromSpec sh names parse (.dict [(k, c)]) = match fromSpec sh names parse (.str k) with
      | .error e => .error e
      | .ok (A, b) => .ok (A, b.map (· + c)) := by
  simp only [fromSpec, dictRows]
  cases getMatrix sh names (parse k) with
  | error e => rfl
  | ok r => obtain ⟨A, b⟩ := r; simp

/-- **C16.f15** (tie to the source, finite table)  The messages the model attaches to its errors are exactly the
literal messages of the `raise` statements of `formulaic/utils/constraints.py`, read from the live source on every
run (`Gen/ConstraintMessages.lean`), with the exception constructor of each, in source order. The correspondence
compares the message of every error the implementation raises with the model's. -/
theorem messages_match_source :
    FormulaicVerif.Gen.constraintRaises.map (fun r => (r.2.1, r.2.2)) = messageTable := by decide

/-- non-vacuity of the form theorems: the same two constraints as a string, a mapping, a pair and a bare matrix -/
example : fromSpecAny id exParse (some ["a", "b"]) (encode (.str "a + 2*b = 3, a/2"))
    = .ok (compiledLC [[1, 2], [1/2, 0]] [3, 0] ["a", "b"]) := by decide +kernel
example : fromSpecAny id exParse (some ["a", "b"]) (.tuple [ratMatrix [[1, 2], [1/2, 0]], rowArr [3, 0]])
    = .ok (compiledLC [[1, 2], [1/2, 0]] [3, 0] ["a", "b"]) := by decide +kernel
example : fromSpecAny id exParse none (.tuple [ratMatrix [[1, 2], [1/2, 0]], .num 0])
    = .ok { matrix := [[.num 1, .num 2], [.num (1/2), .num 0]], ncols := 2, values := [.num 0, .num 0], names := ["x0", "x1"] } := by
  decide +kernel
example : fromSpecAny id exParse (some ["a"]) (.tuple [ratMatrix [[1, 2], [3]], rowArr [0, 0]]) = .error .inhomogeneous := by
  decide +kernel
example : fromSpecAny id exParse (some ["a"]) (.tuple [ratMatrix [[1, 2]], rowArr [0]]) = .error .namesMismatch := by
  decide +kernel
example : fromSpecAny id exParse none (.num 5) = .error .indexError := by decide +kernel
/-- the quirk `built_instance_well_shaped` documents: no column, names `x0` -/
example : fromSpecAny id (fun _ => .ast (.leaf .value "1")) (some []) (.str "1")
    = .ok { matrix := [[]], ncols := 0, values := [.num (-1)], names := ["x0"] } := by decide +kernel
example : (["a", "b"] : List String).Nodup := by decide

end FormulaicVerif.Props.C16
