import FormulaicVerif.Proofs.C16Tree
import FormulaicVerif.Proofs.C16Parse
import FormulaicVerif.Proofs.C16Total
import FormulaicVerif.Gen.OperatorTable
/-! # C16 — Linear-constraint specifications compile to the affine map they express

Property theorems only; helper lemmas are in `Proofs/C16Terms.lean` and `Proofs/C16Tree.lean`.
Every `theorem` here is an obligation audited with `#print axioms`.

Vocabulary (all from `Model/Constraints.lean` and `Spec/Affine.lean`):
* `fromSpec sh names parse spec` — the model of `LinearConstraints.from_spec(spec, names)`;
  `parse` is the tokenizer + shunting-yard (a parameter: any function from strings to trees),
  `sh` is the order in which Python happens to iterate over its sets.
* `written parse spec` — the constraints the specification says, in the order written, each as an
  expression with the value it is set equal to; `eval` is exact rational evaluation;
  `RowExpresses names (r, c) (e, off)` is the property's equation
  `r·x − c = ⟦lhs e⟧x − ⟦rhs e⟧x − off` for every `x` (with both sides defined). -/

namespace FormulaicVerif.Props.C16
open FormulaicVerif.Model.Constraints FormulaicVerif.Spec.Affine FormulaicVerif.Proofs.C16

/-- **C16.1**  Whenever the model returns `(A, b)` — for a string, a list of strings or a mapping,
for every tree the parser may have produced (structural induction: unbounded nesting, repeated
variables, constants on both sides), every list of column names and every set iteration order —
there is exactly one row per written constraint, in the order written, and row `i` satisfies
`A_i·x − b_i = ⟦lhs_i⟧x − ⟦rhs_i⟧x` (minus the mapped value, for the mapping form) for EVERY
vector `x`; no division by zero occurs on either side. -/
theorem compile_sound (sh : Shuffle) (hsh : IsShuffle sh) (names : List String) (parse : String → Parsed)
    (spec : Spec) (A : List (List Rat)) (b : List Rat) (h : fromSpec sh names parse spec = .ok (A, b)) :
    ∃ cs, written parse spec = some cs ∧ A.length = cs.length ∧ b.length = cs.length ∧
      ∀ (i : Nat) (hA : i < A.length) (hb : i < b.length) (hc : i < cs.length),
        RowExpresses names (A[i], b[i]) cs[i] := by
  obtain ⟨cs, hcs, hr⟩ := fromSpec_sound hsh names parse spec h
  refine ⟨cs, hcs, hr.lengths.1, hr.lengths.2, ?_⟩
  intro i hA hb hc
  exact rowExpresses_of_off names (hr.get i hA hb hc)

/-- **C16.1b**  "In the order written", stated on the model alone: the rows of `l , r` are the
rows of `l` followed by the rows of `r`; and the rows of a mapping are the rows of its entries
in insertion order, each shifted by its value. -/
theorem rows_in_order_written (sh : Shuffle) (names : List String) :
    (∀ (l r : Node) (A : List (List Rat)) (b : List Rat),
      getMatrix sh names (.ast (.bin .comma l r)) = .ok (A, b) →
      ∃ A₁ b₁ A₂ b₂, getMatrix sh names (.ast l) = .ok (A₁, b₁) ∧ getMatrix sh names (.ast r) = .ok (A₂, b₂) ∧
        A = A₁ ++ A₂ ∧ b = b₁ ++ b₂) ∧
    (∀ (parse : String → Parsed) (k : String) (c : Rat) (rest : List (String × Rat)) (A : List (List Rat)) (b : List Rat),
      fromSpec sh names parse (.dict ((k, c) :: rest)) = .ok (A, b) →
      ∃ A₁ b₁ A₂ b₂, getMatrix sh names (parse k) = .ok (A₁, b₁) ∧ dictRows sh names parse rest = .ok (A₂, b₂) ∧
        A = A₁ ++ A₂ ∧ b = b₁.map (· + c) ++ b₂) := by
  constructor
  · intro l r A b h
    simp only [getMatrix] at h ⊢
    unfold toTerms at h
    cases hl : toTerms sh l with
    | error e => rw [hl] at h; cases h
    | ok va =>
      rw [hl] at h
      cases hr : toTerms sh r with
      | error e => rw [hr] at h; cases h
      | ok vb =>
        rw [hr] at h
        simp only [applyBin, Value.items] at h
        obtain ⟨A₁, b₁, A₂, b₂, h1, h2, rfl, rfl⟩ := rowsOf_append sh names _ _ _ _ h
        exact ⟨A₁, b₁, A₂, b₂, h1, h2, rfl, rfl⟩
  · intro parse k c rest A b h
    simp only [fromSpec, dictRows] at h
    cases h1 : getMatrix sh names (parse k) with
    | error e => rw [h1] at h; cases h
    | ok r1 =>
      obtain ⟨A₁, b₁⟩ := r1
      rw [h1] at h
      simp only at h
      cases h2 : dictRows sh names parse rest with
      | error e => rw [h2] at h; cases h
      | ok r2 =>
        obtain ⟨A₂, b₂⟩ := r2
        rw [h2] at h
        simp only [reduceCtorEq, if_false, Except.ok.injEq, Prod.mk.injEq] at h
        exact ⟨A₁, b₁, A₂, b₂, rfl, rfl, h.1.symm, h.2.symm⟩

/-- **C16.2**  Python's set iteration order does not matter: for any two orders the model returns
the same matrix and vector, or rejects under both (which exception surfaces first may differ). -/
theorem order_independent (sh₁ sh₂ : Shuffle) (h₁ : IsShuffle sh₁) (h₂ : IsShuffle sh₂)
    (names : List String) (parse : String → Parsed) (spec : Spec) :
    (fromSpec sh₁ names parse spec).toOption = (fromSpec sh₂ names parse spec).toOption :=
  (fromSpec_rel h₁ h₂ names parse spec).toOption

/-- **C16.3**  Specifications that are not linear are rejected: if any string the library parses
contains, anywhere, a product of two subexpressions that both mention a column, or a division by
a subexpression that mentions a column, no matrix is returned (whatever the names, the set order,
and whatever else the specification contains). -/
theorem nonlinear_rejected (sh : Shuffle) (hsh : IsShuffle sh) (names : List String) (parse : String → Parsed)
    (spec : Spec) (h : specNonlinear parse spec) : ∃ e, fromSpec sh names parse spec = .error e :=
  fromSpec_nonlinear hsh names parse spec h

/-- **C16.4**  The documented n+1-point test is complete: a row `(r', c')` of the right width that
agrees with `⟦lhs⟧ − ⟦rhs⟧ − off` at `x = 0` and at the unit vectors is THE row the model returns
for that constraint. (So the oracle's n+1-point check on the implementation's output pins the
output down completely.) -/
theorem npoint_test_complete (names : List String) (r r' : List Rat) (c c' : Rat) (eo : Expr × Rat)
    (h : RowExpresses names (r, c) eo) (hl : r'.length = names.length)
    (test : ∀ x, (x = (fun _ => 0) ∨ ∃ j, j < names.length ∧ x = unitVec j) →
      ∃ vl vr, eval (colValue names x) eo.1.lhs = some vl ∧ eval (colValue names x) eo.1.rhs = some vr ∧
        dot r' x - c' = vl - vr - eo.2) :
    r' = r ∧ c' = c := by
  have key : ∀ x, (x = (fun _ => 0) ∨ ∃ j, j < names.length ∧ x = unitVec j) → dot r' x - c' = dot r x - c := by
    intro x hx
    obtain ⟨vl, vr, e1, e2, e3⟩ := test x hx
    obtain ⟨vl', vr', f1, f2, f3⟩ := h.2 x
    rw [e1] at f1; rw [e2] at f2
    cases f1; cases f2
    simp only at f3
    rw [e3, f3]
  exact npoint (hl.trans h.1.symm) (key _ (Or.inl rfl)) (fun j hj => key _ (Or.inr ⟨j, hl ▸ hj, rfl⟩))

/-- **C16.5** (tie to the source, finite table)  The operator table of `ConstraintOperatorResolver`,
regenerated from the live package on every run, consists of exactly the operators the model
interprets (`Op1`, `Op2`), with `,` the only structural one. -/
theorem operator_table_covered :
    FormulaicVerif.Gen.constraintTable.flatMap (fun p => p.2.map (fun o => (o.symbol, o.arity, o.structural)))
      = [(",", 2, true), ("=", 2, false), ("+", 2, false), ("+", 1, false), ("-", 2, false), ("-", 1, false),
         ("*", 2, false), ("/", 2, false)] := by decide

/-- **C16.6** (what the correspondence compares on failures)  `ASTNode.to_terms` schedules independent
subtrees with `graphlib` and `div_terms` meets the divisor's elements in set order, so WHICH exception
surfaces is not determined by the text. `toTermsAll` (run by the engine) succeeds exactly when the
evaluation succeeds, and otherwise lists every error any set order can surface at a minimal failing node. -/
theorem error_class_covered (sh : Shuffle) (hsh : IsShuffle sh) (n : Node) :
    (∀ v, toTermsAll n = .ok v ↔ toTerms id n = .ok v) ∧
    (∀ e, toTerms sh n = .error e → ∃ es, toTermsAll n = .error es ∧ e ∈ es) :=
  ⟨toTermsAll_ok n, toTerms_error_mem hsh n⟩

/-! ## Non-vacuity and negative witnesses -/

/-- a parser stub for the examples: the trees the real parser returns for these strings -/
def exParse : String → Parsed
  | "a + 2*b = 3, a/2" => .ast (.bin .comma
      (.bin .eq (.bin .add (.leaf .name "a") (.bin .mul (.leaf .value "2") (.leaf .name "b"))) (.leaf .value "3"))
      (.bin .div (.leaf .name "a") (.leaf .value "2")))
  | "a - a + 0.5*(b + b)" => .ast (.bin .add (.bin .sub (.leaf .name "a") (.leaf .name "a"))
      (.bin .mul (.leaf .value "0.5") (.bin .add (.leaf .name "b") (.leaf .name "b"))))
  | "a*b" => .ast (.bin .mul (.leaf .name "a") (.leaf .name "b"))
  | "(a-a)*b" => .ast (.bin .mul (.bin .sub (.leaf .name "a") (.leaf .name "a")) (.leaf .name "b"))
  | "a/(b+0)" => .ast (.bin .div (.leaf .name "a") (.bin .add (.leaf .name "b") (.leaf .value "0")))
  | "-(a,b)" => .ast (.un .neg (.bin .comma (.leaf .name "a") (.leaf .name "b")))
  | "" => .empty
  | _ => .error "FormulaSyntaxError"

/-- the hypothesis of `compile_sound` is satisfiable, non-trivially, in all three forms -/
example : fromSpec id ["a", "b"] exParse (.str "a + 2*b = 3, a/2") = .ok ([[1, 2], [1/2, 0]], [3, 0]) := by
  decide +kernel
example : fromSpec id ["a", "b"] exParse (.list ["a + 2*b = 3", " a/2"]) = .ok ([[1, 2], [1/2, 0]], [3, 0]) := by
  decide +kernel
example : fromSpec id ["a", "b"] exParse (.dict [("a - a + 0.5*(b + b)", 4), ("a + 2*b = 3, a/2", -1)])
    = .ok ([[0, 1], [1, 2], [1/2, 0]], [4, 2, -1]) := by decide +kernel
/-- a different iteration order (reversal) gives the same answer -/
example : fromSpec List.reverse ["a", "b"] exParse (.str "a + 2*b = 3, a/2") = .ok ([[1, 2], [1/2, 0]], [3, 0]) := by
  decide +kernel
example : IsShuffle List.reverse := fun s => List.reverse_perm s
/-- the hypothesis of `nonlinear_rejected` is satisfiable; and the rejection it predicts -/
example : specNonlinear exParse (.str "a*b") := ⟨_, rfl, by decide⟩
example : fromSpec id ["a", "b"] exParse (.str "a*b") = .error .runtimeMul := by decide +kernel
/-- completeness is NOT claimed: `(a-a)*b` is linear but rejected (the zero-scaled `a` is kept) -/
example : fromSpec id ["a", "b"] exParse (.str "(a-a)*b") = .error .runtimeMul := by decide +kernel
/-- which exception surfaces can depend on the order (`order_independent` only promises rejection) -/
example : fromSpec id ["a", "b"] exParse (.str "a/(b+0)") = .error .runtimeDiv
    ∧ fromSpec List.reverse ["a", "b"] exParse (.str "a/(b+0)") = .error .zeroDiv := by decide +kernel
/-- an operator applied to a tuple is rejected too (AttributeError in `get_matrix`) -/
example : fromSpec id ["a", "b"] exParse (.str "-(a,b)") = .error .structRow := by decide +kernel
/-- `RowExpresses` is not trivially true: the wrong row does not express the constraint -/
example : ¬ RowExpresses ["a"] ([2], 0) (.var "a", 0) := by
  intro h
  obtain ⟨vl, vr, h1, h2, h3⟩ := h.2 (fun _ => 1)
  simp only [Expr.lhs, Expr.rhs, eval, Option.some.injEq] at h1 h2
  subst h1; subst h2
  have : colValue ["a"] (fun _ => (1 : Rat)) "a" = 1 := by decide +kernel
  rw [this] at h3
  simp [dot] at h3

/-! ## The parser inside the model

`Model/ConstraintParse.lean` models `LinearConstraintParser.get_ast` (tokenizer + shunting-yard with the
BASE operator resolver over the live constraint table); the correspondence compares its tree with the
real parser's for every string of every case. -/

/-- **C16.p1**  The constraint parser is the general shunting-yard restricted to operator tokens found
verbatim in the table: whatever it accepts, the general algorithm of C01/C14 accepts with the same
tree (so `shunt_complete`, `disabled_never_used`, … transfer), for every token list and table. -/
theorem parser_refines_general (tab : FormulaicVerif.Model.OpTable) (ts : List FormulaicVerif.Model.Tok)
    (r : Option FormulaicVerif.Model.Ast)
    (h : FormulaicVerif.Model.ConstraintParse.tokensToAstBase tab ts = .ok r) :
    FormulaicVerif.Model.tokensToAst tab ts = .ok r :=
  FormulaicVerif.Proofs.C16Parse.tokensToAstBase_ok tab ts r h

/-- **C16.p2**  For EVERY string, `get_ast` either returns a tree (or nothing, for an empty string) or
fails with the library's syntax error — never with an internal exception. -/
theorem parser_fails_only_with_syntax_error (cs : List FormulaicVerif.Model.CharInfo)
    (e : FormulaicVerif.Model.ParseErr)
    (h : FormulaicVerif.Model.ConstraintParse.getAst cs = .error e) : ∃ w, e = .syntax w :=
  FormulaicVerif.Proofs.C16Parse.getAst_err cs e h

/-- the model of `from_spec` as a function of the specification's CHARACTERS: `chars` attaches the
two regex classes of the tokenizer to every character of a string -/
def parseString (chars : String → List FormulaicVerif.Model.CharInfo) (s : String) : Parsed :=
  (FormulaicVerif.Model.ConstraintParse.parse (chars s)).getD (.error "unmodelled-shape")

/-- **C16.p3**  `compile_sound` with the modelled parser plugged in: the statement of the property
for the model that starts at the string. -/
theorem compile_sound_from_string (sh : Shuffle) (hsh : IsShuffle sh) (names : List String)
    (chars : String → List FormulaicVerif.Model.CharInfo)
    (spec : Spec) (A : List (List Rat)) (b : List Rat)
    (h : fromSpec sh names (parseString chars) spec = .ok (A, b)) :
    ∃ cs, written (parseString chars) spec = some cs ∧ A.length = cs.length ∧ b.length = cs.length ∧
      ∀ (i : Nat) (hA : i < A.length) (hb : i < b.length) (hc : i < cs.length),
        RowExpresses names (A[i], b[i]) cs[i] :=
  compile_sound sh hsh names (parseString chars) spec A b h

/-- non-vacuity: the modelled parser on the characters of `a + 2*b = 3` -/
def asciiChars (s : String) : List FormulaicVerif.Model.CharInfo :=
  s.toList.map (fun c => { c := c, word := c.isAlphanum || c == '_' || c == '.', space := c == ' ' })
example : fromSpec id ["a", "b"] (parseString asciiChars) (.str "a + 2*b = 3, a/2") = .ok ([[1, 2], [1/2, 0]], [3, 0]) := by
  decide +kernel
example : fromSpec id ["a", "b"] (parseString asciiChars) (.str "-a + b = 3") = .ok ([[-1, 1]], [3]) := by
  decide +kernel

/-- **C16.p4**  (totality of the modelled parser)  For EVERY string the modelled constraint parser
returns a verdict: a tree in the evaluator's `Node` type, "empty", or an error class. The reading of
the shunting-yard's tree can never fail, because every tree built over the live constraint table has
only the operators `, = + - * /` with two arguments and prefix `+ -` with one, and every leaf is a
name, a number or a Python fragment (`Proofs/C16Total.lean`: a shape invariant of the shunting-yard
for any table, a `decide`-checked fact about `Gen.constraintTable`, and `tokens_have_kinds`). So the
default `"unmodelled-shape"` in `parseString` is never used, and `compile_sound_from_string` has no
hidden escape. -/
theorem parser_total (chars : String → List FormulaicVerif.Model.CharInfo) (s : String) :
    (∃ p, FormulaicVerif.Model.ConstraintParse.parse (chars s) = some p ∧ parseString chars s = p) ∧
    parseString chars s ≠ .error "unmodelled-shape" := by
  have ht := FormulaicVerif.Proofs.C16Total.parse_total (chars s)
  cases hp : FormulaicVerif.Model.ConstraintParse.parse (chars s) with
  | none => rw [hp] at ht; cases ht
  | some p =>
    have hps : parseString chars s = p := by simp [parseString, hp]
    refine ⟨⟨p, rfl, hps⟩, ?_⟩
    rw [hps]
    intro hpe
    subst hpe
    unfold FormulaicVerif.Model.ConstraintParse.parse at hp
    cases hg : FormulaicVerif.Model.ConstraintParse.getAst (chars s) with
    | error e =>
      obtain ⟨w, hw⟩ := FormulaicVerif.Proofs.C16Parse.getAst_err (chars s) e hg
      subst hw
      rw [hg] at hp
      simp only [Option.some.injEq, Parsed.error.injEq] at hp
      exact absurd hp (by decide)
    | ok r =>
      rw [hg] at hp
      cases r with
      | none => simp at hp
      | some a =>
        simp only at hp
        cases hn : FormulaicVerif.Model.ConstraintParse.nodeOfAst a with
        | none => rw [hn] at hp; simp at hp
        | some n => rw [hn] at hp; simp at hp

/-- non-vacuity: on the characters of `-a + 2*(b, c) = 3` (nested brackets, a prefix sign, a comma
inside brackets) the parser returns a tree, and an unbalanced string gets the syntax-error verdict -/
example : (FormulaicVerif.Model.ConstraintParse.parse (asciiChars "-a + 2*(b, c) = 3")).isSome = true
    ∧ parseString asciiChars "-a + 2*(b, c) = 3" = .ast (.bin .eq
        (.bin .add (.un .neg (.leaf .name "a"))
          (.bin .mul (.leaf .value "2") (.bin .comma (.leaf .name "b") (.leaf .name "c"))))
        (.leaf .value "3"))
    ∧ parseString asciiChars "(a + b" = .error "FormulaSyntaxError" :=
  ⟨by decide +kernel, by rfl, by rfl⟩

end FormulaicVerif.Props.C16
