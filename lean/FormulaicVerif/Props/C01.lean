import FormulaicVerif.Model.Parser
import FormulaicVerif.Spec.Wilkinson
import FormulaicVerif.Proofs.ShuntComplete
import FormulaicVerif.Proofs.C01
import FormulaicVerif.Proofs.C01Grammar
import FormulaicVerif.Proofs.ShuntSound
import FormulaicVerif.Proofs.C01Intercept
import FormulaicVerif.Proofs.C01TopLevel
import FormulaicVerif.Proofs.C01Denote
import FormulaicVerif.Proofs.C01String
import FormulaicVerif.Proofs.C01StringR
import FormulaicVerif.Proofs.C01Respace
import FormulaicVerif.Proofs.C01Algebra
import FormulaicVerif.Proofs.C01FormsGrammar
import FormulaicVerif.Proofs.C19SF
/-! # C01 — Formula strings denote exactly the documented Wilkinson term algebra

Property theorems only (helpers: `Proofs/ShuntComplete.lean`, `Proofs/ShuntSound.lean`, `Proofs/C01*.lean`). They
are about the very definitions the correspondence engine `c01` runs: the parser stack
`Model/{Tokenize,TokenOps,Shunt,Eval,Parser}.lean` and the specification forms `Model/FromSpec.lean`.

MAIN THEOREM (C01.7d–j, reference semantics `Spec/WilkinsonDenote.lean`): for every formula of the
documented grammar — `Side`, `~ Side`, `Side ~ Side`; `Side := Sum | … | Sum`; `Sum` any expression over
`+ - * / %in% : ** ^`, parentheses, a leading sign; unbounded nesting — that the feature flags allow and
that has no literal `0` (see below for `0`, sign runs, `.` and opaque leaves), and for every parser
configuration, `get_terms` IS the documented denotation (rejections included) and `Formula(<str>)` is that denotation simplified and stably ordered by degree:
from the token sequence (C01.7e); from the STRING, with no hypothesis about the tokenizer, when the
formula is written with one space after every token and its atoms are plain names / numbers (C01.7h–j);
from any other spelling given that it tokenises to the formula's token sequence (C01.7d; source spans
are irrelevant).

Its ingredients, theorems of their own: the live operator table is the documented one (C01.1); the
shunting-yard returns the documented tree for every expression of the arithmetic grammar (C01.3, 3') and
of the top level, and rejects what the flags disable (C01.3a–e); an accepted token list is never
re-ordered, dropped from or duplicated (C01.4); sign-run collapsing (C01.2); the token-level intercept
insertion (C01.6a–i) and `1 +` in front of a part IS reading the part from `{1}` (C01.7g); evaluation =
denotation on the arithmetic levels (C01.5) and on the top level (C01.7a–c).

TERM ALGEBRA (C01.8, C01.10): spelling identities; `+` idempotent / associative, `-` set difference,
`:` distributes over `+`, `S ** (n+1) = (S ** n) : S`; all with order. ORDERING (C01.9, 9d).
SPECIFICATION FORMS (C01.9a–f, `Model/FromSpec.lean`): string = list of Terms = list of strings;
string = dict = `lhs=`/`rhs=` keywords = `Structured`; tuple = `|`; `Formula("l ~ p") =
Formula(lhs="l", rhs="1 + p")` for the documented grammar with no hypothesis left.

EXTENDED GRAMMAR (C01.11a–g, reference semantics `Spec/WilkinsonDenoteR.lean`): the same theorem for the
grammar `Proofs/C01GrammarR.lean` — arbitrary RUNS OF SIGNS wherever a sign may stand (read by parity), the
literal `0` as a summand (`+ 0` removes, `- 0` adds the intercept), the WILDCARD `.` as an atom (the available
variables of the context that the written left-hand side does not use; rejected without a context), and ANY
token that is not a bracket, an operator or `0` as a leaf (names, back-quoted names, numbers, strings, Python
fragments and calls — the theorems do not look at the leaf's kind): from the token sequence as written and as
the lexer delivers it (a separator and the signs of the part after it are ONE token: C01.11b, g), from any
spelling given its tokenisation (C01.11d), and from the STRING with no tokenizer hypothesis for single-space
renderings that may contain sign runs, `0`, `.`, back-quoted names, brace fragments and calls (C01.11e) and for
every re-spacing of those (C01.11h).

FULL (unproved): `parse_eq_denote : Model.parseTerms cfg env (render f) = Spec.denoteFormulaR cfg (dotOf env f) f`
for the whole grammar and an arbitrary `render : FormulaR → String` (any whitespace).
What is missing: (1) a CLOSED-FORM spacing statement: C01.7h / C01.11e cover one space after every written
token and C01.11h the closure of that under inserting / removing whitespace at every gap of a formula (after
operators, brackets and finished tokens; between a word and a following operator, `)`, `%in%` or the end) as
a RELATION between strings, not as `∀ spacing function`; for any other spelling `tokenize (render f) = tokens
f` is a hypothesis of C01.7d / C01.11d, checked on every generated string by the `get_tokens`
correspondence (redundant parentheses are inside the grammar: `AtomR.paren`);
(2) a sign directly after a binary operator
that is neither a sign nor a separator (`a * -b`, `a:--b`: one lexer token `*-`; the character-level
theorems C01.2 and the correspondence cover it); (3) the multi-stage brackets `[ … ~ … ]` (experimental;
correspondence only). -/
namespace FormulaicVerif.Props.C01
open FormulaicVerif FormulaicVerif.Model FormulaicVerif.Proofs.ShuntC

/-- C01.1  The operator table built by the live `DefaultOperatorResolver` (regenerated from the
source on every run) is the documented one — symbols, arities, precedences, associativities,
fixities, context rules and disabled flags — for each of the 8 feature-flag subsets. -/
theorem table_is_documented (twosided multipart multistage : Bool) :
    Gen.defaultTable twosided multipart multistage
      = Spec.Wilkinson.documentedTable twosided multipart multistage := by
  cases twosided <;> cases multipart <;> cases multistage <;> rfl

/-- C01.3  Completeness of the index-based shunting-yard: every expression `e` of the arithmetic
grammar that is well formed with respect to the operator table (`WF`: each operator token resolves
to its candidate list, the left operand's pending operators bind at least as tightly, the right
operand's do not yield to it; `Guard`: nothing on the stack is popped) is parsed to exactly its
documented tree `strip e` — any nesting depth, any number of operators, prefix signs included. -/
theorem shunt_complete (tab : OpTable) (e : E) (hwf : WF tab e) (hg : Guard none e) :
    tokensToAst tab (lin e) = .ok (some (strip e)) :=
  parse_lin tab e hwf hg

/-- C01.3'  **Every expression of the documented grammar parses to its documented tree.** The grammar of
the arithmetic fragment by precedence levels (`Proofs/C01Grammar.lean`):
`Sum := [sign] Prod | Sum (+|-) Prod`, `Prod := Inter | Prod (*|/|%in%) Inter`,
`Inter := Pow | Inter : Pow`, `Pow := Atom | Atom (**|^) Pow`, `Atom := token | ( Sum )` —
left-associative except `**`/`^`, unbounded nesting and chain lengths, optional leading unary sign.
For every such expression `s`, with the operator table the LIVE resolver builds for any of the 8
feature-flag subsets, the shunting-yard applied to the token sequence of `s` returns exactly the
tree in which each operator has the operands the documented precedence and associativity give it. -/
theorem grammar_parses (twosided multipart multistage : Bool) (s : Proofs.C01Grammar.Sum) :
    tokensToAst (Gen.defaultTable twosided multipart multistage) (lin (Proofs.C01Grammar.toE s))
      = .ok (some (strip (Proofs.C01Grammar.toE s))) := by
  rw [table_is_documented]
  exact Proofs.C01Grammar.grammar_parses twosided multipart multistage s

private def tA : Tok := { text := ['a'], kind := some .name }
private def tB : Tok := { text := ['b'], kind := some .name }
private def tC : Tok := { text := ['c'], kind := some .name }
private def plusB : OpSpec := Spec.Wilkinson.bin "+" 100 .left
private def plusU : OpSpec := Spec.Wilkinson.pre "+" 100
private def minusU : OpSpec := Spec.Wilkinson.pre "-" 100
private def minusB : OpSpec := Spec.Wilkinson.bin "-" 100 .left
private def colonB : OpSpec := Spec.Wilkinson.bin ":" 300 .left

/-- non-vacuity: `a + b : c` and `- a` satisfy the hypotheses for the documented default table, so
the theorem yields `a + (b : c)` and `-a` (a concrete instance; the theorem itself is unbounded) -/
example : tokensToAst (Spec.Wilkinson.documentedTable true true false)
      (lin (.bin plusB ['+'] [plusB, plusU] (.atom tA) (.bin colonB [':'] [colonB] (.atom tB) (.atom tC))))
    = .ok (some (.node plusB [.leaf tA, .node colonB [.leaf tB, .leaf tC]])) := by
  apply shunt_complete
  · refine ⟨rfl, ⟨_, rfl⟩, rfl, ⟨rfl, rfl⟩, ⟨by decide, by decide⟩, ?_, trivial, ?_⟩
    · exact ⟨rfl, ⟨_, rfl⟩, rfl, ⟨rfl, rfl⟩, ⟨by decide, by decide⟩, ⟨by decide, by decide⟩, trivial, trivial⟩
    · exact ⟨trivial, by intro o ho; cases ho; decide⟩
  · exact ⟨trivial, by intro o ho; cases ho⟩

example : tokensToAst (Spec.Wilkinson.documentedTable true true false)
      (lin (.pre minusU ['-'] [minusB, minusU] (.atom tA)))
    = .ok (some (.node minusU [.leaf tA])) := by
  apply shunt_complete
  · exact ⟨rfl, rfl, rfl, ⟨rfl, rfl⟩, ⟨by decide, by decide⟩, trivial⟩
  · refine ⟨[minusB], [], rfl, ?_, ?_, ?_⟩
    · intro c hc; simp at hc; subst hc; exact ⟨rfl, by decide, rfl, rfl⟩
    · intro c _ o ho; cases ho
    · intro o ho; cases ho

/-- C01.2a  Collapsing runs of signs never drops, adds or reorders any other operator character
(the two halves of the operator-precedence slip that used to turn `a:--b` into `a + b`). -/
theorem collapse_keeps_other_chars (s : List Char) :
    (collapseSigns s).filter Proofs.C01.notSign = s.filter Proofs.C01.notSign :=
  Proofs.C01.collapse_keeps_other_chars s

/-- C01.2b  A character that is not a sign stays where it is and splits the operator token into
independently collapsed pieces. -/
theorem collapse_split (a : List Char) (c : Char) (b : List Char) (hc : (c == '+' || c == '-') = false) :
    collapseSigns (a ++ c :: b) = collapseSigns a ++ c :: collapseSigns b :=
  Proofs.C01.collapse_split a c b hc

/-- C01.2c  A run of two or more signs (any length) becomes ONE sign: `-` iff it contains an odd
number of `-`; a single sign is left alone. -/
theorem collapse_run (r : List Char) (h : ∀ c ∈ r, (c == '+' || c == '-') = true) (hl : 2 ≤ r.length) :
    collapseSigns r = if (r.filter (· == '-')).length % 2 = 1 then ['-'] else ['+'] :=
  Proofs.C01.collapse_run r h hl

theorem collapse_single (c : Char) : collapseSigns [c] = [c] := Proofs.C01.collapse_single c

example : collapseSigns "~-+--".toList = "~-".toList ∧ collapseSigns ":--".toList = ":+".toList := by decide

/-- C01.6a  Token-level form of "an implicit intercept on every right-hand part": for a one-sided
formula whose operator tokens contain neither `~` nor `|` and which has no literal `0`, the parser's
token rewriting is exactly "prepend `1 +`" (then adjacent sign tokens are merged), for every token
list. (Trying to prove this for names as well as operators exposed the quoted-`~` defect.) -/
theorem intercept_plain (ts : List Tok) (hne : ts ≠ [])
    (h1 : ∀ t ∈ ts, Proofs.C01.NoSep '~' t) (h2 : ∀ t ∈ ts, Proofs.C01.NoSep '|' t)
    (hz : ∀ t ∈ ts, ¬ (t.kind = some .value ∧ t.text = ['0'])) :
    (interceptTokens true ts).1 = mergeSigns (tokOne :: tokPlus :: ts) :=
  Proofs.C01.intercept_plain ts hne h1 h2 hz

/-- C01.6b  … and a parser configured without the implicit intercept inserts nothing. -/
theorem no_intercept_plain (ts : List Tok)
    (h1 : ∀ t ∈ ts, Proofs.C01.NoSep '~' t) (h2 : ∀ t ∈ ts, Proofs.C01.NoSep '|' t)
    (hz : ∀ t ∈ ts, ¬ (t.kind = some .value ∧ t.text = ['0'])) :
    (interceptTokens false ts).1 = mergeSigns ts :=
  Proofs.C01.no_intercept_plain ts h1 h2 hz

/-- a column literally named `~` (a name token) does not stop the intercept from being inserted -/
example : (interceptTokens true [{ text := ['~'], kind := some .name }, Tok.synth "+" .operator, Tok.synth "a" .name]).1
    = [tokOne, tokPlus, { text := ['~'], kind := some .name }, Tok.synth "+" .operator, Tok.synth "a" .name] := by
  decide

/-- C01.8a  `a * b = a + b + a:b` on ordered term sets (same terms, same order), for all operands. -/
theorem denote_mul (a b : List Term) :
    osetUnion (oset (a ++ b)) (osetProd a b) = osetUnion (osetUnion a b) (osetProd a b) := rfl

/-- C01.8a'  the same, stated on the operator implementations the evaluator dispatches to -/
theorem denote_mul_ops (dot : DotCtx) (o p m : OpSpec) (a b : List Term)
    (ho : o.symbol = "*" ∧ o.fixity = .infix) (hp : p.symbol = "+" ∧ p.fixity = .infix)
    (hm : m.symbol = ":" ∧ m.fixity = .infix) :
    applyPlain o dot [a, b] =
      (do let s ← applyPlain p dot [a, b]; let i ← applyPlain m dot [a, b]; applyPlain p dot [s, i]) := by
  obtain ⟨h1, h2⟩ := ho; obtain ⟨h3, h4⟩ := hp; obtain ⟨h5, h6⟩ := hm
  simp [applyPlain, h1, h2, h3, h4, h5, h6, osetUnion, bind, Except.bind]

/-- C01.8b  `b %in% a = a / b`, for all operands. -/
theorem denote_in_eq_div (dot : DotCtx) (o d : OpSpec) (a b : List Term)
    (ho : o.symbol = "in" ∧ o.fixity = .infix) (hd : d.symbol = "/" ∧ d.fixity = .infix) :
    applyPlain o dot [b, a] = applyPlain d dot [a, b] := by
  obtain ⟨h1, h2⟩ := ho; obtain ⟨h3, h4⟩ := hd
  simp [applyPlain, h1, h2, h3, h4]

/-- C01.8c  `^` is `**`, for all operands. -/
theorem denote_caret_eq_pow (dot : DotCtx) (o d : OpSpec) (a b : List Term)
    (ho : o.symbol = "^" ∧ o.fixity = .infix) (hd : d.symbol = "**" ∧ d.fixity = .infix) :
    applyPlain o dot [a, b] = applyPlain d dot [a, b] := by
  obtain ⟨h1, h2⟩ := ho; obtain ⟨h3, h4⟩ := hd
  simp [applyPlain, h1, h2, h3, h4]

/-- C01.8d  `a / b = a + a:b` for a single-term parent `a` and any `b`. -/
theorem denote_div_single (t : Term) (b : List Term) :
    nestedProduct [t] b = .ok (osetUnion [t] (osetProd [t] b)) := by
  simp [nestedProduct, reduceMulTerms, osetProd]

/-- C01.8e  `S ** 2` is the set of pairwise products of `S` in `itertools.product` order
(`(a+b+c)**2 = a + a:b + a:c + b + b:c + c`, i.e. all interactions up to order 2), for any `S`. -/
theorem denote_pow_two (s : List Term) : powTerms s 2 = osetProd s s := rfl

/-- C01.9  Final ordering: `Formula` orders each part by interaction degree with a STABLE sort —
the result is sorted by degree, is a permutation of the parsed terms, and terms of equal degree
keep their first-appearance order. For every term list. -/
theorem degree_order (ts : List Term) :
    (sortByDegree ts).Pairwise (fun a b => a.degree ≤ b.degree) ∧ (sortByDegree ts).Perm ts ∧
    ∀ d, (sortByDegree ts).filter (fun x => x.degree == d) = ts.filter (fun x => x.degree == d) :=
  Proofs.C01.sortByDegree_spec ts

/-- C01.4  **An accepted token list is never re-ordered, dropped from, or duplicated.** Read the tree
the shunting-yard returns from left to right (`ShuntSound.yield`: an infix operator between its two
operands, a prefix operator before its operands, a postfix operator after them). The result is a
*reading* of the input token list (`ShuntSound.Reads`): every token that is neither a bracket nor an
operator appears as a leaf, exactly once, in the input order; the bracket tokens `(`, `[`, `)`, `]`
vanish; and every operator token contributes, at its place and in order, exactly one enabled operator
from each candidate group the resolver produced for it (one group normally, one per character when a
sign-collapsed token such as `~--` is split). So whenever a formula is accepted, its tree is a
bracketing of the very token sequence that was written — never of a different term sequence.
For every token list and every operator table without an infix operator of arity 0 (`TableOk`;
without it the statement is false: `Proofs.ShuntSound.cex_not_reads`). -/
theorem shunt_preserves_tokens (tab : OpTable) (htab : Proofs.ShuntSound.TableOk tab)
    (ts : List Tok) (a : Ast) (h : tokensToAst tab ts = .ok (some a)) :
    Proofs.ShuntSound.Reads tab ts (Proofs.ShuntSound.yield a) :=
  Proofs.ShuntSound.shunt_preserves_tokens tab htab ts a h

/-- C01.4a  … in particular for the operator table the live `DefaultOperatorResolver` builds, for each
of the 8 feature-flag subsets, … -/
theorem shunt_preserves_tokens_default (twosided multipart multistage : Bool) (ts : List Tok) (a : Ast)
    (h : tokensToAst (Gen.defaultTable twosided multipart multistage) ts = .ok (some a)) :
    Proofs.ShuntSound.Reads (Gen.defaultTable twosided multipart multistage) ts
      (Proofs.ShuntSound.yield a) :=
  shunt_preserves_tokens _ (Proofs.ShuntSound.defaultTable_ok twosided multipart multistage) ts a h

/-- C01.4b  … and for the table of the constraint parser's resolver. -/
theorem shunt_preserves_tokens_constraint (ts : List Tok) (a : Ast)
    (h : tokensToAst Gen.constraintTable ts = .ok (some a)) :
    Proofs.ShuntSound.Reads Gen.constraintTable ts (Proofs.ShuntSound.yield a) :=
  shunt_preserves_tokens _ Proofs.ShuntSound.constraintTable_ok ts a h

/-- C01.4c  Consequence in functional form: the leaves of an accepted tree, left to right, are exactly
the input tokens that are neither brackets nor operators, in the input order. -/
theorem shunt_preserves_leaves (tab : OpTable) (htab : Proofs.ShuntSound.TableOk tab)
    (ts : List Tok) (a : Ast) (h : tokensToAst tab ts = .ok (some a)) :
    Proofs.ShuntSound.leavesOf (Proofs.ShuntSound.yield a) = ts.filter Proofs.ShuntSound.isAtomTok :=
  Proofs.ShuntSound.shunt_preserves_leaves tab htab ts a h

example : Proofs.ShuntSound.TableOk (Gen.defaultTable true true false) := by decide
example : Proofs.ShuntSound.TableOk Gen.constraintTable := by decide

private def tildeI : OpSpec :=
  { symbol := "~", arity := 2, prec := -100, assoc := .none, fixity := .infix, structural := true,
    disabled := false, ctx := .emptyCtx }
private def soundToks : List Tok :=
  [{ text := ['('], kind := some .context }, tA, { text := [')'], kind := some .context },
   { text := ['~', '-', '-'], kind := some .operator },
   { text := ['['], kind := some .context }, tB, { text := [']'], kind := some .context }]

/-- non-vacuity: `(a) ~-- [b]` — brackets of both kinds and a sign-run operator token that the
resolver collapses to `~+` and splits into two candidate groups — is accepted by the live two-sided
table as `a ~ (+b)`; the tree reads `a ~ + b`, and the theorem says this is a reading of the seven
input tokens (a concrete instance; the theorem itself is for all token lists) -/
example : tokensToAst (Gen.defaultTable true true false) soundToks
      = .ok (some (.node tildeI [.leaf tA, .node plusU [.leaf tB]]))
    ∧ Proofs.ShuntSound.yield (.node tildeI [.leaf tA, .node plusU [.leaf tB]])
      = [.tok tA, .op tildeI, .op plusU, .tok tB]
    ∧ Proofs.ShuntSound.Reads (Gen.defaultTable true true false) soundToks
        [.tok tA, .op tildeI, .op plusU, .tok tB] := by
  have h1 : tokensToAst (Gen.defaultTable true true false) soundToks
      = .ok (some (.node tildeI [.leaf tA, .node plusU [.leaf tB]])) := by rfl
  have h2 : Proofs.ShuntSound.yield (.node tildeI [.leaf tA, .node plusU [.leaf tB]])
      = [.tok tA, .op tildeI, .op plusU, .tok tB] := by rfl
  exact ⟨h1, h2, h2 ▸ shunt_preserves_tokens_default true true false soundToks _ h1⟩
/-! ### C01.6 continued — intercept insertion for formulas WITH `~` and `|` (token level)

Vocabulary (`Proofs/C01Intercept.lean`): `IsSep c t` — `t` is an operator token whose text is exactly
`c`; `Plain p` — no token of `p` is an operator token containing `~` or `|`, none is the literal
value token `0`; `PlainTail '|' [(s₁,p₁),…]` — each `sᵢ` is an exact `|` token (each may carry its own
source span), each `pᵢ` is plain; `plainGlue [(s₁,p₁),…] = [s₁] ++ p₁ ++ [s₂] ++ p₂ ++ …`;
`oneGlue [(s₁,p₁),…] = [s₁, 1, +] ++ p₁ ++ [s₂, 1, +] ++ p₂ ++ …`; `StartsOk p` — `p` is not empty and
does not start with a bare `+`/`-` operator token; `TopLevel l` — the brackets of `l` are balanced
(what `find_rhs_index` tracks); `LhsOk l` — no `~` operator, no `0`, every `|`-carrying operator token
of `l` is exactly `|`. `sepIns add next` is what is put behind a separator: nothing if `add = false`,
else `1` followed by `+` unless `next` is a bare sign token or absent. -/
section InterceptSeparators
open FormulaicVerif.Proofs.C01Intercept

/-- C01.6c  **One-sided multipart formula: an intercept in EVERY part.** For plain segments
`p₀, …, pₙ` (`n ≥ 0`, `p₀` non-empty, the others non-empty and not starting with a bare sign),
`p₀ | p₁ | … | pₙ` is rewritten to `1 + p₀ | 1 + p₁ | … | 1 + pₙ` (then adjacent sign tokens are
merged); there are no left-hand-side tokens. -/
theorem intercept_every_part (p₀ : List Tok) (tail : List (Tok × List Tok))
    (hne : p₀ ≠ []) (h0 : Plain p₀) (ht : PlainTail '|' tail) (hst : ∀ sp ∈ tail, StartsOk sp.2) :
    interceptTokens true (p₀ ++ plainGlue tail) =
      (mergeSigns (tokOne :: tokPlus :: (p₀ ++ oneGlue tail)), []) :=
  Proofs.C01Intercept.intercept_every_part p₀ tail hne h0 ht hst

/-- C01.6d  **Two-sided formula: `1 +` in every right-hand part, nothing on the left.** For a
balanced left-hand side `lhs` (no `~`, no `0`; it may contain exact `|` tokens), the exact `~` token
`s`, and plain right-hand segments `p₀, …, pₙ` (`n ≥ 0`, each non-empty and not starting with a bare
sign), `lhs ~ p₀ | … | pₙ` is rewritten to `lhs ~ 1 + p₀ | 1 + p₁ | … | 1 + pₙ`; the left-hand-side
tokens reported are `lhs ++ [~]`. -/
theorem intercept_every_rhs_part (lhs : List Tok) (s : Tok) (p₀ : List Tok) (tail : List (Tok × List Tok))
    (hl : LhsOk lhs) (hb : TopLevel lhs) (hs : IsSep '~' s) (h0 : Plain p₀) (ht : PlainTail '|' tail)
    (hs0 : StartsOk p₀) (hst : ∀ sp ∈ tail, StartsOk sp.2) :
    interceptTokens true (lhs ++ s :: (p₀ ++ plainGlue tail)) =
      (mergeSigns (lhs ++ s :: tokOne :: tokPlus :: (p₀ ++ oneGlue tail)), lhs ++ [s]) :=
  Proofs.C01Intercept.intercept_every_rhs_part lhs s p₀ tail hl hb hs h0 ht hs0 hst

/-- C01.6e  **No intercept in any part of a multipart left-hand side.** The left-hand side
`l₀ | l₁ | … | lₘ` (plain segments, possibly empty, brackets balanced) is copied token for token;
only the right-hand parts get `1 +`. -/
theorem no_intercept_on_lhs (l₀ : List Tok) (ltail : List (Tok × List Tok)) (s : Tok) (p₀ : List Tok)
    (tail : List (Tok × List Tok))
    (hl0 : Plain l₀) (hlt : PlainTail '|' ltail) (hb : TopLevel (l₀ ++ plainGlue ltail))
    (hs : IsSep '~' s) (h0 : Plain p₀) (ht : PlainTail '|' tail)
    (hs0 : StartsOk p₀) (hst : ∀ sp ∈ tail, StartsOk sp.2) :
    interceptTokens true ((l₀ ++ plainGlue ltail) ++ s :: (p₀ ++ plainGlue tail)) =
      (mergeSigns ((l₀ ++ plainGlue ltail) ++ s :: tokOne :: tokPlus :: (p₀ ++ oneGlue tail)),
       (l₀ ++ plainGlue ltail) ++ [s]) :=
  Proofs.C01Intercept.intercept_every_rhs_part _ s p₀ tail (lhsOk_glue l₀ ltail hl0 hlt) hb hs h0 ht hs0 hst

/-- C01.6f  The exact behaviour WITHOUT the side conditions on how segments start, for either
configuration (`add` = `include_intercept`), one-sided: segments may be empty or start with a sign.
In front: `1 +` (if `add`); behind every `|`: `sepIns add <the next token>` — `1`, and a `+` unless
the next token is a bare `+`/`-` or there is none. -/
theorem intercept_onesided_general (add : Bool) (p₀ : List Tok) (tail : List (Tok × List Tok))
    (hne : p₀ ++ plainGlue tail ≠ []) (h0 : Plain p₀) (ht : PlainTail '|' tail) :
    interceptTokens add (p₀ ++ plainGlue tail) =
      (mergeSigns ((if add then [tokOne, tokPlus] else []) ++ (p₀ ++ insGlue add tail)), []) :=
  Proofs.C01Intercept.intercept_onesided add p₀ tail hne h0 ht

/-- C01.6g  … and two-sided: `1` (and the joining `+`) behind the `~` and behind every `|` of the
right-hand side, nothing in the left-hand side, whatever the segments start with and whether or not
they are empty. -/
theorem intercept_twosided_general (add : Bool) (lhs : List Tok) (s : Tok) (p₀ : List Tok)
    (tail : List (Tok × List Tok))
    (hl : LhsOk lhs) (hb : TopLevel lhs) (hs : IsSep '~' s) (h0 : Plain p₀) (ht : PlainTail '|' tail) :
    interceptTokens add (lhs ++ s :: (p₀ ++ plainGlue tail)) =
      (mergeSigns (lhs ++ s :: (sepIns add (p₀ ++ plainGlue tail).head? ++ (p₀ ++ insGlue add tail))),
       lhs ++ [s]) :=
  Proofs.C01Intercept.intercept_twosided add lhs s p₀ tail hl hb hs h0 ht

/-- C01.6h  **A parser configured without the implicit intercept inserts nothing**, in any of these
shapes and more generally: for EVERY token list whose `~`/`|`-carrying operator tokens are exactly
`~` / `|` (any number of them, anywhere, brackets balanced or not), the rewriting is the zero rule
followed by the merging of adjacent sign tokens. -/
theorem no_intercept_configured (ts : List Tok)
    (h : ∀ t ∈ ts, t.kind = some .operator →
      (t.text.contains '~' = true → t.text = ['~']) ∧ (t.text.contains '|' = true → t.text = ['|'])) :
    (interceptTokens false ts).1 = mergeSigns (replaceZero ts) :=
  Proofs.C01Intercept.no_intercept_configured ts h

/-- C01.6i  **The zero rule.** `replace_tokens` turns every literal value token `0` into the two
tokens `-` `1` (operator, value) and keeps every other token and the order; it is the first step of
the rewriting, which therefore cannot tell `0` from `- 1`: `a + 0` is rewritten exactly as
`a + - 1` is (the `+` `-` pair is then merged into one operator token `+-`, which the shunting-yard's
sign collapsing reads as `-`), and the evaluator's set difference removes the intercept. Segments
containing `0`s are covered by the theorems above after this replacement
(`Proofs.C01Intercept.interceptTokens_zero_twosided`, `plain_replaceZero`). -/
theorem zero_rewrites (add : Bool) (ts : List Tok) :
    replaceZero ts = ts.flatMap (fun t => if IsZero t then [tokMinus, tokOne] else [t]) ∧
    interceptTokens add ts = interceptTokens add (replaceZero ts) :=
  ⟨replaceZero_eq_flatMap ts, (interceptTokens_replaceZero add ts).symm⟩

private def nm (s : String) : Tok := Tok.synth s .name
private def op (s : String) : Tok := Tok.synth s .operator
private def cx (s : String) : Tok := Tok.synth s .context
private def zero : Tok := Tok.synth "0" .value
private def bar2 : Tok := { text := ['|'], kind := some .operator, start := some 7, stop := some 7 }

/-- non-vacuity: `a | b | c : d` satisfies the hypotheses (two different `|` tokens), giving
`1 + a | 1 + b | 1 + c : d` -/
example : interceptTokens true [nm "a", op "|", nm "b", bar2, nm "c", op ":", nm "d"] =
    ([tokOne, tokPlus, nm "a", op "|", tokOne, tokPlus, nm "b", bar2, tokOne, tokPlus, nm "c", op ":", nm "d"], []) :=
  intercept_every_part [nm "a"] [(op "|", [nm "b"]), (bar2, [nm "c", op ":", nm "d"])]
    (by decide) (by decide) (by decide) (by decide)

/-- non-vacuity: `(y) | z ~ a | b`: the lhs with a bracket and two parts gets nothing -/
example : interceptTokens true [cx "(", nm "y", cx ")", op "|", nm "z", op "~", nm "a", bar2, nm "b"] =
    ([cx "(", nm "y", cx ")", op "|", nm "z", op "~", tokOne, tokPlus, nm "a", bar2, tokOne, tokPlus, nm "b"],
     [cx "(", nm "y", cx ")", op "|", nm "z", op "~"]) :=
  no_intercept_on_lhs [cx "(", nm "y", cx ")"] [(op "|", [nm "z"])] (op "~") [nm "a"] [(bar2, [nm "b"])]
    (by decide) (by decide) (by decide) (by decide) (by decide) (by decide) (by decide) (by decide)

example : (interceptTokens false [nm "y", op "~", nm "a", op "|", zero]).1
    = [nm "y", op "~", nm "a", op "|", tokMinus, tokOne] :=
  no_intercept_configured _ (by decide)

/-- corner (why `StartsOk`): a right-hand side starting with a bare sign gets `1` but NO joining `+`:
`y ~ - a` ↦ `y ~ 1 - a`, whereas the one-sided `- a` ↦ `1 +- a` (one merged operator token) -/
example : (interceptTokens true [nm "y", op "~", op "-", nm "a"]).1 = [nm "y", op "~", tokOne, op "-", nm "a"]
    ∧ (interceptTokens true [op "-", nm "a"]).1 = [tokOne, op "+-", nm "a"] := by decide

/-- corner (empty segments): `a | | b` ↦ `1 + a | 1 + | 1 + b`; a trailing separator gets a bare `1`:
`y ~` ↦ `y ~ 1`, `a |` ↦ `1 + a | 1`; the empty formula ↦ `1` -/
example : (interceptTokens true [nm "a", op "|", bar2, nm "b"]).1
      = [tokOne, tokPlus, nm "a", op "|", tokOne, tokPlus, bar2, tokOne, tokPlus, nm "b"]
    ∧ interceptTokens true [nm "y", op "~"] = ([nm "y", op "~", tokOne], [nm "y", op "~"])
    ∧ interceptTokens true [nm "a", op "|"] = ([tokOne, tokPlus, nm "a", op "|", tokOne], [])
    ∧ interceptTokens true [] = ([tokOne], []) := by decide

/-- corner (why `TopLevel`): a `~` inside brackets is not the formula's separator — the formula is
one-sided (`1 +` in front, no lhs tokens) and ANOTHER `1 +` follows the inner `~` -/
example : interceptTokens true [cx "(", nm "y", op "~", nm "a", cx ")"]
    = ([tokOne, tokPlus, cx "(", nm "y", op "~", tokOne, tokPlus, nm "a", cx ")"], []) := by decide

/-- corner (several `~`): every `~` is followed by `1 +`; the lhs ends at the first top-level one -/
example : interceptTokens true [nm "y", op "~", nm "a", op "~", nm "b"]
    = ([nm "y", op "~", tokOne, tokPlus, nm "a", op "~", tokOne, tokPlus, nm "b"], [nm "y", op "~"]) := by decide

/-- the zero rule on tokens: `a + 0` ↦ `1 + a +- 1`; `y ~ 0 + a` ↦ `y ~ 1 - 1 + a` (the `- 1` that
replaces `0` is a bare sign, so no joining `+`) -/
example : (interceptTokens true [nm "a", op "+", zero]).1 = [tokOne, tokPlus, nm "a", op "+-", tokOne]
    ∧ (interceptTokens true [nm "y", op "~", zero, op "+", nm "a"]).1
      = [nm "y", op "~", tokOne, tokMinus, tokOne, tokPlus, nm "a"] := by decide

private def runTokens (add : Bool) (ts : List Tok) : Except ParseErr Val :=
  match tokensToAst (Gen.defaultTable true true false) (interceptTokens add ts).1 with
  | .error e => .error e
  | .ok none => .ok (.set [])
  | .ok (some a) => evalAst { available := none, usedLhs := [] } a

/-- … and through the shunting-yard and the evaluator (live operator table): with the implicit
intercept, `a + 0` and `a - 1` denote what `a` denotes without it, and `y ~ 0 + a` what `y ~ a` does -/
example : runTokens true [nm "a", op "+", zero] = runTokens false [nm "a"]
    ∧ runTokens true [nm "a", op "-", tokOne] = runTokens false [nm "a"]
    ∧ runTokens true [nm "y", op "~", zero, op "+", nm "a"] = runTokens false [nm "y", op "~", nm "a"] :=
  ⟨rfl, rfl, rfl⟩

end InterceptSeparators

/-! ### C01.3 continued — the documented TOP level of the grammar: `~` and `|`

Vocabulary (`Proofs/C01TopLevel.lean`; `Sum` is the arithmetic grammar of C01.3'): a *side* of a formula
is a chain of parts `p | q₁ | … | qₙ` (`n ≥ 0`) given as `p : Sum` and `[q₁,…,qₙ] : List Sum`;
`partsToks p [q₁,…,qₙ] = lin p ++ [|] ++ lin q₁ ++ … ++ [|] ++ lin qₙ` (`partsToks_eq`) are its tokens,
`partsTree p [q₁,…,qₙ] = |(tree p, |(tree q₁, … |(tree qₙ₋₁, tree qₙ)))` its documented tree (for
`n = 0` just `tree p`); `tilde`, `tildeP`, `bar` are the enabled two-sided `~`, the one-sided `~` and
`|` of the operator table; `opTok ['~']`, `opTok ['|']` the operator tokens. -/
section TopLevel
open FormulaicVerif.Proofs.C01TopLevel

/-- C01.3a  **Every two-sided multi-part formula parses to its documented tree.** For arbitrary `Sum`s
`l, l₁…lₘ, p, q₁…qₙ` of the documented arithmetic grammar (`m, n ≥ 0`, unbounded), the token list
`l | l₁ | … | lₘ ~ p | q₁ | … | qₙ` is parsed by the shunting-yard, with the table the LIVE resolver
builds for TWOSIDED and MULTIPART (either value of MULTISTAGE), to exactly
`~(side(l, l₁…lₘ), side(p, q₁…qₙ))`: `~` binds loosest, `|` next, every part is parsed as in C01.3'.
The left-hand side may itself have several parts (the context rule of `~` only looks at pending
operators of precedence ≤ -100, a pending `|` has -50). -/
theorem toplevel_parses (multistage : Bool) (l : Proofs.C01Grammar.Sum) (ltail : List Proofs.C01Grammar.Sum)
    (p : Proofs.C01Grammar.Sum) (tail : List Proofs.C01Grammar.Sum) :
    tokensToAst (Gen.defaultTable true true multistage)
        (partsToks l ltail ++ opTok ['~'] :: partsToks p tail)
      = .ok (some (.node tilde [partsTree l ltail, partsTree p tail])) := by
  rw [table_is_documented]
  exact twosided_parses_doc true multistage l ltail p tail (Or.inr rfl)

/-- C01.3b  `lhs ~ rhs` with one part on each side needs TWOSIDED only: under either value of MULTIPART
and MULTISTAGE it parses to `~(tree lhs, tree rhs)`. -/
theorem twosided_parses (multipart multistage : Bool) (l p : Proofs.C01Grammar.Sum) :
    tokensToAst (Gen.defaultTable true multipart multistage)
        (lin (Proofs.C01Grammar.toE l) ++ opTok ['~'] :: lin (Proofs.C01Grammar.toE p))
      = .ok (some (.node tilde [strip (Proofs.C01Grammar.toE l), strip (Proofs.C01Grammar.toE p)])) := by
  rw [table_is_documented]
  exact twosided_parses_doc multipart multistage l [] p [] (Or.inl ⟨rfl, rfl⟩)

/-- C01.3c  The one-sided multi-part formula `p | q₁ | … | qₙ` needs MULTIPART only: under either value
of TWOSIDED and MULTISTAGE it parses to `side(p, q₁…qₙ)`. -/
theorem multipart_parses (twosided multistage : Bool) (p : Proofs.C01Grammar.Sum)
    (tail : List Proofs.C01Grammar.Sum) :
    tokensToAst (Gen.defaultTable twosided true multistage) (partsToks p tail)
      = .ok (some (partsTree p tail)) := by
  rw [table_is_documented]
  exact multipart_parses_doc twosided true multistage p tail (Or.inr rfl)

/-- C01.3d  The one-sided form written with a leading `~` (`~ p | q₁ | … | qₙ`) parses to
`~(side(p, q₁…qₙ))` with the PREFIX `~`, under every flag subset (MULTIPART as soon as `n ≥ 1`): in
operand position the two infix candidates of the `~` token are skipped. -/
theorem onesided_tilde_parses (twosided multipart multistage : Bool) (p : Proofs.C01Grammar.Sum)
    (tail : List Proofs.C01Grammar.Sum) (h : tail = [] ∨ multipart = true) :
    tokensToAst (Gen.defaultTable twosided multipart multistage) (opTok ['~'] :: partsToks p tail)
      = .ok (some (.node tildeP [partsTree p tail])) := by
  rw [table_is_documented]
  exact onesided_tilde_parses_doc twosided multipart multistage p tail h

/-- C01.3e  **What the top level rejects**, for all operands. (1) Without MULTIPART a `|` after a
part is a syntax error whatever follows (one-sided, and on the right of a `~`). (2) Without TWOSIDED
`lhs ~ rhs` is a syntax error: the `~` token falls through to the one-sided prefix `~`, which leaves
the two trees `lhs` and `~rhs` on the output queue ("missing operator"). (3) A formula has at most
one `~`: `lhs ~ rhs ~ …` is a syntax error under every flag subset, whatever follows the second `~`. -/
theorem toplevel_rejects (a b c : Bool) (l : Proofs.C01Grammar.Sum) (ltail : List Proofs.C01Grammar.Sum)
    (p : Proofs.C01Grammar.Sum) (tail : List Proofs.C01Grammar.Sum) (rest : List Tok) :
    tokensToAst (Gen.defaultTable a false c) (lin (Proofs.C01Grammar.toE p) ++ opTok ['|'] :: rest)
        = .error (.syntax "operator incorrectly used or disabled")
    ∧ tokensToAst (Gen.defaultTable true false c)
        (lin (Proofs.C01Grammar.toE l) ++ opTok ['~'] :: (lin (Proofs.C01Grammar.toE p) ++ opTok ['|'] :: rest))
        = .error (.syntax "operator incorrectly used or disabled")
    ∧ (((ltail = [] ∧ tail = []) ∨ b = true) →
        tokensToAst (Gen.defaultTable false b c) (partsToks l ltail ++ opTok ['~'] :: partsToks p tail)
          = .error (.syntax "missing operator"))
    ∧ (((ltail = [] ∧ tail = []) ∨ b = true) →
        tokensToAst (Gen.defaultTable a b c)
            (partsToks l ltail ++ opTok ['~'] :: (partsToks p tail ++ opTok ['~'] :: rest))
          = .error (.syntax "operator incorrectly used or disabled")) := by
  simp only [table_is_documented]
  exact ⟨multipart_off_rejected_doc a c p rest, multipart_off_rhs_rejected_doc c l p rest,
    fun h => twosided_off_rejected_doc b c l ltail p tail h,
    fun h => second_tilde_rejected_doc a b c l ltail p tail h rest⟩

/-- C01.7a  **A formula evaluates to the documented structure.** For the trees of C01.3a whose parts
evaluate to plain term sets (`sl, sls = [sl₁…slₘ]` on the left, `s, ss = [s₁…sₙ]` on the right; the
`i`-th tree of a tail evaluates to the `i`-th set), the evaluation is
`Structured(lhs = side, rhs = side)` — exactly the keys `lhs`, `rhs`, in this order
(`mkStruct_lhs_rhs`) — where `partsVal s [] = set s` for a single part and
`partsVal s [s₁…sₙ] = tuple [set s, set s₁, …, set sₙ]` for `n ≥ 1`: the flat tuple of the parts, in
order, no nesting (although the `|` chain is nested to the right in the tree). -/
theorem eval_toplevel (dot : DotCtx) (l : Proofs.C01Grammar.Sum) (ltail : List Proofs.C01Grammar.Sum)
    (p : Proofs.C01Grammar.Sum) (tail : List Proofs.C01Grammar.Sum)
    (sl : List Term) (sls : List (List Term)) (s : List Term) (ss : List (List Term))
    (hl : evalAst dot (strip (Proofs.C01Grammar.toE l)) = .ok (.set sl))
    (hls : ltail.map (fun q => evalAst dot (strip (Proofs.C01Grammar.toE q)))
      = sls.map (fun x => Except.ok (Val.set x)))
    (hp : evalAst dot (strip (Proofs.C01Grammar.toE p)) = .ok (.set s))
    (hps : tail.map (fun q => evalAst dot (strip (Proofs.C01Grammar.toE q)))
      = ss.map (fun x => Except.ok (Val.set x))) :
    evalAst dot (.node tilde [partsTree l ltail, partsTree p tail])
      = .ok (mkStruct [("lhs", partsVal sl sls), ("rhs", partsVal s ss)] none) :=
  eval_toplevel_doc dot l ltail p tail sl sls s ss hl hls hp hps

/-- C01.7b  The one-sided forms: `p | q₁ | … | qₙ` evaluates to `partsVal s [s₁…sₙ]` (the term set for
`n = 0`, the tuple of the term sets for `n ≥ 1`), and so does `~ p | q₁ | … | qₙ`. -/
theorem eval_onesided (dot : DotCtx) (p : Proofs.C01Grammar.Sum) (tail : List Proofs.C01Grammar.Sum)
    (s : List Term) (ss : List (List Term))
    (hp : evalAst dot (strip (Proofs.C01Grammar.toE p)) = .ok (.set s))
    (hps : tail.map (fun q => evalAst dot (strip (Proofs.C01Grammar.toE q)))
      = ss.map (fun x => Except.ok (Val.set x))) :
    evalAst dot (partsTree p tail) = .ok (partsVal s ss)
    ∧ evalAst dot (.node tildeP [partsTree p tail]) = .ok (partsVal s ss) :=
  ⟨eval_partsTree dot p tail s ss hp hps, eval_tildeP dot _ _ (eval_partsTree dot p tail s ss hp hps)⟩

/-- C01.7c  … and the hypotheses of C01.7a are the only way to succeed: for ALL `Sum`s, the tree of
`l | … ~ p | …` either evaluates to the documented structure (and then every part evaluated to a
term set) or fails with the parsing error — no other value, no internal exception. -/
theorem eval_toplevel_total (dot : DotCtx) (l : Proofs.C01Grammar.Sum) (ltail : List Proofs.C01Grammar.Sum)
    (p : Proofs.C01Grammar.Sum) (tail : List Proofs.C01Grammar.Sum) :
    (∃ sl sls s ss, evalAst dot (strip (Proofs.C01Grammar.toE l)) = .ok (.set sl) ∧
        ltail.map (fun q => evalAst dot (strip (Proofs.C01Grammar.toE q)))
          = sls.map (fun x => Except.ok (Val.set x)) ∧
        evalAst dot (strip (Proofs.C01Grammar.toE p)) = .ok (.set s) ∧
        tail.map (fun q => evalAst dot (strip (Proofs.C01Grammar.toE q)))
          = ss.map (fun x => Except.ok (Val.set x)) ∧
        evalAst dot (.node tilde [partsTree l ltail, partsTree p tail])
          = .ok (.struct [("lhs", partsVal sl sls), ("rhs", partsVal s ss)])) ∨
    (∃ w, evalAst dot (.node tilde [partsTree l ltail, partsTree p tail]) = .error (.syntax w)) :=
  Proofs.C01TopLevel.eval_toplevel_total dot l ltail p tail

private def tY : Tok := { text := ['y'], kind := some .name }
private def tZ : Tok := { text := ['z'], kind := some .name }
private def sumOf (t : Tok) (h : t.kind ≠ some .context ∧ t.kind ≠ some .operator) : Proofs.C01Grammar.Sum :=
  .first none (.inter (.pow (.atom (.tok t h))))
private def sY := sumOf tY ⟨by decide, by decide⟩
private def sZ := sumOf tZ ⟨by decide, by decide⟩
private def sC := sumOf tC ⟨by decide, by decide⟩
private def sAB : Proofs.C01Grammar.Sum :=
  .add .plus (sumOf tA ⟨by decide, by decide⟩) (.inter (.pow (.atom (.tok tB ⟨by decide, by decide⟩))))
private def dot0 : DotCtx := { available := none, usedLhs := [] }
private def termOf (c : Char) : Term := [Factor.mk (String.ofList [c]) .lookup]

/-- non-vacuity: `y ~ a + b | c` is an instance of C01.3a (`l = y`, no further left parts, `p = a + b`,
`tail = [c]`) — the theorem yields `~(y, |(a + b, c))` for the live table — and running the model on
these seven tokens gives the same tree (`rfl`) -/
example : tokensToAst (Gen.defaultTable true true false)
      [tY, opTok ['~'], tA, opTok ['+'], tB, opTok ['|'], tC]
    = .ok (some (.node tilde [.leaf tY, .node bar [.node plusB [.leaf tA, .leaf tB], .leaf tC]])) :=
  toplevel_parses false sY [] sAB [sC]

example : tokensToAst (Gen.defaultTable true true false)
      [tY, opTok ['~'], tA, opTok ['+'], tB, opTok ['|'], tC]
    = .ok (some (.node tilde [.leaf tY, .node bar [.node plusB [.leaf tA, .leaf tB], .leaf tC]])) := by rfl

/-- non-vacuity of C01.7a on the same formula: the parts evaluate to `{y}`, `{a, b}`, `{c}`, and the
theorem yields `{lhs: {y}, rhs: ({a, b}, {c})}`; running the evaluator gives the same value -/
example : evalAst dot0 (.node tilde [.leaf tY, .node bar [.node plusB [.leaf tA, .leaf tB], .leaf tC]])
    = .ok (.struct [("lhs", .set [termOf 'y']),
        ("rhs", .tuple [.set [termOf 'a', termOf 'b'], .set [termOf 'c']])]) :=
  (eval_toplevel dot0 sY [] sAB [sC] [termOf 'y'] [] [termOf 'a', termOf 'b'] [[termOf 'c']]
    (by rfl) (by rfl) (by rfl) (by rfl)).trans (by rfl)

example : evalAst dot0 (.node tilde [.leaf tY, .node bar [.node plusB [.leaf tA, .leaf tB], .leaf tC]])
    = .ok (.struct [("lhs", .set [termOf 'y']),
        ("rhs", .tuple [.set [termOf 'a', termOf 'b'], .set [termOf 'c']])]) := by rfl

/-- CORNER: a chain of parts is nested to the RIGHT — `a | b | c` is `|(a, |(b, c))`, not
`|(|(a, b), c)`: `|` has associativity `None` and the shunting-yard pops an operator of equal
precedence only for a LEFT-associative incoming operator. The denoted tuple is the same (C01.7). -/
example (ts ms : Bool) : tokensToAst (Gen.defaultTable ts true ms) [tA, opTok ['|'], tB, opTok ['|'], tC]
    = .ok (some (.node bar [.leaf tA, .node bar [.leaf tB, .leaf tC]])) :=
  multipart_parses ts ms (sumOf tA ⟨by decide, by decide⟩) [sumOf tB ⟨by decide, by decide⟩, sC]

/-- a multi-part LEFT-hand side is accepted: `y | z ~ a + b | c` is `~(|(y, z), |(a + b, c))` -/
example : tokensToAst (Gen.defaultTable true true true)
      [tY, opTok ['|'], tZ, opTok ['~'], tA, opTok ['+'], tB, opTok ['|'], tC]
    = .ok (some (.node tilde [.node bar [.leaf tY, .leaf tZ],
        .node bar [.node plusB [.leaf tA, .leaf tB], .leaf tC]])) :=
  toplevel_parses true sY [sZ] sAB [sC]

/-- the rejections on concrete inputs: `a | b` without MULTIPART, `y ~ a` without TWOSIDED, `y ~ a ~ b` -/
example : tokensToAst (Gen.defaultTable true false false) [tA, opTok ['|'], tB]
      = .error (.syntax "operator incorrectly used or disabled")
    ∧ tokensToAst (Gen.defaultTable false true false) [tY, opTok ['~'], tA] = .error (.syntax "missing operator")
    ∧ tokensToAst (Gen.defaultTable true true false) [tY, opTok ['~'], tA, opTok ['~'], tB]
      = .error (.syntax "operator incorrectly used or disabled") := ⟨rfl, rfl, rfl⟩

end TopLevel

/-! ### C01.5 / C01.7 continued — evaluation equals denotation, parse equals denotation

`Spec/WilkinsonDenote.lean` is the reference semantics: `denSum` (a `Sum` read from nothing), `foldSum`
(read from `{1}`), `denoteFormula` (sides, `{lhs, rhs}` / `{root}`, validation). -/
section Denotation
open FormulaicVerif.Spec.Denote FormulaicVerif.Proofs.C01Denote

/-- C01.5  **Evaluation equals denotation** on the arithmetic levels: for every `Sum` of the documented
grammar (unbounded nesting, every operator `+ - * / %in% : ** ^`, parentheses, a leading sign) the
evaluator applied to the documented tree returns the documented denotation — `+` union, `-` difference,
`:` pairwise products, `a*b = a ∪ b ∪ a:b`, `a/b = a ∪ (∏a):b`, `b %in% a = a/b`, `a**n` the n-fold
products — and is rejected exactly when the denotation is (non-integer exponent, empty parent of `/`),
with the left operand's rejection first. Whatever the `.` context. -/
theorem eval_eq_denote (dot : DotCtx) (s : Proofs.C01Grammar.Sum) :
    evalAst dot (strip (Proofs.C01Grammar.toE s)) = (denSum s).map Val.set :=
  Proofs.C01Eval.eval_sum_eq_denote dot s

/-- C01.7d  **Parse = denotation, from the string** (the main theorem; `_partial`: the `.` wildcard, the
literal `0` and sign runs are outside the grammar `Formula`). Let `cs` be any string (characters with
their `re` classes) that tokenises to `ts0`, whose Python fragments normalise (`sanitize_tokens`) giving
`ts`, and let `ts` be — up to the source spans the tokens carry — the token sequence of a formula `f` of
the documented grammar: `Side`, `~ Side` or `Side ~ Side`, a `Side` being `Sum | … | Sum`, the `Sum`s
arbitrary expressions of the arithmetic grammar. If the feature flags allow `f` (`|` needs MULTIPART,
the two-sided `~` TWOSIDED) and no token is the literal `0`, then for EVERY parser configuration
`DefaultFormulaParser(cfg).get_terms(cs)` is `denoteFormula cfg f`: the structure `{root}` / `{lhs, rhs}`
of the sides, each the term set of its part or the tuple of its parts' term sets, every right-hand part
read from `{1}` when `include_intercept` is on (from nothing when off, and on the left-hand side
always), validated; and it is a rejection exactly when the denotation is. -/
theorem parse_eq_denote_partial (cfg : ParseCfg) (env : PyEnv) (cs : List CharInfo) (ts0 ts : List Tok)
    (f : Formula) (h1 : tokenizeStream cs = (ts0, none)) (h2 : sanitizeTokens env.norm ts0 = .ok ts)
    (h3 : ts.map Proofs.C15Ws.erase = f.toks) (hen : f.Enabled cfg) (hz : NoZero f.toks) :
    parseTerms cfg env cs = denoteFormula cfg f :=
  parse_eq_denote_string cfg env cs ts0 ts f h1 h2 h3 hen hz

/-- C01.7e  The same from the token sequence on (`parseToks` is `get_terms` after `sanitize_tokens`:
token rewriting, shunting-yard, evaluation, wrapping, `check_terms`; `parseTerms_of_tokens`). -/
theorem parse_eq_denote_tokens_partial (cfg : ParseCfg) (env : PyEnv) (f : Formula) (hen : f.Enabled cfg)
    (hz : NoZero f.toks) : parseToks cfg env f.toks = denoteFormula cfg f :=
  parse_eq_denote_tokens cfg env f hen hz

/-- C01.7f  … and `Formula(<str>)` is that denotation simplified, every part stably ordered by degree. -/
theorem formula_eq_denote_partial (cfg : ParseCfg) (env : PyEnv) (cs : List CharInfo) (ts0 ts : List Tok)
    (f : Formula) (h1 : tokenizeStream cs = (ts0, none)) (h2 : sanitizeTokens env.norm ts0 = .ok ts)
    (h3 : ts.map Proofs.C15Ws.erase = f.toks) (hen : f.Enabled cfg) (hz : NoZero f.toks) :
    formulaOfString cfg env cs
      = (denoteFormula cfg f).map (fun v => mapLeaves sortByDegree (simplifyVal (valDepth v + 2) v)) := by
  unfold formulaOfString
  rw [parse_eq_denote_partial cfg env cs ts0 ts f h1 h2 h3 hen hz]

/-- C01.7g  The token-level insertion of `1 +` IS "read the part from `{1}`": the `Sum` `1 + s` (`1 - …`
when `s` starts with `-`) read from nothing denotes what `s` read from `{1}` denotes. -/
theorem intercept_is_fold (s : Proofs.C01Grammar.Sum) : denSum (withOne s) = foldSum [intercept] s :=
  denSum_withOne s

/-- the parser does not look at source spans (why C01.7d may forget them) -/
theorem spans_irrelevant (cfg : ParseCfg) (env : PyEnv) (ts : List Tok) :
    parseToks cfg env (ts.map Proofs.C15Ws.erase) = parseToks cfg env ts :=
  parseToks_erase cfg env ts

private def ci (s : String) : List CharInfo :=
  s.toList.map (fun c => { c := c, word := c.isAlphanum || c == '_' || c == '.', space := c == ' ' })
private def env0 : PyEnv := { norm := fun x => .ok x, pyvars := fun _ => [], available := none }
private def nmS (c : Char) : Proofs.C01Grammar.Sum :=
  .first none (.inter (.pow (.atom (.tok { text := [c], kind := some .name } ⟨by simp, by simp⟩))))
private def aPlusB : Proofs.C01Grammar.Sum :=
  .add .plus (nmS 'a') (.inter (.pow (.atom (.tok { text := ['b'], kind := some .name } ⟨by decide, by decide⟩))))
private def minusAPlusB : Proofs.C01Grammar.Sum :=
  .add .plus (.first (some .minus) (.inter (.pow (.atom (.tok { text := ['a'], kind := some .name } ⟨by decide, by decide⟩)))))
    (.inter (.pow (.atom (.tok { text := ['b'], kind := some .name } ⟨by decide, by decide⟩))))
private def tm (c : Char) : Term := [Factor.mk (String.ofList [c]) .lookup]

/-- non-vacuity of C01.7d: the STRING `y ~ a + b | c` satisfies every hypothesis for
`f = two y [] (a + b) [c]` (the tokenizer run, the sanitiser and the span-forgetting comparison are
computed by `rfl`), so the theorem gives the parser's result as the documented denotation, which is
`{lhs: {y}, rhs: ({1, a, b}, {1, c})}` -/
example : parseTerms {} env0 (ci "y ~ a + b | c")
    = denoteFormula {} (.two (nmS 'y') [] aPlusB [nmS 'c']) :=
  parse_eq_denote_partial {} env0 (ci "y ~ a + b | c") _ _ (.two (nmS 'y') [] aPlusB [nmS 'c'])
    rfl rfl rfl ⟨rfl, Or.inr rfl⟩ (by decide)

example : denoteFormula {} (.two (nmS 'y') [] aPlusB [nmS 'c'])
    = .ok (.struct [("lhs", .set [tm 'y']),
        ("rhs", .tuple [.set [intercept, tm 'a', tm 'b'], .set [intercept, tm 'c']])]) := by rfl

/-- … and a one-sided formula with a leading sign, `- a + b`: read from `{1}` it is `({1} \ a) ∪ b`;
without the implicit intercept `(∅) ∪ b` -/
example : parseTerms {} env0 (ci "- a + b") = denoteFormula {} (.one minusAPlusB [])
    ∧ denoteFormula {} (.one minusAPlusB []) = .ok (.struct [("root", .set [intercept, tm 'b'])])
    ∧ denoteFormula { includeIntercept := false } (.one minusAPlusB []) = .ok (.struct [("root", .set [tm 'b'])]) :=
  ⟨parse_eq_denote_partial {} env0 (ci "- a + b") _ _ (.one minusAPlusB []) rfl rfl rfl (Or.inl rfl) (by decide),
   by rfl, by rfl⟩

end Denotation

/-! ### C01.7 continued — from the string, with no hypothesis about the tokenizer -/
section Rendered
open FormulaicVerif.Spec.Denote FormulaicVerif.Proofs.C01Denote FormulaicVerif.Proofs.C01Lex
  FormulaicVerif.Proofs.C01String

/-- C01.7h  **The tokenizer returns the tokens that were written.** For every list of tokens — words
(names, numbers), operator tokens, `%in%`, parentheses — in which no two operator tokens follow each
other, the string that writes them one after the other, each followed by one space, tokenises without
error to exactly these tokens (up to source spans). The character classes `\w`, `\s` are data
(`Classes`); assumed only: word characters are word characters, operator characters are neither word
characters nor whitespace, the space is whitespace, none of them is one of `% { ` ( [ ) ] " '`. -/
theorem tokenize_rendered (C : Classes) (hsp : SpaceChar (C.cl ' ')) (lts : List LT)
    (hok : ∀ lt ∈ lts, lt.Ok C) (hadj : NoAdjOps lts) :
    ∃ ts, tokenizeStream (render C lts) = (ts, none)
      ∧ ts.map Proofs.C15Ws.erase = lts.map (fun lt => lt.tok C) :=
  tokenize_render C hsp lts hok hadj

/-- C01.7i  **Parse = denotation from the STRING** (`_partial`: `.`, `0`, sign runs and quoted / Python
atoms stay out). For every formula `f` of the documented grammar whose tokens can be written (`TokOk`:
atoms are plain names / numbers; the operator characters are operator characters for the given
classes) and in which no part after `~` / `|` starts with a sign (`OpIso`), that the feature flags allow
and that has no literal `0`: the string "tokens of `f`, each followed by one space" parses, under every
parser configuration, to the documented denotation of `f`. No hypothesis about the tokenizer, the
sanitiser or the shunting-yard is left. -/
theorem parse_eq_denote_rendered_partial (C : Classes) (hsp : SpaceChar (C.cl ' ')) (cfg : ParseCfg)
    (env : PyEnv) (f : Formula) (hok : ∀ t ∈ f.toks, TokOk C t) (hiso : Proofs.C01Tokens.OpIso f.toks)
    (hen : f.Enabled cfg) (hz : NoZero f.toks) :
    parseTerms cfg env (render C (f.toks.map ltOfTok)) = denoteFormula cfg f :=
  parse_render C hsp cfg env f hok hiso hen hz

/-- C01.7j  … for ANY single `Sum` (one-sided, one part; a leading sign allowed) no condition on the
shape is left at all. -/
theorem parse_eq_denote_rendered_sum_partial (C : Classes) (hsp : SpaceChar (C.cl ' ')) (cfg : ParseCfg)
    (env : PyEnv) (s : Proofs.C01Grammar.Sum)
    (hok : ∀ t ∈ lin (Proofs.C01Grammar.toE s), TokOk C t) (hz : NoZero (lin (Proofs.C01Grammar.toE s))) :
    parseTerms cfg env (render C ((lin (Proofs.C01Grammar.toE s)).map ltOfTok)) = denoteFormula cfg (.one s []) :=
  parse_render_sum C hsp cfg env s hok hz

private def ascii : Classes :=
  { cl := fun c => { c := c, word := c.isAlphanum || c == '_' || c == '.', space := c == ' ' }
    c_eq := fun _ => rfl }

/-- non-vacuity: with ASCII classes, `- a + b` (a leading sign) and `y ~ a + b` satisfy every hypothesis
(all decided), the rendered strings are `"- a + b "` and `"y ~ a + b "`, and the theorems give the
parser's result on these STRINGS as the documented denotations -/
example : (render ascii ((lin (Proofs.C01Grammar.toE minusAPlusB)).map ltOfTok)).map (·.c) = "- a + b ".toList
    ∧ parseTerms {} env0 (render ascii ((lin (Proofs.C01Grammar.toE minusAPlusB)).map ltOfTok))
        = denoteFormula {} (.one minusAPlusB []) :=
  ⟨by decide, parse_eq_denote_rendered_sum_partial ascii (by decide) {} env0 minusAPlusB (by decide) (by decide)⟩

example : (render ascii ((Formula.two (nmS 'y') [] aPlusB []).toks.map ltOfTok)).map (·.c) = "y ~ a + b ".toList
    ∧ parseTerms {} env0 (render ascii ((Formula.two (nmS 'y') [] aPlusB []).toks.map ltOfTok))
        = denoteFormula {} (.two (nmS 'y') [] aPlusB []) :=
  ⟨by decide, parse_eq_denote_rendered_partial ascii (by decide) {} env0 _ (by decide)
    (opIso_two _ _ rfl) ⟨rfl, Or.inl ⟨rfl, rfl⟩⟩ (by decide)⟩

end Rendered

/-! ### C01.11 — runs of signs and the literal `0` INSIDE the grammar; quoted and Python atoms

Grammar `Proofs/C01GrammarR.lean`: `SumR := [signs] Summand | SumR signs Summand`, `Summand := ProdR | 0`,
`signs` a non-empty run of `+`/`-`, `AtomR := token | ( SumR )` — runs and zeros at any depth; a leaf is ANY
token that is neither a bracket, nor an operator, nor the literal `0`: a name, a back-quoted name, a number, a
Python fragment (the theorems are parametric in the leaf's kind and text). Reference semantics
`Spec/WilkinsonDenoteR.lean`: a run means the sign of its parity; `0` is the intercept with the opposite
sign (`+ 0` removes it, `- 0` adds it). -/
section Runs
open FormulaicVerif.Proofs.C01Runs FormulaicVerif.Proofs.C01GrammarR FormulaicVerif.Proofs.C01DenoteR
  FormulaicVerif.Spec.DenoteR FormulaicVerif.Proofs.C01Lex FormulaicVerif.Proofs.C01MergedR

/-- C01.11a  **A run of signs is the sign of its parity, through the operator table**: an operator token
whose text is any non-empty run of `+`/`-` resolves, under each of the 8 feature-flag subsets, to exactly the
candidates (binary, unary) of `-` if it contains an odd number of `-`, else of `+` (C01.2c is the
character-level fact). -/
theorem sign_run_resolves (a b c : Bool) (r : List Char) (hr : IsRun r) :
    resolveToken (Gen.defaultTable a b c) r = .ok [(runOp r).cands] := by
  rw [table_is_documented]; exact resolve_run a b c r hr

/-- C01.11b  **Parse = denotation with sign runs, zeros, opaque leaves and `.`, from the token sequence.**
For every formula `Side`, `~ Side`, `Side ~ Side` (sides are `|`-chains of sums) whose sums are `SumR`s —
arbitrary runs of signs wherever a sign may stand, the literal `0` as a summand, the wildcard `.` as an atom,
any token that is not a bracket, an operator or `0` as a leaf (names, quoted names, numbers, strings, Python
fragments: the theorem does not look at the leaf's kind), at any nesting depth — that the feature flags
allow, and for every parser configuration and environment, `get_terms` (from the sanitised tokens on) is
`denoteFormulaR`: runs read by parity, `+ 0` / `- 0` removing / adding the intercept, every right-hand part
read from `{1}` with `include_intercept`, and `.` denoting `dotOf env f` = the available variables of the
context (`env.available`) that the written left-hand side does not use (C01.11f), the same value at every
occurrence; with no available variables in the context every formula containing `.` is rejected. The same for
the token sequence AS THE LEXER DELIVERS IT (`toksL`): when a part after `~` / `|` begins with signs, the
separator and the signs are one operator token (`y ~ -a` is `y`, `~-`, `a`; C01.11g). (No `NoZero`
hypothesis, no hypothesis on the context. `_partial`: a sign directly after a non-sign, non-separator
operator (`a * -b`) and the multi-stage brackets stay out.) -/
theorem parse_eq_denote_runs_tokens_partial (cfg : ParseCfg) (env : PyEnv) (f : FormulaR)
    (hen : FormulaR.Enabled cfg f) :
    Proofs.C01Denote.parseToks cfg env f.toks = denoteFormulaR cfg (dotOf env f) f
    ∧ Proofs.C01Denote.parseToks cfg env f.toksL = denoteFormulaR cfg (dotOf env f) f :=
  ⟨Proofs.C01DenoteRSpec.parse_eq_denoteR cfg env f hen, Proofs.C01MergedR.parse_eq_denoteL cfg env f hen⟩

/-- C01.11c  Without `.`, the denotation with runs and zeros is the old denotation of the NORMAL FORM: every
run replaced by the sign of its parity, `± 0` by `∓ 1` (whatever `.` would denote). -/
theorem runs_denote_as_normal_form (cfg : ParseCfg) (dv : Except ParseErr (List Term)) (f : FormulaR)
    (hn : f.NoDot) :
    denoteFormulaR cfg dv f = Spec.Denote.denoteFormula cfg f.norm :=
  Proofs.C01DenoteRSpec.denoteFormulaR_norm dv cfg f hn

/-- C01.11d  … from the string, given that it tokenises (and its Python fragments normalise) to the tokens of
`f` up to source spans — as written, or as the lexer delivers them (merged separator-and-sign tokens). -/
theorem parse_eq_denote_runs_partial (cfg : ParseCfg) (env : PyEnv) (cs : List CharInfo) (ts0 ts : List Tok)
    (f : FormulaR) (h1 : tokenizeStream cs = (ts0, none)) (h2 : sanitizeTokens env.norm ts0 = .ok ts)
    (h3 : ts.map Proofs.C15Ws.erase = f.toks ∨ ts.map Proofs.C15Ws.erase = f.toksL) (hen : FormulaR.Enabled cfg f) :
    parseTerms cfg env cs = denoteFormulaR cfg (dotOf env f) f :=
  Proofs.C01StringR.parse_eq_denote_stringR cfg env cs ts0 ts f h1 h2 h3 hen

/-- C01.11e  **From the STRING, no tokenizer hypothesis, with sign runs, `0`, `.`, back-quoted names, brace
fragments and calls.** `lts` is the formula as written, token by token (`LT`: a word — a name, a number, `0`,
the wildcard `.` —, an operator token — a sign run is one —, `%in%`, a parenthesis, `` `name` ``, `{code}`,
`f(…)[…]`), each token followed by one space, no two operator tokens in a row (a separator and the signs of
the part after it are ONE written token, as for the lexer: `toksL`); the leaves of `f` are what
`sanitize_tokens` makes of the written tokens (Python fragments replaced by their normal form `env.norm`, a
parameter; the unquoted word `.` becomes the wildcard). Then the string parses to
`denoteFormulaR cfg (dotOf env f) f`. -/
theorem parse_eq_denote_rendered_runs_partial (C : Classes) (hsp : SpaceChar (C.cl ' ')) (cfg : ParseCfg)
    (env : PyEnv) (f : FormulaR) (lts : List LT) (hok : ∀ lt ∈ lts, lt.Ok C) (hadj : NoAdjOps lts)
    (hsan : sanitizeTokens env.norm (lts.map (fun lt => lt.tok C)) = .ok f.toks
      ∨ sanitizeTokens env.norm (lts.map (fun lt => lt.tok C)) = .ok f.toksL)
    (hen : FormulaR.Enabled cfg f) :
    parseTerms cfg env (render C lts) = denoteFormulaR cfg (dotOf env f) f :=
  Proofs.C01StringR.parse_renderR C hsp cfg env f lts hok hadj hsan hen

/-- C01.11h  **… and from every re-spacing of such a string.** `Respaced2` (`Proofs/C01Respace.lean`) is the
equivalence generated by inserting one unquoted whitespace character (i) where no quote is open and the
pending token is empty or an operator — after an operator, a bracket, a finished token (`Respaced`,
`Props/C15.lean` C15.1d) — or (ii) between a pending name / number / Python token and a following operator
character, a closing parenthesis, the `%` of `%in%` or the end of the string; any number of times, adding and
removing. Every
string `b` so related to the single-space rendering of C01.11e parses to the denotation of `f` too (`normE`
forgets only the explanatory text of a syntax error). What the relation does not reach: a space between a name
and an opening bracket (it decides between a name and a call) and whitespace inside quotes. -/
theorem parse_eq_denote_respaced_partial (C : Classes) (hsp : SpaceChar (C.cl ' ')) (cfg : ParseCfg)
    (env : PyEnv) (f : FormulaR) (lts : List LT) (hok : ∀ lt ∈ lts, lt.Ok C) (hadj : NoAdjOps lts)
    (hsan : sanitizeTokens env.norm (lts.map (fun lt => lt.tok C)) = .ok f.toks
      ∨ sanitizeTokens env.norm (lts.map (fun lt => lt.tok C)) = .ok f.toksL)
    (hen : FormulaR.Enabled cfg f) (b : List CharInfo) (hb : Proofs.C01Respace.Respaced2 (render C lts) b) :
    Proofs.C15Formula.normE (parseTerms cfg env b)
      = Proofs.C15Formula.normE (denoteFormulaR cfg (dotOf env f) f) := by
  rw [← (Proofs.C01Respace.respaced2_formula cfg env hb).2,
    Proofs.C01StringR.parse_renderR C hsp cfg env f lts hok hadj hsan hen]

/-- C01.11f  **What `.` denotes** (`dotOf`, the value used by C01.11b/d/e): with available variables `av` in
the context, one single-factor term per variable of `av` (first occurrences, in order) that is not among the
variables of the written left-hand side — the names in front of `~` and the data variables of its Python
fragments —, so ALL available variables for a one-sided formula; a rejection when the context has no
available variables. (`Props/C17.lean` C17.6 is about this expansion inside `Formula(...)`.) -/
theorem wildcard_denotes_unused_variables (env : PyEnv) (f : FormulaR) :
    (∀ av, env.available = some av →
      dotOf env f = .ok (oset (((dedupBy id av).filter (fun v => !(lhsVars env f).contains v)).map
        (fun v => [Factor.mk v .lookup]))))
    ∧ (env.available = none → ∃ e, dotOf env f = .error e)
    ∧ (∀ l ltail p tail, f = .two l ltail p tail →
        lhsVars env f = lhsVariables env (partsWith SumR.raw l ltail))
    ∧ (∀ p tail, f = .one p tail ∨ f = .tilde p tail → lhsVars env f = []) := by
  refine ⟨fun av h => by simp only [dotOf, dotValue, h], fun h => ⟨.syntax "`.` needs the available variables", by simp only [dotOf, dotValue, h]⟩, ?_, ?_⟩
  · rintro l ltail p tail rfl; rfl
  · rintro p tail (rfl | rfl) <;> rfl

/-- C01.11g  **A separator and the signs after it: one token or two, the rewriting does not care.** For every
token list in which every operator token containing `~` (resp. `|`) is exactly that character or that
character followed by a non-empty run of signs (`ShapeC`), the parser's token rewriting
(`get_tokens_from_formula` after sanitisation) returns the same token list as for the list in which every such
merged token is split into the separator token and the sign token (`splitL`), and left-hand-side tokens that
differ only by that splitting. (Why `y ~ -a`, lexed `y`, `~-`, `a`, gets its `1` between the `~` and the `-`.) -/
theorem rewriting_ignores_merged_separators (add : Bool) (ts : List Tok)
    (h1 : Proofs.C01Merged.ShapeC '~' ts) (h2 : Proofs.C01Merged.ShapeC '|' ts) :
    (interceptTokens add (Proofs.C01Merged.splitL '|' (Proofs.C01Merged.splitL '~' ts))).1 = (interceptTokens add ts).1
    ∧ (interceptTokens add (Proofs.C01Merged.splitL '|' (Proofs.C01Merged.splitL '~' ts))).2
        = Proofs.C01Merged.splitL '|' (interceptTokens add ts).2 :=
  Proofs.C01Merged.interceptTokens_split add ts h1 h2

private def wordTok (s : String) (k : TKind) : Tok := { text := s.toList, kind := some k }
private def atomOf (t : Tok) (h : t.kind ≠ some .context ∧ t.kind ≠ some .operator ∧ ¬ Proofs.C01Intercept.IsZero t
    ∧ t ≠ Proofs.C01ShuntDot.x0) : ProdR :=
  .inter (.pow (.atom (.tok t h)))
private def pA : ProdR := atomOf (wordTok "a" .name) (by decide)
private def pB : ProdR := atomOf (wordTok "b" .name) (by decide)
private def pY : ProdR := atomOf (wordTok "y" .name) (by decide)
private def pQ : ProdR := atomOf (wordTok "a b" .name) (by decide)
private def pF : ProdR := atomOf (wordTok "f(x)" .python) (by decide)
private def pDot : ProdR := .inter (.pow (.atom .dot))
private def run (s : String) (h : IsRun s.toList) : Run := ⟨s.toList, h⟩
private def tmS (s : String) (m : EvalMethod) : Term := [Factor.mk s m]
private def envD : PyEnv := { env0 with available := some ["y", "a", "b", "c", "a"] }

/-- non-vacuity: the STRING `a +- b --+ 0 ` (a run read as `-`, a run read as `+`, a literal zero) satisfies
every hypothesis (decided / computed), so it parses to the denotation, which is `{a}`: from `{1}`, add `a`,
remove `b`, `+ 0` removes the intercept -/
example :
    let f : FormulaR := .one (.addZero (run "--+" (by decide)) (.add (run "+-" (by decide)) (.first none pA) pB)) []
    let lts : List LT := [.word "a".toList, .op "+-".toList, .word "b".toList, .op "--+".toList, .word "0".toList]
    (render ascii lts).map (·.c) = "a +- b --+ 0 ".toList
    ∧ parseTerms {} env0 (render ascii lts) = denoteFormulaR {} (dotOf env0 f) f
    ∧ denoteFormulaR {} (dotOf env0 f) f = .ok (.struct [("root", .set [tmS "a" .lookup])]) := by
  intro f lts
  exact ⟨by decide, parse_eq_denote_rendered_runs_partial ascii (by decide) {} env0 f lts (by decide) (by decide)
    (Or.inl (by rfl)) (Or.inl rfl), by rfl⟩

/-- non-vacuity of C01.11h: `a+-b --+ 0 ` — the space after `a` removed (a word gap: `+` follows) and the space
after `+-` removed (a safe gap: the pending token is an operator) — parses to the same denotation -/
example :
    let f : FormulaR := .one (.addZero (run "--+" (by decide)) (.add (run "+-" (by decide)) (.first none pA) pB)) []
    Proofs.C15Formula.normE (parseTerms {} env0 ("a+-b --+ 0 ".toList.map ascii.cl))
      = Proofs.C15Formula.normE (denoteFormulaR {} (dotOf env0 f) f) := by
  intro f
  apply parse_eq_denote_respaced_partial ascii (by decide) {} env0 f
    [.word "a".toList, .op "+-".toList, .word "b".toList, .op "--+".toList, .word "0".toList]
    (by decide) (by decide) (Or.inl (by rfl)) (Or.inl rfl)
  have h : render ascii [.word "a".toList, .op "+-".toList, .word "b".toList, .op "--+".toList, .word "0".toList]
      = "a".toList.map ascii.cl ++ ascii.cl ' ' :: "+- b --+ 0 ".toList.map ascii.cl := by decide
  rw [h]
  refine .trans (.symm (.word ("a".toList.map ascii.cl) ("+- b --+ 0 ".toList.map ascii.cl) (ascii.cl ' ')
    ⟨⟨(lexLoop ("a".toList.map ascii.cl) 0 {}).1,
      Prod.ext rfl (show (lexLoop ("a".toList.map ascii.cl) 0 {}).2 = none by decide +kernel),
      by decide +kernel, by decide +kernel, by decide +kernel, by decide +kernel⟩,
      Or.inr ⟨_, _, rfl, Or.inl (by decide)⟩⟩ (by decide))) ?_
  exact .base (.symm (.insert ("a+-".toList.map ascii.cl) ("b --+ 0 ".toList.map ascii.cl) (ascii.cl ' ')
    ⟨(lexLoop ("a+-".toList.map ascii.cl) 0 {}).1,
      Prod.ext rfl (show (lexLoop ("a+-".toList.map ascii.cl) 0 {}).2 = none by decide +kernel),
      by decide +kernel, by decide +kernel, by decide +kernel⟩
    ⟨by decide +kernel, by decide +kernel⟩))

/-- non-vacuity with opaque leaves: `` `a b` + f(x) - 0 `` — a back-quoted name, a call, `- 0` (which ADDS the
intercept; it is there already) -/
example :
    let f : FormulaR := .one (.addZero (run "-" (by decide)) (.add (run "+" (by decide)) (.first none pQ) pF)) []
    let lts : List LT := [.bq "a b".toList, .op "+".toList, .call "f".toList [('(', "x".toList, ')')],
      .op "-".toList, .word "0".toList]
    (render ascii lts).map (·.c) = "`a b` + f(x) - 0 ".toList
    ∧ parseTerms {} env0 (render ascii lts) = denoteFormulaR {} (dotOf env0 f) f
    ∧ denoteFormulaR {} (dotOf env0 f) f
        = .ok (.struct [("root", .set [Spec.Denote.intercept, tmS "a b" .lookup, tmS "f(x)" .python])]) := by
  intro f lts
  exact ⟨by decide, parse_eq_denote_rendered_runs_partial ascii (by decide) {} env0 f lts (by decide) (by decide)
    (Or.inl (by rfl)) (Or.inl rfl), by rfl⟩

/-- non-vacuity with the wildcard: the STRING `y ~ . - a ` in a context whose available variables are
`y, a, b, c, a`: `.` is `{a, b, c}` (`y` is used on the left, the second `a` is a repetition), so the
right-hand side is `{1, b, c}`; with no available variables in the context the same string is rejected -/
example :
    let f : FormulaR := .two (.first none pY) [] (.add (run "-" (by decide)) (.first none pDot) pA) []
    let lts : List LT := [.word "y".toList, .op "~".toList, .word ".".toList, .op "-".toList, .word "a".toList]
    (render ascii lts).map (·.c) = "y ~ . - a ".toList
    ∧ parseTerms {} envD (render ascii lts) = denoteFormulaR {} (dotOf envD f) f
    ∧ denoteFormulaR {} (dotOf envD f) f
        = .ok (.struct [("lhs", .set [tmS "y" .lookup]),
            ("rhs", .set [Spec.Denote.intercept, tmS "b" .lookup, tmS "c" .lookup])])
    ∧ (∃ e, parseTerms {} env0 (render ascii lts) = .error e) := by
  intro f lts
  refine ⟨by decide, parse_eq_denote_rendered_runs_partial ascii (by decide) {} envD f lts (by decide) (by decide)
    (Or.inl (by rfl)) ⟨rfl, Or.inl ⟨rfl, rfl⟩⟩, by rfl, ?_⟩
  rw [parse_eq_denote_rendered_runs_partial ascii (by decide) {} env0 f lts (by decide) (by decide)
    (Or.inl (by rfl)) ⟨rfl, Or.inl ⟨rfl, rfl⟩⟩]
  exact ⟨_, rfl⟩

/-- non-vacuity with a merged separator: the STRING `y ~- a + b | -- c ` (tokens `y`, `~-`, `a`, `+`, `b`, `|--`,
`c`): each right-hand part starts with signs; the first part is `{1} - a + b = {1, b}`, the second
`{1} + c = {1, c}` -/
example :
    let f : FormulaR := .two (.first none pY) []
      (.add (run "+" (by decide)) (.first (some (run "-" (by decide))) pA) pB)
      [.first (some (run "--" (by decide))) (atomOf (wordTok "c" .name) (by decide))]
    let lts : List LT := [.word "y".toList, .op "~-".toList, .word "a".toList, .op "+".toList, .word "b".toList,
      .op "|--".toList, .word "c".toList]
    (render ascii lts).map (·.c) = "y ~- a + b |-- c ".toList
    ∧ parseTerms {} env0 (render ascii lts) = denoteFormulaR {} (dotOf env0 f) f
    ∧ denoteFormulaR {} (dotOf env0 f) f
        = .ok (.struct [("lhs", .set [tmS "y" .lookup]),
            ("rhs", .tuple [.set [Spec.Denote.intercept, tmS "b" .lookup], .set [Spec.Denote.intercept, tmS "c" .lookup]])]) := by
  intro f lts
  exact ⟨by decide, parse_eq_denote_rendered_runs_partial ascii (by decide) {} env0 f lts (by decide) (by decide)
    (Or.inr (by rfl)) ⟨rfl, Or.inr rfl⟩, by rfl⟩

end Runs

/-! ### C01.10 — algebraic laws of the term algebra (ordered term sets; `Proofs/C01Algebra.lean`)

All for ALL operands and as equalities of LISTS (same terms, same order). `oset` is "make it an ordered
set" (first occurrence of every term identity); operands that come out of the evaluator are ordered
sets already. -/
section Algebra

/-- C01.10a  `a + a = a`. -/
theorem union_idempotent (a : List Term) : osetUnion a a = oset a := Proofs.C01Algebra.union_idem a

/-- C01.10b  `(a + b) + c = a + (b + c)`: both are the terms of `a`, `b`, `c` in first-appearance order. -/
theorem union_associative (a b c : List Term) :
    osetUnion (osetUnion a b) c = osetUnion a (osetUnion b c)
    ∧ osetUnion (osetUnion a b) c = oset (a ++ b ++ c) := Proofs.C01Algebra.union_assoc a b c

/-- C01.10c  `-` is set difference on term identities, keeping the order of the left operand. -/
theorem diff_is_set_difference (a b : List Term) :
    osetDiff a b = a.filter (fun t => !(b.map Term.key).contains t.key) := Proofs.C01Algebra.diff_spec a b

/-- C01.10d  **`:` distributes over `+`** (from the left, with order): `(a + b) : c = a:c + b:c`. (From
the right only the term SETS agree: `a : (b + c)` lists `a₁:b₁, a₁:c₁, a₂:b₁, …`.) -/
theorem interaction_distributes (a b c : List Term) :
    osetProd (osetUnion a b) c = osetUnion (osetProd a c) (osetProd b c) :=
  Proofs.C01Algebra.prod_distrib_left a b c

/-- C01.10e  **`S ** n` for every `n`**: `S ** 1 = S` and `S ** (n+1) = (S ** n) : S` — the power is the
`n`-fold interaction `S : S : … : S` (C01.8e is the case `n = 2`). -/
theorem power_is_iterated_interaction (s : List Term) (n : Nat) :
    powTerms s 1 = oset s ∧ powTerms s (n + 2) = osetProd (powTerms s (n + 1)) s :=
  ⟨rfl, Proofs.C01Algebra.pow_succ s n⟩

/-- C01.10f  Interactions respect term identity: the same terms (as sets of factors) give the same
products — why de-duplicating an operand first never changes a product (`prod_oset_left`). -/
theorem product_respects_identity (x x' y : Term) (h : Term.key x = Term.key x') :
    Term.key (Term.mul x y) = Term.key (Term.mul x' y) := Proofs.C01Algebra.key_mul_congr x x' y h

private def fa : Term := [Factor.mk "a" .lookup]
private def fb : Term := [Factor.mk "b" .lookup]
private def fc : Term := [Factor.mk "c" .lookup]
/-- `(a + b + c)**3` through the law: `((S:S):S)`, 7 terms: a, a:b, a:c, a:b:c, b, b:c, c -/
example : powTerms [fa, fb, fc] 3 = osetProd (osetProd [fa, fb, fc] [fa, fb, fc]) [fa, fb, fc]
    ∧ (powTerms [fa, fb, fc] 3).length = 7 := by
  constructor
  · rw [(power_is_iterated_interaction [fa, fb, fc] 1).2, (power_is_iterated_interaction [fa, fb, fc] 0).2]
    rfl
  · rfl

end Algebra

/-! ### C01.9 continued — equivalent specification forms (`Model/FromSpec.lean`)

`fromSpec` is `Formula.from_spec`, `formulaCall` the call `Formula(root, **structure)`; a specification
is a string, a list of strings / `Term`s, a `dict`, a tuple, a `Structured`, an existing `Formula`. The
string parser is a parameter (`E.parse`; the engine runs it with the parser model): the statements hold
for EVERY parser. -/
section Forms
open FormulaicVerif.Model.FromSpec

/-- C01.9a  **One-sided: string = list of `Term`s = list of strings.** If the string `s` denotes the plain
term set `T` (under the parser) and the strings `ss` denote, under the nested parser, term sets whose
concatenation is `T`, then `from_spec(s)`, `from_spec([Term, …])` and `from_spec([str, …])` are the same
`SimpleFormula`: `T` in the requested ordering. (A list keeps repeated terms — the concatenation must BE
`T`, duplicates are not merged: `Proofs.C01Forms.buildItems_strings`.) -/
theorem forms_onesided {σ : Type} (E : Env σ) (o : FromSpec.Ordering) (parser nested : Option ParseCfg) (s : σ)
    (T : List Term) (ss : List σ) (Ts : List (List Term))
    (hs : E.parse (resolveParsers parser nested).parser s = .ok (.struct [("root", .set T)]))
    (hss : Proofs.C01Forms.AllParse E (resolveParsers parser nested).nested ss Ts) (hT : Ts.flatten = T) :
    fromSpec E (some o) parser nested (.str s) = .ok (.set (orderTerms o T))
    ∧ fromSpec E (some o) parser nested (.items (T.map Item.term)) = .ok (.set (orderTerms o T))
    ∧ fromSpec E (some o) parser nested (.items (ss.map Item.str)) = .ok (.set (orderTerms o T)) :=
  Proofs.C01Forms.forms_onesided E o parser nested s T ss Ts hs hss hT

/-- C01.9b  **Two-sided: string = dict = `lhs=`/`rhs=` keywords = `Structured`**, with the sides given as
strings or as lists of `Term`s: whenever the one string denotes `{lhs: L, rhs: R}` and the side strings
denote `L` and `R` (nested parser), all six specifications give
`StructuredFormula(lhs = L, rhs = R)` in the requested ordering. -/
theorem forms_twosided {σ : Type} (E : Env σ) (o : FromSpec.Ordering) (parser nested : Option ParseCfg)
    (s sl sr : σ) (L R : List Term)
    (hs : E.parse (resolveParsers parser nested).parser s = .ok (.struct [("lhs", .set L), ("rhs", .set R)]))
    (hl : E.parse (resolveParsers parser nested).nested sl = .ok (.struct [("root", .set L)]))
    (hr : E.parse (resolveParsers parser nested).nested sr = .ok (.struct [("root", .set R)])) :
    let result : Except Err Val := .ok (.struct [("lhs", .set (orderTerms o L)), ("rhs", .set (orderTerms o R))])
    fromSpec E (some o) parser nested (.str s) = result
    ∧ fromSpec E (some o) parser nested (.dict [("lhs", .str sl), ("rhs", .str sr)]) = result
    ∧ formulaCall E (some o) parser nested none [("lhs", .str sl), ("rhs", .str sr)] = result
    ∧ fromSpec E (some o) parser nested (.dict [("lhs", .items (L.map Item.term)), ("rhs", .items (R.map Item.term))]) = result
    ∧ formulaCall E (some o) parser nested none
        [("lhs", .items (L.map Item.term)), ("rhs", .items (R.map Item.term))] = result
    ∧ fromSpec E (some o) parser nested (.structured [("lhs", .str sl), ("rhs", .str sr)]) = result :=
  Proofs.C01Forms.forms_twosided E o parser nested s sl sr L R hs hl hr

/-- C01.9c  **String form = keyword form, for the documented grammar** (no hypothesis about the parser
left): for all `Sum`s `l`, `p` without a literal `0` such that `l ~ p` is valid,
`Formula.from_spec("l ~ p")` = `Formula(lhs="l", rhs="1 + p")` = the `dict` = the `Structured`
specification, namely `{lhs: ⟦l⟧, rhs: ⟦p⟧ read from {1}}` in the requested ordering (strings are token
sequences here; the keyword strings are read by the nested parser, which adds no intercept, so the
`1 +` is written out). -/
theorem string_eq_keywords_partial (env : PyEnv) (o : FromSpec.Ordering)
    (l p : Proofs.C01Grammar.Sum)
    (hzl : Proofs.C01Denote.NoZero (lin (Proofs.C01Grammar.toE l)))
    (hzp : Proofs.C01Denote.NoZero (lin (Proofs.C01Grammar.toE p))) (v : Val)
    (hd : Spec.Denote.denoteFormula defaultParser (.two l [] p []) = .ok v) :
    let E := Proofs.C01FormsGrammar.tokEnv env
    let s := (Spec.Denote.Formula.two l [] p []).toks
    let sl := (Spec.Denote.Formula.one l []).toks
    let sr := (Spec.Denote.Formula.one (Proofs.C01Denote.withOne p) []).toks
    fromSpec E (some o) none none (.str s) = formulaCall E (some o) none none none [("lhs", .str sl), ("rhs", .str sr)]
    ∧ fromSpec E (some o) none none (.str s) = fromSpec E (some o) none none (.dict [("lhs", .str sl), ("rhs", .str sr)])
    ∧ fromSpec E (some o) none none (.str s) = fromSpec E (some o) none none (.structured [("lhs", .str sl), ("rhs", .str sr)])
    ∧ ∃ L R, Spec.Denote.denSum l = .ok L ∧ Spec.Denote.foldSum [Spec.Denote.intercept] p = .ok R ∧
        fromSpec E (some o) none none (.str s)
          = .ok (.struct [("lhs", .set (orderTerms o L)), ("rhs", .set (orderTerms o R))]) :=
  Proofs.C01FormsGrammar.string_eq_keywords env o l p hzl hzp v hd

/-- C01.9e  **Nested structure = `|`.** A tuple of two one-part strings and the one string `s1 | s2`
give the same formula — `{root: (T₁, T₂)}` in the requested ordering — whenever the string denotes the
tuple of what the parts denote (every tuple element is parsed by the PARSER, so each part gets its own
intercept, as each part of a multi-part string does: C01.6c). -/
theorem forms_multipart_two {σ : Type} (E : Env σ) (o : FromSpec.Ordering) (parser nested : Option ParseCfg)
    (s s1 s2 : σ) (T1 T2 : List Term)
    (hs : E.parse (resolveParsers parser nested).parser s = .ok (.struct [("root", .tuple [.set T1, .set T2])]))
    (h1 : E.parse (resolveParsers parser nested).parser s1 = .ok (.struct [("root", .set T1)]))
    (h2 : E.parse (resolveParsers parser nested).parser s2 = .ok (.struct [("root", .set T2)])) :
    fromSpec E (some o) parser nested (.str s)
      = .ok (.struct [("root", .tuple [.set (orderTerms o T1), .set (orderTerms o T2)])])
    ∧ fromSpec E (some o) parser nested (.tuple [.str s1, .str s2])
      = .ok (.struct [("root", .tuple [.set (orderTerms o T1), .set (orderTerms o T2)])]) :=
  Proofs.C01Forms.forms_multipart_two E o parser nested s s1 s2 T1 T2 hs h1 h2

/-- C01.9f  The two fuel-bounded loops of the specification model (`Structured.__iter__` through nested
roots, the unwrapping loop of `_simplify(unwrap=False)`) never run out of fuel: any fuel above the
nesting depth gives the result the model computes. -/
theorem fromSpec_fuel_sufficient (n m : Nat) (v : Val) :
    (valDepth v < n → valDepth v < m → FromSpec.iterVal n v = FromSpec.iterVal m v)
    ∧ (valDepth v ≤ n → valDepth v ≤ m → FromSpec.peelInit n v = FromSpec.peelInit m v) :=
  ⟨Proofs.C01Forms.iterVal_fuel n m v, Proofs.C01Forms.peelInit_fuel n m v⟩

/-- C01.9d  **`_ordering`.** `none` keeps the order of the specification; `degree` is the stable sort by
interaction degree (C01.9); `sort` orders the factors of every term by expression and the terms by
`Term.__lt__` (degree, then factors): the result is sorted, and it is a permutation of the
factor-sorted terms. -/
theorem ordering_methods (ts : List Term) :
    orderTerms .none ts = ts
    ∧ orderTerms .degree ts = sortByDegree ts
    ∧ (Spec.Containers.SortedLt (orderTerms .sort ts)
        ∧ (orderTerms .sort ts).Perm (ts.map SFm.normTerm)
        ∧ ∀ t ∈ orderTerms .sort ts, Spec.Containers.FactorsSorted t) := by
  refine ⟨rfl, rfl, Proofs.C19.sortTerms_sorted _, Proofs.C19.sortTerms_perm _, ?_⟩
  intro t ht
  have := (Proofs.C19.sortTerms_perm (ts.map SFm.normTerm)).mem_iff.1 ht
  obtain ⟨t', _, rfl⟩ := List.mem_map.1 this
  exact Proofs.C19.normTerm_sorted t'

private def strEnv : Env String :=
  { parse := fun cfg s =>
      if s == "y ~ x" then .ok (.struct [("lhs", .set [[Factor.mk "y" .lookup]]),
          ("rhs", .set (if cfg.includeIntercept then [[Factor.mk "1" .literal], [Factor.mk "x" .lookup]] else [[Factor.mk "x" .lookup]]))])
      else if s == "y" then .ok (.struct [("root", .set [[Factor.mk "y" .lookup]])])
      else if s == "1 + x" then .ok (.struct [("root", .set [[Factor.mk "1" .literal], [Factor.mk "x" .lookup]])])
      else .error (.syntax "unknown") }

/-- non-vacuity of C01.9b: a parser that knows three strings satisfies the hypotheses with
`L = {y}`, `R = {1, x}` under the default parsers -/
example : fromSpec strEnv (some .degree) none none (.str "y ~ x")
    = formulaCall strEnv (some .degree) none none none [("lhs", .str "y"), ("rhs", .str "1 + x")] := by
  have h := forms_twosided strEnv .degree none none "y ~ x" "y" "1 + x"
    [[Factor.mk "y" .lookup]] [[Factor.mk "1" .literal], [Factor.mk "x" .lookup]] (by rfl) (by rfl) (by rfl)
  exact h.1.trans h.2.2.1.symm

/-- non-vacuity of C01.9c: `l = y`, `p = a + b` (names) satisfy the hypotheses — the denotation of
`y ~ a + b` under the default parser is defined (`rfl`) — so the string form and the keyword form
`Formula(lhs="y", rhs="1 + a + b")` coincide -/
example (env : PyEnv) :
    fromSpec (Proofs.C01FormsGrammar.tokEnv env) (some .degree) none none
        (.str (Spec.Denote.Formula.two (nmS 'y') [] aPlusB []).toks)
      = formulaCall (Proofs.C01FormsGrammar.tokEnv env) (some .degree) none none none
          [("lhs", .str (Spec.Denote.Formula.one (nmS 'y') []).toks),
           ("rhs", .str (Spec.Denote.Formula.one (Proofs.C01Denote.withOne aPlusB) []).toks)] :=
  (string_eq_keywords_partial env .degree (nmS 'y') aPlusB (by decide) (by decide) _ (by rfl)).1

end Forms

end FormulaicVerif.Props.C01
