import FormulaicVerif.Model.Parser
import FormulaicVerif.Spec.Wilkinson
import FormulaicVerif.Proofs.ShuntComplete
import FormulaicVerif.Proofs.C01
import FormulaicVerif.Proofs.C01Grammar
/-! # C01 — Formula strings denote exactly the documented Wilkinson term algebra

Property theorems only (helpers: `Proofs/ShuntComplete.lean`, `Proofs/C01.lean`). They are about
the very definitions the correspondence engine `c01` runs (`Model/{Tokenize,TokenOps,Shunt,Eval,Parser}.lean`).

What is proved, for ALL inputs: the live operator table is the documented one (all 8 flag subsets);
the shunting-yard returns the documented tree for every expression of the documented arithmetic
grammar (`grammar_parses`: Sum/Prod/Inter/Pow/Atom levels, unbounded nesting and chains; via the more
general `shunt_complete`); the token-level intercept insertion for one-sided formulas; sign-run collapsing keeps every other operator character in place and reduces
each run by parity; the documented spelling identities hold on ordered term sets; the final ordering
is a stable sort by interaction degree.

FULL (unproved): `parse_eq_denote : WF f → Model.parseTerms cfg env (render f) = Spec.denoteFormula cfg f`
for the whole grammar including `~`, `|`, intercept insertion and `.`. What is missing: the token-level
intercept-insertion lemma and the evaluation-equals-denotation induction for structured values; these
clauses are covered by the correspondence stream plus the independent reference evaluator of the
documented semantics in `harness/parser_common.py` (`denote`), not by a theorem. -/
namespace FormulaicVerif.Props.C01
open FormulaicVerif FormulaicVerif.Model FormulaicVerif.Proofs.ShuntC

/-- C01.1  The operator table built by the live `DefaultOperatorResolver` (regenerated from the
source on every run) is the documented one — symbols, arities, precedences, associativities,
fixities, context rules and disabled flags — for each of the 8 feature-flag subsets. -/
theorem table_is_documented (twosided multipart multistage : Bool) :
    Gen.defaultTable twosided multipart multistage
      = Spec.Wilkinson.documentedTable twosided multipart multistage := by
  cases twosided <;> cases multipart <;> cases multistage <;> rfl

/-- C01.3  Completeness of the index-based shunting-yard: every expression `e` of the arithmetic
grammar that is well formed with respect to the operator table (`WF`: each operator token resolves
to its candidate list, the left operand's pending operators bind at least as tightly, the right
operand's do not yield to it; `Guard`: nothing on the stack is popped) is parsed to exactly its
documented tree `strip e` — any nesting depth, any number of operators, prefix signs included. -/
theorem shunt_complete (tab : OpTable) (e : E) (hwf : WF tab e) (hg : Guard none e) :
    tokensToAst tab (lin e) = .ok (some (strip e)) :=
  parse_lin tab e hwf hg

/-- C01.3'  **Every expression of the documented grammar parses to its documented tree.** The grammar of
the arithmetic fragment by precedence levels (`Proofs/C01Grammar.lean`):
`Sum := [sign] Prod | Sum (+|-) Prod`, `Prod := Inter | Prod (*|/|%in%) Inter`,
`Inter := Pow | Inter : Pow`, `Pow := Atom | Atom (**|^) Pow`, `Atom := token | ( Sum )` —
left-associative except `**`/`^`, unbounded nesting and chain lengths, optional leading unary sign.
For every such expression `s`, with the operator table the LIVE resolver builds for any of the 8
feature-flag subsets, the shunting-yard applied to the token sequence of `s` returns exactly the
tree in which each operator has the operands the documented precedence and associativity give it. -/
theorem grammar_parses (twosided multipart multistage : Bool) (s : Proofs.C01Grammar.Sum) :
    tokensToAst (Gen.defaultTable twosided multipart multistage) (lin (Proofs.C01Grammar.toE s))
      = .ok (some (strip (Proofs.C01Grammar.toE s))) := by
  rw [table_is_documented]
  exact Proofs.C01Grammar.grammar_parses twosided multipart multistage s

private def tA : Tok := { text := ['a'], kind := some .name }
private def tB : Tok := { text := ['b'], kind := some .name }
private def tC : Tok := { text := ['c'], kind := some .name }
private def plusB : OpSpec := Spec.Wilkinson.bin "+" 100 .left
private def plusU : OpSpec := Spec.Wilkinson.pre "+" 100
private def minusU : OpSpec := Spec.Wilkinson.pre "-" 100
private def minusB : OpSpec := Spec.Wilkinson.bin "-" 100 .left
private def colonB : OpSpec := Spec.Wilkinson.bin ":" 300 .left

/-- non-vacuity: `a + b : c` and `- a` satisfy the hypotheses for the documented default table, so
the theorem yields `a + (b : c)` and `-a` (a concrete instance; the theorem itself is unbounded) -/
example : tokensToAst (Spec.Wilkinson.documentedTable true true false)
      (lin (.bin plusB ['+'] [plusB, plusU] (.atom tA) (.bin colonB [':'] [colonB] (.atom tB) (.atom tC))))
    = .ok (some (.node plusB [.leaf tA, .node colonB [.leaf tB, .leaf tC]])) := by
  apply shunt_complete
  · refine ⟨rfl, ⟨_, rfl⟩, rfl, ⟨rfl, rfl⟩, ⟨by decide, by decide⟩, ?_, trivial, ?_⟩
    · exact ⟨rfl, ⟨_, rfl⟩, rfl, ⟨rfl, rfl⟩, ⟨by decide, by decide⟩, ⟨by decide, by decide⟩, trivial, trivial⟩
    · exact ⟨trivial, by intro o ho; cases ho; decide⟩
  · exact ⟨trivial, by intro o ho; cases ho⟩

example : tokensToAst (Spec.Wilkinson.documentedTable true true false)
      (lin (.pre minusU ['-'] [minusB, minusU] (.atom tA)))
    = .ok (some (.node minusU [.leaf tA])) := by
  apply shunt_complete
  · exact ⟨rfl, rfl, rfl, ⟨rfl, rfl⟩, ⟨by decide, by decide⟩, trivial⟩
  · refine ⟨[minusB], [], rfl, ?_, ?_, ?_⟩
    · intro c hc; simp at hc; subst hc; exact ⟨rfl, by decide, rfl, rfl⟩
    · intro c _ o ho; cases ho
    · intro o ho; cases ho

/-- C01.2a  Collapsing runs of signs never drops, adds or reorders any other operator character
(the two halves of the operator-precedence slip that used to turn `a:--b` into `a + b`). -/
theorem collapse_keeps_other_chars (s : List Char) :
    (collapseSigns s).filter Proofs.C01.notSign = s.filter Proofs.C01.notSign :=
  Proofs.C01.collapse_keeps_other_chars s

/-- C01.2b  A character that is not a sign stays where it is and splits the operator token into
independently collapsed pieces. -/
theorem collapse_split (a : List Char) (c : Char) (b : List Char) (hc : (c == '+' || c == '-') = false) :
    collapseSigns (a ++ c :: b) = collapseSigns a ++ c :: collapseSigns b :=
  Proofs.C01.collapse_split a c b hc

/-- C01.2c  A run of two or more signs (any length) becomes ONE sign: `-` iff it contains an odd
number of `-`; a single sign is left alone. -/
theorem collapse_run (r : List Char) (h : ∀ c ∈ r, (c == '+' || c == '-') = true) (hl : 2 ≤ r.length) :
    collapseSigns r = if (r.filter (· == '-')).length % 2 = 1 then ['-'] else ['+'] :=
  Proofs.C01.collapse_run r h hl

theorem collapse_single (c : Char) : collapseSigns [c] = [c] := Proofs.C01.collapse_single c

example : collapseSigns "~-+--".toList = "~-".toList ∧ collapseSigns ":--".toList = ":+".toList := by decide

/-- C01.6a  Token-level form of "an implicit intercept on every right-hand part": for a one-sided
formula whose operator tokens contain neither `~` nor `|` and which has no literal `0`, the parser's
token rewriting is exactly "prepend `1 +`" (then adjacent sign tokens are merged), for every token
list. (Trying to prove this for names as well as operators exposed the quoted-`~` defect.) -/
theorem intercept_plain (ts : List Tok) (hne : ts ≠ [])
    (h1 : ∀ t ∈ ts, Proofs.C01.NoSep '~' t) (h2 : ∀ t ∈ ts, Proofs.C01.NoSep '|' t)
    (hz : ∀ t ∈ ts, ¬ (t.kind = some .value ∧ t.text = ['0'])) :
    (interceptTokens true ts).1 = mergeSigns (tokOne :: tokPlus :: ts) :=
  Proofs.C01.intercept_plain ts hne h1 h2 hz

/-- C01.6b  … and a parser configured without the implicit intercept inserts nothing. -/
theorem no_intercept_plain (ts : List Tok)
    (h1 : ∀ t ∈ ts, Proofs.C01.NoSep '~' t) (h2 : ∀ t ∈ ts, Proofs.C01.NoSep '|' t)
    (hz : ∀ t ∈ ts, ¬ (t.kind = some .value ∧ t.text = ['0'])) :
    (interceptTokens false ts).1 = mergeSigns ts :=
  Proofs.C01.no_intercept_plain ts h1 h2 hz

/-- a column literally named `~` (a name token) does not stop the intercept from being inserted -/
example : (interceptTokens true [{ text := ['~'], kind := some .name }, Tok.synth "+" .operator, Tok.synth "a" .name]).1
    = [tokOne, tokPlus, { text := ['~'], kind := some .name }, Tok.synth "+" .operator, Tok.synth "a" .name] := by
  decide

/-- C01.8a  `a * b = a + b + a:b` on ordered term sets (same terms, same order), for all operands. -/
theorem denote_mul (a b : List Term) :
    osetUnion (oset (a ++ b)) (osetProd a b) = osetUnion (osetUnion a b) (osetProd a b) := rfl

/-- C01.8a'  the same, stated on the operator implementations the evaluator dispatches to -/
theorem denote_mul_ops (dot : DotCtx) (o p m : OpSpec) (a b : List Term)
    (ho : o.symbol = "*" ∧ o.fixity = .infix) (hp : p.symbol = "+" ∧ p.fixity = .infix)
    (hm : m.symbol = ":" ∧ m.fixity = .infix) :
    applyPlain o dot [a, b] =
      (do let s ← applyPlain p dot [a, b]; let i ← applyPlain m dot [a, b]; applyPlain p dot [s, i]) := by
  obtain ⟨h1, h2⟩ := ho; obtain ⟨h3, h4⟩ := hp; obtain ⟨h5, h6⟩ := hm
  simp [applyPlain, h1, h2, h3, h4, h5, h6, osetUnion, bind, Except.bind]

/-- C01.8b  `b %in% a = a / b`, for all operands. -/
theorem denote_in_eq_div (dot : DotCtx) (o d : OpSpec) (a b : List Term)
    (ho : o.symbol = "in" ∧ o.fixity = .infix) (hd : d.symbol = "/" ∧ d.fixity = .infix) :
    applyPlain o dot [b, a] = applyPlain d dot [a, b] := by
  obtain ⟨h1, h2⟩ := ho; obtain ⟨h3, h4⟩ := hd
  simp [applyPlain, h1, h2, h3, h4]

/-- C01.8c  `^` is `**`, for all operands. -/
theorem denote_caret_eq_pow (dot : DotCtx) (o d : OpSpec) (a b : List Term)
    (ho : o.symbol = "^" ∧ o.fixity = .infix) (hd : d.symbol = "**" ∧ d.fixity = .infix) :
    applyPlain o dot [a, b] = applyPlain d dot [a, b] := by
  obtain ⟨h1, h2⟩ := ho; obtain ⟨h3, h4⟩ := hd
  simp [applyPlain, h1, h2, h3, h4]

/-- C01.8d  `a / b = a + a:b` for a single-term parent `a` and any `b`. -/
theorem denote_div_single (t : Term) (b : List Term) :
    nestedProduct [t] b = .ok (osetUnion [t] (osetProd [t] b)) := by
  simp [nestedProduct, reduceMulTerms, osetProd]

/-- C01.8e  `S ** 2` is the set of pairwise products of `S` in `itertools.product` order
(`(a+b+c)**2 = a + a:b + a:c + b + b:c + c`, i.e. all interactions up to order 2), for any `S`. -/
theorem denote_pow_two (s : List Term) : powTerms s 2 = osetProd s s := rfl

/-- C01.9  Final ordering: `Formula` orders each part by interaction degree with a STABLE sort —
the result is sorted by degree, is a permutation of the parsed terms, and terms of equal degree
keep their first-appearance order. For every term list. -/
theorem degree_order (ts : List Term) :
    (sortByDegree ts).Pairwise (fun a b => a.degree ≤ b.degree) ∧ (sortByDegree ts).Perm ts ∧
    ∀ d, (sortByDegree ts).filter (fun x => x.degree == d) = ts.filter (fun x => x.degree == d) :=
  Proofs.C01.sortByDegree_spec ts

end FormulaicVerif.Props.C01
