import FormulaicVerif.Model.Parser
/-! # C01 — Formula strings denote exactly the documented Wilkinson term algebra (work in progress) -/
namespace FormulaicVerif.Props.C01
open FormulaicVerif.Model

end FormulaicVerif.Props.C01
