import FormulaicVerif.Proofs.C13Scale
import FormulaicVerif.Proofs.C13Aux
import FormulaicVerif.Proofs.C13Elem
import FormulaicVerif.Proofs.C13Entry
import FormulaicVerif.Proofs.C13PolyMore
import FormulaicVerif.Proofs.C13Real
import FormulaicVerif.Proofs.C13Replay
import FormulaicVerif.Proofs.C13Distinct
import FormulaicVerif.Proofs.C13Key
import FormulaicVerif.Model.PatsyCompat
import FormulaicVerif.Model.Preloaded
import FormulaicVerif.Gen.Names
/-! # C13 — Scaling, polynomial and elementwise transforms meet their numeric contracts

Property theorems only; helper lemmas are in `Proofs/C13*.lean` and `Proofs/ThreeTerm.lean`.

The models (`Model/Scale.lean`, `Model/Poly.lean`) are written once for any carrier with the
arithmetic notation classes; the engine of the correspondence runs them at `Rat`, the theorems
below instantiate the SAME definitions at an arbitrary field `α` (so in particular at `ℚ`, see the
examples) and at `ℝ`.  `numpy.sqrt` is the parameter `sqrt`; what is assumed of it is stated as a
hypothesis each time (`sqrt v * sqrt v = v` at the one value it is applied to). -/

namespace FormulaicVerif.Props.C13
open FormulaicVerif.Model FormulaicVerif.Proofs.C13

/-! ## 1. `center`, `scale`, `standardize` on the data they are fitted on -/
section scale
variable {α : Type} [Field α] [DecidableEq α]

/-- C13.1a  `center` on a fresh state records the mean (and `scale = None`, `ddof = 1`) and returns
the data minus their mean, which have mean 0 — for every non-empty vector. -/
theorem center_zero_mean [CharZero α] (sqrt : α → α) (xs : List α) (hne : xs ≠ []) :
    ∃ out, Scale.center sqrt xs {} = .ok (out, ⟨some 1, some (some (Scale.mean xs)), some none⟩)
      ∧ out = xs.map (fun x => x - Scale.mean xs) ∧ Scale.mean out = 0 := by
  refine ⟨_, ?_, rfl, mean_center xs hne⟩
  simp [Scale.center, Scale.run, Scale.resolveDdof, Scale.resolveCenter, Scale.resolveScale,
    Scale.applyCenter, Scale.applyScale]

/-- C13.1b  `scale`/`standardize` with `center=True` on a fresh state: whatever the `scale` argument
(flag or number) and `ddof`, a call that does not divide by zero returns data with mean 0 and records
the mean of the input. -/
theorem scale_zero_mean [CharZero α] (sqrt : α → α) (xs : List α) (hne : xs ≠ []) (sa : Scale.Arg α)
    (ddof : α) (out : List α) (st : Scale.State α)
    (h : Scale.run sqrt xs (.flag true) sa ddof {} = .ok (out, st)) :
    Scale.mean out = 0 ∧ st.center = some (some (Scale.mean xs)) := by
  obtain ⟨d, c, s, rfl, hs, rfl⟩ := run_state_complete sqrt xs _ sa ddof {} out st h
  simp only [Scale.run, Scale.resolveCenter] at h
  split at h
  · cases h
  · split at h
    · cases h
    · cases h
      refine ⟨?_, rfl⟩
      cases s with
      | none => simpa [applyStats_some_none] using mean_center xs hne
      | some s =>
        have : xs.map (applyStats (some (Scale.mean xs)) (some s))
            = (xs.map (fun x => x - Scale.mean xs)).map (fun x => x / s) := by
          simp [applyStats_some_some, List.map_map, Function.comp_def]
        rw [this, mean_div, mean_center xs hne, zero_div]

/-- the variance (for `ddof`) that `numpy.sqrt` is applied to when `scale` fits on `xs` -/
def fitVar (xs : List α) (ddof : α) : α :=
  Scale.sumSq (xs.map (fun x => x - Scale.mean xs)) / ((xs.length : α) - ddof)

/-- C13.1c  `scale(xs, ddof=ddof)` (and `standardize`, which is the same function with another
default) on a fresh state, over any field of characteristic 0: if the variance is non-zero (so in
particular `ddof ≠ n`) and `sqrt` returns a square root of it, then the call succeeds, records
`center = mean`, `scale = sqrt(var)`, `ddof`, and the output has mean 0 and variance (for `ddof`) 1. -/
theorem scale_unit_std [CharZero α] (sqrt : α → α) (xs : List α) (hne : xs ≠ []) (ddof : α)
    (hvar : fitVar xs ddof ≠ 0)
    (hsqrt : sqrt (fitVar xs ddof) * sqrt (fitVar xs ddof) = fitVar xs ddof) :
    ∃ out, Scale.run sqrt xs (.flag true) (.flag true) ddof {} =
        .ok (out, ⟨some ddof, some (some (Scale.mean xs)), some (some (sqrt (fitVar xs ddof)))⟩)
      ∧ Scale.mean out = 0
      ∧ Scale.sumSq (out.map (fun y => y - Scale.mean out)) / ((out.length : α) - ddof) = 1 := by
  have hdof : (xs.length : α) - ddof ≠ 0 := by
    intro h0; apply hvar; simp [fitVar, h0]
  have hss : Scale.sumSq (xs.map (fun x => x - Scale.mean xs)) ≠ 0 := by
    intro h0; apply hvar; simp [fitVar, h0]
  have hs : sqrt (fitVar xs ddof) ≠ 0 := by
    intro h0; rw [h0, mul_zero] at hsqrt; exact hvar hsqrt.symm
  have hm : Scale.mean ((xs.map (fun x => x - Scale.mean xs)).map (fun x => x / sqrt (fitVar xs ddof))) = 0 := by
    rw [mean_div, mean_center xs hne, zero_div]
  refine ⟨(xs.map (fun x => x - Scale.mean xs)).map (fun x => x / sqrt (fitVar xs ddof)), ?_, hm, ?_⟩
  · have hs' : sqrt (Scale.sumSq (xs.map (fun x => x - Scale.mean xs)) / ((xs.length : α) - ddof)) ≠ 0 := hs
    simp [Scale.run, Scale.resolveDdof, Scale.resolveCenter, Scale.resolveScale, Scale.applyCenter,
      Scale.applyScale, hdof, hs', fitVar]
  · rw [hm]
    simp only [sub_zero, List.map_id', List.length_map]
    rw [sumSq_div, hsqrt, fitVar]
    field_simp

/-- C13.1d  The same over `ℝ` with the real square root, against the reference statistics of
`Spec/Real.lean`: for every vector that is not constant and every `ddof < n`, `scale` records the
mean and the standard deviation and returns data with mean 0 and standard deviation 1. -/
theorem scale_unit_std_real (xs : List ℝ) (ddof : ℝ) (hdof : ddof < xs.length)
    (hvar : ∃ x ∈ xs, ∃ y ∈ xs, x ≠ y) :
    ∃ out, Scale.run Real.sqrt xs (.flag true) (.flag true) ddof {} =
        .ok (out, ⟨some ddof, some (some (Spec.Real.mean xs)), some (some (Spec.Real.std ddof xs))⟩)
      ∧ Spec.Real.mean out = 0 ∧ Spec.Real.std ddof out = 1 := by
  obtain ⟨x, hx, y, hy, hxy⟩ := hvar
  have hne : xs ≠ [] := List.ne_nil_of_mem hx
  have hex : ∃ z ∈ xs.map (fun x => x - Scale.mean xs), z ≠ 0 := by
    by_cases h : x = Scale.mean xs
    · exact ⟨y - Scale.mean xs, List.mem_map.mpr ⟨y, hy, rfl⟩, sub_ne_zero.mpr (fun e => hxy (h.trans e.symm))⟩
    · exact ⟨x - Scale.mean xs, List.mem_map.mpr ⟨x, hx, rfl⟩, sub_ne_zero.mpr h⟩
  have hpos : 0 < fitVar xs ddof := div_pos (sumSq_pos _ hex) (sub_pos.mpr hdof)
  obtain ⟨out, hrun, hm, hsd⟩ := scale_unit_std Real.sqrt xs hne ddof hpos.ne' (Real.mul_self_sqrt hpos.le)
  refine ⟨out, ?_, hm, ?_⟩
  · rw [hrun, spec_std_eq]; rfl
  · rw [spec_std_eq, hsd, Real.sqrt_one]

/-- non-vacuity of the hypotheses of `scale_unit_std` at `ℚ` (the carrier the engine runs):
`xs = [1, 3]`, `ddof = 1`: variance 2·1²/1 … here `[0, 2, 4, 6]`, `ddof = 0`: mean 3, variance 5 — not
a rational square; `[1, 3]` with `ddof = 0` has variance 1 and `sqrt = id` is a square root of it. -/
example : fitVar [(1 : ℚ), 3] 0 = 1 ∧ fitVar [(1 : ℚ), 3] 0 ≠ 0 ∧
    (id (fitVar [(1 : ℚ), 3] 0) * id (fitVar [(1 : ℚ), 3] 0) = fitVar [(1 : ℚ), 3] 0) := by
  have h : fitVar [(1 : ℚ), 3] 0 = 1 := by
    simp only [fitVar, Scale.sumSq, Scale.mean, List.map_cons, List.map_nil, List.sum_cons,
      List.sum_nil, List.length_cons, List.length_nil]
    norm_num
  rw [h]; norm_num

/-- non-vacuity of `scale_unit_std_real`: `[1, 3]` is not constant and `1 < 2`. -/
example : ((1 : ℝ) < ([1, 3] : List ℝ).length) ∧ ∃ x ∈ ([1, 3] : List ℝ), ∃ y ∈ ([1, 3] : List ℝ), x ≠ y :=
  ⟨by norm_num, 1, by simp, 3, by simp, by norm_num⟩

/-- the hypothesis `var ≠ 0` is not decoration: a constant vector makes the model report numpy's `0/0`. -/
example : Scale.run (α := ℚ) id [2, 2] (.flag true) (.flag true) 1 {} = .error .nonFinite := by
  simp [Scale.run, Scale.resolveDdof, Scale.resolveCenter, Scale.resolveScale, Scale.applyCenter,
    Scale.applyScale, Scale.mean, Scale.sumSq]
  norm_num

/-! ## 2. recorded statistics are applied unchanged to new data -/

/-- C13.2a  With `center = c`, `scale = s ≠ 0` (and `ddof`) recorded, `scale` maps every new vector
through `y ↦ (y - c) / s` and leaves the state as it is — whatever `center`, `scale`, `ddof`
arguments are passed, and whatever the statistics of the new data are. -/
theorem scale_applies_recorded (sqrt : α → α) (ys : List α) (ca sa : Scale.Arg α) (dd d c s : α)
    (hs : s ≠ 0) :
    Scale.run sqrt ys ca sa dd ⟨some d, some (some c), some (some s)⟩ =
      .ok (ys.map (fun y => (y - c) / s), ⟨some d, some (some c), some (some s)⟩) := by
  rw [run_recorded sqrt ys ca sa dd d (some c) (some s) (by simpa using hs), applyStats_some_some]

/-- C13.2b  Never refit: after ANY successful call (any starting state — empty, partial or complete —
any arguments, any data), all three statistics are recorded, the output of that call is the recorded
map applied to its input, and every later call, with any data, arguments and `sqrt`, applies the
same recorded map and returns the same state.  (`center` and `standardize` are instances of `run`.) -/
theorem scale_never_refits (sqrt sqrt' : α → α) (xs : List α) (ca sa : Scale.Arg α) (dd : α)
    (st : Scale.State α) (out : List α) (st1 : Scale.State α)
    (h : Scale.run sqrt xs ca sa dd st = .ok (out, st1)) :
    ∃ c s, st1.center = some c ∧ st1.scale = some s ∧ st1.ddof.isSome ∧ out = xs.map (applyStats c s) ∧
      ∀ (ys : List α) (ca' sa' : Scale.Arg α) (dd' : α),
        Scale.run sqrt' ys ca' sa' dd' st1 = .ok (ys.map (applyStats c s), st1) := by
  obtain ⟨d, c, s, rfl, hs, rfl⟩ := run_state_complete sqrt xs ca sa dd st out st1 h
  exact ⟨c, s, rfl, rfl, rfl, rfl, fun ys ca' sa' dd' => run_recorded sqrt' ys ca' sa' dd' d c s hs⟩

/-- non-vacuity: a fit on `[1, 3]` (ddof 0, `sqrt = id` is exact there) succeeds, and the follow-up
`[5]` is mapped with the recorded mean 2 and scale 1. -/
example : ∃ st, Scale.run (α := ℚ) id [1, 3] (.flag true) (.flag true) 0 {} = .ok ([-1, 1], st) ∧
    Scale.run (α := ℚ) id [5] (.flag false) (.value 7) 3 st = .ok ([3], st) := by
  refine ⟨⟨some 0, some (some 2), some (some 1)⟩, ?_, ?_⟩ <;>
  · simp [Scale.run, Scale.resolveDdof, Scale.resolveCenter, Scale.resolveScale, Scale.applyCenter,
      Scale.applyScale, Scale.mean, Scale.sumSq]
    try norm_num

/-- `standardize` IS `scale` (other defaults only), so every theorem of this section is also a theorem
about `standardize`. -/
example (sqrt : α → α) (xs : List α) (c s : Scale.Arg α) (d : α) (st : Scale.State α) :
    Scale.standardize sqrt xs c s d st = Scale.run sqrt xs c s d st := rfl

/-! ## 2'. every flag combination, every entry point, every container -/

/-- C13.1e  `scale=True` with ANY `center` argument (`True`, `False`, or a number), on a fresh state:
the data are rescaled to unit standard deviation ABOUT THE CHOSEN CENTRE `c` (the mean, nothing, or
the number given): `Σ out² / (n − ddof) = 1`, where `out = (xs − c) / sqrt(var)` and
`var = Σ (xs − c)² / (n − ddof)` is non-zero with square root `sqrt var`.  (`center = True` is
`scale_unit_std`; no characteristic assumption is needed here.) -/
theorem scale_unit_about_center (sqrt : α → α) (xs : List α) (ca : Scale.Arg α) (ddof : α)
    (hvar : Scale.sumSq (Scale.applyCenter (Scale.resolveCenter xs ca {}) xs) / ((xs.length : α) - ddof) ≠ 0)
    (hsqrt : sqrt (Scale.sumSq (Scale.applyCenter (Scale.resolveCenter xs ca {}) xs) / ((xs.length : α) - ddof)) *
        sqrt (Scale.sumSq (Scale.applyCenter (Scale.resolveCenter xs ca {}) xs) / ((xs.length : α) - ddof)) =
      Scale.sumSq (Scale.applyCenter (Scale.resolveCenter xs ca {}) xs) / ((xs.length : α) - ddof)) :
    ∃ out, Scale.run sqrt xs ca (.flag true) ddof {} =
        .ok (out, ⟨some ddof, some (Scale.resolveCenter xs ca {}), some (some (sqrt
          (Scale.sumSq (Scale.applyCenter (Scale.resolveCenter xs ca {}) xs) / ((xs.length : α) - ddof))))⟩)
      ∧ out = (Scale.applyCenter (Scale.resolveCenter xs ca {}) xs).map (fun z => z / sqrt
          (Scale.sumSq (Scale.applyCenter (Scale.resolveCenter xs ca {}) xs) / ((xs.length : α) - ddof)))
      ∧ Scale.sumSq out / ((out.length : α) - ddof) = 1 := by
  set zs := Scale.applyCenter (Scale.resolveCenter xs ca {}) xs with hzs
  set v := Scale.sumSq zs / ((xs.length : α) - ddof) with hv
  have hlen : zs.length = xs.length := by
    rw [hzs]; cases Scale.resolveCenter xs ca {} <;> simp [Scale.applyCenter]
  have hdof : (xs.length : α) - ddof ≠ 0 := by
    intro h0; apply hvar; rw [hv, h0, div_zero]
  have hdof' : (zs.length : α) - ddof ≠ 0 := by rw [hlen]; exact hdof
  have hs : sqrt v ≠ 0 := by
    intro h0; rw [h0, mul_zero] at hsqrt; exact hvar hsqrt.symm
  refine ⟨zs.map (fun z => z / sqrt v), ?_, rfl, ?_⟩
  · simp only [Scale.run, Scale.resolveDdof, Scale.resolveScale, ← hzs, hlen, hdof, if_false,
      Scale.applyScale, ← hv, hs]
  · have hss : Scale.sumSq zs ≠ 0 := by
      intro h0; apply hvar; rw [hv, h0, zero_div]
    rw [sumSq_div, hsqrt, List.length_map, hlen, hv]
    field_simp

/-- non-vacuity: `[3, 4]` with `center=False`, `ddof = 1`: variance about 0 is `25`, `sqrt` any function
with `sqrt 25 = 5`; the output `[3/5, 4/5]` has `Σ out² / (2 − 1) = 1`. -/
example : Scale.run (α := ℚ) (fun _ => 5) [3, 4] (.flag false) (.flag true) 1 {} =
    .ok ([3 / 5, 4 / 5], ⟨some 1, some none, some (some 5)⟩) := by
  simp [Scale.run, Scale.resolveDdof, Scale.resolveCenter, Scale.resolveScale, Scale.applyCenter,
    Scale.applyScale]
  norm_num

/-- C13.1g  The same over `ℝ` with the real square root, hypotheses on the DATA only: for every vector,
every `center` argument and every `ddof < n`, if some entry differs from the chosen centre then
`scale(xs, center, scale=True, ddof)` succeeds, records a positive scale, and the output has unit
standard deviation about that centre. -/
theorem scale_unit_about_center_real (xs : List ℝ) (ca : Scale.Arg ℝ) (ddof : ℝ) (hdof : ddof < xs.length)
    (hne : ∃ z ∈ Scale.applyCenter (Scale.resolveCenter xs ca {}) xs, z ≠ 0) :
    ∃ out s, Scale.run Real.sqrt xs ca (.flag true) ddof {} =
        .ok (out, ⟨some ddof, some (Scale.resolveCenter xs ca {}), some (some s)⟩)
      ∧ 0 < s ∧ Scale.sumSq out / ((out.length : ℝ) - ddof) = 1 := by
  have hpos : 0 < Scale.sumSq (Scale.applyCenter (Scale.resolveCenter xs ca {}) xs) / ((xs.length : ℝ) - ddof) :=
    div_pos (sumSq_pos _ hne) (sub_pos.mpr hdof)
  obtain ⟨out, hrun, _, h1⟩ :=
    scale_unit_about_center Real.sqrt xs ca ddof hpos.ne' (Real.mul_self_sqrt hpos.le)
  exact ⟨out, _, hrun, Real.sqrt_pos.mpr hpos, h1⟩

/-- non-vacuity: `[3, 4]`, `center=False`: an entry differs from 0 and `1 < 2` -/
example : ((1 : ℝ) < ([3, 4] : List ℝ).length) ∧
    ∃ z ∈ Scale.applyCenter (Scale.resolveCenter ([3, 4] : List ℝ) (.flag false) {}) [3, 4], z ≠ 0 :=
  ⟨by norm_num, 3, by simp [Scale.applyCenter, Scale.resolveCenter], by norm_num⟩

open ScaleEntry in
/-- C13.2c  Whatever the container: a `scipy.sparse` matrix with exactly one column is the vector in
that column (`data.toarray()[:, 0]`), for each entry point, all arguments and any state; with any other
number of columns `scale` raises `ValueError` and the other two raise (`ValueError`, or the
`TypeError` of their own argument binding, which comes first) — no statistic is touched. -/
theorem entry_sparse (sqrt : α → α) (fn : Fn) (pos : List (Scale.Arg α)) (kw : List (String × Scale.Arg α))
    (st : Scale.State α) :
    (∀ col, call sqrt fn (.sparse [col]) pos kw st = call sqrt fn (.dense col) pos kw st) ∧
    (∀ cols, cols.length ≠ 1 → call sqrt .scale (.sparse cols) pos kw st = .error .valueError) ∧
    (∀ cols, cols.length ≠ 1 → ∃ e, call sqrt fn (.sparse cols) pos kw st = .error e ∧ Raised e) := by
  have hv : ∀ (cols : List (List α)) p k, cols.length ≠ 1 → scaleCall sqrt (.sparse cols) p k st = .error .valueError := by
    intro cols p k h
    match cols, h with
    | [], _ => rfl
    | [c], h => exact absurd rfl h
    | _ :: _ :: _, _ => rfl
  refine ⟨fun col => ?_, fun cols h => hv cols pos kw h, fun cols h => ?_⟩
  · cases fn <;> rfl
  · cases fn with
    | scale => exact ⟨_, hv cols pos kw h, trivial⟩
    | center =>
      simp only [call, centerCall]
      split
      · exact ⟨_, rfl, trivial⟩
      · split
        · exact ⟨_, rfl, trivial⟩
        · exact ⟨_, hv cols _ _ h, trivial⟩
    | standardize =>
      simp only [call, standardizeCall]
      split
      · exact ⟨_, rfl, trivial⟩
      · exact ⟨_, hv cols _ _ h, trivial⟩

open ScaleEntry in
/-- C13.2d  The entry points with nothing but the data written, against the signatures of the LIVE
functions (`Gen.transformParams`): `scale(x)` centres and scales with `ddof = 1`, `center(x)` is
`Scale.center`, `standardize(x)` centres and scales with `ddof = 0` (population standard deviation);
`standardize` takes the scale flag as `rescale` and refuses `scale`, `scale` refuses `rescale`, `center`
takes no argument at all. -/
theorem entry_defaults (sqrt : α → α) (xs : List α) (st : Scale.State α) (a : Scale.Arg α) :
    call sqrt .scale (.dense xs) [] [] st = liftNum (Scale.run sqrt xs (.flag true) (.flag true) 1 st) ∧
    call sqrt .center (.dense xs) [] [] st = liftNum (Scale.center sqrt xs st) ∧
    call sqrt .standardize (.dense xs) [] [] st = liftNum (Scale.run sqrt xs (.flag true) (.flag true) 0 st) ∧
    call sqrt .standardize (.dense xs) [] [("rescale", a)] st = liftNum (Scale.run sqrt xs (.flag true) a 0 st) ∧
    call sqrt .standardize (.dense xs) [] [("scale", a)] st = .error (.bind .typeError) ∧
    call sqrt .scale (.dense xs) [] [("rescale", a)] st = .error (.bind .typeError) ∧
    call sqrt .center (.dense xs) [a] [] st = .error (.bind .typeError) := by
  simp [call, scaleCall, centerCall, standardizeCall, scaleDense, resolve, sig_scale, sig_center,
    sig_standardize, PyCall.bind, PyCall.bindPos, PyCall.bindKw, PyCall.valueOf, ofLit, ddofOf,
    List.lookup, Scale.center]

open ScaleEntry in
/-- C13.2e  Never refit, through the entry points: after ANY successful call of `scale`, `center` or
`standardize` (any arguments, any container, any starting state) the call was `Scale.run` on the
vector passed, all three statistics are recorded, and EVERY later call through ANY of the three
entry points — other arguments, other data, other container, another `sqrt` — either raises
(`TypeError`/`ValueError`: ill-formed arguments or not a vector) or returns the recorded affine map
of its input and the state unchanged. -/
theorem entry_never_refits (sqrt sqrt' : α → α) (fn : Fn) (data : Data α) (pos : List (Scale.Arg α))
    (kw : List (String × Scale.Arg α)) (st : Scale.State α) (out : List α) (st1 : Scale.State α)
    (h : call sqrt fn data pos kw st = .ok (out, st1)) :
    ∃ xs c s, vecOf data = some xs ∧ st1.center = some c ∧ st1.scale = some s ∧ st1.ddof.isSome ∧
      out = xs.map (applyStats c s) ∧
      ∀ (fn' : Fn) (data' : Data α) (pos' : List (Scale.Arg α)) (kw' : List (String × Scale.Arg α)),
        (∃ e, call sqrt' fn' data' pos' kw' st1 = .error e ∧ Raised e) ∨
        ∃ ys, vecOf data' = some ys ∧ call sqrt' fn' data' pos' kw' st1 = .ok (ys.map (applyStats c s), st1) := by
  obtain ⟨xs, ca, sa, dd, hvec, hrun⟩ := call_ok sqrt fn data pos kw st (out, st1) h
  obtain ⟨d, c, s, rfl, hs, rfl⟩ := run_state_complete sqrt xs ca sa dd st out st1 hrun
  exact ⟨xs, c, s, hvec, rfl, rfl, rfl, rfl, fun fn' data' pos' kw' => call_recorded sqrt' fn' data' pos' kw' d c s hs⟩

open ScaleEntry in
/-- non-vacuity of `entry_never_refits`: `standardize([1, 3])` as a one-column sparse matrix (population
variance 1, so `sqrt = id` is exact) succeeds; `center([5])` afterwards applies the recorded mean 2 and
scale 1; a three-column matrix and a misspelt keyword raise. -/
example : ∃ st, call (α := ℚ) id .standardize (.sparse [[1, 3]]) [] [] {} = .ok ([-1, 1], st) ∧
    call (α := ℚ) id .center (.dense [5]) [] [] st = .ok ([3], st) ∧
    call (α := ℚ) id .scale (.sparse [[1], [2], [3]]) [] [] st = .error .valueError ∧
    call (α := ℚ) id .scale (.dense [5]) [] [("rescale", .flag true)] st = .error (.bind .typeError) := by
  refine ⟨⟨some 0, some (some 2), some (some 1)⟩, ?_, ?_, ?_, ?_⟩ <;> decide +kernel

open ScaleEntry in
/-- C13.2f  A flag is a flag whichever boolean type carries it: through every entry point, in every
position (positional or keyword, any parameter), from every state, handing over a numpy boolean
(`numpy.bool_` scalar, 0-d boolean array — e.g. the result of `numpy.any(...)`) gives exactly the result
of handing over the Python `bool` of the same truth value; in particular it is never read as the NUMBER
1 / 0 (`Written.number`).  Together with `scale_unit_std` / `center_zero_mean` this is "zero mean and unit
standard deviation for all center/scale flags" for flags of either type. -/
theorem numpy_bool_is_flag (sqrt : α → α) (fn : Fn) (data : Data α) (pos : List (Written α))
    (kw : List (String × Written α)) (st : Scale.State α) :
    let py : Written α → Written α := fun a => match a with | .npBool b => .pyBool b | a => a
    callWritten sqrt fn data pos kw st
      = callWritten sqrt fn data (pos.map py) (kw.map fun (k, a) => (k, py a)) st := by
  intro py
  have h : ∀ a : Written α, (py a).toArg = a.toArg := by
    intro a; cases a <;> rfl
  simp only [callWritten, List.map_map]
  congr 1
  · exact List.map_congr_left fun a _ => (h a).symm
  · exact List.map_congr_left fun ⟨k, a⟩ _ => by simp [h a]

open ScaleEntry in
/-- non-vacuity / the two readings differ: `scale([1, 3], center=numpy.True_, scale=False)` centres at the
mean 2, whereas the NUMBER 1 as centre would give `[0, 2]`. -/
example : callWritten (α := ℚ) id .scale (.dense [1, 3]) [] [("center", .npBool true), ("scale", .pyBool false)] {}
      = .ok ([-1, 1], ⟨some 1, some (some 2), some none⟩) ∧
    callWritten (α := ℚ) id .scale (.dense [1, 3]) [] [("center", .number 1), ("scale", .pyBool false)] {}
      = .ok ([0, 2], ⟨some 1, some (some 1), some none⟩) := by
  constructor <;> decide +kernel

/-- C13.1f  `standardize(x)` over `ℝ` with the real square root: for every vector that is not constant,
the output has mean 0 and POPULATION standard deviation (`ddof = 0`, the default read from the live
signature) 1, and the mean and that standard deviation are what is recorded. -/
theorem standardize_unit_std_real (xs : List ℝ) (hvar : ∃ x ∈ xs, ∃ y ∈ xs, x ≠ y) :
    ∃ out, ScaleEntry.call Real.sqrt .standardize (.dense xs) [] [] {} =
        .ok (out, ⟨some 0, some (some (Spec.Real.mean xs)), some (some (Spec.Real.std 0 xs))⟩)
      ∧ Spec.Real.mean out = 0 ∧ Spec.Real.std 0 out = 1 := by
  obtain ⟨x, hx, _⟩ := id hvar
  have hpos : (0 : ℝ) < xs.length := by
    have := List.length_pos_of_mem hx
    exact_mod_cast this
  obtain ⟨out, hrun, hm, hsd⟩ := scale_unit_std_real xs 0 hpos hvar
  refine ⟨out, ?_, hm, hsd⟩
  rw [(entry_defaults Real.sqrt xs {} (.flag true)).2.2.1, hrun]; rfl

end scale

/-! ### the carrier the engine runs
The correspondence engine (`Engines/C13.lean`, core Lean only) instantiates the models with core's
`Rat` instances (left-hand sides).  These are definitionally the instances the theorems of this file
speak about when `α := ℚ` with Mathlib's field structure (right-hand sides). -/
example : @Scale.run ℚ Rat.instAdd Rat.instSub Rat.instMul Rat.instDiv Zero.ofOfNat0 Rat.instNatCast
    instDecidableEqRat = Scale.run (α := ℚ) := rfl
example : @Scale.center ℚ Rat.instAdd Rat.instSub Rat.instMul Rat.instDiv Zero.ofOfNat0 Rat.instNatCast
    instDecidableEqRat One.ofOfNat1 = Scale.center (α := ℚ) := rfl
example : @Poly.run ℚ Rat.instAdd Rat.instSub Rat.instMul Rat.instDiv Zero.ofOfNat0 One.ofOfNat1
    instDecidableEqRat = Poly.run (α := ℚ) := rfl

/-! ## 3. `poly` -/
section poly
variable {α : Type} [Field α] [DecidableEq α]

omit [DecidableEq α] in
/-- C13.3-general  The three-term recurrence yields an orthogonal family, for ANY symmetric bilinear
form `B` on a vector space and any operator `X` self-adjoint for `B` (induction on the degree).
`a k = B (X p_k) p_k / B p_k p_k` and `b (k+1) = B p_{k+1} p_{k+1} / B p_k p_k` enter division-free. -/
theorem three_term_orthogonal {V : Type} [AddCommGroup V] [Module α V]
    (B : V → V → α) (X : V → V)
    (hsymm : ∀ u v, B u v = B v u)
    (hadd : ∀ u v w, B (u + v) w = B u w + B v w)
    (hsmul : ∀ (c : α) u w, B (c • u) w = c * B u w)
    (hX : ∀ u v, B (X u) v = B u (X v))
    (p : ℕ → V) (a b : ℕ → α)
    (h1 : p 1 = X (p 0) - a 0 • p 0)
    (hrec : ∀ k, p (k + 2) = X (p (k + 1)) - a (k + 1) • p (k + 1) - b (k + 1) • p k)
    (n : ℕ)
    (ha : ∀ k < n, a k * B (p k) (p k) = B (X (p k)) (p k))
    (hb : ∀ k, k + 1 < n → b (k + 1) * B (p k) (p k) = B (p (k + 1)) (p (k + 1))) :
    ∀ i j, i ≤ n → j < i → B (p i) (p j) = 0 :=
  Proofs.ThreeTerm.orthogonal B X hsymm hadd hsmul hX p a b h1 hrec n ha hb

/-- C13.3a  The unnormalised columns `P[:, 0] = 1, P[:, 1], …, P[:, d]` the training loop builds on a
sample `x` (`pf x k` is the k-th polynomial, `nT x k = norms2[k]`) are pairwise orthogonal — in
particular each `P[:, k]`, `k ≥ 1`, is orthogonal to the constant — provided `norms2[k] ≠ 0` for `k < d`. -/
theorem poly_orthogonal (x : List α) (d : ℕ) (hn : ∀ k < d, nT x k ≠ 0) :
    ∀ i j, i ≤ d → j ≤ d → i ≠ j → dot (x.map (pf x i)) (x.map (pf x j)) = 0 := by
  intro i j hi hj hij
  rw [dot_map]
  rcases Nat.lt_or_gt_of_ne hij with h | h
  · rw [ip_symm]; exact pf_orthogonal x d hn j i hj h
  · exact pf_orthogonal x d hn i j hi h

/-- C13.3b  `poly(xs, d)` on a fresh state, for every vector (missing values allowed), every degree:
if `norms2[k] ≠ 0` for `k ≤ d` (computed on the non-missing values) and `sqrt` returns square roots
of them, the call succeeds with `d` columns, and on the non-missing rows the columns are orthonormal
(`⟨colᵢ, colⱼ⟩ = δᵢⱼ`) and each sums to 0 (orthogonal to the constant). -/
theorem poly_orthonormal (sqrt : α → α) (xs : List (Option α)) (d : ℕ)
    (hn : ∀ k ≤ d, nT xs.reduceOption k ≠ 0)
    (hsq : ∀ k ≤ d, sqrt (nT xs.reduceOption k) * sqrt (nT xs.reduceOption k) = nT xs.reduceOption k) :
    ∃ out st', Poly.run sqrt xs d false {} = .ok (out, st') ∧ out.length = d ∧
      ∀ (i j : ℕ) (u v : List (Option α)), out[i]? = some u → out[j]? = some v →
        dot u.reduceOption v.reduceOption = (if i = j then (1 : α) else 0) ∧ u.reduceOption.sum = 0 := by
  have hs : ∀ k ≤ d, sqrt (nT xs.reduceOption k) ≠ 0 := by
    intro k hk h0
    have := hsq k hk
    rw [h0, mul_zero] at this
    exact hn k hk this.symm
  refine ⟨_, _, run_training sqrt xs d hn hs, by simp, ?_⟩
  intro i j u v hu hv
  have horth := pf_orthogonal xs.reduceOption d (fun k hk => hn k (by omega))
  -- the two columns
  have col : ∀ (i : ℕ) (u : List (Option α)), ((List.range' 1 d).map (fun k => xs.map (Option.map
        (fun t => pf xs.reduceOption k t / sqrt (nT xs.reduceOption k)))))[i]? = some u →
      i < d ∧ u.reduceOption = xs.reduceOption.map
        (fun t => pf xs.reduceOption (i + 1) t / sqrt (nT xs.reduceOption (i + 1))) := by
    intro (i : ℕ) (u : List (Option α)) h
    rw [List.getElem?_map] at h
    rcases hi : (List.range' 1 d)[i]? with _ | k
    · rw [hi] at h; cases h
    · rw [hi] at h
      have hid : i < d := by
        by_contra hc
        have : (List.range' 1 d)[i]? = none := by simp; omega
        rw [this] at hi; cases hi
      have hk' : k = 1 + i := by
        have := List.getElem?_eq_some_iff.mp hi
        obtain ⟨hlt, he⟩ := this
        simpa using he.symm
      subst hk'
      simp only [Option.map_some, Option.some.injEq] at h
      subst h
      exact ⟨hid, by rw [reduceOption_map_map, Nat.add_comm]⟩
  obtain ⟨hi, eu⟩ := col i u hu
  obtain ⟨hj, ev⟩ := col j v hv
  rw [eu, ev, dot_map, ip_div, sum_map_eq_ip]
  constructor
  · by_cases hij : i = j
    · subst hij
      simp only [if_true]
      rw [hsq (i + 1) (by omega)]
      exact div_self (hn (i + 1) (by omega))
    · simp only [hij, if_false]
      have : ip xs.reduceOption (pf xs.reduceOption (i + 1)) (pf xs.reduceOption (j + 1)) = 0 := by
        rcases Nat.lt_or_gt_of_ne hij with h | h
        · rw [ip_symm]; exact horth (j + 1) (i + 1) (by omega) (by omega)
        · exact horth (i + 1) (j + 1) (by omega) (by omega)
      rw [this, zero_div]
  · have h0 := horth (i + 1) 0 (by omega) (by omega)
    have : ip xs.reduceOption (fun t => pf xs.reduceOption (i + 1) t / sqrt (nT xs.reduceOption (i + 1)))
        (fun _ => 1) = ip xs.reduceOption (pf xs.reduceOption (i + 1)) (pf xs.reduceOption 0)
          / (sqrt (nT xs.reduceOption (i + 1)) * 1) := by
      rw [← ip_div]; simp [pf]
    rw [this, h0, zero_div]

/-- non-vacuity of the hypotheses of `poly_orthonormal` at `ℚ`: on `[0, 1, 2]` the squared norms are
`norms2 = [3, 2, 2/3]`, all non-zero (three distinct values carry degree 2). -/
example : nT [(0 : ℚ), 1, 2] 0 = 3 ∧ nT [(0 : ℚ), 1, 2] 1 = 2 ∧ nT [(0 : ℚ), 1, 2] 2 = 2 / 3 := by
  refine ⟨?_, ?_, ?_⟩ <;> simp [nT, pf, ip, alphaF] <;> norm_num

/-- the hypothesis is not decoration: with two distinct values, `norms2[2] = 0` and the model
reports numpy's `0/0`. -/
example : Poly.run (α := ℚ) id [some 0, some 1, some 0] 2 false {} = .error .nonFinite := by decide +kernel

open Polynomial in
/-- C13.3c  Same span as the raw powers: the k-th polynomial of the recurrence is MONIC OF DEGREE k
(for every sample, no hypothesis), hence on the rows of the sample the columns
`[1, P₁, …, P_d]` span exactly the space spanned by `[1, x, …, x^d]` (triangular change of basis).
(Normalising the columns by non-zero scalars does not change the span.) -/
theorem poly_spans_powers (x : List α) (d : ℕ) :
    (∀ k, ∃ q : α[X], q.Monic ∧ q.natDegree = k ∧ ∀ t, pf x k t = q.eval t) ∧
    Submodule.span α ((fun k => fun i : Fin x.length => pf x k (x.get i)) '' {k | k < d + 1}) =
      Submodule.span α ((fun k => fun i : Fin x.length => x.get i ^ k) '' {k | k < d + 1}) := by
  have hq := recPolyP_monic_degree (aT x) (nT x)
  have he : ∀ k t, pf x k t = (recPolyP (aT x) (nT x) k).eval t := by
    intro k t; rw [pf_eq_recPoly, recPoly_eq_eval]
  refine ⟨fun k => ⟨_, (hq k).1, (hq k).2, he k⟩, ?_⟩
  rw [← span_eval_eq (fun i : Fin x.length => x.get i) _ hq (d + 1)]
  simp only [he]

/-- C13.3d  Missing values propagate row-wise and nothing else: for ANY successful call (orthogonal
or raw, training or replay), every output column is missing exactly at the rows where the input is
missing, and the recorded state and the non-missing rows are those obtained from the vector with
the missing entries removed. -/
theorem poly_nan_rowwise (sqrt : α → α) (xs : List (Option α)) (d : ℕ) (raw : Bool) (st : Poly.State α)
    (out : List (List (Option α))) (st' : Poly.State α)
    (h : Poly.run sqrt xs d raw st = .ok (out, st')) :
    (∀ col ∈ out, List.Forall₂ (fun o v => (o = none ↔ v = none)) xs col) ∧
    ∃ out', Poly.run sqrt (xs.reduceOption.map some) d raw st = .ok (out', st') ∧
      out'.map List.reduceOption = out.map List.reduceOption :=
  run_nan sqrt xs d raw st out st' h

/-- non-vacuity of `poly_nan_rowwise`: a successful call with a missing row -/
example : Poly.run (α := ℚ) id [some 0, none, some 2] 1 false {} =
    .ok ([[some (-1 / 2), none, some (1 / 2)]], ⟨some [1], some [2, 2]⟩) := by
  decide +kernel

/-- C13.3e  Recorded statistics are applied unchanged: a successful fit records a state `st'` such
that the fitted output AND the output for every follow-up vector `ys` (any degree `d' ≤ d`) are the
SAME functions `t ↦ P_k(t) / sqrt(norms2[k])` applied entry-wise (missing ↦ missing), and the
state is returned unchanged. -/
theorem poly_applies_recorded (sqrt : α → α) (xs : List (Option α)) (d : ℕ)
    (hn : ∀ k ≤ d, nT xs.reduceOption k ≠ 0)
    (hs : ∀ k ≤ d, sqrt (nT xs.reduceOption k) ≠ 0) :
    ∃ st' : Poly.State α,
      Poly.run sqrt xs d false {} = .ok ((List.range' 1 d).map (fun k => xs.map (Option.map
          (fun t => pf xs.reduceOption k t / sqrt (nT xs.reduceOption k)))), st') ∧
      ∀ (ys : List (Option α)) (d' : ℕ), d' ≤ d →
        Poly.run sqrt ys d' false st' = .ok ((List.range' 1 d').map (fun k => ys.map (Option.map
          (fun t => pf xs.reduceOption k t / sqrt (nT xs.reduceOption k)))), st') := by
  refine ⟨_, run_training sqrt xs d hn hs, ?_⟩
  intro ys d' hd'
  have ha : ∀ k < d, ((List.range' 0 d).map (aT xs.reduceOption)).getD k 0 = aT xs.reduceOption k :=
    fun k hk => getD_map_range' _ d k hk
  have hnn : ∀ k < d + 1, ((List.range' 0 (d + 1)).map (nT xs.reduceOption)).getD k 0 = nT xs.reduceOption k :=
    fun k hk => getD_map_range' _ (d + 1) k hk
  rw [run_recorded_poly sqrt ys d' _ _ (by simp; omega) (by simp; omega)
    (fun k hk => by rw [hnn k (by omega)]; exact hn k (by omega))
    (fun k hk => by rw [hnn k (by omega)]; exact hs k (by omega))]
  congr 2
  apply List.map_congr_left
  intro k hk
  have hk' : k ≤ d' := by have := List.mem_range'_1.mp hk; omega
  have e : recPoly (fun k => ((List.range' 0 d).map (aT xs.reduceOption)).getD k 0)
      (fun k => ((List.range' 0 (d + 1)).map (nT xs.reduceOption)).getD k 0) k = pf xs.reduceOption k := by
    rw [pf_eq_recPoly]
    exact recPoly_congr _ _ _ _ k (fun j hj => ha j (by omega)) (fun j hj => hnn j (by omega))
  rw [e, hnn k (by omega)]

/-- a degree that was never fitted cannot be replayed: the model raises `KeyError` like the code -/
example : Poly.run (α := ℚ) id [some 1, some 2] 2 false ⟨some [3], some [2, 5]⟩ = .error .keyError := by
  decide +kernel

/-- C13.3f  `raw=True`, every degree, every vector, every state: for `d ≥ 1` the result is exactly the
raw powers — column `k` (0-based) is `x ↦ x^(k+1)` entry-wise, a missing entry stays missing — and
the state is returned untouched (nothing is fitted, so follow-up data get the same powers); for
`d = 0` it is numpy's `ValueError` ("need at least one array to stack").  The columns ARE the raw
powers, so together with the constant they span the space of the raw powers `1, x, …, x^d`. -/
theorem poly_raw_powers (sqrt : α → α) (xs : List (Option α)) (d : ℕ) (st : Poly.State α) :
    Poly.run sqrt xs (d + 1) true st =
        .ok ((List.range (d + 1)).map (fun k => xs.map (Option.map (fun t => t ^ (k + 1)))), st) ∧
    Poly.run sqrt xs 0 true st = .error .valueError := by
  constructor
  · simp only [Poly.run, if_true, Nat.succ_ne_zero, if_false, pow_eq]
  · rfl

/-- C13.3g  Same span as the raw powers, for the columns `poly` RETURNS (normalised, orthogonal
branch), every degree: under the hypotheses of `poly_orthonormal`, output column `j` is
`q (j+1)` applied entry-wise with `q k t = P_k(t) / sqrt(norms2[k])`, and on the non-missing rows
the constant together with the `d` output columns spans exactly the space spanned by the raw powers
`1, x, …, x^d`. -/
theorem poly_output_spans_powers (sqrt : α → α) (xs : List (Option α)) (d : ℕ)
    (hn : ∀ k ≤ d, nT xs.reduceOption k ≠ 0)
    (hs : ∀ k ≤ d, sqrt (nT xs.reduceOption k) ≠ 0) :
    ∃ (st' : Poly.State α) (q : ℕ → α → α),
      Poly.run sqrt xs d false {} = .ok ((List.range' 1 d).map (fun k => xs.map (Option.map (q k))), st') ∧
      Submodule.span α ((fun k => if k = 0 then (fun _ : Fin xs.reduceOption.length => (1 : α))
          else fun i => q k (xs.reduceOption.get i)) '' {k | k < d + 1}) =
        Submodule.span α ((fun k => fun i : Fin xs.reduceOption.length => xs.reduceOption.get i ^ k) '' {k | k < d + 1}) := by
  refine ⟨_, fun k t => pf xs.reduceOption k t / sqrt (nT xs.reduceOption k), run_training sqrt xs d hn hs, ?_⟩
  rw [← (poly_spans_powers xs.reduceOption d).2]
  have h := span_rescale (ι := Fin xs.reduceOption.length)
    (fun k i => pf xs.reduceOption k (xs.reduceOption.get i)) (fun k => sqrt (nT xs.reduceOption k)) (d + 1)
    (fun k _ hk => hs k (by omega))
  simpa [pf] using h

/-- non-vacuity: the hypotheses are those of `poly_orthonormal` (see the example there: `[0, 1, 2]`,
degree 2, norms `3, 2, 2/3`); with a `sqrt` that is non-zero on them the call succeeds. -/
example : (match Poly.run (α := ℚ) (fun _ => 1) [some 0, some 1, some 2] 2 false {} with
    | .ok _ => true | .error _ => false) = true := by decide +kernel

/-- C13.3h  A missing value in the middle of the recurrence: inserting a missing entry at ANY position
`i` of ANY vector (first, last, between two values) changes nothing but that row — for every degree,
both branches, training or replay: the same state is recorded, the same error (if any) is raised, and
every output column is the former column with a missing entry inserted at position `i`. -/
theorem poly_nan_insert (sqrt : α → α) (xs : List (Option α)) (i : ℕ) (hi : i ≤ xs.length) (d : ℕ)
    (raw : Bool) (st : Poly.State α) :
    Poly.run sqrt (xs.insertIdx i none) d raw st =
      (Poly.run sqrt xs d raw st).map (fun r => (r.1.map (fun col => col.insertIdx i none), r.2)) :=
  run_insert_none sqrt xs i hi d raw st

/-- non-vacuity of `poly_nan_insert`: `[0, 2]` and `[0, nan, 2]` (degree 1) -/
example : Poly.run (α := ℚ) id [some 0, some 2] 1 false {} = .ok ([[some (-1 / 2), some (1 / 2)]], ⟨some [1], some [2, 2]⟩)
    ∧ ([some 0, some 2] : List (Option ℚ)).insertIdx 1 none = [some 0, none, some 2] := by
  constructor <;> decide +kernel

open PolyEntry in
/-- C13.3i  `poly` as a caller writes it (`Model/PolyEntry.lean`; signature read from the live function):
a successful call IS `Poly.run` at some degree and branch (so every theorem of this section applies to
it), the orthogonal branch names its columns `"1", …, str(degree)` and the raw branch gives none;
`poly(x)` is degree 1, orthogonal; a third positional argument, an unknown keyword, or `degree`
written twice is `TypeError`. -/
theorem poly_entry (sqrt : α → α) (xs : List (Option α)) (pos : List PArg) (kw : List (String × PArg))
    (st : Poly.State α) :
    (∀ r st', call sqrt xs pos kw st = .ok (r, st') →
      ∃ (d : ℕ) (raw : Bool), Poly.run sqrt xs d raw st = .ok (r.cols, st') ∧
        r.names = (if raw then none else some ((List.range' 1 d).map toString))) ∧
    (∀ r st', call sqrt xs [] [] st = .ok (r, st') ↔
      (Poly.run sqrt xs 1 false st = .ok (r.cols, st') ∧ r.names = some ["1"])) ∧
    (∀ a b c, call sqrt xs [a, b, c] kw st = .error (.bind .typeError)) ∧
    (∀ a, call sqrt xs pos [("deg", a)] st = .error (.bind .typeError)) ∧
    (∀ a b, call sqrt xs [a] [("degree", b)] st = .error (.bind .typeError)) := by
  have hres0 : resolve [] [] = .ok (.int 1, .flag false) := by decide
  refine ⟨?_, ?_, ?_, ?_, ?_⟩
  · intro r st' h
    simp only [call] at h
    split at h
    · cases h
    · rename_i dg rw _
      obtain ⟨_, _, hrun, hnames⟩ := (body_ok sqrt xs dg rw st r st').mp h
      exact ⟨_, _, hrun, by rw [hnames]; rfl⟩
  · intro r st'
    simp only [call, hres0]
    rw [body_ok]
    simp [intOf, truthy, isFlag, columnNames]
    intro _
    constructor <;> intro h <;> rw [h] <;> rfl
  · intro a b c
    simp [call, resolve, sig_poly, PyCall.bind, PyCall.bindPos]
  · intro a
    simp only [call, resolve, sig_poly, PyCall.bind, List.map]
    cases hb : PyCall.bindPos ["degree", "raw"] pos with
    | error e =>
      have : e = .typeError := by
        match pos, hb with
        | [], hb => simp [PyCall.bindPos] at hb
        | [_], hb => simp [PyCall.bindPos] at hb
        | [_, _], hb => simp [PyCall.bindPos] at hb
        | _ :: _ :: _ :: _, hb => simp [PyCall.bindPos] at hb; exact hb.symm
      rw [this]
    | ok b => simp [PyCall.bindKw]
  · intro a b
    simp [call, resolve, sig_poly, PyCall.bind, PyCall.bindPos, PyCall.bindKw, List.lookup]

/-- C13.3l  Never refit, with NO hypothesis on the data or on where the state came from: after ANY
successful orthogonal call (fresh, partial or recorded `_state`, any vector, any degree) both
dictionaries are recorded, and EVERY later call that succeeds — any data, any degree, either branch,
another `sqrt` — returns that state unchanged; on the orthogonal branch its column `k` is one fixed
function of the recorded `alpha`/`norms2` (the three-term recurrence with those coefficients, divided by
`sqrt(norms2[k])`) applied entry-wise to the new data, missing ↦ missing: nothing of the new data's
distribution enters.  (A call that cannot be served from the record — degree never fitted, zero norm —
raises / is non-finite; it never refits.) -/
theorem poly_never_refits (sqrt sqrt' : α → α) (xs : List (Option α)) (d : ℕ) (st : Poly.State α)
    (out : List (List (Option α))) (st1 : Poly.State α)
    (h : Poly.run sqrt xs d false st = .ok (out, st1)) :
    ∃ al nr, st1 = ⟨some al, some nr⟩ ∧
      ∀ (ys : List (Option α)) (d' : ℕ) (raw' : Bool) (out' : List (List (Option α))) (st2 : Poly.State α),
        Poly.run sqrt' ys d' raw' st1 = .ok (out', st2) →
          st2 = st1 ∧ (raw' = false → out' = (List.range' 1 d').map (fun k => ys.map (Option.map
            (fun t => recPoly (fun k => al.getD k 0) (fun k => nr.getD k 0) k t / sqrt' (nr.getD k 0))))) := by
  obtain ⟨al, nr, rfl⟩ := run_records sqrt xs d st out st1 h
  refine ⟨al, nr, rfl, ?_⟩
  intro ys d' raw' out' st2 h2
  cases raw' with
  | true =>
    refine ⟨?_, fun hc => absurd hc (by decide)⟩
    simp only [Poly.run, if_true] at h2
    split at h2
    · cases h2
    · cases h2; rfl
  | false =>
    obtain ⟨rfl, rfl⟩ := run_recorded_closed sqrt' ys d' al nr out' st2 h2
    exact ⟨rfl, fun _ => rfl⟩

/-- non-vacuity: a fit on `[0, 2]` (degree 1), then a replay on `[4, nan]` succeeds with the recorded
`alpha = [1]`, `norms2 = [2, 2]` -/
example : Poly.run (α := ℚ) id [some 0, some 2] 1 false {} = .ok ([[some (-1 / 2), some (1 / 2)]], ⟨some [1], some [2, 2]⟩) ∧
    Poly.run (α := ℚ) id [some 4, none] 1 false ⟨some [1], some [2, 2]⟩ =
      .ok ([[some (3 / 2), none]], ⟨some [1], some [2, 2]⟩) := by
  constructor <;> decide +kernel

end poly

/-! ### `poly` over `ℝ`: the hypotheses are a property of the data -/

/-- C13.3j  Over `ℝ` with the real square root, the hypotheses of `poly_orthonormal`,
`poly_output_spans_powers` and `poly_applies_recorded` (`norms2[k] ≠ 0`, `sqrt` is a non-zero square
root of it, for `k ≤ d`) hold for EVERY vector with more than `d` distinct non-missing values. -/
theorem poly_real_hypotheses (xs : List (Option ℝ)) (d : ℕ) (h : d < xs.reduceOption.toFinset.card) :
    (∀ k ≤ d, nT xs.reduceOption k ≠ 0) ∧
    (∀ k ≤ d, Real.sqrt (nT xs.reduceOption k) * Real.sqrt (nT xs.reduceOption k) = nT xs.reduceOption k) ∧
    (∀ k ≤ d, Real.sqrt (nT xs.reduceOption k) ≠ 0) := by
  have hp : ∀ k ≤ d, 0 < nT xs.reduceOption k := fun k hk => nT_pos_of_distinct _ k (by omega)
  exact ⟨fun k hk => (hp k hk).ne', fun k hk => Real.mul_self_sqrt (hp k hk).le,
    fun k hk => (Real.sqrt_pos.mpr (hp k hk)).ne'⟩

/-- C13.3k  The property as stated, over `ℝ`: for every real vector (missing values allowed) with more
than `d` distinct non-missing values, `poly(xs, d)` on a fresh state succeeds with `d` columns that, on
the non-missing rows, are orthonormal and each orthogonal to the constant. -/
theorem poly_orthonormal_real (xs : List (Option ℝ)) (d : ℕ) (h : d < xs.reduceOption.toFinset.card) :
    ∃ out st', Poly.run Real.sqrt xs d false {} = .ok (out, st') ∧ out.length = d ∧
      ∀ (i j : ℕ) (u v : List (Option ℝ)), out[i]? = some u → out[j]? = some v →
        dot u.reduceOption v.reduceOption = (if i = j then (1 : ℝ) else 0) ∧ u.reduceOption.sum = 0 :=
  poly_orthonormal Real.sqrt xs d (poly_real_hypotheses xs d h).1 (poly_real_hypotheses xs d h).2.1

/-- C13.3m  The condition is sharp: over `ℝ`, `poly(xs, d)` on a fresh state returns a (finite) value
EXACTLY when the vector has more than `d` distinct non-missing values; otherwise the model reports
numpy's `0/0` (with exactly `m` distinct values, `norms2[m] = 0`: the `m`-th polynomial vanishes on the
sample).  This is the criterion the correspondence applies to the implementation's `nan` outputs. -/
theorem poly_finite_iff_distinct (xs : List (Option ℝ)) (d : ℕ) :
    (∃ r, Poly.run Real.sqrt xs d false {} = .ok r) ↔ d < xs.reduceOption.toFinset.card := by
  constructor
  · rintro ⟨⟨out, st'⟩, h⟩
    by_contra hlt
    have hm : xs.reduceOption.toFinset.card ≤ d := by omega
    obtain ⟨q, hq⟩ := run_of_fit Real.sqrt xs d _ out st' h
    obtain ⟨_, h2⟩ := fit_training_ok Real.sqrt xs.reduceOption d none q st' hq
    have := h2 _ hm
    rw [nT_zero_at_card, Real.sqrt_zero] at this
    exact this rfl
  · intro h
    exact ⟨_, run_training Real.sqrt xs d (poly_real_hypotheses xs d h).1 (poly_real_hypotheses xs d h).2.2⟩

/-- non-vacuity: `[0, nan, 1, 2]` has three distinct non-missing values, enough for degree 2 -/
example : 2 < ([some 0, none, some 1, some 2] : List (Option ℝ)).reduceOption.toFinset.card := by
  have : ([some 0, none, some 1, some 2] : List (Option ℝ)).reduceOption = [0, 1, 2] := rfl
  rw [this]
  have h01 : (0 : ℝ) ≠ 1 := by norm_num
  have h02 : (0 : ℝ) ≠ 2 := by norm_num
  have h12 : (1 : ℝ) ≠ 2 := by norm_num
  simp [List.toFinset_cons, Finset.card_insert_of_notMem, h01, h02, h12]

/-! ## 4. the elementwise functions preloaded into every formula -/
section elementwise
open FormulaicVerif.Model.Elementwise FormulaicVerif.Spec.Real

/-- C13.4a  Each `exp*` is the inverse of its partner `log*` (as named by the model table), over `ℝ`:
`e (l x) = x` for `x > 0` and `l (e y) = y` for every `y`, for `(exp, log)`, `(exp2, log2)`, `(exp10, log10)`. -/
theorem exp_log_inverse (f : RealFn) (hf : f = .exp ∨ f = .exp2 ∨ f = .exp10) (x y : ℝ) (hx : 0 < x) :
    denote f (denote (partner f) x) = x ∧ denote (partner f) (denote f y) = y := by
  rcases hf with rfl | rfl | rfl
  · exact ⟨Real.exp_log hx, Real.log_exp y⟩
  · exact ⟨Real.rpow_logb (by norm_num) (by norm_num) hx, Real.logb_rpow (by norm_num) (by norm_num)⟩
  · exact ⟨Real.rpow_logb (by norm_num) (by norm_num) hx, Real.logb_rpow (by norm_num) (by norm_num)⟩

/-- C13.4b  The name `exp10` denotes `x ↦ 10 ^ x` (real power; at naturals the ordinary power). -/
theorem exp10_def (x : ℝ) :
    Elementwise.lookup "exp10" = some .exp10 ∧ denote .exp10 x = (10 : ℝ) ^ x ∧
      ∀ n : ℕ, denote .exp10 (n : ℝ) = (10 : ℝ) ^ n := by
  refine ⟨by decide, rfl, fun n => ?_⟩
  show (10 : ℝ) ^ (n : ℝ) = _
  exact Real.rpow_natCast 10 n

/-- C13.4c  The executable table of exact values that the correspondence compares the real code with
is sound for the real functions: whenever `exactAt f k = (p, v)`, the function named `f` takes the
value `v` at `p` — for every probe index `k` (not only the ones the harness uses). -/
theorem exactAt_sound (f : RealFn) (k : ℤ) (p v : ℚ) (h : exactAt f k = some (p, v)) :
    denote f (p : ℝ) = (v : ℝ) :=
  exactAt_sound' f k p v h

/-- C13.4d  (finite table, decided) Every name of the model table is a key of the live `TRANSFORMS`
(`Gen/Names.lean` is regenerated from the package on every run), and the table is closed under
`partner`. -/
theorem table_names_live :
    (∀ p ∈ Elementwise.table, p.1 ∈ Gen.transformNames) ∧
    (∀ p ∈ Elementwise.table, ∃ q ∈ Elementwise.table, q.2 = partner p.2) := by
  decide

/-- non-vacuity of `exactAt_sound`: `exp10` at `3` is `1000`, `log2` at `1/4` is `-2` -/
example : exactAt .exp10 3 = some (3, 1000) ∧ exactAt .log2 (-2) = some (1 / 4, -2) := by
  constructor <;> decide +kernel

/-- C13.4e  (finite table, decided against `Gen/TransformTable.lean`, which is regenerated from the live
package on every run) Every preloaded name meets its stated contract (`Model/Preloaded.lean`): `np` is the
numpy module; `log`, `log10`, `log2`, `exp`, `exp2` ARE numpy's ufuncs of those names
(`TRANSFORMS["log"] is numpy.log`), so they act on every container and dtype as numpy does; `exp10` is a
callable that returned exactly `10**k` on every probe of the translator; `scale`, `center`, `poly`,
`standardize` (and `bs`, `cc`, `cr`, `cs`, `Q`) carry the marker that makes `stateful_eval` hand them
their recorded state; `I` returns its argument itself; `Treatment(r)` equals `TreatmentContrasts(base=r)`;
`Poly`/`Sum`/`Helmert`/`Diff`/`contr` are the contrast classes of those names. -/
theorem preloaded_contracts :
    ∀ p ∈ Preloaded.contracts, ∃ row, Preloaded.live p.1 = some row ∧ Preloaded.meets p.2 row = true := by
  decide

/-- C13.4f  (decided) The real function the model table assigns to each elementwise NAME is the function
the LIVE OBJECT stored under that name computes, read off what the object is (numpy's ufunc of that name /
the probed power of ten) — so `exp_log_inverse`, `exp10_def` and `exactAt_sound` speak about the functions
the formula namespace really holds. -/
theorem elementwise_identity :
    ∀ p ∈ Elementwise.table, Preloaded.liveRealFn p.1 = some p.2 := by
  decide

/-- every contract of the table is about a live key, and 26 names are covered (all keys of `TRANSFORMS` at
the time of writing; a key added later has no contract until one is written) -/
example : Preloaded.contracts.length = 26 ∧ ∀ p ∈ Preloaded.contracts, p.1 ∈ Gen.transformNames := by decide

end elementwise

/-! ## 5. the remaining shims: `Q`, `Treatment`, `I` -/
section shims
open FormulaicVerif.Model.PatsyCompat

/-- C13.5a  `Q("name")` inside a formula is the DATA column of that name — for every data set, every
calling context and every name (spaces, dots, names of transforms, names also bound in the context):
in the environment a materializer evaluates factors in, `Q` returns what the data layer binds the name
to, and `KeyError` when the data have no such column, whatever the context or the transforms bind.
Outside a formula (`_context=None`, or an environment without a layer named `data`) it is
`AttributeError`. -/
theorem Q_reads_data_layer {ν : Type} (data ctx tr : List (String × ν)) (name : String) :
    Q name (some (materializerEnv data ctx tr)) =
        (match data.lookup name with
         | some v => .ok v
         | none => .error .keyError) ∧
    Q name (none : Option (LMap.Layer ν)) = .error .attributeError ∧
    Q name (some (.lm none [] [.dict data])) = .error .attributeError := by
  refine ⟨?_, ?_, ?_⟩
  · simp only [Q, materializerEnv, findNamed, directNamed, nestedNamed, LMap.named]
    simp [LMap.Layer.get, LMap.getL]
    cases data.lookup name <;> simp
  · rfl
  · simp [Q, findNamed, directNamed, nestedNamed, LMap.named]

/-- non-vacuity: a column `my var` shadowed by a context entry of the same name -/
example : Q "my var" (some (materializerEnv [("x", 1), ("my var", 2)] [("my var", 3)] [("log", 4)])) = .ok 2 := by
  decide

open FormulaicVerif.Model.Contrasts in
/-- C13.5b  `Treatment(reference)` IS treatment coding with that base (`TreatmentContrasts(base=reference)`):
for every list of levels, the reduced-rank coding drops exactly the column of the reference level (the
first level when no reference is given) and keeps the others in order; a reference that is no level is
`ValueError`. -/
theorem Treatment_is_treatment_base (levels : List Label) (ref : Label) :
    Treatment (some ref) = Contrast.treatment (some ref) ∧ Treatment none = Contrast.treatment none ∧
    (∀ i, indexOf? ref levels = some i →
      codingColumnNames (Treatment (some ref)) levels true = .ok (levels.eraseIdx i) ∧
      codingColumnNames (Treatment (some ref)) levels false = .ok levels) ∧
    (indexOf? ref levels = none → ∀ reduced,
      codingColumnNames (Treatment (some ref)) levels reduced = .error .baseNotInLevels) ∧
    codingColumnNames (Treatment none) levels true = .ok (levels.eraseIdx 0) := by
  refine ⟨rfl, rfl, ?_, ?_, ?_⟩
  · intro i h
    simp [Treatment, codingColumnNames, findBaseIndex, h, bind, Except.bind, pure, Except.pure]
  · intro h reduced
    simp [Treatment, codingColumnNames, findBaseIndex, h, bind, Except.bind]
  · simp [Treatment, codingColumnNames, findBaseIndex, bind, Except.bind, pure, Except.pure]

/-- non-vacuity: levels `a, b, c` with reference `b` -/
example : Contrasts.indexOf? (.str "b") [.str "a", .str "b", .str "c"] = some 1 := by decide

/-- C13.5c  `I(x)` is `x`. -/
theorem identity_id {β : Type} (x : β) : identity x = x := rfl

end shims

/-! ## 6. the key under which the library keeps the recorded statistics

"… all of them apply the recorded statistics unchanged to new data": through a formula the statistics are
kept by the library, in `ModelSpec.transform_state`, under a KEY computed from the call (`stateful_eval`).
A column whose name is not a plain identifier (`` scale(`class`) ``, `` center(`a b`) ``, a name that NFKC
normalisation changes) is evaluated under a stand-in identifier chosen by looking at the OTHER names of the
data set and the context; the key must not inherit that dependence, or follow-up data that merely contain
an unused column `class_1` / `a_b` would be re-fitted. -/
section key
open FormulaicVerif.Model.PyAlias FormulaicVerif.Model.TransformKey FormulaicVerif.Proofs.C13Key
open FormulaicVerif.Proofs.C15Alias (AsciiIdent)

/-- C13.6a  **the key is the call as the user wrote it.**  For an expression `t1 ++ "`name`" ++ t2` with one
back-quoted column name (ANY name: keyword, non-identifier, NFKC-unstable identifier, plain identifier),
a call node whose unparsed text is `pre ++ stand-in ++ post` — the stand-in between non-word characters,
the unparser printing no word that the source does not contain — and ANY environment `env` (the columns
of the data set, the context): the key is `pre ++ name-as-written ++ post`, where the name is written as it
is when Python reads it back unchanged and between back-quotes otherwise.  The stand-in `a` (second
component) does depend on `env`; the key does not mention it.
Hypotheses on CPython's parameters: ASCII identifiers are identifiers (`ident`), ASCII word characters
are word characters (`word`). -/
theorem state_key_of_call (py : Py) (hident : ∀ a, AsciiIdent a → py.ident a = true)
    (hword : ∀ c, asciiWord c = true → py.word c = true)
    (env : List (List Char)) (expr t1 name t2 pre post : List Char)
    (hsplit : split expr = [.text t1, .name name, .text t2])
    (hfmt : ∀ w, w ∈ runs py.word pre ++ runs py.word post → w ∈ PyAlias.words t1 ++ PyAlias.words t2)
    (hpre : EndsNonword py.word pre) (hpost : StartsNonword py.word post) :
    ∃ a, stateKey py env expr name pre post = some (pre ++ writtenName py name ++ post, a) := by
  obtain ⟨a, copy, hs, s1, added, hn⟩ :=
    sanitizeNames_one { pre := [], ident := py.ident } py.isSpace env expr t1 name t2 hsplit
  refine ⟨a, ?_⟩
  unfold stateKey
  simp only [hn, standIn_single]
  congr 2
  by_cases hc : (py.ident name && !isKeyword name) = true
  · -- the name is usable as it is: it is its own stand-in and nothing is substituted
    have ha : a = name := by
      unfold sanitizeName at hs
      have : (([] : List Char).isEmpty && py.ident name && !isKeyword name && getOr [] name name) = true := by
        simp only [Bool.and_eq_true] at hc
        simp [getOr, lookup, hc.1, hc.2]
      rw [if_pos this] at hs
      exact ((by simpa using hs.symm : a = name ∧ copy = false)).1
    subst ha
    simp [restoreKey_single_same, writtenName, hc]
  · -- a stand-in was chosen: an ASCII identifier, no keyword, no word of the source
    have hc' : (py.ident name && !isKeyword name) = false := by simpa using hc
    rcases FormulaicVerif.Proofs.C15Alias.sanitizeName_spec _ _ name a copy ⟨by simp, by simp⟩ hs with h | ⟨hid, ht⟩
    · have h1 : py.ident name = true := h.2.2.1
      exact absurd (by simp [h1, h.2.2.2.1]) hc
    · obtain ⟨_, hkw, hres⟩ := FormulaicVerif.Proofs.C15Alias.taken_false ht
      have hne : name ≠ a := by
        intro e
        subst e
        exact hc (by simp [hident _ hid, hkw])
      have hnot : ∀ w, w ∈ runs py.word pre ++ runs py.word post → a ≠ w := by
        intro w hw e
        subst e
        have := hfmt _ hw
        simp only [List.contains_eq_mem, decide_eq_false_iff_not] at hres
        exact hres this
      rw [restoreKey_single _ _ _ _ hne,
        replaceWord_middle py.word a _ pre post hid.1 (fun c hcm => hword c (hid.2.1 c hcm)) hpre hpost
          (fun h => hnot _ (List.mem_append_left _ h) rfl) (fun h => hnot _ (List.mem_append_right _ h) rfl)]
      simp [writtenName, hc']

/-- C13.6b  **the key ignores what else the data contain**: two data sets / contexts with ANY other names
give the same key for the same call — so the statistics recorded on the first are found again on the
second. -/
theorem state_key_ignores_other_columns (py : Py) (hident : ∀ a, AsciiIdent a → py.ident a = true)
    (hword : ∀ c, asciiWord c = true → py.word c = true)
    (env env' : List (List Char)) (expr t1 name t2 pre post : List Char)
    (hsplit : split expr = [.text t1, .name name, .text t2])
    (hfmt : ∀ w, w ∈ runs py.word pre ++ runs py.word post → w ∈ PyAlias.words t1 ++ PyAlias.words t2)
    (hpre : EndsNonword py.word pre) (hpost : StartsNonword py.word post) :
    (stateKey py env expr name pre post).map (·.1) = (stateKey py env' expr name pre post).map (·.1) := by
  obtain ⟨a, h⟩ := state_key_of_call py hident hword env expr t1 name t2 pre post hsplit hfmt hpre hpost
  obtain ⟨a', h'⟩ := state_key_of_call py hident hword env' expr t1 name t2 pre post hsplit hfmt hpre hpost
  rw [h, h']
  rfl

/-- non-vacuity: `` scale(`class`) `` splits into text, name, text -/
example : split "scale(`class`)".toList = [.text "scale(".toList, .name "class".toList, .text ")".toList] := by
  decide

/-- non-vacuity (hypotheses `hpre`, `hpost`, `hfmt` for `pre = "scale("`, `post = ")"`) -/
example : EndsNonword asciiWord "scale(".toList ∧ StartsNonword asciiWord ")".toList ∧
    (∀ w, w ∈ runs asciiWord "scale(".toList ++ runs asciiWord ")".toList →
      w ∈ PyAlias.words "scale(".toList ++ PyAlias.words ")".toList) := by
  refine ⟨.inr ⟨"scale".toList, '(', by decide, by decide⟩, .inr ⟨')', [], by decide, by decide⟩, ?_⟩
  decide

/-- non-vacuity / the dependence that the key must not inherit: on data without other columns the keyword
column `class` is evaluated as `class_1`; on data that also have an (unused) column `class_1`, as `class_2`;
the key is `` scale(`class`) `` both times -/
example :
    stateKey asciiPy [] "scale(`class`)".toList "class".toList "scale(".toList ")".toList
      = some ("scale(`class`)".toList, "class_1".toList) ∧
    stateKey asciiPy ["class_1".toList, "x".toList] "scale(`class`)".toList "class".toList "scale(".toList ")".toList
      = some ("scale(`class`)".toList, "class_2".toList) := by
  decide

end key

end FormulaicVerif.Props.C13
