import FormulaicVerif.Proofs.C13Scale
import FormulaicVerif.Proofs.C13Aux
import FormulaicVerif.Proofs.C13Elem
import FormulaicVerif.Gen.Names
/-! # C13 — Scaling, polynomial and elementwise transforms meet their numeric contracts

Property theorems only; helper lemmas are in `Proofs/C13*.lean` and `Proofs/ThreeTerm.lean`.

The models (`Model/Scale.lean`, `Model/Poly.lean`) are written once for any carrier with the
arithmetic notation classes; the engine of the correspondence runs them at `Rat`, the theorems
below instantiate the SAME definitions at an arbitrary field `α` (so in particular at `ℚ`, see the
examples) and at `ℝ`.  `numpy.sqrt` is the parameter `sqrt`; what is assumed of it is stated as a
hypothesis each time (`sqrt v * sqrt v = v` at the one value it is applied to). -/

namespace FormulaicVerif.Props.C13
open FormulaicVerif.Model FormulaicVerif.Proofs.C13

/-! ## 1. `center`, `scale`, `standardize` on the data they are fitted on -/
section scale
variable {α : Type} [Field α] [DecidableEq α]

/-- C13.1a  `center` on a fresh state records the mean (and `scale = None`, `ddof = 1`) and returns
the data minus their mean, which have mean 0 — for every non-empty vector. -/
theorem center_zero_mean [CharZero α] (sqrt : α → α) (xs : List α) (hne : xs ≠ []) :
    ∃ out, Scale.center sqrt xs {} = .ok (out, ⟨some 1, some (some (Scale.mean xs)), some none⟩)
      ∧ out = xs.map (fun x => x - Scale.mean xs) ∧ Scale.mean out = 0 := by
  refine ⟨_, ?_, rfl, mean_center xs hne⟩
  simp [Scale.center, Scale.run, Scale.resolveDdof, Scale.resolveCenter, Scale.resolveScale,
    Scale.applyCenter, Scale.applyScale]

/-- C13.1b  `scale`/`standardize` with `center=True` on a fresh state: whatever the `scale` argument
(flag or number) and `ddof`, a call that does not divide by zero returns data with mean 0 and records
the mean of the input. -/
theorem scale_zero_mean [CharZero α] (sqrt : α → α) (xs : List α) (hne : xs ≠ []) (sa : Scale.Arg α)
    (ddof : α) (out : List α) (st : Scale.State α)
    (h : Scale.run sqrt xs (.flag true) sa ddof {} = .ok (out, st)) :
    Scale.mean out = 0 ∧ st.center = some (some (Scale.mean xs)) := by
  obtain ⟨d, c, s, rfl, hs, rfl⟩ := run_state_complete sqrt xs _ sa ddof {} out st h
  simp only [Scale.run, Scale.resolveCenter] at h
  split at h
  · cases h
  · split at h
    · cases h
    · cases h
      refine ⟨?_, rfl⟩
      cases s with
      | none => simpa [applyStats_some_none] using mean_center xs hne
      | some s =>
        have : xs.map (applyStats (some (Scale.mean xs)) (some s))
            = (xs.map (fun x => x - Scale.mean xs)).map (fun x => x / s) := by
          simp [applyStats_some_some, List.map_map, Function.comp_def]
        rw [this, mean_div, mean_center xs hne, zero_div]

/-- the variance (for `ddof`) that `numpy.sqrt` is applied to when `scale` fits on `xs` -/
def fitVar (xs : List α) (ddof : α) : α :=
  Scale.sumSq (xs.map (fun x => x - Scale.mean xs)) / ((xs.length : α) - ddof)

/-- C13.1c  `scale(xs, ddof=ddof)` (and `standardize`, which is the same function with another
default) on a fresh state, over any field of characteristic 0: if the variance is non-zero (so in
particular `ddof ≠ n`) and `sqrt` returns a square root of it, then the call succeeds, records
`center = mean`, `scale = sqrt(var)`, `ddof`, and the output has mean 0 and variance (for `ddof`) 1. -/
theorem scale_unit_std [CharZero α] (sqrt : α → α) (xs : List α) (hne : xs ≠ []) (ddof : α)
    (hvar : fitVar xs ddof ≠ 0)
    (hsqrt : sqrt (fitVar xs ddof) * sqrt (fitVar xs ddof) = fitVar xs ddof) :
    ∃ out, Scale.run sqrt xs (.flag true) (.flag true) ddof {} =
        .ok (out, ⟨some ddof, some (some (Scale.mean xs)), some (some (sqrt (fitVar xs ddof)))⟩)
      ∧ Scale.mean out = 0
      ∧ Scale.sumSq (out.map (fun y => y - Scale.mean out)) / ((out.length : α) - ddof) = 1 := by
  have hdof : (xs.length : α) - ddof ≠ 0 := by
    intro h0; apply hvar; simp [fitVar, h0]
  have hss : Scale.sumSq (xs.map (fun x => x - Scale.mean xs)) ≠ 0 := by
    intro h0; apply hvar; simp [fitVar, h0]
  have hs : sqrt (fitVar xs ddof) ≠ 0 := by
    intro h0; rw [h0, mul_zero] at hsqrt; exact hvar hsqrt.symm
  have hm : Scale.mean ((xs.map (fun x => x - Scale.mean xs)).map (fun x => x / sqrt (fitVar xs ddof))) = 0 := by
    rw [mean_div, mean_center xs hne, zero_div]
  refine ⟨(xs.map (fun x => x - Scale.mean xs)).map (fun x => x / sqrt (fitVar xs ddof)), ?_, hm, ?_⟩
  · have hs' : sqrt (Scale.sumSq (xs.map (fun x => x - Scale.mean xs)) / ((xs.length : α) - ddof)) ≠ 0 := hs
    simp [Scale.run, Scale.resolveDdof, Scale.resolveCenter, Scale.resolveScale, Scale.applyCenter,
      Scale.applyScale, hdof, hs', fitVar]
  · rw [hm]
    simp only [sub_zero, List.map_id', List.length_map]
    rw [sumSq_div, hsqrt, fitVar]
    field_simp

/-- C13.1d  The same over `ℝ` with the real square root, against the reference statistics of
`Spec/Real.lean`: for every vector that is not constant and every `ddof < n`, `scale` records the
mean and the standard deviation and returns data with mean 0 and standard deviation 1. -/
theorem scale_unit_std_real (xs : List ℝ) (ddof : ℝ) (hdof : ddof < xs.length)
    (hvar : ∃ x ∈ xs, ∃ y ∈ xs, x ≠ y) :
    ∃ out, Scale.run Real.sqrt xs (.flag true) (.flag true) ddof {} =
        .ok (out, ⟨some ddof, some (some (Spec.Real.mean xs)), some (some (Spec.Real.std ddof xs))⟩)
      ∧ Spec.Real.mean out = 0 ∧ Spec.Real.std ddof out = 1 := by
  obtain ⟨x, hx, y, hy, hxy⟩ := hvar
  have hne : xs ≠ [] := List.ne_nil_of_mem hx
  have hex : ∃ z ∈ xs.map (fun x => x - Scale.mean xs), z ≠ 0 := by
    by_cases h : x = Scale.mean xs
    · exact ⟨y - Scale.mean xs, List.mem_map.mpr ⟨y, hy, rfl⟩, sub_ne_zero.mpr (fun e => hxy (h.trans e.symm))⟩
    · exact ⟨x - Scale.mean xs, List.mem_map.mpr ⟨x, hx, rfl⟩, sub_ne_zero.mpr h⟩
  have hpos : 0 < fitVar xs ddof := div_pos (sumSq_pos _ hex) (sub_pos.mpr hdof)
  obtain ⟨out, hrun, hm, hsd⟩ := scale_unit_std Real.sqrt xs hne ddof hpos.ne' (Real.mul_self_sqrt hpos.le)
  refine ⟨out, ?_, hm, ?_⟩
  · rw [hrun, spec_std_eq]; rfl
  · rw [spec_std_eq, hsd, Real.sqrt_one]

/-- non-vacuity of the hypotheses of `scale_unit_std` at `ℚ` (the carrier the engine runs):
`xs = [1, 3]`, `ddof = 1`: variance 2·1²/1 … here `[0, 2, 4, 6]`, `ddof = 0`: mean 3, variance 5 — not
a rational square; `[1, 3]` with `ddof = 0` has variance 1 and `sqrt = id` is a square root of it. -/
example : fitVar [(1 : ℚ), 3] 0 = 1 ∧ fitVar [(1 : ℚ), 3] 0 ≠ 0 ∧
    (id (fitVar [(1 : ℚ), 3] 0) * id (fitVar [(1 : ℚ), 3] 0) = fitVar [(1 : ℚ), 3] 0) := by
  have h : fitVar [(1 : ℚ), 3] 0 = 1 := by
    simp only [fitVar, Scale.sumSq, Scale.mean, List.map_cons, List.map_nil, List.sum_cons,
      List.sum_nil, List.length_cons, List.length_nil]
    norm_num
  rw [h]; norm_num

/-- non-vacuity of `scale_unit_std_real`: `[1, 3]` is not constant and `1 < 2`. -/
example : ((1 : ℝ) < ([1, 3] : List ℝ).length) ∧ ∃ x ∈ ([1, 3] : List ℝ), ∃ y ∈ ([1, 3] : List ℝ), x ≠ y :=
  ⟨by norm_num, 1, by simp, 3, by simp, by norm_num⟩

/-- the hypothesis `var ≠ 0` is not decoration: a constant vector makes the model report numpy's `0/0`. -/
example : Scale.run (α := ℚ) id [2, 2] (.flag true) (.flag true) 1 {} = .error .nonFinite := by
  simp [Scale.run, Scale.resolveDdof, Scale.resolveCenter, Scale.resolveScale, Scale.applyCenter,
    Scale.applyScale, Scale.mean, Scale.sumSq]
  norm_num

/-! ## 2. recorded statistics are applied unchanged to new data -/

/-- C13.2a  With `center = c`, `scale = s ≠ 0` (and `ddof`) recorded, `scale` maps every new vector
through `y ↦ (y - c) / s` and leaves the state as it is — whatever `center`, `scale`, `ddof`
arguments are passed, and whatever the statistics of the new data are. -/
theorem scale_applies_recorded (sqrt : α → α) (ys : List α) (ca sa : Scale.Arg α) (dd d c s : α)
    (hs : s ≠ 0) :
    Scale.run sqrt ys ca sa dd ⟨some d, some (some c), some (some s)⟩ =
      .ok (ys.map (fun y => (y - c) / s), ⟨some d, some (some c), some (some s)⟩) := by
  rw [run_recorded sqrt ys ca sa dd d (some c) (some s) (by simpa using hs), applyStats_some_some]

/-- C13.2b  Never refit: after ANY successful call (any starting state — empty, partial or complete —
any arguments, any data), all three statistics are recorded, the output of that call is the recorded
map applied to its input, and every later call, with any data, arguments and `sqrt`, applies the
same recorded map and returns the same state.  (`center` and `standardize` are instances of `run`.) -/
theorem scale_never_refits (sqrt sqrt' : α → α) (xs : List α) (ca sa : Scale.Arg α) (dd : α)
    (st : Scale.State α) (out : List α) (st1 : Scale.State α)
    (h : Scale.run sqrt xs ca sa dd st = .ok (out, st1)) :
    ∃ c s, st1.center = some c ∧ st1.scale = some s ∧ st1.ddof.isSome ∧ out = xs.map (applyStats c s) ∧
      ∀ (ys : List α) (ca' sa' : Scale.Arg α) (dd' : α),
        Scale.run sqrt' ys ca' sa' dd' st1 = .ok (ys.map (applyStats c s), st1) := by
  obtain ⟨d, c, s, rfl, hs, rfl⟩ := run_state_complete sqrt xs ca sa dd st out st1 h
  exact ⟨c, s, rfl, rfl, rfl, rfl, fun ys ca' sa' dd' => run_recorded sqrt' ys ca' sa' dd' d c s hs⟩

/-- non-vacuity: a fit on `[1, 3]` (ddof 0, `sqrt = id` is exact there) succeeds, and the follow-up
`[5]` is mapped with the recorded mean 2 and scale 1. -/
example : ∃ st, Scale.run (α := ℚ) id [1, 3] (.flag true) (.flag true) 0 {} = .ok ([-1, 1], st) ∧
    Scale.run (α := ℚ) id [5] (.flag false) (.value 7) 3 st = .ok ([3], st) := by
  refine ⟨⟨some 0, some (some 2), some (some 1)⟩, ?_, ?_⟩ <;>
  · simp [Scale.run, Scale.resolveDdof, Scale.resolveCenter, Scale.resolveScale, Scale.applyCenter,
      Scale.applyScale, Scale.mean, Scale.sumSq]
    try norm_num

/-- `standardize` IS `scale` (other defaults only), so every theorem of this section is also a theorem
about `standardize`. -/
example (sqrt : α → α) (xs : List α) (c s : Scale.Arg α) (d : α) (st : Scale.State α) :
    Scale.standardize sqrt xs c s d st = Scale.run sqrt xs c s d st := rfl

end scale

/-! ### the carrier the engine runs
The correspondence engine (`Engines/C13.lean`, core Lean only) instantiates the models with core's
`Rat` instances (left-hand sides).  These are definitionally the instances the theorems of this file
speak about when `α := ℚ` with Mathlib's field structure (right-hand sides). -/
example : @Scale.run ℚ Rat.instAdd Rat.instSub Rat.instMul Rat.instDiv Zero.ofOfNat0 Rat.instNatCast
    instDecidableEqRat = Scale.run (α := ℚ) := rfl
example : @Scale.center ℚ Rat.instAdd Rat.instSub Rat.instMul Rat.instDiv Zero.ofOfNat0 Rat.instNatCast
    instDecidableEqRat One.ofOfNat1 = Scale.center (α := ℚ) := rfl
example : @Poly.run ℚ Rat.instAdd Rat.instSub Rat.instMul Rat.instDiv Zero.ofOfNat0 One.ofOfNat1
    instDecidableEqRat = Poly.run (α := ℚ) := rfl

/-! ## 3. `poly` -/
section poly
variable {α : Type} [Field α] [DecidableEq α]

omit [DecidableEq α] in
/-- C13.3-general  The three-term recurrence yields an orthogonal family, for ANY symmetric bilinear
form `B` on a vector space and any operator `X` self-adjoint for `B` (induction on the degree).
`a k = B (X p_k) p_k / B p_k p_k` and `b (k+1) = B p_{k+1} p_{k+1} / B p_k p_k` enter division-free. -/
theorem three_term_orthogonal {V : Type} [AddCommGroup V] [Module α V]
    (B : V → V → α) (X : V → V)
    (hsymm : ∀ u v, B u v = B v u)
    (hadd : ∀ u v w, B (u + v) w = B u w + B v w)
    (hsmul : ∀ (c : α) u w, B (c • u) w = c * B u w)
    (hX : ∀ u v, B (X u) v = B u (X v))
    (p : ℕ → V) (a b : ℕ → α)
    (h1 : p 1 = X (p 0) - a 0 • p 0)
    (hrec : ∀ k, p (k + 2) = X (p (k + 1)) - a (k + 1) • p (k + 1) - b (k + 1) • p k)
    (n : ℕ)
    (ha : ∀ k < n, a k * B (p k) (p k) = B (X (p k)) (p k))
    (hb : ∀ k, k + 1 < n → b (k + 1) * B (p k) (p k) = B (p (k + 1)) (p (k + 1))) :
    ∀ i j, i ≤ n → j < i → B (p i) (p j) = 0 :=
  Proofs.ThreeTerm.orthogonal B X hsymm hadd hsmul hX p a b h1 hrec n ha hb

/-- C13.3a  The unnormalised columns `P[:, 0] = 1, P[:, 1], …, P[:, d]` the training loop builds on a
sample `x` (`pf x k` is the k-th polynomial, `nT x k = norms2[k]`) are pairwise orthogonal — in
particular each `P[:, k]`, `k ≥ 1`, is orthogonal to the constant — provided `norms2[k] ≠ 0` for `k < d`. -/
theorem poly_orthogonal (x : List α) (d : ℕ) (hn : ∀ k < d, nT x k ≠ 0) :
    ∀ i j, i ≤ d → j ≤ d → i ≠ j → dot (x.map (pf x i)) (x.map (pf x j)) = 0 := by
  intro i j hi hj hij
  rw [dot_map]
  rcases Nat.lt_or_gt_of_ne hij with h | h
  · rw [ip_symm]; exact pf_orthogonal x d hn j i hj h
  · exact pf_orthogonal x d hn i j hi h

/-- C13.3b  `poly(xs, d)` on a fresh state, for every vector (missing values allowed), every degree:
if `norms2[k] ≠ 0` for `k ≤ d` (computed on the non-missing values) and `sqrt` returns square roots
of them, the call succeeds with `d` columns, and on the non-missing rows the columns are orthonormal
(`⟨colᵢ, colⱼ⟩ = δᵢⱼ`) and each sums to 0 (orthogonal to the constant). -/
theorem poly_orthonormal (sqrt : α → α) (xs : List (Option α)) (d : ℕ)
    (hn : ∀ k ≤ d, nT xs.reduceOption k ≠ 0)
    (hsq : ∀ k ≤ d, sqrt (nT xs.reduceOption k) * sqrt (nT xs.reduceOption k) = nT xs.reduceOption k) :
    ∃ out st', Poly.run sqrt xs d false {} = .ok (out, st') ∧ out.length = d ∧
      ∀ (i j : ℕ) (u v : List (Option α)), out[i]? = some u → out[j]? = some v →
        dot u.reduceOption v.reduceOption = (if i = j then (1 : α) else 0) ∧ u.reduceOption.sum = 0 := by
  have hs : ∀ k ≤ d, sqrt (nT xs.reduceOption k) ≠ 0 := by
    intro k hk h0
    have := hsq k hk
    rw [h0, mul_zero] at this
    exact hn k hk this.symm
  refine ⟨_, _, run_training sqrt xs d hn hs, by simp, ?_⟩
  intro i j u v hu hv
  have horth := pf_orthogonal xs.reduceOption d (fun k hk => hn k (by omega))
  -- the two columns
  have col : ∀ (i : ℕ) (u : List (Option α)), ((List.range' 1 d).map (fun k => xs.map (Option.map
        (fun t => pf xs.reduceOption k t / sqrt (nT xs.reduceOption k)))))[i]? = some u →
      i < d ∧ u.reduceOption = xs.reduceOption.map
        (fun t => pf xs.reduceOption (i + 1) t / sqrt (nT xs.reduceOption (i + 1))) := by
    intro (i : ℕ) (u : List (Option α)) h
    rw [List.getElem?_map] at h
    rcases hi : (List.range' 1 d)[i]? with _ | k
    · rw [hi] at h; cases h
    · rw [hi] at h
      have hid : i < d := by
        by_contra hc
        have : (List.range' 1 d)[i]? = none := by simp; omega
        rw [this] at hi; cases hi
      have hk' : k = 1 + i := by
        have := List.getElem?_eq_some_iff.mp hi
        obtain ⟨hlt, he⟩ := this
        simpa using he.symm
      subst hk'
      simp only [Option.map_some, Option.some.injEq] at h
      subst h
      exact ⟨hid, by rw [reduceOption_map_map, Nat.add_comm]⟩
  obtain ⟨hi, eu⟩ := col i u hu
  obtain ⟨hj, ev⟩ := col j v hv
  rw [eu, ev, dot_map, ip_div, sum_map_eq_ip]
  constructor
  · by_cases hij : i = j
    · subst hij
      simp only [if_true]
      rw [hsq (i + 1) (by omega)]
      exact div_self (hn (i + 1) (by omega))
    · simp only [hij, if_false]
      have : ip xs.reduceOption (pf xs.reduceOption (i + 1)) (pf xs.reduceOption (j + 1)) = 0 := by
        rcases Nat.lt_or_gt_of_ne hij with h | h
        · rw [ip_symm]; exact horth (j + 1) (i + 1) (by omega) (by omega)
        · exact horth (i + 1) (j + 1) (by omega) (by omega)
      rw [this, zero_div]
  · have h0 := horth (i + 1) 0 (by omega) (by omega)
    have : ip xs.reduceOption (fun t => pf xs.reduceOption (i + 1) t / sqrt (nT xs.reduceOption (i + 1)))
        (fun _ => 1) = ip xs.reduceOption (pf xs.reduceOption (i + 1)) (pf xs.reduceOption 0)
          / (sqrt (nT xs.reduceOption (i + 1)) * 1) := by
      rw [← ip_div]; simp [pf]
    rw [this, h0, zero_div]

/-- non-vacuity of the hypotheses of `poly_orthonormal` at `ℚ`: on `[0, 1, 2]` the squared norms are
`norms2 = [3, 2, 2/3]`, all non-zero (three distinct values carry degree 2). -/
example : nT [(0 : ℚ), 1, 2] 0 = 3 ∧ nT [(0 : ℚ), 1, 2] 1 = 2 ∧ nT [(0 : ℚ), 1, 2] 2 = 2 / 3 := by
  refine ⟨?_, ?_, ?_⟩ <;> simp [nT, pf, ip, alphaF] <;> norm_num

/-- the hypothesis is not decoration: with two distinct values, `norms2[2] = 0` and the model
reports numpy's `0/0`. -/
example : Poly.run (α := ℚ) id [some 0, some 1, some 0] 2 false {} = .error .nonFinite := by decide +kernel

open Polynomial in
/-- C13.3c  Same span as the raw powers: the k-th polynomial of the recurrence is MONIC OF DEGREE k
(for every sample, no hypothesis), hence on the rows of the sample the columns
`[1, P₁, …, P_d]` span exactly the space spanned by `[1, x, …, x^d]` (triangular change of basis).
(Normalising the columns by non-zero scalars does not change the span.) -/
theorem poly_spans_powers (x : List α) (d : ℕ) :
    (∀ k, ∃ q : α[X], q.Monic ∧ q.natDegree = k ∧ ∀ t, pf x k t = q.eval t) ∧
    Submodule.span α ((fun k => fun i : Fin x.length => pf x k (x.get i)) '' {k | k < d + 1}) =
      Submodule.span α ((fun k => fun i : Fin x.length => x.get i ^ k) '' {k | k < d + 1}) := by
  have hq := recPolyP_monic_degree (aT x) (nT x)
  have he : ∀ k t, pf x k t = (recPolyP (aT x) (nT x) k).eval t := by
    intro k t; rw [pf_eq_recPoly, recPoly_eq_eval]
  refine ⟨fun k => ⟨_, (hq k).1, (hq k).2, he k⟩, ?_⟩
  rw [← span_eval_eq (fun i : Fin x.length => x.get i) _ hq (d + 1)]
  simp only [he]

/-- C13.3d  Missing values propagate row-wise and nothing else: for ANY successful call (orthogonal
or raw, training or replay), every output column is missing exactly at the rows where the input is
missing, and the recorded state and the non-missing rows are those obtained from the vector with
the missing entries removed. -/
theorem poly_nan_rowwise (sqrt : α → α) (xs : List (Option α)) (d : ℕ) (raw : Bool) (st : Poly.State α)
    (out : List (List (Option α))) (st' : Poly.State α)
    (h : Poly.run sqrt xs d raw st = .ok (out, st')) :
    (∀ col ∈ out, List.Forall₂ (fun o v => (o = none ↔ v = none)) xs col) ∧
    ∃ out', Poly.run sqrt (xs.reduceOption.map some) d raw st = .ok (out', st') ∧
      out'.map List.reduceOption = out.map List.reduceOption :=
  run_nan sqrt xs d raw st out st' h

/-- non-vacuity of `poly_nan_rowwise`: a successful call with a missing row -/
example : Poly.run (α := ℚ) id [some 0, none, some 2] 1 false {} =
    .ok ([[some (-1 / 2), none, some (1 / 2)]], ⟨some [1], some [2, 2]⟩) := by
  decide +kernel

/-- C13.3e  Recorded statistics are applied unchanged: a successful fit records a state `st'` such
that the fitted output AND the output for every follow-up vector `ys` (any degree `d' ≤ d`) are the
SAME functions `t ↦ P_k(t) / sqrt(norms2[k])` applied entry-wise (missing ↦ missing), and the
state is returned unchanged. -/
theorem poly_applies_recorded (sqrt : α → α) (xs : List (Option α)) (d : ℕ)
    (hn : ∀ k ≤ d, nT xs.reduceOption k ≠ 0)
    (hs : ∀ k ≤ d, sqrt (nT xs.reduceOption k) ≠ 0) :
    ∃ st' : Poly.State α,
      Poly.run sqrt xs d false {} = .ok ((List.range' 1 d).map (fun k => xs.map (Option.map
          (fun t => pf xs.reduceOption k t / sqrt (nT xs.reduceOption k)))), st') ∧
      ∀ (ys : List (Option α)) (d' : ℕ), d' ≤ d →
        Poly.run sqrt ys d' false st' = .ok ((List.range' 1 d').map (fun k => ys.map (Option.map
          (fun t => pf xs.reduceOption k t / sqrt (nT xs.reduceOption k)))), st') := by
  refine ⟨_, run_training sqrt xs d hn hs, ?_⟩
  intro ys d' hd'
  have ha : ∀ k < d, ((List.range' 0 d).map (aT xs.reduceOption)).getD k 0 = aT xs.reduceOption k :=
    fun k hk => getD_map_range' _ d k hk
  have hnn : ∀ k < d + 1, ((List.range' 0 (d + 1)).map (nT xs.reduceOption)).getD k 0 = nT xs.reduceOption k :=
    fun k hk => getD_map_range' _ (d + 1) k hk
  rw [run_recorded_poly sqrt ys d' _ _ (by simp; omega) (by simp; omega)
    (fun k hk => by rw [hnn k (by omega)]; exact hn k (by omega))
    (fun k hk => by rw [hnn k (by omega)]; exact hs k (by omega))]
  congr 2
  apply List.map_congr_left
  intro k hk
  have hk' : k ≤ d' := by have := List.mem_range'_1.mp hk; omega
  have e : recPoly (fun k => ((List.range' 0 d).map (aT xs.reduceOption)).getD k 0)
      (fun k => ((List.range' 0 (d + 1)).map (nT xs.reduceOption)).getD k 0) k = pf xs.reduceOption k := by
    rw [pf_eq_recPoly]
    exact recPoly_congr _ _ _ _ k (fun j hj => ha j (by omega)) (fun j hj => hnn j (by omega))
  rw [e, hnn k (by omega)]

/-- a degree that was never fitted cannot be replayed: the model raises `KeyError` like the code -/
example : Poly.run (α := ℚ) id [some 1, some 2] 2 false ⟨some [3], some [2, 5]⟩ = .error .keyError := by
  decide +kernel

end poly

/-! ## 4. the elementwise functions preloaded into every formula -/
section elementwise
open FormulaicVerif.Model.Elementwise FormulaicVerif.Spec.Real

/-- C13.4a  Each `exp*` is the inverse of its partner `log*` (as named by the model table), over `ℝ`:
`e (l x) = x` for `x > 0` and `l (e y) = y` for every `y`, for `(exp, log)`, `(exp2, log2)`, `(exp10, log10)`. -/
theorem exp_log_inverse (f : RealFn) (hf : f = .exp ∨ f = .exp2 ∨ f = .exp10) (x y : ℝ) (hx : 0 < x) :
    denote f (denote (partner f) x) = x ∧ denote (partner f) (denote f y) = y := by
  rcases hf with rfl | rfl | rfl
  · exact ⟨Real.exp_log hx, Real.log_exp y⟩
  · exact ⟨Real.rpow_logb (by norm_num) (by norm_num) hx, Real.logb_rpow (by norm_num) (by norm_num)⟩
  · exact ⟨Real.rpow_logb (by norm_num) (by norm_num) hx, Real.logb_rpow (by norm_num) (by norm_num)⟩

/-- C13.4b  The name `exp10` denotes `x ↦ 10 ^ x` (real power; at naturals the ordinary power). -/
theorem exp10_def (x : ℝ) :
    Elementwise.lookup "exp10" = some .exp10 ∧ denote .exp10 x = (10 : ℝ) ^ x ∧
      ∀ n : ℕ, denote .exp10 (n : ℝ) = (10 : ℝ) ^ n := by
  refine ⟨by decide, rfl, fun n => ?_⟩
  show (10 : ℝ) ^ (n : ℝ) = _
  exact Real.rpow_natCast 10 n

/-- C13.4c  The executable table of exact values that the correspondence compares the real code with
is sound for the real functions: whenever `exactAt f k = (p, v)`, the function named `f` takes the
value `v` at `p` — for every probe index `k` (not only the ones the harness uses). -/
theorem exactAt_sound (f : RealFn) (k : ℤ) (p v : ℚ) (h : exactAt f k = some (p, v)) :
    denote f (p : ℝ) = (v : ℝ) :=
  exactAt_sound' f k p v h

/-- C13.4d  (finite table, decided) Every name of the model table is a key of the live `TRANSFORMS`
(`Gen/Names.lean` is regenerated from the package on every run), and the table is closed under
`partner`. -/
theorem table_names_live :
    (∀ p ∈ Elementwise.table, p.1 ∈ Gen.transformNames) ∧
    (∀ p ∈ Elementwise.table, ∃ q ∈ Elementwise.table, q.2 = partner p.2) := by
  decide

/-- non-vacuity of `exactAt_sound`: `exp10` at `3` is `1000`, `log2` at `1/4` is `-2` -/
example : exactAt .exp10 3 = some (3, 1000) ∧ exactAt .log2 (-2) = some (1 / 4, -2) := by
  constructor <;> decide +kernel

end elementwise

end FormulaicVerif.Props.C13
