import FormulaicVerif.Proofs.C17Cover
import FormulaicVerif.Proofs.C17Dot
import FormulaicVerif.Proofs.C17Parts
/-! # C17 — Required variables, name resolution order and '.' expansion are exact

Property theorems only; helper lemmas are in `Proofs/C17*.lean`. Every `theorem` in this file is an
obligation audited with `#print axioms`. The statements are about the executable models
`Model/Variables.lean` (namespace `Model.Variables`: the expression language with `lambda` and the
comprehensions, the breadth-first extraction with bound names, evaluation with local scopes, the
reserved names, named layers, several parts), `Model/LayeredMapping.lean` (`Model.LMap`, the
layered-mapping model of C19) and, for `.`, the parser model (`Model/Eval.lean`: `applyPlain`,
`evalAst`; `Model/Parser.lean`: `parseTerms`) as packaged by `Model/Dot.lean` — the functions the
`c17` correspondence engine runs. Reference notions (`firstLayer`, `valueOf`,
`lookupAll`, `occs`, `usedColumns`, the side conditions) are in `Spec/Variables.lean`.

Side conditions that the proofs force, and what they mean for the real code:
* `AliasOK` (contract of `sanitize_variable_names`, checked per case by the harness);
* `Unshadowed` (assumption: a reported name that a lower layer also binds is not "necessary");
* `NotOnlyLazy` (assumption: necessity is claimed for names read in strict position — a name that is
  mentioned only inside a lambda body or inside a comprehension need not be read at all: the closure
  may never be called, the iterable may be empty); in the strict fragment it holds for every name
  (`strict_fragment_all_strict`);
* `PlainUse.noAttrOnData` / `BareVar` — finding C17-F2; `PlainUse.noDotQuoted` — finding C17-F3;
  `PlainBefore.noTransformNamed` — finding C17-F1 (rest of D15b); `PlainUse.noCollision`,
  `PlainBefore.noCallableData` — corner cases of the same kind (a column literally named `ns.v`
  next to the attribute access `ns.v`; a data column that is called).
Negative witnesses at the end of the file show that each of these conditions is needed. -/
namespace FormulaicVerif.Props.C17
open FormulaicVerif.Model FormulaicVerif.Model.Variables FormulaicVerif.Model.LMap
open FormulaicVerif.Spec.Variables FormulaicVerif.Spec.Containers FormulaicVerif.Proofs.C17

variable {ν : Type}

/-! ## 1. Names resolve to the data first, then the context, then the transforms -/

/-- C17.1a  On the materializer's layered context, `get_with_layer_name` returns the value held by
the first of data, context, transforms that contains the key together with that layer's name (and
nothing for a key in no layer); plain lookup returns the same value (derived from C19.4a
`lm_lookup_topfirst` and C19.4e `lm_named_lookup_consistent`). -/
theorem resolution_order (L : Layers ν) (k : String) :
    L.lm.getWithLayerName k = firstLayer L k ∧
    L.lm.get k = valueOf L k ∧
    (L.lm.getWithLayerName k).map (·.1) = L.lm.get k :=
  ⟨getWithLayerName_lm L k, get_lm L k, FormulaicVerif.Props.C19.lm_named_lookup_consistent L.lm k⟩

/-- C17.1a'  The caller's context may itself be a layered mapping (`capture_context()`, the frame
capture of `model_matrix`, an explicit `LayeredMapping`). Whatever its nesting, a key that the data
does not hold and the context does is reported with the value of its first binding inside the
context (top first); and when no sub-layer of the context is named, the reported source is exactly
`context` — an unnamed nested layer inherits the name of its closest named parent. -/
theorem context_source (L : Layers ν) (k : String) (v : ν)
    (hd : L.data.lookup k = none) (hc : (contextItems L).lookup k = some v) :
    (∃ n, L.lm.getWithLayerName k = some (v, n)) ∧
    (allUnnamed L.context = true → L.lm.getWithLayerName k = some (v, some "context")) := by
  constructor
  · have h1 := getWithLayerName_lm L k
    have h2 := firstLayer_fst L k
    rw [valueOf_eq, hd, hc] at h2
    rw [h1]
    cases hf : firstLayer L k with
    | none => rw [hf] at h2; cases h2
    | some p =>
      rw [hf] at h2
      simp only [Option.map, Option.some.injEq] at h2
      exact ⟨p.2, by rw [← h2]⟩
  · intro hu
    rw [getWithLayerName_lm, firstLayer_context L hu k v hd hc]

example : allUnnamed (ν := Nat) (.lm none [("a", 1)] [.lm none [] [.dict [("m", 2)]], .dict [("g", 3)]]) = true := by
  decide

/-- C17.1b  The source reported for a variable is where its value comes from. A looked-up factor
gets the value and the name of the first layer containing its name (`NameError` if none does). In
a Python factor every identifier is resolved through the back-quoted name it stands for, data >
context > transforms > builtins, and the source recorded for a key that is not a sanitised name is
the name of the first layer containing it. -/
theorem reported_source_is_first_layer (L : Layers ν) :
    (∀ n, lookupFactor L n = match firstLayer L n with
        | some (v, layer) => .ok (v, [Var.ofValue n layer])
        | none => .error (.nameError n)) ∧
    (∀ c, AliasOK L c →
      (∀ id, resolve L (evalEnv L c.aliases) id = lookupAll L (unalias c.aliases id)) ∧
      (∀ k, (∀ b ∈ c.aliases, b.1 = k → b.1 = b.2) →
        layerNameFor (evalEnv L c.aliases) k = match firstLayer L k with
          | some (_, n) => n
          | none => none)) :=
  ⟨lookupFactor_eq L, fun c hok =>
    ⟨resolve_evalEnv L c hok, fun k hk => layerName_evalEnv L c hok k (aliasVal_none_of L _ k hk)⟩⟩

/-- C17.1d  The source of every variable a successfully evaluated Python factor records: the variable
is the (de-aliased) chain of a free `Name` node; and when it is a bare name without a dot, its source
is the name of the first layer containing that name — the very layer the evaluation took the value
of the identifier from (`resolve … = lookupAll …`, whose first three candidates are `firstLayer`). -/
theorem python_variable_source (ops : Ops ν) (L : Layers ν) (f : PFactor) (c : PyCode)
    (hk : f.kind = .python (some c)) (hok : AliasOK L c) (r : ν × List Var)
    (h : evalFactor ops L f = .ok r) (u : Var) (hu : u ∈ r.2) :
    ∃ o ∈ occs c.ast, u.name = unalias c.aliases o.chain ∧
      resolve L (evalEnv L c.aliases) o.base = lookupAll L (unalias c.aliases o.base) ∧
      (o.chain = o.base → root (unalias c.aliases o.base) = unalias c.aliases o.base →
        u.source = match firstLayer L (unalias c.aliases o.base) with
          | some (_, n) => n
          | none => none) := by
  rw [python_vars ops L f c hk r h] at hu
  obtain ⟨o, ho, hn, hs⟩ := exprVariables_mem c _ u hu
  refine ⟨o, ho, hn, resolve_evalEnv L c hok o.base, fun hc hroot => ?_⟩
  rw [hs, hc, hroot]
  exact layerName_evalEnv L c hok _ (aliasVal_unalias L c hok o.base)

example : AliasOK (ν := Nat) ⟨[("a b", 1)], .dict [], [], []⟩
    ⟨.call (.name "log") [.name "a_b"] [], [("a_b", "a b")]⟩ :=
  ⟨by decide, by intro a ha; simp at ha; subst ha; decide,
    by intro o ho; simp [occs, chainOcc, chain, occsList, occsKws] at ho; rcases ho with h | h <;> subst h <;> decide,
    by decide⟩

/-! ## 2. `_get_ast_node_variables` -/

/-- C17.2a  Fuel sufficiency: with a budget of at least the number of nodes the breadth-first loop
finishes, and its result does not depend on the budget. -/
theorem ast_variables_fuel_sufficient (e : Expr) (aliases : List (String × String)) (fuel : Nat)
    (h : e.size ≤ fuel) : bfs aliases fuel [.node e []] [] = some (astVariables e aliases) := by
  obtain ⟨r, hr⟩ := bfs_isSome aliases e.size [.node e []] [] (by simp [itemsSize, Item.size])
  have hast : astVariables e aliases = r := by simp only [astVariables, hr]
  rw [hast]
  have mono : ∀ (fuel : Nat) (q : List Item) (acc r : List Var),
      bfs aliases fuel q acc = some r → bfs aliases (fuel + 1) q acc = some r := by
    intro fuel
    induction fuel with
    | zero => intro q acc r h; cases q with
      | nil => simpa [bfs] using h
      | cons it todo => simp [bfs] at h
    | succ n ih => intro q acc r h; cases q with
      | nil => simpa [bfs] using h
      | cons it todo => simp only [bfs] at h ⊢; exact ih _ _ _ h
  obtain ⟨d, rfl⟩ := Nat.exists_eq_add_of_le h
  induction d with
  | zero => exact hr
  | succ d ih => exact mono _ _ _ _ (ih (Nat.le_add_right _ _))

/-- C17.2b  The extraction reports exactly one variable per FREE `Name` node: the variables are those
of the occurrences `occs e` (the attribute chain the name is the base of, role `callable` iff the
chain is called, aliases undone on the whole dotted name), and the bases of the occurrences are
exactly the free names of `e` — the identifiers CPython looks up in the evaluation namespace. -/
theorem ast_variables_cover_names (e : Expr) (aliases : List (String × String)) :
    (∀ v, v ∈ astVariables e aliases ↔ ∃ o ∈ occs e, v = o.toVar aliases) ∧
    (∀ id, id ∈ freeNames e ↔ ∃ o ∈ occs e, o.base = id) :=
  ⟨astVariables_mem e aliases, fun id => mem_freeNames_iff id e⟩

/-- C17.2c  Bound names are never reported. Every reported variable belongs to a free name of the
expression (the breadth-first loop, which carries the bound names with every queued node, agrees
with the textbook definition of free names, in which a binder removes its names from what it scopes
over); a lambda parameter is not free in the lambda unless a default expression mentions it; a
comprehension target is free in the comprehension only if the FIRST iterable mentions it. -/
theorem bound_names_not_reported (e : Expr) (aliases : List (String × String)) :
    (∀ v ∈ astVariables e aliases, ∃ o ∈ occs e, v = o.toVar aliases ∧ o.base ∈ freeNames e) ∧
    (∀ ps ds body x, x ∈ ps → x ∈ freeNames (.lambda ps ds body) → x ∈ freeNamesList ds) ∧
    (∀ k elts ts it ifs gs x, x ∈ ts ++ gensTargets gs →
      x ∈ freeNames (.comp k elts (.mk ts it ifs :: gs)) → x ∈ freeNames it) := by
  refine ⟨fun v hv => ?_, fun ps ds body x hx hf => ?_, fun k elts ts it ifs gs x hx hf => ?_⟩
  · obtain ⟨o, ho, hvo⟩ := (astVariables_mem e aliases v).1 hv
    exact ⟨o, ho, hvo, (mem_freeNames_iff o.base e).2 ⟨o, ho, rfl⟩⟩
  · simp only [freeNames, List.mem_append, mem_without_iff] at hf
    rcases hf with h | ⟨_, h⟩
    · exact h
    · have : ps.contains x = true := by simpa using hx
      rw [this] at h; cases h
  · have hc : (ts ++ gensTargets gs).contains x = true := by simpa using hx
    simp only [freeNames, freeNamesGens, gensTargets, if_true, List.mem_append, mem_without_iff, hc] at hf
    rcases hf with ⟨_, h⟩ | (h | ⟨_, h⟩) | h
    · cases h
    · exact h
    · cases h
    · exact absurd h (not_mem_freeNamesGens _ x hc gs)

/- `{(lambda v, k=y: v + k + w)(x)}` and `{sum([a + b for a in x for b in a if b > c])}`: parameters
and targets are not reported, the default `y`, the first iterable `x` and the free `w`, `c` are -/
example : (astVariables (.call (.lambda ["v", "k"] [.name "y"]
      (.binop "Add" (.binop "Add" (.name "v") (.name "k")) (.name "w"))) [.name "x"] []) []).map (·.name)
    = ["x", "y", "w"] := by decide
example : (astVariables (.call (.name "sum") [.comp "ListComp" [.binop "Add" (.name "a") (.name "b")]
      [.mk ["a"] (.name "x") [], .mk ["b"] (.name "a") [.binop "Gt" (.name "b") (.name "c")]]] []) []).map (·.name)
    = ["sum", "x", "c"] := by decide

/-! ## 3. Evaluation and `NameError` -/

/-- C17.3a  The value (or error) of an expression depends only on what its free names resolve to. -/
theorem eval_depends_on_free_names (ops : Ops ν) (ρ ρ' : String → Option ν) (e : Expr)
    (h : ∀ id ∈ freeNames e, ρ id = ρ' id) : eval ops ρ e = eval ops ρ' e :=
  eval_congr ops ρ ρ' e h

/-- C17.3b  Whatever the operations do, an unbound name in strict position makes the evaluation fail
(strict = not inside a lambda body, not inside a comprehension apart from its first iterable), and in
the strict fragment — no lambda, no comprehension — every free name is in strict position. -/
theorem eval_fails_on_unbound_name (ops : Ops ν) (ρ : String → Option ν) (e : Expr) (x : String)
    (hx : x ∈ strictNames e) (hu : ρ x = none) : ∃ err, eval ops ρ e = .error err :=
  eval_unbound ops ρ x hu e hx

/-- C17.3b'  strict positions are free positions, and the only ones when there is no binder -/
theorem strict_fragment_all_strict (e : Expr) :
    (∀ x ∈ strictNames e, x ∈ freeNames e) ∧ (noBinders e = true → strictNames e = freeNames e) :=
  ⟨fun x hx => strict_sub_free x e hx, strict_eq_free e⟩

/-- C17.3c  `NameError` exactly when a free name is unbound: a `NameError` always names an unbound
free name (never a lambda parameter or comprehension target); and when the operations themselves
cannot fail, an evaluation in which every free name is bound succeeds or reads a comprehension
target before it is bound (`UnboundLocalError`), a successful evaluation has every strict name
bound, and every failure is such a `NameError` or an `UnboundLocalError`. -/
theorem eval_nameError_iff (ops : Ops ν) (ρ : String → Option ν) (e : Expr) :
    (∀ x, eval ops ρ e = .error (.nameError x) → x ∈ freeNames e ∧ ρ x = none) ∧
    (OpsTotal ops →
      ((∀ id ∈ freeNames e, ρ id ≠ none) →
        (∃ v, eval ops ρ e = .ok v) ∨ ∃ x, eval ops ρ e = .error (.unboundLocal x)) ∧
      ((∃ v, eval ops ρ e = .ok v) → ∀ id ∈ strictNames e, ρ id ≠ none) ∧
      (∀ err, eval ops ρ e = .error err →
        (∃ x, err = .nameError x ∧ x ∈ freeNames e ∧ ρ x = none) ∨ ∃ x, err = .unboundLocal x)) := by
  refine ⟨fun x h => eval_nameError_sound ops ρ x e h, fun ht => ⟨eval_total ops ht ρ e, ?_, ?_⟩⟩
  · rintro ⟨v, hv⟩ id hid hn
    obtain ⟨err, herr⟩ := eval_unbound ops ρ id hn e hid
    rw [hv] at herr; cases herr
  · intro err herr
    rcases eval_total_err ops ht ρ err e herr with ⟨x, hx⟩ | ⟨x, hx⟩
    · subst hx
      exact Or.inl ⟨x, rfl, eval_nameError_sound ops ρ x e herr⟩
    · exact Or.inr ⟨x, hx⟩

example : OpsTotal (ν := Nat) ⟨fun _ => 0, fun v _ => .ok v, fun f _ _ => .ok f, fun _ v => .ok v,
    fun _ l _ => .ok l, fun v _ => .ok v, fun _ _ => 0, fun v => .ok [v], fun _ => .ok true,
    fun n v => .ok (List.replicate n v), fun _ _ _ _ => 0⟩ :=
  ⟨fun v _ => ⟨v, rfl⟩, fun f _ _ => ⟨f, rfl⟩, fun _ v => ⟨v, rfl⟩, fun _ l _ => ⟨l, rfl⟩, fun v _ => ⟨v, rfl⟩,
    fun v => ⟨[v], rfl⟩, fun _ => ⟨true, rfl⟩, fun n v => ⟨List.replicate n v, rfl, by simp⟩⟩

/-- C17.3d  Names inside a nested scope resolve like names at top level: the body of a lambda and the
inner parts of a comprehension are evaluated in the enclosing environment extended by the local
bindings, so a free name of a Python factor — wherever it is written — resolves through the
back-quoted name it stands for, data > context > transforms > builtins. -/
theorem nested_scope_resolution (L : Layers ν) (c : PyCode) (hok : AliasOK L c)
    (locals : List String) (b : List (String × ν)) (x : String) (hx : locals.contains x = false) :
    bindEnv locals b (resolve L (evalEnv L c.aliases)) x = lookupAll L (unalias c.aliases x) := by
  rw [bindEnv_free _ _ _ _ hx, resolve_evalEnv L c hok]

/-! ## 4. Sufficiency and necessity, semantically -/

/-- C17.4a  Materialising on the data restricted to ANY set of columns that contains every data
column the formula reads gives the same outcome and the same factor values. -/
theorem restrict_sufficient (ops : Ops ν) (L : Layers ν) (fs : List PFactor) (keep : List String)
    (hok : ∀ f ∈ fs, FactorOK L f) (hkeep : ∀ k ∈ usedColumns L fs, k ∈ keep) :
    (materialize ops (L.restrict keep) fs).map (·.1) = (materialize ops L fs).map (·.1) := by
  rw [materialize_vals, materialize_vals]
  apply evalFactors_congr
  intro f hf
  have hin : ∀ k ∈ factorReads f, k ∈ dataKeys L → k ∈ keep := fun k hk hd =>
    hkeep k ((mem_usedColumns L fs k).2 ⟨List.mem_flatMap.2 ⟨f, hf, hk⟩, hd⟩)
  have hok' : FactorOK (L.restrict keep) f := by
    have := hok f hf
    unfold FactorOK at this ⊢
    split
    · rename_i c hc; rw [hc] at this; exact aliasOK_restrict this keep
    · trivial
  exact evalFactor_congr ops L (L.restrict keep) f (hok f hf) hok'
    (fun k hk => valueOf_restrict L keep k (hin k hk))
    (fun k hk => lookupAll_restrict L keep k (hin k hk))

/-- C17.4b  Necessity, semantically: removing a key the formula reads in strict position, that no
lower layer binds, makes the materialisation fail with the factor-evaluation error -/
theorem remove_necessary (ops : Ops ν) (L : Layers ν) (fs : List PFactor) (v : String)
    (hok : ∀ f ∈ fs, FactorOK L f) (hv : StrictRead fs v) (hu : Unshadowed L v) :
    ∃ cause, materialize ops (L.remove v) fs = .error (.factorEvaluation cause) := by
  obtain ⟨f, hf, hvf⟩ := List.mem_flatMap.1 hv
  have hok' : FactorOK (L.remove v) f := by
    have := hok f hf
    unfold FactorOK at this ⊢
    split
    · rename_i c hc; rw [hc] at this; exact aliasOK_remove this v
    · trivial
  exact materialize_fails ops _ fs (evalFactors_fails ops _ fs f hf
    (evalFactor_unbound ops _ f hok' v hvf (lookupAll_remove_self L v hu) (firstLayer_remove_self L v hu)))

/-- C17.4c  In the strict fragment (no lambda, no comprehension in any factor) every read is a read
in strict position. -/
theorem strict_fragment_not_lazy (fs : List PFactor) (hs : ∀ f ∈ fs, FactorStrict f) (v : String) :
    NotOnlyLazy fs v := by
  intro hv
  obtain ⟨f, hf, hvf⟩ := List.mem_flatMap.1 hv
  refine List.mem_flatMap.2 ⟨f, hf, ?_⟩
  have hfs := hs f hf
  unfold FactorStrict at hfs
  unfold factorReads at hvf
  unfold factorStrictReads
  split at hfs
  · rename_i c hc
    rw [hc] at hvf ⊢
    simp only at hvf ⊢
    rw [strict_eq_free c.ast hfs]; exact hvf
  · cases hk : f.kind with
    | lookup => rw [hk] at hvf; exact hvf
    | literal => rw [hk] at hvf; exact hvf
    | python oc =>
      cases oc with
      | none => rw [hk] at hvf; exact hvf
      | some c => rename_i hne; exact absurd hk (hne c)

/-- C17.4d  The reserved names. When a layer binds one of the names `stateful_eval` injects in front
of the namespace (`Gen.reservedNames`, read off the live function), every Python factor is rejected
with the factor-evaluation error (cause `RuntimeError`) whatever its expression — the injected
objects never shadow a data column silently; looked-up factors are not affected. -/
theorem reserved_names_rejected (ops : Ops ν) (L : Layers ν) (f : PFactor) (c : PyCode)
    (hk : f.kind = .python (some c)) (r : String) (hr : r ∈ Gen.reservedNames) (hb : valueOf L r ≠ none)
    (hnd : (c.aliases.map (·.1)).Nodup)
    (hold : ∀ a ∈ c.aliases, a.1 ≠ a.2 → ∀ b ∈ c.aliases, b.2 ≠ a.1)
    (hna : c.aliases.lookup r = none) :
    evalFactor ops L f = .error (.factorEvaluation (.other "RuntimeError")) := by
  rw [evalFactor_python ops L f c hk, reservedHit_of_bound L c.aliases r hr hb hnd hold hna]
  rfl

example : "__FORMULAIC_STATE__" ∈ Gen.reservedNames := by decide

/-! ## 5. The reported sets -/

/-- C17.5a  After materialisation (`ModelSpec.required_variables = variables_by_source['data']`):
if data columns are used in Python code as bare names (`PlainUse`), the materialisation succeeds on
the data restricted to exactly the reported columns, with the same factor values. -/
theorem required_sufficient (ops : Ops ν) (L : Layers ν) (fs : List PFactor)
    (hok : ∀ f ∈ fs, FactorOK L f) (hplain : ∀ f ∈ fs, FactorPlain L f)
    (vals : List ν) (vars : List Var) (hm : materialize ops L fs = .ok (vals, vars)) :
    (materialize ops (L.restrict (specRequired vars)) fs).map (·.1) = .ok vals := by
  rw [restrict_sufficient ops L fs _ hok (fun k hk => cover_post ops L fs hok hplain vals vars hm k hk), hm]
  rfl

/-- C17.5b  After materialisation: removing any reported variable that no lower layer binds, that
is not the name of a dotted chain and that is not mentioned only in lazily evaluated positions makes
the materialisation fail with the factor-evaluation error. -/
theorem required_necessary (ops : Ops ν) (L : Layers ν) (fs : List PFactor)
    (hok : ∀ f ∈ fs, FactorOK L f)
    (vals : List ν) (vars : List Var) (hm : materialize ops L fs = .ok (vals, vars))
    (v : String) (hv : v ∈ specRequired vars) (hu : Unshadowed L v) (hb : BareVar fs v)
    (hl : NotOnlyLazy fs v) :
    ∃ cause, materialize ops (L.remove v) fs = .error (.factorEvaluation cause) := by
  have hv' : v ∈ vars.map (·.name) := by
    simp only [specRequired, List.mem_map, List.mem_filter] at hv ⊢
    obtain ⟨u, ⟨hu1, _⟩, hu2⟩ := hv
    exact ⟨u, hu1, hu2⟩
  exact remove_necessary ops L fs v hok (hl (post_name_read ops L fs vals vars hm v hv' hb)) hu

/-- C17.5c  Before materialisation (`Formula.required_variables`): under `PlainUse` and
`PlainBefore` (no data column named like a transform or called inside Python code) the
materialisation on the data restricted to the reported names has the same outcome and values as on
the full data. -/
theorem required_before_sufficient (ops : Ops ν) (L : Layers ν) (fs : List PFactor)
    (hok : ∀ f ∈ fs, FactorOK L f) (hplain : ∀ f ∈ fs, FactorPlain L f)
    (hbefore : ∀ f ∈ fs, FactorPlainBefore L f)
    (pre : List Var) (hp : formulaRequired fs = .ok pre) :
    (materialize ops (L.restrict (pre.map (·.name))) fs).map (·.1) = (materialize ops L fs).map (·.1) :=
  restrict_sufficient ops L fs _ hok (fun k hk => cover_pre L fs hplain hbefore pre hp k hk)

/-- C17.5d  Before materialisation: removing any reported variable that no lower layer binds, that
is not the name of a dotted chain and that is not mentioned only in lazily evaluated positions makes
the materialisation fail with the factor-evaluation error. -/
theorem required_before_necessary (ops : Ops ν) (L : Layers ν) (fs : List PFactor)
    (hok : ∀ f ∈ fs, FactorOK L f)
    (pre : List Var) (hp : formulaRequired fs = .ok pre)
    (v : String) (hv : v ∈ pre.map (·.name)) (hu : Unshadowed L v) (hb : BareVar fs v)
    (hl : NotOnlyLazy fs v) :
    ∃ cause, materialize ops (L.remove v) fs = .error (.factorEvaluation cause) :=
  remove_necessary ops L fs v hok (hl (pre_name_read fs pre hp v hv hb)) hu

/-- C17.5e  Several parts (`y ~ a | b`, two-sided formulas: `ModelSpecs.required_variables` is the
union of the parts' `variables_by_source['data']`, each read off the part's own structure after all
factors of the formula have been evaluated together). Sufficiency: the materialisation succeeds, with
the same factor values, on the data restricted to exactly that union. -/
theorem parts_required_sufficient (ops : Ops ν) (L : Layers ν) (ps : List (List PFactor))
    (hok : ∀ p ∈ ps, ∀ f ∈ p, FactorOK L f) (hplain : ∀ p ∈ ps, ∀ f ∈ p, FactorPlain L f)
    (vals : List ν) (vars : List Var) (req : List String)
    (hm : materializeParts ops L ps = .ok (vals, vars, req)) :
    (materialize ops (L.restrict req) ps.flatten).map (·.1) = .ok vals := by
  simp only [materializeParts] at hm
  cases hf : materialize ops L ps.flatten with
  | error e => rw [hf] at hm; cases hm
  | ok r =>
    obtain ⟨vals', vars'⟩ := r
    rw [hf] at hm
    simp only [Except.ok.injEq, Prod.mk.injEq] at hm
    obtain ⟨h1, _, h3⟩ := hm
    subst h1; subst h3
    have hokf : ∀ f ∈ ps.flatten, FactorOK L f := fun f hf' => by
      obtain ⟨p, hp, hfp⟩ := List.mem_flatten.1 hf'; exact hok p hp f hfp
    rw [restrict_sufficient ops L ps.flatten _ hokf
      (fun k hk => cover_parts ops L ps hok hplain ⟨_, hf⟩ k hk), hf]
    rfl

/-- C17.5f  Several parts, necessity: removing any member of the union that no lower layer binds,
that is not the name of a dotted chain and that is not mentioned only in lazily evaluated positions
makes the materialisation of the whole formula fail with the factor-evaluation error. -/
theorem parts_required_necessary (ops : Ops ν) (L : Layers ν) (ps : List (List PFactor))
    (hok : ∀ p ∈ ps, ∀ f ∈ p, FactorOK L f)
    (vals : List ν) (vars : List Var) (req : List String)
    (hm : materializeParts ops L ps = .ok (vals, vars, req))
    (v : String) (hv : v ∈ req) (hu : Unshadowed L v) (hb : BareVar ps.flatten v)
    (hl : NotOnlyLazy ps.flatten v) :
    ∃ cause, materialize ops (L.remove v) ps.flatten = .error (.factorEvaluation cause) := by
  simp only [materializeParts] at hm
  cases hf : materialize ops L ps.flatten with
  | error e => rw [hf] at hm; cases hm
  | ok r =>
    rw [hf] at hm
    simp only [Except.ok.injEq, Prod.mk.injEq] at hm
    obtain ⟨_, _, h3⟩ := hm
    subst h3
    have hokf : ∀ f ∈ ps.flatten, FactorOK L f := fun f hf' => by
      obtain ⟨p, hp, hfp⟩ := List.mem_flatten.1 hf'; exact hok p hp f hfp
    exact remove_necessary ops L ps.flatten v hokf (hl (parts_name_read ops L ps ⟨_, hf⟩ v hv hb)) hu

/-- C17.5g  A part that consists of looked-up names only — such as a right-hand side made of `.`
expansions and explicit columns — reports no variable other than those names: together with C17.6a
(no expanded column is a left-hand-side variable) the required variables of such a right-hand part
never include the response. -/
theorem lookup_part_reports_its_names (ops : Ops ν) (L : Layers ν) (names : List String)
    (vals : List ν) (vars : List Var)
    (hm : materialize ops L (names.map (fun n => (⟨n, .lookup⟩ : PFactor))) = .ok (vals, vars)) :
    ∀ v ∈ specRequired vars, v ∈ names :=
  lookup_part_required ops L names vals vars hm

/-! ## 6. The wildcard -/

/-- C17.6a  `.` expands to one lookup term per data column that is not among the left-hand-side
variables, in data order (a sublist of the columns), without duplicates; for duplicate-free column
lists the first-occurrence filter is the identity. The function is the parser model's `applyPlain`
on the `.` operator, with `used` computed by `Token.required_variables` of the left-hand-side
tokens. -/
theorem dot_expansion (cols : List String) (lhs : List PTok) :
    let unused := (firstOcc cols).filter (fun c => !(lhsUsed lhs).contains c)
    Dot.expand cols (lhsUsed lhs) = .ok (unused.map (fun c => [Factor.mk c .lookup])) ∧
    unused.Nodup ∧ unused.Sublist cols ∧
    (∀ c, c ∈ unused ↔ c ∈ cols ∧ c ∉ lhsUsed lhs) ∧
    (cols.Nodup → unused = cols.filter (fun c => !(lhsUsed lhs).contains c)) := by
  refine ⟨expand_eq cols _, (FormulaicVerif.Proofs.C19.firstOcc_nodup cols).sublist List.filter_sublist,
    List.filter_sublist.trans (firstOcc_sublist cols), ?_, ?_⟩
  · intro c
    simp [List.mem_filter, FormulaicVerif.Proofs.C19.mem_firstOcc]
  · intro h
    simp only [FormulaicVerif.Proofs.C19.firstOcc_of_nodup cols h]

/-- C17.6b  The operator the expansion is attached to is the `.` of every generated operator table
(regenerated from `DefaultOperatorResolver.operators` on every run). -/
theorem dot_operator_in_table (twosided multipart multistage : Bool) :
    (Gen.defaultTable twosided multipart multistage).lookup "." = some [Dot.dotOp] := by
  cases twosided <;> cases multipart <;> cases multistage <;> decide


/-- C17.6c  EVERY occurrence of `.` expands alike. The evaluation context is a value that each `.`
node reads (nothing is consumed by the first occurrence): a `.` node evaluates to the expansion of
C17.6a wherever it stands, and the value of a whole tree — any number of `.` nodes, inside
parentheses, interactions, several right-hand parts — depends on the context only through that one
list (two contexts with the same expansion give the same value for every tree). -/
theorem dot_every_occurrence (cols used : List String) :
    let dot : DotCtx := { available := some cols, usedLhs := used }
    evalAst dot (.node Dot.dotOp []) = (Dot.expand cols used).map Val.set ∧
    (∀ (dot' : DotCtx), applyPlain Dot.dotOp dot' [] = Dot.expand cols used →
      ∀ a, evalAst dot' a = evalAst dot a) := by
  refine ⟨?_, fun dot' h a => evalAst_dot_congr dot' _ (by rw [h]; rfl) a⟩
  simp [evalAst, evalAst.evalArgs, Dot.dotOp, Dot.expand]

/-- C17.6d  What `Formula.from_spec(formula, context=materializer.layered_context)` hands to the
tree: the available variables are the keys of the layer called `data` (first occurrences, data
order) and the left-hand-side variables are `Token.required_variables` of the tokens before the top
level `~`, computed by `Model.Variables` from the CPython trees. -/
theorem dot_context_of_formula {ν : Type} (norm : List Char → Except PyErr (List Char))
    (codes : List (String × Option PyCode)) (L : Layers ν) (cs : List CharInfo)
    (ts lhs : List Tok) (a : Ast)
    (ht : getTokens {} (Dot.pyEnv norm codes L.available) cs = .ok (ts, lhs))
    (ha : tokensToAst ({} : ParseCfg).table ts = .ok (some a)) :
    parseTerms {} (Dot.pyEnv norm codes L.available) cs =
      match evalAst { available := some (firstOcc (dataKeys L)),
                      usedLhs := lhsUsed (lhs.map (Dot.ptokOf codes)) } a with
      | .error e => .error e
      | .ok v =>
        let s := match v with | .struct _ => v | _ => mkStruct [] (some v)
        match checkVal s with
        | .error e => .error e
        | .ok _ => .ok s := by
  simp only [parseTerms, ht, ha, lhsVariables_pyEnv]
  have : (Dot.pyEnv norm codes L.available).available = some (firstOcc (dataKeys L)) := available_eq L
  rw [this]
  rfl

/-- C17.6e  Histories on one context. However many formulas were parsed before with the same context
object (the materializer's `layered_context`, or a mapping the caller hands to several parses), and
whatever their left-hand sides were, the i-th parse gives what it gives on the untouched context — in
particular every `.` of a formula expands with the left-hand-side variables OF THAT formula (none for
a one-sided one) — and the context is the same object afterwards: a parse writes into a fresh layer
over the caller's context only. -/
theorem parse_history_independent {ν : Type} (norm : List Char → Except PyErr (List Char))
    (codes : List (String × Option PyCode)) (explicit : Option (List String))
    (own caller : LMap.Layer ν) (steps : List (List CharInfo)) :
    Dot.parseHistory norm codes explicit own caller steps =
      (steps.map (fun cs => (Dot.parseCall norm codes explicit own caller cs).1), caller) := by
  induction steps with
  | nil => rfl
  | cons cs rest ih =>
    simp only [Dot.parseHistory, List.map_cons]
    have hc : (Dot.parseCall norm codes explicit own caller cs).2 = caller := rfl
    rw [hc, ih]

/-- C17.1c  Named-layer lookups on the materializer's context (`layered_context.data`, `.context`,
`.transforms`; `named_layers`): the three names denote the three layers whatever the caller's context
contains (a sub-layer of the context that is itself called `data` does not shadow the data layer);
every other name is a named sub-layer of the caller's context or an `AttributeError`; and the
variables available to `.` are the keys of the data layer. -/
theorem named_layers_of_context {ν : Type} (L : Layers ν) :
    getNamedLayer L.lm "data" = .ok (.lm (some "data") [] [.dict L.data]) ∧
    getNamedLayer L.lm "context" = .ok (.lm (some "context") [] [L.context]) ∧
    getNamedLayer L.lm "transforms" = .ok (.lm (some "transforms") [] [.dict L.transforms]) ∧
    (∀ n, n ≠ "data" → n ≠ "context" → n ≠ "transforms" →
      getNamedLayer L.lm n = match (namedLayers L.context).lookup n with
        | some l => .ok l
        | none => .error .attributeError) ∧
    L.available = some (firstOcc (dataKeys L)) := by
  refine ⟨?_, ?_, ?_, ?_, available_eq L⟩
  · simp [getNamedLayer, namedLayers_lm]
  · simp [getNamedLayer, namedLayers_lm]
  · simp [getNamedLayer, namedLayers_lm]
  · intro n h1 h2 h3
    simp only [getNamedLayer, namedLayers_lm, h1, h2, h3, if_false]
    rfl


/-! ## Non-vacuity: a concrete instance that satisfies every hypothesis, and negative witnesses
showing that each side condition is needed (all by evaluation of the model) -/
section witnesses

def ops0 : Ops Nat :=
  ⟨fun _ => 0, fun v _ => .ok (v + 100), fun f as _ => .ok (f + as.sum), fun _ v => .ok v,
    fun _ l r => .ok (l + r), fun v _ => .ok v, fun _ vs => vs.sum, fun v => .ok [v, v + 1],
    fun v => .ok (v != 0), fun n v => .ok (List.replicate n v),
    -- a closure is "called" once, with every parameter bound to 0, when it is created
    fun _ ps _ run => match run (ps.map (fun p => (p, 0))) with | .ok v => v | .error _ => 0⟩

/-- data `x`, `C`, `a b`, `p.q`; context `LayeredMapping({u}, {w})` (the shape `capture_context()` produces); the generated
transforms; builtin `float` -/
def L0 : Layers Nat :=
  ⟨[("x", 1), ("C", 2), ("a b", 3), ("p.q", 5)], .lm none [] [.dict [("u", 4)], .dict [("w", 6)]],
    Gen.transformNames.map (fun n => (n, 1000)), [("float", 9)]⟩

def valsOf (r : Except MatErr (List Nat × List Var)) : Option (List Nat) :=
  match r with | .ok p => some p.1 | .error _ => none
def namesOf (r : Except PreErr (List Var)) : Option (List String) :=
  match r with | .ok vs => some (vs.map (·.name)) | .error _ => none
def reqOf (r : Except MatErr (List Nat × List Var)) : Option (List String) :=
  match r with | .ok p => some (specRequired p.2) | .error _ => none
def failed (r : Except MatErr (List Nat × List Var)) : Bool :=
  match r with | .ok _ => false | .error _ => true

/-- `x + {log(`a b`) + u}` -/
def cGood : PyCode := ⟨.binop "Add" (.call (.name "log") [.name "a_b"] []) (.name "u"), [("a_b", "a b")]⟩
def fGood : List PFactor := [⟨"x", .lookup⟩, ⟨"log(`a b`) + u", .python (some cGood)⟩]

/- the instance satisfies the hypotheses of C17.5a–d … -/
set_option maxRecDepth 4000 in
example : (∀ f ∈ fGood, FactorOK L0 f) ∧ (∀ f ∈ fGood, FactorPlain L0 f) ∧
    (∀ f ∈ fGood, FactorPlainBefore L0 f) ∧ Unshadowed L0 "a b" ∧ BareVar fGood "a b" ∧
    NotOnlyLazy fGood "a b" := by
  have hA : AliasOK L0 cGood := ⟨by decide, by decide, by decide, by decide⟩
  have hP : PlainUse L0 cGood := ⟨by decide, by decide, by decide⟩
  have hB : PlainBefore L0 cGood := ⟨by decide, by decide⟩
  refine ⟨?_, ?_, ?_, ⟨by decide, by decide, by decide⟩, ?_, ?_⟩
  · intro f hf; simp [fGood] at hf; rcases hf with h | h <;> subst h
    · trivial
    · exact hA
  · intro f hf; simp [fGood] at hf; rcases hf with h | h <;> subst h
    · trivial
    · exact hP
  · intro f hf; simp [fGood] at hf; rcases hf with h | h <;> subst h
    · trivial
    · exact hB
  · intro f hf c hc o ho hn
    simp [fGood] at hf; rcases hf with h | h <;> subst h
    · cases hc
    · have : c = cGood := by simpa using hc.symm
      subst this
      revert o; decide
  · intro _; decide

/- … and behaves as the theorems say: reported before `{x, u, a b}` (the context name `u` is
reported: documented over-approximation), after `{x, a b}`; sufficient; necessary -/
set_option maxRecDepth 4000 in
example : namesOf (formulaRequired fGood) = some ["x", "u", "a b"] ∧
    reqOf (materialize ops0 L0 fGood) = some ["x", "a b"] ∧
    valsOf (materialize ops0 L0 fGood) = some [1, 1007] ∧
    valsOf (materialize ops0 (L0.restrict ["x", "a b"]) fGood) = some [1, 1007] ∧
    failed (materialize ops0 (L0.remove "a b") fGood) = true ∧
    failed (materialize ops0 (L0.remove "x") fGood) = true := by decide

/-- finding C17-F1 (`noTransformNamed` is needed): `{C + 1}` with a data column `C` -/
def fC : List PFactor := [⟨"C + 1", .python (some ⟨.binop "Add" (.name "C") (.const "1"), []⟩)⟩]
set_option maxRecDepth 4000 in
example : namesOf (formulaRequired fC) = some [] ∧ usedColumns L0 fC = ["C"] ∧
    valsOf (materialize ops0 L0 fC) = some [2] ∧
    valsOf (materialize ops0 (L0.restrict []) fC) = some [1000] := by decide

/-- finding C17-F2 (`noAttrOnData` / `BareVar` are needed): `{x.T}` and `x.clip(0)` -/
def fAttr : List PFactor :=
  [⟨"x.T", .python (some ⟨.attr (.name "x") "T", []⟩)⟩,
   ⟨"x.clip(0)", .python (some ⟨.call (.attr (.name "x") "clip") [.const "0"] [], []⟩)⟩]
set_option maxRecDepth 4000 in
example : namesOf (formulaRequired fAttr) = some ["x.T"] ∧
    reqOf (materialize ops0 L0 fAttr) = some ["x.T", "x.clip"] ∧ usedColumns L0 fAttr = ["x", "x"] ∧
    failed (materialize ops0 (L0.restrict ["x.T", "x.clip"]) fAttr) = true ∧
    failed (materialize ops0 (L0.remove "x.T") fAttr) = false := by decide

/-- finding C17-F3 (`noDotQuoted` is needed): log(`p.q`) with a data column `p.q` -/
def fQDot : List PFactor :=
  [⟨"log(`p.q`)", .python (some ⟨.call (.name "log") [.name "p_q"] [], [("p_q", "p.q")]⟩)⟩]
set_option maxRecDepth 4000 in
example : reqOf (materialize ops0 L0 fQDot) = some [] ∧ usedColumns L0 fQDot = ["p.q"] ∧
    failed (materialize ops0 (L0.restrict []) fQDot) = true := by decide

/- `Unshadowed` is needed: with `x` also bound by the context, removing the data column falls
through to the context -/
set_option maxRecDepth 4000 in
example : failed (materialize ops0 ({ L0 with context := .lm none [] [.dict [("u", 4)], .lm none [] [.dict [("x", 7)]]] }.remove "x") fGood) = false ∧
    valsOf (materialize ops0 ({ L0 with context := .lm none [] [.dict [("u", 4)], .lm none [] [.dict [("x", 7)]]] }.remove "x") fGood) = some [7, 1007] := by decide

/-- a bound name that is also a data column: `{float([x * u for x in `a b`])}` binds `x` locally; the data
column `x` is neither read nor reported, before or after, and the data restricted to `a b` suffices -/
def fScoped : List PFactor :=
  [⟨"float([x * u for x in `a b`])", .python (some ⟨.call (.name "float")
    [.comp "ListComp" [.binop "Mult" (.name "x") (.name "u")] [.mk ["x"] (.name "a_b") []]] [],
    [("a_b", "a b")]⟩)⟩]
set_option maxRecDepth 4000 in
example : namesOf (formulaRequired fScoped) = some ["a b", "u"] ∧
    reqOf (materialize ops0 L0 fScoped) = some ["a b"] ∧ usedColumns L0 fScoped = ["a b"] ∧
    valsOf (materialize ops0 (L0.restrict ["a b"]) fScoped) = valsOf (materialize ops0 L0 fScoped) ∧
    failed (materialize ops0 (L0.remove "a b") fScoped) = true ∧
    failed (materialize ops0 (L0.remove "x") fScoped) = false := by decide

/-- `NotOnlyLazy` is needed: `{(lambda v: v + w)(x)}` mentions the context name `w` only inside the
lambda body; with operations that never run the closure the evaluation succeeds without it (`w` is
reported before materialisation: a name in a lazy position need not be necessary) -/
def opsNoCall : Ops Nat := { ops0 with closure := fun _ _ _ _ => 0 }
def fLazy : List PFactor :=
  [⟨"(lambda v: v + w)(x)", .python (some ⟨.call (.lambda ["v"] [] (.binop "Add" (.name "v") (.name "w")))
    [.name "x"] [], []⟩)⟩]
set_option maxRecDepth 4000 in
example : namesOf (formulaRequired fLazy) = some ["x", "w"] ∧
    (fLazy.flatMap factorStrictReads = ["x"]) ∧ (fLazy.flatMap factorReads = ["w", "x"]) ∧
    failed (materialize opsNoCall { L0 with context := .dict [] } fLazy) = false ∧
    failed (materialize opsNoCall ({ L0 with context := .dict [] }.remove "x") fLazy) = true := by decide

/- a reserved name as a data column: the Python factor is rejected, the looked-up factor is not -/
set_option maxRecDepth 4000 in
example : failed (materialize ops0 { L0 with data := L0.data ++ [("__FORMULAIC_SPEC__", 7)] } fGood) = true ∧
    failed (materialize ops0 { L0 with data := L0.data ++ [("__FORMULAIC_SPEC__", 7)] } [⟨"x", .lookup⟩]) = false := by
  decide

/-- the wildcard on concrete input: `log(y) + `a b` ~ .` over columns x, y, C, `a b` -/
example : (match Dot.expand ["x", "y", "C", "a b"]
      (lhsUsed [⟨"log(y)", .python (some ⟨.call (.name "log") [.name "y"] [], []⟩)⟩, ⟨"+", .other⟩, ⟨"a b", .name⟩]) with
    | .ok ts => ts.map (fun t => t.map (·.expr)) | .error _ => []) = [["x"], ["C"]] := by decide

end witnesses

end FormulaicVerif.Props.C17
