import FormulaicVerif.Proofs.C17Cover
import FormulaicVerif.Proofs.C17Dot
/-! # C17 — Required variables, name resolution order and '.' expansion are exact

Property theorems only; helper lemmas are in `Proofs/C17*.lean`. Every `theorem` in this file is an
obligation audited with `#print axioms`. The statements are about the executable models
`Model/Variables.lean` (namespace `Model.Variables`), `Model/LayeredMapping.lean` (`Model.LMap`, the
layered-mapping model of C19) and, for `.`, the parser model's `applyPlain` (`Model/Eval.lean`) —
the functions the `c17` correspondence engine runs. Reference notions (`firstLayer`, `valueOf`,
`lookupAll`, `occs`, `usedColumns`, the side conditions) are in `Spec/Variables.lean`.

Side conditions that the proofs force, and what they mean for the real code:
* `AliasOK` (contract of `sanitize_variable_names`, checked per case by the harness);
* `Unshadowed` (assumption: a reported name that a lower layer also binds is not "necessary");
* `PlainUse.noAttrOnData` / `BareVar` — finding C17-F2; `PlainUse.noDotQuoted` — finding C17-F3;
  `PlainBefore.noTransformNamed` — finding C17-F1 (rest of D15b); `PlainUse.noCollision`,
  `PlainBefore.noCallableData` — corner cases of the same kind (a column literally named `ns.v`
  next to the attribute access `ns.v`; a data column that is called).
Negative witnesses at the end of the file show that each of these conditions is needed. -/
namespace FormulaicVerif.Props.C17
open FormulaicVerif.Model FormulaicVerif.Model.Variables FormulaicVerif.Model.LMap
open FormulaicVerif.Spec.Variables FormulaicVerif.Spec.Containers FormulaicVerif.Proofs.C17

variable {ν : Type}

/-! ## 1. Names resolve to the data first, then the context, then the transforms -/

/-- C17.1a  On the materializer's layered context, `get_with_layer_name` returns the value held by
the first of data, context, transforms that contains the key together with that layer's name (and
nothing for a key in no layer); plain lookup returns the same value (derived from C19.4a
`lm_lookup_topfirst` and C19.4e `lm_named_lookup_consistent`). -/
theorem resolution_order (L : Layers ν) (k : String) :
    L.lm.getWithLayerName k = firstLayer L k ∧
    L.lm.get k = valueOf L k ∧
    (L.lm.getWithLayerName k).map (·.1) = L.lm.get k :=
  ⟨getWithLayerName_lm L k, get_lm L k, FormulaicVerif.Props.C19.lm_named_lookup_consistent L.lm k⟩

/-- C17.1a'  The caller's context may itself be a layered mapping (`capture_context()`, the frame
capture of `model_matrix`, an explicit `LayeredMapping`). Whatever its nesting, a key that the data
does not hold and the context does is reported with the value of its first binding inside the
context (top first); and when no sub-layer of the context is named, the reported source is exactly
`context` — an unnamed nested layer inherits the name of its closest named parent. -/
theorem context_source (L : Layers ν) (k : String) (v : ν)
    (hd : L.data.lookup k = none) (hc : (contextItems L).lookup k = some v) :
    (∃ n, L.lm.getWithLayerName k = some (v, n)) ∧
    (allUnnamed L.context = true → L.lm.getWithLayerName k = some (v, some "context")) := by
  constructor
  · have h1 := getWithLayerName_lm L k
    have h2 := firstLayer_fst L k
    rw [valueOf_eq, hd, hc] at h2
    rw [h1]
    cases hf : firstLayer L k with
    | none => rw [hf] at h2; cases h2
    | some p =>
      rw [hf] at h2
      simp only [Option.map, Option.some.injEq] at h2
      exact ⟨p.2, by rw [← h2]⟩
  · intro hu
    rw [getWithLayerName_lm, firstLayer_context L hu k v hd hc]

example : allUnnamed (ν := Nat) (.lm none [("a", 1)] [.lm none [] [.dict [("m", 2)]], .dict [("g", 3)]]) = true := by
  decide

/-- C17.1b  The source reported for a variable is where its value comes from. A looked-up factor
gets the value and the name of the first layer containing its name (`NameError` if none does). In
a Python factor every identifier is resolved through the back-quoted name it stands for, data >
context > transforms > builtins, and the source recorded for a key that is not a sanitised name is
the name of the first layer containing it. -/
theorem reported_source_is_first_layer (L : Layers ν) :
    (∀ n, lookupFactor L n = match firstLayer L n with
        | some (v, layer) => .ok (v, [Var.ofValue n layer])
        | none => .error (.nameError n)) ∧
    (∀ c, AliasOK L c →
      (∀ id, resolve L (evalEnv L c.aliases) id = lookupAll L (unalias c.aliases id)) ∧
      (∀ k, (∀ b ∈ c.aliases, b.1 = k → b.1 = b.2) →
        layerNameFor (evalEnv L c.aliases) k = match firstLayer L k with
          | some (_, n) => n
          | none => none)) :=
  ⟨lookupFactor_eq L, fun c hok =>
    ⟨resolve_evalEnv L c hok, fun k hk => layerName_evalEnv L c hok k (aliasVal_none_of L _ k hk)⟩⟩

example : AliasOK (ν := Nat) ⟨[("a b", 1)], .dict [], [], []⟩
    ⟨.call (.name "log") [.name "a_b"] [], [("a_b", "a b")]⟩ :=
  ⟨by decide, by intro a ha; simp at ha; subst ha; decide, by intro o ho; simp [occs, chainOcc, occsList, occsKws] at ho; rcases ho with h | h <;> subst h <;> decide⟩

/-! ## 2. `_get_ast_node_variables` -/

/-- C17.2a  Fuel sufficiency: with a budget of at least the number of nodes the breadth-first loop
finishes, and its result does not depend on the budget. -/
theorem ast_variables_fuel_sufficient (e : Expr) (aliases : List (String × String)) (fuel : Nat)
    (h : e.size ≤ fuel) : bfs aliases fuel [.node e] [] = some (astVariables e aliases) := by
  obtain ⟨r, hr⟩ := bfs_isSome aliases e.size [.node e] [] (by simp [itemsSize, Item.size])
  have hast : astVariables e aliases = r := by simp only [astVariables, hr]
  rw [hast]
  have mono : ∀ (fuel : Nat) (q : List Item) (acc r : List Var),
      bfs aliases fuel q acc = some r → bfs aliases (fuel + 1) q acc = some r := by
    intro fuel
    induction fuel with
    | zero => intro q acc r h; cases q with
      | nil => simpa [bfs] using h
      | cons it todo => simp [bfs] at h
    | succ n ih => intro q acc r h; cases q with
      | nil => simpa [bfs] using h
      | cons it todo => simp only [bfs] at h ⊢; exact ih _ _ _ h
  obtain ⟨d, rfl⟩ := Nat.exists_eq_add_of_le h
  induction d with
  | zero => exact hr
  | succ d ih => exact mono _ _ _ _ (ih (Nat.le_add_right _ _))

/-- C17.2b  The extraction reports exactly one variable per `Name` node: the variables are those of
the occurrences `occs e` (the attribute chain the name is the base of, role `callable` iff the
chain is called, aliases undone on the whole dotted name), and the bases of the occurrences are
exactly the identifiers CPython looks up when evaluating `e`. -/
theorem ast_variables_cover_names (e : Expr) (aliases : List (String × String)) :
    (∀ v, v ∈ astVariables e aliases ↔ ∃ o ∈ occs e, v = o.toVar aliases) ∧
    (∀ id, id ∈ freeNames e ↔ ∃ o ∈ occs e, o.base = id) :=
  ⟨astVariables_mem e aliases, fun id => mem_freeNames_iff id e⟩

/-! ## 3. Evaluation and `NameError` -/

/-- C17.3a  The value (or error) of an expression depends only on what its free names resolve to. -/
theorem eval_depends_on_free_names (ops : Ops ν) (ρ ρ' : String → Option ν) (e : Expr)
    (h : ∀ id ∈ freeNames e, ρ id = ρ' id) : eval ops ρ e = eval ops ρ' e :=
  eval_congr ops ρ ρ' e h

/-- C17.3b  Whatever the operations do, an unbound free name makes the evaluation fail (the strict
fragment evaluates every sub-expression). -/
theorem eval_fails_on_unbound_name (ops : Ops ν) (ρ : String → Option ν) (e : Expr) (x : String)
    (hx : x ∈ freeNames e) (hu : ρ x = none) : ∃ err, eval ops ρ e = .error err :=
  eval_unbound ops ρ x hu e hx

/-- C17.3c  `NameError` exactly when a free name is unbound: a `NameError` always names an unbound
free name; and when the operations themselves cannot fail, the evaluation succeeds iff every free
name is bound, and every failure is such a `NameError`. -/
theorem eval_nameError_iff (ops : Ops ν) (ρ : String → Option ν) (e : Expr) :
    (∀ x, eval ops ρ e = .error (.nameError x) → x ∈ freeNames e ∧ ρ x = none) ∧
    (OpsTotal ops →
      ((∃ v, eval ops ρ e = .ok v) ↔ ∀ id ∈ freeNames e, ρ id ≠ none) ∧
      (∀ err, eval ops ρ e = .error err → ∃ x, err = .nameError x ∧ x ∈ freeNames e ∧ ρ x = none)) := by
  refine ⟨fun x h => eval_nameError_sound ops ρ x e h, fun ht => ⟨⟨?_, eval_total ops ht ρ e⟩, ?_⟩⟩
  · rintro ⟨v, hv⟩ id hid hn
    obtain ⟨err, herr⟩ := eval_unbound ops ρ id hn e hid
    rw [hv] at herr; cases herr
  · intro err herr
    obtain ⟨x, hx⟩ := eval_total_err ops ht ρ err e herr
    subst hx
    exact ⟨x, rfl, eval_nameError_sound ops ρ x e herr⟩

example : OpsTotal (ν := Nat) ⟨fun _ => 0, fun v _ => .ok v, fun f _ _ => .ok f, fun _ v => .ok v,
    fun _ l _ => .ok l, fun v _ => .ok v, fun _ _ => 0⟩ :=
  ⟨fun v _ => ⟨v, rfl⟩, fun f _ _ => ⟨f, rfl⟩, fun _ v => ⟨v, rfl⟩, fun _ l _ => ⟨l, rfl⟩, fun v _ => ⟨v, rfl⟩⟩

/-! ## 4. Sufficiency and necessity, semantically -/

/-- C17.4a  Materialising on the data restricted to ANY set of columns that contains every data
column the formula reads gives the same outcome and the same factor values. -/
theorem restrict_sufficient (ops : Ops ν) (L : Layers ν) (fs : List PFactor) (keep : List String)
    (hok : ∀ f ∈ fs, FactorOK L f) (hkeep : ∀ k ∈ usedColumns L fs, k ∈ keep) :
    (materialize ops (L.restrict keep) fs).map (·.1) = (materialize ops L fs).map (·.1) := by
  rw [materialize_vals, materialize_vals]
  apply evalFactors_congr
  intro f hf
  have hin : ∀ k ∈ factorReads f, k ∈ dataKeys L → k ∈ keep := fun k hk hd =>
    hkeep k ((mem_usedColumns L fs k).2 ⟨List.mem_flatMap.2 ⟨f, hf, hk⟩, hd⟩)
  have hok' : FactorOK (L.restrict keep) f := by
    have := hok f hf
    unfold FactorOK at this ⊢
    split
    · rename_i c hc; rw [hc] at this; exact aliasOK_restrict this keep
    · trivial
  exact evalFactor_congr ops L (L.restrict keep) f (hok f hf) hok'
    (fun k hk => valueOf_restrict L keep k (hin k hk))
    (fun k hk => lookupAll_restrict L keep k (hin k hk))

/-- helper-free form of necessity used below: removing a key the formula reads, that no lower layer
binds, makes the materialisation fail with the factor-evaluation error -/
theorem remove_necessary (ops : Ops ν) (L : Layers ν) (fs : List PFactor) (v : String)
    (hok : ∀ f ∈ fs, FactorOK L f) (hv : v ∈ fs.flatMap factorReads) (hu : Unshadowed L v) :
    ∃ cause, materialize ops (L.remove v) fs = .error (.factorEvaluation cause) := by
  obtain ⟨f, hf, hvf⟩ := List.mem_flatMap.1 hv
  have hok' : FactorOK (L.remove v) f := by
    have := hok f hf
    unfold FactorOK at this ⊢
    split
    · rename_i c hc; rw [hc] at this; exact aliasOK_remove this v
    · trivial
  exact materialize_fails ops _ fs (evalFactors_fails ops _ fs f hf
    (evalFactor_unbound ops _ f hok' v hvf (lookupAll_remove_self L v hu) (firstLayer_remove_self L v hu)))

/-! ## 5. The reported sets -/

/-- C17.5a  After materialisation (`ModelSpec.required_variables = variables_by_source['data']`):
if data columns are used in Python code as bare names (`PlainUse`), the materialisation succeeds on
the data restricted to exactly the reported columns, with the same factor values. -/
theorem required_sufficient (ops : Ops ν) (L : Layers ν) (fs : List PFactor)
    (hok : ∀ f ∈ fs, FactorOK L f) (hplain : ∀ f ∈ fs, FactorPlain L f)
    (vals : List ν) (vars : List Var) (hm : materialize ops L fs = .ok (vals, vars)) :
    (materialize ops (L.restrict (specRequired vars)) fs).map (·.1) = .ok vals := by
  rw [restrict_sufficient ops L fs _ hok (fun k hk => cover_post ops L fs hok hplain vals vars hm k hk), hm]
  rfl

/-- C17.5b  After materialisation: removing any reported variable that no lower layer binds and
that is not the name of a dotted chain makes the materialisation fail with the factor-evaluation
error. -/
theorem required_necessary (ops : Ops ν) (L : Layers ν) (fs : List PFactor)
    (hok : ∀ f ∈ fs, FactorOK L f)
    (vals : List ν) (vars : List Var) (hm : materialize ops L fs = .ok (vals, vars))
    (v : String) (hv : v ∈ specRequired vars) (hu : Unshadowed L v) (hb : BareVar fs v) :
    ∃ cause, materialize ops (L.remove v) fs = .error (.factorEvaluation cause) := by
  have hv' : v ∈ vars.map (·.name) := by
    simp only [specRequired, List.mem_map, List.mem_filter] at hv ⊢
    obtain ⟨u, ⟨hu1, _⟩, hu2⟩ := hv
    exact ⟨u, hu1, hu2⟩
  exact remove_necessary ops L fs v hok (post_name_read ops L fs vals vars hm v hv' hb) hu

/-- C17.5c  Before materialisation (`Formula.required_variables`): under `PlainUse` and
`PlainBefore` (no data column named like a transform or called inside Python code) the
materialisation on the data restricted to the reported names has the same outcome and values as on
the full data. -/
theorem required_before_sufficient (ops : Ops ν) (L : Layers ν) (fs : List PFactor)
    (hok : ∀ f ∈ fs, FactorOK L f) (hplain : ∀ f ∈ fs, FactorPlain L f)
    (hbefore : ∀ f ∈ fs, FactorPlainBefore L f)
    (pre : List Var) (hp : formulaRequired fs = .ok pre) :
    (materialize ops (L.restrict (pre.map (·.name))) fs).map (·.1) = (materialize ops L fs).map (·.1) :=
  restrict_sufficient ops L fs _ hok (fun k hk => cover_pre L fs hplain hbefore pre hp k hk)

/-- C17.5d  Before materialisation: removing any reported variable that no lower layer binds and
that is not the name of a dotted chain makes the materialisation fail with the factor-evaluation
error. -/
theorem required_before_necessary (ops : Ops ν) (L : Layers ν) (fs : List PFactor)
    (hok : ∀ f ∈ fs, FactorOK L f)
    (pre : List Var) (hp : formulaRequired fs = .ok pre)
    (v : String) (hv : v ∈ pre.map (·.name)) (hu : Unshadowed L v) (hb : BareVar fs v) :
    ∃ cause, materialize ops (L.remove v) fs = .error (.factorEvaluation cause) :=
  remove_necessary ops L fs v hok (pre_name_read fs pre hp v hv hb) hu

/-! ## 6. The wildcard -/

/-- C17.6a  `.` expands to one lookup term per data column that is not among the left-hand-side
variables, in data order (a sublist of the columns), without duplicates; for duplicate-free column
lists the first-occurrence filter is the identity. The function is the parser model's `applyPlain`
on the `.` operator, with `used` computed by `Token.required_variables` of the left-hand-side
tokens. -/
theorem dot_expansion (cols : List String) (lhs : List PTok) :
    let unused := (firstOcc cols).filter (fun c => !(lhsUsed lhs).contains c)
    Dot.expand cols (lhsUsed lhs) = .ok (unused.map (fun c => [Factor.mk c .lookup])) ∧
    unused.Nodup ∧ unused.Sublist cols ∧
    (∀ c, c ∈ unused ↔ c ∈ cols ∧ c ∉ lhsUsed lhs) ∧
    (cols.Nodup → unused = cols.filter (fun c => !(lhsUsed lhs).contains c)) := by
  refine ⟨expand_eq cols _, (FormulaicVerif.Proofs.C19.firstOcc_nodup cols).sublist List.filter_sublist,
    List.filter_sublist.trans (firstOcc_sublist cols), ?_, ?_⟩
  · intro c
    simp [List.mem_filter, FormulaicVerif.Proofs.C19.mem_firstOcc]
  · intro h
    simp only [FormulaicVerif.Proofs.C19.firstOcc_of_nodup cols h]

/-- C17.6b  The operator the expansion is attached to is the `.` of every generated operator table
(regenerated from `DefaultOperatorResolver.operators` on every run). -/
theorem dot_operator_in_table (twosided multipart multistage : Bool) :
    (Gen.defaultTable twosided multipart multistage).lookup "." = some [Dot.dotOp] := by
  cases twosided <;> cases multipart <;> cases multistage <;> decide


/-! ## Non-vacuity: a concrete instance that satisfies every hypothesis, and negative witnesses
showing that each side condition is needed (all by evaluation of the model) -/
section witnesses

def ops0 : Ops Nat :=
  ⟨fun _ => 0, fun v _ => .ok (v + 100), fun f as _ => .ok (f + as.sum), fun _ v => .ok v,
    fun _ l r => .ok (l + r), fun v _ => .ok v, fun _ vs => vs.sum⟩

/-- data `x`, `C`, `a b`, `p.q`; context `LayeredMapping({u}, {w})` (the shape `capture_context()` produces); the generated
transforms; builtin `float` -/
def L0 : Layers Nat :=
  ⟨[("x", 1), ("C", 2), ("a b", 3), ("p.q", 5)], .lm none [] [.dict [("u", 4)], .dict [("w", 6)]],
    Gen.transformNames.map (fun n => (n, 1000)), [("float", 9)]⟩

def valsOf (r : Except MatErr (List Nat × List Var)) : Option (List Nat) :=
  match r with | .ok p => some p.1 | .error _ => none
def namesOf (r : Except PreErr (List Var)) : Option (List String) :=
  match r with | .ok vs => some (vs.map (·.name)) | .error _ => none
def reqOf (r : Except MatErr (List Nat × List Var)) : Option (List String) :=
  match r with | .ok p => some (specRequired p.2) | .error _ => none
def failed (r : Except MatErr (List Nat × List Var)) : Bool :=
  match r with | .ok _ => false | .error _ => true

/-- `x + {log(`a b`) + u}` -/
def cGood : PyCode := ⟨.binop "Add" (.call (.name "log") [.name "a_b"] []) (.name "u"), [("a_b", "a b")]⟩
def fGood : List PFactor := [⟨"x", .lookup⟩, ⟨"log(`a b`) + u", .python (some cGood)⟩]

/- the instance satisfies the hypotheses of C17.5a–d … -/
set_option maxRecDepth 4000 in
example : (∀ f ∈ fGood, FactorOK L0 f) ∧ (∀ f ∈ fGood, FactorPlain L0 f) ∧
    (∀ f ∈ fGood, FactorPlainBefore L0 f) ∧ Unshadowed L0 "a b" ∧ BareVar fGood "a b" := by
  have hA : AliasOK L0 cGood := ⟨by decide, by decide, by decide⟩
  have hP : PlainUse L0 cGood := ⟨by decide, by decide, by decide⟩
  have hB : PlainBefore L0 cGood := ⟨by decide, by decide⟩
  refine ⟨?_, ?_, ?_, ⟨by decide, by decide, by decide⟩, ?_⟩
  · intro f hf; simp [fGood] at hf; rcases hf with h | h <;> subst h
    · trivial
    · exact hA
  · intro f hf; simp [fGood] at hf; rcases hf with h | h <;> subst h
    · trivial
    · exact hP
  · intro f hf; simp [fGood] at hf; rcases hf with h | h <;> subst h
    · trivial
    · exact hB
  · intro f hf c hc o ho hn
    simp [fGood] at hf; rcases hf with h | h <;> subst h
    · cases hc
    · have : c = cGood := by simpa using hc.symm
      subst this
      revert o; decide

/- … and behaves as the theorems say: reported before `{x, u, a b}` (the context name `u` is
reported: documented over-approximation), after `{x, a b}`; sufficient; necessary -/
set_option maxRecDepth 4000 in
example : namesOf (formulaRequired fGood) = some ["x", "u", "a b"] ∧
    reqOf (materialize ops0 L0 fGood) = some ["x", "a b"] ∧
    valsOf (materialize ops0 L0 fGood) = some [1, 1007] ∧
    valsOf (materialize ops0 (L0.restrict ["x", "a b"]) fGood) = some [1, 1007] ∧
    failed (materialize ops0 (L0.remove "a b") fGood) = true ∧
    failed (materialize ops0 (L0.remove "x") fGood) = true := by decide

/-- finding C17-F1 (`noTransformNamed` is needed): `{C + 1}` with a data column `C` -/
def fC : List PFactor := [⟨"C + 1", .python (some ⟨.binop "Add" (.name "C") (.const "1"), []⟩)⟩]
set_option maxRecDepth 4000 in
example : namesOf (formulaRequired fC) = some [] ∧ usedColumns L0 fC = ["C"] ∧
    valsOf (materialize ops0 L0 fC) = some [2] ∧
    valsOf (materialize ops0 (L0.restrict []) fC) = some [1000] := by decide

/-- finding C17-F2 (`noAttrOnData` / `BareVar` are needed): `{x.T}` and `x.clip(0)` -/
def fAttr : List PFactor :=
  [⟨"x.T", .python (some ⟨.attr (.name "x") "T", []⟩)⟩,
   ⟨"x.clip(0)", .python (some ⟨.call (.attr (.name "x") "clip") [.const "0"] [], []⟩)⟩]
set_option maxRecDepth 4000 in
example : namesOf (formulaRequired fAttr) = some ["x.T"] ∧
    reqOf (materialize ops0 L0 fAttr) = some ["x.T", "x.clip"] ∧ usedColumns L0 fAttr = ["x", "x"] ∧
    failed (materialize ops0 (L0.restrict ["x.T", "x.clip"]) fAttr) = true ∧
    failed (materialize ops0 (L0.remove "x.T") fAttr) = false := by decide

/-- finding C17-F3 (`noDotQuoted` is needed): log(`p.q`) with a data column `p.q` -/
def fQDot : List PFactor :=
  [⟨"log(`p.q`)", .python (some ⟨.call (.name "log") [.name "p_q"] [], [("p_q", "p.q")]⟩)⟩]
set_option maxRecDepth 4000 in
example : reqOf (materialize ops0 L0 fQDot) = some [] ∧ usedColumns L0 fQDot = ["p.q"] ∧
    failed (materialize ops0 (L0.restrict []) fQDot) = true := by decide

/- `Unshadowed` is needed: with `x` also bound by the context, removing the data column falls
through to the context -/
set_option maxRecDepth 4000 in
example : failed (materialize ops0 ({ L0 with context := .lm none [] [.dict [("u", 4)], .lm none [] [.dict [("x", 7)]]] }.remove "x") fGood) = false ∧
    valsOf (materialize ops0 ({ L0 with context := .lm none [] [.dict [("u", 4)], .lm none [] [.dict [("x", 7)]]] }.remove "x") fGood) = some [7, 1007] := by decide

/-- the wildcard on concrete input: `log(y) + `a b` ~ .` over columns x, y, C, `a b` -/
example : (match Dot.expand ["x", "y", "C", "a b"]
      (lhsUsed [⟨"log(y)", .python (some ⟨.call (.name "log") [.name "y"] [], []⟩)⟩, ⟨"+", .other⟩, ⟨"a b", .name⟩]) with
    | .ok ts => ts.map (fun t => t.map (·.expr)) | .error _ => []) = [["x"], ["C"]] := by decide

end witnesses

end FormulaicVerif.Props.C17
