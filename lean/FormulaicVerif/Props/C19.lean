import FormulaicVerif.Proofs.C19Simp
import FormulaicVerif.Proofs.C19Extra
import FormulaicVerif.Proofs.C19Paths
import FormulaicVerif.Proofs.C19LM
import FormulaicVerif.Proofs.C19SF
import FormulaicVerif.Proofs.C19Proto
import FormulaicVerif.Proofs.C19LMX
import FormulaicVerif.Proofs.C19StF
import FormulaicVerif.Gen.Containers
import FormulaicVerif.Proofs.C19OSet
/-! # C19 — Structured, layered-mapping and formula containers obey their container laws

Property theorems only; helper lemmas are in `Proofs/C19*.lean`. Every `theorem` in this file is
an obligation that the check audits with `#print axioms`. The models are `Model/Structured.lean`
(`Model.St`), `Model/LayeredMapping.lean` (`Model.LMap`), `Model/SimpleFormula.lean` (`Model.SFm`);
the functions named here are the functions `Engines/C19.lean` runs. -/

namespace FormulaicVerif.Props.C19
open FormulaicVerif.Model FormulaicVerif.Spec.Containers FormulaicVerif.Proofs.C19

/-! ## 1. `Structured._map`: same shape, each leaf visited exactly once in `_flatten` order -/
section structured
open FormulaicVerif.Model.St
variable {α β : Type}

/-- C19.1a  The log of calls `func(leaf, context)` made by `_map` IS the `_flatten` sequence of the
structure (as a list: every leaf exactly once, in flatten order), for every nesting, and the value
returned alongside the log is `_map`'s value. -/
theorem map_log_is_flatten (f : α → Path → β) (ctx : Path) (v : Val α) :
    (mapLog f ctx v).2 = flattenP ctx v ∧ (mapLog f ctx v).2.map (·.1) = flatten v ∧
      (mapLog f ctx v).1 = mapV f ctx v :=
  ⟨mapLog_snd f v ctx, by rw [mapLog_snd, flattenP_fst], mapLog_fst f v ctx⟩

/-- C19.1b  `_map` preserves the shape: the result has the shape of the structure after its
constructors are re-run (`norm`: `root` key last); for everything that came out of a constructor
(`RootLast`) that is the shape itself. -/
theorem map_shape (f : α → Path → β) (ctx : Path) (v : Val α) :
    shape (mapV f ctx v) = shape (norm v) ∧ (RootLast v → shape (mapV f ctx v) = shape v) :=
  ⟨shape_mapV f v ctx, fun h => by rw [shape_mapV, norm_of_rootLast v h]⟩

example : RootLast (Val.node [("a", .tup [.leaf 1, .node [("root", .leaf 2)]]), ("root", .leaf (3 : Nat))]) := by
  simp [RootLast, RootLastI, RootLastT, rootLast, isRootKey]

/-- C19.1c  As a dictionary, `_map` of a `Structured` is the key-wise map: same keys (a permutation:
only `root` may move), and under every key the mapped value with the extended context. -/
theorem map_is_dict_map (f : α → Path → β) (ctx : Path) (kvs : Items α) :
    ∃ r, mapV f ctx (.node kvs) = .node r ∧
      (∀ k, r.lookup k = (kvs.lookup k).map (mapV f (ctx ++ [.key k]))) ∧
      (r.map (·.1)).Perm (kvs.map (·.1)) := by
  refine ⟨rootLast (mapI f ctx kvs), by simp [mapV], ?_, ?_⟩
  · intro k; rw [lookup_rootLast, lookup_mapI]
  · have := (rootLast_perm (mapI f ctx kvs)).map (·.1)
    rwa [keys_mapI] at this

/-- C19.1d  `_flatten` of the mapped structure is `func` applied along the flatten sequence of the
re-constructed structure; for constructor-built structures it is exactly `map func (flatten s)`. -/
theorem flatten_map (f : α → Path → β) (ctx : Path) (v : Val α) :
    flatten (mapV f ctx v) = (flattenP ctx (norm v)).map (fun e => f e.1 e.2) ∧
    (RootLast v → flatten (mapV f ctx v) = (flattenP ctx v).map (fun e => f e.1 e.2)) ∧
    (RootLast v → ∀ g : α → β, flatten (mapV (fun a _ => g a) ctx v) = (flatten v).map g) := by
  refine ⟨flatten_mapV f v ctx, fun h => by rw [flatten_mapV, norm_of_rootLast v h], fun h g => ?_⟩
  rw [flatten_mapV, norm_of_rootLast v h, ← flattenP_fst v ctx, List.map_map]
  rfl

/-- C19.1e  In general (root key anywhere) the leaves of the mapped structure are the images of
the leaves, up to the order change caused by re-running the constructors. -/
theorem flatten_map_perm (f : α → Path → β) (ctx : Path) (v : Val α) :
    (flatten (mapV f ctx v)).Perm ((flattenP ctx v).map (fun e => f e.1 e.2)) := by
  rw [flatten_mapV]
  exact (flattenP_norm_perm v ctx).map _

/-- C19.1f  The context handed to `func` addresses the leaf it is called on: looking the context
up as a path in the structure (`s[context]`) returns that leaf. -/
theorem map_paths_truthful (f : α → Path → β) (v : Val α) (hw : WF v) :
    ∀ e ∈ (mapLog f [] v).2, lookupPath e.2 v = .ok (.leaf e.1) := by
  intro e he
  rw [mapLog_snd] at he
  obtain ⟨q, hp, hl⟩ := flattenP_paths v [] e.1 e.2 hw he
  simp only [List.nil_append] at hp
  rw [hp]; exact hl

example : WF (Val.node [("a", .tup [.leaf 1, .node [("root", .leaf 2)]]), ("root", .leaf (3 : Nat))]) := by
  simp [WF, WFI, WFT]

/-! ## 2. `_simplify` is idempotent and leaf preserving -/

/-- C19.2a  `_simplify()` computes `simpObj` (the recursive simplification used for nested values). -/
theorem simplify_default_is_simpObj (kvs : Items α) :
    simplify true true false kvs = .ok (simpObj (.node kvs)) := by
  rw [simplify_eq, simpVal_default _ rfl]; rfl

/-- C19.2b  Idempotence: simplifying a simplified value changes nothing — for the recursive
simplification of any value, and for `_simplify(recurse=r, unwrap=u)` under every flag combination
whenever the first result is still a `Structured`. In-place and copying simplification return the
same value. -/
theorem simplify_idempotent :
    (∀ v : Val α, simpObj (simpObj v) = simpObj v) ∧
    (∀ (r u i : Bool) (kvs s : Items α), simplify r u i kvs = .ok (.node s) →
      simplify r u i s = .ok (.node s)) ∧
    (∀ (r : Bool) (kvs : Items α), simplify r false true kvs = simplify r false false kvs) := by
  refine ⟨simpObj_idem, ?_, ?_⟩
  · intro r u i kvs s h
    rw [simplify_eq] at h ⊢
    cases hc : (i && u)
    · simp only [hc, Bool.false_eq_true, if_false, Except.ok.injEq] at h ⊢
      exact simpVal_idem r u _ s h
    · simp [hc] at h
  · intro r kvs; simp [simplify_eq]

/-- C19.2c  Leaf preservation: the `_flatten` sequence is unchanged by simplification, under
every flag combination. -/
theorem simplify_flatten :
    (∀ v : Val α, flatten (simpObj v) = flatten v) ∧
    (∀ (r u i : Bool) (kvs : Items α) (v : Val α), simplify r u i kvs = .ok v →
      flatten v = flattenI kvs) := by
  refine ⟨flatten_simpObj, ?_⟩
  intro r u i kvs v h
  rw [simplify_eq] at h
  cases hc : (i && u)
  · simp only [hc, Bool.false_eq_true, if_false, Except.ok.injEq] at h
    rw [← h, flatten_simpVal]; rfl
  · simp [hc] at h

/-! ## 3. `_update` and `_merge` are dictionary merges -/

/-- C19.3a  `s._update(root, **kw)` is `{**s, **kw, "root": root}`: every key of the updates wins,
every other key keeps its old value, the keys are the old keys followed by the new ones (up to the
constructor moving `root` last); it fails (ValueError) exactly when a key starts with `_`. -/
theorem update_is_dict_merge (s kw : Items α) (root : Option (Val α)) (hkw : (kw.map (·.1)).Nodup) :
    let u := match root with
      | some r => dictSet kw "root" r
      | none => kw
    (u.map (·.1)).Nodup ∧
    ((s ++ u).any (fun kv => badKey kv.1) = false →
      ∃ r, update s root kw = .ok (.node r) ∧
        (∀ k, r.lookup k = match u.lookup k with
          | some v => some v
          | none => s.lookup k) ∧
        (r.map (·.1)).Perm
          (s.map (·.1) ++ (u.map (·.1)).filter (fun k => !(s.map (·.1)).contains k))) ∧
    ((s ++ u).any (fun kv => badKey kv.1) = true → update s root kw = .error .valueError) := by
  intro u
  have hu : (u.map (·.1)).Nodup := by
    cases root with
    | none => exact hkw
    | some r => simp only [u]; rw [keys_dictSet]; exact addKey_nodup _ _ hkw
  have hupd : update s root kw = ctor (dictUpdate s u) := by cases root <;> rfl
  refine ⟨hu, ?_, ?_⟩
  · intro hb
    refine ⟨rootLast (dictUpdate s u), ?_, ?_, ?_⟩
    · rw [hupd, ctor, any_badKey_dictUpdate, hb]; rfl
    · intro k; rw [lookup_rootLast, lookup_dictUpdate s u hu]
      cases List.lookup k u <;> rfl
    · refine ((rootLast_perm _).map (·.1)).trans ?_
      rw [keys_dictUpdate, foldl_addKey, firstOcc_of_nodup _ hu]
  · intro hb
    rw [hupd, ctor, any_badKey_dictUpdate, hb]; rfl

example : (([("a", Val.leaf 1), ("b", .leaf (2 : Nat))] : Items Nat).map (·.1)).Nodup := by decide

/-- C19.3b  `_merge` of objects among which there is a `Structured` and no tuple is the KEY-WISE
merge: the keys are the ordered union of the objects' keys (a bare object counts as `{"root": obj}`),
and under each key is the single value found, or the recursive merge (context extended by the key)
of the values found, in object order; the first failing key fails the merge. If it succeeds, the
result has exactly those keys (a permutation: `root` last) and those values. -/
theorem merge_is_keywise (merger : List α → Except Err α) (fuel : Nat) (ctx : List String)
    (objs : List (Val α)) (hne : objs ≠ []) (hnt : objs.any Val.isTup = false)
    (hsome : objs.any Val.isNode = true) (hwf : ∀ o ∈ objs, ((itemsOf o).map (·.1)).Nodup) :
    merge merger (fuel + 1) ctx objs =
      ((unionKeys objs).mapM (fun k =>
        (mergeEntry merger fuel ctx k (valuesAt k objs)).map (fun m => (k, m)))) >>= ctor ∧
    (∀ r, merge merger (fuel + 1) ctx objs = .ok (.node r) →
      (r.map (·.1)).Perm (unionKeys objs) ∧
      ∀ k ∈ unionKeys objs, ∃ m, mergeEntry merger fuel ctx k (valuesAt k objs) = .ok m ∧
        r.lookup k = some m) := by
  have heq : merge merger (fuel + 1) ctx objs =
      ((unionKeys objs).mapM (fun k =>
        (mergeEntry merger fuel ctx k (valuesAt k objs)).map (fun m => (k, m)))) >>= ctor := by
    rw [merge_succ_group merger fuel ctx objs hne hnt hsome, group_eq objs hwf, mapM_map_except]
  refine ⟨heq, ?_⟩
  intro r hr
  rw [heq] at hr
  cases hm : (unionKeys objs).mapM (fun k =>
      (mergeEntry merger fuel ctx k (valuesAt k objs)).map (fun m => (k, m))) with
  | error e => rw [hm] at hr; simp [bind, Except.bind] at hr
  | ok r0 =>
    rw [hm] at hr
    simp only [bind, Except.bind, ctor] at hr
    split at hr
    · simp at hr
    · simp only [Except.ok.injEq, Val.node.injEq] at hr
      subst hr
      have hk := mapM_keys_except _ _ r0 hm
      refine ⟨?_, ?_⟩
      · rw [← hk]; exact (rootLast_perm r0).map (·.1)
      · intro k hkin
        obtain ⟨m, hm1, hm2⟩ := mapM_lookup_except _ _ r0 (firstOcc_nodup _) hm k hkin
        exact ⟨m, hm1, by rw [lookup_rootLast]; exact hm2⟩

example : ([Val.node [("a", .leaf 1)], .leaf 2, .node [("root", .leaf (3 : Nat)), ("a", .leaf 4)]] : List (Val Nat)) ≠ []
    ∧ List.any [Val.node [("a", .leaf 1)], .leaf 2, .node [("root", .leaf (3 : Nat)), ("a", .leaf 4)]] Val.isTup = false
    ∧ List.any [Val.node [("a", .leaf 1)], .leaf 2, .node [("root", .leaf (3 : Nat)), ("a", .leaf 4)]] Val.isNode = true
    ∧ ∀ o ∈ [Val.node [("a", .leaf 1)], .leaf 2, .node [("root", .leaf (3 : Nat)), ("a", .leaf 4)]],
        ((itemsOf o).map (·.1)).Nodup := by
  refine ⟨by simp, by simp, by simp, ?_⟩
  intro o ho
  simp only [List.mem_cons, List.mem_nil_iff, or_false] at ho
  rcases ho with h | h | h <;> subst h <;> simp [itemsOf]

/-- C19.3c  The other cases of `_merge`: no objects give an empty `Structured`; tuples concatenate
(wrapped under `root` at the top level, bare below it); a mixture of tuples and non-tuples is
refused (ValueError); bare leaves go to `merger`. -/
theorem merge_tuples_concatenate (merger : List α → Except Err α) (fuel : Nat) (ctx : List String)
    (objs : List (Val α)) :
    merge merger (fuel + 1) ctx [] = .ok (.node []) ∧
    (objs ≠ [] → objs.all Val.isTup = true →
      merge merger (fuel + 1) ctx objs =
        if ctx.isEmpty then .ok (.node [("root", .tup (objs.flatMap tupElems))])
        else .ok (.tup (objs.flatMap tupElems))) ∧
    (objs.any Val.isTup = true → objs.all Val.isTup = false →
      merge merger (fuel + 1) ctx objs = .error .valueError) ∧
    (objs ≠ [] → objs.all (fun o => !o.isTup && !o.isNode) = true →
      merge merger (fuel + 1) ctx objs = (merger (objs.flatMap leafOf)).map .leaf) := by
  refine ⟨by simp [merge], ?_, ?_, ?_⟩
  · intro hne hall
    cases objs with
    | nil => exact absurd rfl hne
    | cons o r =>
      rw [merge]
      simp only [List.isEmpty_cons, Bool.false_eq_true, if_false, hall, Bool.not_true,
        Bool.and_false, if_true]
      have hroot : ctor [("root", Val.tup ((o :: r).flatMap tupElems))]
          = .ok (.node [("root", Val.tup ((o :: r).flatMap tupElems))]) := by
        simp [ctor, rootLast, show badKey "root" = false by decide,
          show isRootKey "root" = true by decide]
      rw [hroot]
  · intro hany hall
    cases objs with
    | nil => simp at hany
    | cons o r => rw [merge]; simp [hany, hall]
  · intro hne hall
    cases objs with
    | nil => exact absurd rfl hne
    | cons o r =>
      have h1 : (o :: r).any Val.isTup = false := by
        rw [List.any_eq_false]; intro x hx
        rw [List.all_eq_true] at hall
        have := hall x hx
        simp only [Bool.and_eq_true, Bool.not_eq_eq_eq_not, Bool.not_true] at this
        simp [this.1]
      have h2 : (o :: r).all Val.isTup = false := by
        simp only [List.any_cons, Bool.or_eq_false_iff] at h1
        simp [h1.1]
      have h3 : (o :: r).all (fun o => !o.isNode) = true := by
        rw [List.all_eq_true] at hall ⊢
        intro x hx
        have := hall x hx
        simp only [Bool.and_eq_true] at this
        exact this.2
      rw [merge]
      simp only [List.isEmpty_cons, h1, h2, h3, Bool.false_eq_true, if_false, Bool.false_and, if_true]

/-- C19.3d  The fuel of the model's `_merge` is immaterial: any amount above the nesting depth of
the arguments gives the result the engine computes, and the model artefact `outOfFuel` never
appears (provided the `merger` does not produce it itself). -/
theorem merge_fuel_sufficient (merger : List α → Except Err α) (n : Nat) (ctx : List String)
    (objs : List (Val α)) (hn : heightT objs < n) :
    merge merger n ctx objs = merge merger (mergeFuel objs) ctx objs ∧
    ((∀ xs, merger xs ≠ .error .outOfFuel) → merge merger n ctx objs ≠ .error .outOfFuel) :=
  ⟨merge_fuel merger n (mergeFuel objs) ctx objs hn (by unfold mergeFuel; omega),
   fun hm => merge_no_outOfFuel merger hm n ctx objs hn⟩

end structured

/-! ## 4. `LayeredMapping`: top-first merge of the layers, private writes, consistent views -/
section layered
open FormulaicVerif.Model.LMap
variable {ν : Type}

/-- C19.4a  A layered mapping behaves as the association list obtained by writing its private
layer and then its layers (nested ones expanded the same way) one after the other, top first:
lookup returns the first binding, iteration yields the keys in first-occurrence order. -/
theorem lm_lookup_topfirst (m : LM ν) :
    (∀ k, m.get k = (m.muts ++ flatL m.layers).lookup k) ∧
    m.iter = firstOcc ((m.muts ++ flatL m.layers).map (·.1)) := by
  refine ⟨fun k => ?_, ?_⟩
  · have := get_eq_lookup_flat m.toLayer k
    simpa [LM.get, LM.toLayer, Layer.flat] using this
  · have := keys_firstOcc m.toLayer [] []
    simp only [List.nil_append, List.append_nil] at this
    simp only [LM.iter]
    rw [← firstOcc_of_nodup m.toLayer.keys (by
      simp only [LM.toLayer, Layer.keys, dedup_eq]; exact firstOcc_nodup _), this]
    simp [LM.toLayer, Layer.flat]

/-- C19.4b  Writes are confined to the private layer: `m[k] = v` and `del m[k]` leave the supplied
layers (and the name) untouched — also over whole sequences of writes — and `del` refuses a key
that lives only in a supplied layer. -/
theorem lm_writes_private (m : LM ν) (k : String) (v : ν) :
    (m.set k v).layers = m.layers ∧ (m.set k v).name = m.name ∧
    (∀ m', m.del k = .ok m' → m'.layers = m.layers ∧ m'.name = m.name) ∧
    (dictHas m.muts k = false → m.del k = .error .keyError) ∧
    (∀ ops : List (Op ν), (∀ op ∈ ops, ∀ n p i nm, op ≠ .withLayers n p i nm) →
      (run m ops).layers = m.layers) := by
  refine ⟨rfl, rfl, ?_, ?_, ?_⟩
  · intro m' h
    unfold LM.del at h
    split at h
    · cases h; exact ⟨rfl, rfl⟩
    · cases h
  · intro h; simp [LM.del, h]
  · intro ops
    induction ops generalizing m with
    | nil => intro _; rfl
    | cons op r ih =>
      intro hops
      have hr := fun m' => ih m' (fun op' h' => hops op' (by simp [h']))
      cases op with
      | set k' v' => simp only [run, step]; rw [hr]; rfl
      | del k' =>
        simp only [run, step]
        cases hd : m.del k' with
        | ok m' =>
          simp only []
          rw [hr]
          unfold LM.del at hd
          split at hd
          · cases hd; rfl
          · cases hd
        | error e => simp only []; rw [hr]
      | withLayers n p i nm => exact absurd rfl (hops _ (by simp) n p i nm)

/-- C19.4c  What a write does to lookups: after `m[k] = v` the key `k` maps to `v` and every other
key is unchanged; after a successful `del m[k]` the key falls back to the supplied layers and
every other key is unchanged. -/
theorem lm_set_get (m : LM ν) (k : String) (v : ν) (k' : String) :
    (m.set k v).get k' = (if k' == k then some v else m.get k') ∧
    (∀ m', m.del k = .ok m' → m'.get k' = if k' == k then getL m.layers k' else m.get k') := by
  constructor
  · simp only [LM.get, LM.set, LM.toLayer, Layer.get, dictSet, lookup_dictSet]
    by_cases h : k' = k
    · subst h; simp
    · have hb : (k' == k) = false := by simpa using h
      simp [hb]
  · intro m' h
    unfold LM.del at h
    split at h
    · simp only [Except.ok.injEq] at h
      subst h
      have hl := lookup_filter_key (fun x => !(x == k)) m.muts k'
      simp only [LM.get, LM.toLayer, Layer.get, dictDel]
      rw [hl]
      by_cases hk : k' = k
      · subst hk; simp
      · have hb : (k' == k) = false := by simpa using hk
        simp [hb]
    · cases h

/-- C19.4d  Length, iteration and lookup agree: iteration yields no key twice, `len` is the number
of keys iterated, and a key is iterated exactly when looking it up succeeds. -/
theorem lm_len_iter_consistent (m : LM ν) :
    m.iter.Nodup ∧ m.iter.length = m.len ∧ ∀ k, k ∈ m.iter ↔ (m.get k).isSome = true := by
  have hit : m.iter = firstOcc (m.muts.map (·.1) ++ keysL m.layers) := by
    simp [LM.iter, LM.toLayer, Layer.keys, dedup_eq]
  refine ⟨by rw [hit]; exact firstOcc_nodup _, by rw [hit, LM.len, distinctCount_eq], ?_⟩
  intro k
  rw [(lm_lookup_topfirst m).2, (lm_lookup_topfirst m).1 k, mem_firstOcc, lookup_isSome_iff]

/-- C19.4e  `get_with_layer_name` returns the value plain lookup returns (and nothing for a
missing key). -/
theorem lm_named_lookup_consistent (m : LM ν) (k : String) :
    (m.getWithLayerName k).map (·.1) = m.get k :=
  getNamed_fst m.toLayer [] none k

/-- C19.4f  `with_layers` stacks the new layers on top of (or below) the mapping: the resulting
association list is the new layers' followed by the old one (or the other way round). -/
theorem lm_with_layers_stack (m : LM ν) (new : List (Layer ν)) (inplace : Bool) (name : Option String)
    (prepend : Bool) :
    (m.withLayers new prepend inplace name).toLayer.flat.Perm (m.toLayer.flat ++ flatL new) ∧
    (prepend = true → inplace = false →
      (m.withLayers new prepend inplace name).toLayer.flat = flatL new ++ m.toLayer.flat) ∧
    (prepend = false →
      (m.withLayers new prepend inplace name).toLayer.flat = m.toLayer.flat ++ flatL new) := by
  have flatL_append : ∀ (a b : List (Layer ν)), flatL (a ++ b) = flatL a ++ flatL b := by
    intro a b
    induction a with
    | nil => simp [flatL]
    | cons x r ih => simp [flatL, ih]
  cases new with
  | nil => simp [LM.withLayers, flatL]
  | cons x r =>
    refine ⟨?_, ?_, ?_⟩
    · cases prepend <;> cases inplace <;>
        simp only [LM.withLayers, LM.toLayer, Layer.flat, flatL, flatL_append, List.isEmpty_cons,
          Bool.false_eq_true, if_false, if_true, List.nil_append, List.append_nil, List.append_assoc]
      · exact List.Perm.refl _
      · exact List.Perm.refl _
      · simpa [List.append_assoc] using
          (List.perm_append_comm (l₁ := x.flat ++ flatL r) (l₂ := m.muts ++ flatL m.layers))
      · refine List.Perm.append_left _ ?_
        simpa [List.append_assoc] using
          (List.perm_append_comm (l₁ := x.flat ++ flatL r) (l₂ := flatL m.layers))
    · intro hp hi; subst hp; subst hi
      simp [LM.withLayers, LM.toLayer, Layer.flat, flatL, flatL_append, List.append_assoc]
    · intro hp; subst hp
      cases inplace <;>
        simp [LM.withLayers, LM.toLayer, Layer.flat, flatL, flatL_append, List.append_assoc]

end layered

/-! ## 5. `SimpleFormula` keeps its ordering invariant under every operation sequence -/
section formula
open FormulaicVerif.Model.SFm

/-- C19.5a  Whatever the ordering method (`NONE`, `DEGREE`, `SORT`), its ordering invariant holds
after construction and after ANY finite sequence of operations of the `MutableSequence` protocol:
`insert`, `__setitem__` (index or slice), `__delitem__` (index, slice, extended slice), `append`,
`extend`, `+=`, `pop`, `remove`, `clear`, `reverse`, and the read-only `f[a:b:c]`, `index`, `count`,
`in`, `reversed`, `==` — including operations that raise — at the end and at every intermediate state. For `DEGREE` the invariant is "degrees never decrease", for `SORT`
"no term is `<` an earlier one and every term's factors are in expression order". -/
theorem formula_sorted_invariant (o : SFm.Ordering) (l0 : List Term) (ops : List Op) :
    OrderingInv o (init o l0) ∧ OrderingInv o (run o (init o l0) ops) ∧
    ∀ st ∈ trace o (init o l0) ops, OrderingInv o st.1 :=
  ⟨inv_reorder o l0, run_inv o ops _ (inv_reorder o l0), trace_inv o ops _ (inv_reorder o l0)⟩

/-- C19.5a′  The default ordering spelled out: a `DEGREE`-ordered formula is sorted by degree after
every operation sequence. -/
theorem formula_degree_sorted (l0 : List Term) (ops : List Op) :
    SortedDeg (run .degree (init .degree l0) ops) :=
  (formula_sorted_invariant .degree l0 ops).2.1

/-- C19.5b  `_reorder` is a STABLE sort by degree: sorted, a permutation, and for every degree the
terms of that degree keep their relative order; it does nothing to a sorted list, and nothing at
all under ordering `NONE`. Under `SORT` it yields the factor-sorted terms, sorted by `Term.__lt__`. -/
theorem formula_reorder_stable (l : List Term) :
    SortedDeg (reorder .degree l) ∧ (reorder .degree l).Perm l ∧
    (∀ d, (reorder .degree l).filter (fun t => Term.degree t == d) = l.filter (fun t => Term.degree t == d)) ∧
    (SortedDeg l → reorder .degree l = l) ∧ reorder .none l = l ∧
    SortedLt (reorder .sort l) ∧ (reorder .sort l).Perm (l.map normTerm) ∧
    (∀ t ∈ reorder .sort l, FactorsSorted t) :=
  ⟨sortByDegree_sorted l, sortByDegree_perm l, sortByDegree_filter l, sortByDegree_of_sorted l, rfl,
   sortTerms_sorted _, sortTerms_perm _, (inv_reorder .sort l).2⟩

example : reorder .sort [[⟨"b", .lookup⟩, ⟨"a", .lookup⟩], [⟨"c", .lookup⟩]]
    = [[⟨"c", .lookup⟩], [⟨"a", .lookup⟩, ⟨"b", .lookup⟩]] := by decide

/-- C19.5c  Insertion and replacement: the result is sorted, contains exactly the old terms plus
the new one (resp. with one replaced), and among terms of equal degree the order is the one of the
plain list operation (the insertion position is honoured within its degree class). -/
theorem formula_insert_stable (l l' : List Term) (i : Int) (t : Term) :
    (SFm.insert .degree l i (some t) = .ok l' →
      SortedDeg l' ∧ l'.Perm (t :: l) ∧
      ∀ d, l'.filter (fun x => Term.degree x == d) =
        (insertAt (clampIdx i l.length) t l).filter (fun x => Term.degree x == d)) ∧
    (setItem .degree l i (some t) = .ok l' →
      ∃ n, normIdx i l.length = some n ∧ SortedDeg l' ∧ l'.Perm (l.set n t) ∧
      ∀ d, l'.filter (fun x => Term.degree x == d) = (l.set n t).filter (fun x => Term.degree x == d)) := by
  constructor
  · intro h
    simp only [SFm.insert, Except.ok.injEq] at h
    subst h
    refine ⟨sortByDegree_sorted _, (sortByDegree_perm _).trans ?_, sortByDegree_filter _⟩
    unfold insertAt
    exact (List.perm_middle).trans (List.Perm.cons t (by rw [List.take_append_drop]))
  · intro h
    simp only [setItem] at h
    cases hn : normIdx i l.length with
    | none => simp [hn] at h
    | some n =>
      simp only [hn, Except.ok.injEq] at h
      subst h
      exact ⟨n, rfl, sortByDegree_sorted _, sortByDegree_perm _, sortByDegree_filter _⟩

example : SFm.insert .degree [[⟨"a", .lookup⟩], [⟨"a", .lookup⟩, ⟨"b", .lookup⟩]] 0 (some [⟨"c", .lookup⟩])
    = .ok [[⟨"c", .lookup⟩], [⟨"a", .lookup⟩], [⟨"a", .lookup⟩, ⟨"b", .lookup⟩]] := by rfl

/-- C19.5d  Deletion removes exactly the addressed term and re-orders nothing; the invariant
survives because a sub-sequence of a sorted sequence is sorted. An out-of-range index raises and
changes nothing. -/
theorem formula_delete_exact (l : List Term) (i : Int) :
    (∀ l', delItem l i = .ok l' →
      ∃ n, normIdx i l.length = some n ∧ l' = l.eraseIdx n ∧ l'.Sublist l ∧ (SortedDeg l → SortedDeg l')) ∧
    (normIdx i l.length = none → delItem l i = .error .indexError ∧
      (step .degree l (.del i)).1 = l) := by
  constructor
  · intro l' h
    simp only [delItem] at h
    cases hn : normIdx i l.length with
    | none => simp [hn] at h
    | some n =>
      simp only [hn, Except.ok.injEq] at h
      subst h
      exact ⟨n, rfl, rfl, List.eraseIdx_sublist _ _, fun hs => hs.sublist (List.eraseIdx_sublist _ _)⟩
  · intro hn
    simp [delItem, step, hn, SFm.ofExcept]

/-- C19.5e  SLICES. Slice assignment never changes a formula (a list of terms is rejected as invalid, a
single term as not iterable). `del f[a:b:c]` removes exactly the positions `range(*slice.indices(n))`
— a sub-sequence remains, nothing is re-ordered, step `0` is `ValueError`. `f[a:b:c]` is a new
formula that satisfies the invariant of the same ordering and consists of the selected terms; for a
forward slice (`c > 0`) of a `DEGREE`- or `NONE`-ordered formula it is exactly the list slice. -/
theorem formula_slices (o : SFm.Ordering) (l : List Term) (a b : Option Int) (c : Int) :
    (∀ v, (step o l (.setSlice a b c v)).1 = l ∧ (step o l (.setSlice a b c v)).2.isSome = true) ∧
    (c = 0 → delSliceX l a b c = .error .valueError ∧ getSlice o l a b c = .error .valueError) ∧
    (c ≠ 0 → delSliceX l a b c = .ok (removeIdxs l (sliceIndices a b c l.length)) ∧
      (removeIdxs l (sliceIndices a b c l.length)).Sublist l) ∧
    (∀ s, getSlice o l a b c = .ok s → OrderingInv o s ∧
      (o ≠ .sort → s.Perm ((sliceIndices a b c l.length).filterMap (fun i => l[i]?))) ∧
      (0 < c → OrderingInv o l → o ≠ .sort → s = (sliceIndices a b c l.length).filterMap (fun i => l[i]?))) := by
  refine ⟨?_, ?_, ?_, ?_⟩
  · intro v; cases v <;> simp [step, setSlice, SFm.ofExcept]
  · intro h; subst h; simp [delSliceX, getSlice]
  · intro h
    have hb : (c == 0) = false := by simpa using h
    exact ⟨by simp [delSliceX, hb], removeIdxs_sublist _ _⟩
  · intro s h
    unfold getSlice at h
    split at h
    · cases h
    · simp only [Except.ok.injEq] at h
      subst h
      refine ⟨inv_reorder o _, ?_, ?_⟩
      · intro ho
        cases o with
        | none => exact List.Perm.refl _
        | degree => exact sortByDegree_perm _
        | sort => exact absurd rfl ho
      · intro hc hinv ho
        have hsub := filterMap_getElem?_sublist l _ (sliceIndices_increasing a b c l.length hc)
        cases o with
        | none => rfl
        | degree => exact sortByDegree_of_sorted _ (SortedDeg.sublist hinv hsub)
        | sort => exact absurd rfl ho

example : sliceIndices (some (-2)) none (-1) 5 = [3, 2, 1, 0] ∧ sliceIndices none none 2 5 = [0, 2, 4] ∧
    sliceIndices (some 1) (some (-1)) 1 5 = [1, 2, 3] ∧ removeIdxs [10, 11, 12, 13, 14] [3, 1] = [10, 12, 14] := by
  decide

/-- C19.5e′  The two ways the model writes `del f[a:b]` agree: the extended-slice deletion with step
`1` and integer bounds is the `take`/`drop` form that `formula_sorted_invariant` was first proved for. -/
theorem formula_slice_delete_agrees (l : List Term) (a b : Int) :
    delSliceX l (some a) (some b) 1 = .ok (delSlice l a b) ∧
    ∀ o, step o l (.delSliceX (some a) (some b) 1) = step o l (.delSlice a b) := by
  refine ⟨delSliceX_step_one l a b, fun o => ?_⟩
  simp [step, delSliceX_step_one l a b, SFm.ofExcept]

/-- C19.5f  `clear`, `remove`, searching and `==`. `clear()` always empties the formula (the model's
fuel `len + 1` suffices). `remove(t)` deletes the FIRST term equal to `t` (`Term.__eq__`: same sorted
factor expressions) and nothing else, and raises `ValueError` — changing nothing — when there is
none; `index` returns that first position, `t in f` holds exactly when some term equals `t`, and
`f == other` is term-by-term equality of two sequences of the same length. -/
theorem formula_clear_remove (o : SFm.Ordering) (l : List Term) (t : Term) :
    (step o l .clear).1 = [] ∧
    (∀ n, indexOf l (some t) = some n ↔
      ∃ h : n < l.length, termEq l[n] t = true ∧ ∀ j (hj : j < n), termEq (l[j]'(Nat.lt_trans hj h)) t = false) ∧
    (∀ n, indexOf l (some t) = some n → SFm.remove l (some t) = .ok (l.eraseIdx n) ∧ (l.eraseIdx n).Sublist l) ∧
    (indexOf l (some t) = none → (∀ x ∈ l, termEq x t = false) ∧
      SFm.remove l (some t) = .error .valueError ∧ (step o l (.remove (some t))).1 = l) ∧
    (result o l (.contains (some t)) = .bool true ↔ ∃ x ∈ l, termEq x t = true) ∧
    (∀ other, eqTerms l other = true ↔ l.length = other.length ∧
      ∀ i (h : i < l.length) (h' : i < other.length), termEq l[i] other[i] = true) := by
  refine ⟨?_, ?_, ?_, ?_, ?_, eqTerms_iff l⟩
  · simp [step, sf_clearLoop_spec (l.length + 1) l (Nat.lt_succ_self _)]
  · intro n
    simp only [indexOf, List.findIdx?_eq_some_iff_getElem, Bool.not_eq_true]
  · intro n h
    exact ⟨by simp [SFm.remove, h], List.eraseIdx_sublist _ _⟩
  · intro h
    have hall : ∀ x ∈ l, termEq x t = false := by
      simp only [indexOf, List.findIdx?_eq_none_iff] at h
      intro x hx; simpa using h x hx
    exact ⟨hall, by simp [SFm.remove, h], by simp [step, SFm.remove, h, SFm.ofExcept]⟩
  · simp only [result, Res.bool.injEq]
    rw [decide_eq_true_iff]
    show 0 < (l.filter (fun x => termEq x t)).length ↔ _
    constructor
    · intro hpos
      cases hf : l.filter (fun x => termEq x t) with
      | nil => rw [hf] at hpos; simp at hpos
      | cons x r =>
        have hx : x ∈ l.filter (fun x => termEq x t) := by rw [hf]; simp
        rw [List.mem_filter] at hx
        exact ⟨x, hx.1, hx.2⟩
    · rintro ⟨x, hx, he⟩
      have : x ∈ l.filter (fun x => termEq x t) := List.mem_filter.2 ⟨hx, he⟩
      exact List.length_pos_of_mem this

example : termEq [⟨"a", .lookup⟩, ⟨"b", .lookup⟩] [⟨"b", .lookup⟩, ⟨"a", .lookup⟩] = true := by decide
/-- C19.5g  THE CONSTRUCTOR: `SimpleFormula(root, _ordering=o, **structure)` is refused
(`FormulaInvalidError`) for a string or non-iterable `root`, for any `**structure`, and for any element
that is not a `Term`; otherwise it holds the re-ordered terms (none when `root` is omitted) — and from
there the ordering invariant holds after every operation sequence. -/
theorem formula_constructor (o : SFm.Ordering) (arg : CtorArg) (kw : Bool) (ops : List Op) :
    (construct o arg kw = .error .invalid ↔
      (kw = true ∨ (match arg with
        | .notTerms => True
        | .missing => False
        | .terms ts => ts.any Option.isNone = true))) ∧
    (∀ l, construct o arg kw = .ok l →
      l = init o arg.given ∧
      OrderingInv o l ∧ OrderingInv o (run o l ops) ∧ ∀ st ∈ trace o l ops, OrderingInv o st.1) := by
  constructor
  · cases arg with
    | notTerms => simp [construct]
    | missing => cases kw <;> simp [construct]
    | terms ts => cases kw <;> cases h : ts.any Option.isNone <;> simp [construct, h]
  · intro l h
    have hl : l = init o arg.given := by
      cases arg with
      | notTerms => simp [construct] at h
      | missing =>
        cases kw
        · simp only [construct, Bool.false_eq_true, if_false, Except.ok.injEq] at h; exact h.symm
        · simp [construct] at h
      | terms ts =>
        cases kw
        · simp only [construct, Bool.false_eq_true, if_false] at h
          split at h
          · cases h
          · simp only [Except.ok.injEq] at h; exact h.symm
        · simp [construct] at h
    subst hl
    exact ⟨rfl, inv_reorder o _, run_inv o ops _ (inv_reorder o _), trace_inv o ops _ (inv_reorder o _)⟩

end formula

/-! ## 6. `Structured` as a container: `[]`, attribute access, iteration, `==`, `_to_dict`, default merger -/
section protocol
open FormulaicVerif.Model.St FormulaicVerif.Model.StOps FormulaicVerif.Spec.ContainerOps
variable {α : Type}

/-- C19.6a  `s[key]` for a non-tuple key: when `root` is the ONLY key the lookup is handed to the
root object unchanged (`self.root[key]`, recursively through nested root-only `Structured`s);
otherwise `None` and `"root"` address the root value, a string that does not start with `_` addresses
that key, and everything else (an `int`, an underscore name, a missing key) is `KeyError`. -/
theorem getitem_root_delegation (item : α → Key → Except StOps.Err (Val α)) (kvs : Items α) (key : Key) :
    (rootOnly kvs = true →
      ∃ r, kvs.lookup "root" = some r ∧ getItem item (.node kvs) key = getItem item r key) ∧
    (rootOnly kvs = false →
      getItem item (.node kvs) key = plainGet kvs key ∧
      plainGet kvs .none = plainGet kvs (.str "root") ∧
      (∀ i, plainGet kvs (.int i) = .error .keyError) ∧
      (∀ s, badKey s = true → plainGet kvs (.str s) = .error .keyError) ∧
      (∀ s, badKey s = false → plainGet kvs (.str s) =
        match kvs.lookup s with
        | some v => .ok v
        | none => .error .keyError)) := by
  constructor
  · intro h
    obtain ⟨k, r, rest, _, hl⟩ := rootOnly_lookup kvs h
    exact ⟨r, hl, by rw [getItem_node, h, if_pos rfl, hl]⟩
  · intro h
    refine ⟨by rw [getItem_node, h]; rfl, ?_, fun _ => rfl, ?_, ?_⟩
    · simp [plainGet, show badKey "root" = false by decide]
    · intro s hs; simp [plainGet, hs]
    · intro s hs
      simp only [plainGet, hs, Bool.false_eq_true, if_false]
      cases kvs.lookup s <;> rfl

example : rootOnly [("root", Val.tup [Val.leaf (1 : Nat)])] = true ∧
    rootOnly [("a", Val.leaf (1 : Nat)), ("root", .leaf 2)] = false := by decide

/-- C19.6b  `s[path]` for a tuple key walks the structure one element at a time (so it composes),
descending into a `Structured` by key and into a tuple by (possibly negative) index; it fails with
`KeyError` as soon as the path extends beyond the structure or steps into a leaf, and with
`IndexError` when a tuple index is out of range. The empty path returns the object itself. -/
theorem path_lookup_walks (p q : List Key) (s : Val α) :
    lookupPathK (p ++ q) s = (lookupPathK p s >>= lookupPathK q) ∧
    lookupPathK [] s = .ok s ∧
    (∀ a k, lookupPathK (k :: p) (.leaf a : Val α) = .error .keyError) ∧
    (∀ kvs k, (kvs : Items α).lookup k = none → lookupPathK (.str k :: p) (.node kvs) = .error .keyError) ∧
    (∀ (vs : List (Val α)) i, pyIdx i vs.length = none →
      lookupPathK (.int i :: p) (.tup vs) = .error .indexError) := by
  refine ⟨lookupPath_append p q s, rfl, ?_, ?_, ?_⟩
  · intro a k; cases k <;> rfl
  · intro kvs k h; simp [lookupPathK, h]
  · intro vs i h; simp [lookupPathK, h]

/-- C19.6c  GET AFTER SET: after a successful `s[p + (k,)] = v`, looking up that path returns `v`,
and any longer path continues inside `v`. -/
theorem setitem_then_getitem (item : α → Key → Except StOps.Err (Val α)) (kvs kvs' : Items α)
    (p : List Key) (k : String) (v : Val α) (q : List Key)
    (h : setAny kvs (.path (p ++ [.str k])) v = .ok kvs') :
    getAny item kvs' (.path (p ++ [.str k])) = .ok v ∧
    getAny item kvs' (.path (p ++ .str k :: q)) = lookupPathK q v := by
  rw [setAny_path_ok] at h
  have := setAt_lookup_same p k (.node kvs) v (.node kvs') q h
  refine ⟨?_, this⟩
  have h0 := setAt_lookup_same p k (.node kvs) v (.node kvs') [] h
  simpa [getAny, lookupPathK] using h0

example : setAny [("a", Val.tup [.node [("b", Val.leaf (1 : Nat))]])] (.path ([.str "a", .int 0] ++ [.str "c"])) (.leaf 2)
    = .ok [("a", Val.tup [.node [("b", Val.leaf 1), ("c", .leaf 2)]])] := by rfl

/-- C19.6d  SET DOES NOT DISTURB OTHER PATHS: a path that leaves the assigned path at some element
(`Apart`: another key, or another index of the same sign) is looked up exactly as before — value or
exception alike. -/
theorem setitem_other_paths_unchanged (item : α → Key → Except StOps.Err (Val α)) (kvs kvs' : Items α)
    (p : List Key) (last : Key) (v : Val α) (c rest q : List Key) (a b : Key)
    (h : setAny kvs (.path (p ++ [last])) v = .ok kvs') (hp : p ++ [last] = c ++ a :: rest)
    (hab : Apart a b) :
    getAny item kvs' (.path (c ++ b :: q)) = getAny item kvs (.path (c ++ b :: q)) := by
  rw [setAny_path_ok] at h
  exact setAt_lookup_other c p last (.node kvs) v (.node kvs') a b rest q h hp hab

example : Apart (.str "a") (.str "b") ∧ Apart (.int 0) (.int 2) ∧ Apart (.int (-1)) (.int (-2)) := by
  simp [Apart]

/-- C19.6e  WHEN ASSIGNMENT FAILS: a path assignment succeeds exactly when the prefix leads to a
`Structured` and the last element is a string that `isidentifier()` and does not start with `_`;
if the prefix cannot be walked the assignment raises what the walk raises (`KeyError` beyond the
structure, `IndexError` for a tuple index out of range); the empty tuple and every non-string or
non-identifier key are `KeyError`; a failing assignment leaves the structure as it was. -/
theorem setitem_fails_iff (L : LeafOps α) (kvs : Items α) (p : List Key) (last : Key) (v : Val α) :
    ((∃ kvs', setAny kvs (.path (p ++ [last])) v = .ok kvs') ↔
      ∃ node k, lookupPathK p (.node kvs) = .ok (.node node) ∧ last = .str k ∧ isIdent k = true ∧
        badKey k = false) ∧
    (∀ e, lookupPathK p (.node kvs) = .error e → setAny kvs (.path (p ++ [last])) v = .error e) ∧
    setAny kvs (.path []) v = .error .keyError ∧
    (∀ key, (∃ kvs', setAny kvs (.plain key) v = .ok kvs') ↔
      ∃ k, key = .str k ∧ isIdent k = true ∧ badKey k = false) ∧
    (∀ key e, setAny kvs key v = .error e → (step L kvs (.set key v)).1 = kvs) := by
  refine ⟨?_, ?_, rfl, ?_, ?_⟩
  · rw [← setAt_ok_iff p last (.node kvs) v]
    constructor
    · rintro ⟨kvs', h⟩; exact ⟨_, (setAny_path_ok kvs kvs' p last v).1 h⟩
    · rintro ⟨s', h⟩
      obtain ⟨r, rfl⟩ := setAt_node p last kvs v s' h
      exact ⟨r, (setAny_path_ok kvs r p last v).2 h⟩
  · intro e h
    rw [setAny_path, setAt_lookup_error p last (.node kvs) v e h]
  · intro key
    cases key with
    | none => simp [setAny, setKey]
    | int i => simp [setAny, setKey]
    | str k =>
      simp only [setAny, setKey, Key.str.injEq, exists_eq_left']
      cases isIdent k <;> cases badKey k <;> simp
  · intro key e h
    simp [step, h]

/-- C19.6f  A successful plain-key assignment or attribute assignment is the dictionary write
`_structure[k] = v`: afterwards `k` maps to `v`, every other key keeps its value, and `k` is appended
to the keys if it is new. `__setattr__` does not check `isidentifier()`; both refuse underscore names
(`__setattr__` lets `_metadata` through without touching the structure). -/
theorem setitem_is_dict_write (kvs kvs' : Items α) (k : String) (v : Val α) :
    ((setAny kvs (.plain (.str k)) v = .ok kvs' ∨ (badKey k = false ∧ setAttr kvs k v = .ok kvs')) →
      (∀ k', kvs'.lookup k' = if k' == k then some v else kvs.lookup k') ∧
      kvs'.map (·.1) = addKey (kvs.map (·.1)) k ∧
      getAttr kvs' k = .ok v) ∧
    (badKey k = false → setAttr kvs k v = .ok (dictSet kvs k v)) ∧
    (badKey k = true → getAttr kvs k = .error .attributeError ∧
      setAttr kvs k v = if k == "_metadata" then .ok kvs else .error .attributeError) := by
  refine ⟨?_, fun hb => by simp [setAttr, hb], fun hb => by simp [getAttr, setAttr, hb]⟩
  intro h
  have hk : kvs' = dictSet kvs k v ∧ badKey k = false := by
    rcases h with h | ⟨hb, h⟩
    · simp only [setAny, setKey] at h
      split at h
      · cases h
      · split at h
        · cases h
        · rename_i hb
          simp only [Except.ok.injEq] at h
          exact ⟨h.symm, by simpa using hb⟩
    · simp only [setAttr, hb, Bool.false_eq_true, if_false, Except.ok.injEq] at h
      exact ⟨h.symm, hb⟩
  obtain ⟨rfl, hb⟩ := hk
  refine ⟨fun k' => lookup_dictSet kvs k v k', keys_dictSet kvs k v, ?_⟩
  simp [getAttr, hb, lookup_dictSet]

example : setAttr ([] : Items Nat) "not an identifier" (.leaf 1) = .ok [("not an identifier", .leaf 1)] ∧
    setAny ([] : Items Nat) (.plain (.str "not an identifier")) (.leaf 1) = .error .keyError := by
  constructor <;> rfl

/-- C19.6g  ITERATION AND LENGTH: `len(s)` is the number of items `iter(s)` yields. When `root` is
not the only key, iteration yields the root value first (if there is one) and then the other values
in insertion order — a permutation of the stored values, and exactly the stored values in order
when there is no root. When `root` is the only key, iteration is handed to the root: a tuple yields
its elements, a nested `Structured` is iterated itself, an iterable leaf yields its own elements and
a non-iterable leaf is yielded as the single item. -/
theorem iter_len_consistent (li : α → Option (List (Val α))) (kvs : Items α) :
    len li kvs = (iter li kvs).length ∧
    (rootOnly kvs = false →
      iter li kvs = (kvs.lookup "root").toList ++ (kvs.filter (fun kv => !isRootKey kv.1)).map (·.2) ∧
      ((kvs.map (·.1)).Nodup → (iter li kvs).Perm (kvs.map (·.2))) ∧
      (hasRoot kvs = false → iter li kvs = kvs.map (·.2))) ∧
    (rootOnly kvs = true → ∃ r, kvs.lookup "root" = some r ∧
      iter li kvs = match r with
        | .tup vs => vs
        | .node kvs' => iter li kvs'
        | .leaf a =>
          match li a with
          | some xs => xs
          | none => [r]) := by
  refine ⟨?_, ?_, ?_⟩
  · unfold len; rw [foldl_count]; simp
  · intro h
    have hi : iter li kvs = rootFirst kvs := by
      unfold iter; rw [iterV_node, h]; rfl
    refine ⟨hi, fun hn => by rw [hi]; exact rootFirst_perm kvs hn, fun hr => by rw [hi]; exact rootFirst_no_root kvs hr⟩
  · intro h
    obtain ⟨k, r, rest, he, hl⟩ := rootOnly_lookup kvs h
    refine ⟨r, hl, ?_⟩
    unfold iter
    rw [iterV_node, h, if_pos rfl, hl]
    cases r with
    | tup vs => rfl
    | node kvs' => rfl
    | leaf a =>
      simp only []
      cases li a with
      | some xs => rfl
      | none =>
        simp only []
        subst he
        simp only [rootOnly, List.isEmpty_cons, Bool.not_false, Bool.true_and, List.all_cons,
          Bool.and_eq_true] at h
        have hk : k = "root" := by simpa [isRootKey] using h.1
        subst hk
        have hf : (("root", Val.leaf a) :: rest).filter (fun kv => !isRootKey kv.1) = [] := by
          apply List.filter_eq_nil_iff.2
          intro kv hkv
          rcases List.mem_cons.1 hkv with h1 | h1
          · subst h1; simp [isRootKey]
          · have := (List.all_eq_true.1 h.2) kv h1
            simp [this]
        unfold rootFirst
        rw [hl, hf]; rfl

/-- C19.6g′  A structure with nothing but a tuple root IS that tuple as a sequence: `s[i]`, `list(s)`
and `len(s)` are the tuple's. And iterating any structure (leaves that are not themselves iterable)
reaches every leaf exactly once: flattening the iterated values gives the `_flatten` sequence up to
the root-first order. -/
theorem root_only_is_its_root (item : α → Key → Except StOps.Err (Val α)) (li : α → Option (List (Val α)))
    (kvs : Items α) :
    (∀ vs, rootOnly kvs = true → kvs.lookup "root" = some (.tup vs) →
      (∀ key, getItem item (.node kvs) key = tupItem vs key) ∧ iter li kvs = vs ∧ len li kvs = vs.length) ∧
    (WF (.node kvs) → ((iter (fun _ => none) kvs).flatMap flatten).Perm (flattenI kvs)) := by
  refine ⟨?_, fun hw => iterV_covers (.node kvs) hw rfl⟩
  intro vs hr hl
  have hi : iter li kvs = vs := by
    obtain ⟨r, hl', h⟩ := (iter_len_consistent li kvs).2.2 hr
    rw [hl] at hl'; cases hl'; exact h
  refine ⟨fun key => ?_, hi, by rw [(iter_len_consistent li kvs).1, hi]⟩
  obtain ⟨r, hl', h⟩ := (getitem_root_delegation item kvs key).1 hr
  rw [hl] at hl'; cases hl'
  rw [h]; rfl

/-- C19.6h  `key in s` looks at the keys of the structure only (no delegation to the root, never
true for `None` or an `int`), and agrees with plain-key lookup on structures that have other keys
than `root`. -/
theorem contains_iff_key (item : α → Key → Except StOps.Err (Val α)) (kvs : Items α) :
    (∀ s, StOps.contains kvs (.str s) = (kvs.lookup s).isSome) ∧
    StOps.contains kvs .none = false ∧ (∀ i, StOps.contains kvs (.int i) = false) ∧
    (rootOnly kvs = false → ∀ s, badKey s = false →
      (StOps.contains kvs (.str s) = true ↔ ∃ v, getItem item (.node kvs) (.str s) = .ok v)) := by
  refine ⟨contains_str kvs, rfl, fun _ => rfl, ?_⟩
  intro h s hs
  rw [contains_str, getItem_node, h]
  simp only [Bool.false_eq_true, if_false, plainGet, hs]
  cases kvs.lookup s <;> simp

/-- C19.6i  `==` is dictionary equality of the structures: reflexive, blind to the order of the
keys at the top level (any permutation) and at every level (`norm`: what re-running the constructors
does), and `False` against anything that is not a `Structured`. -/
theorem eq_is_dict_equality (leq : α → α → Bool) (hr : ∀ a, leq a a = true) (kvs : Items α)
    (hw : WF (.node kvs)) :
    eqTop leq kvs (.node kvs) = true ∧
    (∀ kvs', kvs'.Perm kvs → eqTop leq kvs (.node kvs') = true) ∧
    eqTop leq kvs (norm (.node kvs)) = true ∧
    (∀ a, eqTop leq kvs (.leaf a) = false) ∧ (∀ vs, eqTop leq kvs (.tup vs) = false) := by
  refine ⟨valEq_refl leq hr _ hw, ?_, ?_, fun _ => rfl, fun _ => rfl⟩
  · intro kvs' hp
    simp only [WF] at hw
    simp only [eqTop, valEq, Bool.and_eq_true, beq_iff_eq]
    refine ⟨hp.length_eq.symm, itemsSub_of_lookup leq hr kvs kvs' hw.2 (fun kv hkv => ?_)⟩
    exact lookup_of_mem_nodup kvs' kv.1 kv.2 (hp.mem_iff.2 hkv) ((hp.map (·.1)).nodup_iff.2 hw.1)
  · have := valEq_norm leq hr (.node kvs) hw
    simpa [eqTop, norm] using this

example : eqTop Leaf.eq [("a", .leaf (.int 1)), ("root", .leaf (.set [1, 2]))]
    (.node [("root", .leaf (.set [2, 1])), ("a", .leaf (.int 1))]) = true := by rfl

/-- C19.6i′  What `==` checks, spelled out: two structures are equal exactly when they have the same
number of keys and every key of the first is a key of the second with an equal value (values compared
the same way, tuples element by element). -/
theorem eq_unfolds (leq : α → α → Bool) (kvs kvs' : Items α) :
    (eqTop leq kvs (.node kvs') = true ↔
      kvs.length = kvs'.length ∧
      ∀ kv ∈ kvs, ∃ w, kvs'.lookup kv.1 = some w ∧ valEq leq kv.2 w = true) ∧
    (∀ vs ws : List (Val α), valEq leq (.tup vs) (.tup ws) = true ↔
      vs.length = ws.length ∧ ∀ i (h : i < vs.length) (h' : i < ws.length), valEq leq vs[i] ws[i] = true) := by
  refine ⟨by simp only [eqTop, valEq, Bool.and_eq_true, beq_iff_eq, itemsSub_iff], ?_⟩
  intro vs
  induction vs with
  | nil => intro ws; cases ws <;> simp [valEq, tupEq]
  | cons v r ih =>
    intro ws
    cases ws with
    | nil => simp [valEq, tupEq]
    | cons w r' =>
      have ih' := ih r'
      simp only [valEq] at ih' ⊢
      simp only [tupEq, Bool.and_eq_true, ih', List.length_cons, Nat.add_right_cancel_iff]
      constructor
      · rintro ⟨h0, hl, hr⟩
        refine ⟨hl, fun i h h' => ?_⟩
        cases i with
        | zero => simpa using h0
        | succ j => simpa using hr j (by omega) (by omega)
      · rintro ⟨hl, hr⟩
        refine ⟨by simpa using hr 0 (by omega) (by omega), hl, fun i h h' => ?_⟩
        have := hr (i + 1) (by omega) (by omega)
        simpa only [List.getElem_cons_succ] using this

/-- C19.6j  `_to_dict` is the structure itself written with plain dictionaries: same keys in the
same order, reading the dictionaries back as `Structured`s gives the structure again, and with
`recurse=True` no `Structured` instance is left anywhere inside. -/
theorem to_dict_roundtrip (r : Bool) (kvs : Items α) :
    (toDict r kvs).map (·.1) = kvs.map (·.1) ∧ DVal.toValI (toDict r kvs) = kvs ∧
    DVal.plainI (toDict true kvs) = true :=
  ⟨keys_toDict r kvs, toValI_toDict r kvs, plainI_toDict kvs⟩

/-- C19.6k  THE DEFAULT MERGER: lists concatenate in argument order; sets unite (an element is in
the result exactly when it is in one of the arguments, without repetition); dicts merge with later
arguments winning; any other combination raises `NotImplementedError`. -/
theorem merge_default_leaves :
    (∀ xss : List (List Int), mergerDefault (xss.map .list) = .ok (.list xss.flatten)) ∧
    (∀ xss : List (List Int), xss ≠ [] → ∃ u, mergerDefault (xss.map .set) = .ok (.set u) ∧ u.Nodup ∧
      ∀ x, x ∈ u ↔ ∃ xs ∈ xss, x ∈ xs) ∧
    (∀ ds : List (List (String × Int)), ds ≠ [] → (∀ d ∈ ds, (d.map (·.1)).Nodup) →
      ∃ m, mergerDefault (ds.map .dict) = .ok (.dict m) ∧
        ∀ k, m.lookup k = ds.reverse.findSome? (fun d => d.lookup k)) ∧
    (∀ items : List Leaf, (∃ a ∈ items, a.isList = false) → (∃ a ∈ items, a.isSet = false) →
      (∃ a ∈ items, a.isDict = false) → mergerDefault items = .error .merger) := by
  refine ⟨?_, ?_, ?_, ?_⟩
  · intro xss
    have h1 : (xss.map Leaf.list).all Leaf.isList = true := by simp [Leaf.isList]
    have h2 := map_listElems xss
    simp [mergerDefault, h1, h2]
  · intro xss hne
    refine ⟨setUnion xss, ?_, nodup_setUnion xss, mem_setUnion xss⟩
    have h1 := all_isList_map_set xss hne
    have h2 : (xss.map Leaf.set).all Leaf.isSet = true := by simp [Leaf.isSet]
    have h3 := map_setElems xss
    simp [mergerDefault, h1, h2, h3]
  · intro ds hne hn
    refine ⟨dictChain ds, ?_, ?_⟩
    · obtain ⟨h1, h2⟩ := all_isList_map_dict ds hne
      have h3 : (ds.map Leaf.dict).all Leaf.isDict = true := by simp [Leaf.isDict]
      have h4 := map_dictItems ds
      simp [mergerDefault, h1, h2, h3, h4]
    · intro k
      unfold dictChain
      rw [lookup_foldl_dictUpdate ds [] hn k]
      cases ds.reverse.findSome? (fun d => d.lookup k) <;> rfl
  · rintro items ⟨a, ha, ha'⟩ ⟨b, hb, hb'⟩ ⟨c, hc, hc'⟩
    have h1 : items.all Leaf.isList = false := List.all_eq_false.2 ⟨a, ha, by simp [ha']⟩
    have h2 : items.all Leaf.isSet = false := List.all_eq_false.2 ⟨b, hb, by simp [hb']⟩
    have h3 : items.all Leaf.isDict = false := List.all_eq_false.2 ⟨c, hc, by simp [hc']⟩
    simp [mergerDefault, h1, h2, h3]

example : mergerDefault [.list [1], .set [2]] = .error .merger ∧ mergerDefault [.str "a", .str "b"] = .error .merger
    ∧ mergerDefault [.dict [("a", 1), ("b", 2)], .dict [("b", 3), ("c", 4)]] = .ok (.dict [("a", 1), ("b", 3), ("c", 4)]) :=
  ⟨rfl, rfl, rfl⟩

/-- C19.6l  `_merge` without a `merger` on bare list objects is list concatenation in argument
order (at any nesting depth of the merge: together with `merge_is_keywise`, a `_merge` of structures
whose leaves are lists concatenates the lists found under each key, in object order). -/
theorem merge_default_concatenates (fuel : Nat) (ctx : List String) (xss : List (List Int)) (hne : xss ≠ []) :
    merge mergerDefault (fuel + 1) ctx (xss.map (fun xs => .leaf (.list xs))) = .ok (.leaf (.list xss.flatten)) ∧
    mergeDefault (xss.map (fun xs => .leaf (.list xs))) = .ok (.leaf (.list xss.flatten)) := by
  have key : ∀ fuel ctx, merge mergerDefault (fuel + 1) ctx (xss.map (fun xs => .leaf (.list xs)))
      = .ok (.leaf (.list xss.flatten)) := by
    intro fuel ctx
    have h := (merge_tuples_concatenate mergerDefault fuel ctx (xss.map (fun xs => Val.leaf (Leaf.list xs)))).2.2.2
      (by simpa using hne) (by simp [Val.isTup, Val.isNode])
    rw [h, flatMap_leafOf_lists, merge_default_leaves.1 xss]; rfl
  exact ⟨key fuel ctx, key _ []⟩

/-- C19.6n  `_map(func, recurse=False)`: as a dictionary it is again the key-wise map (same keys, a
permutation: only `root` moves), but under each key `func` is applied ONCE to the object stored there
— a leaf or a whole nested `Structured` — and element-wise through tuples. -/
theorem map_nonrecursive_is_dict_map {β : Type} (f : Val α → Path → β) (kvs : Items α) :
    ∃ r, mapTopNR f kvs = .node r ∧
      (∀ k, r.lookup k = (kvs.lookup k).map (mapNR f [.key k])) ∧
      (r.map (·.1)).Perm (kvs.map (·.1)) ∧
      (∀ ctx kvs', mapNR f ctx (.node kvs') = .leaf (f (.node kvs') ctx)) ∧
      (∀ ctx a, mapNR f ctx (.leaf a) = .leaf (f (.leaf a) ctx)) := by
  refine ⟨_, rfl, ?_, ?_, fun _ _ => rfl, fun _ _ => rfl⟩
  · intro k
    rw [lookup_rootLast]
    induction kvs with
    | nil => rfl
    | cons e r ih =>
      obtain ⟨k0, v0⟩ := e
      simp only [List.map_cons, List.lookup]
      by_cases h : k = k0
      · subst h; simp
      · have hb : (k == k0) = false := by simpa using h
        simp only [hb]; exact ih
  · have := (rootLast_perm (kvs.map (fun kv => (kv.1, mapNR f [.key kv.1] kv.2)))).map (·.1)
    simpa [Function.comp_def] using this

/-- C19.6m  HISTORIES: over ANY finite sequence of container operations (`[]` reads and writes with
plain keys or tuple paths, attribute reads and writes, iteration, `len`, `in`, `==`, `_to_dict`),
including those that raise, every `Structured` inside the object keeps unique keys none of which
starts with `_` (provided the assigned values do); an operation that only reads, and an operation
that raises, leaves the object exactly as it was. -/
theorem container_history_invariant (L : LeafOps α) (kvs : Items α) (ops : List (Op α))
    (h0 : GoodKeys (.node kvs)) (hv : ∀ op ∈ ops, ∀ v, Op.newVal op = some v → GoodKeys v) :
    GoodKeys (.node (run L kvs ops)) ∧
    (∀ st ∈ trace L kvs ops, GoodKeys (.node st.1)) ∧
    (∀ op, Op.mutating op = false → (step L kvs op).1 = kvs) ∧
    (∀ op e, (step L kvs op).2 = .err e → (step L kvs op).1 = kvs) := by
  refine ⟨?_, ?_, fun op h => step_readonly L kvs op h, ?_⟩
  · induction ops generalizing kvs with
    | nil => exact h0
    | cons op r ih =>
      exact ih _ (goodKeys_step L kvs op h0 (hv op (by simp))) (fun op' h' => hv op' (by simp [h']))
  · induction ops generalizing kvs with
    | nil => simp [trace]
    | cons op r ih =>
      intro st hst
      simp only [trace, List.mem_cons] at hst
      have hs := goodKeys_step L kvs op h0 (hv op (by simp))
      rcases hst with h | h
      · subst h; exact hs
      · exact ih _ hs (fun op' h' => hv op' (by simp [h'])) st h
  · intro op e h
    cases op with
    | set k v =>
      simp only [step] at h ⊢
      cases hs : setAny kvs k v with
      | ok kvs' => rw [hs] at h; simp at h
      | error e' => rfl
    | setattr a v =>
      simp only [step] at h ⊢
      cases hs : setAttr kvs a v with
      | ok kvs' => rw [hs] at h; simp at h
      | error e' => rfl
    | get k => rfl
    | getattr a => rfl
    | iter => rfl
    | len => rfl
    | contains k => rfl
    | eq o => rfl
    | toDict r => rfl

example : GoodKeys (Val.node [("a", .tup [.leaf 1, .node [("root", .leaf 2)]]), ("root", .leaf (3 : Nat))]) := by
  simp [GoodKeys, GoodKeysI, GoodKeysT, badKey]

end protocol

/-! ## 7. `LayeredMapping`: named layers and the writing mixin methods -/
section layeredX
open FormulaicVerif.Model.LMap FormulaicVerif.Model.LMapX FormulaicVerif.Spec.LayeredNames
variable {ν : Type}

/-- C19.7a  `named_layers` maps every name to the FIRST layer of that name: the mapping itself if it
bears the name, else its first direct child of that name, else what the name means inside the first
child (top first) that knows it; unnamed layers (`None`, `""`) never appear. `getattr(m, name)` and
`named_layers[name]` agree, and a name that no layer bears is `AttributeError`. -/
theorem lm_named_layers_first_wins (m : LM ν) (n : String) :
    (namedLayers m).lookup n = findNamed n m.toLayer ∧
    ((namedLayers m).map (·.1)).Nodup ∧
    (namedLayers m).lookup "" = none ∧
    (∀ l, getAttr m n = .ok l ↔ findNamed n m.toLayer = some l) ∧
    (findNamed n m.toLayer = none → getAttr m n = .error .attributeError) := by
  have h1 : (namedLayers m).lookup n = findNamed n m.toLayer := lookup_namedOf n m.toLayer
  refine ⟨h1, nodup_namedOf _, ?_, ?_, ?_⟩
  · rw [show (namedLayers m).lookup "" = findNamed "" m.toLayer from lookup_namedOf "" m.toLayer]
    cases hf : findNamed "" m.toLayer with
    | none => rfl
    | some x => exact absurd rfl (findNamed_ne_empty "" _ x hf)
  · intro l
    unfold getAttr
    rw [h1]
    cases findNamed n m.toLayer <;> simp
  · intro h
    unfold getAttr
    rw [h1, h]

example : findNamed "x" (Layer.lm (some "top") [] [.lm (some "a") [] [.lm (some "x") [("k", 1)] []], .lm (some "x") [("k", (2 : Nat))] []])
    = some (.lm (some "x") [("k", 2)] []) := by rfl

/-- C19.7b  EVERY write is confined to the private layer: `pop`, `popitem`, `clear`, `setdefault`,
`update` (the `MutableMapping` mixins) as well as `[]=` and `del` leave the supplied layers and the
name untouched, whether they succeed or raise, over any sequence of such operations. -/
theorem lm_all_writes_private (m : LM ν) :
    (∀ op m' r, LMapX.Op.isWithLayers op = false → LMapX.step m op = .ok (m', r) →
      m'.layers = m.layers ∧ m'.name = m.name) ∧
    (∀ ops : List (LMapX.Op ν), (∀ op ∈ ops, LMapX.Op.isWithLayers op = false) →
      (LMapX.run m ops).layers = m.layers ∧ (LMapX.run m ops).name = m.name) := by
  refine ⟨fun op m' r hw h => stepX_layers m m' op r hw h, ?_⟩
  intro ops
  induction ops generalizing m with
  | nil => intro _; exact ⟨rfl, rfl⟩
  | cons op r ih =>
    intro hops
    have hr := fun m' => ih m' (fun op' h' => hops op' (by simp [h']))
    simp only [LMapX.run]
    cases hs : LMapX.step m op with
    | error e => exact hr m
    | ok x =>
      have := stepX_layers m x.1 op x.2 (hops op (by simp)) hs
      simp only
      rw [(hr x.1).1, (hr x.1).2]
      exact this

/-- C19.7c  `pop`: a key of the private layer is removed and its current value returned, after
which the key falls back to the supplied layers; a key that lives only in a supplied layer cannot
be popped (`KeyError`, nothing changes); a missing key returns the default if one is given, else
`KeyError`. -/
theorem lm_pop_private_only (m : LM ν) (k : String) (d : Option ν) :
    (dictHas m.muts k = true → ∃ v, m.get k = some v ∧
      pop m k d = .ok ({ m with muts := dictDel m.muts k }, v) ∧
      ({ m with muts := dictDel m.muts k } : LM ν).get k = getL m.layers k) ∧
    (dictHas m.muts k = false → (m.get k).isSome = true → pop m k d = .error .keyError) ∧
    (m.get k = none → pop m k d = match d with
      | some x => .ok (m, x)
      | none => .error .keyError) := by
  refine ⟨?_, ?_, ?_⟩
  · intro h
    have hl : ∃ v, m.muts.lookup k = some v := by
      have := (lookup_isSome_iff m.muts k).2
      have hmem : k ∈ m.muts.map (·.1) := by
        simp only [dictHas, List.any_eq_true] at h
        obtain ⟨kv, hkv, he⟩ := h
        exact List.mem_map.2 ⟨kv, hkv, by simpa using he⟩
      have hs := this hmem
      cases hv : m.muts.lookup k with
      | none => rw [hv] at hs; cases hs
      | some v => exact ⟨v, rfl⟩
    obtain ⟨v, hv⟩ := hl
    have hg : m.get k = some v := by simp [LM.get, LM.toLayer, Layer.get, hv]
    refine ⟨v, hg, by simp [pop, hg, LM.del, h], ?_⟩
    have := (lm_set_get m k v k).2 { m with muts := dictDel m.muts k } (by simp [LM.del, h])
    simpa using this
  · intro h hs
    cases hg : m.get k with
    | none => rw [hg] at hs; cases hs
    | some v => simp [pop, hg, LM.del, h]
  · intro h
    simp only [pop, h]
    cases d <;> rfl

/-- C19.7d  `clear()` removes exactly the private layer: it always terminates (the model's fuel
`len(_mutations) + 1` suffices), leaves the supplied layers and the name alone, and afterwards the
mapping is the top-first merge of the supplied layers only. `popitem()` on a mapping without private
writes raises `KeyError`. -/
theorem lm_clear_private (m : LM ν) :
    (∃ m', clear m = some m' ∧ m'.muts = [] ∧ m'.layers = m.layers ∧ m'.name = m.name ∧
      m'.toLayer.flat = flatL m.layers) ∧
    (m.muts = [] → ∃ e, popitem m = .error e) := by
  refine ⟨?_, popitem_error_of_nil m⟩
  obtain ⟨m', h1, h2, h3, h4⟩ := clearLoop_spec (m.muts.length + 1) m (Nat.lt_succ_self _)
  exact ⟨m', h1, h2, h3, h4, by simp [LM.toLayer, Layer.flat, h2, h3]⟩
/-- C19.7e  A LIVE VIEW: when the owner of a supplied layer writes that layer, the mapping's private
layer and name are untouched and only the addressed layer differs — so every law above (top-first
lookup, iteration, `len`) holds for the new stack. In particular a key the owner sets in the TOP
supplied layer is seen through the mapping at once unless the mapping shadows it privately, and a
private write still shadows whatever the owners do afterwards. -/
theorem lm_live_view (m : LM ν) (k : String) (x : ν) :
    (∀ path v, (extWrite m path k v).muts = m.muts ∧ (extWrite m path k v).name = m.name) ∧
    (∀ d rest v, m.layers = .dict d :: rest →
      (extWrite m [0] k v).layers = .dict (match v with
        | some y => dictSet d k y
        | none => dictDel d k) :: rest) ∧
    (∀ d rest, m.layers = .dict d :: rest → m.muts.lookup k = none →
      (extWrite m [0] k (some x)).get k = some x) ∧
    (∀ path v y, m.muts.lookup k = some y → (extWrite m path k v).get k = some y) := by
  refine ⟨?_, ?_, ?_, ?_⟩
  · intro path v; cases path <;> exact ⟨rfl, rfl⟩
  · intro d rest v h
    cases v <;> simp [extWrite, h, updList, updLayer, extSetL, extDelL]
  · intro d rest h hm
    simp [extWrite, h, updList, updLayer, extSetL, LM.get, LM.toLayer, Layer.get, hm, getL,
      lookup_dictSet]
  · intro path v y hm
    cases path with
    | nil => simp [extWrite, LM.get, LM.toLayer, Layer.get, hm]
    | cons i p => simp [extWrite, LM.get, LM.toLayer, Layer.get, hm]

end layeredX

/-! ## 8. The `StructuredFormula` constructor: in-place simplification of re-prepared items -/
section structuredFormula
open FormulaicVerif.Model.St FormulaicVerif.Model.StF
variable {α : Type}

/-- C19.8  `StructuredFormula(root, **structure)` — the one caller of `_simplify(inplace=True)` —
is leaf preserving: it fails (ValueError) exactly when a key starts with `_`; otherwise the new
object is `_simplify(recurse=True, unwrap=False, inplace=True)` of the re-prepared items, its
`_flatten` sequence is that of the structure after the constructors are re-run (`norm`), hence a
permutation of the given leaves and exactly the given leaves, in order, for constructor-built
(`RootLast`) input; `Formula(root, **structure)` (a further `_simplify()`) keeps the same leaves. -/
theorem structured_formula_ctor_leaf_preserving (kvs : Items α) :
    (kvs.any (fun kv => badKey kv.1) = true → sfCtor kvs = .error .valueError) ∧
    (kvs.any (fun kv => badKey kv.1) = false →
      sfCtor kvs = simplify true false true (rootLast (prepI kvs)) ∧
      ∃ v, sfCtor kvs = .ok v ∧ flatten v = flatten (norm (.node kvs)) ∧
        (flatten v).Perm (flattenI kvs) ∧
        (RootLast (.node kvs) → flatten v = flattenI kvs) ∧
        (∀ w, formulaCall kvs = .ok w → flatten w = flatten v)) := by
  refine ⟨fun h => by simp [sfCtor, h], ?_⟩
  intro h
  have hv : sfCtor kvs = .ok (sfNode (prepI kvs)) := by simp [sfCtor, h]
  have hf : flatten (sfNode (prepI kvs)) = flatten (norm (.node kvs)) := by
    have := flatten_prepV (.node kvs)
    simpa [prepV] using this
  refine ⟨by rw [hv, sfNode_simplify], sfNode (prepI kvs), hv, hf, ?_, ?_, ?_⟩
  · rw [hf]
    have := (flattenP_norm_perm (.node kvs) []).map (·.1)
    rwa [flattenP_fst, flattenP_fst] at this
  · intro hr; rw [hf, norm_of_rootLast _ hr]; rfl
  · intro w hw
    unfold formulaCall at hw
    rw [hv] at hw
    cases hs : sfNode (prepI kvs) with
    | leaf a => rw [hs] at hw; simp only [Except.ok.injEq] at hw; rw [← hw]
    | tup vs => rw [hs] at hw; simp only [Except.ok.injEq] at hw; rw [← hw]
    | node s =>
      rw [hs] at hw
      simp only at hw
      rw [(simplify_flatten.2 true true false s w hw)]; rfl

example : sfCtor [("a", Val.node [("root", Val.node [("root", .leaf 1)])]), ("root", .tup [.node [("root", .leaf (2 : Nat))]])]
    = .ok (.node [("a", .leaf 1), ("root", .tup [.leaf 2])]) := by rfl

end structuredFormula

/-! ## 9. The finite facts about the live classes that the models take for granted -/
section tables
open FormulaicVerif.Gen.Containers

/-- C19.9  Read from the live package on every run (`Gen/Containers.lean`): the ordering methods are
`none`, `degree`, `sort` (the names the engine decodes) with default `degree`; `Structured` has the
two slots `_structure`, `_metadata` (so `__setattr__` of any other underscore name fails);
`SimpleFormula` defines the primitives `__getitem__`, `__setitem__`, `__delitem__`, `__len__`,
`insert` that the modelled `MutableSequence` compositions are built from, and no `+`, `-`, `*`
between formulas — the sequence protocol is the whole mutating interface; `LayeredMapping` defines
the five primitives of `MutableMapping`; `StructuredFormula` re-prepares items (`_prepare_item`). -/
theorem live_container_tables :
    orderingValues = ["none", "degree", "sort"] ∧ orderingDefault = "degree" ∧
    structuredSlots = ["_structure", "_metadata"] ∧
    (∀ m ∈ ["__getitem__", "__setitem__", "__delitem__", "__len__", "insert"], m ∈ simpleFormulaOwn) ∧
    (∀ m ∈ ["__add__", "__sub__", "__radd__", "__mul__"], m ∉ simpleFormulaOwn) ∧
    (∀ m ∈ ["__getitem__", "__setitem__", "__delitem__", "__iter__", "__len__"], m ∈ layeredMappingOwn) ∧
    "_prepare_item" ∈ structuredFormulaOwn := by
  decide

end tables

/-! ## 10. `OrderedSet`: an insertion-ordered set with the `collections.abc.Set` algebra -/
section orderedSet
open FormulaicVerif.Model.OSet

/-- C19.10a  `OrderedSet(values)` keeps the distinct values in first-occurrence order: iteration yields
no value twice, `len` is the number of values iterated, and `x in s` holds exactly for the given values. -/
theorem oset_constructor (xs : List String) :
    iter (mk xs) = firstOcc xs ∧ (iter (mk xs)).Nodup ∧ len (mk xs) = (iter (mk xs)).length ∧
    (∀ x, OSet.contains (mk xs) x = true ↔ x ∈ xs) ∧ (xs.Nodup → iter (mk xs) = xs) :=
  ⟨mk_eq xs, mk_nodup xs, rfl, fun x => by rw [contains_iff, mem_mk], mk_of_nodup xs⟩

/-- C19.10b  The set algebra on duplicate-free sets: union lists the left operand and then the new
elements of the right one in their order; difference keeps the left operand's order; intersection,
reflected difference and symmetric difference have exactly the expected members; every result is
again duplicate free. -/
theorem oset_algebra (a : OS) (b : Other) (ha : a.Nodup) :
    (union a b = a ++ (firstOcc b.elems).filter (fun y => !a.contains y)) ∧
    (diff a b = a.filter (fun v => !b.elems.contains v)) ∧
    (∀ x, x ∈ union a b ↔ x ∈ a ∨ x ∈ b.elems) ∧
    (∀ x, x ∈ inter a b ↔ x ∈ a ∧ x ∈ b.elems) ∧
    (∀ x, x ∈ diff a b ↔ x ∈ a ∧ x ∉ b.elems) ∧
    (∀ x, x ∈ rdiff a b ↔ x ∈ b.elems ∧ x ∉ a) ∧
    (∀ x, x ∈ OSet.xor a b ↔ (x ∈ a ∧ x ∉ b.elems) ∨ (x ∈ b.elems ∧ x ∉ a)) ∧
    (union a b).Nodup ∧ (inter a b).Nodup ∧ (diff a b).Nodup ∧ (rdiff a b).Nodup ∧ (OSet.xor a b).Nodup ∧
    (isdisjoint a b = true ↔ ∀ x ∈ b.elems, x ∉ a) := by
  have hd : ∀ x, x ∈ diff a b ↔ x ∈ a ∧ x ∉ b.elems := by
    intro x
    simp only [diff, mem_mk, List.mem_filter, Bool.not_eq_true', contains_false_iff, mem_asSet]
  have hr : ∀ x, x ∈ rdiff a b ↔ x ∈ b.elems ∧ x ∉ a := by
    intro x
    simp only [rdiff, mem_mk, List.mem_filter, Bool.not_eq_true', contains_false_iff, mem_asSet]
  refine ⟨?_, ?_, ?_, ?_, hd, hr, ?_, mk_nodup _, mk_nodup _, mk_nodup _, mk_nodup _, mk_nodup _, ?_⟩
  · rw [union, mk_eq, firstOcc_append, firstOcc_of_nodup a ha]
  · rw [diff, mk_of_nodup _ (ha.sublist List.filter_sublist)]
    apply List.filter_congr
    intro x _
    have : OSet.contains b.asSet x = b.elems.contains x := by
      have h := mem_asSet b x
      by_cases hx : x ∈ b.elems
      · simp [OSet.contains, hx, h.2 hx]
      · have : x ∉ b.asSet := fun hc => hx (h.1 hc)
        simp [OSet.contains, hx, this]
    rw [this]
  · intro x; simp only [union, mem_mk, List.mem_append]
  · intro x
    simp only [inter, mem_mk, List.mem_filter, contains_iff]
    exact ⟨fun h => ⟨h.2, h.1⟩, fun h => ⟨h.2, h.1⟩⟩
  · intro x
    simp only [OSet.xor, union, mem_mk, List.mem_append, Other.elems, hd, hr]
  · simp only [isdisjoint, List.all_eq_true, Bool.not_eq_true', contains_false_iff]

example : union ["a", "b"] (.list ["c", "a", "c"]) = ["a", "b", "c"] ∧ inter ["a", "b", "c"] (.list ["c", "z", "a"]) = ["c", "a"]
    ∧ OSet.xor ["a", "b", "c"] (.list ["a", "z"]) = ["b", "c", "z"] := by decide

/-- C19.10c  Comparisons between duplicate-free sets are the set ones, blind to the order of insertion:
`a <= b` iff every element of `a` is in `b`; `a == b` iff they have the same elements; `a < b` iff
`a <= b` and not `a == b`. Against a plain list `==` is `False` and the orderings raise `TypeError`. -/
theorem oset_comparisons (a b : OS) (ha : a.Nodup) (hb : b.Nodup) :
    (le a b = true ↔ ∀ x ∈ a, x ∈ b) ∧
    (OSet.eq a b = true ↔ ∀ x, x ∈ a ↔ x ∈ b) ∧
    (lt a b = true ↔ le a b = true ∧ OSet.eq a b = false) ∧
    (∀ xs, cmp a .eq (.list xs) = .ok false ∧ cmp a .le (.list xs) = .error .typeError) := by
  have hle : le a b = true ↔ ∀ x ∈ a, x ∈ b := by
    simp only [le, Bool.and_eq_true, decide_eq_true_eq, List.all_eq_true, contains_iff]
    exact ⟨fun h => h.2, fun h => ⟨ha.length_le_of_subset h, h⟩⟩
  have heq : OSet.eq a b = true ↔ ∀ x, x ∈ a ↔ x ∈ b := by
    simp only [OSet.eq, Bool.and_eq_true, decide_eq_true_eq, hle]
    constructor
    · rintro ⟨hl, hs⟩ x
      exact ⟨hs x, fun hx => subset_antisymm_of_length a b ha hb hs hl hx⟩
    · intro h
      refine ⟨?_, fun x hx => (h x).1 hx⟩
      exact Nat.le_antisymm (ha.length_le_of_subset (fun x hx => (h x).1 hx))
        (hb.length_le_of_subset (fun x hx => (h x).2 hx))
  refine ⟨hle, heq, ?_, fun xs => ⟨rfl, rfl⟩⟩
  simp only [lt, Bool.and_eq_true, decide_eq_true_eq]
  constructor
  · rintro ⟨hl, hs⟩
    refine ⟨hs, ?_⟩
    simp only [OSet.eq, Bool.and_eq_false_iff, decide_eq_false_iff_not]
    exact Or.inl (by omega)
  · rintro ⟨hs, hne⟩
    refine ⟨?_, hs⟩
    have h1 : a.length ≤ b.length := ha.length_le_of_subset (hle.1 hs)
    simp only [OSet.eq, hs, Bool.and_true, decide_eq_false_iff_not] at hne
    omega

/-- C19.10d  Over ANY sequence of set operations starting from a constructed set, the running set
never holds a value twice and its `len` is the number of values it iterates. -/
theorem oset_history_nodup (xs : List String) (ops : List OSet.Op) :
    (run (mk xs) ops).Nodup ∧ ∀ st ∈ trace (mk xs) ops, st.1.Nodup ∧ len st.1 = (iter st.1).length := by
  have hstep : ∀ (a : OS) (op : OSet.Op), a.Nodup → (step a op).1.Nodup := by
    intro a op ha
    cases op with
    | union b => exact mk_nodup _
    | inter b => exact mk_nodup _
    | diff b => exact mk_nodup _
    | rdiff b => exact mk_nodup _
    | xor b => exact mk_nodup _
    | cmp c b => simp only [step]; cases cmp a c b <;> exact ha
    | isdisjoint b => exact ha
    | contains x => exact ha
  have key : ∀ (ops : List OSet.Op) (a : OS), a.Nodup →
      (run a ops).Nodup ∧ ∀ st ∈ trace a ops, st.1.Nodup ∧ len st.1 = (iter st.1).length := by
    intro ops
    induction ops with
    | nil => intro a ha; exact ⟨ha, by simp [trace]⟩
    | cons op r ih =>
      intro a ha
      have h1 := hstep a op ha
      obtain ⟨h2, h3⟩ := ih _ h1
      refine ⟨h2, ?_⟩
      intro st hst
      simp only [trace, List.mem_cons] at hst
      rcases hst with h | h
      · subst h; exact ⟨h1, rfl⟩
      · exact h3 st h
  exact key ops (mk xs) (mk_nodup xs)

end orderedSet

end FormulaicVerif.Props.C19
