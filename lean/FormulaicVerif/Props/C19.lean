import FormulaicVerif.Proofs.C19Simp
import FormulaicVerif.Proofs.C19Extra
import FormulaicVerif.Proofs.C19Paths
import FormulaicVerif.Proofs.C19LM
import FormulaicVerif.Proofs.C19SF
/-! # C19 — Structured, layered-mapping and formula containers obey their container laws

Property theorems only; helper lemmas are in `Proofs/C19*.lean`. Every `theorem` in this file is
an obligation that the check audits with `#print axioms`. The models are `Model/Structured.lean`
(`Model.St`), `Model/LayeredMapping.lean` (`Model.LMap`), `Model/SimpleFormula.lean` (`Model.SFm`);
the functions named here are the functions `Engines/C19.lean` runs. -/

namespace FormulaicVerif.Props.C19
open FormulaicVerif.Model FormulaicVerif.Spec.Containers FormulaicVerif.Proofs.C19

/-! ## 1. `Structured._map`: same shape, each leaf visited exactly once in `_flatten` order -/
section structured
open FormulaicVerif.Model.St
variable {α β : Type}

/-- C19.1a  The log of calls `func(leaf, context)` made by `_map` IS the `_flatten` sequence of the
structure (as a list: every leaf exactly once, in flatten order), for every nesting, and the value
returned alongside the log is `_map`'s value. -/
theorem map_log_is_flatten (f : α → Path → β) (ctx : Path) (v : Val α) :
    (mapLog f ctx v).2 = flattenP ctx v ∧ (mapLog f ctx v).2.map (·.1) = flatten v ∧
      (mapLog f ctx v).1 = mapV f ctx v :=
  ⟨mapLog_snd f v ctx, by rw [mapLog_snd, flattenP_fst], mapLog_fst f v ctx⟩

/-- C19.1b  `_map` preserves the shape: the result has the shape of the structure after its
constructors are re-run (`norm`: `root` key last); for everything that came out of a constructor
(`RootLast`) that is the shape itself. -/
theorem map_shape (f : α → Path → β) (ctx : Path) (v : Val α) :
    shape (mapV f ctx v) = shape (norm v) ∧ (RootLast v → shape (mapV f ctx v) = shape v) :=
  ⟨shape_mapV f v ctx, fun h => by rw [shape_mapV, norm_of_rootLast v h]⟩

example : RootLast (Val.node [("a", .tup [.leaf 1, .node [("root", .leaf 2)]]), ("root", .leaf (3 : Nat))]) := by
  simp [RootLast, RootLastI, RootLastT, rootLast, isRootKey]

/-- C19.1c  As a dictionary, `_map` of a `Structured` is the key-wise map: same keys (a permutation:
only `root` may move), and under every key the mapped value with the extended context. -/
theorem map_is_dict_map (f : α → Path → β) (ctx : Path) (kvs : Items α) :
    ∃ r, mapV f ctx (.node kvs) = .node r ∧
      (∀ k, r.lookup k = (kvs.lookup k).map (mapV f (ctx ++ [.key k]))) ∧
      (r.map (·.1)).Perm (kvs.map (·.1)) := by
  refine ⟨rootLast (mapI f ctx kvs), by simp [mapV], ?_, ?_⟩
  · intro k; rw [lookup_rootLast, lookup_mapI]
  · have := (rootLast_perm (mapI f ctx kvs)).map (·.1)
    rwa [keys_mapI] at this

/-- C19.1d  `_flatten` of the mapped structure is `func` applied along the flatten sequence of the
re-constructed structure; for constructor-built structures it is exactly `map func (flatten s)`. -/
theorem flatten_map (f : α → Path → β) (ctx : Path) (v : Val α) :
    flatten (mapV f ctx v) = (flattenP ctx (norm v)).map (fun e => f e.1 e.2) ∧
    (RootLast v → flatten (mapV f ctx v) = (flattenP ctx v).map (fun e => f e.1 e.2)) ∧
    (RootLast v → ∀ g : α → β, flatten (mapV (fun a _ => g a) ctx v) = (flatten v).map g) := by
  refine ⟨flatten_mapV f v ctx, fun h => by rw [flatten_mapV, norm_of_rootLast v h], fun h g => ?_⟩
  rw [flatten_mapV, norm_of_rootLast v h, ← flattenP_fst v ctx, List.map_map]
  rfl

/-- C19.1e  In general (root key anywhere) the leaves of the mapped structure are the images of
the leaves, up to the order change caused by re-running the constructors. -/
theorem flatten_map_perm (f : α → Path → β) (ctx : Path) (v : Val α) :
    (flatten (mapV f ctx v)).Perm ((flattenP ctx v).map (fun e => f e.1 e.2)) := by
  rw [flatten_mapV]
  exact (flattenP_norm_perm v ctx).map _

/-- C19.1f  The context handed to `func` addresses the leaf it is called on: looking the context
up as a path in the structure (`s[context]`) returns that leaf. -/
theorem map_paths_truthful (f : α → Path → β) (v : Val α) (hw : WF v) :
    ∀ e ∈ (mapLog f [] v).2, lookupPath e.2 v = .ok (.leaf e.1) := by
  intro e he
  rw [mapLog_snd] at he
  obtain ⟨q, hp, hl⟩ := flattenP_paths v [] e.1 e.2 hw he
  simp only [List.nil_append] at hp
  rw [hp]; exact hl

example : WF (Val.node [("a", .tup [.leaf 1, .node [("root", .leaf 2)]]), ("root", .leaf (3 : Nat))]) := by
  simp [WF, WFI, WFT]

/-! ## 2. `_simplify` is idempotent and leaf preserving -/

/-- C19.2a  `_simplify()` computes `simpObj` (the recursive simplification used for nested values). -/
theorem simplify_default_is_simpObj (kvs : Items α) :
    simplify true true false kvs = .ok (simpObj (.node kvs)) := by
  rw [simplify_eq, simpVal_default _ rfl]; rfl

/-- C19.2b  Idempotence: simplifying a simplified value changes nothing — for the recursive
simplification of any value, and for `_simplify(recurse=r, unwrap=u)` under every flag combination
whenever the first result is still a `Structured`. In-place and copying simplification return the
same value. -/
theorem simplify_idempotent :
    (∀ v : Val α, simpObj (simpObj v) = simpObj v) ∧
    (∀ (r u i : Bool) (kvs s : Items α), simplify r u i kvs = .ok (.node s) →
      simplify r u i s = .ok (.node s)) ∧
    (∀ (r : Bool) (kvs : Items α), simplify r false true kvs = simplify r false false kvs) := by
  refine ⟨simpObj_idem, ?_, ?_⟩
  · intro r u i kvs s h
    rw [simplify_eq] at h ⊢
    cases hc : (i && u)
    · simp only [hc, Bool.false_eq_true, if_false, Except.ok.injEq] at h ⊢
      exact simpVal_idem r u _ s h
    · simp [hc] at h
  · intro r kvs; simp [simplify_eq]

/-- C19.2c  Leaf preservation: the `_flatten` sequence is unchanged by simplification, under
every flag combination. -/
theorem simplify_flatten :
    (∀ v : Val α, flatten (simpObj v) = flatten v) ∧
    (∀ (r u i : Bool) (kvs : Items α) (v : Val α), simplify r u i kvs = .ok v →
      flatten v = flattenI kvs) := by
  refine ⟨flatten_simpObj, ?_⟩
  intro r u i kvs v h
  rw [simplify_eq] at h
  cases hc : (i && u)
  · simp only [hc, Bool.false_eq_true, if_false, Except.ok.injEq] at h
    rw [← h, flatten_simpVal]; rfl
  · simp [hc] at h

/-! ## 3. `_update` and `_merge` are dictionary merges -/

/-- C19.3a  `s._update(root, **kw)` is `{**s, **kw, "root": root}`: every key of the updates wins,
every other key keeps its old value, the keys are the old keys followed by the new ones (up to the
constructor moving `root` last); it fails (ValueError) exactly when a key starts with `_`. -/
theorem update_is_dict_merge (s kw : Items α) (root : Option (Val α)) (hkw : (kw.map (·.1)).Nodup) :
    let u := match root with
      | some r => dictSet kw "root" r
      | none => kw
    (u.map (·.1)).Nodup ∧
    ((s ++ u).any (fun kv => badKey kv.1) = false →
      ∃ r, update s root kw = .ok (.node r) ∧
        (∀ k, r.lookup k = match u.lookup k with
          | some v => some v
          | none => s.lookup k) ∧
        (r.map (·.1)).Perm
          (s.map (·.1) ++ (u.map (·.1)).filter (fun k => !(s.map (·.1)).contains k))) ∧
    ((s ++ u).any (fun kv => badKey kv.1) = true → update s root kw = .error .valueError) := by
  intro u
  have hu : (u.map (·.1)).Nodup := by
    cases root with
    | none => exact hkw
    | some r => simp only [u]; rw [keys_dictSet]; exact addKey_nodup _ _ hkw
  have hupd : update s root kw = ctor (dictUpdate s u) := by cases root <;> rfl
  refine ⟨hu, ?_, ?_⟩
  · intro hb
    refine ⟨rootLast (dictUpdate s u), ?_, ?_, ?_⟩
    · rw [hupd, ctor, any_badKey_dictUpdate, hb]; rfl
    · intro k; rw [lookup_rootLast, lookup_dictUpdate s u hu]
      cases List.lookup k u <;> rfl
    · refine ((rootLast_perm _).map (·.1)).trans ?_
      rw [keys_dictUpdate, foldl_addKey, firstOcc_of_nodup _ hu]
  · intro hb
    rw [hupd, ctor, any_badKey_dictUpdate, hb]; rfl

example : (([("a", Val.leaf 1), ("b", .leaf (2 : Nat))] : Items Nat).map (·.1)).Nodup := by decide

/-- C19.3b  `_merge` of objects among which there is a `Structured` and no tuple is the KEY-WISE
merge: the keys are the ordered union of the objects' keys (a bare object counts as `{"root": obj}`),
and under each key is the single value found, or the recursive merge (context extended by the key)
of the values found, in object order; the first failing key fails the merge. If it succeeds, the
result has exactly those keys (a permutation: `root` last) and those values. -/
theorem merge_is_keywise (merger : List α → Except Err α) (fuel : Nat) (ctx : List String)
    (objs : List (Val α)) (hne : objs ≠ []) (hnt : objs.any Val.isTup = false)
    (hsome : objs.any Val.isNode = true) (hwf : ∀ o ∈ objs, ((itemsOf o).map (·.1)).Nodup) :
    merge merger (fuel + 1) ctx objs =
      ((unionKeys objs).mapM (fun k =>
        (mergeEntry merger fuel ctx k (valuesAt k objs)).map (fun m => (k, m)))) >>= ctor ∧
    (∀ r, merge merger (fuel + 1) ctx objs = .ok (.node r) →
      (r.map (·.1)).Perm (unionKeys objs) ∧
      ∀ k ∈ unionKeys objs, ∃ m, mergeEntry merger fuel ctx k (valuesAt k objs) = .ok m ∧
        r.lookup k = some m) := by
  have heq : merge merger (fuel + 1) ctx objs =
      ((unionKeys objs).mapM (fun k =>
        (mergeEntry merger fuel ctx k (valuesAt k objs)).map (fun m => (k, m)))) >>= ctor := by
    rw [merge_succ_group merger fuel ctx objs hne hnt hsome, group_eq objs hwf, mapM_map_except]
  refine ⟨heq, ?_⟩
  intro r hr
  rw [heq] at hr
  cases hm : (unionKeys objs).mapM (fun k =>
      (mergeEntry merger fuel ctx k (valuesAt k objs)).map (fun m => (k, m))) with
  | error e => rw [hm] at hr; simp [bind, Except.bind] at hr
  | ok r0 =>
    rw [hm] at hr
    simp only [bind, Except.bind, ctor] at hr
    split at hr
    · simp at hr
    · simp only [Except.ok.injEq, Val.node.injEq] at hr
      subst hr
      have hk := mapM_keys_except _ _ r0 hm
      refine ⟨?_, ?_⟩
      · rw [← hk]; exact (rootLast_perm r0).map (·.1)
      · intro k hkin
        obtain ⟨m, hm1, hm2⟩ := mapM_lookup_except _ _ r0 (firstOcc_nodup _) hm k hkin
        exact ⟨m, hm1, by rw [lookup_rootLast]; exact hm2⟩

example : ([Val.node [("a", .leaf 1)], .leaf 2, .node [("root", .leaf (3 : Nat)), ("a", .leaf 4)]] : List (Val Nat)) ≠ []
    ∧ List.any [Val.node [("a", .leaf 1)], .leaf 2, .node [("root", .leaf (3 : Nat)), ("a", .leaf 4)]] Val.isTup = false
    ∧ List.any [Val.node [("a", .leaf 1)], .leaf 2, .node [("root", .leaf (3 : Nat)), ("a", .leaf 4)]] Val.isNode = true
    ∧ ∀ o ∈ [Val.node [("a", .leaf 1)], .leaf 2, .node [("root", .leaf (3 : Nat)), ("a", .leaf 4)]],
        ((itemsOf o).map (·.1)).Nodup := by
  refine ⟨by simp, by simp, by simp, ?_⟩
  intro o ho
  simp only [List.mem_cons, List.mem_nil_iff, or_false] at ho
  rcases ho with h | h | h <;> subst h <;> simp [itemsOf]

/-- C19.3c  The other cases of `_merge`: no objects give an empty `Structured`; tuples concatenate
(wrapped under `root` at the top level, bare below it); a mixture of tuples and non-tuples is
refused (ValueError); bare leaves go to `merger`. -/
theorem merge_tuples_concatenate (merger : List α → Except Err α) (fuel : Nat) (ctx : List String)
    (objs : List (Val α)) :
    merge merger (fuel + 1) ctx [] = .ok (.node []) ∧
    (objs ≠ [] → objs.all Val.isTup = true →
      merge merger (fuel + 1) ctx objs =
        if ctx.isEmpty then .ok (.node [("root", .tup (objs.flatMap tupElems))])
        else .ok (.tup (objs.flatMap tupElems))) ∧
    (objs.any Val.isTup = true → objs.all Val.isTup = false →
      merge merger (fuel + 1) ctx objs = .error .valueError) ∧
    (objs ≠ [] → objs.all (fun o => !o.isTup && !o.isNode) = true →
      merge merger (fuel + 1) ctx objs = (merger (objs.flatMap leafOf)).map .leaf) := by
  refine ⟨by simp [merge], ?_, ?_, ?_⟩
  · intro hne hall
    cases objs with
    | nil => exact absurd rfl hne
    | cons o r =>
      rw [merge]
      simp only [List.isEmpty_cons, Bool.false_eq_true, if_false, hall, Bool.not_true,
        Bool.and_false, if_true]
      have hroot : ctor [("root", Val.tup ((o :: r).flatMap tupElems))]
          = .ok (.node [("root", Val.tup ((o :: r).flatMap tupElems))]) := by
        simp [ctor, rootLast, show badKey "root" = false by decide,
          show isRootKey "root" = true by decide]
      rw [hroot]
  · intro hany hall
    cases objs with
    | nil => simp at hany
    | cons o r => rw [merge]; simp [hany, hall]
  · intro hne hall
    cases objs with
    | nil => exact absurd rfl hne
    | cons o r =>
      have h1 : (o :: r).any Val.isTup = false := by
        rw [List.any_eq_false]; intro x hx
        rw [List.all_eq_true] at hall
        have := hall x hx
        simp only [Bool.and_eq_true, Bool.not_eq_eq_eq_not, Bool.not_true] at this
        simp [this.1]
      have h2 : (o :: r).all Val.isTup = false := by
        simp only [List.any_cons, Bool.or_eq_false_iff] at h1
        simp [h1.1]
      have h3 : (o :: r).all (fun o => !o.isNode) = true := by
        rw [List.all_eq_true] at hall ⊢
        intro x hx
        have := hall x hx
        simp only [Bool.and_eq_true] at this
        exact this.2
      rw [merge]
      simp only [List.isEmpty_cons, h1, h2, h3, Bool.false_eq_true, if_false, Bool.false_and, if_true]

/-- C19.3d  The fuel of the model's `_merge` is immaterial: any amount above the nesting depth of
the arguments gives the result the engine computes, and the model artefact `outOfFuel` never
appears (provided the `merger` does not produce it itself). -/
theorem merge_fuel_sufficient (merger : List α → Except Err α) (n : Nat) (ctx : List String)
    (objs : List (Val α)) (hn : heightT objs < n) :
    merge merger n ctx objs = merge merger (mergeFuel objs) ctx objs ∧
    ((∀ xs, merger xs ≠ .error .outOfFuel) → merge merger n ctx objs ≠ .error .outOfFuel) :=
  ⟨merge_fuel merger n (mergeFuel objs) ctx objs hn (by unfold mergeFuel; omega),
   fun hm => merge_no_outOfFuel merger hm n ctx objs hn⟩

end structured

/-! ## 4. `LayeredMapping`: top-first merge of the layers, private writes, consistent views -/
section layered
open FormulaicVerif.Model.LMap
variable {ν : Type}

/-- C19.4a  A layered mapping behaves as the association list obtained by writing its private
layer and then its layers (nested ones expanded the same way) one after the other, top first:
lookup returns the first binding, iteration yields the keys in first-occurrence order. -/
theorem lm_lookup_topfirst (m : LM ν) :
    (∀ k, m.get k = (m.muts ++ flatL m.layers).lookup k) ∧
    m.iter = firstOcc ((m.muts ++ flatL m.layers).map (·.1)) := by
  refine ⟨fun k => ?_, ?_⟩
  · have := get_eq_lookup_flat m.toLayer k
    simpa [LM.get, LM.toLayer, Layer.flat] using this
  · have := keys_firstOcc m.toLayer [] []
    simp only [List.nil_append, List.append_nil] at this
    simp only [LM.iter]
    rw [← firstOcc_of_nodup m.toLayer.keys (by
      simp only [LM.toLayer, Layer.keys, dedup_eq]; exact firstOcc_nodup _), this]
    simp [LM.toLayer, Layer.flat]

/-- C19.4b  Writes are confined to the private layer: `m[k] = v` and `del m[k]` leave the supplied
layers (and the name) untouched — also over whole sequences of writes — and `del` refuses a key
that lives only in a supplied layer. -/
theorem lm_writes_private (m : LM ν) (k : String) (v : ν) :
    (m.set k v).layers = m.layers ∧ (m.set k v).name = m.name ∧
    (∀ m', m.del k = .ok m' → m'.layers = m.layers ∧ m'.name = m.name) ∧
    (dictHas m.muts k = false → m.del k = .error .keyError) ∧
    (∀ ops : List (Op ν), (∀ op ∈ ops, ∀ n p i nm, op ≠ .withLayers n p i nm) →
      (run m ops).layers = m.layers) := by
  refine ⟨rfl, rfl, ?_, ?_, ?_⟩
  · intro m' h
    unfold LM.del at h
    split at h
    · cases h; exact ⟨rfl, rfl⟩
    · cases h
  · intro h; simp [LM.del, h]
  · intro ops
    induction ops generalizing m with
    | nil => intro _; rfl
    | cons op r ih =>
      intro hops
      have hr := fun m' => ih m' (fun op' h' => hops op' (by simp [h']))
      cases op with
      | set k' v' => simp only [run, step]; rw [hr]; rfl
      | del k' =>
        simp only [run, step]
        cases hd : m.del k' with
        | ok m' =>
          simp only []
          rw [hr]
          unfold LM.del at hd
          split at hd
          · cases hd; rfl
          · cases hd
        | error e => simp only []; rw [hr]
      | withLayers n p i nm => exact absurd rfl (hops _ (by simp) n p i nm)

/-- C19.4c  What a write does to lookups: after `m[k] = v` the key `k` maps to `v` and every other
key is unchanged; after a successful `del m[k]` the key falls back to the supplied layers and
every other key is unchanged. -/
theorem lm_set_get (m : LM ν) (k : String) (v : ν) (k' : String) :
    (m.set k v).get k' = (if k' == k then some v else m.get k') ∧
    (∀ m', m.del k = .ok m' → m'.get k' = if k' == k then getL m.layers k' else m.get k') := by
  constructor
  · simp only [LM.get, LM.set, LM.toLayer, Layer.get, dictSet, lookup_dictSet]
    by_cases h : k' = k
    · subst h; simp
    · have hb : (k' == k) = false := by simpa using h
      simp [hb]
  · intro m' h
    unfold LM.del at h
    split at h
    · simp only [Except.ok.injEq] at h
      subst h
      have hl := lookup_filter_key (fun x => !(x == k)) m.muts k'
      simp only [LM.get, LM.toLayer, Layer.get, dictDel]
      rw [hl]
      by_cases hk : k' = k
      · subst hk; simp
      · have hb : (k' == k) = false := by simpa using hk
        simp [hb]
    · cases h

/-- C19.4d  Length, iteration and lookup agree: iteration yields no key twice, `len` is the number
of keys iterated, and a key is iterated exactly when looking it up succeeds. -/
theorem lm_len_iter_consistent (m : LM ν) :
    m.iter.Nodup ∧ m.iter.length = m.len ∧ ∀ k, k ∈ m.iter ↔ (m.get k).isSome = true := by
  have hit : m.iter = firstOcc (m.muts.map (·.1) ++ keysL m.layers) := by
    simp [LM.iter, LM.toLayer, Layer.keys, dedup_eq]
  refine ⟨by rw [hit]; exact firstOcc_nodup _, by rw [hit, LM.len, distinctCount_eq], ?_⟩
  intro k
  rw [(lm_lookup_topfirst m).2, (lm_lookup_topfirst m).1 k, mem_firstOcc, lookup_isSome_iff]

/-- C19.4e  `get_with_layer_name` returns the value plain lookup returns (and nothing for a
missing key). -/
theorem lm_named_lookup_consistent (m : LM ν) (k : String) :
    (m.getWithLayerName k).map (·.1) = m.get k :=
  getNamed_fst m.toLayer [] none k

/-- C19.4f  `with_layers` stacks the new layers on top of (or below) the mapping: the resulting
association list is the new layers' followed by the old one (or the other way round). -/
theorem lm_with_layers_stack (m : LM ν) (new : List (Layer ν)) (inplace : Bool) (name : Option String)
    (prepend : Bool) :
    (m.withLayers new prepend inplace name).toLayer.flat.Perm (m.toLayer.flat ++ flatL new) ∧
    (prepend = true → inplace = false →
      (m.withLayers new prepend inplace name).toLayer.flat = flatL new ++ m.toLayer.flat) ∧
    (prepend = false →
      (m.withLayers new prepend inplace name).toLayer.flat = m.toLayer.flat ++ flatL new) := by
  have flatL_append : ∀ (a b : List (Layer ν)), flatL (a ++ b) = flatL a ++ flatL b := by
    intro a b
    induction a with
    | nil => simp [flatL]
    | cons x r ih => simp [flatL, ih]
  cases new with
  | nil => simp [LM.withLayers, flatL]
  | cons x r =>
    refine ⟨?_, ?_, ?_⟩
    · cases prepend <;> cases inplace <;>
        simp only [LM.withLayers, LM.toLayer, Layer.flat, flatL, flatL_append, List.isEmpty_cons,
          Bool.false_eq_true, if_false, if_true, List.nil_append, List.append_nil, List.append_assoc]
      · exact List.Perm.refl _
      · exact List.Perm.refl _
      · simpa [List.append_assoc] using
          (List.perm_append_comm (l₁ := x.flat ++ flatL r) (l₂ := m.muts ++ flatL m.layers))
      · refine List.Perm.append_left _ ?_
        simpa [List.append_assoc] using
          (List.perm_append_comm (l₁ := x.flat ++ flatL r) (l₂ := flatL m.layers))
    · intro hp hi; subst hp; subst hi
      simp [LM.withLayers, LM.toLayer, Layer.flat, flatL, flatL_append, List.append_assoc]
    · intro hp; subst hp
      cases inplace <;>
        simp [LM.withLayers, LM.toLayer, Layer.flat, flatL, flatL_append, List.append_assoc]

end layered

/-! ## 5. `SimpleFormula` keeps its ordering invariant under every operation sequence -/
section formula
open FormulaicVerif.Model.SFm

/-- C19.5a  Whatever the ordering method (`NONE`, `DEGREE`, `SORT`), its ordering invariant holds
after construction and after ANY finite sequence of `insert`, `__setitem__`, `__delitem__` (index
or slice), `append`, `extend`, `pop`, `reverse` — including operations that raise — at the end
and at every intermediate state. For `DEGREE` the invariant is "degrees never decrease", for `SORT`
"no term is `<` an earlier one and every term's factors are in expression order". -/
theorem formula_sorted_invariant (o : SFm.Ordering) (l0 : List Term) (ops : List Op) :
    OrderingInv o (init o l0) ∧ OrderingInv o (run o (init o l0) ops) ∧
    ∀ st ∈ trace o (init o l0) ops, OrderingInv o st.1 :=
  ⟨inv_reorder o l0, run_inv o ops _ (inv_reorder o l0), trace_inv o ops _ (inv_reorder o l0)⟩

/-- C19.5a′  The default ordering spelled out: a `DEGREE`-ordered formula is sorted by degree after
every operation sequence. -/
theorem formula_degree_sorted (l0 : List Term) (ops : List Op) :
    SortedDeg (run .degree (init .degree l0) ops) :=
  (formula_sorted_invariant .degree l0 ops).2.1

/-- C19.5b  `_reorder` is a STABLE sort by degree: sorted, a permutation, and for every degree the
terms of that degree keep their relative order; it does nothing to a sorted list, and nothing at
all under ordering `NONE`. Under `SORT` it yields the factor-sorted terms, sorted by `Term.__lt__`. -/
theorem formula_reorder_stable (l : List Term) :
    SortedDeg (reorder .degree l) ∧ (reorder .degree l).Perm l ∧
    (∀ d, (reorder .degree l).filter (fun t => Term.degree t == d) = l.filter (fun t => Term.degree t == d)) ∧
    (SortedDeg l → reorder .degree l = l) ∧ reorder .none l = l ∧
    SortedLt (reorder .sort l) ∧ (reorder .sort l).Perm (l.map normTerm) ∧
    (∀ t ∈ reorder .sort l, FactorsSorted t) :=
  ⟨sortByDegree_sorted l, sortByDegree_perm l, sortByDegree_filter l, sortByDegree_of_sorted l, rfl,
   sortTerms_sorted _, sortTerms_perm _, (inv_reorder .sort l).2⟩

example : reorder .sort [[⟨"b", .lookup⟩, ⟨"a", .lookup⟩], [⟨"c", .lookup⟩]]
    = [[⟨"c", .lookup⟩], [⟨"a", .lookup⟩, ⟨"b", .lookup⟩]] := by decide

/-- C19.5c  Insertion and replacement: the result is sorted, contains exactly the old terms plus
the new one (resp. with one replaced), and among terms of equal degree the order is the one of the
plain list operation (the insertion position is honoured within its degree class). -/
theorem formula_insert_stable (l l' : List Term) (i : Int) (t : Term) :
    (SFm.insert .degree l i (some t) = .ok l' →
      SortedDeg l' ∧ l'.Perm (t :: l) ∧
      ∀ d, l'.filter (fun x => Term.degree x == d) =
        (insertAt (clampIdx i l.length) t l).filter (fun x => Term.degree x == d)) ∧
    (setItem .degree l i (some t) = .ok l' →
      ∃ n, normIdx i l.length = some n ∧ SortedDeg l' ∧ l'.Perm (l.set n t) ∧
      ∀ d, l'.filter (fun x => Term.degree x == d) = (l.set n t).filter (fun x => Term.degree x == d)) := by
  constructor
  · intro h
    simp only [SFm.insert, Except.ok.injEq] at h
    subst h
    refine ⟨sortByDegree_sorted _, (sortByDegree_perm _).trans ?_, sortByDegree_filter _⟩
    unfold insertAt
    exact (List.perm_middle).trans (List.Perm.cons t (by rw [List.take_append_drop]))
  · intro h
    simp only [setItem] at h
    cases hn : normIdx i l.length with
    | none => simp [hn] at h
    | some n =>
      simp only [hn, Except.ok.injEq] at h
      subst h
      exact ⟨n, rfl, sortByDegree_sorted _, sortByDegree_perm _, sortByDegree_filter _⟩

example : SFm.insert .degree [[⟨"a", .lookup⟩], [⟨"a", .lookup⟩, ⟨"b", .lookup⟩]] 0 (some [⟨"c", .lookup⟩])
    = .ok [[⟨"c", .lookup⟩], [⟨"a", .lookup⟩], [⟨"a", .lookup⟩, ⟨"b", .lookup⟩]] := by rfl

/-- C19.5d  Deletion removes exactly the addressed term and re-orders nothing; the invariant
survives because a sub-sequence of a sorted sequence is sorted. An out-of-range index raises and
changes nothing. -/
theorem formula_delete_exact (l : List Term) (i : Int) :
    (∀ l', delItem l i = .ok l' →
      ∃ n, normIdx i l.length = some n ∧ l' = l.eraseIdx n ∧ l'.Sublist l ∧ (SortedDeg l → SortedDeg l')) ∧
    (normIdx i l.length = none → delItem l i = .error .indexError ∧
      (step .degree l (.del i)).1 = l) := by
  constructor
  · intro l' h
    simp only [delItem] at h
    cases hn : normIdx i l.length with
    | none => simp [hn] at h
    | some n =>
      simp only [hn, Except.ok.injEq] at h
      subst h
      exact ⟨n, rfl, rfl, List.eraseIdx_sublist _ _, fun hs => hs.sublist (List.eraseIdx_sublist _ _)⟩
  · intro hn
    simp [delItem, step, hn, SFm.ofExcept]

end formula

end FormulaicVerif.Props.C19
