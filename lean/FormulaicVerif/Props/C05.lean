import FormulaicVerif.Proofs.C05Sparse
import FormulaicVerif.Proofs.C05Entry
import FormulaicVerif.Gen.KindTable
import FormulaicVerif.Gen.Names
import FormulaicVerif.Gen.Plumbing
/-! # C05 — Output types, entry points and materializers agree with one another

Property theorems only; helper lemmas are in `Proofs/C05Sparse.lean` and `Proofs/C05Entry.lean`.

* sparse ⊑ dense: every operation of the sparse output path denotes the dense operation, for all
  columns and sizes, and so does the whole column pipeline (written once, generically in the column
  representation, in `Model/Sparse.lean`);
* entry points: for all call records every pair of entry points hands the same request to
  `FormulaMaterializer.get_model_matrix`;
* materializers: the kind tables (GENERATED from the live `_is_categorical` on every run) agree. -/

namespace FormulaicVerif.Props.C05
open FormulaicVerif.Model FormulaicVerif.Model.Sparse FormulaicVerif.Proofs.C05

/-! ## 3. the materializers classify every dtype alike -/

/-- C05.3  For every probed dtype the pandas materializer, the narwhals materializer on a pandas frame
and the narwhals materializer on a pyarrow table make the same categorical/numerical decision.
(`decide` over the generated table: the quantifier IS that finite table.) -/
theorem kind_tables_agree :
    ∀ r ∈ Gen.kindTable, r.pandasKind = r.narwhalsKind ∧ r.narwhalsKind = r.arrowKind ∧ r.pandasKind ≠ .error := by
  decide

/-! ## 1. sparse refines dense -/

/-- C05.1a  `csc_matrix(dense).toarray() = dense`, and the stored form is canonical. -/
theorem sparse_of_dense (xs : Col) : (SCol.ofDense xs).toDense = xs ∧ (SCol.ofDense xs).WF :=
  ⟨toDense_ofDense xs, wf_ofDense xs⟩

/-- C05.1b  `a.multiply(b)` denotes the element-wise product, for canonical columns of equal height. -/
theorem sparse_multiply (a b : SCol) (ha : a.WF) (hb : b.WF) (hn : a.nrows = b.nrows) :
    (SCol.mul a b).toDense = Col.mul a.toDense b.toDense ∧ (SCol.mul a b).WF :=
  ⟨toDense_mul a b ha hb hn, wf_mul a b ha⟩

/-- C05.1c  `scale * column` denotes scalar multiplication (any column, any scale, zero included). -/
theorem sparse_scale (q : Rat) (a : SCol) : (SCol.smul q a).toDense = Col.smul q a.toDense :=
  toDense_smul q a

/-- C05.1d  `categorical_encode_series_to_sparse_csc_matrix` returns the same levels as the dense
dummy coding and columns that denote the indicator columns of those levels — with and without
`drop_first`, for explicit levels, declared categories or discovered ones. -/
theorem sparse_encode (vals : List (Option String)) (levels declared : Option (List String)) (dropFirst : Bool)
    (hnd : (catsOf vals levels declared).Nodup) :
    (encodeSparse vals levels declared dropFirst).1 = (encodeDense vals levels declared dropFirst).1 ∧
    (encodeSparse vals levels declared dropFirst).2.map SCol.toDense = (encodeDense vals levels declared dropFirst).2 ∧
    ∀ c ∈ (encodeSparse vals levels declared dropFirst).2, c.WF ∧ c.nrows = vals.length := by
  exact ⟨rfl, encodeSparse_snd vals levels declared dropFirst hnd, encodeSparse_wf vals levels declared dropFirst⟩

/-- the hypothesis of `sparse_encode` holds for discovered levels of ANY value list -/
example (vals : List (Option String)) : (catsOf vals none none).Nodup :=
  nodup_of_sorted _ (FormulaicVerif.Proofs.C08.sortDedup_sorted _)

/-- `drop_first` keeps the remaining levels in their original order, each column under its own level -/
example : encodeSparse [some "b", some "d", some "f", none] (some ["f", "d", "b"]) none true
    = (["d", "b"], [⟨4, [(1, 1)]⟩, ⟨4, [(0, 1)]⟩]) := by decide

/-- C05.1e  `hstack`: reading the columns back out of the stacked `indptr/indices/data` arrays gives
the columns that went in; hence the stacked matrix denotes the dense stack of the columns. -/
theorem sparse_hstack (n : Nat) (cs : List SCol) (hn : ∀ c ∈ cs, c.nrows = n) :
    (hstack n cs).cols = cs ∧ (hstack n cs).toDense = cs.map SCol.toDense := by
  have := cols_hstack n cs hn
  exact ⟨this, by simp [CSC.toDense, this]⟩

/-- C05.1  The whole sparse output path (encode every factor sparsely, pre-multiply the solo
factors, multiply and scale per column in `itertools.product` order, collect every term's
dictionary, `hstack`) yields — name for name and column for column — the matrix of the numpy
output path; both raise the same exception when one does. For all term lists, factors, levels,
scales and row counts. -/
theorem sparse_refines_dense (n : Nat) (terms : List STerm)
    (hok : ∀ t ∈ terms, ∀ f ∈ t.factors, srcOK n f) :
    (sparsePipeline n terms).map (fun r => (r.1, r.2.toDense)) = densePipeline terms := by
  have hP : ∀ t ∈ terms.map (fun t : STerm => (⟨t.scale, t.factors.map FSrc.encodeS⟩ : GTerm SCol)),
      ∀ f ∈ t.factors, ∀ x ∈ f, PN n x.2 := by
    intro t ht f hf x hx
    obtain ⟨t0, ht0, rfl⟩ := List.mem_map.mp ht
    obtain ⟨f0, hf0, rfl⟩ := List.mem_map.mp hf
    exact (encodeS_hom n f0 (hok t0 ht0 f0 hf0)).2 x hx
  have hmat := gMatrix_hom (sparseHom n) _ hP
  have hd : (terms.map (fun t : STerm => (⟨t.scale, t.factors.map FSrc.encodeS⟩ : GTerm SCol))).map
        (fun t => (⟨t.scale, t.factors.map (List.map (mapI SCol.toDense))⟩ : GTerm Col))
      = terms.map (fun t : STerm => (⟨t.scale, t.factors.map FSrc.encodeD⟩ : GTerm Col)) := by
    rw [List.map_map]
    apply List.map_congr_left
    intro t ht
    simp only [Function.comp_def, List.map_map]
    congr 1
    apply List.map_congr_left
    intro f hf
    exact (encodeS_hom n f (hok t ht f hf)).1
  rw [hd] at hmat
  simp only [sparsePipeline, densePipeline]
  rcases RelE.elim hmat with ⟨e, e1, e2⟩ | ⟨cols, cols', e1, e2, rfl, hcols⟩
  · rw [e1, e2]; rfl
  · rw [e1, e2]
    simp only [Except.map, CSC.toDense]
    rw [cols_hstack n _ (by
      intro c hc
      obtain ⟨x, hx, rfl⟩ := List.mem_map.mp hc
      exact (hcols x hx).2)]
    simp [List.map_map, Function.comp_def, mapI]

/-- non-vacuity: a two-term matrix with an interaction of a reduced categorical factor and a numeric
one satisfies the hypotheses, and both pipelines produce the expected matrix -/
example :
    let terms : List STerm := [⟨2, [.cat "A" [some "u", none, some "v"] ["u", "v"] true, .num "x" [3, 0, 5]]⟩,
                               ⟨1, [.num "x" [3, 0, 5]]⟩]
    (∀ t ∈ terms, ∀ f ∈ t.factors, srcOK 3 f) ∧
    densePipeline terms = .ok (["A[T.v]:x", "x"], [[0, 0, 10], [3, 0, 5]]) ∧
    (sparsePipeline 3 terms).map (fun r => (r.1, r.2.indptr, r.2.indices, r.2.data))
      = .ok (["A[T.v]:x", "x"], [0, 1, 3], [2, 0, 2], [10, 3, 5]) := by
  refine ⟨?_, by decide +kernel, by decide +kernel⟩
  intro t ht f hf
  simp only [List.mem_cons, List.mem_singleton, List.not_mem_nil, or_false] at ht
  rcases ht with rfl | rfl
  · simp only [List.mem_cons, List.mem_singleton, List.not_mem_nil, or_false] at hf
    rcases hf with rfl | rfl
    · exact ⟨rfl, by decide⟩
    · rfl
  · simp only [List.mem_singleton] at hf
    subst hf; rfl

/-! ## 2. entry points -/
section entry
open FormulaicVerif.Model.EntryPoints FormulaicVerif.Proofs.C05E

/-- the static environment of the live package: GENERATED registry, NAAction values and the two
`drop_rows` forwarding flags probed on the live code -/
def liveEnv : Env :=
  { registry := Gen.materializerOutputs, naActions := Gen.naActions,
    fwdOverride := Gen.forwardsDropOnOverride, fwdJoint := Gen.forwardsDropOnJoint }

theorem liveEnv_ok : EnvOK liveEnv := ⟨by decide, by decide⟩

/-- every successful entry point is, up to `drop_rows`, the model-spec method without overrides -/
private theorem via_spec (env : Env) (henv : EnvOK env) (c : Call) (hv : ValidSpec env c.spec) (e : EntryPoints.Entry)
    (rs : List Request) (h : requestVia env e c = .ok rs) :
    ∃ rs', specMethod env c = .ok rs' ∧ eraseAll rs = eraseAll rs' := by
  cases e with
  | sugar =>
    simp only [requestVia, sugar_eq] at h
    cases h1 : update env { formula := 0 } c.overrides with
    | error e => simp [h1] at h
    | ok ms0 =>
      simp only [h1] at h
      cases h2 : getMaterializer env c ms0 with
      | error e => simp [h2] at h
      | ok inst => simp only [h2] at h; exact ⟨rs, h, rfl⟩
  | formulaMethod => exact ⟨rs, h, rfl⟩
  | specMethod => exact ⟨rs, h, rfl⟩
  | specMethodOv =>
    have := specOv_vs_spec env c henv hv
    simp only [requestVia] at h
    rw [h] at this
    cases hs : specMethod env c with
    | error e => simp [hs, Except.map] at this
    | ok rs' =>
      simp only [hs, Except.map, Except.ok.injEq] at this
      exact ⟨rs', rfl, this⟩
  | materializer =>
    simp only [requestVia] at h
    have hj : ∀ p, fromSpec env c.spec c.overrides = .ok p → wanted p ≠ none := by
      intro p hp hw
      rw [materializerMethod_eq, hp] at h
      simp [hw] at h
    have := materializer_vs_spec env c hj
    rw [h] at this
    cases hs : specMethod env c with
    | error e => simp [hs, Except.map] at this
    | ok rs' =>
      simp only [hs, Except.map, Except.ok.injEq] at this
      exact ⟨rs', rfl, this⟩

/-- C05.2  For ALL call records and every pair of entry points (top-level function, formula
method, model-spec method without and with overrides — for `ModelSpecs` jointly or leaf by leaf —,
materializer method): when both produce requests they produce the same ones — same materializer
class, data, context mapping and layering, constructor params, prepared spec options of every
leaf, same simplification — up to the `drop_rows` argument (see `drop_rows_forwarding`). -/
theorem entry_points_agree (env : Env) (henv : EnvOK env) (c : Call) (hv : ValidSpec env c.spec)
    (e₁ e₂ : EntryPoints.Entry) (r₁ r₂ : List Request)
    (h₁ : requestVia env e₁ c = .ok r₁) (h₂ : requestVia env e₂ c = .ok r₂) :
    r₁.map eraseDrop = r₂.map eraseDrop := by
  obtain ⟨s₁, hs₁, he₁⟩ := via_spec env henv c hv e₁ r₁ h₁
  obtain ⟨s₂, hs₂, he₂⟩ := via_spec env henv c hv e₂ r₂ h₂
  rw [hs₁] at hs₂
  cases hs₂
  exact he₁.trans he₂.symm

/-- C05.2b  The entry points also fail together, with the same exception: the formula method IS the
model-spec method; the model-spec method with overrides equals the one without (results compared
up to `drop_rows`, exceptions exactly); so does the materializer method whenever the effective spec
names a single materializer; and the top-level function is the model-spec method behind one extra
step (it first builds the materializer of the bare overrides — its context is the parser context). -/
theorem entry_points_fail_together (env : Env) (henv : EnvOK env) (c : Call) (hv : ValidSpec env c.spec) :
    requestVia env .formulaMethod c = requestVia env .specMethod c ∧
    (requestVia env .specMethodOv c).map eraseAll = (requestVia env .specMethod c).map eraseAll ∧
    ((∀ p, fromSpec env c.spec c.overrides = .ok p → wanted p ≠ none) →
      (requestVia env .materializer c).map eraseAll = (requestVia env .specMethod c).map eraseAll) ∧
    (∀ ms0 inst, update env { formula := 0 } c.overrides = .ok ms0 → getMaterializer env c ms0 = .ok inst →
      requestVia env .sugar c = requestVia env .specMethod c) := by
  refine ⟨rfl, specOv_vs_spec env c henv hv, materializer_vs_spec env c, ?_⟩
  intro ms0 inst h1 h2
  simp only [requestVia, sugar_eq, h1, h2]

/-- what the code does with the caller's `drop_rows` set: every entry point hands it on, except
that — unless the corresponding flag of the environment (probed on the live code) says otherwise —
`ModelSpec.get_model_matrix` called WITH overrides and `ModelSpecs.get_model_matrix` on the joint
path pass `None` instead -/
def dropOf (env : Env) (e : EntryPoints.Entry) (c : Call) (p : Prepared) : Option Nat :=
  match e with
  | .materializer => c.dropRows
  | .specMethodOv =>
    (match p with
      | .one _ => if c.overrides.isEmpty || env.fwdOverride then c.dropRows else none
      | .many _ => dropAfter env p c.dropRows)
  | _ => dropAfter env p c.dropRows

/-- C05.2c  (`drop_rows`, stated as the code is; its correctness is property C06) -/
theorem drop_rows_forwarding (env : Env) (henv : EnvOK env) (c : Call) (hv : ValidSpec env c.spec) (e : EntryPoints.Entry)
    (p : Prepared) (hp : fromSpec env c.spec c.overrides = .ok p) (rs : List Request)
    (h : requestVia env e c = .ok rs) : ∀ q ∈ rs, q.dropRows = dropOf env e c p := by
  have hspec : ∀ rs, specMethod env c = .ok rs → ∀ q ∈ rs, q.dropRows = dropAfter env p c.dropRows := by
    intro rs h q hq
    rw [specMethod_eq, hp] at h
    exact (afterPrepared_plumbed h q hq).2.2.2
  cases e with
  | sugar =>
    simp only [requestVia, sugar_eq] at h
    cases h1 : update env { formula := 0 } c.overrides with
    | error e => simp [h1] at h
    | ok ms0 =>
      simp only [h1] at h
      cases h2 : getMaterializer env c ms0 with
      | error e => simp [h2] at h
      | ok inst => simp only [h2] at h; exact hspec rs h
  | formulaMethod => exact hspec rs h
  | specMethod => exact hspec rs h
  | specMethodOv =>
    simp only [requestVia] at h
    rw [specMethodOv_eq env c henv hv, hp] at h
    intro q hq
    have := (afterPrepared_plumbed h q hq).2.2.2
    cases p with
    | one ms => simpa [dropOf, dropAfter] using this
    | many parts => simpa [dropOf] using this
  | materializer =>
    simp only [requestVia] at h
    rw [materializerMethod_eq, hp] at h
    cases hw : wanted p with
    | none => simp [hw] at h
    | some mp =>
      obtain ⟨m, prm⟩ := mp
      simp only [hw] at h
      cases hr : resolve env c m with
      | error e => simp [hr] at h
      | ok r =>
        simp only [hr] at h
        cases hm : mkReq (instOf c r prm) p c.dropRows with
        | error e => simp [hm, Except.map] at h
        | ok q0 =>
          simp only [hm, Except.map, Except.ok.injEq] at h
          subst h
          intro q hq
          simp only [List.mem_singleton] at hq
          subst hq
          exact (mkReq_plumbed hm).1.2.2.2

/-- C05.2d  Same context layering through every entry point: the materializer is built on the
caller's data with the caller's context mapping, and its lookup layers are data, then context, then
the transforms. -/
theorem context_layering (env : Env) (henv : EnvOK env) (c : Call) (hv : ValidSpec env c.spec) (e : EntryPoints.Entry)
    (rs : List Request) (h : requestVia env e c = .ok rs) :
    ∀ q ∈ rs, q.data = c.data ∧ q.context = c.context ∧ q.layers = ["data", "context", "transforms"] := by
  obtain ⟨rs', hs, he⟩ := via_spec env henv c hv e rs h
  rw [specMethod_eq] at hs
  cases hf : fromSpec env c.spec c.overrides with
  | error e => simp [hf] at hs
  | ok p =>
    simp only [hf] at hs
    have hall := afterPrepared_plumbed hs
    intro q hq
    have hq' : eraseDrop q ∈ eraseAll rs := List.mem_map_of_mem hq
    rw [he] at hq'
    obtain ⟨q', hq'm, hqq⟩ := List.mem_map.mp hq'
    have := hall q' hq'm
    have e1 : q.data = q'.data := by have := congrArg Request.data hqq; simpa [eraseDrop] using this.symm
    have e2 : q.context = q'.context := by have := congrArg Request.context hqq; simpa [eraseDrop] using this.symm
    have e3 : q.layers = q'.layers := by have := congrArg Request.layers hqq; simpa [eraseDrop] using this.symm
    exact ⟨e1.trans this.1, e2.trans this.2.1, e3.trans this.2.2.1⟩

/-- non-vacuity: against the live registry, a structured formula with overrides goes through all
five entry points, every one yields one joint request on the narwhals materializer, and the caller's
`drop_rows` reaches the materializer method (and the joint path only if the live code forwards it) -/
example :
    let c : Call := { spec := .sformula [("lhs", 1), ("rhs", 2)], data := 7, dataMat := some "pandas",
                      context := some 3, dropRows := some 9,
                      overrides := [.materializer (some "narwhals"), .output (some "numpy")] }
    ValidSpec liveEnv c.spec ∧
    (∀ e : EntryPoints.Entry, (requestVia liveEnv e c).map (fun rs => rs.map (fun r => (r.matName, r.specs.length, r.simplify)))
        = .ok [("narwhals", 2, false)]) ∧
    (requestVia liveEnv .sugar c).map (fun rs => rs.map (·.dropRows))
      = .ok [if Gen.forwardsDropOnJoint then some 9 else none] ∧
    (requestVia liveEnv .materializer c).map (fun rs => rs.map (·.dropRows)) = .ok [some 9] := by
  refine ⟨trivial, ?_, by decide, by decide⟩
  intro e; cases e <;> decide

/-- the overrides path of `ModelSpec.get_model_matrix` drops the caller's `drop_rows` unless the live
code forwards it (defect D6, property C06: the flag is probed on every run) -/
example :
    let c : Call := { spec := .mspec { formula := 1 }, data := 0, dataMat := some "pandas", context := none,
                      dropRows := some 5, overrides := [.output (some "numpy")] }
    (requestVia liveEnv .specMethod c).map (fun rs => rs.map (·.dropRows)) = .ok [some 5] ∧
    (requestVia liveEnv .specMethodOv c).map (fun rs => rs.map (·.dropRows))
      = .ok [if Gen.forwardsDropOnOverride then some 5 else none] := by
  decide

end entry

end FormulaicVerif.Props.C05
