import FormulaicVerif.Proofs.C05Sparse
import FormulaicVerif.Proofs.C05Entry
import FormulaicVerif.Proofs.C05Registry
import FormulaicVerif.Proofs.C05Dispatch
import FormulaicVerif.Proofs.C05Compose
import FormulaicVerif.Gen.KindTable
import FormulaicVerif.Gen.Names
import FormulaicVerif.Gen.Plumbing
import FormulaicVerif.Gen.Registry
import FormulaicVerif.Model.Wrapper
/-! # C05 — Output types, entry points and materializers agree with one another

Property theorems only; helper lemmas are in `Proofs/C05Sparse.lean` and `Proofs/C05Entry.lean`.

* sparse ⊑ dense: every operation of the sparse output path denotes the dense operation, for all
  columns and sizes, and so does the whole column pipeline (written once, generically in the column
  representation, in `Model/Sparse.lean`);
* entry points: for all call records every pair of entry points hands the same request to
  `FormulaMaterializer.get_model_matrix`;
* materializers: the kind tables (GENERATED from the live `_is_categorical` on every run) agree. -/

namespace FormulaicVerif.Props.C05
open FormulaicVerif.Model FormulaicVerif.Model.Sparse FormulaicVerif.Proofs.C05

/-! ## 3. the materializers classify every dtype alike -/

/-- C05.3  For every probed dtype the pandas materializer, the narwhals materializer on a pandas frame
and the narwhals materializer on a pyarrow table make the same categorical/numerical decision.
(`decide` over the generated table: the quantifier IS that finite table.) -/
theorem kind_tables_agree :
    ∀ r ∈ Gen.kindTable, r.pandasKind = r.narwhalsKind ∧ r.narwhalsKind = r.arrowKind ∧ r.pandasKind ≠ .error := by
  decide

/-! ## 1. sparse refines dense -/

/-- C05.1a  `csc_matrix(dense).toarray() = dense`, and the stored form is canonical. -/
theorem sparse_of_dense (xs : Col) : (SCol.ofDense xs).toDense = xs ∧ (SCol.ofDense xs).WF :=
  ⟨toDense_ofDense xs, wf_ofDense xs⟩

/-- C05.1b  `a.multiply(b)` denotes the element-wise product, for canonical columns of equal height. -/
theorem sparse_multiply (a b : SCol) (ha : a.WF) (hb : b.WF) (hn : a.nrows = b.nrows) :
    (SCol.mul a b).toDense = Col.mul a.toDense b.toDense ∧ (SCol.mul a b).WF :=
  ⟨toDense_mul a b ha hb hn, wf_mul a b ha⟩

/-- C05.1c  `scale * column` denotes scalar multiplication (any column, any scale, zero included). -/
theorem sparse_scale (q : Rat) (a : SCol) : (SCol.smul q a).toDense = Col.smul q a.toDense :=
  toDense_smul q a

/-- C05.1d  `categorical_encode_series_to_sparse_csc_matrix` returns the same levels as the dense
dummy coding and columns that denote the indicator columns of those levels — with and without
`drop_first`, for explicit levels, declared categories or discovered ones. -/
theorem sparse_encode (vals : List (Option String)) (levels declared : Option (List String)) (dropFirst : Bool)
    (hnd : (catsOf vals levels declared).Nodup) :
    (encodeSparse vals levels declared dropFirst).1 = (encodeDense vals levels declared dropFirst).1 ∧
    (encodeSparse vals levels declared dropFirst).2.map SCol.toDense = (encodeDense vals levels declared dropFirst).2 ∧
    ∀ c ∈ (encodeSparse vals levels declared dropFirst).2, c.WF ∧ c.nrows = vals.length := by
  exact ⟨rfl, encodeSparse_snd vals levels declared dropFirst hnd, encodeSparse_wf vals levels declared dropFirst⟩

/-- the hypothesis of `sparse_encode` holds for discovered levels of ANY value list -/
example (vals : List (Option String)) : (catsOf vals none none).Nodup :=
  nodup_of_sorted _ (FormulaicVerif.Proofs.C08.sortDedup_sorted _)

/-- `drop_first` keeps the remaining levels in their original order, each column under its own level -/
example : encodeSparse [some "b", some "d", some "f", none] (some ["f", "d", "b"]) none true
    = (["d", "b"], [⟨4, [(1, 1)]⟩, ⟨4, [(0, 1)]⟩]) := by decide

/-- C05.1e  `hstack`: reading the columns back out of the stacked `indptr/indices/data` arrays gives
the columns that went in; hence the stacked matrix denotes the dense stack of the columns. -/
theorem sparse_hstack (n : Nat) (cs : List SCol) (hn : ∀ c ∈ cs, c.nrows = n) :
    (hstack n cs).cols = cs ∧ (hstack n cs).toDense = cs.map SCol.toDense := by
  have := cols_hstack n cs hn
  exact ⟨this, by simp [CSC.toDense, this]⟩

/-- C05.1  The whole sparse output path (encode every factor sparsely, pre-multiply the solo
factors, multiply and scale per column in `itertools.product` order, collect every term's
dictionary, `hstack`) yields — name for name and column for column — the matrix of the numpy
output path; both raise the same exception when one does. For all term lists, factors, levels,
scales and row counts. -/
theorem sparse_refines_dense (n : Nat) (terms : List STerm)
    (hok : ∀ t ∈ terms, ∀ f ∈ t.factors, srcOK n f) :
    (sparsePipeline n terms).map (fun r => (r.1, r.2.toDense)) = densePipeline terms := by
  have hP : ∀ t ∈ terms.map (fun t : STerm => (⟨t.scale, t.factors.map FSrc.encodeS⟩ : GTerm SCol)),
      ∀ f ∈ t.factors, ∀ x ∈ f, PN n x.2 := by
    intro t ht f hf x hx
    obtain ⟨t0, ht0, rfl⟩ := List.mem_map.mp ht
    obtain ⟨f0, hf0, rfl⟩ := List.mem_map.mp hf
    exact (encodeS_hom n f0 (hok t0 ht0 f0 hf0)).2 x hx
  have hmat := gMatrix_hom (sparseHom n) _ hP
  have hd : (terms.map (fun t : STerm => (⟨t.scale, t.factors.map FSrc.encodeS⟩ : GTerm SCol))).map
        (fun t => (⟨t.scale, t.factors.map (List.map (mapI SCol.toDense))⟩ : GTerm Col))
      = terms.map (fun t : STerm => (⟨t.scale, t.factors.map FSrc.encodeD⟩ : GTerm Col)) := by
    rw [List.map_map]
    apply List.map_congr_left
    intro t ht
    simp only [Function.comp_def, List.map_map]
    congr 1
    apply List.map_congr_left
    intro f hf
    exact (encodeS_hom n f (hok t ht f hf)).1
  rw [hd] at hmat
  simp only [sparsePipeline, densePipeline]
  rcases RelE.elim hmat with ⟨e, e1, e2⟩ | ⟨cols, cols', e1, e2, rfl, hcols⟩
  · rw [e1, e2]; rfl
  · rw [e1, e2]
    simp only [Except.map, CSC.toDense]
    rw [cols_hstack n _ (by
      intro c hc
      obtain ⟨x, hx, rfl⟩ := List.mem_map.mp hc
      exact (hcols x hx).2)]
    simp [List.map_map, Function.comp_def, mapI]

/-- non-vacuity: a two-term matrix with an interaction of a reduced categorical factor and a numeric
one satisfies the hypotheses, and both pipelines produce the expected matrix -/
example :
    let terms : List STerm := [⟨2, [.cat "A" [some "u", none, some "v"] ["u", "v"] true, .num "x" [3, 0, 5]]⟩,
                               ⟨1, [.num "x" [3, 0, 5]]⟩]
    (∀ t ∈ terms, ∀ f ∈ t.factors, srcOK 3 f) ∧
    densePipeline terms = .ok (["A[T.v]:x", "x"], [[0, 0, 10], [3, 0, 5]]) ∧
    (sparsePipeline 3 terms).map (fun r => (r.1, r.2.indptr, r.2.indices, r.2.data))
      = .ok (["A[T.v]:x", "x"], [0, 1, 3], [2, 0, 2], [10, 3, 5]) := by
  refine ⟨?_, by decide +kernel, by decide +kernel⟩
  intro t ht f hf
  simp only [List.mem_cons, List.mem_singleton, List.not_mem_nil, or_false] at ht
  rcases ht with rfl | rfl
  · simp only [List.mem_cons, List.mem_singleton, List.not_mem_nil, or_false] at hf
    rcases hf with rfl | rfl
    · exact ⟨rfl, by decide⟩
    · rfl
  · simp only [List.mem_singleton] at hf
    subst hf; rfl

private theorem zipWith_replicate_mul (v : Rat) (xs : List Rat) :
    List.zipWith (· * ·) (List.replicate xs.length v) xs = xs.map (v * ·) := by
  induction xs with
  | nil => rfl
  | cons x xs ih => simp [List.replicate_succ, ih]

/-- C05.1s  A NUMERICAL factor whose value is a scalar (`x.max()`, `len(x)`, `{7}`) stands for the column
that holds it in every row, whatever the output type: alone under a scale `q` the term is the one column
`q * v` in each of the `n` rows, and in an interaction with a numeric column `xs` the column
`q * (v * x)`, under the same name, for the sparse and for the numpy/pandas pipeline alike
(`_as_numerical_column` broadcasts before encoding). For all values, scales, names and row counts. -/
theorem scalar_factor_is_constant_column (a b : String) (v q : Rat) (xs : List Rat) (n : Nat) :
    densePipeline [⟨q, [.scalar a v n]⟩] = .ok ([a], [List.replicate n (q * v)]) ∧
    (sparsePipeline n [⟨q, [.scalar a v n]⟩]).map (fun r => (r.1, r.2.toDense)) = .ok ([a], [List.replicate n (q * v)]) ∧
    densePipeline [⟨q, [.scalar a v xs.length, .num b xs]⟩] = .ok ([joinColon [a, b]], [xs.map (fun x => q * (v * x))]) ∧
    (sparsePipeline xs.length [⟨q, [.scalar a v xs.length, .num b xs]⟩]).map (fun r => (r.1, r.2.toDense))
      = .ok ([joinColon [a, b]], [xs.map (fun x => q * (v * x))]) := by
  have h1 : densePipeline [⟨q, [.scalar a v n]⟩] = .ok ([a], [List.replicate n (q * v)]) := by
    simp [densePipeline, gMatrix, gColumns, gFastFactors, gSolo, FSrc.encodeD, gReduce, gNames, iproduct, foldE, gStep,
      gDictSet, denseOps, broadcast, joinColon, Col.smul]
  have h2 : densePipeline [⟨q, [.scalar a v xs.length, .num b xs]⟩]
      = .ok ([joinColon [a, b]], [xs.map (fun x => q * (v * x))]) := by
    simp [densePipeline, gMatrix, gColumns, gFastFactors, gSolo, FSrc.encodeD, gReduce, gNames, iproduct, foldE, gStep,
      gDictSet, denseOps, broadcast, Col.smul, Col.mul, zipWith_replicate_mul]
  refine ⟨h1, ?_, h2, ?_⟩
  · rw [← h1]
    apply sparse_refines_dense
    intro t ht f hf
    simp only [List.mem_singleton] at ht
    subst ht
    simp only [List.mem_singleton] at hf
    subst hf; rfl
  · rw [← h2]
    apply sparse_refines_dense
    intro t ht f hf
    simp only [List.mem_singleton] at ht
    subst ht
    simp only [List.mem_cons, List.not_mem_nil, or_false] at hf
    rcases hf with rfl | rfl <;> rfl

/-- a scalar times a column with a zero: the sparse output stores only the non-zero products -/
example : (sparsePipeline 3 [⟨2, [.scalar "x.max()" 5 3, .num "x" [3, 0, 5]]⟩]).map (fun r => (r.1, r.2.indptr, r.2.indices, r.2.data))
    = .ok (["x.max():x"], [0, 2], [0, 2], [30, 50]) := by decide +kernel

/-! ## 4. the materializer registry and its dispatch -/
section registry
open FormulaicVerif.Model.Registry FormulaicVerif.Proofs.C05R

/-- C05.4a  After ANY history of class creations, the list `REGISTERED_INPUTS[t]` is exactly the
classes that declare input type `t` (own truthy `REGISTER_NAME`, `t` among their own
`REGISTER_INPUTS`), sorted by descending precedence, classes of equal precedence in creation order;
and `REGISTERED_NAMES[n]` is the LAST created class that registered under `n`. -/
theorem registration_closed_form (cs : List MatClass) (t n : String) :
    (registerAll {} cs).inputsFor t = sortDesc (declaring t cs) ∧
    Desc ((registerAll {} cs).inputsFor t) ∧
    (∀ c, c ∈ (registerAll {} cs).inputsFor t ↔ c ∈ declaring t cs) ∧
    (∀ p : Rat, ((registerAll {} cs).inputsFor t).filter (fun c => c.precedence = p)
        = (declaring t cs).filter (fun c => c.precedence = p)) ∧
    dictGet? (registerAll {} cs).names n = lastThat (namedAs n) cs := by
  rw [registerAll_inputsFor]
  exact ⟨rfl, sortDesc_desc _, fun c => mem_sortDesc, fun p => sortDesc_stable _ p, registerAll_names cs n⟩

/-- a history with a replaced name, an inherited (hence unregistered) name, a precedence tie and a
duplicate input type: the closed form is what the fold computes -/
example :
    let a : MatClass := { cid := 0, name := some "m", ownInputs := some ["t", "t"], precedence := 100 }
    let b : MatClass := { cid := 1, name := some "m", ownName := false, ownInputs := some ["t"] }
    let c : MatClass := { cid := 2, name := some "k", ownInputs := some ["t"], precedence := 150 }
    let d : MatClass := { cid := 3, name := some "m", ownInputs := some ["u", "t"], precedence := 100 }
    ((registerAll {} [a, b, c, d]).inputsFor "t").map (·.cid) = [2, 0, 0, 3] ∧
    ((registerAll {} [a, b, c, d]).names.map (fun p => (p.1, p.2.cid))) = [("m", 3), ("k", 2)] := by
  decide +kernel

/-- C05.4b  `for_materializer`: a name gives the class registered (last) under it and is otherwise
`FormulaMaterializerNotFoundError`; an instance gives its class; a materializer class is returned as
it is; anything else is `FormulaMaterializerInvalidError`. -/
theorem for_materializer_spec (cs : List MatClass) (n : String) (c : MatClass) :
    forMaterializer (registerAll {} cs) (.name n)
      = (match lastThat (namedAs n) cs with
          | some k => .ok k
          | none => .error (.unknownName n)) ∧
    forMaterializer (registerAll {} cs) (.inst c) = .ok c ∧
    forMaterializer (registerAll {} cs) (.cls c) = .ok c ∧
    forMaterializer (registerAll {} cs) .other = .error .invalid := by
  refine ⟨?_, rfl, rfl, rfl⟩
  simp only [forMaterializer, registerAll_names]
  cases lastThat (namedAs n) cs <;> rfl

/-- C05.4c  `for_data` returns the FIRST class, among those explicitly registered for the input
type (in precedence order) followed by the registered classes whose `SUPPORTS_INPUT` accepts the
data (in precedence order), that offers the requested output; it raises exactly when there is none
(`noInput` when nothing accepts the data at all). Any registry, any data, any set iteration order. -/
theorem for_data_first_candidate (r : Registry) (setOrder : List MatClass) (d : Data) (output : Option String) :
    forData r setOrder d output =
      match (candidates r setOrder d).find? (offers output) with
      | some c => .ok c
      | none => .error (failure r setOrder d) :=
  forData_eq r setOrder d output

/-- C05.4d  `for_data` returns a materializer that SUPPORTS THE INPUT AND THE REQUESTED OUTPUT
WHENEVER ONE EXISTS, and only such a one: success ⟺ some accepting class offers the output; the
class returned accepts the data and offers the output. -/
theorem for_data_sound_complete (r : Registry) (setOrder : List MatClass) (d : Data) (output : Option String) :
    (∀ c, forData r setOrder d output = .ok c → Accepts r setOrder d c ∧ offers output c = true) ∧
    ((∃ c, forData r setOrder d output = .ok c) ↔ ∃ c, Accepts r setOrder d c ∧ offers output c = true) := by
  have sound : ∀ c, forData r setOrder d output = .ok c → Accepts r setOrder d c ∧ offers output c = true := by
    intro c h
    have hf := forData_ok h
    exact ⟨mem_candidates.mp (List.mem_of_find?_eq_some hf), List.find?_some hf⟩
  refine ⟨sound, ⟨fun ⟨c, h⟩ => ⟨c, sound c h⟩, ?_⟩⟩
  rintro ⟨c, hacc, hoff⟩
  cases hf : (candidates r setOrder d).find? (offers output) with
  | some x => exact ⟨x, forData_of_find hf⟩
  | none => exact absurd hoff (List.find?_eq_none.mp hf c (mem_candidates.mpr hacc))

/-- C05.4e  Priority: explicit registrations come first, then precedence. If ANY class explicitly
registered for the input type offers the output, the class returned is explicitly registered and no
such class has a higher precedence; otherwise no accepting class that offers the output has a
higher precedence than the one returned. -/
theorem for_data_priority (r : Registry) (setOrder : List MatClass) (d : Data) (output : Option String) (c : MatClass)
    (h : forData r setOrder d output = .ok c) :
    ((∃ k ∈ registeredFor r d, offers output k = true) →
      c ∈ registeredFor r d ∧ ∀ k ∈ registeredFor r d, offers output k = true → k.precedence ≤ c.precedence) ∧
    ((¬ ∃ k ∈ registeredFor r d, offers output k = true) →
      ∀ k, Accepts r setOrder d k → offers output k = true → k.precedence ≤ c.precedence) := by
  have hf := forData_ok h
  simp only [candidates] at hf
  rcases find?_append_cases hf with hA | ⟨hA, hB⟩
  · refine ⟨fun _ => ⟨List.mem_of_find?_eq_some hA, find?_desc (registeredFor_desc r d) hA⟩, ?_⟩
    intro hno
    exact absurd ⟨c, List.mem_of_find?_eq_some hA, List.find?_some hA⟩ hno
  · refine ⟨?_, ?_⟩
    · rintro ⟨k, hk, hok⟩
      exact absurd hok (List.find?_eq_none.mp hA k hk)
    · intro _ k hacc hok
      have hk : k ∈ registeredFor r d ++ fallbackFor setOrder d := mem_candidates.mpr hacc
      rcases List.mem_append.mp hk with hk | hk
      · exact absurd hok (List.find?_eq_none.mp hA k hk)
      · exact find?_desc (fallbackFor_desc setOrder d) hB k hk hok

/-- C05.4f  The iteration order of `set(REGISTERED_NAMES.values())` (fixed by object addresses in
CPython) does not matter: with another order `for_data` succeeds as well, with a class of the same
precedence — the same class whenever it is explicitly registered for the input type. -/
theorem for_data_set_order_irrelevant (r : Registry) (so₁ so₂ : List MatClass) (d : Data) (output : Option String)
    (c₁ : MatClass) (hso : ∀ c, c ∈ so₁ ↔ c ∈ so₂) (h : forData r so₁ d output = .ok c₁) :
    ∃ c₂, forData r so₂ d output = .ok c₂ ∧ c₂.precedence = c₁.precedence ∧ (c₁ ∈ registeredFor r d → c₂ = c₁) :=
  forData_order hso h

/-- the registry of the live package: the GENERATED classes registered in their generated order -/
def liveRegistry : Registry := registerAll {} Gen.materializerClasses

/-- C05.4g  The registration model reproduces the live registry: folding `__register_implementation__`
over the generated classes gives the `REGISTERED_NAMES` and `REGISTERED_INPUTS` dumped from the live
package (keys in dict order, lists in list order). Re-decided on every run. -/
theorem live_registry_reproduced :
    liveRegistry.names.map (fun p => (p.1, p.2.cid)) = Gen.registeredNames ∧
    liveRegistry.inputs.map (fun p => (p.1, p.2.map (·.cid))) = Gen.registeredInputs := by
  decide +kernel

/-- C05.4h  Every input type a shipped materializer DECLARES is dispatched: for each probe object
(one per kind of data, GENERATED) whose type a class lists among its `REGISTER_INPUTS` — under any
name that resolves to that type — `for_data` succeeds for `output=None` and for every output that
class offers, whatever the set iteration order. (Before the repair this failed for `dict` and for
main-namespace `narwhals.DataFrame`.) -/
theorem declared_inputs_dispatched (so : List MatClass) (hso : ∀ c, c ∈ so ↔ c ∈ liveRegistry.classes) :
    ∀ p ∈ Gen.dataProbes, ∀ k ∈ Gen.materializerClasses, k.cid ∈ p.declaredBy →
      ∀ o ∈ none :: k.outputs.map some, ∃ c, forData liveRegistry so p.data o = .ok c ∧ offers o c = true := by
  have base : ∀ p ∈ Gen.dataProbes, ∀ k ∈ Gen.materializerClasses, k.cid ∈ p.declaredBy →
      ∀ o ∈ none :: k.outputs.map some,
        (match forData liveRegistry liveRegistry.classes p.data o with | .ok _ => true | .error _ => false) = true := by
    decide +kernel
  intro p hp k hk hd o ho
  have hb := base p hp k hk hd o ho
  cases hf : forData liveRegistry liveRegistry.classes p.data o with
  | error e => simp [hf] at hb
  | ok c₁ =>
    obtain ⟨c₂, h2, _, _⟩ := forData_order (fun c => (hso c).symm) hf
    exact ⟨c₂, h2, ((for_data_sound_complete liveRegistry so p.data o).1 c₂ h2).2⟩

/-- the hypothesis on the set order holds for the dict order of `REGISTERED_NAMES` (and for every permutation of it) -/
example : ∀ c, c ∈ liveRegistry.classes ↔ c ∈ liveRegistry.classes := fun _ => Iff.rfl
example : ∀ c, c ∈ liveRegistry.classes.reverse ↔ c ∈ liveRegistry.classes := fun _ => List.mem_reverse

/-- non-vacuity of `declared_inputs_dispatched`: the table has declared probes (dict → pandas, a
narwhals frame → narwhals) and undeclared ones -/
example : (Gen.dataProbes.filter (fun p => !p.declaredBy.isEmpty)).length ≥ 2 ∧
    (Gen.dataProbes.filter (fun p => p.declaredBy.isEmpty)).length ≥ 1 := by decide

end registry

/-! ## 5. the `ModelMatrix` wrapper -/
section wrapper
open FormulaicVerif.Model.Wrapper

/-- C05.6a  The spec (hence the column names of a numpy / sparse matrix) and the numbers survive the
wrapper's own operations: after ANY sequence of `copy.copy`, `copy.deepcopy` and pickle round trips
the matrix reads the same numbers and the attached spec the same names — provided the library
objects inside copy faithfully (hypotheses on the parameters); a shallow copy carries the very same
spec object. For every output type at once (`α` is the wrapped object's type). -/
theorem wrapper_keeps_spec_and_numbers {α σ V N : Type} (k : Copiers α σ) (values : α → V) (names : σ → N)
    (hc : ∀ a, values (k.copyM a) = values a) (hd : ∀ a, values (k.deepM a) = values a)
    (hp : ∀ a, values (k.pickleM a) = values a)
    (hds : ∀ s, names (k.deepS s) = names s) (hps : ∀ s, names (k.pickleS s) = names s)
    (m : MM α σ) (ops : List Op) :
    values (m.applyAll k ops).wrapped = values m.wrapped ∧
    (m.applyAll k ops).spec.map names = m.spec.map names ∧
    ((∀ op ∈ ops, op = .copy) → (m.applyAll k ops).spec = m.spec) := by
  induction ops generalizing m with
  | nil => exact ⟨rfl, rfl, fun _ => rfl⟩
  | cons op ops ih =>
    have step : values (m.apply k op).wrapped = values m.wrapped ∧ (m.apply k op).spec.map names = m.spec.map names := by
      cases op
      · exact ⟨hc _, rfl⟩
      · refine ⟨hd _, ?_⟩
        simp only [MM.apply, Option.map_map]
        cases m.spec <;> simp [hds]
      · refine ⟨hp _, ?_⟩
        simp only [MM.apply, Option.map_map]
        cases m.spec <;> simp [hps]
    have := ih (m.apply k op)
    simp only [MM.applyAll, List.foldl_cons] at this ⊢
    refine ⟨this.1.trans step.1, this.2.1.trans step.2, ?_⟩
    intro hall
    have hop : op = .copy := hall op (by simp)
    subst hop
    exact this.2.2 (fun o ho => hall o (List.mem_cons_of_mem _ ho))

/-- the hypotheses are satisfiable with copiers that do change the objects (a copy is another object) -/
example : ∃ (k : Copiers (Nat × List Int) (Nat × List String)),
    (∀ a, (k.copyM a).2 = a.2) ∧ (∀ s, (k.deepS s).2 = s.2) ∧ k.copyM (0, [1]) ≠ (0, [1]) :=
  ⟨⟨fun a => (a.1 + 1, a.2), fun a => (a.1 + 1, a.2), fun a => (a.1 + 1, a.2), fun s => (s.1 + 1, s.2), fun s => (s.1 + 1, s.2)⟩,
    fun _ => rfl, fun _ => rfl, by decide⟩

/-- C05.6b  The structured containers: `ModelMatrices` accepts exactly `ModelMatrix` leaves and
`ModelSpecs` exactly `ModelSpec` leaves (`TypeError` otherwise, whatever the other leaves are); and
`ModelMatrices.model_spec` is the `ModelSpecs` of the leaves' specs under the same keys in the same
order (a `TypeError` exactly when some leaf carries no spec). -/
theorem containers_spec (α σ : Type) (items : List (String × Item α σ)) (ms : List (String × MM α σ)) :
    (mkModelMatrices items = .ok ms ↔ items = ms.map (fun p => (p.1, Item.matrix p.2))) ∧
    (∀ specs, modelSpecOf ms = .ok specs ↔ ms.map (fun p => (p.1, p.2.spec)) = specs.map (fun p => (p.1, some p.2))) := by
  constructor
  · induction items generalizing ms with
    | nil => cases ms <;> simp [mkModelMatrices]
    | cons it items ih =>
      obtain ⟨k, x⟩ := it
      cases x with
      | matrix m =>
        simp only [mkModelMatrices]
        cases hr : mkModelMatrices items with
        | error e =>
          simp only [false_iff, reduceCtorEq]
          intro h
          cases ms with
          | nil => simp at h
          | cons p ms' =>
            simp only [List.map_cons, List.cons.injEq] at h
            have := (ih ms').mpr h.2
            rw [hr] at this
            cases this
        | ok r' =>
          simp only [Except.ok.injEq]
          constructor
          · intro h; subst h
            simp only [List.map_cons, List.cons.injEq, true_and]
            exact (ih r').mp hr
          · intro h
            cases ms with
            | nil => simp at h
            | cons p ms' =>
              simp only [List.map_cons, List.cons.injEq, Prod.mk.injEq, Item.matrix.injEq] at h
              have := (ih ms').mpr h.2
              rw [hr] at this
              cases this
              obtain ⟨⟨h1, h2⟩, _⟩ := h
              cases p
              simp_all
      | spec s0 =>
        simp only [mkModelMatrices, false_iff, reduceCtorEq]
        intro h
        cases ms with
        | nil => simp at h
        | cons p ms' => simp at h
      | other =>
        simp only [mkModelMatrices, false_iff, reduceCtorEq]
        intro h
        cases ms with
        | nil => simp at h
        | cons p ms' => simp at h
  · induction ms with
    | nil =>
      intro specs
      cases specs <;> simp [modelSpecOf]
    | cons p ms ih =>
      intro specs
      obtain ⟨k, m⟩ := p
      simp only [modelSpecOf]
      cases hs : m.spec with
      | none =>
        simp only [false_iff, reduceCtorEq]
        intro h
        cases specs with
        | nil => simp at h
        | cons q specs' => simp [hs] at h
      | some s0 =>
        simp only
        cases hr : modelSpecOf ms with
        | error e =>
          simp only [false_iff, reduceCtorEq]
          intro h
          cases specs with
          | nil => simp at h
          | cons q specs' =>
            simp only [List.map_cons, List.cons.injEq] at h
            have := (ih specs').mpr h.2
            rw [hr] at this
            cases this
        | ok r' =>
          simp only [Except.ok.injEq]
          constructor
          · intro h; subst h
            simp only [List.map_cons, List.cons.injEq, hs, true_and]
            exact (ih r').mp hr
          · intro h
            cases specs with
            | nil => simp at h
            | cons q specs' =>
              simp only [List.map_cons, List.cons.injEq, Prod.mk.injEq, hs, Option.some.injEq] at h
              have := (ih specs').mpr h.2
              rw [hr] at this
              cases this
              obtain ⟨⟨h1, h2⟩, _⟩ := h
              cases q
              simp_all

end wrapper

/-! ## 2. entry points -/
section entry
open FormulaicVerif.Model.EntryPoints FormulaicVerif.Proofs.C05E

/-- the static environment of the live package: GENERATED registry, NAAction values and the two
`drop_rows` forwarding flags probed on the live code -/
def liveEnv : Env :=
  { registry := Dispatch.envRegistry liveRegistry, naActions := Gen.naActions, clusterBys := Gen.clusterBys,
    fwdOverride := Gen.forwardsDropOnOverride, fwdJoint := Gen.forwardsDropOnJoint }

theorem liveEnv_ok : EnvOK liveEnv := ⟨by decide, by decide⟩

/-- C05.2f  The constants the plumbing model spells out by hand are the live ones (GENERATED on every
run): the layers of a materializer's context, outermost first, and the defaults of the configuration
fields of `ModelSpec`; and the registry view used here offers, name by name, the generated
`REGISTER_NAME ↦ REGISTER_OUTPUTS` table. -/
theorem model_constants_are_live :
    Gen.contextLayers = ["data", "context", "transforms"] ∧
    (({ formula := 0 } : MSpec).materializer = Gen.defaultMaterializer ∧ ({ formula := 0 } : MSpec).params = none ∧
     ({ formula := 0 } : MSpec).efr = Gen.defaultEnsureFullRank ∧ ({ formula := 0 } : MSpec).na = Gen.defaultNaAction ∧
     ({ formula := 0 } : MSpec).output = Gen.defaultOutput ∧ ({ formula := 0 } : MSpec).cluster = Gen.defaultClusterBy) ∧
    (∀ p ∈ Gen.materializerOutputs, EntryPoints.forMaterializer liveEnv p.1 = .ok p) ∧
    liveEnv.registry.length = Gen.materializerOutputs.length := by
  refine ⟨by decide, by decide, by decide +kernel, by decide +kernel⟩

/-- every successful entry point is, up to `drop_rows`, the model-spec method without overrides -/
private theorem via_spec (env : Env) (henv : EnvOK env) (c : Call) (hv : ValidSpec env c.spec) (e : EntryPoints.Entry)
    (rs : List Request) (h : requestVia env e c = .ok rs) :
    ∃ rs', specMethod env c = .ok rs' ∧ eraseAll rs = eraseAll rs' := by
  cases e with
  | sugar =>
    simp only [requestVia, sugar_eq] at h
    cases h1 : update env { formula := 0 } c.overrides with
    | error e => simp [h1] at h
    | ok ms0 =>
      simp only [h1] at h
      cases h2 : getMaterializer env c ms0 with
      | error e => simp [h2] at h
      | ok inst => simp only [h2] at h; exact ⟨rs, h, rfl⟩
  | formulaMethod => exact ⟨rs, h, rfl⟩
  | specMethod => exact ⟨rs, h, rfl⟩
  | specMethodOv =>
    have := specOv_vs_spec env c henv hv
    simp only [requestVia] at h
    rw [h] at this
    cases hs : specMethod env c with
    | error e => simp [hs, Except.map] at this
    | ok rs' =>
      simp only [hs, Except.map, Except.ok.injEq] at this
      exact ⟨rs', rfl, this⟩
  | materializer =>
    simp only [requestVia] at h
    have hj : ∀ p, fromSpec env c.spec c.overrides = .ok p → wanted p ≠ none := by
      intro p hp hw
      rw [materializerMethod_eq, hp] at h
      simp [hw] at h
    have := materializer_vs_spec env c hj
    rw [h] at this
    cases hs : specMethod env c with
    | error e => simp [hs, Except.map] at this
    | ok rs' =>
      simp only [hs, Except.map, Except.ok.injEq] at this
      exact ⟨rs', rfl, this⟩

/-- C05.2  For ALL call records and every pair of entry points (top-level function, formula
method, model-spec method without and with overrides — for `ModelSpecs` jointly or leaf by leaf —,
materializer method): when both produce requests they produce the same ones — same materializer
class, data, context mapping and layering, constructor params, prepared spec options of every
leaf, same simplification — up to the `drop_rows` argument (see `drop_rows_forwarding`). -/
theorem entry_points_agree (env : Env) (henv : EnvOK env) (c : Call) (hv : ValidSpec env c.spec)
    (e₁ e₂ : EntryPoints.Entry) (r₁ r₂ : List Request)
    (h₁ : requestVia env e₁ c = .ok r₁) (h₂ : requestVia env e₂ c = .ok r₂) :
    r₁.map eraseDrop = r₂.map eraseDrop := by
  obtain ⟨s₁, hs₁, he₁⟩ := via_spec env henv c hv e₁ r₁ h₁
  obtain ⟨s₂, hs₂, he₂⟩ := via_spec env henv c hv e₂ r₂ h₂
  rw [hs₁] at hs₂
  cases hs₂
  exact he₁.trans he₂.symm

/-- C05.2b  The entry points also fail together, with the same exception: the formula method IS the
model-spec method; the model-spec method with overrides equals the one without (results compared
up to `drop_rows`, exceptions exactly); so does the materializer method whenever the effective spec
names a single materializer; and the top-level function is the model-spec method behind one extra
step (it first builds the materializer of the bare overrides — its context is the parser context). -/
theorem entry_points_fail_together (env : Env) (henv : EnvOK env) (c : Call) (hv : ValidSpec env c.spec) :
    requestVia env .formulaMethod c = requestVia env .specMethod c ∧
    (requestVia env .specMethodOv c).map eraseAll = (requestVia env .specMethod c).map eraseAll ∧
    ((∀ p, fromSpec env c.spec c.overrides = .ok p → wanted p ≠ none) →
      (requestVia env .materializer c).map eraseAll = (requestVia env .specMethod c).map eraseAll) ∧
    (∀ ms0 inst, update env { formula := 0 } c.overrides = .ok ms0 → getMaterializer env c ms0 = .ok inst →
      requestVia env .sugar c = requestVia env .specMethod c) := by
  refine ⟨rfl, specOv_vs_spec env c henv hv, materializer_vs_spec env c, ?_⟩
  intro ms0 inst h1 h2
  simp only [requestVia, sugar_eq, h1, h2]

/-- what the code does with the caller's `drop_rows` set: every entry point hands it on, except
that — unless the corresponding flag of the environment (probed on the live code) says otherwise —
`ModelSpec.get_model_matrix` called WITH overrides and `ModelSpecs.get_model_matrix` on the joint
path pass `None` instead; and `ModelSpecs.get_model_matrix` on the PER-SPEC path (parts that cannot
share a materializer) hands every part the caller's set or, when the caller gave none, ONE set it
creates itself (`dropAfter`: `perSpecDrop`) -/
def dropOf (env : Env) (e : EntryPoints.Entry) (c : Call) (p : Prepared) : Option Nat :=
  match e with
  | .materializer => c.dropRows
  | .specMethodOv =>
    (match p with
      | .one _ => if c.overrides.isEmpty || env.fwdOverride then c.dropRows else none
      | .many _ => dropAfter env c p c.dropRows)
  | _ => dropAfter env c p c.dropRows

/-- C05.2c  (`drop_rows`, stated as the code is; its correctness is property C06) -/
theorem drop_rows_forwarding (env : Env) (henv : EnvOK env) (c : Call) (hv : ValidSpec env c.spec) (e : EntryPoints.Entry)
    (p : Prepared) (hp : fromSpec env c.spec c.overrides = .ok p) (rs : List Request)
    (h : requestVia env e c = .ok rs) : ∀ q ∈ rs, q.dropRows = dropOf env e c p := by
  have hspec : ∀ rs, specMethod env c = .ok rs → ∀ q ∈ rs, q.dropRows = dropAfter env c p c.dropRows := by
    intro rs h q hq
    rw [specMethod_eq, hp] at h
    exact (afterPrepared_plumbed h q hq).2.2.2
  cases e with
  | sugar =>
    simp only [requestVia, sugar_eq] at h
    cases h1 : update env { formula := 0 } c.overrides with
    | error e => simp [h1] at h
    | ok ms0 =>
      simp only [h1] at h
      cases h2 : getMaterializer env c ms0 with
      | error e => simp [h2] at h
      | ok inst => simp only [h2] at h; exact hspec rs h
  | formulaMethod => exact hspec rs h
  | specMethod => exact hspec rs h
  | specMethodOv =>
    simp only [requestVia] at h
    rw [specMethodOv_eq env c henv hv, hp] at h
    intro q hq
    have := (afterPrepared_plumbed h q hq).2.2.2
    cases p with
    | one ms => simpa [dropOf, dropAfter] using this
    | many parts => simpa [dropOf] using this
  | materializer =>
    simp only [requestVia] at h
    rw [materializerMethod_eq, hp] at h
    cases hw : wanted p with
    | none => simp [hw] at h
    | some mp =>
      obtain ⟨m, prm⟩ := mp
      simp only [hw] at h
      cases hr : resolve env c m with
      | error e => simp [hr] at h
      | ok r =>
        simp only [hr] at h
        cases hm : mkReq (instOf c r prm) p c.dropRows with
        | error e => simp [hm, Except.map] at h
        | ok q0 =>
          simp only [hm, Except.map, Except.ok.injEq] at h
          subst h
          intro q hq
          simp only [List.mem_singleton] at hq
          subst hq
          exact (mkReq_plumbed hm).1.2.2.2

/-- C05.2e  ONE statement over the inductive type of entry points (top-level function, formula
method, model-spec / model-specs method without and with overrides, materializer method): when the
code forwards the caller's `drop_rows` on the override path and on the joint path (the two flags,
probed on the live code on every run), any two entry points that both produce requests produce
IDENTICAL ones — class, data, context, layers, constructor params, every prepared leaf, the
simplification flag and the very `drop_rows` object: the caller's, or — parts that cannot share a
materializer and no set given — the ONE set `ModelSpecs.get_model_matrix` creates for the call
(`dropAfter env c p c.dropRows`, stated as the second conclusion); the same number of passes, too. -/
theorem entry_points_agree_exactly (env : Env) (henv : EnvOK env) (c : Call) (hv : ValidSpec env c.spec)
    (hfo : env.fwdOverride = true) (hfj : env.fwdJoint = true)
    (e₁ e₂ : EntryPoints.Entry) (r₁ r₂ : List Request)
    (h₁ : requestVia env e₁ c = .ok r₁) (h₂ : requestVia env e₂ c = .ok r₂) :
    r₁ = r₂ ∧ ∀ p, fromSpec env c.spec c.overrides = .ok p → ∀ q ∈ r₁, q.dropRows = dropAfter env c p c.dropRows := by
  obtain ⟨s₁, hs₁, _⟩ := via_spec env henv c hv e₁ r₁ h₁
  rw [specMethod_eq] at hs₁
  cases hp : fromSpec env c.spec c.overrides with
  | error e => simp [hp] at hs₁
  | ok p =>
    -- under the two flags every entry point that succeeds hands on the same object
    have hd : ∀ e rs, requestVia env e c = .ok rs → dropOf env e c p = dropAfter env c p c.dropRows := by
      intro e rs h
      cases e with
      | sugar => rfl
      | formulaMethod => rfl
      | specMethod => rfl
      | specMethodOv => cases p <;> simp [dropOf, dropAfter, hfo]
      | materializer =>
        simp only [requestVia] at h
        rw [materializerMethod_eq, hp] at h
        cases p with
        | one ms => rfl
        | many parts =>
          simp only [wanted] at h
          cases hj : jointLoop none none (parts.map (·.2)) with
          | none => simp [hj] at h
          | some mp => simp [dropOf, dropAfter, hj, hfj]
    have d₁ := drop_rows_forwarding env henv c hv e₁ p hp r₁ h₁
    have d₂ := drop_rows_forwarding env henv c hv e₂ p hp r₂ h₂
    refine ⟨eq_of_eraseAll (dropAfter env c p c.dropRows) (entry_points_agree env henv c hv e₁ e₂ r₁ r₂ h₁ h₂)
      (fun q hq => (d₁ q hq).trans (hd e₁ r₁ h₁)) (fun q hq => (d₂ q hq).trans (hd e₂ r₂ h₂)), ?_⟩
    intro p' hp' q hq
    cases hp'
    exact (d₁ q hq).trans (hd e₁ r₁ h₁)

/-- C05.2g  The PER-SPEC branch of `ModelSpecs.get_model_matrix` (parts that nominate different
materializers or constructor params): the requests are those of ONE pass over the parts — one
single-leaf request per part, in part order — or of TWO identical passes, exactly when the drop set
grew during the first (`c.dropGrows`, a parameter: the null rows of the data); every request of
either pass carries the same set object: the caller's, or the one fresh set of the call. Through
every entry point that reaches that branch (`entry_points_agree_exactly`). -/
theorem per_spec_generation (env : Env) (c : Call) (parts : List (String × MSpec))
    (hf : fromSpec env c.spec c.overrides = .ok (.many parts))
    (hj : jointLoop none none (parts.map (·.2)) = none)
    (rs : List Request) (h : requestVia env .specMethod c = .ok rs) :
    ∃ pass : List Request, rs = twice c.dropGrows pass ∧ pass.length = parts.length ∧
      ∀ q ∈ pass, q.dropRows = perSpecDrop c c.dropRows ∧ q.specs.length = 1 ∧ q.simplify = true := by
  simp only [requestVia] at h
  rw [specMethod_eq, hf] at h
  simp only [afterPrepared, manyReq, hj] at h
  cases hm : mapParts (fun ms => oneReq env c ms (perSpecDrop c c.dropRows)) parts with
  | error e => simp [hm, Except.map] at h
  | ok out =>
    simp only [hm, Except.map, Except.ok.injEq] at h
    refine ⟨out.map (·.2), h.symm, by simp [mapParts_map_snd_length _ parts out hm], ?_⟩
    intro q hq
    obtain ⟨kq, hkq, rfl⟩ := List.mem_map.mp hq
    obtain ⟨p0, _, hp0⟩ := mapParts_ok_mem _ parts out hm kq hkq
    simp only [oneReq] at hp0
    cases hr : resolve env c p0.2.materializer with
    | error e => simp [hr] at hp0
    | ok r =>
      simp only [hr] at hp0
      obtain ⟨specs, hs, _, hq⟩ := mkReq_ok hp0
      rw [hq]
      refine ⟨rfl, ?_, rfl⟩
      simpa [leavesOf] using mapParts_map_snd_length _ _ specs hs

/-- the per-spec branch against the live registry: no set given → both parts get the call's fresh set
(identity `freshDrop`), one pass when nothing is dropped, two identical passes when rows are; a set
given → that very object -/
example :
    let a : MSpec := { formula := 1, materializer := some "pandas", params := some 1 }
    let b : MSpec := { formula := 2, materializer := some "pandas" }
    let call (d : Option Nat) (grows : Bool) : Call :=
      { spec := .mspecs [("lhs", a), ("rhs", b)], data := 0, dataMat := some "pandas", context := none,
        dropRows := d, overrides := [], freshDrop := 77, dropGrows := grows }
    (∀ e : EntryPoints.Entry, e ≠ .materializer →
      (requestVia liveEnv e (call none false)).map (fun rs => rs.map (fun q => (q.params, q.dropRows)))
        = .ok [(some 1, some 77), (none, some 77)]) ∧
    (requestVia liveEnv .sugar (call none true)).map (fun rs => rs.map (fun q => (q.params, q.dropRows)))
      = .ok [(some 1, some 77), (none, some 77), (some 1, some 77), (none, some 77)] ∧
    (requestVia liveEnv .specMethodOv (call (some 5) true)).map (fun rs => rs.map (·.dropRows))
      = .ok [some 5, some 5, some 5, some 5] ∧
    requestVia liveEnv .materializer (call none false) = .error .notFound := by
  refine ⟨?_, by decide +kernel, by decide +kernel, by decide +kernel⟩
  intro e he
  cases e <;> first | exact absurd rfl he | decide +kernel

/-- the live environment satisfies the two flag hypotheses exactly when the generated probes say so -/
example (h1 : Gen.forwardsDropOnOverride = true) (h2 : Gen.forwardsDropOnJoint = true) :
    liveEnv.fwdOverride = true ∧ liveEnv.fwdJoint = true := ⟨h1, h2⟩

/-- C05.2d  Same context layering through every entry point: the materializer is built on the
caller's data with the caller's context mapping, and its lookup layers are data, then context, then
the transforms. -/
theorem context_layering (env : Env) (henv : EnvOK env) (c : Call) (hv : ValidSpec env c.spec) (e : EntryPoints.Entry)
    (rs : List Request) (h : requestVia env e c = .ok rs) :
    ∀ q ∈ rs, q.data = c.data ∧ q.context = c.context ∧ q.layers = ["data", "context", "transforms"] := by
  obtain ⟨rs', hs, he⟩ := via_spec env henv c hv e rs h
  rw [specMethod_eq] at hs
  cases hf : fromSpec env c.spec c.overrides with
  | error e => simp [hf] at hs
  | ok p =>
    simp only [hf] at hs
    have hall := afterPrepared_plumbed hs
    intro q hq
    have hq' : eraseDrop q ∈ eraseAll rs := List.mem_map_of_mem hq
    rw [he] at hq'
    obtain ⟨q', hq'm, hqq⟩ := List.mem_map.mp hq'
    have := hall q' hq'm
    have e1 : q.data = q'.data := by have := congrArg Request.data hqq; simpa [eraseDrop] using this.symm
    have e2 : q.context = q'.context := by have := congrArg Request.context hqq; simpa [eraseDrop] using this.symm
    have e3 : q.layers = q'.layers := by have := congrArg Request.layers hqq; simpa [eraseDrop] using this.symm
    exact ⟨e1.trans this.1, e2.trans this.2.1, e3.trans this.2.2.1⟩

/-! ### the plumbing on top of the registry -/
section dispatch
open FormulaicVerif.Model.Dispatch FormulaicVerif.Proofs.C05D FormulaicVerif.Proofs.C05R

/-- C05.5a  What the plumbing model reads of the registry is the registry: looking a nominated name
up in `envRegistry r` is `for_materializer(name)` on `r`, for every registry and every name. -/
theorem registry_view_faithful (env : Env) (r : Registry.Registry) (h : env.registry = envRegistry r) (n : String) :
    EntryPoints.forMaterializer env n
      = (match Registry.forMaterializer r (.name n) with
          | .ok cl => .ok (n, cl.outputs)
          | .error _ => .error .notFound) := by
  rw [forMaterializer_envRegistry env r h n]
  simp only [Registry.forMaterializer]
  cases Registry.dictGet? r.names n <;> rfl

/-- C05.5b  WHICH CLASS SERVES A REQUEST. For every registry, every data (described by what
`for_data` reads of it), every call and EVERY entry point: each request that reaches the
materialisation proper is served by a class registered under the recorded name; every prepared
leaf records that name and an output that class OFFERS; and the class was either looked up under a
nominated name or is `for_data(data)`'s choice — a class that accepts the data
(`for_data_sound_complete`, `for_data_priority` say which one). -/
theorem dispatched_class_serves_request (env : Env) (henv : EnvOK env) (r : Registry.Registry)
    (so : List Registry.MatClass) (hreg : env.registry = envRegistry r)
    (spec : SpecArg) (dataId : Nat) (d : Registry.Data) (ctx dr : Option Nat) (ov : List Attr)
    (hv : ValidSpec env spec) (e : EntryPoints.Entry) (rs : List Request)
    (h : requestVia env e (callFor r so spec dataId d ctx dr ov) = .ok rs) :
    ∀ q ∈ rs, ∃ cl,
      Registry.forMaterializer r (.name q.matName) = .ok cl ∧
      (∀ l ∈ q.specs, l.2.materializer = some q.matName ∧ ∃ o, l.2.output = some o ∧ o ∈ cl.outputs) ∧
      ((∃ n, EntryPoints.forMaterializer env n = .ok (q.matName, cl.outputs)) ∧
       ((∃ m, resolve env (callFor r so spec dataId d ctx dr ov) (some m) = .ok (q.matName, cl.outputs)) ∨
        (∃ k, Registry.forData r so d none = .ok k ∧ k.name = some q.matName ∧ Accepts r so d k))) := by
  obtain ⟨rs', hs, he⟩ := via_spec env henv _ hv e rs h
  rw [specMethod_eq] at hs
  cases hf : fromSpec env (callFor r so spec dataId d ctx dr ov).spec (callFor r so spec dataId d ctx dr ov).overrides with
  | error err => simp [hf] at hs
  | ok p =>
    simp only [hf] at hs
    intro q hq
    have hq' : eraseDrop q ∈ eraseAll rs := List.mem_map_of_mem hq
    rw [he] at hq'
    obtain ⟨q', hq'm, hqq⟩ := List.mem_map.mp hq'
    obtain ⟨m, rr, hres, hserved⟩ := chosen_of_eraseDrop hqq.symm (afterPrepared_chosen hs q' hq'm)
    -- the pair found carries a registered name
    have hname : ∃ n, EntryPoints.forMaterializer env n = .ok rr := by
      cases m with
      | some n => exact ⟨n, hres⟩
      | none =>
        simp only [resolve, EntryPoints.forData] at hres
        cases hdm : (callFor r so spec dataId d ctx dr ov).dataMat with
        | none => simp [hdm] at hres
        | some n => simp only [hdm] at hres; exact ⟨n, hres⟩
    obtain ⟨n, hn⟩ := hname
    have hfst := forMaterializer_fst hn
    rw [forMaterializer_envRegistry env r hreg n] at hn
    cases hd : Registry.dictGet? r.names n with
    | none => simp [hd] at hn
    | some cl =>
      simp only [hd, Except.ok.injEq] at hn
      have hm1 : q.matName = n := hserved.1.trans hfst
      have hrr : rr = (q.matName, cl.outputs) := by rw [← hn, hm1]
      refine ⟨cl, ?_, ?_, ?_, ?_⟩
      · simp only [Registry.forMaterializer, hm1, hd]
      · intro l hl
        obtain ⟨h1, o, h2, h3⟩ := hserved.2 l hl
        refine ⟨h1.trans (by rw [hserved.1]), o, h2, ?_⟩
        rw [← hn] at h3; exact h3
      · refine ⟨n, ?_⟩
        rw [forMaterializer_envRegistry env r hreg n, hd, hm1]
      · cases m with
        | some m0 => exact Or.inl ⟨m0, by rw [← hrr]; exact hres⟩
        | none =>
          obtain ⟨k, hk1, hk2, hk3⟩ := resolve_none_callFor hres
          exact Or.inr ⟨k, hk1, by rw [hk2, hserved.1], hk3⟩

/-- C05.5c  Every request that reaches the materialisation proper — through any entry point — is
internally consistent: its leaves agree on the output type, the null policy and the rank setting
(their factors are evaluated once, under one pooled spec; the code raises `RuntimeError` otherwise,
and so does the model: `ModelSpecs` built by hand from disagreeing leaves fail through every entry
point that materialises them jointly). -/
theorem requests_are_consistent (env : Env) (henv : EnvOK env) (c : Call) (hv : ValidSpec env c.spec)
    (e : EntryPoints.Entry) (rs : List Request) (h : requestVia env e c = .ok rs) :
    ∀ q ∈ rs, consistent q.specs = true := by
  obtain ⟨rs', hs, he⟩ := via_spec env henv c hv e rs h
  rw [specMethod_eq] at hs
  cases hf : fromSpec env c.spec c.overrides with
  | error err => simp [hf] at hs
  | ok p =>
    simp only [hf] at hs
    intro q hq
    have hq' : eraseDrop q ∈ eraseAll rs := List.mem_map_of_mem hq
    rw [he] at hq'
    obtain ⟨q', hq'm, hqq⟩ := List.mem_map.mp hq'
    have e2 : q.specs = q'.specs := by
      have := congrArg Request.specs hqq
      simpa [eraseDrop] using this.symm
    rw [e2]
    exact afterPrepared_consistent hs q' hq'm

/-- disagreeing leaves: jointly (both leave the materializer open) a `RuntimeError` from every entry
point; leaf by leaf (two different materializers nominated) two requests, each consistent -/
example :
    let a : MSpec := { formula := 1, output := some "numpy" }
    let b : MSpec := { formula := 2, output := some "sparse" }
    let call (x y : MSpec) : Call := { spec := .mspecs [("lhs", x), ("rhs", y)], data := 0, dataMat := some "pandas",
                                       context := none, dropRows := none, overrides := [] }
    (∀ e : EntryPoints.Entry, requestVia liveEnv e (call a b) = .error .runtime) ∧
    (requestVia liveEnv .specMethod (call { a with materializer := some "pandas" } { b with materializer := some "narwhals" })).map
        (fun rs => rs.map (fun q => (q.matName, q.specs.length))) = .ok [("pandas", 1), ("narwhals", 1)] := by
  refine ⟨?_, by decide +kernel⟩
  intro e; cases e <;> decide +kernel

/-- non-vacuity and the live instance: a dict handed to the top-level function is dispatched to the
pandas materializer by the registry model over the GENERATED classes, a main-namespace narwhals frame
to the narwhals materializer, and a list to none (`FormulaMaterializerNotFoundError` from every entry point
that has to pick a class) -/
example :
    let env : Env := liveEnv
    let call (m q : String) (sup : List Nat) : Call :=
      callFor liveRegistry liveRegistry.classes (.formula 1) 0 { module := m, qualname := q, supportedBy := sup } none none []
    (requestVia env .sugar (call "builtins" "dict" [])).map (fun rs => rs.map (·.matName)) = .ok ["pandas"] ∧
    (requestVia env .specMethod (call "narwhals.dataframe" "DataFrame" [0])).map (fun rs => rs.map (·.matName)) = .ok ["narwhals"] ∧
    (requestVia env .formulaMethod (call "builtins" "list" [])).map (fun rs => rs.map (·.matName)) = .error .notFound := by
  decide +kernel

end dispatch

/-! ### the property in one statement -/
section compose
open FormulaicVerif.Spec.OutputAgreement FormulaicVerif.Proofs.C05C

/-- whatever output type is asked for, a leaf's numbers are those of the dense pipeline of its formula -/
private theorem valuesOf_dense (content : Nat → Content)
    (hok : ∀ f, ∀ t ∈ (content f).terms, ∀ s ∈ t.factors, srcOK (content f).nrows s) (ms : MSpec) :
    valuesOf content ms = densePipeline (content ms.formula).terms := by
  simp only [valuesOf]
  split
  · exact sparse_refines_dense _ _ (hok ms.formula)
  · rfl

/-- C05.0  THE PROPERTY ON THE MODEL, AS ONE STATEMENT. For the same formula / spec, data, context
and options, asking for ANY two output types (`output=o₁`, `output=o₂`: pandas, numpy, sparse — or any
other the materializer offers) through ANY two entry points (top-level function, formula method,
model-spec / model-specs method with or without overrides, materializer method): whenever both
calls produce matrices, they produce — request by request, part by part — the same column names in
the same order and the same numbers. For every environment (registry, enum values, forwarding
flags), every call record, every content of the formulas (any terms, factors, levels, scales, row
counts with one value per row). Composition of `entry_points_agree` (plumbing), the fact that the
requested output type only changes the `output` field of the prepared leaves, and
`sparse_refines_dense` (column pipelines). -/
theorem same_numbers_any_output_any_entry (env : Env) (henv : EnvOK env) (c : Call) (hv : ValidSpec env c.spec)
    (content : Nat → Content)
    (hok : ∀ f, ∀ t ∈ (content f).terms, ∀ s ∈ t.factors, srcOK (content f).nrows s)
    (o₁ o₂ : String) (e₁ e₂ : EntryPoints.Entry)
    (v₁ v₂ : List (List (String × Except MErr (List String × List Col))))
    (h₁ : valuesVia env content e₁ (withOutput c o₁) = .ok v₁)
    (h₂ : valuesVia env content e₂ (withOutput c o₂) = .ok v₂) : v₁ = v₂ := by
  -- the numbers of an entry point are those of the model-spec method on the prepared spec
  have key : ∀ (o : String) (e : EntryPoints.Entry) (v : List (List (String × Except MErr (List String × List Col)))),
      valuesVia env content e (withOutput c o) = .ok v →
      ∃ p s, fromSpec env c.spec c.overrides = .ok p ∧
        afterPrepared env (withOutput c o) (Prepared.setOut o p) c.dropRows = .ok s ∧ v = valuesOfRequests content s := by
    intro o e v h
    simp only [valuesVia] at h
    cases hr : requestVia env e (withOutput c o) with
    | error err => simp [hr, Except.map] at h
    | ok r =>
      simp only [hr, Except.map, Except.ok.injEq] at h
      obtain ⟨s, hs, he⟩ := via_spec env henv (withOutput c o) hv e r hr
      rw [specMethod_eq] at hs
      have hfo : fromSpec env (withOutput c o).spec (withOutput c o).overrides
          = (fromSpec env c.spec c.overrides).map (Prepared.setOut o) := fromSpec_output env c.spec c.overrides o
      rw [hfo] at hs
      cases hp : fromSpec env c.spec c.overrides with
      | error err => simp [hp, Except.map] at hs
      | ok p =>
        simp only [hp, Except.map] at hs
        exact ⟨p, s, rfl, hs, by rw [← h]; exact values_eraseAll he⟩
  obtain ⟨p₁, s₁, hp₁, ha₁, rfl⟩ := key o₁ e₁ v₁ h₁
  obtain ⟨p₂, s₂, hp₂, ha₂, rfl⟩ := key o₂ e₂ v₂ h₂
  rw [hp₁] at hp₂
  cases hp₂
  have hc : SameData (withOutput c o₁) (withOutput c o₂) := ⟨rfl, rfl, rfl, rfl, rfl⟩
  refine values_sameButOut ?_ (afterPrepared_setOut hc ha₁ ha₂)
  intro ms ms' hms
  rw [valuesOf_dense content hok, valuesOf_dense content hok]
  have : ms.formula = ms'.formula := by
    have := congrArg MSpec.formula hms
    simpa [eraseOutMS] using this
  rw [this]

private def exContent : Nat → Content := fun f =>
  if f = 2 then ⟨3, [⟨2, [.cat "A" [some "u", none, some "v"] ["u", "v"] true, .num "x" [3, 0, 5]]⟩, ⟨1, [.num "x" [3, 0, 5]]⟩]⟩
  else ⟨3, [⟨1, [.num "y" [1, 2, 4]]⟩]⟩
private def exCall : Call :=
  { spec := .sformula [("lhs", 1), ("rhs", 2)], data := 7, dataMat := some "pandas",
    context := some 3, dropRows := none, overrides := [.materializer (.name "narwhals")] }
private def exFlat (x : Except EntryPoints.Err (List (List (String × Except MErr (List String × List Col))))) :
    Option (List (String × Except MErr (List String × List Col))) := x.toOption.map List.flatten
/-- part keys with their column names (`none`: the call or a part failed) -/
private def exNames (x : Except EntryPoints.Err (List (List (String × Except MErr (List String × List Col))))) :
    Option (List (String × List String)) :=
  (exFlat x).bind (fun ls => ls.mapM (fun l => l.2.toOption.map (fun r => (l.1, r.1))))
/-- the numbers, part by part, column by column -/
private def exNumbers (x : Except EntryPoints.Err (List (List (String × Except MErr (List String × List Col))))) :
    Option (List (List (List Rat))) :=
  (exFlat x).bind (fun ls => ls.mapM (fun l => l.2.toOption.map (fun r => r.2)))

/-- the content of the example satisfies the hypothesis of `same_numbers_any_output_any_entry` -/
example : ∀ f, ∀ t ∈ (exContent f).terms, ∀ s ∈ t.factors, srcOK (exContent f).nrows s := by
  intro f t ht s hs
  have hn : (exContent f).nrows = 3 := by simp only [exContent]; split <;> rfl
  rw [hn]
  by_cases hf : f = 2
  · simp only [exContent, hf, if_true, List.mem_cons, List.mem_singleton, List.not_mem_nil, or_false] at ht
    rcases ht with rfl | rfl
    · simp only [List.mem_cons, List.mem_singleton, List.not_mem_nil, or_false] at hs
      rcases hs with rfl | rfl
      · exact ⟨rfl, by decide⟩
      · rfl
    · simp only [List.mem_singleton] at hs
      subst hs; rfl
  · simp only [exContent, hf, if_false, List.mem_singleton] at ht
    subst ht
    simp only [List.mem_singleton] at hs
    subst hs; rfl

/-- non-vacuity: a two-part formula whose right-hand side holds an interaction of a reduced
categorical factor with a numeric one; sparse output through the top-level function and pandas
output through the materializer method both succeed (one joint request, two parts) and give the
same names and numbers -/
example :
    exNames (valuesVia liveEnv exContent .sugar (withOutput exCall "sparse")) = some [("lhs", ["y"]), ("rhs", ["A[T.v]:x", "x"])] ∧
    exNumbers (valuesVia liveEnv exContent .sugar (withOutput exCall "sparse")) = some [[[1, 2, 4]], [[0, 0, 10], [3, 0, 5]]] ∧
    exNames (valuesVia liveEnv exContent .materializer (withOutput exCall "pandas")) = some [("lhs", ["y"]), ("rhs", ["A[T.v]:x", "x"])] ∧
    exNumbers (valuesVia liveEnv exContent .materializer (withOutput exCall "pandas")) = some [[[1, 2, 4]], [[0, 0, 10], [3, 0, 5]]] := by
  decide +kernel

end compose

/-- non-vacuity: against the live registry, a structured formula with overrides goes through all
five entry points, every one yields one joint request on the narwhals materializer, and the caller's
`drop_rows` reaches the materializer method (and the joint path only if the live code forwards it) -/
example :
    let c : Call := { spec := .sformula [("lhs", 1), ("rhs", 2)], data := 7, dataMat := some "pandas",
                      context := some 3, dropRows := some 9,
                      overrides := [.materializer (.name "narwhals"), .output (some "numpy")] }
    ValidSpec liveEnv c.spec ∧
    (∀ e : EntryPoints.Entry, (requestVia liveEnv e c).map (fun rs => rs.map (fun r => (r.matName, r.specs.length, r.simplify)))
        = .ok [("narwhals", 2, false)]) ∧
    (requestVia liveEnv .sugar c).map (fun rs => rs.map (·.dropRows))
      = .ok [if Gen.forwardsDropOnJoint then some 9 else none] ∧
    (requestVia liveEnv .materializer c).map (fun rs => rs.map (·.dropRows)) = .ok [some 9] := by
  refine ⟨trivial, ?_, by decide, by decide⟩
  intro e; cases e <;> decide

/-- the overrides path of `ModelSpec.get_model_matrix` drops the caller's `drop_rows` unless the live
code forwards it (defect D6, property C06: the flag is probed on every run) -/
example :
    let c : Call := { spec := .mspec { formula := 1 }, data := 0, dataMat := some "pandas", context := none,
                      dropRows := some 5, overrides := [.output (some "numpy")] }
    (requestVia liveEnv .specMethod c).map (fun rs => rs.map (·.dropRows)) = .ok [some 5] ∧
    (requestVia liveEnv .specMethodOv c).map (fun rs => rs.map (·.dropRows))
      = .ok [if Gen.forwardsDropOnOverride then some 5 else none] := by
  decide

end entry

end FormulaicVerif.Props.C05
