import FormulaicVerif.Proofs.C07
/-! # C07 — Multi-part formulas give row-aligned parts equal to separate builds

Property theorems only (helper lemmas: `Proofs/C07.lean`). They are about the executable model
`Model/Parts.lean` of `FormulaMaterializer.get_model_matrix` for structured specs — the functions
`materialize` / `materializeOne` / `specsOf` named here are the functions `Engines/C07.lean` runs
against the real code on every check.

All theorems hold for EVERY world `W` (data set seen through factor evaluation and encoders: any
null pattern over any variables), every structured formula `F` (any nesting of keyed and tuple
structure), every option setting, every caller-supplied drop set and every iteration order `perm`
of the pooled factor set. -/

namespace FormulaicVerif.Props.C07
open FormulaicVerif.Model FormulaicVerif.Model.Parts FormulaicVerif.Model.St FormulaicVerif.Spec.Containers
open FormulaicVerif.Proofs.C07 FormulaicVerif.Proofs.C19

variable {ν τ : Type}

/-! ### a concrete instance used by the non-vacuity examples

Three data rows; `y` is null in row 1, `z` in row 2; `c(x)` is a stateful transform (centering): it
uses the mean recorded under its own key when there is one, otherwise it computes the mean (2) and
records it. The formula is `y ~ 1 + c(x) | z` built as `lhs=…, rhs=(…, …)`. -/

def demoVals : String → List Rat
  | "y" => [5, 0, 7]
  | "x" => [1, 2, 3]
  | "z" => [4, 6, 0]
  | _ => [1, 1, 1]

def demoEval (e : String) (st : TState Rat) : Except String (Evald (List Rat) × TState Rat) :=
  match e with
  | "y" => .ok (⟨demoVals "y", [1]⟩, [])
  | "z" => .ok (⟨demoVals "z", [2]⟩, [])
  | "1" => .ok (⟨[1], []⟩, [])
  | "c(x)" =>
    match st.lookup "c(x)" with
    | some m => .ok (⟨(demoVals "x").map (· - m), []⟩, [])
    | none => .ok (⟨(demoVals "x").map (· - 2), []⟩, [("c(x)", 2)])
  | _ => .error "FactorEvaluationError"

def demoFmt : Fmt := [.name, .lit "[", .field, .lit "]"]

/-- numeric encoder: the values without the dropped positions -/
def demoEncode (e : String) (vals : List Rat) (drop : List Nat) : Except String EvaledFactor :=
  let kept : List Rat := ((List.range vals.length).zip vals).filterMap (fun iv => if drop.contains iv.1 then none else some iv.2)
  let enc : Encoded := ⟨.single kept, false, none, false, demoFmt, none⟩
  .ok ⟨e, true, if e = "1" then .constant 1 else .numerical, false, enc, enc⟩

def demoW : World (List Rat) Rat := ⟨3, demoEval, demoEncode⟩
def demoOpts : Opts := ⟨true, false, .fast, true⟩
def demoF : Val (Spec Rat) :=
  .node [("lhs", .leaf (Spec.ofTerms [["y"]])),
         ("rhs", .tup [.leaf (Spec.ofTerms [["1"], ["c(x)"]]), .leaf (Spec.ofTerms [["z"]])])]

/-- the demo run: rows 1 and 2 are dropped jointly, every part keeps row 0 only … -/
example : (materialize demoW demoOpts demoF ["z", "y"] []).toOption.map
      (fun j => (j.drop, (flatten j.parts).map (fun p => p.matrix.rows))) = some ([1, 2], [[0], [0], [0]]) := by
  decide +kernel

/-- … with these columns; the centring transform was fitted on the full column (mean 2) -/
example : (materialize demoW demoOpts demoF ["z", "y"] []).toOption.map
      (fun j => (flatten j.parts).map (fun p => p.matrix.cols.map (fun c => (c.name, c.col)))) =
    some [[("y", [5])], [("Intercept", [1]), ("c(x)", [-1])], [("z", [4])]] := by
  decide +kernel

/-! ## 1. same nested shape: formula, matrices, specs -/

/-- C07.1  The result of the joint build has the nested shape of the formula — the shape after the
`Structured` constructors are re-run (`norm`: `root` key last), which for everything built through
a constructor (`RootLast`) is the shape itself — and so has the attached `model_spec` structure.
Leaf by leaf (in `_flatten` order) the matrices carry the specs, and the specs carry the terms of
the formula's leaf at the same place. -/
theorem shape_preserved (W : World ν τ) (o : Opts) (F : Val (Spec τ)) (perm : List String) (caller : List Nat)
    (j : Joint ν τ) (h : materialize W o F perm caller = .ok j) :
    shape j.parts = shape (norm F) ∧ shape (specsOf j.parts) = shape (norm F) ∧
    (RootLast F → shape j.parts = shape F ∧ shape (specsOf j.parts) = shape F) ∧
    flatten (specsOf j.parts) = (flatten j.parts).map (·.spec) ∧
    (flatten j.parts).map (·.spec.terms) = (flatten (norm F)).map (·.terms) := by
  obtain ⟨cache, _, _, _, hm, _⟩ := materialize_spec h
  have hs1 : shape j.parts = shape (norm F) := by rw [shape_mapE hm, norm_norm]
  have hrl : RootLast j.parts := by
    rw [(mapE_spec _ _ _ [] hm).1]; exact rootLast_mapV _ _ _
  have hs2 : shape (specsOf j.parts) = shape (norm F) := by
    rw [specsOf, shape_mapV, norm_of_rootLast _ hrl, hs1]
  refine ⟨hs1, hs2, fun hr => by rw [hs1, hs2, norm_of_rootLast _ hr]; exact ⟨rfl, rfl⟩, ?_, ?_⟩
  · rw [specsOf, flatten_mapV, norm_of_rootLast _ hrl, ← flattenP_fst j.parts [], List.map_map]
    rfl
  · obtain ⟨hf, hall⟩ := flatten_mapE hm
    rw [norm_norm] at hf hall
    rw [hf, List.map_map]
    apply List.map_congr_left
    intro a ha
    obtain ⟨rs, _, _, _, hsp⟩ := buildPart_spec (hall a ha)
    simp only [Function.comp_apply, hsp]

/-! ## 2. all parts contain the same rows -/

/-- C07.2  One drop list serves all parts: it is strictly increasing and holds exactly the caller's
positions and the null positions of every factor of every part; every part has exactly the rows of
the data at the positions outside it, in order; and every column of every part has the same length
`nrows - |drop|`. -/
theorem parts_row_aligned (W : World ν τ) (o : Opts) (F : Val (Spec τ)) (perm : List String) (caller : List Nat)
    (j : Joint ν τ) (h : materialize W o F perm caller = .ok j) :
    j.drop.Pairwise (· < ·) ∧
    (∀ i, i ∈ j.drop ↔ i ∈ caller ∨ ∃ s ∈ flatten F, ∃ e ∈ exprsOf s.terms, ∃ v w,
        W.eval e (pooledState (norm F)) = .ok (v, w) ∧ i ∈ v.nulls) ∧
    ∀ p ∈ flatten j.parts,
      p.matrix.rows = keptRows W.nrows j.drop ∧
      (∀ i, i ∈ p.matrix.rows ↔ i < W.nrows ∧ i ∉ j.drop) ∧
      p.matrix.rows.Pairwise (· < ·) ∧
      ∀ c ∈ p.matrix.cols, c.col.length = W.nrows - j.drop.length := by
  obtain ⟨_, hmemo, hset, _, hdrop, hsorted⟩ := joint_facts h
  obtain ⟨cache, _, _, _, hm, _⟩ := materialize_spec h
  refine ⟨hsorted, ?_, ?_⟩
  · intro i
    rw [hdrop, hset]
    constructor
    · rintro (hc | ⟨e, v, hmem, hi⟩)
      · exact .inl hc
      · obtain ⟨hp, w, hw⟩ := (hmemo e v).mp hmem
        obtain ⟨s, hs, he⟩ := mem_pooledFactors.mp hp
        exact .inr ⟨s, (mem_flatten_norm F s).mp hs, e, he, v, w, hw, hi⟩
    · rintro (hc | ⟨s, hs, e, he, v, w, hw, hi⟩)
      · exact .inl hc
      · refine .inr ⟨e, v, (hmemo e v).mpr ⟨mem_pooledFactors.mpr ⟨s, (mem_flatten_norm F s).mpr hs, he⟩, w, hw⟩, hi⟩
  · intro p hp
    obtain ⟨hf, hall⟩ := flatten_mapE hm
    rw [hf] at hp
    obtain ⟨a, ha, rfl⟩ := List.mem_map.mp hp
    obtain ⟨rs, _, hmat, hlen, _⟩ := buildPart_spec (hall a ha)
    have hrows : (outOf (buildPart o W.nrows cache j.drop j.state) a).matrix.rows = keptRows W.nrows j.drop := by
      rw [hmat]
    refine ⟨hrows, ?_, ?_, hlen⟩
    · intro i; rw [hrows, mem_keptRows]
    · rw [hrows]; exact keptRows_sorted _ _

/-- C07.2b  When the caller's positions and the null positions are positions of the data (they
always are for `find_nulls`), the number of kept rows is `nrows - |drop|`: every column of every
part has exactly one entry per kept row — all parts are row-aligned matrices over the same rows. -/
theorem parts_columns_fit_rows (W : World ν τ) (o : Opts) (F : Val (Spec τ)) (perm : List String) (caller : List Nat)
    (j : Joint ν τ) (h : materialize W o F perm caller = .ok j)
    (hcaller : ∀ i ∈ caller, i < W.nrows)
    (hnulls : ∀ e st v w, W.eval e st = .ok (v, w) → ∀ i ∈ v.nulls, i < W.nrows) :
    ∀ p ∈ flatten j.parts, ∀ c ∈ p.matrix.cols, c.col.length = p.matrix.rows.length := by
  obtain ⟨hsorted, hmem, hparts⟩ := parts_row_aligned W o F perm caller j h
  intro p hp c hc
  obtain ⟨hrows, _, _, hlen⟩ := hparts p hp
  rw [hlen c hc, hrows, keptRows_length (hsorted.imp (fun h => Nat.ne_of_lt h))]
  intro i hi
  rcases (hmem i).mp hi with hc' | ⟨s, _, e, _, v, w, hw, hi'⟩
  · exact hcaller i hc'
  · exact hnulls e _ v w hw i hi'

example : ∀ i ∈ ([] : List Nat), i < demoW.nrows := by simp
example : ∀ e st v w, demoW.eval e st = .ok (v, w) → ∀ i ∈ v.nulls, i < demoW.nrows := by
  intro e st v w h i hi
  simp only [demoW, demoEval] at h
  split at h
  · simp only [Except.ok.injEq, Prod.mk.injEq] at h; rw [← h.1] at hi; simp at hi; subst hi; decide
  · simp only [Except.ok.injEq, Prod.mk.injEq] at h; rw [← h.1] at hi; simp at hi; subst hi; decide
  · simp only [Except.ok.injEq, Prod.mk.injEq] at h; rw [← h.1] at hi; simp at hi
  · split at h <;> (simp only [Except.ok.injEq, Prod.mk.injEq] at h; rw [← h.1] at hi; simp at hi)
  · simp at h

/-! ## 3. each part equals the standalone build with the joint drop set supplied -/

/-- C07.3  For a structured FORMULA (leaves without recorded structure or transform state), the
part at every leaf of the joint build is what materialising that leaf's terms ALONE gives on the
same data when the joint drop list is supplied as `drop_rows` — same rows, same columns (names,
labels, values), same recorded term structure — whatever iteration order the standalone build uses;
and the standalone build's own drop list is again the joint one. Leaves are paired in `_flatten`
order (`shape_preserved` says the two structures have the same shape). -/
theorem part_eq_standalone (W : World ν τ) (o : Opts) (F : Val (Spec τ)) (perm : List String) (caller : List Nat)
    (j : Joint ν τ) (h : materialize W o F perm caller = .ok j) (hfresh : ∀ s ∈ flatten F, s.Fresh) :
    List.Forall₂ (fun (a : Spec τ) (p : PartOut τ) => ∀ perm', ∃ p', materializeOne W o a perm' j.drop = .ok (p', j.drop) ∧
        p'.matrix = p.matrix ∧ p'.spec.struct = p.spec.struct ∧ p'.spec.terms = p.spec.terms)
      (flatten (norm F)) (flatten j.parts) := by
  obtain ⟨hnd, hmemo, hset, hev, hdrop, hsorted⟩ := joint_facts h
  obtain ⟨cache, _, hD, hcache, hm, _⟩ := materialize_spec h
  obtain ⟨hf, hall⟩ := flatten_mapE hm
  rw [norm_norm] at hf hall
  rw [hf, List.forall₂_map_right_iff, List.forall₂_same]
  intro a ha perm'
  have hfr : a.Fresh := hfresh a ((mem_flatten_norm F a).mp ha)
  have hst0 : pooledState (norm F) = [] :=
    pooledState_fresh (fun s hs => (hfresh s ((mem_flatten_norm F s).mp hs)).2)
  apply one_matches hD hnd hcache (fun e v hmem i hi => (hset i).mpr (.inr ⟨e, v, hmem, hi⟩)) a ?_ ?_ j.state (hall a ha)
  · intro e he
    obtain ⟨v, w, hw, hmem⟩ := hev e (mem_pooledFactors.mpr ⟨a, ha, he⟩)
    refine ⟨v, w, hmem, ?_⟩
    rw [pooledState_single_fresh hfr.2, ← hst0]; exact hw
  · intro str hs; rw [hfr.1] at hs; simp at hs

/-- non-vacuity: the demo formula is a formula (all leaves fresh) -/
example : ∀ s ∈ flatten demoF, s.Fresh := by
  simp [demoF, flatten, flattenI, flattenT, Spec.Fresh, Spec.ofTerms]

/-- C07.3b  The same statement addressed by PATH (`result[path]`, e.g. `("rhs", 1)`): whatever leaf
`a` the formula holds at a tuple path, the result holds a part at the same path, that part was built
from `a`'s terms, and it equals the standalone build of `a` with the joint drop list supplied. -/
theorem part_at_path_eq_standalone (W : World ν τ) (o : Opts) (F : Val (Spec τ)) (perm : List String)
    (caller : List Nat) (j : Joint ν τ) (h : materialize W o F perm caller = .ok j)
    (hfresh : ∀ s ∈ flatten F, s.Fresh) (q : Path) (a : Spec τ) (hq : lookupPath q F = .ok (.leaf a)) :
    ∃ p, lookupPath q j.parts = .ok (.leaf p) ∧ lookupPath q (specsOf j.parts) = .ok (.leaf p.spec) ∧
      p.spec.terms = a.terms ∧
      ∀ perm', ∃ p', materializeOne W o a perm' j.drop = .ok (p', j.drop) ∧
        p'.matrix = p.matrix ∧ p'.spec.struct = p.spec.struct ∧ p'.spec.terms = p.spec.terms := by
  obtain ⟨hnd, hmemo, hset, hev, hdrop, hsorted⟩ := joint_facts h
  obtain ⟨cache, _, hD, hcache, hm, _⟩ := materialize_spec h
  obtain ⟨hparts, hall⟩ := mapE_spec _ _ _ [] hm
  have hqn : lookupPath q (norm F) = .ok (.leaf a) := by rw [lookupPath_norm, hq]; simp [Except.map, norm]
  have ha : a ∈ flatten (norm F) := mem_flatten_of_lookupPath q _ hqn
  have hfr : a.Fresh := hfresh a ((mem_flatten_norm F a).mp ha)
  have hbp := hall a ha
  refine ⟨outOf (buildPart o W.nrows cache j.drop j.state) a, ?_, ?_, ?_, ?_⟩
  · rw [hparts, lookupPath_mapV, hqn]; simp [Except.map, mapV]
  · rw [specsOf, lookupPath_mapV, hparts, lookupPath_mapV, hqn]; simp [Except.map, mapV]
  · obtain ⟨rs, _, _, _, hsp⟩ := buildPart_spec hbp
    rw [hsp]
  · intro perm'
    have hst0 : pooledState (norm F) = [] :=
      pooledState_fresh (fun s hs => (hfresh s ((mem_flatten_norm F s).mp hs)).2)
    apply one_matches hD hnd hcache (fun e v hmem i hi => (hset i).mpr (.inr ⟨e, v, hmem, hi⟩)) a ?_ ?_ j.state hbp
    · intro e he
      obtain ⟨v, w, hw, hmem⟩ := hev e (mem_pooledFactors.mpr ⟨a, ha, he⟩)
      refine ⟨v, w, hmem, ?_⟩
      rw [pooledState_single_fresh hfr.2, ← hst0]; exact hw
    · intro str hs; rw [hfr.1] at hs; simp at hs

/-- non-vacuity: the demo formula holds the leaf `z` at the path `rhs[1]` -/
example : lookupPath [.key "rhs", .idx 1] demoF = .ok (.leaf (Spec.ofTerms [["z"]])) := by
  simp [demoF, lookupPath, List.lookup]

/-! ## 4. the iteration order of the factor set is immaterial -/

/-- C07.4a  `iterOrder pooled perm` really is "an arbitrary iteration order of the set": for every
`perm` it enumerates exactly the members of the set, each once; and every duplicate-free
enumeration `l` of the set is obtained (with `perm := l`). -/
theorem iter_order_any (pooled perm : List String) :
    (∀ e, e ∈ iterOrder pooled perm ↔ e ∈ pooled) ∧ (iterOrder pooled perm).Nodup ∧
    ∀ l : List String, l.Nodup → (∀ e, e ∈ l ↔ e ∈ pooled) → iterOrder pooled l = l :=
  ⟨fun _ => mem_iterOrder, nodup_dedup _, fun _ hl h => iterOrder_of_enumeration hl h⟩

/-- C07.4  The memo table (as a set of `expression ↦ evaluation` entries), the drop set, the sorted
drop list, the shape of the result and every part (rows, columns, recorded structure) do not depend
on the order in which the factor set is iterated: if the build succeeds for one order it succeeds
for every other order with the same outcome. -/
theorem order_independent (W : World ν τ) (o : Opts) (F : Val (Spec τ)) (perm₁ perm₂ : List String)
    (caller : List Nat) (j₁ : Joint ν τ) (h : materialize W o F perm₁ caller = .ok j₁) :
    ∃ j₂, materialize W o F perm₂ caller = .ok j₂ ∧ j₂.drop = j₁.drop ∧
      (∀ e v, (e, v) ∈ j₂.memo ↔ (e, v) ∈ j₁.memo) ∧ (∀ i, i ∈ j₂.dropSet ↔ i ∈ j₁.dropSet) ∧
      shape j₂.parts = shape j₁.parts ∧
      List.Forall₂ (fun (p₂ p₁ : PartOut τ) => p₂.matrix = p₁.matrix ∧ p₂.spec.struct = p₁.spec.struct ∧
        p₂.spec.terms = p₁.spec.terms) (flatten j₂.parts) (flatten j₁.parts) := by
  obtain ⟨hnd, hmemo, hset, hev, hdrop, hsorted⟩ := joint_facts h
  obtain ⟨cache, _, hD, hcache, hm, hne⟩ := materialize_spec h
  -- run 2 evaluates
  have hok : ∀ e ∈ iterOrder (pooledFactors (norm F)) perm₂, ∃ r, W.eval e (pooledState (norm F)) = .ok r := by
    intro e he
    obtain ⟨v, w, hw, _⟩ := hev e (mem_iterOrder.mp he)
    exact ⟨_, hw⟩
  obtain ⟨s₂, hs₂⟩ := evalAll_ok W (pooledState (norm F)) _ ⟨[], caller, pooledState (norm F)⟩ hok
  obtain ⟨nd₂, hm₂, hd₂⟩ := evalAll_empty hs₂
  simp only [mem_iterOrder] at hm₂
  have hsame : ∀ e v, (e, v) ∈ s₂.memo ↔ (e, v) ∈ j₁.memo := fun e v => by rw [hm₂, hmemo]
  have hdset : ∀ i, i ∈ s₂.drop ↔ i ∈ j₁.dropSet := by
    intro i; rw [hd₂, hset]
    constructor
    · rintro (hc | ⟨e, v, hmem, hi⟩)
      · exact .inl hc
      · exact .inr ⟨e, v, (hsame e v).mp hmem, hi⟩
    · rintro (hc | ⟨e, v, hmem, hi⟩)
      · exact .inl hc
      · exact .inr ⟨e, v, (hsame e v).mpr hmem, hi⟩
  have hdl : sortSet s₂.drop = j₁.drop := by rw [hD]; exact sortSet_congr hdset
  have henc : ∀ kv ∈ s₂.memo, ∃ f, W.encode kv.1 kv.2.values j₁.drop = .ok f :=
    fun kv hkv => (cacheOf_spec W _ _ _ hcache).1 kv ((hsame kv.1 kv.2).mp hkv)
  obtain ⟨c₂, hc₂⟩ := cacheOf_ok W j₁.drop s₂.memo henc
  have hget : ∀ e, cache.get e = c₂.get e :=
    fun e => cache_get_congr hcache hc₂ hnd nd₂ e (fun v => (hsame e v).symm)
  obtain ⟨hf, hall⟩ := flatten_mapE hm
  -- every part builds again, to the same matrix
  have hparts : ∀ a ∈ flatten (norm F), ∃ b, buildPart o W.nrows c₂ j₁.drop s₂.state a = .ok b := by
    intro a ha
    have ha' : a ∈ flatten (norm (norm F)) := by rw [norm_norm]; exact ha
    obtain ⟨p', hp', _⟩ := buildPart_congr o W.nrows j₁.drop j₁.state s₂.state a (fun e _ => hget e)
      (fun _ _ _ _ _ _ sf _ => hget sf.expr) (hall a ha')
    exact ⟨p', hp'⟩
  obtain ⟨parts₂, hp₂⟩ := mapE_ok _ _ hparts
  obtain ⟨hf₂, hall₂⟩ := flatten_mapE hp₂
  have hne' : (flatten (norm F)).isEmpty = false := by simpa using hne
  refine ⟨⟨parts₂, j₁.drop, s₂.drop, s₂.state, s₂.memo⟩, ?_, rfl, hsame, hdset, ?_, ?_⟩
  · simp only [materialize, hne', Bool.false_eq_true, if_false, hs₂, hdl, hc₂, hp₂]
  · rw [shape_mapE hp₂, shape_mapE hm]
  · simp only
    rw [hf₂, hf, List.forall₂_map_left_iff, List.forall₂_map_right_iff, List.forall₂_same]
    intro a ha
    obtain ⟨p', hp', e1, e2, e3, _⟩ := buildPart_congr o W.nrows j₁.drop j₁.state s₂.state a (fun e _ => hget e)
      (fun _ _ _ _ _ _ sf _ => hget sf.expr) (hall a ha)
    rw [outOf_ok hp']
    exact ⟨e1, e2, e3⟩

/-! ## 5. each attached spec regenerates its own part -/

/-- C07.5  Replaying the spec attached to a part of the joint build (its terms, the structure it
recorded, the pooled transform state) on the same data with the joint drop list supplied gives
that part again: same rows, same columns, same structure. `hreplay` is the replay contract of
stateful transforms on the same data (evaluating a factor with the state the joint run recorded
reproduces the values and nulls the joint run computed — property C04 owns it; the harness checks
it on every case). -/
theorem spec_regenerates_part (W : World ν τ) (o : Opts) (F : Val (Spec τ)) (perm : List String) (caller : List Nat)
    (j : Joint ν τ) (h : materialize W o F perm caller = .ok j) (hfresh : ∀ s ∈ flatten F, s.Fresh)
    (hreplay : ∀ p ∈ flatten j.parts, ∀ e ∈ exprsOf p.spec.terms, ∀ v w,
      W.eval e (pooledState (norm F)) = .ok (v, w) → ∃ w', W.eval e (pooledState (single p.spec)) = .ok (v, w')) :
    ∀ p ∈ flatten j.parts, ∀ perm', ∃ p', materializeOne W o p.spec perm' j.drop = .ok (p', j.drop) ∧
      p'.matrix = p.matrix ∧ p'.spec.struct = p.spec.struct ∧ p'.spec.terms = p.spec.terms := by
  obtain ⟨hnd, hmemo, hset, hev, hdrop, hsorted⟩ := joint_facts h
  obtain ⟨cache, _, hD, hcache, hm, _⟩ := materialize_spec h
  obtain ⟨hf, hall⟩ := flatten_mapE hm
  rw [norm_norm] at hf hall
  intro p hp perm'
  have hp0 := hp
  rw [hf] at hp
  obtain ⟨a, ha, hpa⟩ := List.mem_map.mp hp
  have hfr : a.Fresh := hfresh a ((mem_flatten_norm F a).mp ha)
  have hbp := hall a ha
  rw [hpa] at hbp
  obtain ⟨rs, hrows, hmat, hlen, hspec⟩ := buildPart_spec hbp
  have hrec : recordedStruct a rs = termStructs rs := by simp [recordedStruct, hfr.1]
  -- rebuilding from the recorded structure with the joint cache gives the same part
  have hrows' := rebuild_same o (W.nrows - j.drop.length) cache hfr.1 hrows (St.dictUpdate a.state j.state)
  have hspec' : p.spec = ⟨a.terms, some (termStructs rs), St.dictUpdate a.state j.state⟩ := by rw [hspec, hrec]
  have hb2 := buildPart_of_rows (n := W.nrows) (drop := j.drop) j.state hrows'
    (fun c hc => hlen c (by rw [hmat]; exact hc))
  rw [← hspec'] at hb2
  have hps : p.spec.struct = some (termStructs rs) := by rw [hspec']
  have hev' : ∀ e ∈ exprsOf p.spec.terms, ∃ v w, (e, v) ∈ j.memo ∧
      W.eval e (pooledState (single p.spec)) = .ok (v, w) := by
    intro e he
    have he' : e ∈ exprsOf a.terms := by rw [hspec'] at he; exact he
    obtain ⟨v, w, hw, hmem⟩ := hev e (mem_pooledFactors.mpr ⟨a, ha, he'⟩)
    obtain ⟨w', hw'⟩ := hreplay p hp0 e he v w hw
    exact ⟨v, w', hmem, hw'⟩
  have hstr' : ∀ str, p.spec.struct = some str → ∀ s ∈ str, ∀ st ∈ s.sts, ∀ sf ∈ st.factors,
      sf.expr ∈ exprsOf p.spec.terms := by
    intro str hs s hs1 st hst sf hsf
    rw [hps] at hs
    simp only [Option.some.injEq] at hs
    subst hs
    have := recorded_exprs o _ cache hfr.1 hrows s hs1 st hst sf hsf
    rw [hspec']; exact this
  obtain ⟨p', h1, h2, h3, h4⟩ := one_matches hD hnd hcache
    (fun e v hmem i hi => (hset i).mpr (.inr ⟨e, v, hmem, hi⟩)) p.spec hev' hstr' j.state hb2 perm'
  refine ⟨p', h1, ?_, ?_, ?_⟩
  · rw [h2, hmat]
  · rw [h3]
    show some (recordedStruct p.spec rs) = p.spec.struct
    simp only [recordedStruct, hps]
  · rw [h4]

/-- C07.5b  Addressed by path: the spec found at a path of `result.model_spec` is the spec attached to
the part at that path, and replaying it regenerates that part. -/
theorem spec_at_path_regenerates_part (W : World ν τ) (o : Opts) (F : Val (Spec τ)) (perm : List String)
    (caller : List Nat) (j : Joint ν τ) (h : materialize W o F perm caller = .ok j) (hfresh : ∀ s ∈ flatten F, s.Fresh)
    (hreplay : ∀ p ∈ flatten j.parts, ∀ e ∈ exprsOf p.spec.terms, ∀ v w,
      W.eval e (pooledState (norm F)) = .ok (v, w) → ∃ w', W.eval e (pooledState (single p.spec)) = .ok (v, w'))
    (q : Path) (p : PartOut τ) (hq : lookupPath q j.parts = .ok (.leaf p)) :
    lookupPath q (specsOf j.parts) = .ok (.leaf p.spec) ∧
    ∀ perm', ∃ p', materializeOne W o p.spec perm' j.drop = .ok (p', j.drop) ∧
      p'.matrix = p.matrix ∧ p'.spec.struct = p.spec.struct ∧ p'.spec.terms = p.spec.terms := by
  refine ⟨?_, spec_regenerates_part W o F perm caller j h hfresh hreplay p (mem_flatten_of_lookupPath q _ hq)⟩
  rw [specsOf, lookupPath_mapV, hq]; simp [Except.map, mapV]

/-- non-vacuity: the replay contract holds in the demo world for the demo run (the centring
transform finds the mean it recorded): checked by evaluation, then read back as the hypothesis -/
example : ∀ j, materialize demoW demoOpts demoF [] [] = .ok j →
    ∀ p ∈ flatten j.parts, ∀ e ∈ exprsOf p.spec.terms, ∀ v w,
      demoW.eval e (pooledState (norm demoF)) = .ok (v, w) → ∃ w', demoW.eval e (pooledState (single p.spec)) = .ok (v, w') := by
  have key : (materialize demoW demoOpts demoF [] []).toOption.map (fun j => (flatten j.parts).all (fun p =>
      (exprsOf p.spec.terms).all (fun e => decide ((demoW.eval e (pooledState (norm demoF))).toOption.map (·.1) =
        (demoW.eval e (pooledState (single p.spec))).toOption.map (·.1)) &&
        (demoW.eval e (pooledState (single p.spec))).toOption.isSome))) = some true := by decide +kernel
  intro j hj p hp e he v w hw
  simp only [hj, Except.toOption, Option.map_some, Option.some.injEq, List.all_eq_true] at key
  have hk := key p hp e he
  rw [Bool.and_eq_true] at hk
  obtain ⟨h1, h2⟩ := hk
  have h1' := of_decide_eq_true h1
  cases h3 : demoW.eval e (pooledState (single p.spec)) with
  | error x => rw [h3] at h2; simp at h2
  | ok r =>
    obtain ⟨v', w'⟩ := r
    rw [hw, h3] at h1'
    simp only [Option.map_some, Option.some.injEq] at h1'
    exact ⟨w', by rw [h1']⟩

/-- C07.5c  All attached specs replayed TOGETHER (`materializer.get_model_matrix(result.model_spec,
drop_rows=jointDrop)`, any iteration order) regenerate all parts: same drop list, same shape, and
leaf by leaf the same rows, columns and structure. `hreplay` is the replay contract of stateful
transforms for the pooled recorded state. -/
theorem specs_regenerate_jointly (W : World ν τ) (o : Opts) (F : Val (Spec τ)) (perm : List String) (caller : List Nat)
    (j : Joint ν τ) (h : materialize W o F perm caller = .ok j) (hfresh : ∀ s ∈ flatten F, s.Fresh)
    (hreplay : ∀ e ∈ pooledFactors (norm F), ∀ v w, W.eval e (pooledState (norm F)) = .ok (v, w) →
      ∃ w', W.eval e (pooledState (norm (specsOf j.parts))) = .ok (v, w'))
    (perm' : List String) :
    ∃ j', materialize W o (specsOf j.parts) perm' j.drop = .ok j' ∧ j'.drop = j.drop ∧
      shape j'.parts = shape j.parts ∧
      List.Forall₂ (fun (p' p : PartOut τ) => p'.matrix = p.matrix ∧ p'.spec.struct = p.spec.struct ∧
        p'.spec.terms = p.spec.terms) (flatten j'.parts) (flatten j.parts) := by
  obtain ⟨hnd, hmemo, hset, hev, hdrop, hsorted⟩ := joint_facts h
  obtain ⟨cache, _, hD, hcache, hm, hne⟩ := materialize_spec h
  obtain ⟨hf, hall⟩ := flatten_mapE hm
  rw [norm_norm] at hf hall
  obtain ⟨_, _, _, hfs, hterms⟩ := shape_preserved W o F perm caller j h
  have hrl : RootLast (specsOf j.parts) := rootLast_mapV _ _ _
  have hS2 : norm (specsOf j.parts) = specsOf j.parts := norm_of_rootLast _ hrl
  -- the leaves of the spec structure
  have hfl : flatten (specsOf j.parts) = (flatten (norm F)).map (fun a => (outOf (buildPart o W.nrows cache j.drop j.state) a).spec) := by
    rw [hfs, hf, List.map_map]; rfl
  have hpool : ∀ e, e ∈ pooledFactors (specsOf j.parts) ↔ e ∈ pooledFactors (norm F) := by
    intro e
    rw [mem_pooledFactors, mem_pooledFactors, hfl]
    constructor
    · rintro ⟨s, hs, he⟩
      obtain ⟨a, ha, rfl⟩ := List.mem_map.mp hs
      obtain ⟨rs, _, _, _, hsp⟩ := buildPart_spec (hall a ha)
      rw [hsp] at he
      exact ⟨a, ha, he⟩
    · rintro ⟨a, ha, he⟩
      refine ⟨_, List.mem_map.mpr ⟨a, ha, rfl⟩, ?_⟩
      obtain ⟨rs, _, _, _, hsp⟩ := buildPart_spec (hall a ha)
      rw [hsp]; exact he
  rw [hS2] at hreplay
  -- run 2 evaluates, to the same memo table
  have hok : ∀ e ∈ iterOrder (pooledFactors (specsOf j.parts)) perm', ∃ r, W.eval e (pooledState (specsOf j.parts)) = .ok r := by
    intro e he
    obtain ⟨v, w, hw, _⟩ := hev e ((hpool e).mp (mem_iterOrder.mp he))
    obtain ⟨w', hw'⟩ := hreplay e ((hpool e).mp (mem_iterOrder.mp he)) v w hw
    exact ⟨_, hw'⟩
  obtain ⟨s₂, hs₂⟩ := evalAll_ok W (pooledState (specsOf j.parts)) _ ⟨[], j.drop, pooledState (specsOf j.parts)⟩ hok
  obtain ⟨nd₂, hm₂, hd₂⟩ := evalAll_empty hs₂
  simp only [mem_iterOrder, hpool] at hm₂
  have hsame : ∀ e v, (e, v) ∈ s₂.memo ↔ (e, v) ∈ j.memo := by
    intro e v
    rw [hm₂, hmemo]
    constructor
    · rintro ⟨hp, w', hw'⟩
      obtain ⟨v0, w0, hw0, _⟩ := hev e hp
      obtain ⟨w0', hw0'⟩ := hreplay e hp v0 w0 hw0
      rw [hw'] at hw0'
      simp only [Except.ok.injEq, Prod.mk.injEq] at hw0'
      exact ⟨hp, w0, by rw [hw0'.1]; exact hw0⟩
    · rintro ⟨hp, w, hw⟩
      exact ⟨hp, hreplay e hp v w hw⟩
  have hdl : sortSet s₂.drop = j.drop := by
    apply sortSet_eq_of_sorted hsorted
    intro i
    rw [hd₂]
    constructor
    · rintro (hc | ⟨e, v, hmem, hi⟩)
      · exact hc
      · exact (hdrop i).mpr ((hset i).mpr (.inr ⟨e, v, (hsame e v).mp hmem, hi⟩))
    · exact fun hc => .inl hc
  have henc : ∀ kv ∈ s₂.memo, ∃ f, W.encode kv.1 kv.2.values j.drop = .ok f :=
    fun kv hkv => (cacheOf_spec W _ _ _ hcache).1 kv ((hsame kv.1 kv.2).mp hkv)
  obtain ⟨c₂, hc₂⟩ := cacheOf_ok W j.drop s₂.memo henc
  have hget : ∀ e, cache.get e = c₂.get e :=
    fun e => cache_get_congr hcache hc₂ hnd nd₂ e (fun v => (hsame e v).symm)
  -- every spec rebuilds its part
  have hone : ∀ a ∈ flatten (norm F), ∃ p2,
      buildPart o W.nrows c₂ j.drop s₂.state (outOf (buildPart o W.nrows cache j.drop j.state) a).spec = .ok p2 ∧
      p2.matrix = (outOf (buildPart o W.nrows cache j.drop j.state) a).matrix ∧
      p2.spec.struct = (outOf (buildPart o W.nrows cache j.drop j.state) a).spec.struct ∧
      p2.spec.terms = (outOf (buildPart o W.nrows cache j.drop j.state) a).spec.terms := by
    intro a ha
    have hfr : a.Fresh := hfresh a ((mem_flatten_norm F a).mp ha)
    obtain ⟨p1, hp1, e1, e2, e3, _, _⟩ := replay_part hfr.1 (hall a ha) j.state
    obtain ⟨p2, hp2, f1, f2, f3, _⟩ := buildPart_congr o W.nrows j.drop j.state s₂.state _ (fun e _ => hget e)
      (fun _ _ _ _ _ _ sf _ => hget sf.expr) hp1
    exact ⟨p2, hp2, by rw [f1, e1], by rw [f2, e2], by rw [f3, e3]⟩
  have hparts : ∀ sp ∈ flatten (specsOf j.parts), ∃ b, buildPart o W.nrows c₂ j.drop s₂.state sp = .ok b := by
    intro sp hsp
    rw [hfl] at hsp
    obtain ⟨a, ha, rfl⟩ := List.mem_map.mp hsp
    obtain ⟨p2, hp2, _⟩ := hone a ha
    exact ⟨p2, hp2⟩
  obtain ⟨parts₂, hp₂⟩ := mapE_ok _ _ hparts
  obtain ⟨hf₂, hall₂⟩ := flatten_mapE hp₂
  rw [hS2] at hf₂ hall₂
  have hne' : (flatten (specsOf j.parts)).isEmpty = false := by
    rw [hfl]; simpa using hne
  refine ⟨⟨parts₂, j.drop, s₂.drop, s₂.state, s₂.memo⟩, ?_, rfl, ?_, ?_⟩
  · simp only [materialize, hS2, hne', Bool.false_eq_true, if_false, hs₂, hdl, hc₂, hp₂]
  · rw [shape_mapE hp₂, hS2, specsOf, shape_mapV,
      norm_of_rootLast _ (by rw [(mapE_spec _ _ _ [] hm).1]; exact rootLast_mapV _ _ _)]
  · simp only
    rw [hf₂, hfl, hf, List.map_map, List.forall₂_map_left_iff, List.forall₂_map_right_iff, List.forall₂_same]
    intro a ha
    obtain ⟨p2, hp2, g1, g2, g3⟩ := hone a ha
    simp only [Function.comp_apply]
    rw [outOf_ok hp2]
    exact ⟨g1, g2, g3⟩

/-- non-vacuity: the joint replay contract holds for the demo run -/
example : ∀ j, materialize demoW demoOpts demoF [] [] = .ok j →
    ∀ e ∈ pooledFactors (norm demoF), ∀ v w, demoW.eval e (pooledState (norm demoF)) = .ok (v, w) →
      ∃ w', demoW.eval e (pooledState (norm (specsOf j.parts))) = .ok (v, w') := by
  have key : (materialize demoW demoOpts demoF [] []).toOption.map (fun j =>
      (pooledFactors (norm demoF)).all (fun e =>
        decide ((demoW.eval e (pooledState (norm demoF))).toOption.map (·.1) =
          (demoW.eval e (pooledState (norm (specsOf j.parts)))).toOption.map (·.1)) &&
        (demoW.eval e (pooledState (norm (specsOf j.parts)))).toOption.isSome)) = some true := by decide +kernel
  intro j hj e he v w hw
  simp only [hj, Except.toOption, Option.map_some, Option.some.injEq, List.all_eq_true] at key
  have hk := key e he
  rw [Bool.and_eq_true] at hk
  obtain ⟨h1, h2⟩ := hk
  have h1' := of_decide_eq_true h1
  cases h3 : demoW.eval e (pooledState (norm (specsOf j.parts))) with
  | error x => rw [h3] at h2; simp at h2
  | ok r =>
    obtain ⟨v', w'⟩ := r
    rw [hw, h3] at h1'
    simp only [Option.map_some, Option.some.injEq] at h1'
    exact ⟨w', by rw [h1']⟩

end FormulaicVerif.Props.C07
