import FormulaicVerif.Proofs.C07
import FormulaicVerif.Proofs.C07Hist
import FormulaicVerif.Proofs.C07HistEq
/-! # C07 — Multi-part formulas give row-aligned parts equal to separate builds

Property theorems only (helper lemmas: `Proofs/C07.lean`). They are about the executable model
`Model/Parts.lean` of `FormulaMaterializer.get_model_matrix` for structured specs — the functions
`materialize` / `materializeOne` / `specsOf` named here are the functions `Engines/C07.lean` runs
against the real code on every check.

All theorems hold for EVERY world `W` (data set seen through factor evaluation and encoders: any
null pattern over any variables), every structured formula `F` (any nesting of keyed and tuple
structure), every option setting, every caller-supplied drop set and every iteration order `perm`
of the pooled factor set. -/

namespace FormulaicVerif.Props.C07
open FormulaicVerif.Model FormulaicVerif.Model.Parts FormulaicVerif.Model.St FormulaicVerif.Spec.Containers
open FormulaicVerif.Proofs.C07 FormulaicVerif.Proofs.C19

variable {ν τ : Type}

/-! ### a concrete instance used by the non-vacuity examples

Three data rows; `y` is null in row 1, `z` in row 2; `c(x)` is a stateful transform (centering): it
uses the mean recorded under its own key when there is one, otherwise it computes the mean (2) and
records it. The formula is `y ~ 1 + c(x) | z` built as `lhs=…, rhs=(…, …)`. -/

def demoVals : String → List Rat
  | "y" => [5, 0, 7]
  | "x" => [1, 2, 3]
  | "z" => [4, 6, 0]
  | _ => [1, 1, 1]

def demoEval (e : String) (st : TState Rat) : Except String (Evald (List Rat) × TState Rat) :=
  match e with
  | "y" => .ok (⟨demoVals "y", [1]⟩, [])
  | "z" => .ok (⟨demoVals "z", [2]⟩, [])
  | "1" => .ok (⟨[1], []⟩, [])
  | "c(x)" =>
    match st.lookup "c(x)" with
    | some m => .ok (⟨(demoVals "x").map (· - m), []⟩, [])
    | none => .ok (⟨(demoVals "x").map (· - 2), []⟩, [("c(x)", 2)])
  | _ => .error "FactorEvaluationError"

def demoFmt : Fmt := [.name, .lit "[", .field, .lit "]"]

/-- numeric encoder: the values without the dropped positions -/
def demoEncode (e : String) (vals : List Rat) (drop : List Nat) : Except String EvaledFactor :=
  let kept : List Rat := ((List.range vals.length).zip vals).filterMap (fun iv => if drop.contains iv.1 then none else some iv.2)
  let enc : Encoded := ⟨.single kept, false, none, false, demoFmt, none⟩
  .ok ⟨e, true, if e = "1" then .constant 1 else .numerical, false, enc, enc⟩

def demoW : World (List Rat) Rat := ⟨3, demoEval, demoEncode⟩
def demoOpts : Opts := ⟨true, false, .fast, true⟩
def demoF : Val (Spec Rat) :=
  .node [("lhs", .leaf (Spec.ofTerms [["y"]])),
         ("rhs", .tup [.leaf (Spec.ofTerms [["1"], ["c(x)"]]), .leaf (Spec.ofTerms [["z"]])])]

/-- the demo run: rows 1 and 2 are dropped jointly, every part keeps row 0 only … -/
example : (materialize demoW demoOpts demoF ["z", "y"] []).toOption.map
      (fun j => (j.drop, (flatten j.parts).map (fun p => p.matrix.rows))) = some ([1, 2], [[0], [0], [0]]) := by
  decide +kernel

/-- … with these columns; the centring transform was fitted on the full column (mean 2) -/
example : (materialize demoW demoOpts demoF ["z", "y"] []).toOption.map
      (fun j => (flatten j.parts).map (fun p => p.matrix.cols.map (fun c => (c.name, c.col)))) =
    some [[("y", [5])], [("Intercept", [1]), ("c(x)", [-1])], [("z", [4])]] := by
  decide +kernel

/-! ## 1. same nested shape: formula, matrices, specs -/

/-- C07.1  The result of the joint build has the nested shape of the formula — the shape after the
`Structured` constructors are re-run (`norm`: `root` key last), which for everything built through
a constructor (`RootLast`) is the shape itself — and so has the attached `model_spec` structure.
Leaf by leaf (in `_flatten` order) the matrices carry the specs, and the specs carry the terms of
the formula's leaf at the same place. -/
theorem shape_preserved (W : World ν τ) (o : Opts) (F : Val (Spec τ)) (perm : List String) (caller : List Nat)
    (j : Joint ν τ) (h : materialize W o F perm caller = .ok j) :
    shape j.parts = shape (norm F) ∧ shape (specsOf j.parts) = shape (norm F) ∧
    (RootLast F → shape j.parts = shape F ∧ shape (specsOf j.parts) = shape F) ∧
    flatten (specsOf j.parts) = (flatten j.parts).map (·.spec) ∧
    (flatten j.parts).map (·.spec.terms) = (flatten (norm F)).map (·.terms) := by
  obtain ⟨cache, _, _, _, hm, _⟩ := materialize_spec h
  have hs1 : shape j.parts = shape (norm F) := by rw [shape_mapE hm, norm_norm]
  have hrl : RootLast j.parts := by
    rw [(mapE_spec _ _ _ [] hm).1]; exact rootLast_mapV _ _ _
  have hs2 : shape (specsOf j.parts) = shape (norm F) := by
    rw [specsOf, shape_mapV, norm_of_rootLast _ hrl, hs1]
  refine ⟨hs1, hs2, fun hr => by rw [hs1, hs2, norm_of_rootLast _ hr]; exact ⟨rfl, rfl⟩, ?_, ?_⟩
  · rw [specsOf, flatten_mapV, norm_of_rootLast _ hrl, ← flattenP_fst j.parts [], List.map_map]
    rfl
  · obtain ⟨hf, hall⟩ := flatten_mapE hm
    rw [norm_norm] at hf hall
    rw [hf, List.map_map]
    apply List.map_congr_left
    intro a ha
    obtain ⟨rs, _, _, _, hsp⟩ := buildPart_spec (hall a ha)
    simp only [Function.comp_apply, hsp]

/-! ## 2. all parts contain the same rows -/

/-- C07.2  One drop list serves all parts: it is strictly increasing and holds exactly the caller's
positions and the null positions of every factor of every part; every part has exactly the rows of
the data at the positions outside it, in order; and every column of every part has the same length
`nrows - |drop|`. -/
theorem parts_row_aligned (W : World ν τ) (o : Opts) (F : Val (Spec τ)) (perm : List String) (caller : List Nat)
    (j : Joint ν τ) (h : materialize W o F perm caller = .ok j) :
    j.drop.Pairwise (· < ·) ∧
    (∀ i, i ∈ j.drop ↔ i ∈ caller ∨ ∃ s ∈ flatten F, ∃ e ∈ exprsOf s.terms, ∃ v w,
        W.eval e (pooledState (norm F)) = .ok (v, w) ∧ i ∈ v.nulls) ∧
    ∀ p ∈ flatten j.parts,
      p.matrix.rows = keptRows W.nrows j.drop ∧
      (∀ i, i ∈ p.matrix.rows ↔ i < W.nrows ∧ i ∉ j.drop) ∧
      p.matrix.rows.Pairwise (· < ·) ∧
      ∀ c ∈ p.matrix.cols, c.col.length = W.nrows - j.drop.length := by
  obtain ⟨_, hmemo, hset, _, hdrop, hsorted⟩ := joint_facts h
  obtain ⟨cache, _, _, _, hm, _⟩ := materialize_spec h
  refine ⟨hsorted, ?_, ?_⟩
  · intro i
    rw [hdrop, hset]
    constructor
    · rintro (hc | ⟨e, v, hmem, hi⟩)
      · exact .inl hc
      · obtain ⟨hp, w, hw⟩ := (hmemo e v).mp hmem
        obtain ⟨s, hs, he⟩ := mem_pooledFactors.mp hp
        exact .inr ⟨s, (mem_flatten_norm F s).mp hs, e, he, v, w, hw, hi⟩
    · rintro (hc | ⟨s, hs, e, he, v, w, hw, hi⟩)
      · exact .inl hc
      · refine .inr ⟨e, v, (hmemo e v).mpr ⟨mem_pooledFactors.mpr ⟨s, (mem_flatten_norm F s).mpr hs, he⟩, w, hw⟩, hi⟩
  · intro p hp
    obtain ⟨hf, hall⟩ := flatten_mapE hm
    rw [hf] at hp
    obtain ⟨a, ha, rfl⟩ := List.mem_map.mp hp
    obtain ⟨rs, _, hmat, hlen, _⟩ := buildPart_spec (hall a ha)
    have hrows : (outOf (buildPart o W.nrows cache j.drop j.state) a).matrix.rows = keptRows W.nrows j.drop := by
      rw [hmat]
    refine ⟨hrows, ?_, ?_, hlen⟩
    · intro i; rw [hrows, mem_keptRows]
    · rw [hrows]; exact keptRows_sorted _ _

/-- C07.2b  When the caller's positions and the null positions are positions of the data (they
always are for `find_nulls`), the number of kept rows is `nrows - |drop|`: every column of every
part has exactly one entry per kept row — all parts are row-aligned matrices over the same rows. -/
theorem parts_columns_fit_rows (W : World ν τ) (o : Opts) (F : Val (Spec τ)) (perm : List String) (caller : List Nat)
    (j : Joint ν τ) (h : materialize W o F perm caller = .ok j)
    (hcaller : ∀ i ∈ caller, i < W.nrows)
    (hnulls : ∀ e st v w, W.eval e st = .ok (v, w) → ∀ i ∈ v.nulls, i < W.nrows) :
    ∀ p ∈ flatten j.parts, ∀ c ∈ p.matrix.cols, c.col.length = p.matrix.rows.length := by
  obtain ⟨hsorted, hmem, hparts⟩ := parts_row_aligned W o F perm caller j h
  intro p hp c hc
  obtain ⟨hrows, _, _, hlen⟩ := hparts p hp
  rw [hlen c hc, hrows, keptRows_length (hsorted.imp (fun h => Nat.ne_of_lt h))]
  intro i hi
  rcases (hmem i).mp hi with hc' | ⟨s, _, e, _, v, w, hw, hi'⟩
  · exact hcaller i hc'
  · exact hnulls e _ v w hw i hi'

example : ∀ i ∈ ([] : List Nat), i < demoW.nrows := by simp
example : ∀ e st v w, demoW.eval e st = .ok (v, w) → ∀ i ∈ v.nulls, i < demoW.nrows := by
  intro e st v w h i hi
  simp only [demoW, demoEval] at h
  split at h
  · simp only [Except.ok.injEq, Prod.mk.injEq] at h; rw [← h.1] at hi; simp at hi; subst hi; decide
  · simp only [Except.ok.injEq, Prod.mk.injEq] at h; rw [← h.1] at hi; simp at hi; subst hi; decide
  · simp only [Except.ok.injEq, Prod.mk.injEq] at h; rw [← h.1] at hi; simp at hi
  · split at h <;> (simp only [Except.ok.injEq, Prod.mk.injEq] at h; rw [← h.1] at hi; simp at hi)
  · simp at h

/-! ## 3. each part equals the standalone build with the joint drop set supplied -/

/-- C07.3  For a structured FORMULA (leaves without recorded structure or transform state), the
part at every leaf of the joint build is what materialising that leaf's terms ALONE gives on the
same data when the joint drop list is supplied as `drop_rows` — same rows, same columns (names,
labels, values), same recorded term structure — whatever iteration order the standalone build uses;
and the standalone build's own drop list is again the joint one. Leaves are paired in `_flatten`
order (`shape_preserved` says the two structures have the same shape). -/
theorem part_eq_standalone (W : World ν τ) (o : Opts) (F : Val (Spec τ)) (perm : List String) (caller : List Nat)
    (j : Joint ν τ) (h : materialize W o F perm caller = .ok j) (hfresh : ∀ s ∈ flatten F, s.Fresh) :
    List.Forall₂ (fun (a : Spec τ) (p : PartOut τ) => ∀ perm', ∃ p', materializeOne W o a perm' j.drop = .ok (p', j.drop) ∧
        p'.matrix = p.matrix ∧ p'.spec.struct = p.spec.struct ∧ p'.spec.terms = p.spec.terms)
      (flatten (norm F)) (flatten j.parts) := by
  obtain ⟨hnd, hmemo, hset, hev, hdrop, hsorted⟩ := joint_facts h
  obtain ⟨cache, _, hD, hcache, hm, _⟩ := materialize_spec h
  obtain ⟨hf, hall⟩ := flatten_mapE hm
  rw [norm_norm] at hf hall
  rw [hf, List.forall₂_map_right_iff, List.forall₂_same]
  intro a ha perm'
  have hfr : a.Fresh := hfresh a ((mem_flatten_norm F a).mp ha)
  have hst0 : pooledState (norm F) = [] :=
    pooledState_fresh (fun s hs => (hfresh s ((mem_flatten_norm F s).mp hs)).2)
  apply one_matches hD hnd hcache (fun e v hmem i hi => (hset i).mpr (.inr ⟨e, v, hmem, hi⟩)) a ?_ ?_ j.state (hall a ha)
  · intro e he
    obtain ⟨v, w, hw, hmem⟩ := hev e (mem_pooledFactors.mpr ⟨a, ha, he⟩)
    refine ⟨v, w, hmem, ?_⟩
    rw [pooledState_single_fresh hfr.2, ← hst0]; exact hw
  · intro str hs; rw [hfr.1] at hs; simp at hs

/-- non-vacuity: the demo formula is a formula (all leaves fresh) -/
example : ∀ s ∈ flatten demoF, s.Fresh := by
  simp [demoF, flatten, flattenI, flattenT, Spec.Fresh, Spec.ofTerms]

/-- C07.3b  The same statement addressed by PATH (`result[path]`, e.g. `("rhs", 1)`): whatever leaf
`a` the formula holds at a tuple path, the result holds a part at the same path, that part was built
from `a`'s terms, and it equals the standalone build of `a` with the joint drop list supplied. -/
theorem part_at_path_eq_standalone (W : World ν τ) (o : Opts) (F : Val (Spec τ)) (perm : List String)
    (caller : List Nat) (j : Joint ν τ) (h : materialize W o F perm caller = .ok j)
    (hfresh : ∀ s ∈ flatten F, s.Fresh) (q : Path) (a : Spec τ) (hq : lookupPath q F = .ok (.leaf a)) :
    ∃ p, lookupPath q j.parts = .ok (.leaf p) ∧ lookupPath q (specsOf j.parts) = .ok (.leaf p.spec) ∧
      p.spec.terms = a.terms ∧
      ∀ perm', ∃ p', materializeOne W o a perm' j.drop = .ok (p', j.drop) ∧
        p'.matrix = p.matrix ∧ p'.spec.struct = p.spec.struct ∧ p'.spec.terms = p.spec.terms := by
  obtain ⟨hnd, hmemo, hset, hev, hdrop, hsorted⟩ := joint_facts h
  obtain ⟨cache, _, hD, hcache, hm, _⟩ := materialize_spec h
  obtain ⟨hparts, hall⟩ := mapE_spec _ _ _ [] hm
  have hqn : lookupPath q (norm F) = .ok (.leaf a) := by rw [lookupPath_norm, hq]; simp [Except.map, norm]
  have ha : a ∈ flatten (norm F) := mem_flatten_of_lookupPath q _ hqn
  have hfr : a.Fresh := hfresh a ((mem_flatten_norm F a).mp ha)
  have hbp := hall a ha
  refine ⟨outOf (buildPart o W.nrows cache j.drop j.state) a, ?_, ?_, ?_, ?_⟩
  · rw [hparts, lookupPath_mapV, hqn]; simp [Except.map, mapV]
  · rw [specsOf, lookupPath_mapV, hparts, lookupPath_mapV, hqn]; simp [Except.map, mapV]
  · obtain ⟨rs, _, _, _, hsp⟩ := buildPart_spec hbp
    rw [hsp]
  · intro perm'
    have hst0 : pooledState (norm F) = [] :=
      pooledState_fresh (fun s hs => (hfresh s ((mem_flatten_norm F s).mp hs)).2)
    apply one_matches hD hnd hcache (fun e v hmem i hi => (hset i).mpr (.inr ⟨e, v, hmem, hi⟩)) a ?_ ?_ j.state hbp
    · intro e he
      obtain ⟨v, w, hw, hmem⟩ := hev e (mem_pooledFactors.mpr ⟨a, ha, he⟩)
      refine ⟨v, w, hmem, ?_⟩
      rw [pooledState_single_fresh hfr.2, ← hst0]; exact hw
    · intro str hs; rw [hfr.1] at hs; simp at hs

/-- non-vacuity: the demo formula holds the leaf `z` at the path `rhs[1]` -/
example : lookupPath [.key "rhs", .idx 1] demoF = .ok (.leaf (Spec.ofTerms [["z"]])) := by
  simp [demoF, lookupPath, List.lookup]

/-! ## 4. the iteration order of the factor set is immaterial -/

/-- C07.4a  `iterOrder pooled perm` really is "an arbitrary iteration order of the set": for every
`perm` it enumerates exactly the members of the set, each once; and every duplicate-free
enumeration `l` of the set is obtained (with `perm := l`). -/
theorem iter_order_any (pooled perm : List String) :
    (∀ e, e ∈ iterOrder pooled perm ↔ e ∈ pooled) ∧ (iterOrder pooled perm).Nodup ∧
    ∀ l : List String, l.Nodup → (∀ e, e ∈ l ↔ e ∈ pooled) → iterOrder pooled l = l :=
  ⟨fun _ => mem_iterOrder, nodup_dedup _, fun _ hl h => iterOrder_of_enumeration hl h⟩

/-- C07.4  The memo table (as a set of `expression ↦ evaluation` entries), the drop set, the sorted
drop list, the shape of the result and every part (rows, columns, recorded structure) do not depend
on the order in which the factor set is iterated: if the build succeeds for one order it succeeds
for every other order with the same outcome. -/
theorem order_independent (W : World ν τ) (o : Opts) (F : Val (Spec τ)) (perm₁ perm₂ : List String)
    (caller : List Nat) (j₁ : Joint ν τ) (h : materialize W o F perm₁ caller = .ok j₁) :
    ∃ j₂, materialize W o F perm₂ caller = .ok j₂ ∧ j₂.drop = j₁.drop ∧
      (∀ e v, (e, v) ∈ j₂.memo ↔ (e, v) ∈ j₁.memo) ∧ (∀ i, i ∈ j₂.dropSet ↔ i ∈ j₁.dropSet) ∧
      shape j₂.parts = shape j₁.parts ∧
      List.Forall₂ (fun (p₂ p₁ : PartOut τ) => p₂.matrix = p₁.matrix ∧ p₂.spec.struct = p₁.spec.struct ∧
        p₂.spec.terms = p₁.spec.terms) (flatten j₂.parts) (flatten j₁.parts) := by
  obtain ⟨hnd, hmemo, hset, hev, hdrop, hsorted⟩ := joint_facts h
  obtain ⟨cache, _, hD, hcache, hm, hne⟩ := materialize_spec h
  -- run 2 evaluates
  have hok : ∀ e ∈ iterOrder (pooledFactors (norm F)) perm₂, ∃ r, W.eval e (pooledState (norm F)) = .ok r := by
    intro e he
    obtain ⟨v, w, hw, _⟩ := hev e (mem_iterOrder.mp he)
    exact ⟨_, hw⟩
  obtain ⟨s₂, hs₂⟩ := evalAll_ok W (pooledState (norm F)) _ ⟨[], caller, pooledState (norm F)⟩ hok
  obtain ⟨nd₂, hm₂, hd₂⟩ := evalAll_empty hs₂
  simp only [mem_iterOrder] at hm₂
  have hsame : ∀ e v, (e, v) ∈ s₂.memo ↔ (e, v) ∈ j₁.memo := fun e v => by rw [hm₂, hmemo]
  have hdset : ∀ i, i ∈ s₂.drop ↔ i ∈ j₁.dropSet := by
    intro i; rw [hd₂, hset]
    constructor
    · rintro (hc | ⟨e, v, hmem, hi⟩)
      · exact .inl hc
      · exact .inr ⟨e, v, (hsame e v).mp hmem, hi⟩
    · rintro (hc | ⟨e, v, hmem, hi⟩)
      · exact .inl hc
      · exact .inr ⟨e, v, (hsame e v).mpr hmem, hi⟩
  have hdl : sortSet s₂.drop = j₁.drop := by rw [hD]; exact sortSet_congr hdset
  have henc : ∀ kv ∈ s₂.memo, ∃ f, W.encode kv.1 kv.2.values j₁.drop = .ok f :=
    fun kv hkv => (cacheOf_spec W _ _ _ hcache).1 kv ((hsame kv.1 kv.2).mp hkv)
  obtain ⟨c₂, hc₂⟩ := cacheOf_ok W j₁.drop s₂.memo henc
  have hget : ∀ e, cache.get e = c₂.get e :=
    fun e => cache_get_congr hcache hc₂ hnd nd₂ e (fun v => (hsame e v).symm)
  obtain ⟨hf, hall⟩ := flatten_mapE hm
  -- every part builds again, to the same matrix
  have hparts : ∀ a ∈ flatten (norm F), ∃ b, buildPart o W.nrows c₂ j₁.drop s₂.state a = .ok b := by
    intro a ha
    have ha' : a ∈ flatten (norm (norm F)) := by rw [norm_norm]; exact ha
    obtain ⟨p', hp', _⟩ := buildPart_congr o W.nrows j₁.drop j₁.state s₂.state a (fun e _ => hget e)
      (fun _ _ _ _ _ _ sf _ => hget sf.expr) (hall a ha')
    exact ⟨p', hp'⟩
  obtain ⟨parts₂, hp₂⟩ := mapE_ok _ _ hparts
  obtain ⟨hf₂, hall₂⟩ := flatten_mapE hp₂
  have hne' : (flatten (norm F)).isEmpty = false := by simpa using hne
  refine ⟨⟨parts₂, j₁.drop, s₂.drop, s₂.state, s₂.memo⟩, ?_, rfl, hsame, hdset, ?_, ?_⟩
  · simp only [materialize, hne', Bool.false_eq_true, if_false, hs₂, hdl, hc₂, hp₂]
  · rw [shape_mapE hp₂, shape_mapE hm]
  · simp only
    rw [hf₂, hf, List.forall₂_map_left_iff, List.forall₂_map_right_iff, List.forall₂_same]
    intro a ha
    obtain ⟨p', hp', e1, e2, e3, _⟩ := buildPart_congr o W.nrows j₁.drop j₁.state s₂.state a (fun e _ => hget e)
      (fun _ _ _ _ _ _ sf _ => hget sf.expr) (hall a ha)
    rw [outOf_ok hp']
    exact ⟨e1, e2, e3⟩

/-! ## 5. each attached spec regenerates its own part -/

/-- C07.5  Replaying the spec attached to a part of the joint build (its terms, the structure it
recorded, the pooled transform state) on the same data with the joint drop list supplied gives
that part again: same rows, same columns, same structure. `hreplay` is the replay contract of
stateful transforms on the same data (evaluating a factor with the state the joint run recorded
reproduces the values and nulls the joint run computed — property C04 owns it; the harness checks
it on every case). -/
theorem spec_regenerates_part (W : World ν τ) (o : Opts) (F : Val (Spec τ)) (perm : List String) (caller : List Nat)
    (j : Joint ν τ) (h : materialize W o F perm caller = .ok j) (hfresh : ∀ s ∈ flatten F, s.Fresh)
    (hreplay : ∀ p ∈ flatten j.parts, ∀ e ∈ exprsOf p.spec.terms, ∀ v w,
      W.eval e (pooledState (norm F)) = .ok (v, w) → ∃ w', W.eval e (pooledState (single p.spec)) = .ok (v, w')) :
    ∀ p ∈ flatten j.parts, ∀ perm', ∃ p', materializeOne W o p.spec perm' j.drop = .ok (p', j.drop) ∧
      p'.matrix = p.matrix ∧ p'.spec.struct = p.spec.struct ∧ p'.spec.terms = p.spec.terms := by
  obtain ⟨hnd, hmemo, hset, hev, hdrop, hsorted⟩ := joint_facts h
  obtain ⟨cache, _, hD, hcache, hm, _⟩ := materialize_spec h
  obtain ⟨hf, hall⟩ := flatten_mapE hm
  rw [norm_norm] at hf hall
  intro p hp perm'
  have hp0 := hp
  rw [hf] at hp
  obtain ⟨a, ha, hpa⟩ := List.mem_map.mp hp
  have hfr : a.Fresh := hfresh a ((mem_flatten_norm F a).mp ha)
  have hbp := hall a ha
  rw [hpa] at hbp
  obtain ⟨rs, hrows, hmat, hlen, hspec⟩ := buildPart_spec hbp
  have hrec : recordedStruct a rs = termStructs rs := by simp [recordedStruct, hfr.1]
  -- rebuilding from the recorded structure with the joint cache gives the same part
  have hrows' := rebuild_same o (W.nrows - j.drop.length) cache hfr.1 hrows (St.dictUpdate a.state j.state)
  have hspec' : p.spec = ⟨a.terms, some (termStructs rs), St.dictUpdate a.state j.state⟩ := by rw [hspec, hrec]
  have hb2 := buildPart_of_rows (n := W.nrows) (drop := j.drop) j.state hrows'
    (fun c hc => hlen c (by rw [hmat]; exact hc))
  rw [← hspec'] at hb2
  have hps : p.spec.struct = some (termStructs rs) := by rw [hspec']
  have hev' : ∀ e ∈ exprsOf p.spec.terms, ∃ v w, (e, v) ∈ j.memo ∧
      W.eval e (pooledState (single p.spec)) = .ok (v, w) := by
    intro e he
    have he' : e ∈ exprsOf a.terms := by rw [hspec'] at he; exact he
    obtain ⟨v, w, hw, hmem⟩ := hev e (mem_pooledFactors.mpr ⟨a, ha, he'⟩)
    obtain ⟨w', hw'⟩ := hreplay p hp0 e he v w hw
    exact ⟨v, w', hmem, hw'⟩
  have hstr' : ∀ str, p.spec.struct = some str → ∀ s ∈ str, ∀ st ∈ s.sts, ∀ sf ∈ st.factors,
      sf.expr ∈ exprsOf p.spec.terms := by
    intro str hs s hs1 st hst sf hsf
    rw [hps] at hs
    simp only [Option.some.injEq] at hs
    subst hs
    have := recorded_exprs o _ cache hfr.1 hrows s hs1 st hst sf hsf
    rw [hspec']; exact this
  obtain ⟨p', h1, h2, h3, h4⟩ := one_matches hD hnd hcache
    (fun e v hmem i hi => (hset i).mpr (.inr ⟨e, v, hmem, hi⟩)) p.spec hev' hstr' j.state hb2 perm'
  refine ⟨p', h1, ?_, ?_, ?_⟩
  · rw [h2, hmat]
  · rw [h3]
    show some (recordedStruct p.spec rs) = p.spec.struct
    simp only [recordedStruct, hps]
  · rw [h4]

/-- C07.5b  Addressed by path: the spec found at a path of `result.model_spec` is the spec attached to
the part at that path, and replaying it regenerates that part. -/
theorem spec_at_path_regenerates_part (W : World ν τ) (o : Opts) (F : Val (Spec τ)) (perm : List String)
    (caller : List Nat) (j : Joint ν τ) (h : materialize W o F perm caller = .ok j) (hfresh : ∀ s ∈ flatten F, s.Fresh)
    (hreplay : ∀ p ∈ flatten j.parts, ∀ e ∈ exprsOf p.spec.terms, ∀ v w,
      W.eval e (pooledState (norm F)) = .ok (v, w) → ∃ w', W.eval e (pooledState (single p.spec)) = .ok (v, w'))
    (q : Path) (p : PartOut τ) (hq : lookupPath q j.parts = .ok (.leaf p)) :
    lookupPath q (specsOf j.parts) = .ok (.leaf p.spec) ∧
    ∀ perm', ∃ p', materializeOne W o p.spec perm' j.drop = .ok (p', j.drop) ∧
      p'.matrix = p.matrix ∧ p'.spec.struct = p.spec.struct ∧ p'.spec.terms = p.spec.terms := by
  refine ⟨?_, spec_regenerates_part W o F perm caller j h hfresh hreplay p (mem_flatten_of_lookupPath q _ hq)⟩
  rw [specsOf, lookupPath_mapV, hq]; simp [Except.map, mapV]

/-- non-vacuity: the replay contract holds in the demo world for the demo run (the centring
transform finds the mean it recorded): checked by evaluation, then read back as the hypothesis -/
example : ∀ j, materialize demoW demoOpts demoF [] [] = .ok j →
    ∀ p ∈ flatten j.parts, ∀ e ∈ exprsOf p.spec.terms, ∀ v w,
      demoW.eval e (pooledState (norm demoF)) = .ok (v, w) → ∃ w', demoW.eval e (pooledState (single p.spec)) = .ok (v, w') := by
  have key : (materialize demoW demoOpts demoF [] []).toOption.map (fun j => (flatten j.parts).all (fun p =>
      (exprsOf p.spec.terms).all (fun e => decide ((demoW.eval e (pooledState (norm demoF))).toOption.map (·.1) =
        (demoW.eval e (pooledState (single p.spec))).toOption.map (·.1)) &&
        (demoW.eval e (pooledState (single p.spec))).toOption.isSome))) = some true := by decide +kernel
  intro j hj p hp e he v w hw
  simp only [hj, Except.toOption, Option.map_some, Option.some.injEq, List.all_eq_true] at key
  have hk := key p hp e he
  rw [Bool.and_eq_true] at hk
  obtain ⟨h1, h2⟩ := hk
  have h1' := of_decide_eq_true h1
  cases h3 : demoW.eval e (pooledState (single p.spec)) with
  | error x => rw [h3] at h2; simp at h2
  | ok r =>
    obtain ⟨v', w'⟩ := r
    rw [hw, h3] at h1'
    simp only [Option.map_some, Option.some.injEq] at h1'
    exact ⟨w', by rw [h1']⟩

/-- C07.5c  All attached specs replayed TOGETHER (`materializer.get_model_matrix(result.model_spec,
drop_rows=jointDrop)`, any iteration order) regenerate all parts: same drop list, same shape, and
leaf by leaf the same rows, columns and structure. `hreplay` is the replay contract of stateful
transforms for the pooled recorded state. -/
theorem specs_regenerate_jointly (W : World ν τ) (o : Opts) (F : Val (Spec τ)) (perm : List String) (caller : List Nat)
    (j : Joint ν τ) (h : materialize W o F perm caller = .ok j) (hfresh : ∀ s ∈ flatten F, s.Fresh)
    (hreplay : ∀ e ∈ pooledFactors (norm F), ∀ v w, W.eval e (pooledState (norm F)) = .ok (v, w) →
      ∃ w', W.eval e (pooledState (norm (specsOf j.parts))) = .ok (v, w'))
    (perm' : List String) :
    ∃ j', materialize W o (specsOf j.parts) perm' j.drop = .ok j' ∧ j'.drop = j.drop ∧
      shape j'.parts = shape j.parts ∧
      List.Forall₂ (fun (p' p : PartOut τ) => p'.matrix = p.matrix ∧ p'.spec.struct = p.spec.struct ∧
        p'.spec.terms = p.spec.terms) (flatten j'.parts) (flatten j.parts) := by
  obtain ⟨hnd, hmemo, hset, hev, hdrop, hsorted⟩ := joint_facts h
  obtain ⟨cache, _, hD, hcache, hm, hne⟩ := materialize_spec h
  obtain ⟨hf, hall⟩ := flatten_mapE hm
  rw [norm_norm] at hf hall
  obtain ⟨_, _, _, hfs, hterms⟩ := shape_preserved W o F perm caller j h
  have hrl : RootLast (specsOf j.parts) := rootLast_mapV _ _ _
  have hS2 : norm (specsOf j.parts) = specsOf j.parts := norm_of_rootLast _ hrl
  -- the leaves of the spec structure
  have hfl : flatten (specsOf j.parts) = (flatten (norm F)).map (fun a => (outOf (buildPart o W.nrows cache j.drop j.state) a).spec) := by
    rw [hfs, hf, List.map_map]; rfl
  have hpool : ∀ e, e ∈ pooledFactors (specsOf j.parts) ↔ e ∈ pooledFactors (norm F) := by
    intro e
    rw [mem_pooledFactors, mem_pooledFactors, hfl]
    constructor
    · rintro ⟨s, hs, he⟩
      obtain ⟨a, ha, rfl⟩ := List.mem_map.mp hs
      obtain ⟨rs, _, _, _, hsp⟩ := buildPart_spec (hall a ha)
      rw [hsp] at he
      exact ⟨a, ha, he⟩
    · rintro ⟨a, ha, he⟩
      refine ⟨_, List.mem_map.mpr ⟨a, ha, rfl⟩, ?_⟩
      obtain ⟨rs, _, _, _, hsp⟩ := buildPart_spec (hall a ha)
      rw [hsp]; exact he
  rw [hS2] at hreplay
  -- run 2 evaluates, to the same memo table
  have hok : ∀ e ∈ iterOrder (pooledFactors (specsOf j.parts)) perm', ∃ r, W.eval e (pooledState (specsOf j.parts)) = .ok r := by
    intro e he
    obtain ⟨v, w, hw, _⟩ := hev e ((hpool e).mp (mem_iterOrder.mp he))
    obtain ⟨w', hw'⟩ := hreplay e ((hpool e).mp (mem_iterOrder.mp he)) v w hw
    exact ⟨_, hw'⟩
  obtain ⟨s₂, hs₂⟩ := evalAll_ok W (pooledState (specsOf j.parts)) _ ⟨[], j.drop, pooledState (specsOf j.parts)⟩ hok
  obtain ⟨nd₂, hm₂, hd₂⟩ := evalAll_empty hs₂
  simp only [mem_iterOrder, hpool] at hm₂
  have hsame : ∀ e v, (e, v) ∈ s₂.memo ↔ (e, v) ∈ j.memo := by
    intro e v
    rw [hm₂, hmemo]
    constructor
    · rintro ⟨hp, w', hw'⟩
      obtain ⟨v0, w0, hw0, _⟩ := hev e hp
      obtain ⟨w0', hw0'⟩ := hreplay e hp v0 w0 hw0
      rw [hw'] at hw0'
      simp only [Except.ok.injEq, Prod.mk.injEq] at hw0'
      exact ⟨hp, w0, by rw [hw0'.1]; exact hw0⟩
    · rintro ⟨hp, w, hw⟩
      exact ⟨hp, hreplay e hp v w hw⟩
  have hdl : sortSet s₂.drop = j.drop := by
    apply sortSet_eq_of_sorted hsorted
    intro i
    rw [hd₂]
    constructor
    · rintro (hc | ⟨e, v, hmem, hi⟩)
      · exact hc
      · exact (hdrop i).mpr ((hset i).mpr (.inr ⟨e, v, (hsame e v).mp hmem, hi⟩))
    · exact fun hc => .inl hc
  have henc : ∀ kv ∈ s₂.memo, ∃ f, W.encode kv.1 kv.2.values j.drop = .ok f :=
    fun kv hkv => (cacheOf_spec W _ _ _ hcache).1 kv ((hsame kv.1 kv.2).mp hkv)
  obtain ⟨c₂, hc₂⟩ := cacheOf_ok W j.drop s₂.memo henc
  have hget : ∀ e, cache.get e = c₂.get e :=
    fun e => cache_get_congr hcache hc₂ hnd nd₂ e (fun v => (hsame e v).symm)
  -- every spec rebuilds its part
  have hone : ∀ a ∈ flatten (norm F), ∃ p2,
      buildPart o W.nrows c₂ j.drop s₂.state (outOf (buildPart o W.nrows cache j.drop j.state) a).spec = .ok p2 ∧
      p2.matrix = (outOf (buildPart o W.nrows cache j.drop j.state) a).matrix ∧
      p2.spec.struct = (outOf (buildPart o W.nrows cache j.drop j.state) a).spec.struct ∧
      p2.spec.terms = (outOf (buildPart o W.nrows cache j.drop j.state) a).spec.terms := by
    intro a ha
    have hfr : a.Fresh := hfresh a ((mem_flatten_norm F a).mp ha)
    obtain ⟨p1, hp1, e1, e2, e3, _, _⟩ := replay_part hfr.1 (hall a ha) j.state
    obtain ⟨p2, hp2, f1, f2, f3, _⟩ := buildPart_congr o W.nrows j.drop j.state s₂.state _ (fun e _ => hget e)
      (fun _ _ _ _ _ _ sf _ => hget sf.expr) hp1
    exact ⟨p2, hp2, by rw [f1, e1], by rw [f2, e2], by rw [f3, e3]⟩
  have hparts : ∀ sp ∈ flatten (specsOf j.parts), ∃ b, buildPart o W.nrows c₂ j.drop s₂.state sp = .ok b := by
    intro sp hsp
    rw [hfl] at hsp
    obtain ⟨a, ha, rfl⟩ := List.mem_map.mp hsp
    obtain ⟨p2, hp2, _⟩ := hone a ha
    exact ⟨p2, hp2⟩
  obtain ⟨parts₂, hp₂⟩ := mapE_ok _ _ hparts
  obtain ⟨hf₂, hall₂⟩ := flatten_mapE hp₂
  rw [hS2] at hf₂ hall₂
  have hne' : (flatten (specsOf j.parts)).isEmpty = false := by
    rw [hfl]; simpa using hne
  refine ⟨⟨parts₂, j.drop, s₂.drop, s₂.state, s₂.memo⟩, ?_, rfl, ?_, ?_⟩
  · simp only [materialize, hS2, hne', Bool.false_eq_true, if_false, hs₂, hdl, hc₂, hp₂]
  · rw [shape_mapE hp₂, hS2, specsOf, shape_mapV,
      norm_of_rootLast _ (by rw [(mapE_spec _ _ _ [] hm).1]; exact rootLast_mapV _ _ _)]
  · simp only
    rw [hf₂, hfl, hf, List.map_map, List.forall₂_map_left_iff, List.forall₂_map_right_iff, List.forall₂_same]
    intro a ha
    obtain ⟨p2, hp2, g1, g2, g3⟩ := hone a ha
    simp only [Function.comp_apply]
    rw [outOf_ok hp2]
    exact ⟨g1, g2, g3⟩

/-- non-vacuity: the joint replay contract holds for the demo run -/
example : ∀ j, materialize demoW demoOpts demoF [] [] = .ok j →
    ∀ e ∈ pooledFactors (norm demoF), ∀ v w, demoW.eval e (pooledState (norm demoF)) = .ok (v, w) →
      ∃ w', demoW.eval e (pooledState (norm (specsOf j.parts))) = .ok (v, w') := by
  have key : (materialize demoW demoOpts demoF [] []).toOption.map (fun j =>
      (pooledFactors (norm demoF)).all (fun e =>
        decide ((demoW.eval e (pooledState (norm demoF))).toOption.map (·.1) =
          (demoW.eval e (pooledState (norm (specsOf j.parts)))).toOption.map (·.1)) &&
        (demoW.eval e (pooledState (norm (specsOf j.parts)))).toOption.isSome)) = some true := by decide +kernel
  intro j hj e he v w hw
  simp only [hj, Except.toOption, Option.map_some, Option.some.injEq, List.all_eq_true] at key
  have hk := key e he
  rw [Bool.and_eq_true] at hk
  obtain ⟨h1, h2⟩ := hk
  have h1' := of_decide_eq_true h1
  cases h3 : demoW.eval e (pooledState (norm (specsOf j.parts))) with
  | error x => rw [h3] at h2; simp at h2
  | ok r =>
    obtain ⟨v', w'⟩ := r
    rw [hw, h3] at h1'
    simp only [Option.map_some, Option.some.injEq] at h1'
    exact ⟨w', by rw [h1']⟩

/-! ## 6. multi-step histories: structured specs that are built, edited / composed and built again

Model: `Model/PartsHist.lean` — specs as the library stores them (recorded structure, transform and
encoder state, recorded materializer name and params, output / rank / clustering settings), one
`get_model_matrix` call on a materializer OBJECT with its three caches (`core`, `MatObj.call`,
`materializeH`), `ModelSpecs.get_model_matrix` with its joint / per-spec decision
(`specsGetModelMatrix`), `ModelSpecs.subset` / `differentiate`. These are the functions the engine
runs for the streams `hist`, `fault` and `edit`. -/

section histories
open FormulaicVerif.Model.PartsHist FormulaicVerif.Proofs.C07Hist

variable {σ : Type}

/-- a concrete instance: the demo data seen through a pandas-like materializer class; the encoder
state is the drop list the encoder saw -/
def demoHW : HWorld (List Rat) Rat (List Nat) :=
  { nrows := 3, eval := demoEval,
    fmeta := fun e _ => ⟨true, if e = "1" then .constant 1 else .numerical, false, false⟩,
    encode := fun _ vals drop _ _ =>
      .ok (⟨.single (((List.range vals.length).zip vals).filterMap (fun iv => if drop.contains iv.1 then none else some iv.2)),
        false, none, false, demoFmt, none⟩, drop) }
def demoMC : MatClass := ⟨"pandas", ["pandas", "numpy", "sparse"], [], .fast⟩
def demoHF : Val (HSpec Rat (List Nat)) :=
  .node [("lhs", .leaf (HSpec.fresh [["y"]])),
         ("rhs", .tup [.leaf (HSpec.fresh [["1"], ["c(x)"]]), .leaf (HSpec.fresh [["z"]])])]
def demoEnv : Env (List Rat) Rat (List Nat) := ⟨[demoMC], some "pandas", fun _ => demoHW⟩

/-- the demo call: rows 1 and 2 are dropped jointly, every part keeps row 0, every spec records the materializer -/
example : (materializeH demoHW demoMC [] demoHF Overrides.none ["z", "y"] []).toOption.map
      (fun j => (j.drop, (flatten j.parts).map (fun p => (p.matrix.rows, p.spec.materializer, p.spec.enc.map (·.1))))) =
    some ([1, 2], [([0], some "pandas", ["y"]), ([0], some "pandas", ["c(x)"]), ([0], some "pandas", ["z"])]) := by
  decide +kernel

/-- C07.6  ONE `get_model_matrix` call on specs in ANY state (never materialized, materialized before by
any materializer, edited), for every override setting, iteration order and caller drop set: the result and
its attached specs have the shape of the structure (after the constructors have run); one strictly
increasing drop list serves all parts, it contains the caller's rows, and every other member is a null
position of an evaluated factor; every part has exactly the rows outside it and one entry per such row in
every column; every attached spec records this materializer's name and params. -/
theorem hist_call_shape_rows (W : HWorld ν τ σ) (mc : MatClass) (params : Params) (F : Val (HSpec τ σ)) (ov : Overrides)
    (perm : List String) (caller : List Nat) (j : JointH ν τ σ)
    (h : materializeH W mc params F ov perm caller = .ok j) :
    shape j.parts = shape (norm F) ∧ shape (specsOfH j.parts) = shape (norm F) ∧
    j.drop.Pairwise (· < ·) ∧ (∀ i, i ∈ j.drop ↔ i ∈ j.dropSet) ∧ (∀ i ∈ caller, i ∈ j.drop) ∧
    (∀ i ∈ j.drop, i ∈ caller ∨ ∃ kv ∈ j.memo, i ∈ kv.2.nulls) ∧
    ∀ p ∈ flatten j.parts,
      p.matrix.rows = keptRows W.nrows j.drop ∧ (∀ c ∈ p.matrix.cols, c.col.length = W.nrows - j.drop.length) ∧
      p.spec.materializer = some mc.name ∧ p.spec.params = some params := by
  obtain ⟨m', hc⟩ := materializeH_core h
  obtain ⟨hs, hrl, _⟩ := core_parts hc
  obtain ⟨hd, hsorted, extra, he, hex, _⟩ := core_drop hc
  have hmem : ∀ i, i ∈ j.drop ↔ i ∈ j.dropSet := fun i => by rw [hd, mem_sortSet]
  refine ⟨hs, ?_, hsorted, hmem, ?_, ?_, core_rows hc⟩
  · rw [specsOfH, shape_mapV, norm_of_rootLast _ hrl, hs]
  · intro i hi; rw [hmem, he]; exact List.mem_append_left _ hi
  · intro i hi
    rw [hmem, he] at hi
    rcases List.mem_append.mp hi with hi | hi
    · exact .inl hi
    · exact .inr (hex i hi)

/-- C07.6b  Row counts fit: when the caller's rows and the null positions are rows of the data, every column of
every part has one entry per kept row. -/
theorem hist_call_columns_fit_rows (W : HWorld ν τ σ) (mc : MatClass) (params : Params) (F : Val (HSpec τ σ))
    (ov : Overrides) (perm : List String) (caller : List Nat) (j : JointH ν τ σ)
    (h : materializeH W mc params F ov perm caller = .ok j)
    (hcaller : ∀ i ∈ caller, i < W.nrows)
    (hnulls : ∀ kv ∈ j.memo, ∀ i ∈ kv.2.nulls, i < W.nrows) :
    ∀ p ∈ flatten j.parts, ∀ c ∈ p.matrix.cols, c.col.length = p.matrix.rows.length := by
  obtain ⟨_, _, hsorted, _, _, hwhy, hparts⟩ := hist_call_shape_rows W mc params F ov perm caller j h
  intro p hp c hc
  obtain ⟨hrows, hlen, _⟩ := hparts p hp
  rw [hlen c hc, hrows, keptRows_length (hsorted.imp (fun h => Nat.ne_of_lt h))]
  intro i hi
  rcases hwhy i hi with h' | ⟨kv, hkv, hi'⟩
  · exact hcaller i h'
  · exact hnulls kv hkv i hi'

/-! ### joint or per-spec generation -/

/-- C07.7a  A part that was never materialized (no recorded materializer) is invisible to the scan that
decides between joint and per-spec generation, wherever it stands: before, between or after materialized parts. -/
theorem fresh_parts_never_block_joint (s : HSpec τ σ) (hs : s.materializer = none) (L₁ L₂ : List (HSpec τ σ))
    (acc : Option String × Option Params) :
    jointScan (L₁ ++ s :: L₂) acc = jointScan (L₁ ++ L₂) acc :=
  jointScan_insert_fresh s (by simp [truthyStr, hs]) L₁ L₂ acc

/-- C07.7b  Specs that were all written by ONE materializer (same name, same params) or never materialized are
generated jointly, in every order, and by that materializer with those params (empty params count as unset). -/
theorem joint_after_one_materializer (n : String) (p : Params) (hn : n ≠ "") (hp : (p.map (·.1)).Nodup)
    (L : List (HSpec τ σ)) (h : ∀ s ∈ L, s.materializer = none ∨ (s.materializer = some n ∧ s.params = some p)) :
    ∃ acc, jointScan L (none, none) = some acc ∧
      (acc = (none, none) ∨ acc = (some n, if p.isEmpty then none else some p)) := by
  apply jointScan_uniform n p hn hp L _ _ (.inl rfl)
  intro s hs
  rcases h s hs with h' | h'
  · exact .inl (by simp [truthyStr, h'])
  · exact .inr h'

example : ("pandas" : String) ≠ "" := by decide
example : (([("tag", "1")] : Params).map (·.1)).Nodup := by decide

/-- C07.7c  The additional input class: take the attached specs of ANY earlier call and put never materialized
specs before, between or after them, in any order — the composed structure is generated jointly. -/
theorem rebuilt_with_fresh_parts_is_joint (W : HWorld ν τ σ) (mc : MatClass) (params : Params) (F : Val (HSpec τ σ))
    (ov : Overrides) (perm : List String) (caller : List Nat) (j : JointH ν τ σ)
    (h : materializeH W mc params F ov perm caller = .ok j) (hn : mc.name ≠ "") (hp : (params.map (·.1)).Nodup)
    (L : List (HSpec τ σ)) (hL : ∀ s ∈ L, s.materializer = none ∨ ∃ p ∈ flatten j.parts, s = p.spec) :
    ∃ acc, jointScan L (none, none) = some acc := by
  obtain ⟨_, _, _, _, _, _, hparts⟩ := hist_call_shape_rows W mc params F ov perm caller j h
  obtain ⟨acc, hacc, _⟩ := joint_after_one_materializer mc.name params hn hp L (by
    intro s hs
    rcases hL s hs with h' | ⟨p, hp', rfl⟩
    · exact .inl h'
    · obtain ⟨_, _, h1, h2⟩ := hparts p hp'
      exact .inr ⟨h1, h2⟩)
  exact ⟨acc, hacc⟩

/-- non-vacuity and a witness that the other branch exists: two demo specs recorded with different params are NOT
generated jointly, with equal params they are, and a fresh spec in front changes neither -/
example : jointScan ([{ HSpec.fresh [["y"]] with materializer := some "pandas", params := some [("tag", "1")] },
      { HSpec.fresh [["z"]] with materializer := some "pandas", params := some [("tag", "2")] }] : List (HSpec Rat (List Nat)))
    (none, none) = none := by decide
example : jointScan ([HSpec.fresh [["x"]], { HSpec.fresh [["y"]] with materializer := some "pandas", params := some [("tag", "1")] },
      { HSpec.fresh [["z"]] with materializer := some "pandas", params := some [("tag", "1")] }] : List (HSpec Rat (List Nat)))
    (none, none) = some (some "pandas", some [("tag", "1")]) := by decide

/-- C07.8  `ModelSpecs.get_model_matrix` on specs in ANY state and ANY mixture of recorded materializers, joint or
per-spec: the result has the shape of the structure; the caller-visible drop set after the call contains the
caller's rows and is EXACTLY the set of rows missing from every part — all parts contain the same rows. (For
the per-spec branch this is the repaired code: a second pass once the null rows of all parts are known.) -/
theorem specs_parts_row_aligned (E : Env ν τ σ) (n : Nat) (hn : ∀ c, (E.world c).nrows = n) (F : Val (HSpec τ σ))
    (ov : Overrides) (perm : List String) (caller : List Nat) (out : SpecsOut τ σ)
    (h : specsGetModelMatrix E F ov perm caller = .ok out) :
    shape out.parts = shape (norm F) ∧ (∀ i ∈ caller, i ∈ out.dropSet) ∧
    ∀ p ∈ flatten out.parts, p.matrix.rows = keptRows n (sortSet out.dropSet) := by
  unfold specsGetModelMatrix at h
  simp only at h
  generalize hS : (if ov.isEmpty = true then F else mapV (fun h _ => applyOv ov h) [] F) = S at h
  have hshapeS : shape (norm S) = shape (norm F) := by
    rw [← hS]
    split
    · rfl
    · rw [norm_of_rootLast _ (rootLast_mapV _ _ _), shape_mapV]
  cases hscan : jointScan (flatten S) (none, none) with
  | some mp =>
    obtain ⟨m, p⟩ := mp
    simp only [hscan] at h
    cases hc : E.classFor m with
    | error e => simp [hc] at h
    | ok mc =>
      simp only [hc] at h
      cases hm : materializeH (E.world mc.name) mc (paramsOr p) S Overrides.none perm caller with
      | error e => simp [hm] at h
      | ok j =>
        simp only [hm, Except.ok.injEq] at h
        subst h
        obtain ⟨h1, _, _, h4, h5, _, h7⟩ := hist_call_shape_rows _ mc _ S _ perm caller j hm
        obtain ⟨m', hcore⟩ := materializeH_core hm
        obtain ⟨hd, _⟩ := core_drop hcore
        refine ⟨by rw [h1, hshapeS], fun i hi => (h4 i).mp (h5 i hi), ?_⟩
        intro q hq
        simp only
        rw [(h7 q hq).1, hn, hd]
  | none =>
    simp only [hscan] at h
    cases hp1 : perSpecPass E perm caller (flatten S) with
    | error e => simp [hp1] at h
    | ok r1 =>
      obtain ⟨ps, d⟩ := r1
      simp only [hp1] at h
      obtain ⟨_, ⟨e1, hd1, hdet⟩, hparts1⟩ := perSpecPass_spec hn hp1
      split at h
      · -- the set did not grow: one pass
        rename_i hsz
        cases hr : rebuild S ps with
        | error e => simp [hr] at h
        | ok parts =>
          simp only [hr, Except.ok.injEq] at h
          subst h
          have hsub : ∀ i ∈ caller, i ∈ d := fun i hi => by rw [hd1]; exact List.mem_append_left _ hi
          have hback := subset_of_setSize hsub hsz
          refine ⟨by rw [rebuild_shape hr, hshapeS], hsub, ?_⟩
          intro q hq
          obtain ⟨dk, a, b, c⟩ := hparts1 q (rebuild_mem hr q hq)
          simp only
          rw [c]
          congr 1
          exact sortSet_congr (fun i => ⟨fun hi => b i hi, fun hi => a i (hback i hi)⟩)
      · -- the set grew: every spec again, with the complete set
        cases hp2 : perSpecPass E perm d (flatten S) with
        | error e => simp [hp2] at h
        | ok r2 =>
          obtain ⟨ps', d'⟩ := r2
          simp only [hp2] at h
          cases hr : rebuild S ps' with
          | error e => simp [hr] at h
          | ok parts =>
            simp only [hr, Except.ok.injEq] at h
            subst h
            obtain ⟨_, ⟨e2, hd2, _⟩, hparts2⟩ := perSpecPass_spec hn hp2
            -- the second pass adds the rows the first one added: nothing new
            have hsame : d' = d ++ e1 := hdet d ps' d' hp2
            have hback : ∀ i ∈ d', i ∈ d := by
              intro i hi
              rw [hsame] at hi
              rcases List.mem_append.mp hi with hi | hi
              · exact hi
              · rw [hd1]; exact List.mem_append_right _ hi
            have hsub : ∀ i ∈ caller, i ∈ d' := fun i hi => by
              rw [hsame, hd1]; exact List.mem_append_left _ (List.mem_append_left _ hi)
            refine ⟨by rw [rebuild_shape hr, hshapeS], hsub, ?_⟩
            intro q hq
            obtain ⟨dk, a, b, c⟩ := hparts2 q (rebuild_mem hr q hq)
            simp only
            rw [c]
            congr 1
            exact sortSet_congr (fun i => ⟨fun hi => b i hi, fun hi => a i (hback i hi)⟩)

example : ∀ c, (demoEnv.world c).nrows = 3 := fun _ => rfl

/-- a quirk of the scan, mirrored as written: empty params count as "unset" only when they come FIRST — a spec recorded
with `{}` followed by one recorded with `{tag: 1}` is generated jointly (with `{tag: 1}`), the other order per spec -/
example : jointScan ([{ HSpec.fresh [["y"]] with materializer := some "pandas", params := some [] },
      { HSpec.fresh [["z"]] with materializer := some "pandas", params := some [("tag", "1")] }] : List (HSpec Rat (List Nat)))
    (none, none) = some (some "pandas", some [("tag", "1")]) := by decide
example : jointScan ([{ HSpec.fresh [["z"]] with materializer := some "pandas", params := some [("tag", "1")] },
      { HSpec.fresh [["y"]] with materializer := some "pandas", params := some [] }] : List (HSpec Rat (List Nat)))
    (none, none) = none := by decide

/-- the per-spec branch really runs in the demo: the attached specs of two calls with different params, the second pass
aligns the parts (rows 1 and 2 dropped from both) -/
example :
    let a := (materializeH demoHW demoMC [("tag", "1")] (.node [("p", .leaf (HSpec.fresh [["y"]]))]) Overrides.none [] []).toOption
    let b := (materializeH demoHW demoMC [("tag", "2")] (.node [("q", .leaf (HSpec.fresh [["z"]]))]) Overrides.none [] []).toOption
    (match a, b with
     | some ja, some jb =>
       (specsGetModelMatrix demoEnv (.node [("p", specsOfH ja.parts), ("q", specsOfH jb.parts)]) Overrides.none [] []).toOption.map
         (fun o => (o.jointly, o.passes, sortSet o.dropSet, (flatten o.parts).map (·.matrix.rows)))
     | _, _ => none) = some (false, 2, [1, 2], [[0], [0]]) := by
  decide +kernel

/-! ### one materializer object, any history of calls -/

/-- C07.9  FAULT-THEN-REUSE: whatever calls were made before on a materializer object — any number, with any
arguments, succeeded or raised (what the object holds afterwards is `(MatObj.call …).2`, an arbitrary `m` covers
every history) — the next call answers exactly what a new object answers. -/
theorem materializer_reuse_after_any_history (W : HWorld ν τ σ) (mc : MatClass) (params : Params) (m : MatObj ν σ)
    (F : Val (HSpec τ σ)) (ov : Overrides) (perm : List String) (caller : List Nat) :
    (MatObj.call W mc params m F ov perm caller).1 = materializeH W mc params F ov perm caller := rfl

/-- C07.9b  … in particular after any LIST of earlier calls -/
theorem materializer_reuse_after_calls (W : HWorld ν τ σ) (mc : MatClass) (params : Params)
    (hist : List (Val (HSpec τ σ) × Overrides × List String × List Nat)) (m₀ : MatObj ν σ)
    (F : Val (HSpec τ σ)) (ov : Overrides) (perm : List String) (caller : List Nat) :
    (MatObj.call W mc params
        (hist.foldl (fun m a => (MatObj.call W mc params m a.1 a.2.1 a.2.2.1 a.2.2.2).2) m₀) F ov perm caller).1 =
      materializeH W mc params F ov perm caller := rfl

/-- why the caches must be emptied (negative witness): the call BODY started with what an earlier call with another
caller drop set left behind raises (the cached encodings have the wrong number of rows); started empty it succeeds -/
example :
    (match core demoHW demoMC [] MatObj.empty demoHF Overrides.none [] [0] with
     | .ok (_, stale) =>
       ((core demoHW demoMC [] stale demoHF Overrides.none [] []).toOption.isSome,
        (core demoHW demoMC [] MatObj.empty demoHF Overrides.none [] []).toOption.isSome)
     | .error _ => (true, false)) = (false, true) := by
  decide +kernel

/-! ### `ModelSpecs.subset` and `ModelSpecs.differentiate` -/

/-- C07.10a  `result.model_spec.differentiate(…)` keeps the nested shape, puts the differentiated terms at every
leaf (in `_flatten` order), unsets the recorded structure and keeps everything else (so `specs_parts_row_aligned`
applies to building them: row-aligned parts). -/
theorem specs_differentiate_spec (D : List MTerm → List MTerm) (S : Val (HSpec τ σ)) :
    shape (specsDifferentiate D S) = shape (norm S) ∧
    flatten (specsDifferentiate D S) =
      (flatten (norm S)).map (fun h => { h with core := ⟨D h.core.terms, none, h.core.state⟩ }) := by
  refine ⟨by rw [specsDifferentiate, shape_mapV], ?_⟩
  rw [specsDifferentiate, flatten_mapV, ← flattenP_fst (norm S) [], List.map_map]
  rfl

/-- C07.10b  `ModelSpecs.subset` refuses a formula without structure -/
theorem specs_subset_unstructured (S : Val (HSpec τ σ)) : specsSubset S none = .error .value := rfl

/-- C07.10c  When `ModelSpecs.subset(formula)` succeeds the result has the nested shape of the FORMULA, and leaf by
leaf (in `_flatten` order, paired with the formula's leaves and their paths): the path leads to a single spec of
this structure, every chosen term is a term of that spec, the new spec holds the chosen terms in the formula's
order, the structure rows the parent recorded for them, and the parent's state, encoder state, materializer record
and settings unchanged. -/
theorem specs_subset_spec (S : Val (HSpec τ σ)) (fm : Val (List MTerm)) (R : Val (HSpec τ σ))
    (h : specsSubset S (some fm) = .ok R) :
    shape R = shape (norm fm) ∧
    List.Forall₂ (fun (tp : List MTerm × Path) (r : HSpec τ σ) =>
        ∃ x, lookupPathPy tp.2 S = .ok (.leaf x) ∧
          r.core.terms = tp.1 ∧ (∀ t ∈ tp.1, ∃ t' ∈ x.core.terms, termEq t t' = true) ∧
          (∃ str rows, x.core.struct = some str ∧ r.core.struct = some rows ∧
            List.Forall₂ (fun t s => s ∈ str ∧ termEq s.term t = true) tp.1 rows) ∧
          r.core.state = x.core.state ∧ r.enc = x.enc ∧ r.materializer = x.materializer ∧ r.params = x.params ∧
          r.output = x.output ∧ r.efr = x.efr ∧ r.cluster = x.cluster)
      (flattenP [] (norm fm)) (flatten R) := by
  unfold specsSubset at h
  simp only at h
  cases hm : mapL (fun tp => subsetAt S tp.1 tp.2) (flattenP [] (norm fm)) with
  | error e => simp [hm] at h
  | ok l =>
    simp only [hm] at h
    obtain ⟨hf, _⟩ := rebuild_flatten (rootLast_norm fm) h
    refine ⟨by rw [rebuild_shape h, norm_norm], ?_⟩
    rw [hf]
    refine (mapL_spec _ _ _ hm).imp ?_
    intro tp r hr
    obtain ⟨x, hx, hs⟩ := subsetAt_ok hr
    obtain ⟨h1, h2, h3, h4, h5, h6, h7, h8, h9, h10⟩ := subsetLeaf_spec hs
    exact ⟨x, hx, h1, h9, h10, h2, h3, h4, h5, h6, h7, h8⟩

/-- C07.10d  … and it fails exactly when the leaf operation fails for some leaf of the formula: a path that is not a
key path of this structure (`ValueError`; an out-of-range tuple index surfaces as `IndexError`, a tuple or nested
structure found where the formula has a single part as `AttributeError` / `ValueError`), a term the spec does not
have (`ValueError`), a spec whose structure is not populated (`RuntimeError`). -/
theorem specs_subset_fails_iff (S : Val (HSpec τ σ)) (fm : Val (List MTerm)) :
    (∃ e, specsSubset S (some fm) = .error e) ↔
      ∃ tp ∈ flattenP [] (norm fm), ∃ e, subsetAt S tp.1 tp.2 = .error e := by
  unfold specsSubset
  simp only
  constructor
  · rintro ⟨e, he⟩
    cases hm : mapL (fun tp => subsetAt S tp.1 tp.2) (flattenP [] (norm fm)) with
    | error e' =>
      obtain ⟨a, ha, hfa⟩ := mapL_error _ _ _ hm
      exact ⟨a, ha, e', hfa⟩
    | ok l =>
      simp only [hm] at he
      have hlen : l.length = (flatten (norm fm)).length := by
        rw [mapL_length _ hm, ← flattenP_fst (norm fm) [], List.length_map]
      obtain ⟨r, hr⟩ := rebuild_ok (norm fm) l hlen
      rw [hr] at he
      simp at he
  · rintro ⟨tp, htp, e, he⟩
    cases hm : mapL (fun tp => subsetAt S tp.1 tp.2) (flattenP [] (norm fm)) with
    | error e' => exact ⟨e', rfl⟩
    | ok l =>
      obtain ⟨b, _, hb⟩ := forall₂_mem_left (mapL_spec _ _ _ hm) tp htp
      rw [he] at hb
      simp at hb

/-! ### parts in DIFFERENT states built together (the eager model `Model/Parts.lean`) -/

/-- C07.11  For a structure whose parts are in ANY state — fresh formula leaves, specs attached by an earlier build
(recorded structure, transform state), in any order — each part of the joint build equals what materialising that
part's spec ALONE gives with the joint drop list supplied (same rows, columns, recorded structure), for every
iteration order of either build. `hstate`: a part's factors evaluate under its own transform state as they do
under the pooled one (true for fresh parts whose factors no other part has state for, and for materialized parts
replayed on the data they were fitted on — the replay contract of C04); `hstruct`: a recorded structure only
mentions factors of its own terms (true of every structure a build records: `recorded_exprs`). The encoders
of this model depend on (expression, values, drop list) only — see `Model/PartsHist.lean` for the code's caches,
where an encoder that reads the encoder state a spec brings along breaks this (finding C07-F1). -/
theorem mixed_state_part_eq_standalone (W : World ν τ) (o : Opts) (F : Val (Spec τ)) (perm : List String) (caller : List Nat)
    (j : Joint ν τ) (h : materialize W o F perm caller = .ok j)
    (hstate : ∀ a ∈ flatten F, ∀ e ∈ exprsOf a.terms, ∀ v w, W.eval e (pooledState (norm F)) = .ok (v, w) →
      ∃ w', W.eval e (pooledState (single a)) = .ok (v, w'))
    (hstruct : ∀ a ∈ flatten F, ∀ str, a.struct = some str → ∀ s ∈ str, ∀ st ∈ s.sts, ∀ sf ∈ st.factors,
      sf.expr ∈ exprsOf a.terms) :
    List.Forall₂ (fun (a : Spec τ) (p : PartOut τ) => ∀ perm', ∃ p', materializeOne W o a perm' j.drop = .ok (p', j.drop) ∧
        p'.matrix = p.matrix ∧ p'.spec.struct = p.spec.struct ∧ p'.spec.terms = p.spec.terms)
      (flatten (norm F)) (flatten j.parts) := by
  obtain ⟨hnd, hmemo, hset, hev, hdrop, hsorted⟩ := joint_facts h
  obtain ⟨cache, _, hD, hcache, hm, _⟩ := materialize_spec h
  obtain ⟨hf, hall⟩ := flatten_mapE hm
  rw [norm_norm] at hf hall
  rw [hf, List.forall₂_map_right_iff, List.forall₂_same]
  intro a ha perm'
  have haF : a ∈ flatten F := (mem_flatten_norm F a).mp ha
  apply one_matches hD hnd hcache (fun e v hmem i hi => (hset i).mpr (.inr ⟨e, v, hmem, hi⟩)) a ?_ (hstruct a haF) j.state (hall a ha)
  intro e he
  obtain ⟨v, w, hw, hmem⟩ := hev e (mem_pooledFactors.mpr ⟨a, ha, he⟩)
  obtain ⟨w', hw'⟩ := hstate a haF e he v w hw
  exact ⟨v, w', hmem, hw'⟩

/-- a mixed-state instance: `old` was materialized before (recorded structure, the centring state it fitted),
`new` is a fresh part that uses the same stateful factor and another variable -/
def demoMixed : Val (Spec Rat) :=
  .node [("old", .leaf ⟨[["c(x)"]], some [⟨["c(x)"], [⟨[⟨"c(x)", false⟩], 1⟩], ["c(x)"]⟩], [("c(x)", 2)]⟩),
         ("new", .leaf (Spec.ofTerms [["z"], ["c(x)"]]))]

/-- it builds: row 2 (null in `z`) is dropped from BOTH parts -/
example : (materialize demoW demoOpts demoMixed [] []).toOption.map
      (fun j => (j.drop, (flatten j.parts).map (fun p => p.matrix.rows))) = some ([2], [[0, 1], [0, 1]]) := by
  decide +kernel
example : (materialize demoW demoOpts demoMixed [] []).toOption.map
      (fun j => (flatten j.parts).map (fun p => p.matrix.cols.map (fun c => (c.name, c.col)))) =
    some [[("c(x)", [-1, 0])], [("z", [4, 6]), ("c(x)", [-1, 0])]] := by
  decide +kernel

/-- non-vacuity of `hstate` … -/
example : ∀ a ∈ flatten demoMixed, ∀ e ∈ exprsOf a.terms, ∀ v w, demoW.eval e (pooledState (norm demoMixed)) = .ok (v, w) →
    ∃ w', demoW.eval e (pooledState (single a)) = .ok (v, w') := by
  have key : (flatten demoMixed).all (fun a => (exprsOf a.terms).all (fun e =>
      decide ((demoW.eval e (pooledState (norm demoMixed))).toOption.map (·.1) =
        (demoW.eval e (pooledState (single a))).toOption.map (·.1)) &&
      (demoW.eval e (pooledState (single a))).toOption.isSome)) = true := by decide +kernel
  intro a ha e he v w hw
  have hk := List.all_eq_true.mp (List.all_eq_true.mp key a ha) e he
  rw [Bool.and_eq_true] at hk
  obtain ⟨h1, h2⟩ := hk
  have h1' := of_decide_eq_true h1
  cases h3 : demoW.eval e (pooledState (single a)) with
  | error x => rw [h3] at h2; simp [Except.toOption] at h2
  | ok r =>
    obtain ⟨v', w'⟩ := r
    rw [hw, h3] at h1'
    simp only [Except.toOption, Option.map_some, Option.some.injEq] at h1'
    exact ⟨w', by rw [h1']⟩

/-- … and of `hstruct` -/
example : ∀ a ∈ flatten demoMixed, ∀ str, a.struct = some str → ∀ s ∈ str, ∀ st ∈ s.sts, ∀ sf ∈ st.factors,
    sf.expr ∈ exprsOf a.terms := by
  intro a ha str hs s hs1 st hst sf hsf
  simp only [demoMixed, flatten, flattenI, List.append_nil, List.mem_cons, List.mem_nil_iff, or_false,
    List.singleton_append] at ha
  rcases ha with rfl | rfl
  · simp only [Option.some.injEq] at hs
    subst hs
    simp only [List.mem_cons, List.mem_nil_iff, or_false] at hs1
    subst hs1
    simp only [List.mem_cons, List.mem_nil_iff, or_false] at hst
    subst hst
    simp only [List.mem_cons, List.mem_nil_iff, or_false] at hsf
    subst hsf
    simp [exprsOf]
  · simp [Spec.ofTerms] at hs

/-! ### `encoder_state` bookkeeping across parts -/

/-- C07.12  ONE call, specs in any state: paired in `_flatten` order, the spec attached to every part records encoder
state for EVERY scoped factor of the part's recorded structure — also when the encoded columns came from the
materializer's shared cache because an earlier part had encoded the factor (state recorded per part, not once) —
keeps every entry the spec brought along, and records nothing else. -/
theorem every_user_records_encoder_state (W : HWorld ν τ σ) (mc : MatClass) (params : Params) (F : Val (HSpec τ σ))
    (ov : Overrides) (perm : List String) (caller : List Nat) (j : JointH ν τ σ)
    (h : materializeH W mc params F ov perm caller = .ok j) :
    List.Forall₂ (fun (x : HSpec τ σ) (p : PartH τ σ) => ∃ str, p.spec.core.struct = some str ∧
        (∀ s ∈ str, ∀ st ∈ s.sts, ∀ sf ∈ st.factors, sf.expr ∈ p.spec.enc.map (·.1)) ∧
        (∀ k ∈ p.spec.enc.map (·.1), k ∈ x.enc.map (·.1) ∨ ∃ s ∈ str, ∃ st ∈ s.sts, ∃ sf ∈ st.factors, k = sf.expr) ∧
        (∀ k ∈ x.enc.map (·.1), k ∈ p.spec.enc.map (·.1)))
      (flatten (norm F)) (flatten j.parts) := by
  obtain ⟨m', hc⟩ := materializeH_core h
  obtain ⟨L, ps, c, hL, _, _, _, hb, hr, _⟩ := core_spec hc
  obtain ⟨hf, _⟩ := rebuild_flatten (rootLast_norm F) hr
  rw [hf]
  have h1 := mapL_spec _ _ _ hL
  have h2 := buildLeaves_enc cachesOK_empty hb
  refine (forall₂_comp h1 h2).imp ?_
  rintro x p ⟨x', hx', str, hs, a, b, c'⟩
  have henc : x'.enc = x.enc := by
    rw [(prepareLeaf_spec hx').2.2.2.1]; rfl
  rw [henc] at b c'
  exact ⟨str, hs, a, b, c'⟩

/-- in the demo call the second part of the right-hand side does not use `c(x)`, the first does: each records exactly
the factors it encodes (the constant `1` is never encoded) -/
example : (materializeH demoHW demoMC [] demoHF Overrides.none [] []).toOption.map
      (fun j => (flatten j.parts).map (fun p => p.spec.enc.map (·.1))) = some [["y"], ["c(x)"], ["z"]] := by
  decide +kernel

/-- two parts SHARING the factor `c(x)`: the second obtains the encoded columns from the cache the first filled, and
still records the factor's encoder state in its own spec -/
example : (materializeH demoHW demoMC []
      (.node [("a", .leaf (HSpec.fresh [["c(x)"]])), ("b", .leaf (HSpec.fresh [["z"], ["c(x)"]]))]) Overrides.none [] []).toOption.map
      (fun j => (flatten j.parts).map (fun p => p.spec.enc.map (fun kv => (kv.1, kv.2.kind)))) =
    some [[("c(x)", "numerical")], [("z", "numerical"), ("c(x)", "numerical")]] := by
  decide +kernel

/-! ### what the theorems above do NOT say: encoders that read the state a spec brings along (finding C07-F1)

`mixed_state_part_eq_standalone` is a theorem of the eager model, whose encoders are functions of (expression, values,
drop list). In the history model the encoder also receives the encoder state of the spec being built, and the
materializer's `encoded_cache` is keyed by the expression only. The following kernel-checked instance shows that
"each part equals its stand-alone build with the joint drop set" then FAILS for a structure that mixes a materialized
and a fresh part sharing a categorical factor: three rows, `A = [a, b, a]`, `z` null in row 1; `old` was built from
`A` alone on all rows (levels a, b recorded); `new = A + z` is fresh. Built together, row 1 is dropped, `old` encodes `A`
first with its recorded levels, and `new` receives that cached encoding: columns `A[a]`, `A[b]` (all zero), `z` —
built alone with row 1 dropped it has `A[a]`, `z`. Row alignment and shape (C07.6, C07.8) are not affected. -/

/-- a categorical encoder: the levels are the recorded ones when the spec brings some along, otherwise the distinct
values of the kept rows; one indicator column per level -/
def demoCatEncode (vals : List Nat) (drop : List Nat) (prior : Option (List Nat)) : Encoded × List Nat :=
  let kept := ((List.range vals.length).zip vals).filterMap (fun iv => if drop.contains iv.1 then none else some iv.2)
  let levels := match prior with | some l => l | none => kept.eraseDups
  (⟨.dict (levels.map (fun l => (⟨if l = 0 then "a" else "b", true⟩, kept.map (fun v => if v = l then (1 : Rat) else 0)))),
    false, none, false, demoFmt, none⟩, levels)

def demoHW2 : HWorld (List Nat) Rat (List Nat) :=
  { nrows := 3,
    eval := fun e _ => match e with
      | "A" => .ok (⟨[0, 1, 0], []⟩, [])
      | "z" => .ok (⟨[1, 0, 3], [1]⟩, [])
      | _ => .error "FactorEvaluationError",
    fmeta := fun e _ => ⟨true, if e = "A" then .categorical else .numerical, false, false⟩,
    encode := fun e vals drop _ prior =>
      if e = "A" then .ok (demoCatEncode vals drop prior)
      else .ok (⟨.single (((List.range vals.length).zip vals).filterMap
        (fun iv => if drop.contains iv.1 then none else some (iv.2 : Rat))), false, none, false, demoFmt, none⟩, []) }
def demoEnv2 : Env (List Nat) Rat (List Nat) := ⟨[demoMC], some "pandas", fun _ => demoHW2⟩

example :
    (match materializeH demoHW2 demoMC [] (.node [("old", .leaf (HSpec.fresh [["A"]]))]) Overrides.none [] [] with
     | .ok j1 =>
       let new : HSpec Rat (List Nat) := HSpec.fresh [["A"], ["z"]]
       match specsGetModelMatrix demoEnv2 (.node [("old", specsOfH j1.parts), ("new", .leaf new)]) Overrides.none [] [],
             specGetModelMatrix demoEnv2 new [] [1] with
       | .ok out, .ok (alone, _) =>
         some (sortSet out.dropSet, (flatten out.parts).map (fun p => (p.matrix.rows, p.matrix.cols.map (·.name))),
           alone.matrix.rows, alone.matrix.cols.map (·.name))
       | _, _ => none
     | .error _ => none) =
    some ([1], [([0, 2], ["A[a]", "A[b]"]), ([0, 2], ["A[a]", "A[b]", "z"])], [0, 2], ["A[a]", "z"]) := by
  decide +kernel

/-! ### each part equals its stand-alone build, in the history model -/

section standalone
open FormulaicVerif.Proofs.C07HistEq

/-- C07.13  The central clause of the property for specs in ANY state, in the model of the code's lazy encoder
caches: when the encoded object of a factor depends on (expression, values, drop list) only — not on the encoder
state handed in, nor on the rank when one cache entry serves both ranks (`EncDet`; property C11 proves this cache
transparency for the built-in codings; it is exactly what fails in finding C07-F1, see the witness above) — every part
of a joint call equals what a NEW materializer object builds from the spec at the same position ALONE with the joint
drop list supplied: same drop list, same rows and columns, same recorded structure and terms, for every iteration
order of either call. `hstate`: the part's factors evaluate (kind guard included) under its own transform / encoder
state as under the pooled ones; `hstruct`: recorded structures mention factors of their own terms only. -/
theorem hist_part_eq_standalone (W : HWorld ν τ σ) (hdet : EncDet W) (mc : MatClass) (params : Params)
    (F : Val (HSpec τ σ)) (ov : Overrides) (perm : List String) (caller : List Nat) (j : JointH ν τ σ)
    (h : materializeH W mc params F ov perm caller = .ok j)
    (hstate : ∀ x ∈ flatten (norm F), ∀ e ∈ exprsOf x.core.terms, ∀ v w,
      evalG W (pooledEncL (flatten (norm F))) e (pooledStateL (flatten (norm F))) = .ok (v, w) →
      ∃ w', evalG W (pooledEncL [x]) e (pooledStateL [x]) = .ok (v, w'))
    (hstruct : ∀ x ∈ flatten (norm F), ∀ str, x.core.struct = some str → ∀ s ∈ str, ∀ st ∈ s.sts, ∀ sf ∈ st.factors,
      sf.expr ∈ exprsOf x.core.terms) :
    List.Forall₂ (fun (x : HSpec τ σ) (p : PartH τ σ) => ∀ perm',
        ∃ j', materializeH W mc params (.node [("root", .leaf x)]) ov perm' j.drop = .ok j' ∧ j'.drop = j.drop ∧
          ∃ p', flatten j'.parts = [p'] ∧ p'.matrix = p.matrix ∧ p'.spec.core.struct = p.spec.core.struct ∧
            p'.spec.core.terms = p.spec.core.terms)
      (flatten (norm F)) (flatten j.parts) := by
  obtain ⟨m', hc⟩ := materializeH_core h
  obtain ⟨L, ps, c, hL, _, hev, hdrop, hb, hr, _⟩ := core_spec hc
  obtain ⟨hf, _⟩ := rebuild_flatten (rootLast_norm F) hr
  rw [hf]
  have h1 := mapL_spec _ _ _ hL
  -- the prepared specs carry the terms and the state of the given ones
  have hprep : List.Forall₂ (fun (a b : HSpec τ σ) => b.core = a.core ∧ b.enc = a.enc) (flatten (norm F)) L := by
    refine h1.imp ?_
    intro a b hab
    obtain ⟨_, _, h3, h4, _⟩ := prepareLeaf_spec hab
    exact ⟨by rw [h3]; rfl, by rw [h4]; rfl⟩
  obtain ⟨hps, hpe, hpf⟩ := pooled_congr hprep
  -- the joint evaluation
  rw [evalAllH_eq] at hev
  obtain ⟨hnd, hmemo, hset⟩ := evalAll_empty hev
  have hevok := evalAll_empty_ok hev
  simp only [mem_iterOrder] at hmemo hevok
  have h2 := buildLeaves_sound hdet (cacheSound_empty W j.drop j.memo) hb
  refine forall₂_imp_mem (forall₂_comp h1 h2) ?_
  rintro x p hx _ ⟨x', hx', c1, c2, hc1, hb1⟩ perm'
  apply standalone_of_joint hdet hx' hdrop hnd (fun e v hmem i hi => (hset i).mpr (.inr ⟨e, v, hmem, hi⟩)) hc1 hb1 ?_
    (hstruct x hx) perm'
  intro e he
  have hin : e ∈ pooledFactorsL L := by
    rw [hpf]; exact mem_pooledFactorsL.mpr ⟨x, hx, he⟩
  obtain ⟨v, w, hw, hmem⟩ := hevok e hin
  have hw' : evalG W (pooledEncL L) e (pooledStateL L) = .ok (v, w) := hw
  rw [hps, hpe] at hw'
  obtain ⟨w', hw''⟩ := hstate x hx e he v w hw'
  exact ⟨v, w', hmem, hw''⟩

/-- non-vacuity: the demo encoder reads neither the state handed in nor the rank … -/
example : EncDet demoHW := by
  intro e v d r r' p p' _; rfl

/-- … the categorical encoder of the C07-F1 witness does read the state: `EncDet` fails there -/
example : ¬ EncDet demoHW2 := by
  intro h
  have := h "A" [0, 1, 0] [1] false false none (some [0, 1]) (.inl rfl)
  exact absurd this (by decide +kernel)

/-- a mixed-state instance of the history model: `old` was materialized before (recorded structure, the centring
state it fitted, encoder state, materializer record), `new` is fresh and shares the stateful factor -/
def demoHMixed : Val (HSpec Rat (List Nat)) :=
  .node [("old", .leaf { core := ⟨[["c(x)"]], some [⟨["c(x)"], [⟨[⟨"c(x)", false⟩], 1⟩], ["c(x)"]⟩], [("c(x)", 2)]⟩,
                         enc := [("c(x)", ⟨"numerical", []⟩)], materializer := some "pandas", params := some [],
                         output := some "pandas", efr := true, cluster := false }),
         ("new", .leaf (HSpec.fresh [["z"], ["c(x)"]]))]

example : (materializeH demoHW demoMC [] demoHMixed Overrides.none [] []).toOption.map
      (fun j => (j.drop, (flatten j.parts).map (fun p => (p.matrix.rows, p.matrix.cols.map (·.name), p.spec.enc.map (·.1))))) =
    some ([2], [([0, 1], ["c(x)"], ["c(x)"]), ([0, 1], ["z", "c(x)"], ["z", "c(x)"])]) := by
  decide +kernel

/-- `hstate` holds for it (checked by evaluation, then read back as the hypothesis) … -/
example : ∀ x ∈ flatten (norm demoHMixed), ∀ e ∈ exprsOf x.core.terms, ∀ v w,
    evalG demoHW (pooledEncL (flatten (norm demoHMixed))) e (pooledStateL (flatten (norm demoHMixed))) = .ok (v, w) →
    ∃ w', evalG demoHW (pooledEncL [x]) e (pooledStateL [x]) = .ok (v, w') := by
  have key : (flatten (norm demoHMixed)).all (fun x => (exprsOf x.core.terms).all (fun e =>
      decide ((evalG demoHW (pooledEncL (flatten (norm demoHMixed))) e (pooledStateL (flatten (norm demoHMixed)))).toOption.map (·.1) =
        (evalG demoHW (pooledEncL [x]) e (pooledStateL [x])).toOption.map (·.1)) &&
      (evalG demoHW (pooledEncL [x]) e (pooledStateL [x])).toOption.isSome)) = true := by decide +kernel
  intro x hx e he v w hw
  have hk := List.all_eq_true.mp (List.all_eq_true.mp key x hx) e he
  rw [Bool.and_eq_true] at hk
  obtain ⟨h1, h2⟩ := hk
  have h1' := of_decide_eq_true h1
  cases h3 : evalG demoHW (pooledEncL [x]) e (pooledStateL [x]) with
  | error c => rw [h3] at h2; simp [Except.toOption] at h2
  | ok r =>
    obtain ⟨v', w'⟩ := r
    rw [hw, h3] at h1'
    simp only [Except.toOption, Option.map_some, Option.some.injEq] at h1'
    exact ⟨w', by rw [h1']⟩

end standalone

/-! ### nested formula specifications: the tree the constructors build, and its preservation -/

/-- `Formula(a=("x", "y|z"))`: a tuple of parts under a keyword, one part itself a `|`-structured string — the
constructors build `a: (x, {root: (y, z)})` … -/
example : fromSpec (.kw [("a", .tup [.leaf 0, .str [] [1, 2]])] : FSpec Nat) =
    .ok (.node [("a", .tup [.leaf 0, .node [("root", .tup [.leaf 1, .leaf 2])]])]) := rfl

/-- … a nested structure that only has a non-tuple root collapses (`Formula(a=StructuredFormula(root="x"))` is
`a: x`), a tuple root does not; `Formula(("x",))` keeps its one-element tuple … -/
example : fromSpec (.kw [("a", .kw [("root", .leaf 0)]), ("b", .kw [("root", .tup [.leaf 1, .leaf 2])])] : FSpec Nat) =
    .ok (.node [("a", .leaf 0), ("b", .node [("root", .tup [.leaf 1, .leaf 2])])]) := rfl
example : fromSpec (.tup [.leaf 0] : FSpec Nat) = .ok (.node [("root", .tup [.leaf 0])]) := rfl

/-- … and a structure edited after construction keeps its `root` key FIRST until the next `_map`:
`f = StructuredFormula("x"); f.a = "y|z"` -/
example : fromSpec (.edited (.leaf 0) [("a", .str [] [1, 2])] : FSpec Nat) =
    .ok (.node [("root", .leaf 0), ("a", .node [("root", .tup [.leaf 1, .leaf 2])])]) := rfl

/-- C07.14  Whatever nesting of strings with `~` / `|`, tuples, keywords and later edits a formula specification uses:
when the constructors build the tree `T` from it, the joint build of `T`'s parts and the attached specs have the
shape of `T` after the constructors have run once more (`norm`: `root` keys last) — for every data set, option
setting, caller drop set and iteration order. -/
theorem formula_shape_preserved (fs : FSpec (List MTerm)) (T : Val (List MTerm)) (_hT : fromSpec fs = .ok T)
    (W : World ν τ) (o : Opts) (perm : List String) (caller : List Nat) (j : Joint ν τ)
    (h : materialize W o (mapV (fun ts _ => (Spec.ofTerms ts : Spec τ)) [] T) perm caller = .ok j) :
    shape j.parts = shape (norm T) ∧ shape (specsOf j.parts) = shape (norm T) := by
  obtain ⟨h1, h2, _⟩ := shape_preserved W o _ perm caller j h
  have hn : shape (norm (mapV (fun ts _ => (Spec.ofTerms ts : Spec τ)) [] T)) = shape (norm T) := by
    rw [norm_of_rootLast _ (rootLast_mapV _ _ _), shape_mapV]
  exact ⟨by rw [h1, hn], by rw [h2, hn]⟩

/-- the demo formula `y ~ 1 + c(x) | z`, from its specification: three parts in the tree `lhs: y, rhs: (…, …)`, and the
demo build keeps that shape -/
example : fromSpec (.str [[["y"]]] [[["1"], ["c(x)"]], [["z"]]] : FSpec (List MTerm)) =
    .ok (.node [("lhs", .leaf [["y"]]), ("rhs", .tup [.leaf [["1"], ["c(x)"]], .leaf [["z"]]])]) := rfl

end histories

end FormulaicVerif.Props.C07
