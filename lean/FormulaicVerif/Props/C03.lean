import FormulaicVerif.Proofs.C03
import FormulaicVerif.Proofs.TensorRank
import FormulaicVerif.Proofs.C03Bridge
import FormulaicVerif.Proofs.C03Matrix
import FormulaicVerif.Proofs.C03Codings
import FormulaicVerif.Proofs.C03Order
import FormulaicVerif.Proofs.C03Example
import FormulaicVerif.Proofs.C03Model
import FormulaicVerif.Proofs.C03CrossedMain
import Mathlib.Algebra.Field.Rat
/-! # C03 — Rank reduction yields a structurally full-rank matrix with unchanged span

Property theorems only (helper lemmas: `Proofs/C03.lean`, `Proofs/Scoped.lean`,
`Proofs/ListSort.lean`). They are about the same executable model as C02
(`Model/Materialize.lean`: `getScopedTerms`, `spannedBy`, `simplify`, `ST.eq`, ordered sets), which
the engine `c02` runs against `model_spec.structure` of the real code on every check.

A scoped term is read combinatorially (`Spec/Components.lean`): its *structural components* are all
choices of presence for its optional factors (full coding of an intercept-spanning factor =
`1 ⊕ reduced coding`); a component is the sorted tuple of the factor expressions present. The
matrix is *structurally full rank* when no component is emitted twice, and its span is unchanged
when the emitted components are exactly those of the unreduced matrix.

The bridge from this combinatorial statement to linear algebra is proved (section `bridge`, with
`Proofs/TensorRank.lean` and `Proofs/C03Bridge.lean`, Mathlib single modules): (1) one factor — the full
coding spans `1 ⊕ reduced coding`; (2) a scoped term with full-coded factors spans exactly the sum of
its structural components on a fully crossed design; (3) hence the columns of the structure emitted
with rank reduction on are linearly independent and span what the unreduced structure spans
(`reduced_matrix_full_rank_same_span`).

Section `matrix` carries this down to the `List Rat` columns of the matrix `buildMatrix` emits
(`matrix_columns_are_structure_columns`, `matrix_full_rank_same_span`: any factor cache that holds a fully crossed
design), shows that any coding with `[1 | coding]` invertible — every built-in contrast, from C11 — satisfies the
per-factor hypothesis, and that the spanned space does not depend on the order or clustering of the terms. Section
`crossed` proves the property for the matrix that `Model.Crossed` computes from a design description alone, for EVERY
well-formed design (`crossed_model_full_rank_same_span`), with all hypotheses in executable form
(`certified_design_full_rank_same_span`: the engine evaluates the check for every case of the correspondence). Section
`model` covers what else entered the model with the extension (factors without values, structural identity of scoped
factors / terms, the model's frame, the name templates read from the live package).

Excluded by hypothesis, and reported as a known finding when the generator produces it: printed-name collisions
(`noCollision`; C03-F1). (Level labels that begin with `__` used to lose their column — former finding C03-F2; since
the repair of the library they are ordinary labels, and `Model.flattenDict` no longer hides any key.) -/

namespace FormulaicVerif.Props.C03
open FormulaicVerif.Model FormulaicVerif.Spec FormulaicVerif.Proofs.C03 FormulaicVerif.Proofs.C02
  FormulaicVerif.Proofs.Scoped

/-! ### a concrete instance used by the non-vacuity examples: `0 + A:x + A:B + B` -/

def fmtFull : Fmt := [.name, .lit "[", .field, .lit "]"]
def encCat : Encoded :=
  { val := .dict [(⟨"a", true⟩, [1, 0]), (⟨"b", true⟩, [0, 1])], spansIntercept := true,
    dropField := some ⟨"a", true⟩, reducedMeta := false, fmt := fmtFull, fmtReduced := none }
def encNum : Encoded :=
  { val := .single [3, 5], spansIntercept := false, dropField := none, reducedMeta := false,
    fmt := fmtFull, fmtReduced := none }
def demoCache : Cache :=
  [⟨"A", true, .categorical, true, encCat, encCat⟩, ⟨"B", true, .categorical, true, encCat, encCat⟩,
   ⟨"x", true, .numerical, false, encNum, encNum⟩, ⟨"2", true, .constant 2, false, encNum, encNum⟩]
def demoCfg (efr : Bool) : Config :=
  { cache := demoCache, terms := [["A", "x"], ["2", "A", "B"], ["B"]], ensureFullRank := efr,
    clusterByNumerical := false, variant := .fast, nrows := 2 }
def demoSpans : String → Bool := spansOf demoCache

/-- C03.1  One application of the rule `(anything):(reduced) + (anything) ↦ (anything):(full)`
preserves the multiset of structural components: the recombined term has exactly the components of
the two terms it replaces. -/
theorem merge_preserves_comps (spans : String → Bool) (st e : ST) (f : SF)
    (hst : STWF spans st) (he : STWF spans e) (h : mergeCandidate st e = some f) :
    (comps spans (mkFull f st)).Perm (comps spans st ++ comps spans e) :=
  merge_comps hst he h

/-- non-vacuity: `B-` and `A-:B-` recombine into `A:B-`… here: existing `[B-]`, new `[A-, B-]` -/
example : mergeCandidate ⟨[⟨"A", true⟩, ⟨"B", true⟩], 1⟩ ⟨[⟨"B", true⟩], 1⟩ = some ⟨"A", true⟩ ∧
    comps demoSpans (mkFull ⟨"A", true⟩ ⟨[⟨"A", true⟩, ⟨"B", true⟩], 1⟩) = [["A", "B"], ["B"]] := by
  decide +kernel

/-- C03.2a  `_simplify_scoped_terms` preserves the multiset of structural components of any list of
well-formed scoped terms whose components are pairwise different (which is what `_get_scoped_terms`
feeds it), through every recursion. -/
theorem simplify_preserves_comps (spans : String → Bool) (n : Nat) (sts r : List ST)
    (h : simplify n sts = some r) (hwf : ∀ st ∈ sts, STWF spans st) (hnd : (compsAll spans sts).Nodup) :
    (compsAll spans r).Perm (compsAll spans sts) :=
  (simplify_comps spans n sts r h ⟨hwf, hnd⟩).1

/-- non-vacuity: the span `{B-, A-:B-, A-, 1}` of `A:B` simplifies to the single term `A:B` -/
example : simplify 5 [⟨[⟨"A", true⟩, ⟨"B", true⟩], 1⟩, ⟨[⟨"A", true⟩], 1⟩, ⟨[⟨"B", true⟩], 1⟩, ⟨[], 1⟩] =
      some [⟨[⟨"A", false⟩, ⟨"B", false⟩], 1⟩] ∧
    (compsAll demoSpans [⟨[⟨"A", true⟩, ⟨"B", true⟩], 1⟩, ⟨[⟨"A", true⟩], 1⟩, ⟨[⟨"B", true⟩], 1⟩, ⟨[], 1⟩]).Nodup := by
  decide +kernel

/-- C03.2b  The recursion of `_simplify_scoped_terms` terminates on EVERY input: the model's fuel
`len(scoped_terms) + 1` is always enough, and the result is never longer than the input.
(Measure: the recursive call is made on the accumulated ordered set with one term replaced, which
is strictly shorter than the list being processed.) -/
theorem simplify_fuel_sufficient (sts : List ST) :
    ∃ r, simplify (simplifyFuel sts) sts = some r ∧ r.length ≤ sts.length :=
  simplify_total (simplifyFuel sts) sts (Nat.le_refl _)

/-- C03.3  Structural full rank: for EVERY term list (any subset lattice of interactions, any order,
either clustering, intercept anywhere or absent), with rank reduction on, no structural component
is emitted twice — neither within a term nor across terms.
(`hwf`: a term lists each factor once; `hsc`: no term is scaled by zero.) -/
theorem structurally_full_rank (cfg : Config) (hefr : cfg.ensureFullRank = true)
    (hwf : ∀ t ∈ cfg.terms, t.Nodup)
    (hsc : ∀ t ∈ cfg.terms, ∀ efs, evaledFactors cfg.cache t = .ok efs → literalScale efs ≠ 0)
    (rs : List TermResult) (h : buildStructure cfg = .ok rs) :
    (compsAll (spansOf cfg.cache) (rs.flatMap (·.sts))).Nodup := by
  obtain ⟨terms, scp, hc, hg, hb⟩ := buildStructure_spec h
  have hmem : ∀ t ∈ terms, t ∈ cfg.terms := fun t ht => clusterTerms_mem hc ht
  rw [hefr] at hg
  have hp := getScopedTerms_true hg (by simp) (fun t ht => hwf t (hmem t ht))
    (fun t ht efs he => by rw [scaleOf_eq_literalScale]; exact hsc t (hmem t ht) efs he)
  have hst : rs.flatMap (·.sts) = scp.flatMap (·.2) := by
    rw [← (buildTerms_spec hb).1, List.flatMap_map]
  rw [hst]
  exact hp.nodup_iff.mpr (newKeys_spec cfg.cache terms _ (fun t ht => hwf t (hmem t ht))).1

/-- C03.4  Unchanged span: the structural components emitted with rank reduction on are exactly
the de-duplicated components of the matrix built with rank reduction off (the union of the
downward closures of the terms), for EVERY term list, order and clustering. -/
theorem span_unchanged (cfg : Config) (hefr : cfg.ensureFullRank = true)
    (hwf : ∀ t ∈ cfg.terms, t.Nodup)
    (hsc : ∀ t ∈ cfg.terms, ∀ efs, evaledFactors cfg.cache t = .ok efs → literalScale efs ≠ 0)
    (rs rsFull : List TermResult) (h : buildStructure cfg = .ok rs)
    (hfull : buildStructure { cfg with ensureFullRank := false } = .ok rsFull) :
    (compsAll (spansOf cfg.cache) (rs.flatMap (·.sts))).Perm
      (compsAll (spansOf cfg.cache) (rsFull.flatMap (·.sts))).eraseDups := by
  obtain ⟨terms, scp, hc, hg, hb⟩ := buildStructure_spec h
  obtain ⟨terms', scp', hc', hg', hb'⟩ := buildStructure_spec hfull
  simp only at hc' hg' hb'
  rw [hc] at hc'
  simp only [Except.ok.injEq] at hc'
  subst hc'
  have hmem : ∀ t ∈ terms, t ∈ cfg.terms := fun t ht => clusterTerms_mem hc ht
  have hwf' : ∀ t ∈ terms, t.Nodup := fun t ht => hwf t (hmem t ht)
  rw [hefr] at hg
  have hp := getScopedTerms_true hg (by simp) hwf'
    (fun t ht efs he => by rw [scaleOf_eq_literalScale]; exact hsc t (hmem t ht) efs he)
  have hF := getScopedTerms_false hg' hwf'
  have hst : rs.flatMap (·.sts) = scp.flatMap (·.2) := by
    rw [← (buildTerms_spec hb).1, List.flatMap_map]
  have hst' : rsFull.flatMap (·.sts) = scp'.flatMap (·.2) := by
    rw [← (buildTerms_spec hb').1, List.flatMap_map]
  rw [hst, hst', hF]
  obtain ⟨hnd, hmemk⟩ := newKeys_spec cfg.cache terms (([] : List ST).map key) hwf'
  refine hp.trans ?_
  rw [List.perm_ext_iff_of_nodup hnd (nodup_eraseDups _ _ (Nat.le_refl _))]
  intro k
  rw [hmemk, List.mem_eraseDups]
  simp

/-- non-vacuity: on `0 + A:x + 2:A:B + B` (in this order) all hypotheses hold; the reduced structure
is `[A:x] + [2*A:B] + []` (the term `B` is already spanned), with pairwise different components, and the unreduced one has the
same set of components (with `B` and the empty component repeated) -/
example : (demoCfg true).ensureFullRank = true ∧ (∀ t ∈ (demoCfg true).terms, t.Nodup) ∧
    ((buildStructure (demoCfg true)).toOption.map (fun rs => rs.map (·.sts))) =
      some [[⟨[⟨"A", false⟩, ⟨"x", false⟩], 1⟩], [⟨[⟨"A", false⟩, ⟨"B", false⟩], 2⟩], []] ∧
    ((buildStructure (demoCfg true)).toOption.map
      (fun rs => compsAll demoSpans (rs.flatMap (·.sts)))) = some [["A", "x"], ["x"], ["A", "B"], ["A"], ["B"], []] ∧
    ((buildStructure (demoCfg false)).toOption.map
      (fun rs => compsAll demoSpans (rs.flatMap (·.sts)))) =
      some [["A", "x"], ["x"], ["A", "B"], ["A"], ["B"], [], ["B"], []] := by
  decide +kernel

/-- computable form of the non-zero-scale hypothesis -/
def nonzeroScale (c : Cache) (t : MTerm) : Bool :=
  match evaledFactors c t with
  | .ok efs => literalScale efs != 0
  | .error _ => true

example : ∀ t ∈ (demoCfg true).terms, ∀ efs, evaledFactors demoCache t = .ok efs → literalScale efs ≠ 0 := by
  have hall : ∀ t ∈ (demoCfg true).terms, nonzeroScale demoCache t = true := by decide +kernel
  intro t ht efs he
  have := hall t ht
  simp only [nonzeroScale, he, bne_iff_ne, ne_eq] at this
  exact this

section bridge
open FormulaicVerif.Proofs.TensorRank FormulaicVerif.Proofs.C03Bridge

/-- C03.5  Tensor-rank core of the bridge to linear algebra. Take any number of factors; factor `i` has
levels `L i` and reduced columns `R i j : L i → K`, and `[1 | R i]` (`aug (R i)`) is linearly
independent over the levels of factor `i` (what C11 establishes for every built-in contrast; a
numeric variable taking two distinct values satisfies it with `R = id`). On the FULLY CROSSED
design (rows = all combinations of levels) consider component columns
`row ↦ ∏_{i present} R i (j i) (row i)`, one per structural component (the set of factors present,
`component k`) and choice of reduced column per present factor. Then any family of pairwise
different component/column choices — in particular columns belonging to different structural
components — is linearly independent. With `structurally_full_rank` this is the linear independence
of a matrix all of whose scoped terms are reduced-coded. -/
theorem components_independent {K : Type} [Field K] {n : ℕ} {J L : Fin n → Type}
    (R : (i : Fin n) → J i → (L i → K)) (h : ∀ i, LinearIndependent K (aug (R i)))
    {ι : Type} (c : ι → (i : Fin n) → Option (J i)) (hc : Function.Injective c) :
    LinearIndependent K (fun x => compColumn R (c x)) :=
  (linearIndependent_compColumn R h).comp c hc

/-- treatment coding of a two-level factor: the single reduced column is the indicator of level 1 -/
def demoR : (i : Fin 1) → Unit → (Fin 2 → ℚ) := fun _ _ l => if l = 1 then 1 else 0

/-- non-vacuity: the hypothesis holds for the treatment coding of a two-level factor -/
example : ∀ i, LinearIndependent ℚ (aug (demoR i)) := by
  intro i
  rw [Fintype.linearIndependent_iff]
  intro g hg o
  have h0 := congrFun hg 0
  have h1 := congrFun hg 1
  simp [Fintype.sum_option, aug, demoR] at h0 h1
  cases o with
  | none => exact h0
  | some u => cases u; simpa [h0] using h1

/-- C03.5a  (1) ONE factor with levels `L`: if the reduced coding `R` has one column fewer than there
are levels and the columns of `[1 | R]` are linearly independent — i.e. the square matrix `[1 | coding]`
is invertible, which is what C11 proves for every built-in contrast (`aug_linearIndependent_of_det_ne_zero`
gives the implication from a non-zero determinant) — then the full (dummy, one indicator per level)
coding spans exactly the constant column plus the reduced columns. For the treatment coding the
reduced columns are the indicators of all levels but the reference one, so the statement reads
`span {all indicators} = span 1 ⊔ span {indicators of the non-reference levels}`. -/
theorem full_coding_span_eq_one_sup_reduced {K : Type} [Field K] {J L : Type} [Fintype J] [Fintype L]
    [DecidableEq L] (R : J → (L → K)) (hli : LinearIndependent K (aug R))
    (hcard : Fintype.card J + 1 = Fintype.card L) :
    Submodule.span K (Set.range (fun l : L => (Pi.single l (1 : K) : L → K))) =
      Submodule.span K {fun _ => (1 : K)} ⊔ Submodule.span K (Set.range R) :=
  span_full_eq_one_sup_reduced R hli hcard

/-- non-vacuity: both hypotheses hold for the treatment coding of a two-level factor -/
example : LinearIndependent ℚ (aug (demoR 0)) ∧ Fintype.card Unit + 1 = Fintype.card (Fin 2) := by
  refine ⟨?_, by simp⟩
  rw [Fintype.linearIndependent_iff]
  intro g hg o
  have h0 := congrFun hg 0
  have h1 := congrFun hg 1
  simp [Fintype.sum_option, aug, demoR] at h0 h1
  cases o with
  | none => exact h0
  | some u => cases u; simpa [h0] using h1

/-- C03.5b  (2) A scoped term on a fully crossed design. Factors are the axes `i : Fin n`; factor `i`
has a reduced coding `R i` and a full coding `F i` satisfying `Hyp`: `[1 | R i]` linearly independent,
`F i` linearly independent, `span F i = span [1 | R i]` when the factor spans the intercept (by C03.5a
this holds for the dummy coding against every built-in contrast) and `span F i = span R i` otherwise
(numeric factors). A scoped term is given by its coding flags `code i ∈ {absent, reduced, full}`; its
columns `stFamily R F code` are the row-wise Kronecker (Khatri–Rao) product of its factor blocks.
Then the span of these columns is exactly the sum, over the structural components `S` of the term
(every presence choice for its full-coded intercept-spanning factors), of the spans of the products of
the corresponding REDUCED blocks. -/
theorem scoped_term_span_eq_sum_of_components {K : Type} [Field K] {n : ℕ} {L JR JF : Fin n → Type}
    (R : (i : Fin n) → JR i → (L i → K)) (F : (i : Fin n) → JF i → (L i → K)) (spans : Fin n → Bool)
    (h : Hyp R F spans) (code : Code n) :
    Submodule.span K (Set.range (stFamily R F code)) =
      ⨆ S ∈ compsF spans code, Submodule.span K (Set.range (stFamily R F (redCode S))) :=
  span_stFamily_eq_iSup_components R F spans h code

/-! #### non-vacuity on a two-factor design (`dExpr`, `dR`, `dF` of `Proofs/C03Bridge.lean`): `A`, `B` with two
levels each, treatment coded -/

/-- non-vacuity of C03.5b -/
example : Hyp dR dF (fun i => spansOf demoCache (dExpr i)) := hyp_treatment2 _ (by decide +kernel)

/-- C03.5c  (3) The property on the model's structure. Let `rs` / `rsFull` be the structures
`buildStructure` emits with rank reduction on / off for the same formula, and let a fully crossed
design be given: an injective naming `expr` of its axes that covers every factor of every emitted
scoped term, and codings `R`, `F` of the axes satisfying `Hyp` (with `spans` read from the factor
cache). `structureColumns expr R F E` are the columns of a list `E` of model scoped terms on that
design: for every term and every choice of one column per factor of the term — from `R` when the
factor is flagged reduced, from `F` otherwise — the row-wise product of the chosen columns (this is
what C02's `column_is_product` / `kron_full` say the matrix columns are, up to the non-zero literal
scale). Then the columns emitted with rank reduction ON are linearly independent and span the SAME
space as the columns emitted with rank reduction OFF — for every term list, order and clustering. -/
theorem reduced_matrix_full_rank_same_span (cfg : Config) (hefr : cfg.ensureFullRank = true)
    (hwf : ∀ t ∈ cfg.terms, t.Nodup)
    (hsc : ∀ t ∈ cfg.terms, ∀ efs, evaledFactors cfg.cache t = .ok efs → literalScale efs ≠ 0)
    (rs rsFull : List TermResult) (h : buildStructure cfg = .ok rs)
    (hfull : buildStructure { cfg with ensureFullRank := false } = .ok rsFull)
    {K : Type} [Field K] {n : ℕ} {L JR JF : Fin n → Type}
    (expr : Fin n → String) (hinj : Function.Injective expr)
    (R : (i : Fin n) → JR i → (L i → K)) (F : (i : Fin n) → JF i → (L i → K))
    (hyp : Hyp R F (fun i => spansOf cfg.cache (expr i)))
    (hcov : ∀ st ∈ rs.flatMap (·.sts) ++ rsFull.flatMap (·.sts), ∀ sf ∈ st.factors, ∃ i, expr i = sf.expr) :
    LinearIndependent K (structureColumns expr R F (rs.flatMap (·.sts))) ∧
    Submodule.span K (Set.range (structureColumns expr R F (rs.flatMap (·.sts)))) =
      Submodule.span K (Set.range (structureColumns expr R F (rsFull.flatMap (·.sts)))) := by
  have hfr := structurally_full_rank cfg hefr hwf hsc rs h
  have hsp := span_unchanged cfg hefr hwf hsc rs rsFull h hfull
  obtain ⟨terms, scp, hc, hg, hb⟩ := buildStructure_spec h
  obtain ⟨terms', scp', hc', hg', hb'⟩ := buildStructure_spec hfull
  have hst : rs.flatMap (·.sts) = scp.flatMap (·.2) := by
    rw [← (buildTerms_spec hb).1, List.flatMap_map]
  have hst' : rsFull.flatMap (·.sts) = scp'.flatMap (·.2) := by
    rw [← (buildTerms_spec hb').1, List.flatMap_map]
  have hnd : ∀ st ∈ rs.flatMap (·.sts), ExprNodup st := by
    rw [hst]
    exact getScopedTerms_exprNodup hg (fun t ht => hwf t (clusterTerms_mem hc ht))
  have hnd' : ∀ st ∈ rsFull.flatMap (·.sts), ExprNodup st := by
    rw [hst']
    exact getScopedTerms_exprNodup hg' (fun t ht => hwf t (clusterTerms_mem hc' ht))
  exact FormulaicVerif.Proofs.C03Bridge.model_structure_full_rank_same_span expr cfg.cache R F hinj hyp
    _ _ hnd hnd' (fun st hst => hcov st (List.mem_append_left _ hst))
    (fun st hst => hcov st (List.mem_append_right _ hst)) hfr hsp

/-- the formula `0 + A + A:B` over the two-factor design -/
def demoCfg2 (efr : Bool) : Config :=
  { cache := demoCache, terms := [["A"], ["A", "B"]], ensureFullRank := efr,
    clusterByNumerical := false, variant := .fast, nrows := 4 }

/-- non-vacuity of C03.5c: every hypothesis holds on `0 + A + A:B`, and the theorem applies. -/
example : ∃ rs rsFull, buildStructure (demoCfg2 true) = .ok rs ∧
    buildStructure (demoCfg2 false) = .ok rsFull ∧
    LinearIndependent ℚ (structureColumns dExpr dR dF (rs.flatMap (·.sts))) ∧
    Submodule.span ℚ (Set.range (structureColumns dExpr dR dF (rs.flatMap (·.sts)))) =
      Submodule.span ℚ (Set.range (structureColumns dExpr dR dF (rsFull.flatMap (·.sts)))) := by
  have e1 : ((buildStructure (demoCfg2 true)).toOption.map (fun rs => rs.flatMap (·.sts))) =
      some [⟨[⟨"A", false⟩], 1⟩, ⟨[⟨"A", false⟩, ⟨"B", true⟩], 1⟩] := by decide +kernel
  have e2 : ((buildStructure (demoCfg2 false)).toOption.map (fun rs => rs.flatMap (·.sts))) =
      some [⟨[⟨"A", false⟩], 1⟩, ⟨[⟨"A", false⟩, ⟨"B", false⟩], 1⟩] := by decide +kernel
  cases h1 : (buildStructure (demoCfg2 true)).toOption with
  | none => simp [h1] at e1
  | some rs =>
    cases h2 : (buildStructure (demoCfg2 false)).toOption with
    | none => simp [h2] at e2
    | some rsFull =>
      simp only [h1, h2, Option.map_some, Option.some.injEq] at e1 e2
      have hb1 := ok_of_toOption h1
      have hb2 := ok_of_toOption h2
      refine ⟨rs, rsFull, hb1, hb2, ?_⟩
      have hsc : ∀ t ∈ (demoCfg2 true).terms, ∀ efs, evaledFactors (demoCfg2 true).cache t = .ok efs →
          literalScale efs ≠ 0 := by
        have hall : ∀ t ∈ (demoCfg2 true).terms, nonzeroScale demoCache t = true := by decide +kernel
        intro t ht efs he
        have := hall t ht
        have he' : evaledFactors demoCache t = .ok efs := he
        simp only [nonzeroScale, he', bne_iff_ne, ne_eq] at this
        exact this
      have hinj : Function.Injective dExpr := by
        intro i j hij
        fin_cases i <;> fin_cases j <;> simp_all [dExpr]
      apply reduced_matrix_full_rank_same_span (demoCfg2 true) rfl (by decide) hsc rs rsFull hb1 hb2
        dExpr hinj dR dF (hyp_treatment2 _ (by decide +kernel))
      intro st hst sf hsf
      rw [e1, e2] at hst
      simp only [List.mem_append, List.mem_cons, List.not_mem_nil, or_false] at hst
      have hall : ∀ e ∈ ["A", "B"], ∃ i, dExpr i = e := by
        intro e he
        simp only [List.mem_cons, List.not_mem_nil, or_false] at he
        rcases he with rfl | rfl
        · exact ⟨0, rfl⟩
        · exact ⟨1, rfl⟩
      apply hall
      rcases hst with (rfl | rfl) | (rfl | rfl) <;> simp at hsf <;>
        (try rcases hsf with rfl | rfl) <;> (try subst hsf) <;> simp

end bridge

section matrix
open FormulaicVerif.Proofs.TensorRank FormulaicVerif.Proofs.C03Bridge FormulaicVerif.Proofs.C03Matrix
  FormulaicVerif.Proofs.C03Ref FormulaicVerif.Proofs.C03Codings FormulaicVerif.Proofs.C03Order FormulaicVerif.Spec.C03
  FormulaicVerif.Proofs.C03Example

/-! ### from the structure to the matrix the model emits

`CrossedDesign c nrows k expr tab B row` (`Proofs/C03Matrix.lean`) says that the factor cache `c` holds a fully crossed
design: the axes `i : Fin n` are pairwise different factor expressions `expr i` with `k i` levels; `row r i` is the level of
axis `i` in data row `r` and EVERY combination of levels occurs in some row (`row` surjective — rows may repeat);
`tab i b` is what `_encode_evaled_factor` returns for factor `i` with `reduced_rank = b`, and its `j`-th column is the
function `B i b j` of the level of axis `i` read along the rows. `colVec nrows e` is the `List Rat` column of a matrix
entry as a vector indexed by the rows. `noCollision cfg asDict` (`Spec/MatrixRef.lean`, decidable, computed by the engine
for every case) says that no two columns of one term — for dict-assembled output: of the whole matrix — print to the same
name; without it Python's dictionaries drop columns (known finding C03-F1 is exactly such a case). -/

/-- C03.6  (the bridge that used to be `FULL (unproved)`) The `List Rat` columns of the matrix `buildMatrix` emits ARE the
abstract structure columns of the structure it records: on a fully crossed design without printed-name collisions, every
emitted column is its term's (non-zero) literal scale times a structure column of `rs` read along the data rows, every
structure column occurs, and there are exactly as many. Hence the emitted columns span the structure space read along the
rows, and are linearly independent whenever the structure columns are. -/
theorem matrix_columns_are_structure_columns (cfg : Config) (asDict : Bool) (out : List Entry)
    (h : buildMatrix cfg asDict = .ok out) (hnc : noCollision cfg asDict = true)
    (hwf : ∀ t ∈ cfg.terms, t.Nodup)
    (hsc : ∀ t ∈ cfg.terms, ∀ efs, evaledFactors cfg.cache t = .ok efs → literalScale efs ≠ 0)
    {n : ℕ} (k : Fin n → ℕ) (expr : Fin n → String) (tab : Fin n → Bool → List Item)
    (B : (i : Fin n) → (b : Bool) → Fin (tab i b).length → (Fin (k i) → ℚ))
    (row : Fin cfg.nrows → (i : Fin n) → Fin (k i))
    (hd : CrossedDesign cfg.cache cfg.nrows k expr tab B row)
    (rs : List TermResult) (hrs : buildStructure cfg = .ok rs)
    (hcov : ∀ st ∈ rs.flatMap (·.sts), ∀ sf ∈ st.factors, ∃ i, expr i = sf.expr) :
    Submodule.span ℚ (Set.range (fun a : Fin out.length => colVec cfg.nrows out[a])) =
      (Submodule.span ℚ (Set.range (structureColumns expr (Rd k tab B) (Fd k tab B) (rs.flatMap (·.sts))))).map
        (LinearMap.funLeft ℚ ℚ row) ∧
    (LinearIndependent ℚ (structureColumns expr (Rd k tab B) (Fd k tab B) (rs.flatMap (·.sts))) →
      LinearIndependent ℚ (fun a : Fin out.length => colVec cfg.nrows out[a])) := by
  obtain ⟨rs', hrs', href⟩ := matrix_eq_ref h hnc
  rw [hrs, Except.ok.injEq] at hrs'
  subst hrs'
  exact matrix_columns_linear hd _ (exprNodup_of_structure hrs hwf) hcov (scale_ne_zero_of_structure hrs hsc) href

/-- C03.7  THE PROPERTY on the matrix the model emits. For every term list (any subset lattice of interactions, any
order, either clustering, intercept anywhere or absent, non-zero literal scalings), on data that contain every
combination of levels (`CrossedDesign`), with per-factor codings satisfying `Hyp` (for categorical factors: `[1 | reduced
coding]` invertible — every built-in contrast, C03.8/C03.9 — against a full coding of as many independent columns as
levels; numeric factors: at least two different values), and no printed-name collisions: the columns of the matrix built
with rank reduction ON are linearly independent, and they span the same space as the columns of the matrix built with rank
reduction OFF. -/
theorem matrix_full_rank_same_span (cfg : Config) (hefr : cfg.ensureFullRank = true)
    (hwf : ∀ t ∈ cfg.terms, t.Nodup)
    (hsc : ∀ t ∈ cfg.terms, ∀ efs, evaledFactors cfg.cache t = .ok efs → literalScale efs ≠ 0)
    (asDict : Bool) (out outFull : List Entry) (h : buildMatrix cfg asDict = .ok out)
    (hfull : buildMatrix { cfg with ensureFullRank := false } asDict = .ok outFull)
    (hnc : noCollision cfg asDict = true) (hncF : noCollision { cfg with ensureFullRank := false } asDict = true)
    {n : ℕ} (k : Fin n → ℕ) (expr : Fin n → String) (tab : Fin n → Bool → List Item)
    (B : (i : Fin n) → (b : Bool) → Fin (tab i b).length → (Fin (k i) → ℚ))
    (row : Fin cfg.nrows → (i : Fin n) → Fin (k i))
    (hd : CrossedDesign cfg.cache cfg.nrows k expr tab B row)
    (hyp : Hyp (Rd k tab B) (Fd k tab B) (fun i => spansOf cfg.cache (expr i)))
    (hcov : ∀ rs rsFull, buildStructure cfg = .ok rs → buildStructure { cfg with ensureFullRank := false } = .ok rsFull →
      ∀ st ∈ rs.flatMap (·.sts) ++ rsFull.flatMap (·.sts), ∀ sf ∈ st.factors, ∃ i, expr i = sf.expr) :
    LinearIndependent ℚ (fun a : Fin out.length => colVec cfg.nrows out[a]) ∧
    Submodule.span ℚ (Set.range (fun a : Fin out.length => colVec cfg.nrows out[a])) =
      Submodule.span ℚ (Set.range (fun a : Fin outFull.length => colVec cfg.nrows outFull[a])) := by
  obtain ⟨rs, hrs, _⟩ := matrix_eq_ref h hnc
  obtain ⟨rsFull, hrsFull, _⟩ := matrix_eq_ref hfull hncF
  have hc := hcov rs rsFull hrs hrsFull
  obtain ⟨hli, hspan⟩ := reduced_matrix_full_rank_same_span cfg hefr hwf hsc rs rsFull hrs hrsFull expr hd.expr_inj
    (Rd k tab B) (Fd k tab B) hyp hc
  obtain ⟨s1, l1⟩ := matrix_columns_are_structure_columns cfg asDict out h hnc hwf hsc k expr tab B row hd rs hrs
    (fun st hst => hc st (List.mem_append_left _ hst))
  obtain ⟨s2, _⟩ := matrix_columns_are_structure_columns { cfg with ensureFullRank := false } asDict outFull hfull hncF
    hwf hsc k expr tab B row hd rsFull hrsFull (fun st hst => hc st (List.mem_append_right _ hst))
  refine ⟨l1 hli, ?_⟩
  rw [s1, hspan]
  exact s2.symm

/-- every factor of every emitted scoped term is an axis of the example design -/
def exCovered (rs : List TermResult) : Bool :=
  rs.all (fun r => r.sts.all (fun st => st.factors.all (fun sf => decide (∃ i, exExpr i = sf.expr))))

/-- non-vacuity of C03.6 / C03.7: on the design of `Proofs/C03Example.lean` (computed by the crossed-design model:
`0 + A + 2:A:C(B, contr.sum) + A:x` on 2 × 3 × 2 = 12 rows) EVERY hypothesis holds, and the theorem gives 8 linearly
independent columns spanning the space of the 10 unreduced ones -/
example : ∃ out outFull, buildMatrix (exCfg true) false = .ok out ∧ buildMatrix (exCfg false) false = .ok outFull ∧
    out.length = 8 ∧ outFull.length = 10 ∧
    LinearIndependent ℚ (fun a : Fin out.length => colVec 12 out[a]) ∧
    Submodule.span ℚ (Set.range (fun a : Fin out.length => colVec 12 out[a])) =
      Submodule.span ℚ (Set.range (fun a : Fin outFull.length => colVec 12 outFull[a])) := by
  have hlen : ((buildMatrix (exCfg true) false).toOption.map List.length) = some 8 ∧
      ((buildMatrix (exCfg false) false).toOption.map List.length) = some 10 := by decide +kernel
  cases h1 : buildMatrix (exCfg true) false with
  | error e => simp [h1, Except.toOption] at hlen
  | ok out =>
    cases h2 : buildMatrix (exCfg false) false with
    | error e => simp [h2, Except.toOption] at hlen
    | ok outFull =>
      simp only [h1, h2, Except.toOption, Option.map_some, Option.some.injEq] at hlen
      refine ⟨out, outFull, rfl, rfl, hlen.1, hlen.2, ?_⟩
      have hsc : ∀ t ∈ (exCfg true).terms, ∀ efs, evaledFactors (exCfg true).cache t = .ok efs →
          literalScale efs ≠ 0 := by
        have hall : ∀ t ∈ (exCfg true).terms, nonzeroScale exCache t = true := by decide +kernel
        intro t ht efs he
        have := hall t ht
        have he' : evaledFactors exCache t = .ok efs := he
        simp only [nonzeroScale, he', bne_iff_ne, ne_eq] at this
        exact this
      have hcovB : (match buildStructure (exCfg true), buildStructure (exCfg false) with
          | .ok rs, .ok rsFull => exCovered rs && exCovered rsFull
          | _, _ => false) = true := by decide +kernel
      apply matrix_full_rank_same_span (exCfg true) rfl (by decide) hsc false out outFull h1 h2
        (by decide +kernel) (by decide +kernel) exK exExpr exTab exB exRow exDesign_crossed exDesign_hyp
      intro rs rsFull hrs hrsFull st hst sf hsf
      have hrsF : buildStructure (exCfg false) = .ok rsFull := hrsFull
      simp only [hrs, hrsF, Bool.and_eq_true, exCovered, List.all_eq_true, decide_eq_true_eq] at hcovB
      rcases List.mem_append.mp hst with hst | hst
      · obtain ⟨r, hr, hin⟩ := List.mem_flatMap.mp hst
        exact hcovB.1 r hr st hin sf hsf
      · obtain ⟨r, hr, hin⟩ := List.mem_flatMap.mp hst
        exact hcovB.2 r hr st hin sf hsf

/-! ### every contrast -/

/-- C03.8  ANY coding satisfies the per-factor hypothesis `Hyp` of the bridge: for a factor that spans the intercept it is
enough that `[1 | R]` is linearly independent with one column fewer than there are levels (the square matrix `[1 | coding]` is
invertible) and that the full coding `F` has as many linearly independent columns as there are levels (the dummy coding, but
not only); for any other factor that `[1 | R]` and `F` are independent and span the same space. Nothing else about the
coding matrix is used anywhere in C03.5–C03.7. -/
theorem any_invertible_coding_satisfies_hyp {n : ℕ} {L JR JF : Fin n → Type} [∀ i, Fintype (L i)]
    [∀ i, Fintype (JR i)] [∀ i, Fintype (JF i)]
    (R : (i : Fin n) → JR i → (L i → ℚ)) (F : (i : Fin n) → JF i → (L i → ℚ)) (spans : Fin n → Bool)
    (hR : ∀ i, LinearIndependent ℚ (aug (R i))) (hF : ∀ i, LinearIndependent ℚ (F i))
    (hcat : ∀ i, spans i = true →
      Fintype.card (JR i) + 1 = Fintype.card (L i) ∧ Fintype.card (JF i) = Fintype.card (L i))
    (hnum : ∀ i, spans i = false → Submodule.span ℚ (Set.range (F i)) = Submodule.span ℚ (Set.range (R i))) :
    Hyp R F spans :=
  hyp_of_axes R F spans hR hF hcat hnum

/-- C03.9  EVERY built-in contrast, every number of levels: for treatment / SAS coding with any reference level, sum
coding, Helmert coding (reversed or not, scaled or not), difference coding (backward or forward) and polynomial coding
with pairwise distinct scores, on `m + 1` levels, the constant column together with the `m` columns of the coding matrix
(`Model.Contrasts.coding`, the matrix the model of `transforms/contrasts.py` computes and C11 ties to the code) is
linearly independent — the hypothesis `hR` of C03.8, from C11's `augmented_invertible`. (The polynomial columns of the
code are these columns divided by positive square roots, which changes neither independence nor span.) -/
theorem builtin_contrast_independent (k : FormulaicVerif.Model.Contrasts.Kind) (m : ℕ)
    (hv : FormulaicVerif.Props.C11.Valid k (m + 1)) : LinearIndependent ℚ (aug (builtinR k m)) :=
  builtin_aug_linearIndependent k m hv

/-- non-vacuity of C03.9: Helmert coding on 4 levels, treatment coding with reference level 2 of 5 -/
example : FormulaicVerif.Props.C11.Valid (.helmert true false) (3 + 1) ∧ FormulaicVerif.Props.C11.Valid (.treatment 2) (4 + 1) :=
  ⟨trivial, by show 2 < 5; omega⟩

/-- C03.9b  A numeric variable that takes at least two different values on the design is independent of the constant
column (the hypothesis `hR` of C03.8 for numeric axes; the harness crosses every numeric variable over two primes). -/
theorem numeric_axis_independent {m : ℕ} (v : Fin m → ℚ) (a b : Fin m) (hab : v a ≠ v b) :
    LinearIndependent ℚ (aug (numR v)) :=
  num_aug_linearIndependent v a b hab

example : (fun l : Fin 2 => if l = 0 then (2 : ℚ) else 3) 0 ≠ (fun l : Fin 2 => if l = 0 then (2 : ℚ) else 3) 1 := by
  norm_num

/-! ### every ordering or clustering of the terms -/

/-- C03.10  The structural components emitted with rank reduction on do not depend on the ORDER of the terms nor on the
CLUSTERING: two configurations over the same factor cache whose term lists are permutations of each other (whatever their
`cluster_by`) emit the same components, each exactly once. (Which scoped term carries a component does depend on the
order — the greedy choice — but the set covered does not.) -/
theorem components_order_invariant (cfg cfg' : Config) (hcache : cfg'.cache = cfg.cache)
    (hperm : cfg'.terms.Perm cfg.terms) (hefr : cfg.ensureFullRank = true) (hefr' : cfg'.ensureFullRank = true)
    (hwf : ∀ t ∈ cfg.terms, t.Nodup)
    (hsc : ∀ t ∈ cfg.terms, ∀ efs, evaledFactors cfg.cache t = .ok efs → literalScale efs ≠ 0)
    (rs rs' : List TermResult) (h : buildStructure cfg = .ok rs) (h' : buildStructure cfg' = .ok rs') :
    (compsAll (spansOf cfg.cache) (rs.flatMap (·.sts))).Perm (compsAll (spansOf cfg.cache) (rs'.flatMap (·.sts))) := by
  have hwf' : ∀ t ∈ cfg'.terms, t.Nodup := fun t ht => hwf t (hperm.mem_iff.mp ht)
  have hsc' : ∀ t ∈ cfg'.terms, ∀ efs, evaledFactors cfg'.cache t = .ok efs → literalScale efs ≠ 0 := by
    intro t ht efs he
    rw [hcache] at he
    exact hsc t (hperm.mem_iff.mp ht) efs he
  have h1 := structure_comps hefr hwf hsc h
  have h2 := structure_comps hefr' hwf' hsc' h'
  rw [hcache] at h2
  exact h1.trans ((newKeys_perm hperm hwf').symm.trans h2.symm)

/-- non-vacuity: `0 + A:x + 2:A:B + B` and the reordered `0 + B + A:x + 2:A:B` (clustered by numerical factors) -/
example : ((buildStructure (demoCfg true)).toOption.map (fun rs => compsAll demoSpans (rs.flatMap (·.sts)))) =
      some [["A", "x"], ["x"], ["A", "B"], ["A"], ["B"], []] ∧
    ((buildStructure { demoCfg true with terms := [["B"], ["A", "x"], ["2", "A", "B"]], clusterByNumerical := true }).toOption.map
      (fun rs => compsAll demoSpans (rs.flatMap (·.sts)))) = some [["B"], [], ["A", "B"], ["A"], ["A", "x"], ["x"]] := by
  decide +kernel

/-- C03.11  Hence, on a fully crossed design, the SPACE spanned by the columns of the emitted structure does not depend on
the order or clustering of the terms (both structures have linearly independent columns). -/
theorem structure_span_order_invariant (cfg cfg' : Config) (hcache : cfg'.cache = cfg.cache)
    (hperm : cfg'.terms.Perm cfg.terms) (hefr : cfg.ensureFullRank = true) (hefr' : cfg'.ensureFullRank = true)
    (hwf : ∀ t ∈ cfg.terms, t.Nodup)
    (hsc : ∀ t ∈ cfg.terms, ∀ efs, evaledFactors cfg.cache t = .ok efs → literalScale efs ≠ 0)
    (rs rs' : List TermResult) (h : buildStructure cfg = .ok rs) (h' : buildStructure cfg' = .ok rs')
    {K : Type} [Field K] {n : ℕ} {L JR JF : Fin n → Type}
    (expr : Fin n → String) (hinj : Function.Injective expr)
    (R : (i : Fin n) → JR i → (L i → K)) (F : (i : Fin n) → JF i → (L i → K))
    (hyp : Hyp R F (fun i => spansOf cfg.cache (expr i)))
    (hcov : ∀ st ∈ rs.flatMap (·.sts) ++ rs'.flatMap (·.sts), ∀ sf ∈ st.factors, ∃ i, expr i = sf.expr) :
    Submodule.span K (Set.range (structureColumns expr R F (rs.flatMap (·.sts)))) =
      Submodule.span K (Set.range (structureColumns expr R F (rs'.flatMap (·.sts)))) := by
  have hwf' : ∀ t ∈ cfg'.terms, t.Nodup := fun t ht => hwf t (hperm.mem_iff.mp ht)
  have hsc' : ∀ t ∈ cfg'.terms, ∀ efs, evaledFactors cfg'.cache t = .ok efs → literalScale efs ≠ 0 := by
    intro t ht efs he
    rw [hcache] at he
    exact hsc t (hperm.mem_iff.mp ht) efs he
  have hp := components_order_invariant cfg cfg' hcache hperm hefr hefr' hwf hsc rs rs' h h'
  have hfr := structurally_full_rank cfg hefr hwf hsc rs h
  have hfr' := structurally_full_rank cfg' hefr' hwf' hsc' rs' h'
  rw [hcache] at hfr'
  have hspan : (compsAll (spansOf cfg.cache) (rs.flatMap (·.sts))).Perm
      (compsAll (spansOf cfg.cache) (rs'.flatMap (·.sts))).eraseDups := by
    rw [List.perm_ext_iff_of_nodup hfr (nodup_eraseDups _ _ (Nat.le_refl _))]
    intro x
    rw [List.mem_eraseDups]
    exact hp.mem_iff
  exact (FormulaicVerif.Proofs.C03Bridge.model_structure_full_rank_same_span expr cfg.cache R F hinj hyp _ _
    (exprNodup_of_structure h hwf) (exprNodup_of_structure h' hwf')
    (fun st hst => hcov st (List.mem_append_left _ hst)) (fun st hst => hcov st (List.mem_append_right _ hst))
    hfr hspan).2

/-- C03.12  … and so does the column space of the MATRIX the model emits: reordering or re-clustering the terms changes
which columns are emitted, never the space they span (fully crossed design, no printed-name collisions). -/
theorem matrix_span_order_invariant (cfg cfg' : Config) (hcache : cfg'.cache = cfg.cache) (hrows : cfg'.nrows = cfg.nrows)
    (hperm : cfg'.terms.Perm cfg.terms) (hefr : cfg.ensureFullRank = true) (hefr' : cfg'.ensureFullRank = true)
    (hwf : ∀ t ∈ cfg.terms, t.Nodup)
    (hsc : ∀ t ∈ cfg.terms, ∀ efs, evaledFactors cfg.cache t = .ok efs → literalScale efs ≠ 0)
    (asDict asDict' : Bool) (out out' : List Entry) (h : buildMatrix cfg asDict = .ok out)
    (h' : buildMatrix cfg' asDict' = .ok out')
    (hnc : noCollision cfg asDict = true) (hnc' : noCollision cfg' asDict' = true)
    {n : ℕ} (k : Fin n → ℕ) (expr : Fin n → String) (tab : Fin n → Bool → List Item)
    (B : (i : Fin n) → (b : Bool) → Fin (tab i b).length → (Fin (k i) → ℚ))
    (row : Fin cfg.nrows → (i : Fin n) → Fin (k i))
    (hd : CrossedDesign cfg.cache cfg.nrows k expr tab B row)
    (hyp : Hyp (Rd k tab B) (Fd k tab B) (fun i => spansOf cfg.cache (expr i)))
    (hcov : ∀ rs rs', buildStructure cfg = .ok rs → buildStructure cfg' = .ok rs' →
      ∀ st ∈ rs.flatMap (·.sts) ++ rs'.flatMap (·.sts), ∀ sf ∈ st.factors, ∃ i, expr i = sf.expr) :
    Submodule.span ℚ (Set.range (fun a : Fin out.length => colVec cfg.nrows out[a])) =
      Submodule.span ℚ (Set.range (fun a : Fin out'.length => colVec cfg.nrows out'[a])) := by
  obtain ⟨rs, hrs, _⟩ := matrix_eq_ref h hnc
  obtain ⟨rs', hrs', _⟩ := matrix_eq_ref h' hnc'
  have hc := hcov rs rs' hrs hrs'
  have hwf' : ∀ t ∈ cfg'.terms, t.Nodup := fun t ht => hwf t (hperm.mem_iff.mp ht)
  have hsc' : ∀ t ∈ cfg'.terms, ∀ efs, evaledFactors cfg'.cache t = .ok efs → literalScale efs ≠ 0 := by
    intro t ht efs he
    rw [hcache] at he
    exact hsc t (hperm.mem_iff.mp ht) efs he
  have hspan := structure_span_order_invariant cfg cfg' hcache hperm hefr hefr' hwf hsc rs rs' hrs hrs' expr
    hd.expr_inj (Rd k tab B) (Fd k tab B) hyp hc
  obtain ⟨s1, _⟩ := matrix_columns_are_structure_columns cfg asDict out h hnc hwf hsc k expr tab B row hd rs hrs
    (fun st hst => hc st (List.mem_append_left _ hst))
  -- the second configuration has the same cache and the same rows
  obtain ⟨cache', terms', efr', cl', v', nrows'⟩ := cfg'
  simp only at hcache hrows
  subst hcache hrows
  obtain ⟨s2, _⟩ := matrix_columns_are_structure_columns _ asDict' out' h' hnc' hwf' hsc' k expr tab B row hd rs' hrs'
    (fun st hst => hc st (List.mem_append_right _ hst))
  rw [s1, hspan]
  exact s2.symm

/-- non-vacuity of C03.12: the example design with its terms reversed and clustered by numerical factors -/
example : ∃ out out', buildMatrix (exCfg true) false = .ok out ∧
    buildMatrix { exCfg true with terms := exTerms.reverse, clusterByNumerical := true } true = .ok out' ∧
    Submodule.span ℚ (Set.range (fun a : Fin out.length => colVec 12 out[a])) =
      Submodule.span ℚ (Set.range (fun a : Fin out'.length => colVec 12 out'[a])) := by
  have hok : (buildMatrix (exCfg true) false).toOption.isSome ∧
      (buildMatrix { exCfg true with terms := exTerms.reverse, clusterByNumerical := true } true).toOption.isSome := by
    decide +kernel
  cases h1 : buildMatrix (exCfg true) false with
  | error e => simp [h1, Except.toOption] at hok
  | ok out =>
    cases h2 : buildMatrix { exCfg true with terms := exTerms.reverse, clusterByNumerical := true } true with
    | error e => simp [h2, Except.toOption] at hok
    | ok out' =>
      refine ⟨out, out', rfl, rfl, ?_⟩
      have hsc : ∀ t ∈ (exCfg true).terms, ∀ efs, evaledFactors (exCfg true).cache t = .ok efs →
          literalScale efs ≠ 0 := by
        have hall : ∀ t ∈ (exCfg true).terms, nonzeroScale exCache t = true := by decide +kernel
        intro t ht efs he
        have := hall t ht
        have he' : evaledFactors exCache t = .ok efs := he
        simp only [nonzeroScale, he', bne_iff_ne, ne_eq] at this
        exact this
      have hcovB : (match buildStructure (exCfg true),
            buildStructure { exCfg true with terms := exTerms.reverse, clusterByNumerical := true } with
          | .ok rs, .ok rs' => exCovered rs && exCovered rs'
          | _, _ => false) = true := by decide +kernel
      apply matrix_span_order_invariant (exCfg true)
        { exCfg true with terms := exTerms.reverse, clusterByNumerical := true } rfl rfl
        (by show exTerms.reverse.Perm exTerms; exact List.reverse_perm _) rfl rfl (by decide) hsc false true out out' h1 h2
        (by decide +kernel) (by decide +kernel) exK exExpr exTab exB exRow exDesign_crossed exDesign_hyp
      intro rs rs' hrs hrs' st hst sf hsf
      simp only [hrs, hrs', Bool.and_eq_true, exCovered, List.all_eq_true, decide_eq_true_eq] at hcovB
      rcases List.mem_append.mp hst with hst | hst
      · obtain ⟨r, hr, hin⟩ := List.mem_flatMap.mp hst
        exact hcovB.1 r hr st hin sf hsf
      · obtain ⟨r, hr, hin⟩ := List.mem_flatMap.mp hst
        exact hcovB.2 r hr st hin sf hsf

end matrix

section crossed
open FormulaicVerif.Proofs.TensorRank FormulaicVerif.Proofs.C03Bridge FormulaicVerif.Proofs.C03Matrix
  FormulaicVerif.Proofs.C03Ref FormulaicVerif.Spec.C03 FormulaicVerif.Proofs.C03CrossedMain
  FormulaicVerif.Proofs.C03Cover FormulaicVerif.Spec.C03Check FormulaicVerif.Proofs.C03Example

/-! ### the property for the matrix that the crossed-design model computes from the design description alone

`Model.Crossed.matrix d terms efr cluster asDict` is what the engine runs in the `crossed` correspondence stream: from the
level lists / numeric values of the data columns, the factor specifications (`column`, `C(column, contrast)`, numeric
literal, name bound to `None`) and the term list it computes the frame (`itertools.product`), both encodings of every
factor through the model of `transforms/contrasts.py`, and then `buildMatrix`. `DesignOK d evs`
(`Proofs/C03CrossedMain.lean`) collects what the property presupposes, all of it decidable on a concrete design
(`Spec.C03Check.designOKB`, evaluated by the engine for every case): no two factors share an expression, every axis reads
its own data column (each data variable is encoded by a single factor expression), no data column is empty, numeric columns
take two different values, categorical level labels are pairwise different and are inferred by pandas in the given order
unless declared, the contrast's options fit the levels (base among the levels, polynomial scores pairwise different and as
many as levels), and flattening an encoding loses no column (no two level labels of a factor print alike — e.g. the
string `"1"` next to the integer `1`; labels beginning with `__` are ordinary labels). -/

/-- C03.16  THE PROPERTY, for every design: for EVERY well-formed design description (any number of categorical and
numeric columns, any level counts ≥ 1, every built-in contrast with any valid options, bare columns, literals, names bound
to `None`), every term list without repeated factors and without zero scalings, either clustering and either assembly —
provided no two columns print to the same name — the matrix the model computes with rank reduction ON has linearly
independent columns, and they span the same space as the columns of the matrix computed with rank reduction OFF. -/
theorem crossed_model_full_rank_same_span (d : Crossed.Design) (evs : List Crossed.Evaled) (hok : DesignOK d evs)
    (terms : List MTerm) (cluster asDict : Bool) (hwf : ∀ t ∈ terms, t.Nodup)
    (hsc : ∀ t ∈ terms, ∀ efs, evaledFactors (evs.map (·.ef)) t = .ok efs → literalScale efs ≠ 0)
    (hnc : noCollision (Crossed.configOf d evs terms true cluster) asDict = true)
    (hncF : noCollision (Crossed.configOf d evs terms false cluster) asDict = true)
    (out outFull : List Entry) (h : Crossed.matrix d terms true cluster asDict = .ok out)
    (hfull : Crossed.matrix d terms false cluster asDict = .ok outFull) :
    LinearIndependent ℚ (fun a : Fin out.length => colVec (Crossed.rows d).length out[a]) ∧
    Submodule.span ℚ (Set.range (fun a : Fin out.length => colVec (Crossed.rows d).length out[a])) =
      Submodule.span ℚ (Set.range (fun a : Fin outFull.length => colVec (Crossed.rows d).length outFull[a])) := by
  obtain ⟨n, k, expr, tabl, B, row, hcd, hyp, hcover⟩ := model_cache_is_crossed d evs hok
  have h1 := matrix_ok d evs hok.evals terms true cluster asDict out h
  have h2 := matrix_ok d evs hok.evals terms false cluster asDict outFull hfull
  apply matrix_full_rank_same_span (Crossed.configOf d evs terms true cluster) rfl hwf hsc asDict out outFull h1 h2
    hnc hncF k expr tabl B row hcd hyp
  intro rs rsFull hrs hrsFull st hst sf hsf
  have key : ∀ (cfg : Config), cfg.cache = evs.map (·.ef) → ∀ rs', buildStructure cfg = .ok rs' →
      ∀ st ∈ rs'.flatMap (·.sts), ∀ sf ∈ st.factors, ∃ i, expr i = sf.expr := by
    intro cfg hc rs' hrs' st hst sf hsf
    obtain ⟨f, hf, hp, hd⟩ := structure_factors hrs' st hst sf hsf
    rw [hc] at hf
    obtain ⟨p, hp', he⟩ := data_factor_is_axis d evs hok sf.expr f hf hp hd
    obtain ⟨i, hi⟩ := hcover p hp'
    exact ⟨i, hi.trans he⟩
  rcases List.mem_append.mp hst with hst | hst
  · exact key _ rfl rs hrs st hst sf hsf
  · exact key _ rfl rsFull hrsFull st hst sf hsf

/-- C03.17  The same with every hypothesis in executable form: whenever the check `Spec.C03Check.certified` — which the
engine evaluates for every case of the `crossed` stream — returns `true`, the property holds for the matrices the model
computes. -/
theorem certified_design_full_rank_same_span (d : Crossed.Design) (terms : List MTerm) (cluster asDict : Bool)
    (hcert : certified d terms cluster asDict = true)
    (out outFull : List Entry) (h : Crossed.matrix d terms true cluster asDict = .ok out)
    (hfull : Crossed.matrix d terms false cluster asDict = .ok outFull) :
    LinearIndependent ℚ (fun a : Fin out.length => colVec (Crossed.rows d).length out[a]) ∧
    Submodule.span ℚ (Set.range (fun a : Fin out.length => colVec (Crossed.rows d).length out[a])) =
      Submodule.span ℚ (Set.range (fun a : Fin outFull.length => colVec (Crossed.rows d).length outFull[a])) := by
  unfold certified at hcert
  cases hev : Crossed.evalFactors d d.factors with
  | error e => simp [hev] at hcert
  | ok evs =>
    simp only [hev, Bool.and_eq_true, List.all_eq_true, decide_eq_true_eq] at hcert
    obtain ⟨⟨⟨⟨h1, h2⟩, h3⟩, h4⟩, h5⟩ := hcert
    apply crossed_model_full_rank_same_span d evs (designOK_of_check hev h1) terms cluster asDict h2 ?_ h4 h5 out outFull h hfull
    intro t ht efs he
    have := h3 t ht
    simpa [nonzeroScaleB, he] using this

/-- non-vacuity of C03.16 / C03.17: the design of `Proofs/C03Example.lean` (treatment-coded `A` × `C(B, contr.sum)` on an
undeclared object column × numeric `x`, formula `0 + A + 2:A:C(B, contr.sum) + A:x`) is certified, for both assemblies -/
example : certified exDesign exTerms false false = true ∧ certified exDesign exTerms true true = true := by
  decide +kernel

end crossed

section model
open FormulaicVerif.Proofs.C03Model FormulaicVerif.Model.ScopedOps

/-! ### the parts of the code that entered the model with the extension -/

/-- C03.13  A factor without values (`values.__wrapped__ is None`, e.g. a name bound to `None`) is invisible to the rank
reduction: `_get_scoped_terms` treats a term exactly as the term with those factors left out — the same scoped terms, the
same update of `spanned` (in particular a term all of whose factors lack values yields nothing and spans nothing). -/
theorem valueless_factors_are_ignored (c : Cache) (efr : Bool) (spanned : List ST) (t : MTerm)
    (hget : ∀ e ∈ t, ∃ f, c.get e = .ok f) :
    scopeTerm c efr spanned (t.filter (hasValues c)) = scopeTerm c efr spanned t :=
  scopeTerm_filter c efr spanned t hget

/-- the demo cache with a name `z` bound to `None` -/
def nullCache : Cache := ⟨"z", false, .numerical, false, encNum, encNum⟩ :: demoCache

/-- non-vacuity: `z:A` with `z` bound to `None` is scoped like `A` -/
example : (∀ e ∈ ["z", "A"], ∃ f, Cache.get nullCache e = .ok f) ∧ ["z", "A"].filter (hasValues nullCache) = ["A"] := by
  refine ⟨?_, by decide +kernel⟩
  intro e he
  simp only [List.mem_cons, List.not_mem_nil, or_false] at he
  rcases he with rfl | rfl
  · exact ⟨⟨"z", false, .numerical, false, encNum, encNum⟩, by decide +kernel⟩
  · exact ⟨⟨"A", true, .categorical, true, encCat, encCat⟩, by decide +kernel⟩

/-- C03.14  Identity of scoped factors and scoped terms is STRUCTURAL: two scoped factors are `==` iff they have the same
factor expression and the same reduced flag (never because they PRINT alike: the reduced factor `A` and the full factor
named `A-` both print `A-`), two scoped terms are `==` iff their factor tuples are permutations of each other (the scale is
ignored), anything else is unequal; `==` is symmetric, and equal objects have equal hashes (`hash` is a function of
`hashKey`). -/
theorem scoped_identity_is_structural :
    (∀ a b : SF, pyEq (.sf a) (.sf b) = true ↔ a = b) ∧
    (∀ a b : ST, pyEq (.st a) (.st b) = true ↔ a.factors.Perm b.factors) ∧
    (∀ a b : Obj, pyEq a b = pyEq b a) ∧
    (∀ a b : Obj, pyEq a b = true → hashKey a = hashKey b ∧ (hashKey a).isSome = true) := by
  refine ⟨?_, ?_, pyEq_comm, fun a b h => pyEq_hash h⟩
  · intro a b; simp [pyEq]
  · intro a b; exact FormulaicVerif.Proofs.Sort.ST.eq_iff_perm a b

/-- the printed form does not decide identity: `A` reduced and a factor NAMED `A-` print alike and are different -/
example : reprSF ⟨"A", true⟩ = reprSF ⟨"A-", false⟩ ∧ pyEq (.sf ⟨"A", true⟩) (.sf ⟨"A-", false⟩) = false ∧
    ST.eq ⟨[⟨"A", true⟩], 1⟩ ⟨[⟨"A-", false⟩], 1⟩ = false := by decide +kernel

/-- C03.15  The data frame of the crossed-design model (`Model.Crossed.rows`, `itertools.product` of the level indices of
all columns) contains EVERY combination of levels, each exactly once: a tuple is a row iff it has one entry per column,
each below the number of levels of its column. -/
theorem model_frame_fully_crossed (d : FormulaicVerif.Model.Crossed.Design) :
    (∀ p : List Nat, p ∈ FormulaicVerif.Model.Crossed.rows d ↔
      List.Forall₂ (fun l (col : FormulaicVerif.Model.Crossed.Column) => l < col.size) p d.columns) ∧
    (FormulaicVerif.Model.Crossed.rows d).Nodup :=
  ⟨rows_complete d, rows_nodup d⟩

/-- C03.18  The column-name templates the model of `transforms/contrasts.py` attaches to an encoding
(`get_factor_format`: `FACTOR_FORMAT` / `FACTOR_FORMAT_REDUCED` of the contrast's class) are those of the LIVE package:
`Gen/ContrastsTable.lean` is regenerated from `ContrastsRegistry` on every check; every built-in contrast is registered
there under its `contr.<name>` and its pair of templates is the table's entry for its class. (The defaults of
`FactorValuesMetadata`, used for numeric factors, are read from the generated `Gen/FactorMeta.lean`, and the model's own
template parser turns `{name}[{field}]` into the very segments the translator recorded.) -/
theorem contrast_formats_are_live (c : FormulaicVerif.Model.Contrasts.Contrast) :
    (∃ cls, (registryName c, cls) ∈ FormulaicVerif.Gen.ContrastsTable.registry ∧
      (cls, FormulaicVerif.Model.Contrasts.factorFormat c false,
        FormulaicVerif.Model.Contrasts.factorFormat c true) ∈ FormulaicVerif.Gen.ContrastsTable.formats) ∧
    FormulaicVerif.Model.Crossed.parseFmt "{name}[{field}]" = FormulaicVerif.Gen.defaultFormat :=
  ⟨formats_live c, default_format_parsed⟩

end model

end FormulaicVerif.Props.C03
