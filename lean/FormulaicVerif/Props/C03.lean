import FormulaicVerif.Proofs.C03
import FormulaicVerif.Proofs.TensorRank
import Mathlib.Algebra.Field.Rat
/-! # C03 — Rank reduction yields a structurally full-rank matrix with unchanged span

Property theorems only (helper lemmas: `Proofs/C03.lean`, `Proofs/Scoped.lean`,
`Proofs/ListSort.lean`). They are about the same executable model as C02
(`Model/Materialize.lean`: `getScopedTerms`, `spannedBy`, `simplify`, `ST.eq`, ordered sets), which
the engine `c02` runs against `model_spec.structure` of the real code on every check.

A scoped term is read combinatorially (`Spec/Components.lean`): its *structural components* are all
choices of presence for its optional factors (full coding of an intercept-spanning factor =
`1 ⊕ reduced coding`); a component is the sorted tuple of the factor expressions present. The
matrix is *structurally full rank* when no component is emitted twice, and its span is unchanged
when the emitted components are exactly those of the unreduced matrix.

The bridge from this combinatorial statement to linear algebra is proved only in part
(`components_independent_partial`: on a fully crossed design the columns of pairwise different
component/column choices are jointly linearly independent). The remaining step — a scoped term with
full-coded factors spans exactly the sum of its components — is stated at the end as
`-- FULL (unproved)` and is covered by the numeric rank oracle of `harness/props/c03.py` on every
generated case. -/

namespace FormulaicVerif.Props.C03
open FormulaicVerif.Model FormulaicVerif.Spec FormulaicVerif.Proofs.C03 FormulaicVerif.Proofs.C02
  FormulaicVerif.Proofs.Scoped

/-! ### a concrete instance used by the non-vacuity examples: `0 + A:x + A:B + B` -/

def fmtFull : Fmt := [.name, .lit "[", .field, .lit "]"]
def encCat : Encoded :=
  { val := .dict [(⟨"a", true⟩, [1, 0]), (⟨"b", true⟩, [0, 1])], spansIntercept := true,
    dropField := some ⟨"a", true⟩, reducedMeta := false, fmt := fmtFull, fmtReduced := none }
def encNum : Encoded :=
  { val := .single [3, 5], spansIntercept := false, dropField := none, reducedMeta := false,
    fmt := fmtFull, fmtReduced := none }
def demoCache : Cache :=
  [⟨"A", true, .categorical, true, encCat, encCat⟩, ⟨"B", true, .categorical, true, encCat, encCat⟩,
   ⟨"x", true, .numerical, false, encNum, encNum⟩, ⟨"2", true, .constant 2, false, encNum, encNum⟩]
def demoCfg (efr : Bool) : Config :=
  { cache := demoCache, terms := [["A", "x"], ["2", "A", "B"], ["B"]], ensureFullRank := efr,
    clusterByNumerical := false, variant := .fast, nrows := 2 }
def demoSpans : String → Bool := spansOf demoCache

/-- C03.1  One application of the rule `(anything):(reduced) + (anything) ↦ (anything):(full)`
preserves the multiset of structural components: the recombined term has exactly the components of
the two terms it replaces. -/
theorem merge_preserves_comps (spans : String → Bool) (st e : ST) (f : SF)
    (hst : STWF spans st) (he : STWF spans e) (h : mergeCandidate st e = some f) :
    (comps spans (mkFull f st)).Perm (comps spans st ++ comps spans e) :=
  merge_comps hst he h

/-- non-vacuity: `B-` and `A-:B-` recombine into `A:B-`… here: existing `[B-]`, new `[A-, B-]` -/
example : mergeCandidate ⟨[⟨"A", true⟩, ⟨"B", true⟩], 1⟩ ⟨[⟨"B", true⟩], 1⟩ = some ⟨"A", true⟩ ∧
    comps demoSpans (mkFull ⟨"A", true⟩ ⟨[⟨"A", true⟩, ⟨"B", true⟩], 1⟩) = [["A", "B"], ["B"]] := by
  decide +kernel

/-- C03.2a  `_simplify_scoped_terms` preserves the multiset of structural components of any list of
well-formed scoped terms whose components are pairwise different (which is what `_get_scoped_terms`
feeds it), through every recursion. -/
theorem simplify_preserves_comps (spans : String → Bool) (n : Nat) (sts r : List ST)
    (h : simplify n sts = some r) (hwf : ∀ st ∈ sts, STWF spans st) (hnd : (compsAll spans sts).Nodup) :
    (compsAll spans r).Perm (compsAll spans sts) :=
  (simplify_comps spans n sts r h ⟨hwf, hnd⟩).1

/-- non-vacuity: the span `{B-, A-:B-, A-, 1}` of `A:B` simplifies to the single term `A:B` -/
example : simplify 5 [⟨[⟨"A", true⟩, ⟨"B", true⟩], 1⟩, ⟨[⟨"A", true⟩], 1⟩, ⟨[⟨"B", true⟩], 1⟩, ⟨[], 1⟩] =
      some [⟨[⟨"A", false⟩, ⟨"B", false⟩], 1⟩] ∧
    (compsAll demoSpans [⟨[⟨"A", true⟩, ⟨"B", true⟩], 1⟩, ⟨[⟨"A", true⟩], 1⟩, ⟨[⟨"B", true⟩], 1⟩, ⟨[], 1⟩]).Nodup := by
  decide +kernel

/-- C03.2b  The recursion of `_simplify_scoped_terms` terminates on EVERY input: the model's fuel
`len(scoped_terms) + 1` is always enough, and the result is never longer than the input.
(Measure: the recursive call is made on the accumulated ordered set with one term replaced, which
is strictly shorter than the list being processed.) -/
theorem simplify_fuel_sufficient (sts : List ST) :
    ∃ r, simplify (simplifyFuel sts) sts = some r ∧ r.length ≤ sts.length :=
  simplify_total (simplifyFuel sts) sts (Nat.le_refl _)

/-- C03.3  Structural full rank: for EVERY term list (any subset lattice of interactions, any order,
either clustering, intercept anywhere or absent), with rank reduction on, no structural component
is emitted twice — neither within a term nor across terms.
(`hwf`: a term lists each factor once; `hsc`: no term is scaled by zero.) -/
theorem structurally_full_rank (cfg : Config) (hefr : cfg.ensureFullRank = true)
    (hwf : ∀ t ∈ cfg.terms, t.Nodup)
    (hsc : ∀ t ∈ cfg.terms, ∀ efs, evaledFactors cfg.cache t = .ok efs → literalScale efs ≠ 0)
    (rs : List TermResult) (h : buildStructure cfg = .ok rs) :
    (compsAll (spansOf cfg.cache) (rs.flatMap (·.sts))).Nodup := by
  obtain ⟨terms, scp, hc, hg, hb⟩ := buildStructure_spec h
  have hmem : ∀ t ∈ terms, t ∈ cfg.terms := fun t ht => clusterTerms_mem hc ht
  rw [hefr] at hg
  have hp := getScopedTerms_true hg (by simp) (fun t ht => hwf t (hmem t ht))
    (fun t ht efs he => by rw [scaleOf_eq_literalScale]; exact hsc t (hmem t ht) efs he)
  have hst : rs.flatMap (·.sts) = scp.flatMap (·.2) := by
    rw [← (buildTerms_spec hb).1, List.flatMap_map]
  rw [hst]
  exact hp.nodup_iff.mpr (newKeys_spec cfg.cache terms _ (fun t ht => hwf t (hmem t ht))).1

/-- C03.4  Unchanged span: the structural components emitted with rank reduction on are exactly
the de-duplicated components of the matrix built with rank reduction off (the union of the
downward closures of the terms), for EVERY term list, order and clustering. -/
theorem span_unchanged (cfg : Config) (hefr : cfg.ensureFullRank = true)
    (hwf : ∀ t ∈ cfg.terms, t.Nodup)
    (hsc : ∀ t ∈ cfg.terms, ∀ efs, evaledFactors cfg.cache t = .ok efs → literalScale efs ≠ 0)
    (rs rsFull : List TermResult) (h : buildStructure cfg = .ok rs)
    (hfull : buildStructure { cfg with ensureFullRank := false } = .ok rsFull) :
    (compsAll (spansOf cfg.cache) (rs.flatMap (·.sts))).Perm
      (compsAll (spansOf cfg.cache) (rsFull.flatMap (·.sts))).eraseDups := by
  obtain ⟨terms, scp, hc, hg, hb⟩ := buildStructure_spec h
  obtain ⟨terms', scp', hc', hg', hb'⟩ := buildStructure_spec hfull
  simp only at hc' hg' hb'
  rw [hc] at hc'
  simp only [Except.ok.injEq] at hc'
  subst hc'
  have hmem : ∀ t ∈ terms, t ∈ cfg.terms := fun t ht => clusterTerms_mem hc ht
  have hwf' : ∀ t ∈ terms, t.Nodup := fun t ht => hwf t (hmem t ht)
  rw [hefr] at hg
  have hp := getScopedTerms_true hg (by simp) hwf'
    (fun t ht efs he => by rw [scaleOf_eq_literalScale]; exact hsc t (hmem t ht) efs he)
  have hF := getScopedTerms_false hg' hwf'
  have hst : rs.flatMap (·.sts) = scp.flatMap (·.2) := by
    rw [← (buildTerms_spec hb).1, List.flatMap_map]
  have hst' : rsFull.flatMap (·.sts) = scp'.flatMap (·.2) := by
    rw [← (buildTerms_spec hb').1, List.flatMap_map]
  rw [hst, hst', hF]
  obtain ⟨hnd, hmemk⟩ := newKeys_spec cfg.cache terms (([] : List ST).map key) hwf'
  refine hp.trans ?_
  rw [List.perm_ext_iff_of_nodup hnd (nodup_eraseDups _ _ (Nat.le_refl _))]
  intro k
  rw [hmemk, List.mem_eraseDups]
  simp

/-- non-vacuity: on `0 + A:x + 2:A:B + B` (in this order) all hypotheses hold; the reduced structure
is `[A:x] + [2*A:B] + []` (the term `B` is already spanned), with pairwise different components, and the unreduced one has the
same set of components (with `B` and the empty component repeated) -/
example : (demoCfg true).ensureFullRank = true ∧ (∀ t ∈ (demoCfg true).terms, t.Nodup) ∧
    ((buildStructure (demoCfg true)).toOption.map (fun rs => rs.map (·.sts))) =
      some [[⟨[⟨"A", false⟩, ⟨"x", false⟩], 1⟩], [⟨[⟨"A", false⟩, ⟨"B", false⟩], 2⟩], []] ∧
    ((buildStructure (demoCfg true)).toOption.map
      (fun rs => compsAll demoSpans (rs.flatMap (·.sts)))) = some [["A", "x"], ["x"], ["A", "B"], ["A"], ["B"], []] ∧
    ((buildStructure (demoCfg false)).toOption.map
      (fun rs => compsAll demoSpans (rs.flatMap (·.sts)))) =
      some [["A", "x"], ["x"], ["A", "B"], ["A"], ["B"], [], ["B"], []] := by
  decide +kernel

/-- computable form of the non-zero-scale hypothesis -/
def nonzeroScale (c : Cache) (t : MTerm) : Bool :=
  match evaledFactors c t with
  | .ok efs => literalScale efs != 0
  | .error _ => true

example : ∀ t ∈ (demoCfg true).terms, ∀ efs, evaledFactors demoCache t = .ok efs → literalScale efs ≠ 0 := by
  have hall : ∀ t ∈ (demoCfg true).terms, nonzeroScale demoCache t = true := by decide +kernel
  intro t ht efs he
  have := hall t ht
  simp only [nonzeroScale, he, bne_iff_ne, ne_eq] at this
  exact this

section bridge
open FormulaicVerif.Proofs.TensorRank

/-- C03.5 (partial)  Bridge to linear algebra, first half. Take any number of factors; factor `i` has
levels `L i` and reduced columns `R i j : L i → K`, and `[1 | R i]` (`aug (R i)`) is linearly
independent over the levels of factor `i` (what C11 establishes for every built-in contrast; a
numeric variable taking two distinct values satisfies it with `R = id`). On the FULLY CROSSED
design (rows = all combinations of levels) consider component columns
`row ↦ ∏_{i present} R i (j i) (row i)`, one per structural component (the set of factors present,
`component k`) and choice of reduced column per present factor. Then any family of pairwise
different component/column choices — in particular columns belonging to different structural
components — is linearly independent. With `structurally_full_rank` this is the linear independence
of a matrix all of whose scoped terms are reduced-coded. -/
theorem components_independent_partial {K : Type} [Field K] {n : ℕ} {J L : Fin n → Type}
    (R : (i : Fin n) → J i → (L i → K)) (h : ∀ i, LinearIndependent K (aug (R i)))
    {ι : Type} (c : ι → (i : Fin n) → Option (J i)) (hc : Function.Injective c) :
    LinearIndependent K (fun x => compColumn R (c x)) :=
  (linearIndependent_compColumn R h).comp c hc

/-- treatment coding of a two-level factor: the single reduced column is the indicator of level 1 -/
def demoR : (i : Fin 1) → Unit → (Fin 2 → ℚ) := fun _ _ l => if l = 1 then 1 else 0

/-- non-vacuity: the hypothesis holds for the treatment coding of a two-level factor -/
example : ∀ i, LinearIndependent ℚ (aug (demoR i)) := by
  intro i
  rw [Fintype.linearIndependent_iff]
  intro g hg o
  have h0 := congrFun hg 0
  have h1 := congrFun hg 1
  simp [Fintype.sum_option, aug, demoR] at h0 h1
  cases o with
  | none => exact h0
  | some u => cases u; simpa [h0] using h1

end bridge

-- FULL (unproved): the bridge to linear algebra (`reduced_matrix_full_rank_same_span`).
--   With the hypotheses of `components_independent_partial` and, in addition, `[1 | R i]` a BASIS of the
--   functions on the levels of factor `i` (finitely many levels, one reduced column fewer than levels):
--   (i) the columns emitted for a scoped term (reduced columns for its reduced factors, one indicator
--       per level for its full factors) span exactly the direct sum of the component spaces of its
--       structural components `comps st`, and are as many as the dimension of that sum;
--   (ii) hence, by `structurally_full_rank` (no component twice), `span_unchanged` (same component set as
--       the unreduced matrix) and `components_independent_partial` (component spaces are independent),
--       the reduced matrix has linearly independent columns and the same column space as the unreduced one.
-- Proved: the tensor-rank core (`Proofs/TensorRank.lean`: products of per-axis independent families are
--   independent on the crossed design, any number of axes) and its component form above.
-- Missing: step (i) — the change of basis `span {indicators of f} = span [1 | R f]` multiplied through the
--   other factors of the term, with the dimension count — and therefore (ii). Covered only by the numeric
--   oracle of harness/props/c03.py (numpy.linalg.matrix_rank on fully crossed designs: rank(reduced) =
--   number of columns, rank([reduced | full]) = rank(full) = rank(reduced)), which runs on every generated case.

end FormulaicVerif.Props.C03
