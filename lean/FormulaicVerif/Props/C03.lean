import FormulaicVerif.Proofs.C03
import FormulaicVerif.Proofs.TensorRank
import FormulaicVerif.Proofs.C03Bridge
import Mathlib.Algebra.Field.Rat
/-! # C03 — Rank reduction yields a structurally full-rank matrix with unchanged span

Property theorems only (helper lemmas: `Proofs/C03.lean`, `Proofs/Scoped.lean`,
`Proofs/ListSort.lean`). They are about the same executable model as C02
(`Model/Materialize.lean`: `getScopedTerms`, `spannedBy`, `simplify`, `ST.eq`, ordered sets), which
the engine `c02` runs against `model_spec.structure` of the real code on every check.

A scoped term is read combinatorially (`Spec/Components.lean`): its *structural components* are all
choices of presence for its optional factors (full coding of an intercept-spanning factor =
`1 ⊕ reduced coding`); a component is the sorted tuple of the factor expressions present. The
matrix is *structurally full rank* when no component is emitted twice, and its span is unchanged
when the emitted components are exactly those of the unreduced matrix.

The bridge from this combinatorial statement to linear algebra is proved (section `bridge`, with
`Proofs/TensorRank.lean` and `Proofs/C03Bridge.lean`, Mathlib single modules): (1) one factor — the full
coding spans `1 ⊕ reduced coding`; (2) a scoped term with full-coded factors spans exactly the sum of
its structural components on a fully crossed design; (3) hence the columns of the structure emitted
with rank reduction on are linearly independent and span what the unreduced structure spans
(`reduced_matrix_full_rank_same_span`). What is left as `-- FULL (unproved)` at the end is only the
identification of these structure columns with the `List Rat` Entry columns of `buildMatrix` (C02's
`column_is_product` is the pointwise form of it). -/

namespace FormulaicVerif.Props.C03
open FormulaicVerif.Model FormulaicVerif.Spec FormulaicVerif.Proofs.C03 FormulaicVerif.Proofs.C02
  FormulaicVerif.Proofs.Scoped

/-! ### a concrete instance used by the non-vacuity examples: `0 + A:x + A:B + B` -/

def fmtFull : Fmt := [.name, .lit "[", .field, .lit "]"]
def encCat : Encoded :=
  { val := .dict [(⟨"a", true⟩, [1, 0]), (⟨"b", true⟩, [0, 1])], spansIntercept := true,
    dropField := some ⟨"a", true⟩, reducedMeta := false, fmt := fmtFull, fmtReduced := none }
def encNum : Encoded :=
  { val := .single [3, 5], spansIntercept := false, dropField := none, reducedMeta := false,
    fmt := fmtFull, fmtReduced := none }
def demoCache : Cache :=
  [⟨"A", true, .categorical, true, encCat, encCat⟩, ⟨"B", true, .categorical, true, encCat, encCat⟩,
   ⟨"x", true, .numerical, false, encNum, encNum⟩, ⟨"2", true, .constant 2, false, encNum, encNum⟩]
def demoCfg (efr : Bool) : Config :=
  { cache := demoCache, terms := [["A", "x"], ["2", "A", "B"], ["B"]], ensureFullRank := efr,
    clusterByNumerical := false, variant := .fast, nrows := 2 }
def demoSpans : String → Bool := spansOf demoCache

/-- C03.1  One application of the rule `(anything):(reduced) + (anything) ↦ (anything):(full)`
preserves the multiset of structural components: the recombined term has exactly the components of
the two terms it replaces. -/
theorem merge_preserves_comps (spans : String → Bool) (st e : ST) (f : SF)
    (hst : STWF spans st) (he : STWF spans e) (h : mergeCandidate st e = some f) :
    (comps spans (mkFull f st)).Perm (comps spans st ++ comps spans e) :=
  merge_comps hst he h

/-- non-vacuity: `B-` and `A-:B-` recombine into `A:B-`… here: existing `[B-]`, new `[A-, B-]` -/
example : mergeCandidate ⟨[⟨"A", true⟩, ⟨"B", true⟩], 1⟩ ⟨[⟨"B", true⟩], 1⟩ = some ⟨"A", true⟩ ∧
    comps demoSpans (mkFull ⟨"A", true⟩ ⟨[⟨"A", true⟩, ⟨"B", true⟩], 1⟩) = [["A", "B"], ["B"]] := by
  decide +kernel

/-- C03.2a  `_simplify_scoped_terms` preserves the multiset of structural components of any list of
well-formed scoped terms whose components are pairwise different (which is what `_get_scoped_terms`
feeds it), through every recursion. -/
theorem simplify_preserves_comps (spans : String → Bool) (n : Nat) (sts r : List ST)
    (h : simplify n sts = some r) (hwf : ∀ st ∈ sts, STWF spans st) (hnd : (compsAll spans sts).Nodup) :
    (compsAll spans r).Perm (compsAll spans sts) :=
  (simplify_comps spans n sts r h ⟨hwf, hnd⟩).1

/-- non-vacuity: the span `{B-, A-:B-, A-, 1}` of `A:B` simplifies to the single term `A:B` -/
example : simplify 5 [⟨[⟨"A", true⟩, ⟨"B", true⟩], 1⟩, ⟨[⟨"A", true⟩], 1⟩, ⟨[⟨"B", true⟩], 1⟩, ⟨[], 1⟩] =
      some [⟨[⟨"A", false⟩, ⟨"B", false⟩], 1⟩] ∧
    (compsAll demoSpans [⟨[⟨"A", true⟩, ⟨"B", true⟩], 1⟩, ⟨[⟨"A", true⟩], 1⟩, ⟨[⟨"B", true⟩], 1⟩, ⟨[], 1⟩]).Nodup := by
  decide +kernel

/-- C03.2b  The recursion of `_simplify_scoped_terms` terminates on EVERY input: the model's fuel
`len(scoped_terms) + 1` is always enough, and the result is never longer than the input.
(Measure: the recursive call is made on the accumulated ordered set with one term replaced, which
is strictly shorter than the list being processed.) -/
theorem simplify_fuel_sufficient (sts : List ST) :
    ∃ r, simplify (simplifyFuel sts) sts = some r ∧ r.length ≤ sts.length :=
  simplify_total (simplifyFuel sts) sts (Nat.le_refl _)

/-- C03.3  Structural full rank: for EVERY term list (any subset lattice of interactions, any order,
either clustering, intercept anywhere or absent), with rank reduction on, no structural component
is emitted twice — neither within a term nor across terms.
(`hwf`: a term lists each factor once; `hsc`: no term is scaled by zero.) -/
theorem structurally_full_rank (cfg : Config) (hefr : cfg.ensureFullRank = true)
    (hwf : ∀ t ∈ cfg.terms, t.Nodup)
    (hsc : ∀ t ∈ cfg.terms, ∀ efs, evaledFactors cfg.cache t = .ok efs → literalScale efs ≠ 0)
    (rs : List TermResult) (h : buildStructure cfg = .ok rs) :
    (compsAll (spansOf cfg.cache) (rs.flatMap (·.sts))).Nodup := by
  obtain ⟨terms, scp, hc, hg, hb⟩ := buildStructure_spec h
  have hmem : ∀ t ∈ terms, t ∈ cfg.terms := fun t ht => clusterTerms_mem hc ht
  rw [hefr] at hg
  have hp := getScopedTerms_true hg (by simp) (fun t ht => hwf t (hmem t ht))
    (fun t ht efs he => by rw [scaleOf_eq_literalScale]; exact hsc t (hmem t ht) efs he)
  have hst : rs.flatMap (·.sts) = scp.flatMap (·.2) := by
    rw [← (buildTerms_spec hb).1, List.flatMap_map]
  rw [hst]
  exact hp.nodup_iff.mpr (newKeys_spec cfg.cache terms _ (fun t ht => hwf t (hmem t ht))).1

/-- C03.4  Unchanged span: the structural components emitted with rank reduction on are exactly
the de-duplicated components of the matrix built with rank reduction off (the union of the
downward closures of the terms), for EVERY term list, order and clustering. -/
theorem span_unchanged (cfg : Config) (hefr : cfg.ensureFullRank = true)
    (hwf : ∀ t ∈ cfg.terms, t.Nodup)
    (hsc : ∀ t ∈ cfg.terms, ∀ efs, evaledFactors cfg.cache t = .ok efs → literalScale efs ≠ 0)
    (rs rsFull : List TermResult) (h : buildStructure cfg = .ok rs)
    (hfull : buildStructure { cfg with ensureFullRank := false } = .ok rsFull) :
    (compsAll (spansOf cfg.cache) (rs.flatMap (·.sts))).Perm
      (compsAll (spansOf cfg.cache) (rsFull.flatMap (·.sts))).eraseDups := by
  obtain ⟨terms, scp, hc, hg, hb⟩ := buildStructure_spec h
  obtain ⟨terms', scp', hc', hg', hb'⟩ := buildStructure_spec hfull
  simp only at hc' hg' hb'
  rw [hc] at hc'
  simp only [Except.ok.injEq] at hc'
  subst hc'
  have hmem : ∀ t ∈ terms, t ∈ cfg.terms := fun t ht => clusterTerms_mem hc ht
  have hwf' : ∀ t ∈ terms, t.Nodup := fun t ht => hwf t (hmem t ht)
  rw [hefr] at hg
  have hp := getScopedTerms_true hg (by simp) hwf'
    (fun t ht efs he => by rw [scaleOf_eq_literalScale]; exact hsc t (hmem t ht) efs he)
  have hF := getScopedTerms_false hg' hwf'
  have hst : rs.flatMap (·.sts) = scp.flatMap (·.2) := by
    rw [← (buildTerms_spec hb).1, List.flatMap_map]
  have hst' : rsFull.flatMap (·.sts) = scp'.flatMap (·.2) := by
    rw [← (buildTerms_spec hb').1, List.flatMap_map]
  rw [hst, hst', hF]
  obtain ⟨hnd, hmemk⟩ := newKeys_spec cfg.cache terms (([] : List ST).map key) hwf'
  refine hp.trans ?_
  rw [List.perm_ext_iff_of_nodup hnd (nodup_eraseDups _ _ (Nat.le_refl _))]
  intro k
  rw [hmemk, List.mem_eraseDups]
  simp

/-- non-vacuity: on `0 + A:x + 2:A:B + B` (in this order) all hypotheses hold; the reduced structure
is `[A:x] + [2*A:B] + []` (the term `B` is already spanned), with pairwise different components, and the unreduced one has the
same set of components (with `B` and the empty component repeated) -/
example : (demoCfg true).ensureFullRank = true ∧ (∀ t ∈ (demoCfg true).terms, t.Nodup) ∧
    ((buildStructure (demoCfg true)).toOption.map (fun rs => rs.map (·.sts))) =
      some [[⟨[⟨"A", false⟩, ⟨"x", false⟩], 1⟩], [⟨[⟨"A", false⟩, ⟨"B", false⟩], 2⟩], []] ∧
    ((buildStructure (demoCfg true)).toOption.map
      (fun rs => compsAll demoSpans (rs.flatMap (·.sts)))) = some [["A", "x"], ["x"], ["A", "B"], ["A"], ["B"], []] ∧
    ((buildStructure (demoCfg false)).toOption.map
      (fun rs => compsAll demoSpans (rs.flatMap (·.sts)))) =
      some [["A", "x"], ["x"], ["A", "B"], ["A"], ["B"], [], ["B"], []] := by
  decide +kernel

/-- computable form of the non-zero-scale hypothesis -/
def nonzeroScale (c : Cache) (t : MTerm) : Bool :=
  match evaledFactors c t with
  | .ok efs => literalScale efs != 0
  | .error _ => true

example : ∀ t ∈ (demoCfg true).terms, ∀ efs, evaledFactors demoCache t = .ok efs → literalScale efs ≠ 0 := by
  have hall : ∀ t ∈ (demoCfg true).terms, nonzeroScale demoCache t = true := by decide +kernel
  intro t ht efs he
  have := hall t ht
  simp only [nonzeroScale, he, bne_iff_ne, ne_eq] at this
  exact this

section bridge
open FormulaicVerif.Proofs.TensorRank FormulaicVerif.Proofs.C03Bridge

/-- C03.5  Tensor-rank core of the bridge to linear algebra. Take any number of factors; factor `i` has
levels `L i` and reduced columns `R i j : L i → K`, and `[1 | R i]` (`aug (R i)`) is linearly
independent over the levels of factor `i` (what C11 establishes for every built-in contrast; a
numeric variable taking two distinct values satisfies it with `R = id`). On the FULLY CROSSED
design (rows = all combinations of levels) consider component columns
`row ↦ ∏_{i present} R i (j i) (row i)`, one per structural component (the set of factors present,
`component k`) and choice of reduced column per present factor. Then any family of pairwise
different component/column choices — in particular columns belonging to different structural
components — is linearly independent. With `structurally_full_rank` this is the linear independence
of a matrix all of whose scoped terms are reduced-coded. -/
theorem components_independent {K : Type} [Field K] {n : ℕ} {J L : Fin n → Type}
    (R : (i : Fin n) → J i → (L i → K)) (h : ∀ i, LinearIndependent K (aug (R i)))
    {ι : Type} (c : ι → (i : Fin n) → Option (J i)) (hc : Function.Injective c) :
    LinearIndependent K (fun x => compColumn R (c x)) :=
  (linearIndependent_compColumn R h).comp c hc

/-- treatment coding of a two-level factor: the single reduced column is the indicator of level 1 -/
def demoR : (i : Fin 1) → Unit → (Fin 2 → ℚ) := fun _ _ l => if l = 1 then 1 else 0

/-- non-vacuity: the hypothesis holds for the treatment coding of a two-level factor -/
example : ∀ i, LinearIndependent ℚ (aug (demoR i)) := by
  intro i
  rw [Fintype.linearIndependent_iff]
  intro g hg o
  have h0 := congrFun hg 0
  have h1 := congrFun hg 1
  simp [Fintype.sum_option, aug, demoR] at h0 h1
  cases o with
  | none => exact h0
  | some u => cases u; simpa [h0] using h1

/-- C03.5a  (1) ONE factor with levels `L`: if the reduced coding `R` has one column fewer than there
are levels and the columns of `[1 | R]` are linearly independent — i.e. the square matrix `[1 | coding]`
is invertible, which is what C11 proves for every built-in contrast (`aug_linearIndependent_of_det_ne_zero`
gives the implication from a non-zero determinant) — then the full (dummy, one indicator per level)
coding spans exactly the constant column plus the reduced columns. For the treatment coding the
reduced columns are the indicators of all levels but the reference one, so the statement reads
`span {all indicators} = span 1 ⊔ span {indicators of the non-reference levels}`. -/
theorem full_coding_span_eq_one_sup_reduced {K : Type} [Field K] {J L : Type} [Fintype J] [Fintype L]
    [DecidableEq L] (R : J → (L → K)) (hli : LinearIndependent K (aug R))
    (hcard : Fintype.card J + 1 = Fintype.card L) :
    Submodule.span K (Set.range (fun l : L => (Pi.single l (1 : K) : L → K))) =
      Submodule.span K {fun _ => (1 : K)} ⊔ Submodule.span K (Set.range R) :=
  span_full_eq_one_sup_reduced R hli hcard

/-- non-vacuity: both hypotheses hold for the treatment coding of a two-level factor -/
example : LinearIndependent ℚ (aug (demoR 0)) ∧ Fintype.card Unit + 1 = Fintype.card (Fin 2) := by
  refine ⟨?_, by simp⟩
  rw [Fintype.linearIndependent_iff]
  intro g hg o
  have h0 := congrFun hg 0
  have h1 := congrFun hg 1
  simp [Fintype.sum_option, aug, demoR] at h0 h1
  cases o with
  | none => exact h0
  | some u => cases u; simpa [h0] using h1

/-- C03.5b  (2) A scoped term on a fully crossed design. Factors are the axes `i : Fin n`; factor `i`
has a reduced coding `R i` and a full coding `F i` satisfying `Hyp`: `[1 | R i]` linearly independent,
`F i` linearly independent, `span F i = span [1 | R i]` when the factor spans the intercept (by C03.5a
this holds for the dummy coding against every built-in contrast) and `span F i = span R i` otherwise
(numeric factors). A scoped term is given by its coding flags `code i ∈ {absent, reduced, full}`; its
columns `stFamily R F code` are the row-wise Kronecker (Khatri–Rao) product of its factor blocks.
Then the span of these columns is exactly the sum, over the structural components `S` of the term
(every presence choice for its full-coded intercept-spanning factors), of the spans of the products of
the corresponding REDUCED blocks. -/
theorem scoped_term_span_eq_sum_of_components {K : Type} [Field K] {n : ℕ} {L JR JF : Fin n → Type}
    (R : (i : Fin n) → JR i → (L i → K)) (F : (i : Fin n) → JF i → (L i → K)) (spans : Fin n → Bool)
    (h : Hyp R F spans) (code : Code n) :
    Submodule.span K (Set.range (stFamily R F code)) =
      ⨆ S ∈ compsF spans code, Submodule.span K (Set.range (stFamily R F (redCode S))) :=
  span_stFamily_eq_iSup_components R F spans h code

/-! #### non-vacuity on a two-factor design (`dExpr`, `dR`, `dF` of `Proofs/C03Bridge.lean`): `A`, `B` with two
levels each, treatment coded -/

/-- non-vacuity of C03.5b -/
example : Hyp dR dF (fun i => spansOf demoCache (dExpr i)) := hyp_treatment2 _ (by decide +kernel)

/-- C03.5c  (3) The property on the model's structure. Let `rs` / `rsFull` be the structures
`buildStructure` emits with rank reduction on / off for the same formula, and let a fully crossed
design be given: an injective naming `expr` of its axes that covers every factor of every emitted
scoped term, and codings `R`, `F` of the axes satisfying `Hyp` (with `spans` read from the factor
cache). `structureColumns expr R F E` are the columns of a list `E` of model scoped terms on that
design: for every term and every choice of one column per factor of the term — from `R` when the
factor is flagged reduced, from `F` otherwise — the row-wise product of the chosen columns (this is
what C02's `column_is_product` / `kron_full` say the matrix columns are, up to the non-zero literal
scale). Then the columns emitted with rank reduction ON are linearly independent and span the SAME
space as the columns emitted with rank reduction OFF — for every term list, order and clustering. -/
theorem reduced_matrix_full_rank_same_span (cfg : Config) (hefr : cfg.ensureFullRank = true)
    (hwf : ∀ t ∈ cfg.terms, t.Nodup)
    (hsc : ∀ t ∈ cfg.terms, ∀ efs, evaledFactors cfg.cache t = .ok efs → literalScale efs ≠ 0)
    (rs rsFull : List TermResult) (h : buildStructure cfg = .ok rs)
    (hfull : buildStructure { cfg with ensureFullRank := false } = .ok rsFull)
    {K : Type} [Field K] {n : ℕ} {L JR JF : Fin n → Type}
    (expr : Fin n → String) (hinj : Function.Injective expr)
    (R : (i : Fin n) → JR i → (L i → K)) (F : (i : Fin n) → JF i → (L i → K))
    (hyp : Hyp R F (fun i => spansOf cfg.cache (expr i)))
    (hcov : ∀ st ∈ rs.flatMap (·.sts) ++ rsFull.flatMap (·.sts), ∀ sf ∈ st.factors, ∃ i, expr i = sf.expr) :
    LinearIndependent K (structureColumns expr R F (rs.flatMap (·.sts))) ∧
    Submodule.span K (Set.range (structureColumns expr R F (rs.flatMap (·.sts)))) =
      Submodule.span K (Set.range (structureColumns expr R F (rsFull.flatMap (·.sts)))) := by
  have hfr := structurally_full_rank cfg hefr hwf hsc rs h
  have hsp := span_unchanged cfg hefr hwf hsc rs rsFull h hfull
  obtain ⟨terms, scp, hc, hg, hb⟩ := buildStructure_spec h
  obtain ⟨terms', scp', hc', hg', hb'⟩ := buildStructure_spec hfull
  have hst : rs.flatMap (·.sts) = scp.flatMap (·.2) := by
    rw [← (buildTerms_spec hb).1, List.flatMap_map]
  have hst' : rsFull.flatMap (·.sts) = scp'.flatMap (·.2) := by
    rw [← (buildTerms_spec hb').1, List.flatMap_map]
  have hnd : ∀ st ∈ rs.flatMap (·.sts), ExprNodup st := by
    rw [hst]
    exact getScopedTerms_exprNodup hg (fun t ht => hwf t (clusterTerms_mem hc ht))
  have hnd' : ∀ st ∈ rsFull.flatMap (·.sts), ExprNodup st := by
    rw [hst']
    exact getScopedTerms_exprNodup hg' (fun t ht => hwf t (clusterTerms_mem hc' ht))
  exact FormulaicVerif.Proofs.C03Bridge.model_structure_full_rank_same_span expr cfg.cache R F hinj hyp
    _ _ hnd hnd' (fun st hst => hcov st (List.mem_append_left _ hst))
    (fun st hst => hcov st (List.mem_append_right _ hst)) hfr hsp

/-- the formula `0 + A + A:B` over the two-factor design -/
def demoCfg2 (efr : Bool) : Config :=
  { cache := demoCache, terms := [["A"], ["A", "B"]], ensureFullRank := efr,
    clusterByNumerical := false, variant := .fast, nrows := 4 }

/-- non-vacuity of C03.5c: every hypothesis holds on `0 + A + A:B`, and the theorem applies. -/
example : ∃ rs rsFull, buildStructure (demoCfg2 true) = .ok rs ∧
    buildStructure (demoCfg2 false) = .ok rsFull ∧
    LinearIndependent ℚ (structureColumns dExpr dR dF (rs.flatMap (·.sts))) ∧
    Submodule.span ℚ (Set.range (structureColumns dExpr dR dF (rs.flatMap (·.sts)))) =
      Submodule.span ℚ (Set.range (structureColumns dExpr dR dF (rsFull.flatMap (·.sts)))) := by
  have e1 : ((buildStructure (demoCfg2 true)).toOption.map (fun rs => rs.flatMap (·.sts))) =
      some [⟨[⟨"A", false⟩], 1⟩, ⟨[⟨"A", false⟩, ⟨"B", true⟩], 1⟩] := by decide +kernel
  have e2 : ((buildStructure (demoCfg2 false)).toOption.map (fun rs => rs.flatMap (·.sts))) =
      some [⟨[⟨"A", false⟩], 1⟩, ⟨[⟨"A", false⟩, ⟨"B", false⟩], 1⟩] := by decide +kernel
  cases h1 : (buildStructure (demoCfg2 true)).toOption with
  | none => simp [h1] at e1
  | some rs =>
    cases h2 : (buildStructure (demoCfg2 false)).toOption with
    | none => simp [h2] at e2
    | some rsFull =>
      simp only [h1, h2, Option.map_some, Option.some.injEq] at e1 e2
      have hb1 := ok_of_toOption h1
      have hb2 := ok_of_toOption h2
      refine ⟨rs, rsFull, hb1, hb2, ?_⟩
      have hsc : ∀ t ∈ (demoCfg2 true).terms, ∀ efs, evaledFactors (demoCfg2 true).cache t = .ok efs →
          literalScale efs ≠ 0 := by
        have hall : ∀ t ∈ (demoCfg2 true).terms, nonzeroScale demoCache t = true := by decide +kernel
        intro t ht efs he
        have := hall t ht
        have he' : evaledFactors demoCache t = .ok efs := he
        simp only [nonzeroScale, he', bne_iff_ne, ne_eq] at this
        exact this
      have hinj : Function.Injective dExpr := by
        intro i j hij
        fin_cases i <;> fin_cases j <;> simp_all [dExpr]
      apply reduced_matrix_full_rank_same_span (demoCfg2 true) rfl (by decide) hsc rs rsFull hb1 hb2
        dExpr hinj dR dF (hyp_treatment2 _ (by decide +kernel))
      intro st hst sf hsf
      rw [e1, e2] at hst
      simp only [List.mem_append, List.mem_cons, List.not_mem_nil, or_false] at hst
      have hall : ∀ e ∈ ["A", "B"], ∃ i, dExpr i = e := by
        intro e he
        simp only [List.mem_cons, List.not_mem_nil, or_false] at he
        rcases he with rfl | rfl
        · exact ⟨0, rfl⟩
        · exact ⟨1, rfl⟩
      apply hall
      rcases hst with (rfl | rfl) | (rfl | rfl) <;> simp at hsf <;>
        (try rcases hsf with rfl | rfl) <;> (try subst hsf) <;> simp

end bridge

-- FULL (unproved): `matrix_columns_are_structure_columns` — the identification of `structureColumns` with the Entry
--   columns of `buildMatrix`. `column_is_product` (C02) proves that every Entry column of the model equals,
--   row by row, the non-zero literal scale times the product of the encoded factor columns its label names,
--   and `kron_full` / `entry_provenance` that a term contributes one Entry per choice of one column per
--   factor; `structureColumns` is that same product with the encoded columns read as functions of the
--   factor's level on the crossed design. Stating this as a Lean theorem needs a row enumeration
--   `Fin nrows ≃ Π i, L i`, a bijection between the fields of each encoded factor and `JR i` / `JF i`, and
--   freedom from printed-name collisions (Python dict keys); it is not formalised. The numeric oracle of
--   harness/props/c03.py (matrix_rank on fully crossed designs: rank(reduced) = number of columns,
--   rank([reduced | full]) = rank(full) = rank(reduced)) checks the conclusion on the real matrices on
--   every generated case.

end FormulaicVerif.Props.C03
