import FormulaicVerif.Proofs.C08
import FormulaicVerif.Gen.KindTable
/-! # C08 — Text and categorical columns are dummy-coded; the matrix is always numeric

Property theorems only; helper lemmas are in `Proofs/C08.lean`. The first two theorems are decided
over `Gen.kindTable`, the table that `harness/translate.py` regenerates on every run by applying the
live `_is_categorical` of both materializers (narwhals on a pandas frame and on a pyarrow table) to
one probe series per dtype: the quantifier IS that finite table, and a source change that
reclassifies a dtype changes the statement Lean decides on the next run. -/

namespace FormulaicVerif.Props.C08
open FormulaicVerif.Model FormulaicVerif.Model.Encode FormulaicVerif.Proofs.C08

/-- C08.1a  Every text dtype (object, `str`, `string[*]`, Arrow strings) and every categorical dtype
is classified CATEGORICAL by every materializer. (`decide` over the generated table.) -/
theorem text_and_categorical_are_categorical :
    ∀ r ∈ Gen.kindTable, (r.family = .text ∨ r.family = .categorical) →
      r.pandasKind = .categorical ∧ r.narwhalsKind = .categorical ∧ r.arrowKind = .categorical := by
  decide

/-- C08.1b  Every numeric dtype (and bool) is classified NUMERICAL by every materializer. -/
theorem numeric_is_numerical :
    ∀ r ∈ Gen.kindTable, (r.family = .numeric ∨ r.family = .bool) →
      r.pandasKind = .numerical ∧ r.narwhalsKind = .numerical ∧ r.arrowKind = .numerical := by
  decide

/-- the probe table is not empty and covers all four families (non-vacuity of the two theorems above) -/
example : (Gen.kindTable.any (·.family == .text)) = true ∧ (Gen.kindTable.any (·.family == .categorical)) = true ∧
    (Gen.kindTable.any (·.family == .numeric)) = true ∧ (Gen.kindTable.any (·.family == .bool)) = true ∧
    (Gen.kindTable.all (fun r => r.pandasKind != .error && r.narwhalsKind != .error && r.arrowKind != .error)) = true := by
  decide

/-- C08.2a  Levels of a text column (no declared categories): THE strictly increasing (code-point
order), hence duplicate-free, list whose members are exactly the non-null values — for all value lists. -/
theorem levels_sorted (vals : List (Option String)) :
    (levels vals none).Pairwise (· < ·) ∧
    (∀ s, s ∈ levels vals none ↔ some s ∈ vals) ∧
    (∀ l : List String, l.Pairwise (· < ·) → (∀ s, s ∈ l ↔ some s ∈ vals) → l = levels vals none) := by
  have hmem : ∀ s, s ∈ levels vals none ↔ some s ∈ vals := by
    intro s
    show s ∈ sortDedup (vals.filterMap id) ↔ _
    rw [mem_sortDedup, mem_filterMap_id]
  refine ⟨sortDedup_sorted _, hmem, ?_⟩
  intro l hl hm
  apply sorted_unique l _ hl (sortDedup_sorted _)
  intro x
  rw [hm x]
  exact (hmem x).symm

/-- C08.2b  Levels of a categorical dtype: the declared categories, in declared order, used or not. -/
theorem levels_declared (vals : List (Option String)) (declared : List String) :
    levels vals (some declared) = declared := rfl

/-- C08.2c  The indicator columns appear in level order, one per level (all levels when the factor is
full rank, all but the first when reduced), and are named after their level. -/
theorem dummy_names (name : String) (lvls : List String) (vals : List (Option String)) :
    (dummyCode name lvls vals false).map (·.1) = lvls.map (fun lv => fmtName name lv false) ∧
    (dummyCode name lvls vals true).map (·.1) = (lvls.drop 1).map (fun lv => fmtName name lv true) := by
  simp [dummyCode, List.map_map, Function.comp_def]

/-- C08.2d  Every emitted column of a categorical factor is the indicator of its level: one entry
per row, `1` exactly on the rows holding that level, `0` elsewhere (null rows are all zero). -/
theorem dummy_is_indicator (name : String) (lvls : List String) (vals : List (Option String)) (reduced : Bool)
    (c : OutCol) (hc : c ∈ dummyCode name lvls vals reduced) :
    ∃ lv, lv ∈ lvls ∧ c.1 = fmtName name lv reduced ∧ c.2.length = vals.length ∧
      ∀ i (h : i < vals.length), c.2[i]? = some (if vals[i] = some lv then Cell.num 1 else Cell.num 0) := by
  simp only [dummyCode, List.mem_map] at hc
  obtain ⟨lv, hlv, rfl⟩ := hc
  refine ⟨lv, ?_, rfl, by simp [indicator], ?_⟩
  · cases reduced
    · simpa using hlv
    · exact List.mem_of_mem_drop (i := 1) (by simpa using hlv)
  · intro i h
    simp [indicator, List.getElem?_map, List.getElem?_eq_getElem h]

/-- how a text column is encoded when the table row says CATEGORICAL: sorted distinct retained
non-null values, dummy coded -/
theorem text_column_encoding (tbl : List KindRow) (m : Mat) (mask : List Bool) (reduced : Bool) (c : In)
    (vs : List (Option String)) (r : KindRow) (hc : c.col = .text vs) (hr : lookupRow tbl c.dtype = some r)
    (hf : r.family = .text) (hk : kindFor r m = .categorical) :
    encodeOne tbl m mask reduced c =
      .ok (true, dummyCode c.name (levels (applyMask mask vs) none) (applyMask mask vs) reduced) := by
  simp [encodeOne, hr, hf, hc, Column.family, inferKind, hk, Column.masked, catValues]

/-- how a categorical-dtype column is encoded: declared categories in declared order -/
theorem categorical_column_encoding (tbl : List KindRow) (m : Mat) (mask : List Bool) (reduced : Bool) (c : In)
    (d : List String) (vs : List (Option String)) (r : KindRow) (hc : c.col = .cat d vs)
    (hr : lookupRow tbl c.dtype = some r) (hf : r.family = .categorical) (hk : kindFor r m = .categorical) :
    ∃ vals, encodeOne tbl m mask reduced c = .ok (true, dummyCode c.name d vals reduced) ∧
      vals.length = (applyMask mask vs).length := by
  refine ⟨(applyMask mask vs).map (fun v => v.bind (fun s => if d.contains s then some s else none)), ?_, by simp⟩
  simp [encodeOne, hr, hf, hc, Column.family, inferKind, hk, Column.masked, catValues, levels]

/-- C08.3  Numeric columns pass through unchanged: a numeric-dtype column that the table row calls
NUMERICAL yields exactly one column, named after it, holding the retained input values. -/
theorem numeric_passthrough (tbl : List KindRow) (m : Mat) (mask : List Bool) (reduced : Bool) (c : In)
    (vs : List (Option Rat)) (r : KindRow) (hc : c.col = .num vs) (hr : lookupRow tbl c.dtype = some r)
    (hf : r.family = .numeric) (hk : kindFor r m = .numerical) :
    encodeOne tbl m mask reduced c =
      .ok (false, [(c.name, (applyMask mask vs).map (fun v => match v with | some q => Cell.num q | none => Cell.nan))]) := by
  simp [encodeOne, hr, hf, hc, Column.family, inferKind, hk, Column.masked, passThrough]
  intro a _; rfl

/-- the hypothesis of `cells_numeric`: the table classifies text and categorical dtypes as CATEGORICAL -/
def TableOK (tbl : List KindRow) : Prop :=
  ∀ r ∈ tbl, (r.family = .text ∨ r.family = .categorical) → ∀ m, kindFor r m = .categorical

theorem liveTableOK : TableOK Gen.kindTable := by
  intro r hr hf m
  have h := text_and_categorical_are_categorical r hr hf
  cases m
  · exact h.1
  · exact h.2.1
  · exact h.2.2

private theorem lookupRow_mem {tbl : List KindRow} {d : String} {r : KindRow} (h : lookupRow tbl d = some r) : r ∈ tbl :=
  List.mem_of_find?_eq_some h

private theorem masked_family (mask : List Bool) (c : Column) : (c.masked mask).family = c.family := by
  cases c <;> rfl

private theorem encodeOne_numeric (tbl : List KindRow) (htbl : TableOK tbl) (m : Mat) (mask : List Bool)
    (reduced : Bool) (c : In) (b : Bool) (cols : List OutCol) (h : encodeOne tbl m mask reduced c = .ok (b, cols)) :
    ∀ oc ∈ cols, ∀ x ∈ oc.2, x.isNumber = true := by
  unfold encodeOne at h
  cases hr : lookupRow tbl c.dtype with
  | none => simp [hr] at h
  | some r =>
    simp only [hr] at h
    by_cases hfam : r.family = c.col.family
    · simp only [hfam, ne_eq, not_true_eq_false, if_false] at h
      cases hk : inferKind tbl m c.dtype with
      | error e => simp [hk] at h
      | ok k =>
        simp only [hk] at h
        have hkk : kindFor r m = k := by
          simp only [inferKind, hr] at hk
          cases hkf : kindFor r m <;> simp [hkf] at hk <;> exact hk
        cases k with
        | categorical =>
          simp only at h
          cases hv : catValues (c.col.masked mask) with
          | error e => simp [hv] at h
          | ok p =>
            obtain ⟨vals, decl⟩ := p
            simp only [hv, Except.ok.injEq, Prod.mk.injEq] at h
            obtain ⟨_, rfl⟩ := h
            intro oc hoc x hx
            simp only [dummyCode, List.mem_map] at hoc
            obtain ⟨lv, _, rfl⟩ := hoc
            simp only [indicator, List.mem_map] at hx
            obtain ⟨v, _, rfl⟩ := hx
            split <;> rfl
        | numerical =>
          simp only [Except.ok.injEq, Prod.mk.injEq] at h
          obtain ⟨_, rfl⟩ := h
          have hnot : ¬ (r.family = .text ∨ r.family = .categorical) := by
            intro hf
            have := htbl r (lookupRow_mem hr) hf m
            rw [hkk] at this
            cases this
          intro oc hoc x hx
          simp only [List.mem_singleton] at hoc
          subst hoc
          rw [hfam] at hnot
          cases hcol : c.col with
          | text vs => simp [hcol, Column.family] at hnot
          | cat d vs => simp [hcol, Column.family] at hnot
          | num vs =>
            simp only [hcol, Column.masked, passThrough, List.mem_map] at hx
            obtain ⟨v, _, rfl⟩ := hx
            cases v <;> rfl
          | bool vs =>
            simp only [hcol, Column.masked, passThrough, List.mem_map] at hx
            obtain ⟨v, _, rfl⟩ := hx
            cases v <;> rfl
        | error =>
          simp only [Except.ok.injEq, Prod.mk.injEq] at h
          obtain ⟨_, rfl⟩ := h
          simp only [inferKind, hr] at hk
          cases hkf : kindFor r m <;> simp [hkf] at hk
    · simp [hfam] at h

private theorem buildCols_numeric (tbl : List KindRow) (htbl : TableOK tbl) (m : Mat) (efr : Bool) (mask : List Bool) :
    ∀ (ins : List In) (sp : Bool) (M : List OutCol), buildCols tbl m efr mask sp ins = .ok M →
      ∀ oc ∈ M, ∀ x ∈ oc.2, x.isNumber = true
  | [], _, M, h => by
    simp only [buildCols, Except.ok.injEq] at h
    subst h
    intro oc hoc; cases hoc
  | c :: rest, sp, M, h => by
    simp only [buildCols] at h
    cases h1 : encodeOne tbl m mask (efr && sp) c with
    | error e => simp [h1] at h
    | ok p =>
      obtain ⟨isCat, cols⟩ := p
      simp only [h1] at h
      cases h2 : buildCols tbl m efr mask (sp || isCat) rest with
      | error e => simp [h2] at h
      | ok more =>
        simp only [h2, Except.ok.injEq] at h
        subst h
        intro oc hoc
        rcases List.mem_append.mp hoc with hoc | hoc
        · exact encodeOne_numeric tbl htbl m mask _ c isCat cols h1 oc hoc
        · exact buildCols_numeric tbl htbl m efr mask rest _ more h2 oc hoc

/-- C08.4  Every cell of every model matrix is a number — for every frame, every formula of main
effects, every null policy and every materializer — provided the kind table classifies the text and
categorical dtypes as CATEGORICAL (categorical cells are 0/1, numeric cells are the inputs, the
intercept is 1). -/
theorem cells_numeric (tbl : List KindRow) (htbl : TableOK tbl) (m : Mat) (o : Opts) (nrows : Nat)
    (ins : List In) (M : List OutCol) (h : build tbl m o nrows ins = .ok M) :
    ∀ oc ∈ M, ∀ x ∈ oc.2, x.isNumber = true := by
  unfold build at h
  cases hm : keepMask o.na nrows (ins.map (·.col)) with
  | error e => simp [hm] at h
  | ok mask =>
    simp only [hm] at h
    cases hb : buildCols tbl m o.efr mask o.intercept ins with
    | error e => simp [hb] at h
    | ok body =>
      simp only [hb, Except.ok.injEq] at h
      subst h
      intro oc hoc
      rcases List.mem_append.mp hoc with hoc | hoc
      · split at hoc
        · simp only [List.mem_singleton] at hoc
          subst hoc
          intro x hx
          rw [List.mem_replicate] at hx
          rw [hx.2]; rfl
        · cases hoc
      · exact buildCols_numeric tbl htbl m o.efr mask ins _ body hb oc hoc

/-- C08.4 for the live table: with the `_is_categorical` of the current source tree every cell is a number. -/
theorem cells_numeric_live (m : Mat) (o : Opts) (nrows : Nat) (ins : List In) (M : List OutCol)
    (h : build Gen.kindTable m o nrows ins = .ok M) : ∀ oc ∈ M, ∀ x ∈ oc.2, x.isNumber = true :=
  cells_numeric Gen.kindTable liveTableOK m o nrows ins M h

/-- non-vacuity: a frame with a `str` text column (levels found sorted, `b` unused after the null row is
dropped), a categorical column with an unused declared level in non-sorted order and a float column
builds, under every materializer, the expected numeric matrix -/
example : ∀ m : Mat,
    build Gen.kindTable m ⟨true, true, .drop⟩ 4
      [⟨"A", "str", .text [some "c", some "a", none, some "c"]⟩,
       ⟨"B", "category", .cat ["z", "y", "x"] [some "y", some "z", some "y", some "y"]⟩,
       ⟨"a", "float64", .num [some 1, some 7, some 3, some (-1)]⟩]
    = .ok [("Intercept", [.num 1, .num 1, .num 1]),
           ("A[T.c]", [.num 1, .num 0, .num 1]),
           ("B[T.y]", [.num 1, .num 0, .num 1]), ("B[T.x]", [.num 0, .num 0, .num 0]),
           ("a", [.num 1, .num 7, .num (-1)])] := by
  intro m; cases m <;> decide

/-- negative witness: the hypothesis `TableOK` is not decoration. With a table that calls a text dtype
NUMERICAL (what `PandasMaterializer._is_categorical` did for the pandas-3 `str` dtype) the raw strings
reach the matrix. -/
example : build [⟨"str", .text, .numerical, .categorical, .categorical⟩] .pandas ⟨false, true, .drop⟩ 1
      [⟨"A", "str", .text [some "x"]⟩] = .ok [("A", [.str "x"])] := by
  decide

end FormulaicVerif.Props.C08
