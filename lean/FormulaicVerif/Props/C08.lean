import FormulaicVerif.Proofs.C08
import FormulaicVerif.Proofs.C08Levels
import FormulaicVerif.Proofs.C08Hist
import FormulaicVerif.Proofs.C08Dtypes
import FormulaicVerif.Proofs.C08Spec
import FormulaicVerif.Gen.KindTable
import FormulaicVerif.Gen.DtypeTable
import FormulaicVerif.Gen.FactorFormats
import FormulaicVerif.Gen.Names
/-! # C08 — Text and categorical columns are dummy-coded; the matrix is always numeric

Property theorems only; helper lemmas are in `Proofs/C08.lean`. The first two theorems are decided
over `Gen.kindTable`, the table that `harness/translate.py` regenerates on every run by applying the
live `_is_categorical` of both materializers (narwhals on a pandas frame and on a pyarrow table) to
one probe series per dtype: the quantifier IS that finite table, and a source change that
reclassifies a dtype changes the statement Lean decides on the next run. -/

namespace FormulaicVerif.Props.C08
open FormulaicVerif.Model FormulaicVerif.Model.Encode FormulaicVerif.Proofs.C08

/-- C08.1a  Every text dtype (object, `str`, `string[*]`, Arrow strings) and every categorical dtype
is classified CATEGORICAL by every materializer. (`decide` over the generated table.) -/
theorem text_and_categorical_are_categorical :
    ∀ r ∈ Gen.kindTable, (r.family = .text ∨ r.family = .categorical) →
      r.pandasKind = .categorical ∧ r.narwhalsKind = .categorical ∧ r.arrowKind = .categorical := by
  decide

/-- C08.1b  Every numeric dtype (and bool) is classified NUMERICAL by every materializer. -/
theorem numeric_is_numerical :
    ∀ r ∈ Gen.kindTable, (r.family = .numeric ∨ r.family = .bool) →
      r.pandasKind = .numerical ∧ r.narwhalsKind = .numerical ∧ r.arrowKind = .numerical := by
  decide

/-- the probe table is not empty and covers all four families (non-vacuity of the two theorems above) -/
example : (Gen.kindTable.any (·.family == .text)) = true ∧ (Gen.kindTable.any (·.family == .categorical)) = true ∧
    (Gen.kindTable.any (·.family == .numeric)) = true ∧ (Gen.kindTable.any (·.family == .bool)) = true ∧
    (Gen.kindTable.all (fun r => r.pandasKind != .error && r.narwhalsKind != .error && r.arrowKind != .error)) = true := by
  decide

/-- the probe table contains pandas' Arrow-backed dtypes (a dictionary of strings / of integers -- the Arrow-backed
categorical --, Arrow binary, the Arrow string view), and each of them is CATEGORICAL on every route -/
example : ["arrow:dictionary[string]", "arrow:dictionary[large_string]", "arrow:dictionary[int64]", "arrow:binary",
      "arrow:string_view"].all (fun l => (lookupRow Gen.kindTable l).any (fun r =>
        (r.family == .text || r.family == .categorical) && r.pandasKind == .categorical && r.narwhalsKind == .categorical &&
          r.arrowKind == .categorical)) = true := by
  decide

/-- C08.2a  Levels of a text column (no declared categories): THE strictly increasing (code-point
order), hence duplicate-free, list whose members are exactly the non-null values — for all value lists. -/
theorem levels_sorted (vals : List (Option String)) :
    (levels vals none).Pairwise (· < ·) ∧
    (∀ s, s ∈ levels vals none ↔ some s ∈ vals) ∧
    (∀ l : List String, l.Pairwise (· < ·) → (∀ s, s ∈ l ↔ some s ∈ vals) → l = levels vals none) := by
  have hmem : ∀ s, s ∈ levels vals none ↔ some s ∈ vals := by
    intro s
    show s ∈ sortDedup (vals.filterMap id) ↔ _
    rw [mem_sortDedup, mem_filterMap_id]
  refine ⟨sortDedup_sorted _, hmem, ?_⟩
  intro l hl hm
  apply sorted_unique l _ hl (sortDedup_sorted _)
  intro x
  rw [hm x]
  exact (hmem x).symm

/-- C08.2b  Levels of a categorical dtype: the declared categories, in declared order, used or not. -/
theorem levels_declared (vals : List (Option String)) (declared : List String) :
    levels vals (some declared) = declared := rfl

/-- C08.2c  The indicator columns appear in level order, one per level (all levels when the factor is
full rank, all but the first when reduced), and are named after their level. -/
theorem dummy_names (name : String) (lvls : List String) (vals : List (Option String)) :
    (dummyCode name lvls vals false).map (·.1) = lvls.map (fun lv => fmtName name lv false) ∧
    (dummyCode name lvls vals true).map (·.1) = (lvls.drop 1).map (fun lv => fmtName name lv true) := by
  simp [dummyCode, List.map_map, Function.comp_def]

/-- C08.2d  Every emitted column of a categorical factor is the indicator of its level: one entry
per row, `1` exactly on the rows holding that level, `0` elsewhere (null rows are all zero). -/
theorem dummy_is_indicator (name : String) (lvls : List String) (vals : List (Option String)) (reduced : Bool)
    (c : OutCol) (hc : c ∈ dummyCode name lvls vals reduced) :
    ∃ lv, lv ∈ lvls ∧ c.1 = fmtName name lv reduced ∧ c.2.length = vals.length ∧
      ∀ i (h : i < vals.length), c.2[i]? = some (if vals[i] = some lv then Cell.num 1 else Cell.num 0) := by
  simp only [dummyCode, List.mem_map] at hc
  obtain ⟨lv, hlv, rfl⟩ := hc
  refine ⟨lv, ?_, rfl, by simp [indicator], ?_⟩
  · cases reduced
    · simpa using hlv
    · exact List.mem_of_mem_drop (i := 1) (by simpa using hlv)
  · intro i h
    simp [indicator, List.getElem?_map, List.getElem?_eq_getElem h]

/-- how a text column is encoded when the table row says CATEGORICAL: sorted distinct retained
non-null values, dummy coded -/
theorem text_column_encoding (tbl : List KindRow) (m : Mat) (mask : List Bool) (reduced : Bool) (c : In)
    (vs : List (Option String)) (r : KindRow) (hc : c.col = .text vs) (hr : lookupRow tbl c.dtype = some r)
    (hf : r.family = .text) (hk : kindFor r m = .categorical) :
    encodeOne tbl m mask reduced c =
      .ok (true, dummyCode c.name (levels (applyMask mask vs) none) (applyMask mask vs) reduced) := by
  simp [encodeOne, hr, hf, hc, Column.family, inferKind, hk, Column.masked, catValues]

/-- how a categorical-dtype column is encoded: declared categories in declared order -/
theorem categorical_column_encoding (tbl : List KindRow) (m : Mat) (mask : List Bool) (reduced : Bool) (c : In)
    (d : List String) (vs : List (Option String)) (r : KindRow) (hc : c.col = .cat d vs)
    (hr : lookupRow tbl c.dtype = some r) (hf : r.family = .categorical) (hk : kindFor r m = .categorical) :
    ∃ vals, encodeOne tbl m mask reduced c = .ok (true, dummyCode c.name d vals reduced) ∧
      vals.length = (applyMask mask vs).length := by
  refine ⟨(applyMask mask vs).map (fun v => v.bind (fun s => if d.contains s then some s else none)), ?_, by simp⟩
  simp [encodeOne, hr, hf, hc, Column.family, inferKind, hk, Column.masked, catValues, levels]

/-- C08.3  Numeric columns pass through unchanged: a numeric-dtype column that the table row calls
NUMERICAL yields exactly one column, named after it, holding the retained input values. -/
theorem numeric_passthrough (tbl : List KindRow) (m : Mat) (mask : List Bool) (reduced : Bool) (c : In)
    (vs : List (Option Rat)) (r : KindRow) (hc : c.col = .num vs) (hr : lookupRow tbl c.dtype = some r)
    (hf : r.family = .numeric) (hk : kindFor r m = .numerical) :
    encodeOne tbl m mask reduced c =
      .ok (false, [(c.name, (applyMask mask vs).map (fun v => match v with | some q => Cell.num q | none => Cell.nan))]) := by
  simp [encodeOne, hr, hf, hc, Column.family, inferKind, hk, Column.masked, passThrough]
  intro a _; rfl

/-- the hypothesis of `cells_numeric`: the table classifies text and categorical dtypes as CATEGORICAL -/
def TableOK (tbl : List KindRow) : Prop :=
  ∀ r ∈ tbl, (r.family = .text ∨ r.family = .categorical) → ∀ m, kindFor r m = .categorical

theorem liveTableOK : TableOK Gen.kindTable := by
  intro r hr hf m
  have h := text_and_categorical_are_categorical r hr hf
  cases m
  · exact h.1
  · exact h.2.1
  · exact h.2.2

private theorem lookupRow_mem {tbl : List KindRow} {d : String} {r : KindRow} (h : lookupRow tbl d = some r) : r ∈ tbl :=
  List.mem_of_find?_eq_some h

private theorem masked_family (mask : List Bool) (c : Column) : (c.masked mask).family = c.family := by
  cases c <;> rfl

private theorem encodeOne_numeric (tbl : List KindRow) (htbl : TableOK tbl) (m : Mat) (mask : List Bool)
    (reduced : Bool) (c : In) (b : Bool) (cols : List OutCol) (h : encodeOne tbl m mask reduced c = .ok (b, cols)) :
    ∀ oc ∈ cols, ∀ x ∈ oc.2, x.isNumber = true := by
  unfold encodeOne at h
  cases hr : lookupRow tbl c.dtype with
  | none => simp [hr] at h
  | some r =>
    simp only [hr] at h
    by_cases hfam : r.family = c.col.family
    · simp only [hfam, ne_eq, not_true_eq_false, if_false] at h
      cases hk : inferKind tbl m c.dtype with
      | error e => simp [hk] at h
      | ok k =>
        simp only [hk] at h
        have hkk : kindFor r m = k := by
          simp only [inferKind, hr] at hk
          cases hkf : kindFor r m <;> simp [hkf] at hk <;> exact hk
        cases k with
        | categorical =>
          simp only at h
          cases hv : catValues (c.col.masked mask) with
          | error e => simp [hv] at h
          | ok p =>
            obtain ⟨vals, decl⟩ := p
            simp only [hv, Except.ok.injEq, Prod.mk.injEq] at h
            obtain ⟨_, rfl⟩ := h
            intro oc hoc x hx
            simp only [dummyCode, List.mem_map] at hoc
            obtain ⟨lv, _, rfl⟩ := hoc
            simp only [indicator, List.mem_map] at hx
            obtain ⟨v, _, rfl⟩ := hx
            split <;> rfl
        | numerical =>
          simp only [Except.ok.injEq, Prod.mk.injEq] at h
          obtain ⟨_, rfl⟩ := h
          have hnot : ¬ (r.family = .text ∨ r.family = .categorical) := by
            intro hf
            have := htbl r (lookupRow_mem hr) hf m
            rw [hkk] at this
            cases this
          intro oc hoc x hx
          simp only [List.mem_singleton] at hoc
          subst hoc
          rw [hfam] at hnot
          cases hcol : c.col with
          | text vs => simp [hcol, Column.family] at hnot
          | cat d vs => simp [hcol, Column.family] at hnot
          | num vs =>
            simp only [hcol, Column.masked, passThrough, List.mem_map] at hx
            obtain ⟨v, _, rfl⟩ := hx
            cases v <;> rfl
          | bool vs =>
            simp only [hcol, Column.masked, passThrough, List.mem_map] at hx
            obtain ⟨v, _, rfl⟩ := hx
            cases v <;> rfl
        | error =>
          simp only [Except.ok.injEq, Prod.mk.injEq] at h
          obtain ⟨_, rfl⟩ := h
          simp only [inferKind, hr] at hk
          cases hkf : kindFor r m <;> simp [hkf] at hk
    · simp [hfam] at h

private theorem buildCols_numeric (tbl : List KindRow) (htbl : TableOK tbl) (m : Mat) (efr : Bool) (mask : List Bool) :
    ∀ (ins : List In) (sp : Bool) (M : List OutCol), buildCols tbl m efr mask sp ins = .ok M →
      ∀ oc ∈ M, ∀ x ∈ oc.2, x.isNumber = true
  | [], _, M, h => by
    simp only [buildCols, Except.ok.injEq] at h
    subst h
    intro oc hoc; cases hoc
  | c :: rest, sp, M, h => by
    simp only [buildCols] at h
    cases h1 : encodeOne tbl m mask (efr && sp) c with
    | error e => simp [h1] at h
    | ok p =>
      obtain ⟨isCat, cols⟩ := p
      simp only [h1] at h
      cases h2 : buildCols tbl m efr mask (sp || isCat) rest with
      | error e => simp [h2] at h
      | ok more =>
        simp only [h2, Except.ok.injEq] at h
        subst h
        intro oc hoc
        rcases List.mem_append.mp hoc with hoc | hoc
        · exact encodeOne_numeric tbl htbl m mask _ c isCat cols h1 oc hoc
        · exact buildCols_numeric tbl htbl m efr mask rest _ more h2 oc hoc

/-- C08.4  Every cell of every model matrix is a number — for every frame, every formula of main
effects, every null policy and every materializer — provided the kind table classifies the text and
categorical dtypes as CATEGORICAL (categorical cells are 0/1, numeric cells are the inputs, the
intercept is 1). -/
theorem cells_numeric (tbl : List KindRow) (htbl : TableOK tbl) (m : Mat) (o : Opts) (nrows : Nat)
    (ins : List In) (M : List OutCol) (h : build tbl m o nrows ins = .ok M) :
    ∀ oc ∈ M, ∀ x ∈ oc.2, x.isNumber = true := by
  unfold build at h
  cases hm : keepMask o.na nrows (ins.map (·.col)) with
  | error e => simp [hm] at h
  | ok mask =>
    simp only [hm] at h
    cases hb : buildCols tbl m o.efr mask o.intercept ins with
    | error e => simp [hb] at h
    | ok body =>
      simp only [hb, Except.ok.injEq] at h
      subst h
      intro oc hoc
      rcases List.mem_append.mp hoc with hoc | hoc
      · split at hoc
        · simp only [List.mem_singleton] at hoc
          subst hoc
          intro x hx
          rw [List.mem_replicate] at hx
          rw [hx.2]; rfl
        · cases hoc
      · exact buildCols_numeric tbl htbl m o.efr mask ins _ body hb oc hoc

/-- C08.4 for the live table: with the `_is_categorical` of the current source tree every cell is a number. -/
theorem cells_numeric_live (m : Mat) (o : Opts) (nrows : Nat) (ins : List In) (M : List OutCol)
    (h : build Gen.kindTable m o nrows ins = .ok M) : ∀ oc ∈ M, ∀ x ∈ oc.2, x.isNumber = true :=
  cells_numeric Gen.kindTable liveTableOK m o nrows ins M h

/-- non-vacuity: a frame with a `str` text column (levels found sorted, `b` unused after the null row is
dropped), a categorical column with an unused declared level in non-sorted order and a float column
builds, under every materializer, the expected numeric matrix -/
example : ∀ m : Mat,
    build Gen.kindTable m ⟨true, true, .drop⟩ 4
      [⟨"A", "str", .text [some "c", some "a", none, some "c"]⟩,
       ⟨"B", "category", .cat ["z", "y", "x"] [some "y", some "z", some "y", some "y"]⟩,
       ⟨"a", "float64", .num [some 1, some 7, some 3, some (-1)]⟩]
    = .ok [("Intercept", [.num 1, .num 1, .num 1]),
           ("A[T.c]", [.num 1, .num 0, .num 1]),
           ("B[T.y]", [.num 1, .num 0, .num 1]), ("B[T.x]", [.num 0, .num 0, .num 0]),
           ("a", [.num 1, .num 7, .num (-1)])] := by
  intro m; cases m <;> decide

/-- negative witness: the hypothesis `TableOK` is not decoration. With a table that calls a text dtype
NUMERICAL (what `PandasMaterializer._is_categorical` did for the pandas-3 `str` dtype) the raw strings
reach the matrix. -/
example : build [⟨"str", .text, .numerical, .categorical, .categorical⟩] .pandas ⟨false, true, .drop⟩ 1
      [⟨"A", "str", .text [some "x"]⟩] = .ok [("A", [.str "x"])] := by
  decide

/-! ## Level inference over Python scalars (`Model/PyLevels.lean`)

`encode_contrasts` finds the levels of a column without declared categories with
`astype("category")`: distinct values in first-seen order (`uniq`), a comparison sort whose
comparison can raise (`isortE`), numbers-before-text when text is mixed in (`sortMixed`), first-seen
order when Python cannot sort at all (`inferLevels`). -/
section levels
open FormulaicVerif.Model.PyLevels FormulaicVerif.Proofs.C08Levels

/-- C08.5a  For a text column the inferred levels ARE the levels of C08.2a: the strictly increasing
(code-point order) duplicate-free list of the non-null values. -/
theorem infer_levels_text (vals : List (Option String)) :
    inferLevels (vals.map (Option.map PyVal.str)) = (levels vals none).map PyVal.str :=
  inferLevels_text vals

/-- C08.5b  For every column content (text, integers, booleans, floats, bytes, mixed; sortable or
not): every level is a value of the column, every non-null value equals (Python `==`) some level,
and no two levels are equal — so every non-null row belongs to exactly one level. -/
theorem infer_levels_complete (vals : List (Option PyVal)) :
    (∀ l ∈ inferLevels vals, some l ∈ vals) ∧
    (∀ v, some v ∈ vals → ∃ l ∈ inferLevels vals, pyEq l v = true) ∧
    (inferLevels vals).Pairwise (fun a b => pyEq a b = false) := by
  refine ⟨fun l hl => mem_inferLevels hl, ?_, ?_⟩
  · intro v hv
    obtain ⟨l, hl, hk⟩ := inferLevels_cover hv
    exact ⟨l, hl, pyEq_iff.mpr hk⟩
  · exact (inferLevels_pairwise vals).imp (fun h => pyEq_false_iff.mpr h)

/-- C08.5c  The level that stands for a class of equal values (`True`, `1`, `1.0`) is the one that
occurs first in the column: `l` is a level iff some occurrence of `l` has no equal value before it. -/
theorem infer_levels_first_seen (vals : List (Option PyVal)) (l : PyVal) :
    l ∈ inferLevels vals ↔ ∃ a b, vals.filterMap id = a ++ l :: b ∧ ∀ z ∈ a, pyEq z l = false := by
  rw [(inferLevels_perm vals).mem_iff]
  show l ∈ uniq (vals.filterMap id) ↔ _
  rw [mem_uniq_iff]
  constructor
  · rintro ⟨a, b, h, ha⟩
    exact ⟨a, b, h, fun z hz => pyEq_false_iff.mpr (ha z hz)⟩
  · rintro ⟨a, b, h, ha⟩
    exact ⟨a, b, h, fun z hz => pyEq_false_iff.mp (ha z hz)⟩

/-- C08.5d  The modelled comparison sort (insertion sort with a comparison that may raise) fails
exactly when the list holds two values Python refuses to compare … -/
theorem sort_fails_iff_unorderable (l : List PyVal) :
    isortE l = none ↔ ∃ a ∈ l, ∃ b ∈ l, pyLt a b = none :=
  isortE_none_iff l

/-- … and otherwise returns a rearrangement of its input in which no element is greater than a later one. -/
theorem sort_sorted_perm (l s : List PyVal) (h : isortE l = some s) :
    s.Perm l ∧ s.Pairwise (fun a b => pyLt b a = some false) :=
  ⟨isortE_perm h, isortE_sorted h⟩

/-- the column holds two non-text values that Python cannot order (a number and a bytes object) -/
def Unsortable (vals : List (Option PyVal)) : Prop :=
  ∃ a b, some a ∈ vals ∧ some b ∈ vals ∧ a.isStr = false ∧ b.isStr = false ∧ pyLt a b = none

private theorem unsortable_iff (vals : List (Option PyVal)) : Unsortable vals ↔ MixedNumBytes (uniques vals) := by
  have h3 : ∀ v : PyVal, cls v = 0 ∨ cls v = 1 ∨ cls v = 2 := by
    intro v; cases v <;> simp [cls, kcls, PyVal.key]
  have hcover : ∀ v, some v ∈ vals → ∃ y ∈ uniques vals, cls y = cls v := by
    intro v hv
    have hv' : v ∈ vals.filterMap id := by simpa [List.mem_filterMap] using hv
    obtain ⟨y, hy, hk⟩ := uniq_cover hv'
    exact ⟨y, hy, by simp [cls, hk]⟩
  constructor
  · rintro ⟨a, b, ha, hb, hsa, hsb, hlt⟩
    have hne := (pyLt_none_iff a b).mp hlt
    have hca : cls a ≠ 0 := fun h => by rw [(isStr_iff_cls a).mpr h] at hsa; cases hsa
    have hcb : cls b ≠ 0 := fun h => by rw [(isStr_iff_cls b).mpr h] at hsb; cases hsb
    obtain ⟨ya, hya, hka⟩ := hcover a ha
    obtain ⟨yb, hyb, hkb⟩ := hcover b hb
    rcases h3 a with h | h | h
    · exact absurd h hca
    · rcases h3 b with h' | h' | h'
      · exact absurd h' hcb
      · exact absurd (h.trans h'.symm) hne
      · exact ⟨yb, hyb, ya, hya, hkb.trans h', hka.trans h⟩
    · rcases h3 b with h' | h' | h'
      · exact absurd h' hcb
      · exact ⟨ya, hya, yb, hyb, hka.trans h, hkb.trans h'⟩
      · exact absurd (h.trans h'.symm) hne
  · rintro ⟨a, ha, b, hb, hca, hcb⟩
    have hma : some a ∈ vals := by simpa [List.mem_filterMap] using mem_uniq_sub ha
    have hmb : some b ∈ vals := by simpa [List.mem_filterMap] using mem_uniq_sub hb
    refine ⟨a, b, hma, hmb, ?_, ?_, (pyLt_none_iff a b).mpr (by rw [hca, hcb]; decide)⟩
    · cases hs : a.isStr with
      | false => rfl
      | true => rw [(isStr_iff_cls a).mp hs] at hca; cases hca
    · cases hs : b.isStr with
      | false => rfl
      | true => rw [(isStr_iff_cls b).mp hs] at hcb; cases hcb

/-- C08.5e  Order of the inferred levels, for every column content. When Python can sort: the
non-text levels in strictly increasing order, then the text levels in strictly increasing order
(each part a rearrangement of the first-seen distinct values of its kind). When it cannot (a number
and a bytes object are present): the distinct values in order of first appearance. -/
theorem infer_levels_order (vals : List (Option PyVal)) :
    (Unsortable vals → inferLevels vals = uniques vals) ∧
    (¬ Unsortable vals → ∃ a b, inferLevels vals = a ++ b ∧
      a.Perm ((uniques vals).filter (fun v => !v.isStr)) ∧ b.Perm ((uniques vals).filter (fun v => v.isStr)) ∧
      a.Pairwise (fun x y => pyLt x y = some true) ∧ b.Pairwise (fun x y => pyLt x y = some true)) := by
  constructor
  · intro hu
    have := (sortMixed_none_iff _).mpr ((unsortable_iff vals).mp hu)
    simp [inferLevels, this]
  · intro hu
    cases hs : sortMixed (uniques vals) with
    | none => exact absurd ((unsortable_iff vals).mpr ((sortMixed_none_iff _).mp hs)) hu
    | some l =>
      obtain ⟨a, b, ha, hb, rfl⟩ := sortMixed_some hs
      have hpair : ∀ p : PyVal → Bool, ((uniques vals).filter p).Pairwise (fun x y => x.key ≠ y.key) :=
        fun p => (uniq_pairwise _).sublist List.filter_sublist
      refine ⟨a, b, by simp [inferLevels, hs], isortE_perm ha, isortE_perm hb, ?_, ?_⟩
      · exact strict_of_sorted (isortE_sorted ha)
          (((isortE_perm ha).pairwise_iff (fun {x y} (h : x.key ≠ y.key) => Ne.symm h)).mpr (hpair _))
      · exact strict_of_sorted (isortE_sorted hb)
          (((isortE_perm hb).pairwise_iff (fun {x y} (h : x.key ≠ y.key) => Ne.symm h)).mpr (hpair _))

/-- C08.5f  Declared categories (categorical dtype, `levels=[…]`) are used as they are, in declared order. -/
theorem declared_levels (vals : List (Option PyVal)) (d : List PyVal) : levelsOf vals (some d) = d := rfl

/-- C08.5g  `pandas.Categorical(values, categories=levels)`: with pairwise distinct levels a value is
coded by the position of THE level it equals, and is a null (`none`) iff it equals no level. -/
theorem codes_exact (lvls : List PyVal) (hd : lvls.Pairwise (fun a b => pyEq a b = false)) (v : PyVal) :
    (∀ j, codeOf lvls v = some j ↔ ∃ l, lvls[j]? = some l ∧ pyEq l v = true) ∧
    (codeOf lvls v = none ↔ ∀ l ∈ lvls, pyEq l v = false) := by
  have hd' : lvls.Pairwise (fun a b => a.key ≠ b.key) := hd.imp (fun h => pyEq_false_iff.mp h)
  constructor
  · intro j
    constructor
    · intro h
      obtain ⟨l, hl, hk⟩ := codeOf_some h
      exact ⟨l, hl, pyEq_iff.mpr hk⟩
    · rintro ⟨l, hl, hk⟩
      exact codeOf_eq hd' hl (pyEq_iff.mp hk)
  · rw [codeOf_none_iff]
    constructor
    · intro h l hl; exact pyEq_false_iff.mpr (h l hl)
    · intro h l hl; exact pyEq_false_iff.mp (h l hl)

/-- non-vacuity and corner cases of level inference, as pandas produces them: numbers before text;
`True`/`1` and `0`/`False` are one level each, shown as the first seen; a number next to bytes cannot
be sorted (first-seen order) -/
example : inferLevels [some (.str "b"), some (.int 2), none, some (.str "a"), some (.int 1), some (.int 2)]
    = [.int 1, .int 2, .str "a", .str "b"] := by decide
example : inferLevels [some (.bool true), some (.int 1), some (.int 0), some (.bool false), some (.int 2)]
    = [.int 0, .bool true, .int 2] := by decide
example : inferLevels [some (.bytes "a"), some (.int 1), some (.str "x"), some (.int 1)]
    = [.bytes "a", .int 1, .str "x"] ∧
    Unsortable [some (.bytes "a"), some (.int 1), some (.str "x"), some (.int 1)] :=
  ⟨by decide, .bytes "a", .int 1, by decide, by decide, rfl, rfl, rfl⟩

end levels

/-! ## Explicit categoricals, scaled terms, several calls on one object (`Model/Encode2.lean`) -/
section calls
open FormulaicVerif.Model.PyLevels FormulaicVerif.Model.Enc2 FormulaicVerif.Proofs.C08Hist

/-- C08.6a  Every dummy column is the indicator of its level, for every list of pairwise distinct
levels (inferred or declared) and every column content: column `j` is named by label `j`, has one
cell per retained row, and the cell is 1 exactly when the row holds a value equal (Python `==`) to
level `j` — 0 for every other value, for a null, and for a value that is not among the levels. -/
theorem dummy_column_is_level_indicator (lvls : List PyVal) (labels : List String)
    (hd : lvls.Pairwise (fun a b => pyEq a b = false)) (hlen : labels.length = lvls.length)
    (rows : List (Option PyVal)) (j : Nat) (l : PyVal) (hl : lvls[j]? = some l) :
    ∃ lab cells, (dummies labels (recode lvls rows))[j]? = some (lab, cells) ∧ labels[j]? = some lab ∧
      cells.length = rows.length ∧
      ∀ (i : Nat) (v : Option PyVal), rows[i]? = some v →
        cells[i]? = some (if rowHolds l v = true then Cell.num 1 else Cell.num 0) := by
  have hj : j < labels.length := by
    rw [hlen]
    exact (List.getElem?_eq_some_iff.mp hl).1
  refine ⟨labels[j], indicatorAt j (recode lvls rows), ?_, List.getElem?_eq_getElem hj, by simp [indicatorAt, recode], ?_⟩
  · simp [dummies, dummiesFrom_getElem?, List.getElem?_eq_getElem hj]
  · intro i v hv
    exact dummy_cell (hd.imp (fun h => FormulaicVerif.Proofs.C08Levels.pyEq_false_iff.mp h)) hl rows i v hv

/-- C08.6b  Treatment coding with an explicit base (`C(x, contr.treatment(base=b))`): as soon as a
column is to be emitted (at least one level, and not the single level of a reduced request) a base
that equals no level is a `ValueError` — the call fails while THIS term is encoded. -/
theorem treatment_base_missing_is_error (out : Output) (b : PyVal) (reduced : Bool) (lvls : List PyVal)
    (full : List (String × List Cell)) (hne : lvls ≠ []) (h1 : ¬ (lvls.length = 1 ∧ reduced = true))
    (hb : ∀ l ∈ lvls, pyEq l b = false) :
    applyTreatment out (some b) reduced lvls full = .error .valueError := by
  have hidx : ∀ (ls : List PyVal), (∀ l ∈ ls, pyEq l b = false) → indexOf b ls = none := by
    intro ls
    induction ls with
    | nil => intro _; rfl
    | cons x r ih =>
      intro h
      simp [indexOf, h x List.mem_cons_self, ih (fun l hl => h l (List.mem_cons_of_mem _ hl))]
  have hcond : (lvls.isEmpty || (lvls.length == 1 && reduced)) = false := by
    cases lvls with
    | nil => exact absurd rfl hne
    | cons x r =>
      cases reduced with
      | false => simp
      | true =>
        simp only [List.isEmpty_cons, Bool.and_true, Bool.false_or, beq_eq_false_iff_ne, ne_eq]
        intro hlen; exact h1 ⟨hlen, rfl⟩
  simp [applyTreatment, hcond, baseIndex, hidx lvls hb]

/-- C08.6c  … and with a base that is a level the columns are all dummy columns (full rank) or all
but the base column (reduced rank), in level order. -/
theorem treatment_columns (out : Output) (base : Option PyVal) (reduced : Bool) (lvls : List PyVal)
    (full : List (String × List Cell)) (bi : Nat) (hne : lvls ≠ []) (h1 : ¬ (lvls.length = 1 ∧ reduced = true))
    (hb : baseIndex base lvls = some bi) :
    applyTreatment out base reduced lvls full = .ok ⟨out, false, if reduced then dropAt bi full else full, true⟩ := by
  have hcond : (lvls.isEmpty || (lvls.length == 1 && reduced)) = false := by
    cases lvls with
    | nil => exact absurd rfl hne
    | cons x r =>
      cases reduced with
      | false => simp
      | true =>
        simp only [List.isEmpty_cons, Bool.and_true, Bool.false_or, beq_eq_false_iff_ne, ne_eq]
        intro hlen; exact h1 ⟨hlen, rfl⟩
  simp [applyTreatment, hcond, hb]

/-- C08.7a  One materializer object, any history: with the caches reset at the start of
`get_model_matrix` (the tree under test) every call of every sequence of calls — valid or failing,
any output type, null policy and rank setting per call, from ANY cache content left behind by
earlier calls — returns exactly what the same call returns on a new object. -/
theorem history_is_fresh_builds (tbl : List KindRow) (m : Mat) (nrows : Nat) (frame : List Enc2.In)
    (calls : List Call) (c0 : Caches) :
    runHistory true tbl m nrows frame calls c0 = calls.map (freshMatrix tbl m nrows frame) :=
  runHistory_fresh tbl m nrows frame calls c0

/-- C08.7b  Every cell of every matrix returned by any call of any history on one object is a number
— plain text / categorical / numeric / bool / mixed-object columns, `C(…)` with a treatment base or
`levels=`, terms scaled by a literal, every output type, null policy and materializer — provided
the kind table classifies text and categorical dtypes as CATEGORICAL. -/
theorem history_cells_numeric (tbl : List KindRow) (htbl : TableOK tbl) (m : Mat) (nrows : Nat)
    (frame : List Enc2.In) (calls : List Call) (c0 : Caches) (i : Nat) (M : List OutCol)
    (h : (runHistory true tbl m nrows frame calls c0)[i]? = some (.ok M)) :
    ∀ oc ∈ M, ∀ x ∈ oc.2, x.isNumber = true := by
  rw [runHistory_fresh, List.getElem?_map] at h
  cases hk : calls[i]? with
  | none => simp [hk] at h
  | some k =>
    simp only [hk, Option.map_some, Option.some.injEq] at h
    exact getModelMatrixOn_numeric htbl m nrows frame k Caches.empty M h

/-- C08.7b for the live table (the `_is_categorical` of the current source tree) -/
theorem history_cells_numeric_live (m : Mat) (nrows : Nat) (frame : List Enc2.In) (calls : List Call)
    (c0 : Caches) (i : Nat) (M : List OutCol)
    (h : (runHistory true Gen.kindTable m nrows frame calls c0)[i]? = some (.ok M)) :
    ∀ oc ∈ M, ∀ x ∈ oc.2, x.isNumber = true :=
  history_cells_numeric Gen.kindTable liveTableOK m nrows frame calls c0 i M h

/-- C08.7c  What a call computes, without the caches: on a new object `get_model_matrix` IS the
cache-free reference `buildSpec` (evaluate and null-check every factor in formula order, encode every
term from its evaluated factor, put the intercept in front) — for every frame, route, output, null
policy and formula in which no two terms share a factor (the parser guarantees that: a second term
over the same factors is the same term or a syntax error). -/
theorem fresh_matrix_is_spec (tbl : List KindRow) (m : Mat) (nrows : Nat) (frame : List Enc2.In) (k : Call)
    (hnd : (k.terms.map (·.fid)).Nodup) : freshMatrix tbl m nrows frame k = buildSpec tbl m nrows frame k :=
  FormulaicVerif.Proofs.C08Spec.freshMatrix_eq_spec tbl m nrows frame k hnd

/-- C08.7d  Hence every call of every history on one object, from any cache content, returns the
cache-free reference of that call alone. -/
theorem history_is_spec (tbl : List KindRow) (m : Mat) (nrows : Nat) (frame : List Enc2.In)
    (calls : List Call) (c0 : Caches) (hnd : ∀ k ∈ calls, (k.terms.map (·.fid)).Nodup) :
    runHistory true tbl m nrows frame calls c0 = calls.map (buildSpec tbl m nrows frame) := by
  rw [runHistory_fresh]
  apply List.map_congr_left
  intro k hk
  exact fresh_matrix_is_spec tbl m nrows frame k (hnd k hk)

/-- C08.6d  A numeric (non-categorical) factor passes through: one column, named after the factor,
holding the retained input values (times the literal scale of the term, if any). -/
theorem numeric_term_passthrough (out : Output) (t : Term) (ef : EvalF) (mask : List Bool) (reduced : Bool)
    (hnum : ef.categorical = false) :
    (encodeFactor out t.fid ef mask reduced).map (finishTerm out t reduced) =
      .ok [(t.expr, match t.scale with
        | none => (applyMask mask ef.vals).map numCell
        | some s => ((applyMask mask ef.vals).map numCell).map (scaleCell s.val))] := by
  simp only [encodeFactor, hnum, Bool.false_eq_true, if_false, Except.map, finishTerm, Bool.false_and,
    List.map_cons, List.map_nil, if_true]
  cases t.scale <;> rfl

/-- C08.6e  A categorical factor without `C(…)` (a text column, a categorical dtype, an object column):
its columns are the dummy columns of the levels of the RETAINED rows — inferred (C08.5) or declared —
named `name[level]`, or `name[T.level]` without the first level on a reduced request. -/
theorem plain_categorical_encoding (out : Output) (t : Term) (ef : EvalF) (mask : List Bool) (reduced : Bool)
    (labels : List String) (hcat : ef.categorical = true) (hplain : t.fid.isC = false) (hnolv : t.fid.lvls = none)
    (hlab : labelsOf (levelsOf (applyMask mask ef.vals) ef.declared) = .ok labels)
    (hdup : declaredDup ef.declared = false) :
    (encodeFactor out t.fid ef mask reduced).map (finishTerm out t reduced) =
      .ok (((if reduced then List.drop 1 else id)
        (dummies labels (recode (levelsOf (applyMask mask ef.vals) ef.declared) (applyMask mask ef.vals)))).map
        (fun fld => (if fld.1 = "" then t.expr else fmtName t.expr fld.1 reduced,
          match t.scale with | none => fld.2 | some s => fld.2.map (scaleCell s.val)))) := by
  simp only [encodeFactor, hcat, if_true, encodeCategorical, declaredFor, hnolv, hdup, Bool.false_eq_true, if_false,
    hlab, hplain, Except.map, finishTerm, Bool.true_and]
  cases reduced
  · simp only [Bool.false_eq_true, if_false, id_eq, List.map_inj_left, Except.ok.injEq]
    intro a _; rfl
  · simp
    rfl

private theorem labelsOf_map_str : ∀ (l : List String), labelsOf (l.map PyVal.str) = .ok l
  | [] => rfl
  | s :: r => by simp [labelsOf, pyLabel, labelsOf_map_str r]

private theorem applyMask_map {α β : Type} (f : α → β) : ∀ (mask : List Bool) (l : List α),
    applyMask mask (l.map f) = (applyMask mask l).map f
  | [], _ => by simp [applyMask]
  | _ :: _, [] => by
    rename_i b m
    cases b <;> simp [applyMask]
  | true :: m, x :: r => by simp [applyMask, applyMask_map f m r]
  | false :: m, x :: r => by simp [applyMask, applyMask_map f m r]

/-- C08.6h  The first clause of the property on the extended model, for ALL text columns, row masks,
routes and outputs: a plain text column (no declared categories) is encoded as one indicator column
per level, the levels being THE strictly increasing duplicate-free list of the retained non-null
strings (`Encode.levels`, C08.2a) and the labels those strings — `name[level]` for every level, or
`name[T.level]` without the first one on a reduced request (C08.6e), each column the indicator of its
level (C08.6a). -/
theorem text_term_sorted_indicators (out : Output) (t : Term) (strs : List (Option String)) (mask : List Bool)
    (reduced : Bool) (hplain : t.fid.isC = false) (hnolv : t.fid.lvls = none) :
    (encodeFactor out t.fid ⟨true, none, strs.map (Option.map PyVal.str)⟩ mask reduced).map (finishTerm out t reduced) =
      .ok (((if reduced then List.drop 1 else id)
        (dummies (levels (applyMask mask strs) none)
          (recode ((levels (applyMask mask strs) none).map PyVal.str) ((applyMask mask strs).map (Option.map PyVal.str))))).map
        (fun fld => (if fld.1 = "" then t.expr else fmtName t.expr fld.1 reduced,
          match t.scale with | none => fld.2 | some s => fld.2.map (scaleCell s.val)))) := by
  have hrows : applyMask mask (strs.map (Option.map PyVal.str)) = (applyMask mask strs).map (Option.map PyVal.str) :=
    applyMask_map _ mask strs
  have hlv : levelsOf (applyMask mask (strs.map (Option.map PyVal.str))) none =
      (levels (applyMask mask strs) none).map PyVal.str := by
    rw [hrows]; exact infer_levels_text _
  have := plain_categorical_encoding out t ⟨true, none, strs.map (Option.map PyVal.str)⟩ mask reduced
    (levels (applyMask mask strs) none) rfl hplain hnolv (by rw [hlv]; exact labelsOf_map_str _) rfl
  rw [this]
  show Except.ok (List.map _ ((if reduced = true then List.drop 1 else id)
    (dummies _ (recode (levelsOf (applyMask mask (strs.map (Option.map PyVal.str))) none)
      (applyMask mask (strs.map (Option.map PyVal.str))))))) = _
  rw [hlv, hrows]

/-- C08.6i  User-given contrasts (`C(x, [[…], …])`, `C(x, {name: weights, …})`): every cell of contrast
column `c` is the weight the user wrote for the row's level in that contrast, and 0 for a row without a
level — a number in every case; weights written for another number of levels than the data has are a
`ValueError`, never a reshaped matrix. -/
theorem custom_contrast_cells (cu : Custom) (c : Nat) (codes : List (Option Nat)) (cells : List Cell)
    (h : customColumn cu c codes = some cells) :
    cells.length = codes.length ∧
    ∀ (i : Nat) (code : Option Nat), codes[i]? = some code → ∃ q, codeWeight cu c code = some q ∧ cells[i]? = some (Cell.num q) := by
  induction codes generalizing cells with
  | nil =>
    simp only [customColumn, Option.some.injEq] at h
    subst h
    exact ⟨rfl, fun i code hi => by simp at hi⟩
  | cons code0 r ih =>
    simp only [customColumn] at h
    cases hq : codeWeight cu c code0 with
    | none => simp [hq] at h
    | some q =>
      cases hr : customColumn cu c r with
      | none => simp [hq, hr] at h
      | some rest =>
        simp only [hq, hr, Option.some.injEq] at h
        subst h
        obtain ⟨hlen, hcells⟩ := ih rest hr
        refine ⟨by simp [hlen], ?_⟩
        intro i code hi
        cases i with
        | zero =>
          simp only [List.getElem?_cons_zero, Option.some.injEq] at hi
          subst hi
          exact ⟨q, hq, rfl⟩
        | succ j =>
          simp only [List.getElem?_cons_succ] at hi
          simpa using hcells j code hi

theorem custom_shape_mismatch_is_error (out : Output) (cu : Custom) (reduced : Bool) (lvls : List PyVal)
    (codes : List (Option Nat)) (nl nc : Nat) (hs : cu.shape = some (nl, nc)) (hne : lvls ≠ [])
    (h1 : ¬ (lvls.length = 1 ∧ reduced = true)) (hmis : nl ≠ lvls.length) :
    applyCustom out cu reduced lvls codes = .error .valueError := by
  have hcond : (lvls.isEmpty || (lvls.length == 1 && reduced)) = false := by
    cases lvls with
    | nil => exact absurd rfl hne
    | cons x r =>
      cases reduced with
      | false => simp
      | true =>
        simp only [List.isEmpty_cons, Bool.and_true, Bool.false_or, beq_eq_false_iff_ne, ne_eq]
        intro hlen; exact h1 ⟨hlen, rfl⟩
  simp [applyCustom, hs, hcond, hmis]

/-- the hypotheses hold and the weights land where the user put them: three levels, two contrasts -/
example : applyCustom .pandas (.matrix [[1, 0], [0, 1], [-1, -1]]) false [.str "u", .str "v", .str "w"]
      [some 0, some 2, none, some 1] =
    .ok ⟨.pandas, false, [("1", [.num 1, .num (-1), .num 0, .num 0]), ("2", [.num 0, .num (-1), .num 0, .num 1])], false⟩ ∧
    (Custom.matrix [[1, 0], [0, 1]]).shape = some (2, 2) := by decide

/-- C08.6j  Kind inference inside a call: a column of a text or categorical dtype — referenced plainly
or through `C(…)` — evaluates to a CATEGORICAL factor over its declared categories and values, for
every route, whenever the kind table classifies text and categorical dtypes as CATEGORICAL (C08.1a for
the live table). Together with C08.6h/6e/6a this is the first clause of the property end to end. -/
theorem text_or_categorical_column_is_categorical_factor (tbl : List KindRow) (htbl : TableOK tbl) (m : Mat)
    (frame : List Enc2.In) (f : FactorId) (c : Enc2.In) (r : KindRow) (hc : findCol frame f.name = some c)
    (hr : lookupRow tbl c.dtype = some r) (hfam : r.family = .text ∨ r.family = .categorical)
    (hok : c.familyOK r = true) :
    evalFactor tbl m frame f = .ok ⟨true, c.declared, c.vals⟩ := by
  have hk := htbl r (List.mem_of_find?_eq_some hr) hfam m
  cases hC : f.isC <;> simp [evalFactor, hc, hr, hok, hC, hk]

/-- C08.6k  … and a column of a numeric or bool dtype that the table calls NUMERICAL evaluates, when
referenced plainly, to a numerical factor over its values (which then pass through, C08.6d). -/
theorem numeric_column_is_numerical_factor (tbl : List KindRow) (m : Mat) (frame : List Enc2.In) (f : FactorId)
    (c : Enc2.In) (r : KindRow) (hc : findCol frame f.name = some c) (hr : lookupRow tbl c.dtype = some r)
    (hk : kindFor r m = .numerical) (hok : c.familyOK r = true) (hplain : f.isC = false) :
    evalFactor tbl m frame f = .ok ⟨false, c.declared, c.vals⟩ := by
  simp [evalFactor, hc, hr, hok, hplain, hk]

/-- the hypotheses of C08.6j/k hold for the `str` and `float64` columns of the example frame with the live table -/
example : (lookupRow Gen.kindTable "str").map (fun r => (r.family,
    (⟨"t", "str", none, [some (.str "x"), none]⟩ : Enc2.In).familyOK r)) = some (.text, true) := by decide
example : (lookupRow Gen.kindTable "float64").map (fun r => (kindFor r .pandas, kindFor r .narwhals, kindFor r .arrow,
    (⟨"a", "float64", none, [some (.flt 1), none]⟩ : Enc2.In).familyOK r)) =
    some (.numerical, .numerical, .numerical, true) := by decide

/-- C08.6f  A literal in front of a term multiplies every cell of the term's columns and nothing else. -/
theorem scale_multiplies_cells (out : Output) (t : Term) (s : Scale) (reduced : Bool) (enc : Enc) :
    finishTerm out { t with scale := some s } reduced enc =
      (finishTerm out { t with scale := none } reduced enc).map (fun oc => (oc.1, oc.2.map (scaleCell s.val))) := by
  simp [finishTerm, List.map_map, Function.comp_def]

/-- C08.6g  With an intercept the first column of the matrix is `Intercept`: a one for every retained row. -/
theorem intercept_column (tbl : List KindRow) (m : Mat) (nrows : Nat) (frame : List Enc2.In) (k : Call)
    (M : List OutCol) (hi : k.intercept = true) (h : buildSpec tbl m nrows frame k = .ok M) :
    ∃ nulls, evalAllSpec tbl m frame k.na (k.terms.map (·.fid)) (List.replicate nrows false) = .ok nulls ∧
      M.head? = some ("Intercept", List.replicate ((nulls.map (!·)).count true) (Cell.num 1)) := by
  unfold buildSpec at h
  cases h1 : evalAllSpec tbl m frame k.na (k.terms.map (·.fid)) (List.replicate nrows false) with
  | error e => simp [h1] at h
  | ok nulls =>
    simp only [h1, hi, if_true] at h
    cases h2 : encodeTermsSpec tbl m frame k.out (nulls.map (!·)) k.efr true k.terms with
    | error e => simp [h2] at h
    | ok body =>
      simp only [h2] at h
      have := combine_ok h
      subst this
      exact ⟨nulls, rfl, rfl⟩

/-! the fault-then-reuse situation, concretely: a frame with two text columns and a float column; the
first call (sparse output, rows with a null dropped) fails with `ValueError` while its THIRD term
`C(b, contr.treatment(base='nope'))` is encoded — after `t` and `a` were encoded and cached; the
second call on the same object asks for a pandas matrix and keeps the null rows. -/
private def exFrame (third : Option PyVal) : List Enc2.In :=
  [⟨"t", "str", none, [some (.str "x"), some (.str "y"), third, some (.str "x")]⟩,
   ⟨"b", "str", none, [some (.str "u"), some (.str "v"), some (.str "u"), some (.str "w")]⟩,
   ⟨"a", "float64", none, [some (.flt 1), some (.flt 2), some (.flt 3), some (.flt 4)]⟩]
private def exT : Enc2.Term := ⟨"t", none, ⟨"t", false, none, none, none⟩⟩
private def exA : Enc2.Term := ⟨"a", none, ⟨"a", false, none, none, none⟩⟩
private def exB : Enc2.Term := ⟨"b", none, ⟨"b", false, none, none, none⟩⟩
private def exBad : Enc2.Term := ⟨"C(b, contr.treatment(base='nope'))", none, ⟨"b", true, some (.str "nope"), none, none⟩⟩
private def exFail : Call := ⟨true, true, .drop, .sparse, [exT, exA, exBad]⟩
private def exNext (na : NA) : Call := ⟨true, true, na, .pandas, [exT, exA, exB]⟩

/-- non-vacuity of C08.7a/b: the failing call leaves two encoded factors in the object's cache, and the
next call still returns the matrix of a new object (4 rows, the null row of `t` all zero) -/
example :
    (getModelMatrixOn true Gen.kindTable .pandas 4 (exFrame none) exFail Caches.empty).2 = .error .valueError ∧
    (getModelMatrixOn true Gen.kindTable .pandas 4 (exFrame none) exFail Caches.empty).1.encodedCache.length = 2 ∧
    runHistory true Gen.kindTable .pandas 4 (exFrame none) [exFail, exNext .ignore] Caches.empty =
      [.error .valueError,
       .ok [("Intercept", [.num 1, .num 1, .num 1, .num 1]),
            ("t[T.y]", [.num 0, .num 1, .num 0, .num 0]),
            ("a", [.num 1, .num 2, .num 3, .num 4]),
            ("b[T.v]", [.num 0, .num 1, .num 0, .num 0]), ("b[T.w]", [.num 0, .num 0, .num 0, .num 1])]] := by
  decide

/-- the hypotheses of C08.7c/d, C08.6b, C08.6a/5g and C08.6e hold in this example: no two terms share a
factor; the base `'nope'` equals no level of `b`; `0` and `True` are distinct levels; the retained rows
of `t` have the printable levels `x`, `y` -/
example : (exFail.terms.map (·.fid)).Nodup ∧ ((exNext .ignore).terms.map (·.fid)).Nodup := by decide
example : ∀ l ∈ [PyVal.str "u", .str "v", .str "w"], pyEq l (.str "nope") = false := by decide
example : [PyVal.int 0, .bool true, .int 2].Pairwise (fun a b => pyEq a b = false) := by decide
example : labelsOf (levelsOf (applyMask [true, true, false, true] [some (.str "x"), some (.str "y"), none, some (.str "x")]) none)
    = .ok ["x", "y"] ∧ declaredDup none = false := by decide

/-- negative witness: the reset is what the theorems rest on. Without it (`reset = false`) the second
call is handed the columns the failed call built — for 3 rows instead of 4 (a `ValueError` from
pandas: lengths differ) … -/
example : runHistory false Gen.kindTable .pandas 4 (exFrame none) [exFail, exNext .ignore] Caches.empty =
    [.error .valueError, .error .shapeError] := by
  decide

/-- … or, when no row is dropped, sparse column objects inside a pandas frame: cells that are not numbers
(observed on the tree with the reset removed: `<Compressed Sparse Row sparse matrix …>` in an object column) -/
example :
    (runHistory false Gen.kindTable .pandas 4 (exFrame (some (.str "y"))) [exFail, exNext .drop] Caches.empty)[1]? =
      some (.ok [("Intercept", [.num 1, .num 1, .num 1, .num 1]),
        ("t[T.y]", [foreignCell, foreignCell, foreignCell, foreignCell]),
        ("a", [foreignCell, foreignCell, foreignCell, foreignCell]),
        ("b[T.v]", [.num 0, .num 1, .num 0, .num 0]), ("b[T.w]", [.num 0, .num 0, .num 0, .num 1])]) ∧
    foreignCell.isNumber = false := by
  decide

end calls

/-! ## Hand-written constants of the model against the live package -/
section live
open FormulaicVerif.Model.Enc2

/-- C08.9a  The column-name templates of the live package (`FactorValuesMetadata.format`,
`TreatmentContrasts().get_factor_format(…)` for full and reduced rank; regenerated on every run) give,
for EVERY factor name and level label, exactly the names the model writes (`fmtName`): `name[level]`
and `name[T.level]`. -/
theorem live_factor_formats (n f : String) :
    applyFormat Gen.defaultFactorFormat n f = fmtName n f false ∧
    applyFormat Gen.treatmentFormatFull n f = fmtName n f false ∧
    applyFormat Gen.treatmentFormatReduced n f = fmtName n f true := by
  have h : ∀ X : String, "[" ++ ("T" ++ ("." ++ X)) = "[T." ++ X := by
    intro X
    rw [← String.append_assoc, ← String.append_assoc]
    congr 1
  refine ⟨?_, ?_, ?_⟩
  · simp [applyFormat, Gen.defaultFactorFormat, fmtName, String.append_assoc]
  · simp [applyFormat, Gen.treatmentFormatFull, fmtName, String.append_assoc]
  · simp [applyFormat, Gen.treatmentFormatReduced, fmtName, String.append_assoc, h]

/-- C08.9b  "Every output type and materializer": the output types the live materializers register are
exactly the four the model distinguishes, and the registered materializers are the two whose routes
the kind and dtype tables probe (`decide` over `Gen.materializerOutputs`). -/
theorem live_outputs_modelled :
    (∀ p ∈ Gen.materializerOutputs, ∀ o ∈ p.2, o ∈ [Output.pandas.name, Output.numpy.name, Output.sparse.name, Output.narwhals.name]) ∧
    Gen.materializerOutputs.map (·.1) = ["narwhals", "pandas"] := by
  decide

end live

/-! ## The dtype of the returned container (`Model/Dtypes.lean`, `Model/EncodeDt.lean`, `Gen/DtypeTable.lean`) -/
section dtypes
open FormulaicVerif.Model.Enc2 FormulaicVerif.Model.Dtypes FormulaicVerif.Proofs.C08Dtypes

set_option maxRecDepth 200000 in
/-- C08.8a  The dtype tables probed on the current tree — the matrix of `0 + A` for one probe series
per dtype label x {pandas, narwhals on pandas, narwhals on pyarrow} x {pandas, numpy, sparse,
narwhals}; a literal scale; the intercept; two columns stacked by the live `_combine_columns` —
hold integer and floating-point dtypes only: no `object`, no `bool`, no failed probe; scaling or
stacking numeric dtypes gives a numeric dtype. (`decide` over the generated tables, re-decided on
every run.) -/
theorem live_dtype_tables_numeric : tablesNumeric Gen.dtypeTables = true := by
  decide

/-- C08.8b  For ALL frames, formulas of main effects (plain, `C(…)`, scaled), null policies, routes
and output types: every dtype the model reports for the returned matrix — one per column for
`pandas` / `narwhals` output, the array dtype for `numpy` / `sparse` output, obtained by folding the
stacking table over any number of columns — is an integer or floating-point dtype, provided the
tables pass the check of C08.8a. -/
theorem matrix_dtypes_numeric (T : Tables) (hT : tablesNumeric T = true) (tbl : List KindRow) (m : Mat)
    (nrows : Nat) (frame : List Enc2.In) (k : Call) (ds : List NDt)
    (h : callDtypes T tbl m nrows frame k = .ok ds) : ∀ d ∈ ds, d.isNumeric = true :=
  callDtypes_numeric (tablesOK_of_check hT) tbl m nrows frame k ds h

/-- C08.8b for the tables and the kind table of the current tree -/
theorem matrix_dtypes_numeric_live (m : Mat) (nrows : Nat) (frame : List Enc2.In) (k : Call) (ds : List NDt)
    (h : callDtypes Gen.dtypeTables Gen.kindTable m nrows frame k = .ok ds) : ∀ d ∈ ds, d.isNumeric = true :=
  matrix_dtypes_numeric Gen.dtypeTables live_dtype_tables_numeric Gen.kindTable m nrows frame k ds h

set_option maxRecDepth 100000 in
/-- non-vacuity of C08.8b: a pandas frame from a `str` text column, a float column and a second text column:
float64 intercept and float column, int64 dummy columns; the same matrix as a sparse matrix is float64 -/
example :
    callDtypes Gen.dtypeTables Gen.kindTable .pandas 3
      [⟨"t", "str", none, [some (.str "x"), some (.str "y"), some (.str "x")]⟩, ⟨"a", "float64", none, [some (.flt 1), some (.flt 2), some (.flt 3)]⟩]
      ⟨true, true, .drop, .pandas, [⟨"t", none, ⟨"t", false, none, none, none⟩⟩, ⟨"a", none, ⟨"a", false, none, none, none⟩⟩]⟩
      = .ok [.float64, .int64, .float64] ∧
    callDtypes Gen.dtypeTables Gen.kindTable .arrow 3
      [⟨"t", "str", none, [some (.str "x"), some (.str "y"), some (.str "x")]⟩, ⟨"a", "float64", none, [some (.flt 1), some (.flt 2), some (.flt 3)]⟩]
      ⟨true, true, .drop, .sparse, [⟨"t", none, ⟨"t", false, none, none, none⟩⟩, ⟨"a", none, ⟨"a", false, none, none, none⟩⟩]⟩
      = .ok [.float64] := by
  decide

/-- negative witness: the check of C08.8a is not decoration — a table in which a dummy column comes out as
`object` (what the tree did for `string[python]` text with `output="numpy"` before the repair) fails it -/
example : tablesNumeric ⟨[("string[python]", "pandas", "numpy", .object)], [], [], []⟩ = false := by decide

end dtypes

end FormulaicVerif.Props.C08
