import FormulaicVerif.Proofs.C20
import FormulaicVerif.Proofs.C20Entry
import FormulaicVerif.Proofs.C20Sem
import FormulaicVerif.Proofs.C20Mat
import Mathlib.Algebra.Ring.Basic
import Mathlib.Tactic.Ring
/-! # C20 — Formula differentiation is the term-wise partial derivative

Property theorems only; helper lemmas are in `Proofs/C20*.lean`; the reference notions (`dFactors`,
`dMany`, `render`, `dTerms`; `evalProd`, `evalD`, `shift`, `fdMany`; `rowEnv`, `termCol`, `Covers`,
`vars`, `scaleT`, `specCols`) are in `Spec/Derivative.lean`, `Spec/DerivativeSem.lean`,
`Spec/NumericMatrix.lean`. Every `theorem` in this file is an obligation that the check audits with
`#print axioms`.

The theorems are about the functions the `c20` engine runs: `Model.differentiateTerm` /
`Model.Calc.diffTerm` (`differentiate_term`), `Model.Calc.Simple.differentiate`
(`SimpleFormula.differentiate`, any ordering, any edit history through `Model.SFm`),
`Model.Calc.differentiate` (`StructuredFormula.differentiate`), `Model.Calc.differentiateSpecs`
(`ModelSpec(s).differentiate`) and `Model.CalcMat.materialize` (the C02 model of
`_build_model_matrix` on a numeric factor cache). -/

namespace FormulaicVerif.Props.C20
open FormulaicVerif.Model FormulaicVerif.Spec FormulaicVerif.Proofs.C20
open FormulaicVerif.Model.CalcMat FormulaicVerif.Spec.NumMat FormulaicVerif.Spec.Containers

/-! ## 1. `differentiate_term` -/

/-- C20.1a  Each term is replaced by its (successive) partial derivative, written as `0`, `1`
or the remaining factors; no error is possible on well-formed terms. -/
theorem diff_term_is_partial (t : Term) (wrt : List String) (h : Term.WF t) :
    differentiateTerm t wrt = .ok (render (dMany (some t) wrt)) := by
  unfold differentiateTerm
  rw [diffLoop_eq wrt t h]
  cases hd : dMany (some t) wrt with
  | none => rfl
  | some fs => cases fs <;> rfl

/-- C20.1b  `Formula.differentiate` is term-wise: same number of terms, same order, the i-th
result is the derivative of the i-th term. -/
theorem diff_termwise (f : List Term) (wrt : List String) (h : ∀ t ∈ f, Term.WF t) :
    differentiateFormula f wrt = .ok (f.map (fun t => render (dMany (some t) wrt))) := by
  unfold differentiateFormula
  induction f with
  | nil => rfl
  | cons t r ih =>
    have ht := diff_term_is_partial t wrt (h t (by simp))
    have ihr := ih (fun t ht => h t (by simp [ht]))
    simp only [List.mapM_cons, ht, ihr, List.map_cons]
    rfl

theorem diff_length (f : List Term) (wrt : List String) (h : ∀ t ∈ f, Term.WF t) :
    ∃ g, differentiateFormula f wrt = .ok g ∧ g.length = f.length := by
  exact ⟨_, diff_termwise f wrt h, by simp⟩

/-- C20.1c  Without sympy a factor is ONE symbol — its complete expression string. A variable that
only occurs inside the code of a Python factor (`a` in `I(a ** 2)`, `x` in `log(x)`) is not found:
if no factor of the term IS the variable, the derivative is `0` (no exception), whatever follows. -/
theorem atomic_factor_zero (t : Term) (v : String) (vs : List String) (h : ∀ f ∈ t, f.expr ≠ v) :
    differentiateTerm t (v :: vs) = .ok [litZero] := by
  have hf : t.filter (fun f => f.expr == v) = [] := by
    rw [List.filter_eq_nil_iff]
    intro f hf
    simpa using h f hf
  simp [differentiateTerm, diffLoop, diffStep, hf]

/-- C20.1d  … and differentiating with respect to the complete string of a factor removes exactly
that factor (`1` if nothing remains). -/
theorem whole_factor_removed (t : Term) (f : Factor) (h : Term.WF t) (hf : f ∈ t) :
    differentiateTerm t [f.expr] = .ok (render (some (t.filter (fun g => !(g.expr == f.expr))))) := by
  rw [diff_term_is_partial t _ h]
  have : t.any (fun g => g.expr == f.expr) = true := List.any_eq_true.mpr ⟨f, hf, by simp⟩
  simp [dMany, dFactors, this]

/-- non-vacuity / the documented behaviour on Python factors: `I(a ** 2):b` -/
example :
    differentiateTerm [⟨"I(a ** 2)", .python⟩, ⟨"b", .lookup⟩] ["a"] = .ok [litZero] ∧
    differentiateTerm [⟨"I(a ** 2)", .python⟩, ⟨"b", .lookup⟩] ["I(a ** 2)"] = .ok [⟨"b", .lookup⟩] ∧
    differentiateTerm [⟨"log(x)", .python⟩] ["log(x)"] = .ok [litOne] := by
  refine ⟨by decide, by decide, by decide⟩

/-- C20.1e  `use_sympy=True` where sympy cannot be imported: the call raises `ImportError` exactly
when there is a variable to differentiate by and the term has a factor; otherwise the loop body
never asks sympy and the result is the plain one. -/
theorem sympy_missing (t : Term) (wrt : List String) :
    (wrt ≠ [] → t ≠ [] → Calc.diffTerm false true t wrt = .error .importError) ∧
    (wrt = [] → Calc.diffTerm false true t wrt = .ok (render (dMany (some t) []))) ∧
    (wrt ≠ [] → t = [] → Calc.diffTerm false true t wrt = .ok [litZero]) := by
  refine ⟨?_, ?_, ?_⟩
  · intro hw ht
    cases wrt with
    | nil => exact absurd rfl hw
    | cons v vs =>
      cases t with
      | nil => exact absurd rfl ht
      | cons f r => rfl
  · intro hw
    subst hw
    cases t <;> rfl
  · intro hw ht
    subst ht
    cases wrt with
    | nil => exact absurd rfl hw
    | cons v vs => rfl

/-- C20.1e'  … on a whole formula: `SimpleFormula.differentiate(*wrt, use_sympy=True)` without sympy
raises `ImportError` as soon as there is a variable and some term has a factor; with no variable it
returns the formula's terms unchanged (a factor-less term as `1`), ordering NONE. -/
theorem sympy_missing_formula (f : Calc.Simple) (wrt : List String) :
    (wrt ≠ [] → (∃ t ∈ f.terms, t ≠ []) → f.differentiate false true wrt = .error .importError) ∧
    (wrt = [] → f.differentiate false true wrt = .ok ⟨.none, dTerms f.terms []⟩) := by
  refine ⟨?_, ?_⟩
  · intro hw ht
    cases wrt with
    | nil => exact absurd rfl hw
    | cons v vs => simp [Calc.Simple.differentiate, diffTerms_sympy_missing f.terms v vs ht]
  · intro hw
    subst hw
    simp [Calc.Simple.differentiate, diffTerms_sympy_nowrt, Calc.Simple.new, SFm.init, SFm.reorder]

/-- C20.1f  The plain call (`use_sympy=False`) does not depend on whether sympy is installed. -/
theorem diff_term_plain (sympy : Bool) (t : Term) (wrt : List String) (h : Term.WF t) :
    Calc.diffTerm sympy false t wrt = .ok (render (dMany (some t) wrt)) :=
  diffTerm_plain sympy t wrt h

/-! ## 2. Every entry point, every ordering, every history -/

/-- C20.2a  `SimpleFormula.differentiate` on ANY state of the object (whatever `_ordering` it was
built with and whatever was done to it since): the result is a formula with ordering NONE whose
i-th term is the derivative of the i-th term — same number, same order. -/
theorem simple_differentiate_termwise (sympy : Bool) (f : Calc.Simple) (wrt : List String)
    (h : ∀ t ∈ f.terms, Term.WF t) :
    ∃ d, f.differentiate sympy false wrt = .ok d ∧ d.ordering = .none ∧ d.terms = dTerms f.terms wrt ∧
      d.terms.length = f.terms.length ∧
      ∀ i (hi : i < f.terms.length), d.terms[i]? = some (render (dMany (some f.terms[i]) wrt)) := by
  refine ⟨⟨.none, dTerms f.terms wrt⟩, ?_, rfl, rfl, by simp [dTerms], ?_⟩
  · simp [Calc.Simple.differentiate, diffTerms_plain sympy f.terms wrt h, Calc.Simple.new, SFm.init,
      SFm.reorder]
  · intro i hi
    simp [dTerms, hi]

/-- C20.2b  … in particular for every `_ordering` option and every history of sequence operations
(`insert`, `__setitem__`, `__delitem__`, slices, `append`, `extend`, `pop`, `reverse`, failed ones
included): the object still holds products of distinct factors, and its derivative is the
term-wise derivative of the term list it holds NOW, in that order. -/
theorem history_differentiate_termwise (sympy : Bool) (o : SFm.Ordering) (l0 : List Term)
    (ops : List SFm.Op) (wrt : List String)
    (h0 : ∀ t ∈ l0, Term.WF t) (hops : ∀ op ∈ ops, OpWF op) :
    let f := (Calc.Simple.new o l0).edit ops
    (∀ t ∈ f.terms, Term.WF t) ∧
      f.differentiate sympy false wrt = .ok ⟨.none, dTerms (SFm.run o (SFm.init o l0) ops) wrt⟩ := by
  intro f
  have hwf : ∀ t ∈ f.terms, Term.WF t := run_wf o ops _ (reorder_wf o l0 h0) hops
  refine ⟨hwf, ?_⟩
  obtain ⟨d, hd, ho, ht, _⟩ := simple_differentiate_termwise sympy f wrt hwf
  rw [hd]
  cases d with
  | mk od td =>
    simp only at ho ht
    subst ho
    rw [ht]
    rfl

/-- C20.2b'  A slice `f[a:b]` of any such object is again a formula of the same ordering holding
products of distinct factors, so its derivative is the term-wise derivative of the terms it holds. -/
theorem slice_differentiate_termwise (sympy : Bool) (f : Calc.Simple) (a b : Int) (wrt : List String)
    (h : ∀ t ∈ f.terms, Term.WF t) :
    (∀ t ∈ (f.slice a b).terms, Term.WF t) ∧
      (f.slice a b).differentiate sympy false wrt = .ok ⟨.none, dTerms (f.slice a b).terms wrt⟩ := by
  have hwf : ∀ t ∈ (f.slice a b).terms, Term.WF t := by
    apply reorder_wf
    exact AllWF.sublist h ((List.drop_sublist _ _).trans (List.take_sublist _ _))
  refine ⟨hwf, ?_⟩
  obtain ⟨d, hd, ho, ht, _⟩ := simple_differentiate_termwise sympy (f.slice a b) wrt hwf
  rw [hd]
  cases d with
  | mk od td => simp only at ho ht; subst ho; subst ht; rfl

/-- non-vacuity: `Formula('a:b + c:d - 1', _ordering='sort')`, then `append(Term(b:a:e))`,
differentiated w.r.t. `a`: `[b, 0, b:e]` — the zero stays where its term is -/
example :
    ((Calc.Simple.new .sort [[⟨"a", .lookup⟩, ⟨"b", .lookup⟩], [⟨"c", .lookup⟩, ⟨"d", .lookup⟩]]).edit
        [.append (some [⟨"b", .lookup⟩, ⟨"a", .lookup⟩, ⟨"e", .lookup⟩])]).differentiate false false ["a"]
      = .ok ⟨.none, [[⟨"b", .lookup⟩], [litZero], [⟨"b", .lookup⟩, ⟨"e", .lookup⟩]]⟩ := by decide

example : OpWF (.append (some [⟨"b", .lookup⟩, ⟨"a", .lookup⟩, ⟨"e", .lookup⟩])) := by
  simp only [OpWF, OptWF]; decide

/-- C20.2c  `StructuredFormula.differentiate` is part-wise: the result is the `_map` of the
structure (C19: same keys, same tuple lengths, `root` key last) whose every part is the term-wise
derivative of the corresponding part; as a list of parts (for a structure that came out of a
constructor) it is the list of the parts' derivatives, in `_flatten` order. -/
theorem structured_differentiate_partwise (sympy : Bool) (v : Calc.FormulaV) (wrt : List String)
    (h : ∀ f ∈ St.flatten v, ∀ t ∈ f.terms, Term.WF t) :
    let g : Calc.Simple → Calc.Simple := fun f => ⟨.none, dTerms f.terms wrt⟩
    Calc.differentiate sympy false v wrt = .ok (St.mapV (fun f _ => g f) [] v) ∧
    St.shape (St.mapV (fun f _ => g f) [] v) = St.shape (St.norm v) ∧
    (RootLast v → St.flatten (St.mapV (fun f _ => g f) [] v) = (St.flatten v).map g) := by
  intro g
  refine ⟨?_, FormulaicVerif.Proofs.C19.shape_mapV _ v [], ?_⟩
  · apply mapE_ok
    intro f hf
    obtain ⟨d, hd, ho, ht, _⟩ := simple_differentiate_termwise sympy f wrt (h f hf)
    rw [hd]
    cases d with
    | mk od td => simp only at ho ht; subst ho; subst ht; rfl
  · intro hr
    rw [FormulaicVerif.Proofs.C19.flatten_mapV, FormulaicVerif.Proofs.C19.norm_of_rootLast v hr,
      ← FormulaicVerif.Proofs.C19.flattenP_fst v [], List.map_map]
    rfl

/-- C20.2d  `ModelSpec.differentiate` / `ModelSpecs.differentiate`: every spec gets the term-wise
derivative of its formula and NO structure (the structure described the original columns). -/
theorem specs_differentiate_partwise (sympy : Bool) (v : St.Val Calc.Spec) (wrt : List String)
    (h : ∀ s ∈ St.flatten v, ∀ t ∈ s.formula.terms, Term.WF t) :
    let g : Calc.Spec → Calc.Spec := fun s => ⟨⟨.none, dTerms s.formula.terms wrt⟩, false⟩
    Calc.differentiateSpecs sympy false v wrt = .ok (St.mapV (fun s _ => g s) [] v) ∧
    (RootLast v → St.flatten (St.mapV (fun s _ => g s) [] v) = (St.flatten v).map g) := by
  intro g
  refine ⟨?_, ?_⟩
  · apply mapE_ok
    intro s hs
    obtain ⟨d, hd, ho, ht, _⟩ := simple_differentiate_termwise sympy s.formula wrt (h s hs)
    simp only [Calc.Spec.differentiate, hd]
    cases d with
    | mk od td => simp only at ho ht; subst ho; subst ht; rfl
  · intro hr
    rw [FormulaicVerif.Proofs.C19.flatten_mapV, FormulaicVerif.Proofs.C19.norm_of_rootLast v hr,
      ← FormulaicVerif.Proofs.C19.flattenP_fst v [], List.map_map]
    rfl

/-- C20.2e  One part that raises makes the whole structured call raise (no partial result). -/
theorem structured_error_propagates (sympy useSympy : Bool) (v : Calc.FormulaV) (wrt : List String)
    (h : ∃ f ∈ St.flatten v, ∃ e, f.differentiate sympy useSympy wrt = .error e) :
    ∃ e, Calc.differentiate sympy useSympy v wrt = .error e :=
  mapE_error _ v h

/-- non-vacuity: `y ~ a:b | a` (lhs, rhs = 2-tuple) satisfies the hypotheses of C20.2c and is `RootLast` -/
example :
    let v : Calc.FormulaV := .node [("lhs", .leaf ⟨.degree, [[⟨"y", .lookup⟩]]⟩),
      ("rhs", .tup [.leaf ⟨.degree, [[⟨"a", .lookup⟩, ⟨"b", .lookup⟩]]⟩, .leaf ⟨.degree, [[⟨"a", .lookup⟩]]⟩])]
    (∀ f ∈ St.flatten v, ∀ t ∈ f.terms, Term.WF t) ∧ RootLast v ∧
      Calc.differentiate false false v ["a"] = .ok (.node [("lhs", .leaf ⟨.none, [[litZero]]⟩),
        ("rhs", .tup [.leaf ⟨.none, [[⟨"b", .lookup⟩]]⟩, .leaf ⟨.none, [[litOne]]⟩])]) := by
  refine ⟨by decide, ?_, rfl⟩
  simp [RootLast, RootLastI, RootLastT, St.rootLast, St.isRootKey]

/-- C20.2f  The constants of the code that the property text depends on, read off the live package
by `harness/translate.py` (`Gen/Calculus.lean`), are the ones the model uses: the literal terms
written for `0` and `1`, the complete list of `_ordering` options, and `NONE` as the ordering of
every derivative (the order-preservation mechanism). A source change to any of them changes this
statement. (The exception classes and the default ordering are also generated, but only name
observables in the engine; nothing is claimed about them.) -/
theorem gen_constants :
    Gen.Calculus.zeroTerm = [(litZero.expr, Calc.evalName litZero.eval)] ∧
    Gen.Calculus.oneTerm = [(litOne.expr, Calc.evalName litOne.eval)] ∧
    Gen.Calculus.orderingMethods.map (·.2) = [SFm.Ordering.none, .degree, .sort].map Calc.orderingName ∧
    Gen.Calculus.derivativeOrdering = Calc.orderingName .none := by
  decide

/-! ## 3. Values: exact finite differences -/

section semantics
variable {R : Type} [CommRing R]

/-- C20.3a  For a term that is multilinear (distinct factors), the exact finite difference in the
variable `v` with any step `h` is `h` times the value of the derivative term — in every
commutative ring, so in particular for integer, rational and real data. -/
theorem diff_is_finite_difference (env : String → R) (v : String) (h : R) (fs : List Factor)
    (hwf : Term.WF fs) :
    evalProd (shift env v h) fs - evalProd env fs = h * evalD env (dFactors fs v) :=
  fd_single env v h fs hwf

/-- C20.3b  Several variables, applied successively (repeats allowed), each with its own step: the
iterated exact finite difference of the term's value is the product of the steps times the value
of the iterated derivative (so `0` as soon as a variable is missing or used up). -/
theorem finite_difference_many (env : String → R) (fs : List Factor) (hwf : Term.WF fs)
    (vhs : List (String × R)) :
    fdMany fs env vhs = (vhs.map (·.2)).prod * evalD env (dMany (some fs) (vhs.map (·.1))) :=
  fdMany_eq fs hwf vhs env

end semantics

/-- C20.3c  Partial derivatives commute (as term denotations: same factors in the same order). -/
theorem diff_commutes (fs : List Factor) (u v : String) :
    dMany (some fs) [u, v] = dMany (some fs) [v, u] :=
  dMany_perm (List.Perm.swap v u []) (some fs)

/-- C20.3d  … for any number of variables: the result depends on the multiset of variables only. -/
theorem diff_commutes_any_order (fs : List Factor) (vs ws : List String) (p : vs.Perm ws) :
    dMany (some fs) vs = dMany (some fs) ws :=
  dMany_perm p (some fs)

/-! ## 4. Materialisation: the columns of a numeric formula and of its derivative -/

/-- C20.4a  The C02 model of `_build_model_matrix`, run on a numeric factor cache (literals are
numbers, every other factor one numeric column) with or without rank reduction, never fails and
produces, term by term in formula order, exactly the reference columns `specCols`: no column for a
term without factors; with rank reduction no column for a term whose variable factors are those of
an earlier non-zero-scaled term; otherwise ONE column holding, row by row, the product of the
term's factor values. -/
theorem numeric_matrix_refines (env : Env) (n : Nat) (efr : Bool) (ts : List Term)
    (h : ∀ t ∈ ts, Term.WF t ∧ Covers env n t) :
    ∃ rs, materialize env ts efr n = .ok rs ∧ rs.map (·.term) = ts.map exprs ∧
      rs.map (fun r => r.cols.map (·.col)) = specCols env n efr [] ts :=
  materialize_numeric env n efr ts h

/-- C20.4b  One term of a numeric formula: if (with rank reduction on) no earlier non-zero-scaled
term has the same set of variable factors, the term has exactly one column, and it holds row by
row the product of the term's factor values (`termCol`). -/
theorem numeric_term_column (env : Env) (n : Nat) (efr : Bool) (ts : List Term)
    (h : ∀ t ∈ ts, Term.WF t ∧ Covers env n t) (j : Nat) (hj : j < ts.length) (hne : ts[j] ≠ [])
    (hdist : efr = true → ∀ i (hi : i < j), scaleT env (ts[i]'(by omega)) ≠ 0 →
      ¬ (vars env (ts[i]'(by omega))).Perm (vars env ts[j])) :
    ∃ rs, materialize env ts efr n = .ok rs ∧
      (rs[j]?.map (fun r => r.cols.map (·.col))) = some [termCol env n ts[j]] := by
  obtain ⟨rs, h1, _, h3⟩ := materialize_numeric env n efr ts h
  refine ⟨rs, h1, ?_⟩
  have hg := specCols_getElem env n efr ts [] j hj hne (by intro _ s hs; cases hs)
    (by
      intro hefr i hi hsc
      cases hq : ST.eq (stOf env (ts[i]'(by omega))) (stOf env ts[j]) with
      | false => rfl
      | true => exact absurd (stEq_vars hq) (hdist hefr i hi hsc))
  rw [← h3] at hg
  simpa [List.getElem?_map] using hg

/-- C20.4c  THE SECOND CLAUSE. Take a formula `f` over numeric factors (distinct factors per term,
every factor evaluated, the literals `0`/`1` evaluating to 0/1) and any tuple `wrt`. Materialise
its derivative `dTerms f wrt` with the C02 model (rank reduction on or off). Then every term `j`
whose derivative is not zero — provided, with rank reduction on, that no earlier non-zero-scaled
term of the derivative has the same set of variable factors — has exactly ONE column `c`, and in
every row `r`, for every choice of steps `hs` (one per variable),

    (iterated exact finite difference of the ORIGINAL term's value with steps hs) = (∏ hs) · c[r].

With all steps 1 the column IS the exact finite difference of the original term's column
(`termCol env n f[j]`, which by C20.4b is the original term's column in the original matrix). -/
theorem derivative_columns_are_finite_differences (env : Env) (n : Nat) (efr : Bool) (f : List Term)
    (wrt : List String) (hl : HasLiterals env) (hf : ∀ t ∈ f, Term.WF t ∧ Covers env n t)
    (j : Nat) (hj : j < f.length) (g : List Factor) (hg : dMany (some f[j]) wrt = some g)
    (hdist : efr = true → ∀ i (hi : i < j),
      scaleT env (render (dMany (some (f[i]'(by omega))) wrt)) ≠ 0 →
      ¬ (vars env (render (dMany (some (f[i]'(by omega))) wrt))).Perm (vars env (render (some g)))) :
    ∃ rs c, materialize env (dTerms f wrt) efr n = .ok rs ∧ rs.length = f.length ∧
      (rs[j]?.map (fun r => r.cols.map (·.col))) = some [c] ∧ c.length = n ∧
      ∀ r, r < n → ∀ hs : List Rat, hs.length = wrt.length →
        fdMany f[j] (rowEnv env r) (wrt.zip hs) = hs.prod * c.getD r 0 := by
  have hd : ∀ t ∈ dTerms f wrt, Term.WF t ∧ Covers env n t := by
    intro t ht
    obtain ⟨t0, ht0, rfl⟩ := List.mem_map.1 ht
    exact ⟨render_wf t0 wrt (hf t0 ht0).1, render_covers env n t0 wrt hl (hf t0 ht0).2⟩
  have hjd : j < (dTerms f wrt).length := by simpa [dTerms] using hj
  have hdj : (dTerms f wrt)[j] = render (some g) := by simp [dTerms, hg]
  have hdi : ∀ i (hi : i < j), (dTerms f wrt)[i]'(by omega) = render (dMany (some (f[i]'(by omega))) wrt) := by
    intro i hi; simp [dTerms]
  obtain ⟨rs, h1, h2⟩ := numeric_term_column env n efr (dTerms f wrt) hd j hjd
    (by rw [hdj]; exact render_ne_nil _)
    (by
      intro hefr i hi hsc
      rw [hdi i hi] at hsc ⊢
      rw [hdj]
      exact hdist hefr i hi hsc)
  obtain ⟨rs', h1', h3', _⟩ := materialize_numeric env n efr (dTerms f wrt) hd
  have hrs : rs' = rs := by rw [h1] at h1'; exact (Except.ok.inj h1').symm
  subst hrs
  refine ⟨rs', termCol env n (render (some g)), h1, ?_, by rw [← hdj]; exact h2, by simp [termCol], ?_⟩
  · have := congrArg List.length h3'
    simpa [dTerms] using this
  · intro r hr hs hlen
    have hwf := (hf f[j] (List.getElem_mem hj)).1
    have key := fdMany_eq (R := Rat) f[j] hwf (wrt.zip hs) (rowEnv env r)
    have h1z : (wrt.zip hs).map (·.1) = wrt := by
      rw [List.map_fst_zip]; omega
    have h2z : (wrt.zip hs).map (·.2) = hs := by
      rw [List.map_snd_zip]; omega
    rw [h1z, h2z, hg] at key
    rw [key]
    simp [termCol, List.getD_eq_getElem?_getD, hr, evalProd_render env r hl]

/-- C20.4d  The same statement with the side condition on the ORIGINAL formula: if (with rank
reduction on) no two terms of `f` have the same set of variable factors — what the parser
guarantees: it merges such terms — then no side condition on the derivative is needed: every term
with a non-zero derivative materialises to exactly one column, the exact finite difference. -/
theorem derivative_columns_of_distinct_terms (env : Env) (n : Nat) (efr : Bool) (f : List Term)
    (wrt : List String) (hl : HasLiterals env) (hf : ∀ t ∈ f, Term.WF t ∧ Covers env n t)
    (hdist : efr = true → ∀ i j (hi : i < j) (hj : j < f.length),
      ¬ (vars env (f[i]'(by omega))).Perm (vars env f[j]))
    (j : Nat) (hj : j < f.length) (g : List Factor) (hg : dMany (some f[j]) wrt = some g) :
    ∃ rs c, materialize env (dTerms f wrt) efr n = .ok rs ∧ rs.length = f.length ∧
      (rs[j]?.map (fun r => r.cols.map (·.col))) = some [c] ∧ c.length = n ∧
      ∀ r, r < n → ∀ hs : List Rat, hs.length = wrt.length →
        fdMany f[j] (rowEnv env r) (wrt.zip hs) = hs.prod * c.getD r 0 := by
  apply derivative_columns_are_finite_differences env n efr f wrt hl hf j hj g hg
  intro hefr i hi hsc hperm
  cases hdi : dMany (some (f[i]'(by omega))) wrt with
  | none =>
    rw [hdi] at hsc
    exact hsc (scaleT_zero env hl)
  | some gi =>
    rw [hdi, vars_render env hl, vars_render env hl] at hperm
    obtain ⟨_, hmi, hgi⟩ := dMany_some wrt _ gi hdi
    obtain ⟨_, hmj, hgj⟩ := dMany_some wrt _ g hg
    rw [hgi, hgj, vars_filter env _ (fun e => !(wrt.contains e)),
      vars_filter env _ (fun e => !(wrt.contains e))] at hperm
    have hwi := (hf _ (List.getElem_mem (by omega : i < f.length))).1
    have hwj := (hf _ (List.getElem_mem hj)).1
    exact hdist hefr i j hi hj (vars_perm_of_removed env wrt _ _ hwi hwj hmi hmj hperm)

/-- non-vacuity for C20.4: the formula `a:b + 2:a + c` on three rows, differentiated w.r.t. `a`
(derivative `b + 2 + 0`), rank reduction on: every hypothesis holds and the columns are computed
(the zero term comes after a non-zero constant term and, with rank reduction, gets no column:
the clause speaks about non-zero derivative terms only) -/
def demoEnv : Env :=
  [("0", .const 0), ("1", .const 1), ("2", .const 2), ("a", .col [1, 2, 3]), ("b", .col [4, 5, 7]), ("c", .col [1, 0, 1])]
def demoF : List Term := [[⟨"a", .lookup⟩, ⟨"b", .lookup⟩], [⟨"2", .literal⟩, ⟨"a", .lookup⟩], [⟨"c", .lookup⟩]]

example : HasLiterals demoEnv ∧ (∀ t ∈ demoF, Term.WF t) := by
  refine ⟨⟨by decide, by decide⟩, by decide⟩

example : ∀ t ∈ demoF, Covers demoEnv 3 t := by
  intro t ht f hf
  simp only [demoF, List.mem_cons, List.not_mem_nil, or_false] at ht
  rcases ht with rfl | rfl | rfl <;> simp only [List.mem_cons, List.not_mem_nil, or_false] at hf
  · rcases hf with rfl | rfl
    · exact ⟨.col [1, 2, 3], by decide, by intro c hc; cases hc; rfl⟩
    · exact ⟨.col [4, 5, 7], by decide, by intro c hc; cases hc; rfl⟩
  · rcases hf with rfl | rfl
    · exact ⟨.const 2, by decide, by intro c hc; cases hc⟩
    · exact ⟨.col [1, 2, 3], by decide, by intro c hc; cases hc; rfl⟩
  · subst hf
    exact ⟨.col [1, 0, 1], by decide, by intro c hc; cases hc; rfl⟩

/-- the distinctness hypothesis of C20.4d on the demo formula: the variable-factor sets are
`{a,b}`, `{a}`, `{c}` -/
example : demoF.map (vars demoEnv) = [["a", "b"], ["a"], ["c"]] := by decide

example : (demoF.map (vars demoEnv)).Pairwise (fun a b => ¬ a.Perm b) := by decide

example : dTerms demoF ["a"] = [[⟨"b", .lookup⟩], [⟨"2", .literal⟩], [litZero]] ∧
    ((materialize demoEnv (dTerms demoF ["a"]) true 3).toOption.map
      (·.map (fun r => r.cols.map (fun e => (e.name, e.col))))) =
      some [[("b", [4, 5, 7])], [("Intercept", [2, 2, 2])], []] := by
  refine ⟨by decide, by decide +kernel⟩

/-- non-vacuity: a concrete three-factor term satisfies the hypotheses and differentiates as expected -/
example : Term.WF [⟨"a", .lookup⟩, ⟨"b", .lookup⟩, ⟨"2", .literal⟩] ∧
    differentiateTerm [⟨"a", .lookup⟩, ⟨"b", .lookup⟩, ⟨"2", .literal⟩] ["a"]
      = .ok [⟨"b", .lookup⟩, ⟨"2", .literal⟩] ∧
    differentiateTerm [⟨"a", .lookup⟩] ["a"] = .ok [litOne] ∧
    differentiateTerm [⟨"a", .lookup⟩] ["b", "a"] = .ok [litZero] := by
  refine ⟨by decide, by decide, by decide, by decide⟩

/-- the well-formedness hypothesis is not decoration: with a repeated factor (which `Term.__init__`
never produces) the code path raises -/
example : differentiateTerm [⟨"a", .lookup⟩, ⟨"a", .python⟩] ["a"] = .error .nonTrivialFactors := by decide

end FormulaicVerif.Props.C20
