import FormulaicVerif.Proofs.C20
import Mathlib.Algebra.Ring.Basic
import Mathlib.Tactic.Ring
/-! # C20 — Formula differentiation is the term-wise partial derivative

Property theorems only; helper lemmas are in `Proofs/C20.lean`. Every `theorem` in this file is
an obligation that the check audits with `#print axioms`. -/

namespace FormulaicVerif.Props.C20
open FormulaicVerif.Model FormulaicVerif.Spec FormulaicVerif.Proofs.C20

/-- C20.1a  Each term is replaced by its (successive) partial derivative, written as `0`, `1`
or the remaining factors; no error is possible on well-formed terms. -/
theorem diff_term_is_partial (t : Term) (wrt : List String) (h : Term.WF t) :
    differentiateTerm t wrt = .ok (render (dMany (some t) wrt)) := by
  unfold differentiateTerm
  rw [diffLoop_eq wrt t h]
  cases hd : dMany (some t) wrt with
  | none => rfl
  | some fs => cases fs <;> rfl

/-- C20.1b  `Formula.differentiate` is term-wise: same number of terms, same order, the i-th
result is the derivative of the i-th term. -/
theorem diff_termwise (f : List Term) (wrt : List String) (h : ∀ t ∈ f, Term.WF t) :
    differentiateFormula f wrt = .ok (f.map (fun t => render (dMany (some t) wrt))) := by
  unfold differentiateFormula
  induction f with
  | nil => rfl
  | cons t r ih =>
    have ht := diff_term_is_partial t wrt (h t (by simp))
    have ihr := ih (fun t ht => h t (by simp [ht]))
    simp only [List.mapM_cons, ht, ihr, List.map_cons]
    rfl

theorem diff_length (f : List Term) (wrt : List String) (h : ∀ t ∈ f, Term.WF t) :
    ∃ g, differentiateFormula f wrt = .ok g ∧ g.length = f.length := by
  exact ⟨_, diff_termwise f wrt h, by simp⟩

section semantics
variable {R : Type} [CommRing R]

/-- value of a product of factors under an assignment of values to factor expressions -/
def evalProd (env : String → R) : List Factor → R
  | [] => 1
  | f :: r => env f.expr * evalProd env r

def evalD (env : String → R) : Option (List Factor) → R
  | none => 0
  | some fs => evalProd env fs

def shift (env : String → R) (v : String) (h : R) : String → R :=
  fun k => if k = v then env k + h else env k

omit [CommRing R] in
private theorem evalProd_shift_absent [CommRing R] (env : String → R) (v : String) (h : R) (fs : List Factor)
    (hv : v ∉ fs.map (·.expr)) : evalProd (shift env v h) fs = evalProd env fs := by
  induction fs with
  | nil => rfl
  | cons f r ih =>
    simp only [List.map_cons, List.mem_cons, not_or] at hv
    simp only [evalProd, ih hv.2, shift]
    have : f.expr ≠ v := fun e => hv.1 e.symm
    simp [this]

/-- C20.2  For a term that is multilinear (distinct factors), the exact finite difference in the
variable `v` with any step `h` is `h` times the value of the derivative term — in every
commutative ring, so in particular for integer, rational and real data. -/
theorem diff_is_finite_difference (env : String → R) (v : String) (h : R) (fs : List Factor)
    (hwf : Term.WF fs) :
    evalProd (shift env v h) fs - evalProd env fs = h * evalD env (dFactors fs v) := by
  induction fs with
  | nil => simp [evalProd, dFactors, evalD]
  | cons f r ih =>
    have hn : (f.expr :: r.map (·.expr)).Nodup := by simpa [Term.WF] using hwf
    rw [List.nodup_cons] at hn
    have ihr := ih (by simpa [Term.WF] using hn.2)
    by_cases hf : f.expr = v
    · -- v is the head factor; it does not occur in the tail
      have habs : v ∉ r.map (·.expr) := hf ▸ hn.1
      have hfil : r.filter (fun g => !(g.expr == v)) = r := by
        rw [List.filter_eq_self]
        intro g hg
        have : g.expr ≠ v := fun e => habs (e ▸ List.mem_map_of_mem hg)
        simp [this]
      simp only [evalProd, evalProd_shift_absent env v h r habs, dFactors, List.any_cons, hf,
        beq_self_eq_true, Bool.true_or, if_true, List.filter_cons, Bool.not_true, evalD, hfil]
      simp only [shift, if_true]
      simp
      ring
    · have hsh : shift env v h f.expr = env f.expr := by simp [shift, hf]
      simp only [evalProd, hsh]
      have hb : (f.expr == v) = false := by simpa using hf
      by_cases ha : r.any (fun g => g.expr == v) = true
      · simp only [dFactors, ha, if_true, evalD] at ihr
        simp only [dFactors, List.any_cons, hb, Bool.false_or, ha, if_true, List.filter_cons,
          Bool.not_false, evalD, evalProd]
        have : env f.expr * evalProd (shift env v h) r - env f.expr * evalProd env r
            = env f.expr * (evalProd (shift env v h) r - evalProd env r) := by ring
        rw [this, ihr]; ring
      · simp only [dFactors, ha, evalD] at ihr
        simp only [dFactors, List.any_cons, hb, Bool.false_or, ha, evalD]
        have : env f.expr * evalProd (shift env v h) r - env f.expr * evalProd env r
            = env f.expr * (evalProd (shift env v h) r - evalProd env r) := by ring
        rw [this, ihr]; simp

end semantics

/-- C20.2b  Partial derivatives commute (as term denotations: same factors in the same order). -/
theorem diff_commutes (fs : List Factor) (u v : String) :
    dMany (some fs) [u, v] = dMany (some fs) [v, u] := by
  simp only [dMany, dFactors]
  by_cases hu : fs.any (fun f => f.expr == u) = true <;>
  by_cases hv : fs.any (fun f => f.expr == v) = true
  · simp only [hu, hv, if_true, dMany, dFactors]
    have e1 : (fs.filter (fun f => !(f.expr == u))).any (fun f => f.expr == v)
        = (fs.filter (fun f => !(f.expr == v))).any (fun f => f.expr == u) := by
      by_cases huv : u = v
      · subst huv; rfl
      · have l : (fs.filter (fun f => !(f.expr == u))).any (fun f => f.expr == v) = true := by
          rw [List.any_eq_true] at hv ⊢
          obtain ⟨x, hx, hxv⟩ := hv
          refine ⟨x, List.mem_filter.mpr ⟨hx, ?_⟩, hxv⟩
          have : x.expr = v := by simpa using hxv
          simp [this, Ne.symm huv]
        have r : (fs.filter (fun f => !(f.expr == v))).any (fun f => f.expr == u) = true := by
          rw [List.any_eq_true] at hu ⊢
          obtain ⟨x, hx, hxu⟩ := hu
          refine ⟨x, List.mem_filter.mpr ⟨hx, ?_⟩, hxu⟩
          have : x.expr = u := by simpa using hxu
          simp [this, huv]
        rw [l, r]
    rw [e1]
    split
    · congr 1
      rw [List.filter_filter, List.filter_filter]
      exact congrArg some (List.filter_congr (fun x _ => Bool.and_comm _ _))
    · rfl
  · have : (fs.filter (fun f => !(f.expr == u))).any (fun f => f.expr == v) = false := by
      rw [Bool.eq_false_iff]; intro hc
      rw [List.any_eq_true] at hc
      obtain ⟨x, hx, hxv⟩ := hc
      exact hv (List.any_eq_true.mpr ⟨x, (List.mem_filter.mp hx).1, hxv⟩)
    simp [hu, hv, dMany, dFactors, this]
  · have : (fs.filter (fun f => !(f.expr == v))).any (fun f => f.expr == u) = false := by
      rw [Bool.eq_false_iff]; intro hc
      rw [List.any_eq_true] at hc
      obtain ⟨x, hx, hxu⟩ := hc
      exact hu (List.any_eq_true.mpr ⟨x, (List.mem_filter.mp hx).1, hxu⟩)
    simp [hu, hv, dMany, dFactors, this]
  · simp [hu, hv, dMany]

/-- non-vacuity: a concrete three-factor term satisfies the hypotheses and differentiates as expected -/
example : Term.WF [⟨"a", .lookup⟩, ⟨"b", .lookup⟩, ⟨"2", .literal⟩] ∧
    differentiateTerm [⟨"a", .lookup⟩, ⟨"b", .lookup⟩, ⟨"2", .literal⟩] ["a"]
      = .ok [⟨"b", .lookup⟩, ⟨"2", .literal⟩] ∧
    differentiateTerm [⟨"a", .lookup⟩] ["a"] = .ok [litOne] ∧
    differentiateTerm [⟨"a", .lookup⟩] ["b", "a"] = .ok [litZero] := by
  refine ⟨by decide, by decide, by decide, by decide⟩

/-- the well-formedness hypothesis is not decoration: with a repeated factor (which `Term.__init__`
never produces) the code path raises -/
example : differentiateTerm [⟨"a", .lookup⟩, ⟨"a", .python⟩] ["a"] = .error .nonTrivialFactors := by decide

end FormulaicVerif.Props.C20
