import FormulaicVerif.Model.Parser
import FormulaicVerif.Proofs.C14
import FormulaicVerif.Proofs.C14General
import FormulaicVerif.Proofs.C14Multistage
import FormulaicVerif.Proofs.C14Loop
import FormulaicVerif.Proofs.C14Api
import FormulaicVerif.Proofs.C14Spec
import FormulaicVerif.Proofs.C14Leaves
import FormulaicVerif.Proofs.C14Order
import FormulaicVerif.Proofs.C14Sanitize
import FormulaicVerif.Proofs.C14Power
/-! # C14 — Any input string is parsed or rejected with the library's parsing error

Property theorems only (helpers: `Proofs/C14.lean`). The model keeps every Python operation that
can raise something other than the parsing error as an explicit `ParseErr.internal` outcome
(`reduce` on an empty iterable, a misaligned `Structured._merge`, an unknown operator
implementation, the multistage `NotImplementedError`), so "internal exceptions never escape" is a
statement about reachability, not a typing artefact.

Proved for ALL inputs: every failure of tokenisation + token rewriting is the parsing error or the
SyntaxError of an invalid Python fragment, and the latter only when such a fragment exists; every
failure of the shunting-yard (any token list, any operator table) is the parsing error; evaluation
of every expression of the arithmetic fragment (unbounded nesting) is a term set or the parsing
error. Parsing terminates because every model function is total (structural recursion; the two
fuelled functions `mergeVals`/`simplifyVal` are given fuel exceeding the value's depth).

For parsers WITHOUT the experimental MULTISTAGE flag the unrestricted statement is proved
(`no_internal_error`, `eval_no_internal`; helpers in `Proofs/C14General.lean`: a shape invariant of
the shunting-yard loop — no structural operator ever sits below a non-structural one — via the
context-acceptance rules of `~` and `|`).

With MULTISTAGE the unrestricted statement is FALSE of the current code (`[[a ~ b] ~ c]` raises
NotImplementedError, which the pinned test-suite demands: known finding C14-F1). What IS proved for
all eight flag subsets (`Proofs/C14Multistage.lean`: a second shape invariant — a multistage `~`
entry always sits directly on a `[` entry of the operator stack; values of bracketed trees are term
sets or `{deps, root}` structures): the ONLY internal exception is that NotImplementedError, and it
needs a multistage `~` with a multistage `~` inside its left argument
(`internal_error_only_nested_multistage`, `no_internal_error_multistage_partial`).

-- FULL (unproved, FALSE of the code as it is — finding C14-F1):
--   theorem no_internal_error_all (cfg : ParseCfg) (env : PyEnv) (hnorm : …) (cs : List CharInfo) :
--       ∀ k, parseTerms cfg env cs ≠ .error (.internal k)
-- (negative witness below: `nested_multistage_escapes`).

The `**` / `^` operator of the code expands `min(n, max(number of terms, 1))` copies of its argument, the
model (`Model.power` / `powTerms`, shared with C01) `n` copies literally. That the two ORDERED term sets
coincide is proved (`power_stable`, `power_capped`, `power_capped_plain`; helpers in `Proofs/C14Power.lean`): for terms with
distinct factors — the invariant of the library's `Term.__init__`, the predicate `Term.WF` of the model —
`S ** (n+1) = S ** n` as lists for every `n ≥ max |S| 1`, and without that assumption for every
`n ≥ max |S| 2` (`power_stable_any`). The unconditional statement for `n = 1` is false of the model only
for a one-term set whose term repeats a factor (`[[a, a]] ** 2 = [[a]]`; negative witness below), a value
no `Term` object of the library can have; the operators of the model keep the invariant
(`plain_ops_keep_distinct_factors`), so on the arithmetic fragment nothing is assumed. -/
namespace FormulaicVerif.Props.C14
open FormulaicVerif FormulaicVerif.Model FormulaicVerif.Proofs.ShuntC

/-- C14.1  Every failure of the shunting-yard is the library's parsing error: for every token list
and EVERY operator table (so for all feature-flag subsets). -/
theorem shunt_errors_are_syntax (tab : OpTable) (ts : List Tok) (e : ParseErr)
    (h : tokensToAst tab ts = .error e) : ∃ w, e = .syntax w :=
  Proofs.C14.shunt_errors_are_syntax tab ts e h

/-- C14.2  Evaluating any expression of the arithmetic fragment (operators `+ - * / %in% : ** ^`,
unary signs, parentheses; unbounded nesting) gives a term set or the parsing error — the
`TypeError` of `reduce` on an empty parent set, the `StopIteration`/`TypeError` of a bad exponent
and the `ValueError` of a misaligned merge are unreachable. -/
theorem eval_plain_no_internal (dot : DotCtx) (e : E) (h : Proofs.C14.PlainE e) :
    (∃ ts, evalAst dot (strip e) = .ok (.set ts)) ∨ (∃ w, evalAst dot (strip e) = .error (.syntax w)) :=
  Proofs.C14.eval_plain_good dot e h

/-- the guards added by the repairs are what makes C14.2 true: the raw `reduce` does raise on `∅` -/
example : reduceMulTerms [] = .error (.internal "TypeError") := rfl
example (b : List Term) : ∃ w, nestedProduct [] b = .error (.syntax w) := ⟨_, rfl⟩

/-- C14.4  An operator disabled by the parser's feature flags never appears in a syntax tree the
shunting-yard returns — for every token list and every operator table; with C01.1 (the generated
table carries the flags) this is "operators disabled by parser feature flags are always rejected". -/
theorem disabled_never_used (tab : OpTable) (ts : List Tok) (a : Ast)
    (h : tokensToAst tab ts = .ok (some a)) : Proofs.C14.noDis a = true :=
  Proofs.C14.disabled_never_used tab ts a h

/-- C14.5  **No internal exception escapes**, for every input string, both intercept settings and every
TWOSIDED/MULTIPART subset (MULTISTAGE off), provided the Python normaliser raises nothing but
SyntaxError: `parseTerms` returns a term structure, the parsing error, or the SyntaxError of a
fragment — never `StopIteration`, `TypeError`, `ValueError`, `AttributeError`, `KeyError`, … -/
theorem no_internal_error (cfg : ParseCfg) (hms : cfg.multistage = false) (env : PyEnv)
    (hnorm : ∀ t x, env.norm t = .error x → x = .syntaxError) (cs : List CharInfo) :
    ∀ k, parseTerms cfg env cs ≠ .error (.internal k) :=
  Proofs.C14General.parseTerms_no_internal cfg hms env hnorm cs

/-- C14.5'  the evaluation half on its own, stated on the table regenerated from the live resolver -/
theorem eval_no_internal (twosided multipart : Bool) (dot : DotCtx) (ts : List Tok) (a : Ast)
    (h : tokensToAst (Gen.defaultTable twosided multipart false) ts = .ok (some a)) :
    ∀ k, evalAst dot a ≠ .error (.internal k) :=
  Proofs.C14General.eval_no_internal_live twosided multipart dot ts a h

/-- the MULTISTAGE exclusion is not decoration: with the flag on, the model (like the code, finding
C14-F1) returns an internal NotImplementedError for a structured left-hand side -/
example : applyStructural
      { symbol := "~", arity := 2, prec := -100, assoc := .none, fixity := .infix, structural := true,
        disabled := false, ctx := .lastIsSquare }
      [.struct [], .set []] = .error (.internal "NotImplementedError") := rfl

/-- C14.3  Tokenisation and token rewriting fail only with the parsing error, or with Python's
SyntaxError, and the latter only when a Python fragment found in the string is itself rejected by
the Python parser (`norm`, i.e. `ast.parse`). For every string and configuration. -/
theorem pySyntax_only_from_fragment (cfg : ParseCfg) (env : PyEnv) (cs : List CharInfo) (e : ParseErr)
    (hnorm : ∀ t x, env.norm t = .error x → x = .syntaxError)
    (h : getTokens cfg env cs = .error e) :
    (∃ w, e = .syntax w) ∨
    (e = .pySyntax ∧ ∃ t ∈ (tokenizeStream cs).1, t.kind = some .python ∧ env.norm t.text = .error .syntaxError) :=
  Proofs.C14.pySyntax_only_from_fragment cfg env cs e hnorm h

/-! ### MULTISTAGE: everything except the signature of finding C14-F1 -/

open Proofs.C14Multistage in
/-- C14.6  **All eight flag subsets.** Whenever `parseTerms` ends in an internal exception, that
exception is the `NotImplementedError` of finding C14-F1, and its cause is visible in the syntax
tree: tokenisation succeeded, the shunting-yard returned a tree `a`, and some multistage `~` of `a`
has another multistage `~` inside its left argument (`lhsFlat a = false`). No `TypeError`,
`ValueError`, `StopIteration`, `AttributeError`, `KeyError`, `RecursionError` (fuel) … for any
string under any configuration. -/
theorem internal_error_only_nested_multistage (cfg : ParseCfg) (env : PyEnv)
    (hnorm : ∀ t x, env.norm t = .error x → x = .syntaxError) (cs : List CharInfo) (k : String)
    (h : parseTerms cfg env cs = .error (.internal k)) :
    k = "NotImplementedError" ∧ cfg.multistage = true ∧
    ∃ ts lhs a, getTokens cfg env cs = .ok (ts, lhs) ∧ tokensToAst cfg.table ts = .ok (some a) ∧
      lhsFlat a = false := by
  obtain ⟨h1, h2⟩ := parseTerms_internal cfg env hnorm cs k h
  refine ⟨h1, ?_, h2⟩
  cases hms : cfg.multistage with
  | true => rfl
  | false => exact absurd h (no_internal_error cfg hms env hnorm cs k)

open Proofs.C14Multistage in
/-- C14.6'  `no_internal_error` for MULTISTAGE parsers on every string EXCEPT the finding's signature:
if no multistage `~` of the tree has a multistage `~` inside its left argument, nothing internal
escapes. (The hypothesis speaks about the tree the model's own shunting-yard returns for the string;
it is decidable, and trivially true when the string has no `[`.) -/
theorem no_internal_error_multistage_partial (cfg : ParseCfg) (env : PyEnv)
    (hnorm : ∀ t x, env.norm t = .error x → x = .syntaxError) (cs : List CharInfo)
    (hflat : ∀ ts lhs a, getTokens cfg env cs = .ok (ts, lhs) → tokensToAst cfg.table ts = .ok (some a) →
      lhsFlat a = true) :
    ∀ k, parseTerms cfg env cs ≠ .error (.internal k) := by
  intro k h
  obtain ⟨_, ts, lhs, a, h1, h2, h3⟩ := parseTerms_internal cfg env hnorm cs k h
  rw [hflat ts lhs a h1 h2] at h3
  cases h3

/-- C14.7  Termination of the fuelled recursion of the model (`Structured._merge`): the fuel
`vs.length + 64` given by `evalAst` is never exhausted, for any string and any configuration. -/
theorem merge_fuel_suffices (cfg : ParseCfg) (env : PyEnv)
    (hnorm : ∀ t x, env.norm t = .error x → x = .syntaxError) (cs : List CharInfo) :
    parseTerms cfg env cs ≠ .error (.internal "RecursionError") := by
  intro h
  have := (internal_error_only_nested_multistage cfg env hnorm cs _ h).1
  exact absurd this (by decide)

private def nm (s : String) : Tok := { text := s.toList, kind := some .name }
private def opT (s : String) : Tok := { text := s.toList, kind := some .operator }
private def cx (s : String) : Tok := { text := s.toList, kind := some .context }

open Proofs.C14Multistage in
/-- negative witness for the excluded case (`[[a ~ b] ~ c]`): the tree is not `lhsFlat` and its
evaluation IS the internal `NotImplementedError` -/
theorem nested_multistage_escapes :
    (match tokensToAst (Gen.defaultTable true true true)
        [cx "[", cx "[", nm "a", opT "~", nm "b", cx "]", opT "~", nm "c", cx "]"] with
      | .ok (some a) => !lhsFlat a && (match evalAst ⟨none, []⟩ a with
          | .error (.internal k) => k == "NotImplementedError" | _ => false)
      | _ => false) = true := by decide

open Proofs.C14Multistage in
/-- the hypothesis of C14.6' is satisfiable by genuinely multistage input: `[a ~ [b ~ c]] + d` is
`lhsFlat` (the nested stage is on the RIGHT) and evaluates to a structure -/
example :
    (match tokensToAst (Gen.defaultTable true true true)
        [cx "[", nm "a", opT "~", cx "[", nm "b", opT "~", nm "c", cx "]", cx "]", opT "+", nm "d"] with
      | .ok (some a) => lhsFlat a && !stageFree a && (match evalAst ⟨none, []⟩ a with
          | .ok (.struct _) => true | _ => false)
      | _ => false) = true := by decide

/-! ### termination of the one `while True` loop of the parser -/

open Model.SignLoop in
/-- C14.8  **The sign-collapsing loop of `DefaultOperatorResolver.resolve` terminates**: run with
more fuel than the operator token has characters (every iteration shortens the string), the loop
`while True: m = re.search(r"[+\-]{2,}", symbol) …` breaks, and the string it leaves is the one-pass
function `collapseSigns` that the parser model (and C01) uses. For every string. -/
theorem resolve_loop_terminates (s : List Char) (n : Nat) (h : s.length < n) :
    collapseLoop n s = some (collapseSigns s) :=
  Proofs.C14Loop.collapseLoop_terminates n s h

open Model.SignLoop in
/-- C14.8'  hence `resolve` with the loop as written (the function the `resolve` correspondence runs)
is the `resolveToken` of the parser model, for every operator table and token: it never runs out of fuel. -/
theorem resolve_loop_is_one_pass (tab : OpTable) (text : List Char) :
    resolveTokenLoop tab text = resolveToken tab text :=
  Proofs.C14Loop.resolveTokenLoop_eq tab text

open Model.SignLoop in
/-- the loop does iterate: three rewrites for `+--~-+|++` -/
example : collapseLoop 3 "+--~-+|++".toList = none ∧ collapseLoop 4 "+--~-+|++".toList = some "+~-|+".toList := by
  decide

/-! ### every entry point of the parser -/

open Model.ParseApi in
/-- C14.9  `parse(formula, target=…)` of `DefaultFormulaParser`, for EVERY target level (FORMULA, TOKENS,
AST, TERMS — integer, string or enum; also `get_tokens` / `get_ast` / `get_terms`): an internal
exception at any target is an internal exception of `get_terms`, so by C14.6 it can only be the
nested-multistage `NotImplementedError` under the MULTISTAGE flag. -/
theorem parse_targets_internal (lv : Levels) (lvl : Nat) (cfg : ParseCfg) (env : PyEnv)
    (hnorm : ∀ t x, env.norm t = .error x → x = .syntaxError) (cs : List CharInfo) (k : String)
    (h : defaultParseTo lv lvl cfg env cs = .error (.internal k)) :
    k = "NotImplementedError" ∧ cfg.multistage = true := by
  have := internal_error_only_nested_multistage cfg env hnorm cs k
    (Proofs.C14Api.defaultParseTo_internal lv lvl cfg env hnorm cs k h)
  exact ⟨this.1, this.2.1⟩

open Model.ParseApi in
/-- C14.9'  at the TERMS level of the live `Target` enum, `parse` IS `get_terms` (the function of C14.5/6) -/
theorem parse_at_terms_is_get_terms (lv : Levels) (hlv : levels = some lv) (lvl : Nat) (h : lv.terms ≤ lvl)
    (cfg : ParseCfg) (env : PyEnv) (cs : List CharInfo) :
    defaultParseTo lv lvl cfg env cs = (parseTerms cfg env cs).map Out.terms :=
  Proofs.C14Api.defaultParseTo_terms lv hlv lvl h cfg env cs

open Model.ParseApi in
/-- C14.10  The BASE class `FormulaParser(operator_resolver=DefaultOperatorResolver(flags))`, whose
shunting-yard pulls tokens one at a time from the lazy chain `sanitize_tokens(tokenize(formula))`
(no intercept rewriting, no `check_terms`): for every string, target and flag subset, an internal
exception can only be the nested-multistage `NotImplementedError` under the MULTISTAGE flag.
(True of the code after the repair of `insert_unused_terms`: before it, `.` raised `KeyError` here.) -/
theorem base_parser_internal (lv : Levels) (lvl : Nat) (twosided multipart multistage : Bool) (env : PyEnv)
    (hnorm : ∀ t x, env.norm t = .error x → x = .syntaxError) (cs : List CharInfo) (k : String)
    (h : baseParseTo lv lvl (Gen.defaultTable twosided multipart multistage) env cs = .error (.internal k)) :
    k = "NotImplementedError" ∧ multistage = true :=
  Proofs.C14Api.baseParseTo_internal lv lvl twosided multipart multistage env hnorm cs k h

open Model.ParseApi in
/-- C14.10'  the tree the base class builds from its lazy token stream is a tree of the list-based
shunting-yard (so C14.1 and C14.4 apply to it), and its failures are the parsing error or a fragment's
SyntaxError -/
theorem base_parser_tree (tab : OpTable) (env : PyEnv)
    (hnorm : ∀ t x, env.norm t = .error x → x = .syntaxError) (cs : List CharInfo) :
    (∀ oa, baseAst tab env cs = .ok oa → ∃ ts, tokensToAst tab ts = .ok oa) ∧
    (∀ e, baseAst tab env cs = .error e → (∃ w, e = .syntax w) ∨ e = .pySyntax) :=
  Proofs.C14Api.baseAst_spec tab env hnorm cs

open Model.FormulaSpec Proofs.C14Spec in
/-- C14.11  **`Formula(<specification>)` beyond a single string**: for every specification TREE —
strings, `Term` objects, existing `Formula` objects, leaves that are no specification at all (`None`,
numbers, bytes, …), lists, tuples, dictionaries, keyword structure, nested without bound — with
structure keys that do not start with an underscore, and for every pair of parsers: the outcome is a
formula, the parsing error, a fragment's SyntaxError or `FormulaInvalidError`; an internal exception
only as the `NotImplementedError` of C14-F1 when one of the two parsers has the MULTISTAGE flag. -/
theorem formula_spec_internal (P N : Option ParseCfg) (root : Option Spec) (kw : List (String × Spec))
    (hroot : ∀ r, root = some r → specOk r) (hkw : fieldsOk kw) (k : String)
    (h : formulaCall P N root kw = .error (.internal k)) :
    k = "NotImplementedError" ∧ ((parsersOf P N).1.multistage = true ∨ (parsersOf P N).2.multistage = true) :=
  formulaCall_internal P N root kw hroot hkw k h

open Model.FormulaSpec in
/-- the underscore hypothesis is what excludes the `ValueError` of `Structured.__init__` -/
example : formulaCall none none (some (.dict [("_a", .other)])) [] = .error (.internal "ValueError") := by
  simp [formulaCall, fromSpec, badKey]

open Model.FormulaSpec in
/-- the hypotheses are satisfiable by trees with every kind of leaf; a leaf that is no specification
gives `FormulaInvalidError`, not an internal exception -/
example : Proofs.C14Spec.specOk (.dict [("a", .tuple [.other, .list [.term [], .other]]), ("root", .formula (.set []))]) ∧
    formulaCall none none (some (.dict [("a", .tuple [.other, .list [.term [], .other]])])) [] = .error .invalid := by
  refine ⟨?_, ?_⟩
  · simp [Proofs.C14Spec.specOk, Proofs.C14Spec.fieldsOk, Proofs.C14Spec.specsOk, Proofs.C14Spec.itemOk, badKey]
  · simp [formulaCall, fromSpec, fieldVals, tupleVals, badKey]

open Model.ParseApi Proofs.ShuntSound in
/-- C14.12  **`Token.to_factor` never raises on a leaf**: in every tree that any of the eight parsers
returns for any string, every leaf is a value / name / python token, on which `to_factor` (whose
`KeyError` for operator and context tokens and `RuntimeError` for an unset kind are read from the
live package) succeeds and returns exactly the factor the model's `evalAst` uses. -/
theorem leaves_accepted_by_to_factor (cfg : ParseCfg) (env : PyEnv) (cs : List CharInfo) (ts lhs : List Tok) (a : Ast)
    (hg : getTokens cfg env cs = .ok (ts, lhs)) (ha : tokensToAst cfg.table ts = .ok (some a)) :
    ∀ t ∈ leavesOf (yield a), ∃ f, toFactorE t = .ok f ∧ termOfTok t = [f] :=
  fun t ht => Proofs.C14Leaves.toFactorE_leaf t (Proofs.C14Leaves.leaves_have_kinds cfg env cs ts lhs a hg ha t ht)

/-! ### the finite tables of the API, read from the live package -/

open Model.ParseApi in
/-- C14.13  the feature flags given as a set of NAMES (any case) denote the flag subset, for all 16
parser configurations; the aliases `default` / `all` / `none` denote what the enum says; an unknown
name is Python's `AttributeError` (a configuration error) -/
theorem feature_flag_names_denote (ic tw mp ms : Bool) :
    cfgOfNames ic ((if tw then ["twosided"] else []) ++ (if mp then ["MULTIPART"] else []) ++
        (if ms then ["Multistage"] else []))
      = .ok { includeIntercept := ic, twosided := tw, multipart := mp, multistage := ms } := by
  cases ic <;> cases tw <;> cases mp <;> cases ms <;> rfl

open Model.ParseApi in
theorem feature_flag_aliases :
    cfgOfNames true ["default"] = .ok {} ∧ cfgOfNames true ["all"] = .ok { multistage := true } ∧
    cfgOfNames true ["none"] = cfgOfNames true [] ∧ cfgOfNames true ["bogus"] = .error (.internal "AttributeError") :=
  ⟨rfl, rfl, rfl, rfl⟩

open Model.ParseApi in
/-- C14.13'  the live `Target` enum is ordered FORMULA < TOKENS < AST < TERMS (the thresholds `parse`
compares with), and the context markers of `tokens_to_ast` are the two bracket pairs the model's
shunting-yard hard-codes -/
theorem api_tables_live :
    levels = some ⟨1, 2, 3⟩ ∧ levelOf (.name "Terms") = .ok 3 ∧ levelOf (.int 0) = .ok 0 ∧
    levelOf (.int 7) = .error (.internal "ValueError") ∧ levelOf (.name "bogus") = .error (.internal "KeyError") ∧
    Gen.ParseApi.contextOpeners = ["(", "["] ∧ Gen.ParseApi.contextClosers = [(")", "("), ("]", "[")] := by
  refine ⟨by decide, rfl, rfl, rfl, rfl, by decide, by decide⟩

/-! ### independence of the evaluation order -/

open Model.EvalOrder in
/-- C14.14  `ASTNode.to_terms` evaluates in the order `graphlib` hands out ready nodes, the model
depth-first; when several nodes fail, the exception that escapes may differ. Whatever the order, it is
the error of a MINIMAL failing node (one whose arguments all evaluate): the model's own error is one of
them, and no error of any of them is an internal exception other than the `NotImplementedError` of
C14-F1 — for every string and every configuration. (The `terms` / `api` correspondence accepts the
implementation's class iff it is in this set.) -/
theorem first_error_any_order (cfg : ParseCfg) (env : PyEnv)
    (hnorm : ∀ t x, env.norm t = .error x → x = .syntaxError) (cs : List CharInfo) :
    (∀ e, parseTerms cfg env cs = .error e → e ∈ possibleErrors cfg env cs) ∧
    (∀ e ∈ possibleErrors cfg env cs, ∀ k, e = .internal k → k = "NotImplementedError") :=
  ⟨fun e h => Proofs.C14Order.parseTerms_error_possible cfg env cs e h,
   Proofs.C14Order.possibleErrors_internal cfg env hnorm cs⟩

open Model.EvalOrder in
/-- and a tree evaluates iff it has no minimal failing node -/
theorem evaluates_iff_no_failing_node (dot : DotCtx) (a : Ast) :
    minimalErrors dot a = [] ↔ ∃ v, evalAst dot a = .ok v :=
  ⟨Proofs.C14Order.minimalErrors_nil dot a, fun ⟨v, hv⟩ => Proofs.C14Order.minimalErrors_ok dot a v hv⟩

/-! ### `sanitize_python_code`: only `format_expr` (CPython) is left as a parameter -/

open Model.PyAlias in
/-- C14.15  **The alias-collision loop of `sanitize_variable_name` terminates**
(`while aliases.get(new_name, name) != name or (new_name in env and …) or keyword.iskeyword(new_name) or
new_name in reserved: suffix += 1; …`): for every template, `str.isspace`, environment and fragment the
alias pass returns (the model never reports an exhausted loop bound). The candidates are pairwise
different and only finitely many strings can be refused; proved for the model of the repaired code that
the engine runs (`Model/PyAlias.lean`, shared with C15: `Proofs/C15Loop.lean`). -/
theorem alias_loop_terminates (cfg : Cfg) (isSpace : Char → Bool) (env : List (List Char)) (expr : List Char) :
    ∃ r, sanitizeNames cfg isSpace env expr = some r :=
  Proofs.C15Loop.sanitizeNames_total cfg isSpace env expr

open Model.SanitizeNames in
/-- C14.16  **`sanitize_python_code` fails only with SyntaxError**, for every token text and every
`str.isspace`: the back-quote matcher, the reserved words, the base name (`base_name[0]` is guarded), the
alias loop and the one-pass restoration of aliases cannot raise; the only source of failure is
`format_expr`, whose `RecursionError` / `MemoryError` / `UnicodeError` the code converts. -/
theorem normaliser_fails_only_with_syntax_error (isSpace : Char → Bool) (fmt : List Char → Except FmtErr (List Char))
    (hfmt : Proofs.C14Sanitize.FmtOk fmt) (t : List Char) (x : PyErr)
    (h : sanitizePythonCode isSpace fmt t = .error x) : x = .syntaxError :=
  Proofs.C14Sanitize.sanitize_only_syntax isSpace fmt hfmt t x h

private def asciiSpace : Char → Bool := fun c => c == ' '

open Model.SanitizeNames in
/-- the hypothesis of C14.16 is satisfied by a `format_expr` that does fail, and then the normaliser fails
with exactly SyntaxError -/
example : Proofs.C14Sanitize.FmtOk (fun _ => .error ⟨["SyntaxError", "Exception", "BaseException", "object"]⟩) ∧
    (match sanitizePythonCode asciiSpace (fun _ => .error ⟨["SyntaxError", "Exception", "BaseException", "object"]⟩)
        "f(1 +)".toList with
      | .error .syntaxError => true | _ => false) = true := by
  refine ⟨fun u e h => ?_, by decide +kernel⟩
  injection h with h
  subst h
  exact Or.inr rfl

open Model.SanitizeNames in
/-- the modelled logic does something: colliding names get numbered aliases that avoid the words of the
code itself, a repeated name its first alias, a keyword gets an alias, and the aliases are restored
after formatting -/
example :
    (match PyAlias.sanitizeNames { pre := PyAlias.formulaicPrefix, ident := fun _ => false } asciiSpace []
        "f(`a b`, `a.b`, `a b`, _formulaic_a_b_1)".toList with
      | some (s1, _, _) => s1 == "f( _formulaic_a_b ,  _formulaic_a_b_2 ,  _formulaic_a_b , _formulaic_a_b_1)".toList
      | none => false) = true ∧
    (match sanitizePythonCode asciiSpace (fun e => .ok e) "f(`a b`, `1`, `class`)".toList with
      | .ok r => r == "f( `a b` ,  `1` ,  `class` )".toList | .error _ => false) = true := by
  refine ⟨by decide +kernel, by decide +kernel⟩

open Model.SanitizeNames in
/-- C14.17  C14.6 with the assumption pushed down to CPython: with the normaliser computed by the model
around `format_expr` (this is what the correspondence runs), for every string, every configuration and
every `str.isspace`, an internal exception of `get_terms` is the nested-multistage
`NotImplementedError` under the MULTISTAGE flag — assuming only that `ast.parse` / `ast.unparse` raise
nothing but SyntaxError, RecursionError, MemoryError or a UnicodeError. -/
theorem internal_error_down_to_format_expr (cfg : ParseCfg) (isSpace : Char → Bool)
    (fmt : List Char → Except FmtErr (List Char)) (hfmt : Proofs.C14Sanitize.FmtOk fmt)
    (pyvars : List Char → List String) (available : Option (List String)) (cs : List CharInfo) (k : String)
    (h : parseTerms cfg { norm := sanitizePythonCode isSpace fmt, pyvars := pyvars, available := available } cs
          = .error (.internal k)) :
    k = "NotImplementedError" ∧ cfg.multistage = true := by
  have := internal_error_only_nested_multistage cfg _
    (fun t x hx => Proofs.C14Sanitize.sanitize_only_syntax isSpace fmt hfmt t x hx) cs k h
  exact ⟨this.1, this.2.1⟩

open Model.PyAlias in
/-- how the back-quote matcher reads quotes (the repaired `UNQUOTED_BACKTICK_MATCHER`): a back-quote inside
a string literal is text, a quote inside a back-quoted name does not start a string, an escaped quote
outside a string is a match of its own, and a string without a closing quote is no match at all -/
example :
    split "f(\"a`b\", `x y`)".toList = [.text "f(".toList, .lit "\"a`b\"".toList, .text ", ".toList, .name "x y".toList, .text [')']] ∧
    split "f(`a\"b`, \"c\")".toList = [.text "f(".toList, .name "a\"b".toList, .text ", ".toList, .lit "\"c\"".toList, .text [')']] ∧
    split "\\\"`a`".toList = [.text [], .lit "\\\"".toList, .text [], .name ['a'], .text []] ∧
    split "'a\\'b".toList = [.text "'a".toList, .lit "\\'".toList, .text ['b']] := by decide +kernel

open Model.FormulaSpec in
/-- C14.18  Termination of the fuelled `Structured._simplify` of the specification model: any fuel above
the nesting depth of the value gives the same result, so the fuel `depth + 2` that `Formula(<spec>)`
uses is never what ends the recursion. -/
theorem simplify_fuel_suffices (v : Val) (unwrap : Bool) (extra : Nat) :
    simplify (valDepth v + 1 + extra) unwrap v = simplify (valDepth v + 1) unwrap v :=
  Proofs.C14Spec.simplify_fuel v unwrap extra

/-! ### `**` / `^`: the capped expansion of the code is the literal expansion of the model -/

/-- C14.19  **`S ** (n+1) = S ** n` as ORDERED term sets for every exponent `n ≥ max |S| 1`** — the same
terms, the same representatives (factor order) and the same first-occurrence order, for every ordered
set `S` of terms with distinct factors (`Term.WF`: what `Term.__init__` guarantees) — `S` may list the
same term identity several times. `powTerms arg n` de-duplicates the products of all `n`-tuples over
`arg` in `itertools.product` order; the `(n+1)`-tuples `(t, t, …)` reproduce the `n`-tuples `(t, …)` in
order, and every other `(n+1)`-tuple has the identity of an earlier one. -/
theorem power_stable (arg : List Term) (hwf : ∀ t ∈ arg, Term.WF t) (n : Nat) (h : max arg.length 1 ≤ n) :
    powTerms arg (n + 1) = powTerms arg n :=
  Proofs.C14Power.power_stable arg hwf n h

/-- C14.19'  without any assumption on the terms, from the second power on (products are normalised) -/
theorem power_stable_any (arg : List Term) (n : Nat) (h : max arg.length 2 ≤ n) :
    powTerms arg (n + 1) = powTerms arg n :=
  Proofs.C14Power.power_stable_any arg n h

/-- C14.20  **what the code computes is what the model computes**: `power()` of `parser.py` expands
`copies = min(exponent, max(len(arg), 1))` factors; the literal `exponent`-fold product of the model is
the same ordered term set, for every exponent (so exponents of any number of digits cost no more than
`len(arg)` copies, and the `bigexp` oracle stream compares with the right value). -/
theorem power_capped (arg : List Term) (hwf : ∀ t ∈ arg, Term.WF t) (n : Nat) :
    powTerms arg n = powTerms arg (min n (max arg.length 1)) :=
  Proofs.C14Power.power_capped arg hwf n

/-- C14.21  The assumption of C14.19/20 is an invariant of the operators: every non-structural `to_terms`
callable (`+ - * / %in% : ** ^`, the unary signs, `.`) returns terms with distinct factors when its
arguments consist of such terms (products are built by `Term.__mul__`, which de-duplicates; everything
else selects terms of the arguments). -/
theorem plain_ops_keep_distinct_factors (o : OpSpec) (dot : DotCtx) (args : List (List Term)) (r : List Term)
    (h : ∀ a ∈ args, ∀ t ∈ a, Term.WF t) (hr : applyPlain o dot args = .ok r) : ∀ t ∈ r, Term.WF t :=
  Proofs.C14Power.applyPlain_wf o dot args r h hr

/-- C14.20'  hence, with NO assumption, for every base expression of the arithmetic fragment of C14.2
(unbounded nesting, powers of powers included): the term set `ts` it evaluates to satisfies
`ts ** n = ts ** min(n, max(len(ts), 1))` for every exponent — the literal expansion of the model and the
capped expansion of the code are the same ordered term set. -/
theorem power_capped_plain (dot : DotCtx) (e : E) (h : Proofs.C14.PlainE e) (ts : List Term)
    (hts : evalAst dot (strip e) = .ok (.set ts)) (n : Nat) :
    powTerms ts n = powTerms ts (min n (max ts.length 1)) :=
  power_capped ts (Proofs.C14Power.eval_plain_wf dot e h ts hts) n

private def pa : Term := [Factor.mk "a" .lookup]
private def pb : Term := [Factor.mk "b" .lookup]
private def pab : Term := [Factor.mk "a" .lookup, Factor.mk "b" .lookup]
private def pba : Term := [Factor.mk "b" .lookup, Factor.mk "a" .lookup]

/-- the hypotheses are satisfiable by a set where order and representatives matter (`b` comes before `a:b`,
so the product `b * (a:b)`, spelled `b:a`, is met first and represents that identity): the third power is
the list below, with `b:a` and not `a:b`, and so is the power with a 1001-digit exponent -/
example : (∀ t ∈ [pb, pab, pa], Term.WF t) ∧ powTerms [pb, pab, pa] 3 = [pb, pba, pa] ∧
    powTerms [pb, pab, pa] (10 ^ 1000) = powTerms [pb, pab, pa] 3 := by
  refine ⟨by decide, by decide, ?_⟩
  rw [power_capped _ (by decide) (10 ^ 1000)]
  have : min (10 ^ 1000) (max [pb, pab, pa].length 1) = 3 :=
    Nat.min_eq_right (Nat.le_trans (by decide : 3 ≤ 10 ^ 1) (Nat.pow_le_pow_right (by decide) (by decide)))
  rw [this]

/-- the bound is sharp: below the number of terms one more copy does change the set -/
example : powTerms [pa, pb] 2 ≠ powTerms [pa, pb] 1 ∧ powTerms [pa, pb] 3 = powTerms [pa, pb] 2 := by decide

/-- negative witness for the hypothesis of C14.19 at `n = 1`: a term that repeats a factor (no `Term` of the
library does) is normalised by the first multiplication -/
example : powTerms [[Factor.mk "a" .lookup, Factor.mk "a" .lookup]] 2 ≠ powTerms [[Factor.mk "a" .lookup, Factor.mk "a" .lookup]] 1 := by
  decide

end FormulaicVerif.Props.C14
