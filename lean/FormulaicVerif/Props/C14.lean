import FormulaicVerif.Model.Parser
import FormulaicVerif.Proofs.C14
/-! # C14 — Any input string is parsed or rejected with the library's parsing error

Property theorems only (helpers: `Proofs/C14.lean`). The model keeps every Python operation that
can raise something other than the parsing error as an explicit `ParseErr.internal` outcome
(`reduce` on an empty iterable, a misaligned `Structured._merge`, an unknown operator
implementation, the multistage `NotImplementedError`), so "internal exceptions never escape" is a
statement about reachability, not a typing artefact.

Proved for ALL inputs: every failure of tokenisation + token rewriting is the parsing error or the
SyntaxError of an invalid Python fragment, and the latter only when such a fragment exists; every
failure of the shunting-yard (any token list, any operator table) is the parsing error; evaluation
of every expression of the arithmetic fragment (unbounded nesting) is a term set or the parsing
error. Parsing terminates because every model function is total (structural recursion; the two
fuelled functions `mergeVals`/`simplifyVal` are given fuel exceeding the value's depth).

FULL (unproved): `no_internal_error : (∀ t e, env.norm t = .error e → e = .syntaxError) →
parseTerms cfg env cs ≠ .error (.internal k)` for every string, all 8 flag subsets. Missing: the
invariant that structural operators (`~`, `|`, `[ ~ ]`) only occur on the top spine of every AST the
shunting-yard returns, which makes the `ValueError`/`TypeError` branches of `mergeVals` and
`applyStructural` unreachable. It is FALSE of the current code for MULTISTAGE parsers
(`[[a ~ b] ~ c]` raises NotImplementedError, pinned by the test-suite: known finding C14-F1); without
MULTISTAGE it is exercised exhaustively on short strings by the correspondence. -/
namespace FormulaicVerif.Props.C14
open FormulaicVerif FormulaicVerif.Model FormulaicVerif.Proofs.ShuntC

/-- C14.1  Every failure of the shunting-yard is the library's parsing error: for every token list
and EVERY operator table (so for all feature-flag subsets). -/
theorem shunt_errors_are_syntax (tab : OpTable) (ts : List Tok) (e : ParseErr)
    (h : tokensToAst tab ts = .error e) : ∃ w, e = .syntax w :=
  Proofs.C14.shunt_errors_are_syntax tab ts e h

/-- C14.2  Evaluating any expression of the arithmetic fragment (operators `+ - * / %in% : ** ^`,
unary signs, parentheses; unbounded nesting) gives a term set or the parsing error — the
`TypeError` of `reduce` on an empty parent set, the `StopIteration`/`TypeError` of a bad exponent
and the `ValueError` of a misaligned merge are unreachable. -/
theorem eval_plain_no_internal (dot : DotCtx) (e : E) (h : Proofs.C14.PlainE e) :
    (∃ ts, evalAst dot (strip e) = .ok (.set ts)) ∨ (∃ w, evalAst dot (strip e) = .error (.syntax w)) :=
  Proofs.C14.eval_plain_good dot e h

/-- the guards added by the repairs are what makes C14.2 true: the raw `reduce` does raise on `∅` -/
example : reduceMulTerms [] = .error (.internal "TypeError") := rfl
example (b : List Term) : ∃ w, nestedProduct [] b = .error (.syntax w) := ⟨_, rfl⟩

/-- C14.4  An operator disabled by the parser's feature flags never appears in a syntax tree the
shunting-yard returns — for every token list and every operator table; with C01.1 (the generated
table carries the flags) this is "operators disabled by parser feature flags are always rejected". -/
theorem disabled_never_used (tab : OpTable) (ts : List Tok) (a : Ast)
    (h : tokensToAst tab ts = .ok (some a)) : Proofs.C14.noDis a = true :=
  Proofs.C14.disabled_never_used tab ts a h

private theorem sanitize_err (norm : List Char → Except PyErr (List Char)) :
    ∀ (ts : List Tok) (e : PyErr), sanitizeTokens norm ts = .error e →
      ∃ t ∈ ts, t.kind = some .python ∧ norm t.text = .error e := by
  intro ts
  induction ts with
  | nil => intro e h; simp [sanitizeTokens] at h
  | cons t ts ih =>
    intro e h
    unfold sanitizeTokens at h
    simp only at h
    by_cases hd : (t.text == ['.'] && t.kind != some .name) = true
    · simp only [hd, if_true] at h
      have hk : ¬ ((some TKind.operator : Option TKind) == some .python) = true := by decide
      simp only [hk, Bool.false_eq_true, if_false] at h
      cases hr : sanitizeTokens norm ts with
      | error e' =>
        rw [hr] at h; injection h with h; subst h
        obtain ⟨t', ht', hp⟩ := ih _ hr
        exact ⟨t', by simp [ht'], hp⟩
      | ok r => rw [hr] at h; cases h
    · simp only [hd, Bool.false_eq_true, if_false] at h
      by_cases hp : (t.kind == some .python) = true
      · simp only [hp, if_true] at h
        cases hn : norm t.text with
        | error e' =>
          rw [hn] at h
          simp only [Except.map] at h
          injection h with h; subst h
          exact ⟨t, by simp, by simpa using hp, hn⟩
        | ok x =>
          rw [hn] at h
          simp only [Except.map] at h
          cases hr : sanitizeTokens norm ts with
          | error e' =>
            rw [hr] at h; injection h with h; subst h
            obtain ⟨t', ht', hp'⟩ := ih _ hr
            exact ⟨t', by simp [ht'], hp'⟩
          | ok r => rw [hr] at h; cases h
      · simp only [hp, Bool.false_eq_true, if_false] at h
        cases hr : sanitizeTokens norm ts with
        | error e' =>
          rw [hr] at h; injection h with h; subst h
          obtain ⟨t', ht', hp'⟩ := ih _ hr
          exact ⟨t', by simp [ht'], hp'⟩
        | ok r => rw [hr] at h; cases h

/-- C14.3  Tokenisation and token rewriting fail only with the parsing error, or with Python's
SyntaxError, and the latter only when a Python fragment found in the string is itself rejected by
the Python parser (`norm`, i.e. `ast.parse`). For every string and configuration. -/
theorem pySyntax_only_from_fragment (cfg : ParseCfg) (env : PyEnv) (cs : List CharInfo) (e : ParseErr)
    (hnorm : ∀ t x, env.norm t = .error x → x = .syntaxError)
    (h : getTokens cfg env cs = .error e) :
    (∃ w, e = .syntax w) ∨
    (e = .pySyntax ∧ ∃ t ∈ (tokenizeStream cs).1, t.kind = some .python ∧ env.norm t.text = .error .syntaxError) := by
  unfold getTokens at h
  simp only at h
  cases hs : sanitizeTokens env.norm (tokenizeStream cs).1 with
  | error x =>
    rw [hs] at h
    injection h with h
    obtain ⟨t, ht, hk, hn⟩ := sanitize_err env.norm _ _ hs
    have hx := hnorm _ _ hn
    subst hx
    right
    exact ⟨by rw [← h]; rfl, t, ht, hk, hn⟩
  | ok ts =>
    rw [hs] at h
    simp only at h
    cases hl : (tokenizeStream cs).2 with
    | none => rw [hl] at h; cases h
    | some le =>
      rw [hl] at h
      injection h with h
      left
      cases le <;> exact ⟨_, h.symm⟩

end FormulaicVerif.Props.C14
