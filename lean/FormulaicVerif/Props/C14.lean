import FormulaicVerif.Model.Parser
import FormulaicVerif.Proofs.C14
import FormulaicVerif.Proofs.C14General
/-! # C14 — Any input string is parsed or rejected with the library's parsing error

Property theorems only (helpers: `Proofs/C14.lean`). The model keeps every Python operation that
can raise something other than the parsing error as an explicit `ParseErr.internal` outcome
(`reduce` on an empty iterable, a misaligned `Structured._merge`, an unknown operator
implementation, the multistage `NotImplementedError`), so "internal exceptions never escape" is a
statement about reachability, not a typing artefact.

Proved for ALL inputs: every failure of tokenisation + token rewriting is the parsing error or the
SyntaxError of an invalid Python fragment, and the latter only when such a fragment exists; every
failure of the shunting-yard (any token list, any operator table) is the parsing error; evaluation
of every expression of the arithmetic fragment (unbounded nesting) is a term set or the parsing
error. Parsing terminates because every model function is total (structural recursion; the two
fuelled functions `mergeVals`/`simplifyVal` are given fuel exceeding the value's depth).

For parsers WITHOUT the experimental MULTISTAGE flag the unrestricted statement is proved
(`no_internal_error`, `eval_no_internal`; helpers in `Proofs/C14General.lean`: a shape invariant of
the shunting-yard loop — no structural operator ever sits below a non-structural one — via the
context-acceptance rules of `~` and `|`).

FULL (unproved, and FALSE of the current code): the same statement with MULTISTAGE enabled —
`[[a ~ b] ~ c]` raises NotImplementedError, which the pinned test-suite demands (known finding
C14-F1); with MULTISTAGE the tree invariant itself fails (`[a ~ b] + c` puts a structural operator
below `+`). That configuration is covered by the correspondence and the outcome-class oracle only. -/
namespace FormulaicVerif.Props.C14
open FormulaicVerif FormulaicVerif.Model FormulaicVerif.Proofs.ShuntC

/-- C14.1  Every failure of the shunting-yard is the library's parsing error: for every token list
and EVERY operator table (so for all feature-flag subsets). -/
theorem shunt_errors_are_syntax (tab : OpTable) (ts : List Tok) (e : ParseErr)
    (h : tokensToAst tab ts = .error e) : ∃ w, e = .syntax w :=
  Proofs.C14.shunt_errors_are_syntax tab ts e h

/-- C14.2  Evaluating any expression of the arithmetic fragment (operators `+ - * / %in% : ** ^`,
unary signs, parentheses; unbounded nesting) gives a term set or the parsing error — the
`TypeError` of `reduce` on an empty parent set, the `StopIteration`/`TypeError` of a bad exponent
and the `ValueError` of a misaligned merge are unreachable. -/
theorem eval_plain_no_internal (dot : DotCtx) (e : E) (h : Proofs.C14.PlainE e) :
    (∃ ts, evalAst dot (strip e) = .ok (.set ts)) ∨ (∃ w, evalAst dot (strip e) = .error (.syntax w)) :=
  Proofs.C14.eval_plain_good dot e h

/-- the guards added by the repairs are what makes C14.2 true: the raw `reduce` does raise on `∅` -/
example : reduceMulTerms [] = .error (.internal "TypeError") := rfl
example (b : List Term) : ∃ w, nestedProduct [] b = .error (.syntax w) := ⟨_, rfl⟩

/-- C14.4  An operator disabled by the parser's feature flags never appears in a syntax tree the
shunting-yard returns — for every token list and every operator table; with C01.1 (the generated
table carries the flags) this is "operators disabled by parser feature flags are always rejected". -/
theorem disabled_never_used (tab : OpTable) (ts : List Tok) (a : Ast)
    (h : tokensToAst tab ts = .ok (some a)) : Proofs.C14.noDis a = true :=
  Proofs.C14.disabled_never_used tab ts a h

/-- C14.5  **No internal exception escapes**, for every input string, both intercept settings and every
TWOSIDED/MULTIPART subset (MULTISTAGE off), provided the Python normaliser raises nothing but
SyntaxError: `parseTerms` returns a term structure, the parsing error, or the SyntaxError of a
fragment — never `StopIteration`, `TypeError`, `ValueError`, `AttributeError`, `KeyError`, … -/
theorem no_internal_error (cfg : ParseCfg) (hms : cfg.multistage = false) (env : PyEnv)
    (hnorm : ∀ t x, env.norm t = .error x → x = .syntaxError) (cs : List CharInfo) :
    ∀ k, parseTerms cfg env cs ≠ .error (.internal k) :=
  Proofs.C14General.parseTerms_no_internal cfg hms env hnorm cs

/-- C14.5'  the evaluation half on its own, stated on the table regenerated from the live resolver -/
theorem eval_no_internal (twosided multipart : Bool) (dot : DotCtx) (ts : List Tok) (a : Ast)
    (h : tokensToAst (Gen.defaultTable twosided multipart false) ts = .ok (some a)) :
    ∀ k, evalAst dot a ≠ .error (.internal k) :=
  Proofs.C14General.eval_no_internal_live twosided multipart dot ts a h

/-- the MULTISTAGE exclusion is not decoration: with the flag on, the model (like the code, finding
C14-F1) returns an internal NotImplementedError for a structured left-hand side -/
example : applyStructural
      { symbol := "~", arity := 2, prec := -100, assoc := .none, fixity := .infix, structural := true,
        disabled := false, ctx := .lastIsSquare }
      [.struct [], .set []] = .error (.internal "NotImplementedError") := rfl

/-- C14.3  Tokenisation and token rewriting fail only with the parsing error, or with Python's
SyntaxError, and the latter only when a Python fragment found in the string is itself rejected by
the Python parser (`norm`, i.e. `ast.parse`). For every string and configuration. -/
theorem pySyntax_only_from_fragment (cfg : ParseCfg) (env : PyEnv) (cs : List CharInfo) (e : ParseErr)
    (hnorm : ∀ t x, env.norm t = .error x → x = .syntaxError)
    (h : getTokens cfg env cs = .error e) :
    (∃ w, e = .syntax w) ∨
    (e = .pySyntax ∧ ∃ t ∈ (tokenizeStream cs).1, t.kind = some .python ∧ env.norm t.text = .error .syntaxError) :=
  Proofs.C14.pySyntax_only_from_fragment cfg env cs e hnorm h

end FormulaicVerif.Props.C14
