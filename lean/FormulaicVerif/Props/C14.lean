import FormulaicVerif.Model.Parser
/-! # C14 (work in progress) -/
namespace FormulaicVerif.Props.C14
end FormulaicVerif.Props.C14
