import FormulaicVerif.Proofs.C10Dict
import FormulaicVerif.Proofs.C10Split
import FormulaicVerif.Proofs.C10Cols
import FormulaicVerif.Proofs.C10Vars
import FormulaicVerif.Proofs.C10Subset
import FormulaicVerif.Proofs.C10Sort
import FormulaicVerif.Proofs.C10Factors
import FormulaicVerif.Proofs.C10Source
import FormulaicVerif.Proofs.C10Order
import FormulaicVerif.Proofs.C10Specs
import FormulaicVerif.Gen.SpecMetaTable
/-! # C10 — Model-spec metadata indexes the generated columns truthfully

Property theorems only (helper lemmas: `Proofs/C10Dict.lean`, `Proofs/C10Split.lean`,
`Proofs/C10Cols.lean`, `Proofs/C10Vars.lean`, `Proofs/C10Subset.lean`, `Proofs/C10Sort.lean`). They are about the executable model
`Model/SpecMeta.lean` of `ModelSpec`'s derived metadata, which the engine `c10` runs against the
real code on every check. All theorems quantify over EVERY structure (any number of terms, any
factor order, zero-column rows, repeated column labels) — hypotheses are stated explicitly and shown
to be necessary by counterexamples on the model. Reference notions: `blocks` (rows with the offset
of their first column), `DistinctTerms`, `DistinctPrinted`, `GoodExpr` (in `Proofs/`). -/

namespace FormulaicVerif.Props.C10
open FormulaicVerif.Model.SpecMeta FormulaicVerif.Proofs.C10

/-! ### a concrete instance used by the non-vacuity examples: `1 + B:A + b:a:C(A) + G`
(`B:A` and `b:a:C(A)` are not in alphabetical order, `G` generates no column) -/

/-- a data column used as a value / a transform used as a callable -/
def dv (n : Str) : Var := ⟨n, true, false, some "data".toList⟩
def tv (n : Str) : Var := ⟨n, false, true, some "transforms".toList⟩
def sf (e : Str) (vs : List Var) : SFactor := ⟨e, some vs⟩

def demo : Structure :=
  [ ⟨[['1']], [[]], [['I']]⟩,
    ⟨[['B'], ['A']], [[sf ['B'] [dv ['B']], sf ['A'] [dv ['A']]]],
      [['B', 'y', ':', 'A', 'a'], ['B', 'y', ':', 'A', 'b']]⟩,
    ⟨[['b'], ['a'], ['C', '(', 'A', ')']],
      [[sf ['b'] [dv ['b']], sf ['a'] [dv ['a']], sf ['C', '(', 'A', ')'] [dv ['A'], tv ['C']]]],
      [['b', ':', 'a', ':', 'A', 'a'], ['b', ':', 'a', ':', 'A', 'b']]⟩,
    ⟨[['G']], [], []⟩ ]

example : DistinctTerms demo := by decide
example : DistinctPrinted demo := by decide
example : ∀ r ∈ demo, ∀ e ∈ r.term, GoodExpr e := by decide

/-- C10.1  The reported column names are the labels of the matrix. Positional assembly (every
output of the pandas materializer, sparse output of the narwhals materializer): always, whatever
labels repeat. Name-keyed assembly (the other narwhals outputs): exactly when no label repeats — a
name-keyed frame cannot hold two columns of one name (finding C10-F2). -/
theorem names_eq_labels (st : Structure) :
    (∀ out, matrixLabels (combineMode .pandas out) st = columnNames st) ∧
    matrixLabels (combineMode .narwhals .sparse) st = columnNames st ∧
    (∀ out, out ≠ .sparse →
      (matrixLabels (combineMode .narwhals out) st = columnNames st ↔ (columnNames st).Nodup)) := by
  have hlist : matrixLabels .list st = columnNames st := by
    simp [matrixLabels, combine, List.map_map, Function.comp_def]
  have hdict : matrixLabels .dict st = columnNames st ↔ (columnNames st).Nodup := by
    rw [matrixLabels_dict]
    constructor
    · intro h
      have := foldl_addKey_nodup (columnNames st) [] List.nodup_nil
      rwa [h] at this
    · intro h
      simpa using foldl_addKey_of_nodup (columnNames st) [] (by simpa using h)
  refine ⟨fun out => by cases out <;> exact hlist, hlist, ?_⟩
  intro out hout
  cases out <;> first | exact absurd rfl hout | exact hdict

/-- what happens with a repeated label under name-keyed assembly: two of three columns survive -/
example : matrixLabels .dict [⟨[['A']], [], [['x'], ['y']]⟩, ⟨[['z']], [], [['x']]⟩] = [['x'], ['y']] := by decide

/-- C10.2  Term ranges. When no term occurs twice, `term_indices` holds, in term order, one entry per
row whose value is the block `[start, start + #columns)` of consecutive integers starting where the
previous row's block ended (so a zero-column row gets `[]`); the blocks concatenate to
`[0, ncols)` (pairwise disjoint and covering); `term_slices` selects exactly the same positions. -/
theorem term_ranges_partition (st : Structure) (h : DistinctTerms st) :
    termIndices st = (blocks 0 st).map (fun b => (b.1.term, List.range' b.2 b.1.columns.length)) ∧
    (termIndices st).flatMap (·.2) = List.range (columnNames st).length ∧
    termSlices st = (blocks 0 st).map (fun b =>
      (b.1.term, if b.1.columns.length = 0 then (0, 0) else (b.2, b.2 + b.1.columns.length))) := by
  have h1 := termIndices_eq st h
  refine ⟨h1, ?_, ?_⟩
  · rw [h1, entries, List.flatMap_map, List.range_eq_range']
    exact blocks_ranges 0 st
  · unfold termSlices
    rw [h1, entries, List.map_map]
    apply List.map_congr_left
    intro b _
    simp [sliceOf_range']

/-- the row blocks themselves always partition `[0, ncols)`, repeated terms or not -/
theorem blocks_partition (st : Structure) :
    (blocks 0 st).flatMap (fun b => List.range' b.2 b.1.columns.length) = List.range (columnNames st).length := by
  rw [List.range_eq_range']; exact blocks_ranges 0 st

example : (termIndices demo).map (·.2) = [[0], [1, 2], [3, 4], []] := by decide

/-- the hypothesis of C10.2 is necessary: with a repeated term the later row overwrites the earlier
range and column 0 belongs to no term (finding C10-F1) -/
example : (termIndices [⟨[['a']], [], [['a']]⟩, ⟨[['a']], [], []⟩]).map (·.2) = [[]] := by decide

/-- C10.3a  Looking a term up by object — the stored term or any `Term` that compares equal to it
(same factors in any order) — returns exactly its block, through `term_indices[t]`,
`term_slices[t]`, `t in term_indices` and `get_slice(t)`; a term that is not in the spec raises
`KeyError` / `ValueError`. -/
theorem lookup_by_term (st : Structure) (h : DistinctTerms st) :
    (∀ b ∈ blocks 0 st, ∀ u : Term, sortStrs u = sortStrs b.1.term →
      (termIndices st).get (.term u) = .ok (List.range' b.2 b.1.columns.length) ∧
      (termIndices st).contains (.term u) = true ∧
      (termSlices st).get (.term u) = .ok (sliceOf (List.range' b.2 b.1.columns.length)) ∧
      getSlice st (.term u) = .ok (sliceOf (List.range' b.2 b.1.columns.length))) ∧
    (∀ u : Term, (∀ r ∈ st, sortStrs r.term ≠ sortStrs u) →
      (termIndices st).get (.term u) = .error .keyError ∧
      getSlice st (.term u) = .error .valueError) := by
  have hi : termIndices st = rowDict (fun b => List.range' b.2 b.1.columns.length) 0 st :=
    termIndices_eq st h
  have hs : termSlices st = rowDict (fun b => sliceOf (List.range' b.2 b.1.columns.length)) 0 st := by
    unfold termSlices; rw [hi]; simp [rowDict, List.map_map, Function.comp_def]
  constructor
  · intro b hb u hu
    have g1 : (termIndices st).get (.term u) = .ok (List.range' b.2 b.1.columns.length) := by
      rw [hi]; unfold TDict.get; rw [rowDict_lookup_term _ h hb u hu]
    have g2 : (termSlices st).get (.term u) = .ok (sliceOf (List.range' b.2 b.1.columns.length)) := by
      rw [hs]; unfold TDict.get; rw [rowDict_lookup_term _ h hb u hu]
    refine ⟨g1, by simp [TDict.contains, g1], g2, ?_⟩
    simp [getSlice, TDict.contains, g2]
  · intro u hu
    have g1 : (termIndices st).get (.term u) = .error .keyError := by
      rw [hi]; unfold TDict.get; rw [rowDict_lookup_term_none _ u hu]
    have g2 : (termSlices st).get (.term u) = .error .keyError := by
      rw [hs]; unfold TDict.get; rw [rowDict_lookup_term_none _ u hu]
    exact ⟨g1, by simp [getSlice, TDict.contains, g2]⟩

example : getSlice demo (.term [['A'], ['B']]) = .ok (1, 3) := by decide

/-- C10.3a'  "compares equal" is "same factors in any order": a `Term` object built from any
permutation of a row's factors finds that row's block (`sorted` is order-insensitive because
`str` comparison is a strict total order). -/
theorem lookup_by_term_any_order (st : Structure) (h : DistinctTerms st) (b : Row × Nat)
    (hb : b ∈ blocks 0 st) (u : Term) (hu : u.Perm b.1.term) :
    (termIndices st).get (.term u) = .ok (List.range' b.2 b.1.columns.length) ∧
    getSlice st (.term u) = .ok (sliceOf (List.range' b.2 b.1.columns.length)) := by
  obtain ⟨g1, _, _, g4⟩ := (lookup_by_term st h).1 b hb u (sortStrs_perm hu)
  exact ⟨g1, g4⟩

/-- C10.3b  Looking a term up by its printed form (`str(term)`: factors in the term's OWN order, a
factor containing `:` between backticks) returns exactly its block — through `term_indices[s]`,
`term_slices[s]`, `s in term_indices` and `get_slice(s)` — for every row whose factor
expressions contain no backtick/newline, provided terms and printed forms are pairwise
different. The dict is probed as Python does (hash of the string, then `Term.__eq__` through
`FACTOR_MATCHER`), then `_TermMapping.__missing__` compares printed forms. -/
theorem lookup_by_printed_form (st : Structure) (h : DistinctTerms st) (hp : DistinctPrinted st)
    (b : Row × Nat) (hb : b ∈ blocks 0 st) (hgood : ∀ e ∈ b.1.term, GoodExpr e) :
    (termIndices st).get (.str (termRepr b.1.term)) = .ok (List.range' b.2 b.1.columns.length) ∧
    (termIndices st).contains (.str (termRepr b.1.term)) = true ∧
    (termSlices st).get (.str (termRepr b.1.term)) = .ok (sliceOf (List.range' b.2 b.1.columns.length)) ∧
    getSlice st (.str (termRepr b.1.term)) = .ok (sliceOf (List.range' b.2 b.1.columns.length)) := by
  have hi : termIndices st = rowDict (fun b => List.range' b.2 b.1.columns.length) 0 st :=
    termIndices_eq st h
  have hs : termSlices st = rowDict (fun b => sliceOf (List.range' b.2 b.1.columns.length)) 0 st := by
    unfold termSlices; rw [hi]; simp [rowDict, List.map_map, Function.comp_def]
  have hsplit := matchFactors_termRepr b.1.term hgood
  have g1 := rowDict_get_str (fun b => List.range' b.2 b.1.columns.length) h hp hb hsplit
  have g2 := rowDict_get_str (fun b => sliceOf (List.range' b.2 b.1.columns.length)) h hp hb hsplit
  rw [← hi] at g1
  rw [← hs] at g2
  refine ⟨g1, by simp [TDict.contains, g1], g2, ?_⟩
  simp [getSlice, TDict.contains, g2]

/-- the unsorted printed forms `B:A` and `b:a:C(A)` find their blocks -/
example : getSlice demo (.str ['B', ':', 'A']) = .ok (1, 3) ∧
    (termIndices demo).get (.str ['b', ':', 'a', ':', 'C', '(', 'A', ')']) = .ok [3, 4] ∧
    getSlice demo (.str ['G']) = .ok (0, 0) := by decide

/-- without `__missing__` (a plain dict, the behaviour before the repair) `B:A` is not found:
its hash is not the hash of the sorted join `A:B` -/
example : (termIndices demo).lookup (.str ['B', ':', 'A']) = none ∧
    (termIndices demo).lookup (.str ['A', ':', 'B']) = some [1, 2] := by decide

/-- C10.3c  Looking a column up by name: `column_indices[n]` is the position of the LAST column
labelled `n` (so exactly the column's position when the label is not repeated),
`get_column_indices` agrees, `get_slice(n)` selects `[k, k+1)` unless the string also denotes a term
(terms take precedence); an unknown name raises. -/
theorem lookup_by_column_name (st : Structure) (n : Str) :
    (∀ k, (columnIndices st).lookup n = some k ↔
      ((columnNames st)[k]? = some n ∧ ∀ j, k < j → (columnNames st)[j]? ≠ some n)) ∧
    (∀ k, (columnIndices st).lookup n = some k →
      getColumnIndices st [n] = .ok [k] ∧
      ((termSlices st).contains (.str n) = false → getSlice st (.str n) = .ok (k, k + 1))) ∧
    (n ∉ columnNames st →
      (columnIndices st).lookup n = none ∧ getColumnIndices st [n] = .error .keyError ∧
      ((termSlices st).contains (.str n) = false → getSlice st (.str n) = .error .valueError)) := by
  have hl := columnIndices_lookup st n
  refine ⟨?_, ?_, ?_⟩
  · intro k
    rw [hl]
    constructor
    · exact lastIdx_some
    · intro ⟨h1, h2⟩
      cases hk : lastIdx n (columnNames st) with
      | none => exact absurd (List.mem_of_getElem? h1) (lastIdx_none hk)
      | some k' =>
        obtain ⟨h1', h2'⟩ := lastIdx_some hk
        rcases Nat.lt_trichotomy k k' with hlt | heq | hgt
        · exact absurd h1' (h2 k' hlt)
        · rw [heq]
        · exact absurd h1 (h2' k hgt)
  · intro k hk
    refine ⟨by simp [getColumnIndices, hk, List.mapM_cons, List.mapM_nil, pure, Except.pure, bind, Except.bind], ?_⟩
    intro hc
    simp [getSlice, hc, hk]
  · intro hn
    have hnone : (columnIndices st).lookup n = none := by
      rw [hl]
      cases hk : lastIdx n (columnNames st) with
      | none => rfl
      | some k => exact absurd (List.mem_of_getElem? (lastIdx_some hk).1) hn
    refine ⟨hnone, by simp [getColumnIndices, hnone, List.mapM_cons, bind, Except.bind], ?_⟩
    intro hc
    simp [getSlice, hc, hnone]

example : (columnIndices demo).lookup ['B', 'y', ':', 'A', 'b'] = some 2 ∧
    getSlice demo (.str ['B', 'y', ':', 'A', 'b']) = .ok (2, 3) := by decide

/-- C10.4  `variable_indices` never raises; its keys are exactly the variables used by some row;
`variable_indices[v]` is exactly the concatenation, in row order, of the blocks of the rows whose
terms use `v` — a strictly increasing list (no index twice, none missing, none foreign). -/
theorem variable_indices_exact (st : Structure) (h : DistinctTerms st) :
    ∃ vi, variableIndices st = .ok vi ∧
      ∀ v, (vi.lookup v =
          if (st.filter (fun r => (rowVars r).contains v)) = [] then none
          else some (((blocks 0 st).filter (fun b => (rowVars b.1).contains v)).flatMap
                (fun b => List.range' b.2 b.1.columns.length))) ∧
        (((blocks 0 st).filter (fun b => (rowVars b.1).contains v)).flatMap
                (fun b => List.range' b.2 b.1.columns.length)).Pairwise (· < ·) := by
  refine ⟨_, variableIndices_eq st h, ?_⟩
  intro v
  refine ⟨?_, (filter_blocks_increasing (fun b => (rowVars b.1).contains v) 0 st).1⟩
  rw [SDict.lookup_map, variableTerms_lookup st h v]
  have hiff : usesTerms v st = [] ↔ st.filter (fun r => (rowVars r).contains v) = [] := by
    unfold usesTerms; simp
  by_cases he : st.filter (fun r => (rowVars r).contains v) = []
  · rw [if_pos (hiff.mpr he), if_pos he]; rfl
  · have : usesTerms v st ≠ [] := fun e => he (hiff.mp e)
    simp only [this, he, if_false, Option.map_some, viOf_usesTerms st h v]

example : (variableIndices demo).toOption.map (fun vi => (vi.lookup ['A'], vi.lookup ['b'], vi.lookup ['G']))
    = some (some [1, 2, 3, 4], some [3, 4], none) := by decide

/-- C10.5  A spec subset to chosen terms. When `subset` succeeds its structure consists, term by
term in the requested order, of the PARENT'S rows of those terms (whatever factor order the request
uses); hence its column names are exactly the parent's names at `get_term_indices` of the same
request, in order; and when rows are regenerated one by one (`replayBlocks`: `gen` regenerates a
row's columns from the data, `_enforce_structure` forces them onto the recorded names), the subset's
regenerated blocks are the parent's regenerated blocks of those rows. -/
theorem subset_regenerates (F : List Term) (st : Structure) (spec : List Term) (sub : Structure)
    (h : DistinctTerms st) (hs : subset F st spec = .ok sub) :
    Pointwise (fun t r => r ∈ st ∧ sortStrs r.term = sortStrs t) spec sub ∧
    (∃ idx, getTermIndices F st spec = .ok idx ∧
      idx.map (fun i => (columnNames st)[i]?) = (columnNames sub).map some) ∧
    (∀ {V : Type} (zero : V) (gen : Row → SDict V) (P : List (SDict V)),
      replayBlocks zero gen st = .ok P →
      ∃ g : Row → SDict V, P = st.map g ∧ replayBlocks zero gen sub = .ok (sub.map g)) := by
  obtain ⟨_, hf⟩ := subset_rows F st spec sub h hs
  refine ⟨hf, subset_names F st spec sub h hs, ?_⟩
  intro V zero gen P hP
  let g : Row → SDict V := fun r =>
    match enforceRow zero r.columns (gen r) with
    | .ok b => b
    | .error _ => []
  have hall : ∀ r ∈ st, enforceRow zero r.columns (gen r) = .ok (g r) := by
    intro r hr
    have hpw := mapM_ok_inv _ _ _ hP
    obtain ⟨q, _, hq⟩ := hpw.exists_left hr
    simp only [g, hq]
  refine ⟨g, ?_, ?_⟩
  · have := mapM_ok_of_forall _ g st hall
    unfold replayBlocks at hP
    rw [this] at hP
    cases hP; rfl
  · unfold replayBlocks
    apply mapM_ok_of_forall
    intro r hr
    obtain ⟨_, _, hin, _⟩ := hf.exists_right hr
    exact hall r hin

/-- `subset(["A:B", "1"])` on the demo spec (whose term prints `B:A`): the parent's rows, in the
requested order -/
example : (subset (demo.map (·.term)) demo [[['A'], ['B']], [['1']]]).toOption.map columnNames
      = some [['B', 'y', ':', 'A', 'a'], ['B', 'y', ':', 'A', 'b'], ['I']] ∧
    getTermIndices (demo.map (·.term)) demo [[['A'], ['B']], [['1']]] = .ok [1, 2, 0] := by decide

/-- a term that is not in the spec: `ValueError` -/
example : subset (demo.map (·.term)) demo [[['z']]] = .error .valueError := by decide

/-! ## the factor side, the variable sets -/

/-- C10.6  The factor side, for EVERY formula (repeated terms included; every `Term` holds a factor
once, as `Term.__init__` guarantees). `term_factors` has one entry per class of equal non-empty
terms — keyed by the first `Term` object of the class (`firsts`), in formula order — holding that
term's own factors (so, without a repeated term: one entry per term); `factors` holds exactly the
factors of the terms, each once; `factor_terms[f]` is the list of the (first) terms that contain `f`
(no entry when there is none: its keys are exactly `factors`); and the two maps are mutually
inverse: for every term `t` of the formula, looked up by any equal `Term`,
`f ∈ term_factors[t] ⟺ f ∈ t ⟺ t ∈ factor_terms[f]`. -/
theorem factor_maps_inverse (F : List Term) (hn : ∀ t ∈ F, t.Nodup) :
    termFactors F = ((firsts F).filter nonEmpty).map (fun t => (t, t)) ∧
    (DistinctF F → termFactors F = (F.filter (fun t => !t.isEmpty)).map (fun t => (t, t))) ∧
    ((∀ f, f ∈ factors F ↔ ∃ t ∈ F, f ∈ t) ∧ (factors F).Nodup) ∧
    (∀ f, SDict.lookup (factorTerms F) f =
        if (firsts F).filter (fun t => t.contains f) = [] then none
        else some ((firsts F).filter (fun t => t.contains f))) ∧
    (∀ f, SDict.lookup (factorTerms F) f = none ↔ f ∉ factors F) ∧
    (∀ t ∈ F, ∀ u : Term, sortStrs u = sortStrs t → ∀ f,
      ((∃ fs, (termFactors F).lookup (.term u) = some fs ∧ f ∈ fs) ↔ f ∈ t) ∧
      ((∃ ts, SDict.lookup (factorTerms F) f = some ts ∧ ∃ w ∈ ts, sortStrs w = sortStrs t) ↔ f ∈ t)) := by
  obtain ⟨hd, hsub, hrep⟩ := firsts_props F
  have hn' := firsts_nodup_terms F hn
  have hft := factorTerms_lookup_any F hn
  refine ⟨termFactors_eq_firsts F hn, fun hF => termFactors_eq F hF hn,
    ⟨mem_factors F, nodup_factors F⟩, hft, ?_, ?_⟩
  · intro f
    rw [hft f, mem_factors]
    constructor
    · intro h
      split at h
      · rename_i he
        rintro ⟨t, ht, hf⟩
        obtain ⟨w, hw, e⟩ := hrep t ht
        have hfw : f ∈ w := (mem_of_sortStrs_eq e f).mpr hf
        have : w ∈ (firsts F).filter (fun t => t.contains f) := List.mem_filter.mpr ⟨hw, by simpa using hfw⟩
        rw [he] at this; cases this
      · cases h
    · intro h
      have : (firsts F).filter (fun t => t.contains f) = [] := by
        rw [List.filter_eq_nil_iff]
        intro t ht hc
        exact h ⟨t, hsub t ht, by simpa using hc⟩
      rw [if_pos this]
  · intro t ht u hu f
    obtain ⟨w, hw, e⟩ := hrep t ht
    constructor
    · constructor
      · rintro ⟨fs, hl, hf⟩
        rw [termFactors_firsts F hn, termFactors_eq (firsts F) hd hn'] at hl
        unfold TDict.lookup at hl
        obtain ⟨en, hen, rfl⟩ := Option.map_eq_some_iff.mp hl
        have hm := List.mem_of_find?_eq_some hen
        have hp := List.find?_some hen
        obtain ⟨t', _, rfl⟩ := List.mem_map.mp hm
        simp only [keyMatches_term, beq_iff_eq] at hp
        exact (mem_of_sortStrs_eq (hp.trans hu) f).mp hf
      · intro hf
        have hfw : f ∈ w := (mem_of_sortStrs_eq e f).mpr hf
        have hne : w ≠ [] := fun e' => by rw [e'] at hfw; cases hfw
        refine ⟨w, ?_, hfw⟩
        rw [termFactors_firsts F hn]
        exact termFactors_lookup' (firsts F) hd hn' w hw hne u (hu.trans e.symm)
    · constructor
      · rintro ⟨ts, hl, x, hx, ex⟩
        rw [hft f] at hl
        split at hl
        · cases hl
        · cases hl
          have : f ∈ x := by simpa using (List.mem_filter.mp hx).2
          exact (mem_of_sortStrs_eq ex f).mp this
      · intro hf
        have hfw : f ∈ w := (mem_of_sortStrs_eq e f).mpr hf
        have hmem : w ∈ (firsts F).filter (fun t => t.contains f) := List.mem_filter.mpr ⟨hw, by simpa using hfw⟩
        refine ⟨_, ?_, w, hmem, e⟩
        rw [hft f, if_neg (fun e' => by rw [e'] at hmem; cases hmem)]

/-- a formula that repeats a term (`a:b` and `b:a`; `x` twice): one entry for each class -/
example : termFactors [[['a'], ['b']], [['x']], [['b'], ['a']], [['x']]]
      = [([['a'], ['b']], [['a'], ['b']]), ([['x']], [['x']])] ∧
    SDict.lookup (factorTerms [[['a'], ['b']], [['x']], [['b'], ['a']], [['x']]]) ['b'] = some [[['a'], ['b']]] := by
  decide

/-- every recorded scoped factor with the same expression carries the same variables (there is one
`EvaluatedFactor` per expression in the materializer's factor cache) -/
def Coherent (st : Structure) : Prop :=
  ∀ sf ∈ allSF st, ∀ sf' ∈ allSF st, sf.expr = sf'.expr → sf.vars = sf'.vars

instance (st : Structure) : Decidable (Coherent st) := by unfold Coherent; infer_instance

/-- C10.7  `factor_variables`. It raises `TypeError` exactly when some recorded scoped factor has no
variable record (`None`: a literal factor); otherwise it has one entry per factor of the formula, and
the names in `factor_variables[f]` are exactly the names recorded by the scoped factors whose
expression is `f` (none twice; empty for a factor that was never evaluated). -/
theorem factor_variables_exact (F : List Term) (st : Structure) :
    ((∃ sf ∈ allSF st, sf.vars = none) → factorVariables F st = .error .typeError) ∧
    ((∀ sf ∈ allSF st, sf.vars ≠ none) →
      ∃ d, factorVariables F st = .ok d ∧ d.map (·.1) = factors F ∧
        ∀ f ∈ factors F, ∃ vs, SDict.lookup d f = some vs ∧ (vs.map (·.name)).Nodup ∧
          ∀ v, v ∈ vs.map (·.name) ↔ ∃ sf ∈ allSF st, sf.expr = f ∧ sfUses sf v) := by
  constructor
  · intro h
    unfold factorVariables
    rw [factorVarLists_eq, foldlM_stepSF_err _ _ h]
    rfl
  · intro h
    unfold factorVariables
    rw [factorVarLists_eq, foldlM_stepSF_ok _ _ h]
    refine ⟨_, rfl, ?_, ?_⟩
    · simp [List.map_map, Function.comp_def]
    · intro f hf
      refine ⟨_, SDict.lookup_map_key _ _ f hf, nodup_names_unionVars _, ?_⟩
      intro v
      rw [mem_names_unionVars, foldl_extendAt_lookup]
      simp only [SDict.lookup, List.find?_nil, Option.map_none, Option.getD_none, List.nil_append,
        List.mem_singleton, exists_eq_left]
      constructor
      · rintro ⟨w, hw, rfl⟩
        split at hw
        · rename_i vs' he
          by_cases hn : (allSF st).filter (fun sf => sf.expr == f) = []
          · rw [if_pos hn] at he; cases he
          · rw [if_neg hn] at he
            cases he
            obtain ⟨sf, hsf, hwv⟩ := List.mem_flatMap.mp hw
            obtain ⟨hsf1, hsf2⟩ := List.mem_filter.mp hsf
            refine ⟨sf, hsf1, by simpa using hsf2, ?_⟩
            unfold varsOf at hwv
            cases hv : sf.vars with
            | none => rw [hv] at hwv; cases hwv
            | some ws => rw [hv] at hwv; exact ⟨ws, hv, w, hwv, rfl⟩
        · cases hw
      · rintro ⟨sf, hsf, hexpr, ws, hv, w, hw, rfl⟩
        have hmem : sf ∈ (allSF st).filter (fun sf => sf.expr == f) :=
          List.mem_filter.mpr ⟨hsf, by simpa using hexpr⟩
        have hne : (allSF st).filter (fun sf => sf.expr == f) ≠ [] := fun e => by rw [e] at hmem; cases hmem
        refine ⟨w, ?_, rfl⟩
        rw [if_neg hne]
        apply List.mem_flatMap.mpr
        exact ⟨sf, hmem, by simp [varsOf, hv, hw]⟩

/-- C10.8  `term_variables` against the factor side. `term_variables[t]` (looked up by any equal
`Term`) holds exactly the names recorded by the scoped factors of the row of `t`; and when
`factor_variables` succeeds and every expression has one variable record (`Coherent`), that is the
union of `factor_variables[f]` over the factors `f` evaluated for the row. -/
theorem term_variables_from_factors (st : Structure) (h : DistinctTerms st) :
    (∀ r ∈ st, ∀ u : Term, sortStrs u = sortStrs r.term →
      (termVariables st).lookup (.term u) = some (rowVars r)) ∧
    (∀ r : Row, (rowVars r).Nodup ∧ ∀ v, v ∈ rowVars r ↔ ∃ sf ∈ rowSF r, sfUses sf v) ∧
    (∀ F d, factorVariables F st = .ok d → Coherent st →
      (∀ r ∈ st, ∀ sf ∈ rowSF r, sf.expr ∈ factors F) →
      ∀ r ∈ st, ∀ v, v ∈ rowVars r ↔
        ∃ sf ∈ rowSF r, ∃ vs, SDict.lookup d sf.expr = some vs ∧ v ∈ vs.map (·.name)) := by
  refine ⟨?_, ?_, ?_⟩
  · intro r hr u hu
    rw [termVariables_eq st h]
    exact rowMap_lookup rowVars h hr u hu
  · intro r
    exact ⟨nodup_names_unionVars _, mem_rowVars r⟩
  · intro F d hd hco hsc r hr v
    have hall : ∀ sf ∈ allSF st, sf.vars ≠ none := by
      intro sf hsf hnone
      rw [(factor_variables_exact F st).1 ⟨sf, hsf, hnone⟩] at hd
      cases hd
    obtain ⟨d', hd', _, hlook⟩ := (factor_variables_exact F st).2 hall
    rw [hd] at hd'
    cases hd'
    rw [mem_rowVars]
    constructor
    · rintro ⟨sf, hsf, huse⟩
      obtain ⟨vs, hvs, _, hmem⟩ := hlook sf.expr (hsc r hr sf hsf)
      exact ⟨sf, hsf, vs, hvs, (hmem v).mpr ⟨sf, rowSF_sub hr hsf, rfl, huse⟩⟩
    · rintro ⟨sf, hsf, vs, hvs, hv⟩
      obtain ⟨vs', hvs', _, hmem⟩ := hlook sf.expr (hsc r hr sf hsf)
      rw [hvs] at hvs'
      cases hvs'
      obtain ⟨sf', hsf', hexpr, ws, hws, huse⟩ := (hmem v).mp hv
      refine ⟨sf, hsf, ws, ?_, huse⟩
      rw [hco sf (rowSF_sub hr hsf) sf' hsf' hexpr.symm]
      exact hws

example : Coherent demo := by decide

/-- C10.9  `variable_terms` is the reverse of `term_variables`: `variable_terms[v]` is the list, in
row order, of the terms of the rows whose variables include `v` (no entry when there is none), so
`t ∈ variable_terms[v] ⟺ v ∈ term_variables[t]` for every row; and `variable_indices` never raises
and `variable_indices[v]` is the sorted union, over `t ∈ variable_terms[v]`, of `term_indices[t]`
(C10.4 says which columns that is). -/
theorem variable_terms_inverse (st : Structure) (h : DistinctTerms st) (v : Str) :
    SDict.lookup (variableTerms st) v =
      (if usesTerms v st = [] then none else some (usesTerms v st)) ∧
    (∀ r ∈ st, (∃ u ∈ usesTerms v st, sortStrs u = sortStrs r.term) ↔ v ∈ rowVars r) ∧
    (∃ vi, variableIndices st = .ok vi ∧
      vi.lookup v = (SDict.lookup (variableTerms st) v).map (fun ts =>
        sortNats (((ts.map (fun t => ((termIndices st).lookup (.term t)).getD [])).flatten).foldl addNat []))) := by
  refine ⟨variableTerms_lookup st h v, ?_, ⟨_, variableIndices_eq st h, by
    rw [SDict.lookup_map]; rfl⟩⟩
  intro r hr
  unfold usesTerms
  constructor
  · rintro ⟨u, hu, he⟩
    obtain ⟨r', hr', rfl⟩ := List.mem_map.mp hu
    obtain ⟨hm, hc⟩ := List.mem_filter.mp hr'
    have : r' = r := row_unique h hm hr he
    subst this
    simpa using hc
  · intro hv
    exact ⟨r.term, List.mem_map_of_mem (List.mem_filter.mpr ⟨hr, by simpa using hv⟩), rfl⟩

/-- C10.10  `variables`, `variables_by_source`, `required_variables`. `variables` holds every name
of `term_variables` once; `variables_by_source` is a partition of it: its keys are pairwise
different, no class is empty, the class filed under a source holds exactly the variables of that
source (hence every variable is in the class of its own source and in no other), and
`required_variables` is the class of the source `"data"` (empty when there is none). -/
theorem variables_by_source_partition (st : Structure) :
    ((variables st).map (·.name)).Nodup ∧
    (∀ v, v ∈ (variables st).map (·.name) ↔ ∃ e ∈ termVariablesFull st, ∃ w ∈ e.2, w.name = v) ∧
    ((variablesBySource st).map (·.1)).Nodup ∧
    (∀ e ∈ variablesBySource st,
      e.2 ≠ [] ∧ e.2 = ((variables st).filter (fun w => w.source == e.1)).map (·.name)) ∧
    (∀ w ∈ variables st, ∃ e ∈ variablesBySource st, e.1 = w.source ∧ w.name ∈ e.2) ∧
    requiredVariables st = ((variables st).filter (fun w => w.source == some "data".toList)).map (·.name) := by
  have hnd : ((variables st).map (·.name)).Nodup := nodup_names_unionVars _
  have hkeys : ((variablesBySource st).map (·.1)).Nodup :=
    bySource_keys_nodup (variables st) [] List.nodup_nil
  have hlook : ∀ src, lookupSrc (variablesBySource st) src =
      if (variables st).filter (fun w => w.source == src) = [] then none
      else some (((variables st).filter (fun w => w.source == src)).map (·.name)) := by
    intro src
    unfold variablesBySource
    rw [bySource_lookup (variables st) [] src hnd (by simp [lookupSrc])]
    simp [lookupSrc]
  refine ⟨hnd, ?_, hkeys, ?_, ?_, ?_⟩
  · intro v
    unfold variables
    rw [mem_names_unionVars]
    constructor
    · rintro ⟨s, hs, w, hw, rfl⟩
      obtain ⟨e, he, rfl⟩ := List.mem_map.mp hs
      exact ⟨e, he, w, hw, rfl⟩
    · rintro ⟨e, he, w, hw, rfl⟩
      exact ⟨e.2, List.mem_map_of_mem he, w, hw, rfl⟩
  · intro e he
    have h1 := lookupSrc_of_mem _ hkeys e he
    rw [hlook e.1] at h1
    split at h1
    · cases h1
    · rename_i hne
      have h2 := Option.some.inj h1
      refine ⟨?_, h2.symm⟩
      rw [← h2]
      simpa using hne
  · intro w hw
    have hmem : w ∈ (variables st).filter (fun x => x.source == w.source) :=
      List.mem_filter.mpr ⟨hw, by simp⟩
    have hne : (variables st).filter (fun x => x.source == w.source) ≠ [] :=
      fun e => by rw [e] at hmem; cases hmem
    have h1 := hlook w.source
    rw [if_neg hne] at h1
    exact ⟨_, mem_of_lookupSrc _ _ _ h1, rfl, List.mem_map_of_mem hmem⟩
  · unfold requiredVariables
    have h1 := hlook (some "data".toList)
    unfold lookupSrc at h1
    cases hf : (variablesBySource st).find? (fun e => e.1 == some "data".toList) with
    | none =>
      rw [hf] at h1
      simp only [Option.map_none] at h1
      split at h1
      · rename_i he; rw [he]; rfl
      · cases h1
    | some e =>
      rw [hf] at h1
      simp only [Option.map_some] at h1
      split at h1
      · cases h1
      · exact Option.some.inj h1

example : variablesBySource demo =
    [(some "data".toList, [['B'], ['A'], ['b'], ['a']]), (some "transforms".toList, [['C']])] ∧
    requiredVariables demo = [['B'], ['A'], ['b'], ['a']] := by decide

/-! ## every key type of `get_slice`, `_TermMapping.get`, hand-written `Term`s -/

/-- C10.11  `get_slice` with every kind of identifier: a slice comes back as it is; an int `i`
gives `slice(i, i + 1)` (no range check); a `Term` / a string are answered by the term and column
maps (C10.3a-c apply: `getSlice`); any other hashable object raises `ValueError`, an unhashable one
`TypeError`. On a spec whose structure is not populated a slice and an int are still answered,
everything else raises `RuntimeError`. -/
theorem get_slice_every_key (st : Structure) :
    (∀ s, getSliceAny st (.slice s) = .ok s) ∧
    (∀ i, getSliceAny st (.int i) = .ok ⟨some i, some (i + 1), none⟩) ∧
    (∀ t, getSliceAny st (.term t) = (getSlice st (.term t)).map PySlice.ofNats) ∧
    (∀ s, getSliceAny st (.str s) = (getSlice st (.str s)).map PySlice.ofNats) ∧
    getSliceAny st .other = .error .valueError ∧
    getSliceAny st .unhashable = .error .typeError ∧
    (∀ (sp : Spec), sp.structure? = some st → ∀ k, sp.getSlice k = getSliceAny st k) ∧
    (∀ (sp : Spec), sp.structure? = none → ∀ k,
      sp.getSlice k = match k with
        | .slice s => .ok s
        | .int i => .ok ⟨some i, some (i + 1), none⟩
        | _ => .error .runtimeError) := by
  refine ⟨fun _ => rfl, fun _ => rfl, fun _ => rfl, fun _ => rfl, rfl, rfl, ?_, ?_⟩
  · intro sp hsp k
    cases k <;> simp [Spec.getSlice, Spec.st, hsp, getSliceAny, bind, Except.bind]
  · intro sp hsp k
    cases k <;> simp [Spec.getSlice, Spec.st, hsp, bind, Except.bind]

/-- a column position selects exactly that column, the printed form of a term its block -/
example : getSliceAny demo (.int 2) = .ok ⟨some 2, some 3, none⟩ ∧
    getSliceAny demo (.str ['B', ':', 'A']) = .ok ⟨some 1, some 3, none⟩ ∧
    getSliceAny demo (.int (-1)) = .ok ⟨some (-1), some 0, none⟩ := by decide

/-- C10.12  `_TermMapping.get(key)` never raises: it is `self[key]` with `KeyError` turned into
`None`. -/
theorem term_mapping_get {α : Type} (d : TDict α) (k : Key) :
    (∀ v, d.get k = .ok v → d.getDefault k = .ok (some v)) ∧
    (d.get k = .error .keyError → d.getDefault k = .ok none) ∧
    (∀ e, d.get k = .error e → e = .keyError) ∧
    ∃ r, d.getDefault k = .ok r := by
  have herr : ∀ e, d.get k = .error e → e = .keyError := by
    intro e he
    unfold TDict.get at he
    split at he
    · cases he
    · split at he
      · split at he
        · cases he
        · cases he; rfl
      · cases he; rfl
  refine ⟨fun v hv => by simp [TDict.getDefault, hv], fun h => by simp [TDict.getDefault, h], herr, ?_⟩
  cases hg : d.get k with
  | ok v => exact ⟨some v, by simp [TDict.getDefault, hg]⟩
  | error e =>
    have := herr e hg
    subst this
    exact ⟨none, by simp [TDict.getDefault, hg]⟩

/-- every factor of every recorded term occurs once (`Term.__init__` drops repeated factors) -/
def TermsNodup (st : Structure) : Prop := ∀ r ∈ st, r.term.Nodup

instance (st : Structure) : Decidable (TermsNodup st) := by unfold TermsNodup; infer_instance

/-- C10.3a''  A `Term` object written by hand from ANY list of factor expressions that has the same
members as a recorded term — whatever their order, however often they are repeated
(`Term.__init__` keeps the first occurrence of each) — finds exactly that term's block. -/
theorem lookup_by_made_term (st : Structure) (h : DistinctTerms st) (hn : TermsNodup st) (b : Row × Nat)
    (hb : b ∈ blocks 0 st) (exprs : List Str) (hu : ∀ e, e ∈ exprs ↔ e ∈ b.1.term) :
    (termIndices st).get (.term (mkTerm exprs)) = .ok (List.range' b.2 b.1.columns.length) ∧
    (termIndices st).getDefault (.term (mkTerm exprs)) = .ok (some (List.range' b.2 b.1.columns.length)) ∧
    getSliceAny st (.term (mkTerm exprs)) =
      .ok (PySlice.ofNats (sliceOf (List.range' b.2 b.1.columns.length))) := by
  have hs : sortStrs (mkTerm exprs) = sortStrs b.1.term := sortStrs_mkTerm (hn _ (mem_blocks_row hb)) hu
  obtain ⟨g1, _, _, g4⟩ := (lookup_by_term st h).1 b hb (mkTerm exprs) hs
  refine ⟨g1, (term_mapping_get _ _).1 _ g1, ?_⟩
  simp [getSliceAny, g4, Except.map]

example : TermsNodup demo := by decide
example : (termIndices demo).get (.term (mkTerm [['A'], ['B'], ['A'], ['B'], ['B']])) = .ok [1, 2] := by decide

/-! ## the order of a request; when `subset` succeeds; any order -/

/-- C10.13  The order of a requested term list (`SimpleFormula(terms, _ordering=…)`): the default
ordering is a STABLE sort by degree — a rearrangement of the request, degrees never decreasing, terms
of one degree in the order they were given —; `ordering="none"` keeps the request as it is;
`ordering="sort"` is a rearrangement of the terms with their factors sorted. -/
theorem request_order (ts : List ReqTerm) :
    (orderTerms .degree ts).Perm ts ∧
    (orderTerms .degree ts).Pairwise (fun a b => a.degree ≤ b.degree) ∧
    (∀ d, (orderTerms .degree ts).filter (fun t => t.degree == d) = ts.filter (fun t => t.degree == d)) ∧
    orderTerms .none ts = ts ∧
    (orderTerms .sort ts).Perm (ts.map ReqTerm.sortFactors) :=
  ⟨sortByDegree_perm ts, sortByDegree_sorted ts, sortByDegree_stable ts, rfl, sortByTermLt_perm _⟩

/-- `["b:A", "a", "1", "x"]` with the literal `1`: `1` first, then the degree-1 terms in the order given -/
example : (orderTerms .degree [⟨[['b'], ['A']], [false, false]⟩, ⟨[['a']], [false]⟩, ⟨[['1']], [true]⟩,
      ⟨[['x']], [false]⟩]).map (·.term) = [[['1']], [['a']], [['x']], [['b'], ['A']]] := by decide

/-- the formula and the structure of a materialized spec hold the same terms -/
def SameTerms (F : List Term) (st : Structure) : Prop :=
  ∀ t : Term, (∃ u ∈ F, sortStrs t = sortStrs u) ↔ ∃ r ∈ st, sortStrs r.term = sortStrs t

/-- C10.5b  When `subset` succeeds. For a spec whose formula and structure hold the same, pairwise
different terms, `subset(spec)` succeeds exactly when every requested term is one of them — whatever
the order of the request, the factor order inside a term, repetitions — and then returns, request by
request, the parent's row of that term (`rowOf`); otherwise it raises `ValueError` (never a
`KeyError` from the internal dict). -/
theorem subset_succeeds_iff (F : List Term) (st : Structure) (spec : List Term) (h : DistinctTerms st)
    (hF : SameTerms F st) :
    ((∀ t ∈ spec, ∃ r ∈ st, sortStrs r.term = sortStrs t) →
      subset F st spec = .ok (spec.filterMap (rowOf st)) ∧
      Pointwise (fun t r => r ∈ st ∧ sortStrs r.term = sortStrs t) spec (spec.filterMap (rowOf st))) ∧
    ((∃ t ∈ spec, ∀ r ∈ st, sortStrs r.term ≠ sortStrs t) → subset F st spec = .error .valueError) := by
  constructor
  · intro hS
    have hok := (subset_ok F st spec h (fun t ht => (hF t).mpr (hS t ht)) hS).1
    exact ⟨hok, (subset_regenerates F st spec _ h hok).1⟩
  · rintro ⟨t, ht, hne⟩
    apply subset_err
    refine ⟨t, ht, ?_⟩
    intro u hu e
    obtain ⟨r, hr, er⟩ := (hF t).mp ⟨u, hu, e⟩
    exact hne r hr er

example : SameTerms (demo.map (·.term)) demo := by
  intro t
  constructor
  · rintro ⟨u, hu, e⟩
    obtain ⟨r, hr, rfl⟩ := List.mem_map.mp hu
    exact ⟨r, hr, e.symm⟩
  · rintro ⟨r, hr, e⟩
    exact ⟨r.term, List.mem_map_of_mem hr, e.symm⟩

/-- C10.5c  The request in any order, written in any way. Two requests that name the same terms —
in a different order, with the factors of a term in a different order — select the same rows: the
two subsets are rearrangements of each other (and each follows the order of its own request, C10.5);
a request that names every term of the spec in the spec's order returns the spec's structure. -/
theorem subset_any_order (F : List Term) (st : Structure) (h : DistinctTerms st) (hF : SameTerms F st)
    (spec spec' : List Term) (sub sub' : Structure)
    (hperm : (spec'.map sortStrs).Perm (spec.map sortStrs))
    (hs : subset F st spec = .ok sub) (hs' : subset F st spec' = .ok sub') :
    sub'.Perm sub ∧ subset F st (st.map (·.term)) = .ok st := by
  constructor
  · have e1 := pointwise_rows_eq h (subset_regenerates F st spec sub h hs).1
    have e2 := pointwise_rows_eq h (subset_regenerates F st spec' sub' h hs').1
    let rk : List Str → Option Row := fun k => st.find? (fun r => sortStrs r.term == k)
    have hk : ∀ l : List Term, l.filterMap (rowOf st) = (l.map sortStrs).filterMap rk := by
      intro l
      rw [List.filterMap_map]
      rfl
    rw [e1, e2, hk spec, hk spec']
    exact hperm.filterMap rk
  · have hS : ∀ t ∈ st.map (·.term), ∃ r ∈ st, sortStrs r.term = sortStrs t := by
      intro t ht
      obtain ⟨r, hr, rfl⟩ := List.mem_map.mp ht
      exact ⟨r, hr, rfl⟩
    rw [((subset_succeeds_iff F st _ h hF).1 hS).1]
    congr 1
    have gen : ∀ (l : Structure), (∀ r ∈ l, r ∈ st) → (l.map (·.term)).filterMap (rowOf st) = l := by
      intro l
      induction l with
      | nil => intro _; rfl
      | cons r l ih =>
        intro hl
        rw [List.map_cons, List.filterMap_cons, rowOf_eq h (hl r (by simp)) rfl,
          ih (fun x hx => hl x (List.mem_cons_of_mem _ hx))]
    exact gen st (fun r hr => hr)

/-- C10.5d  `ModelSpec.subset` from the request to the new spec, for every way of writing the
request and every `ordering=`: a structured request raises `ValueError`; otherwise with `spec` the
term list after the ordering step (`specTerms`: a `SimpleFormula` as it is; a parsed string / list of
strings / list of `Term`s ordered by `orderTerms`, C10.13) — if every term of `spec` is a term of the
parent the result is a spec whose structure holds, in that order, the parent's rows of those terms
and whose FORMULA holds the parent's OWN terms (own factor order, own factor objects: what the subset
evaluates when it regenerates is what the parent evaluated); if some term is foreign: `ValueError`.
On a spec that was never materialized a request of own terms raises `RuntimeError`. -/
theorem spec_subset (sp : Spec) (o : FormulaicVerif.Model.SpecMeta.Ordering) (p : ParsedSpec) :
    (p = .structured → sp.subset o p = .error .valueError) ∧
    (∀ spec, specTerms o p = .ok spec →
      ((∃ t ∈ spec, ∀ u ∈ sp.formula, sortStrs t ≠ sortStrs u) → sp.subset o p = .error .valueError) ∧
      ((∀ t ∈ spec, ∃ u ∈ sp.formula, sortStrs t = sortStrs u) → sp.structure? = none →
        sp.subset o p = .error .runtimeError) ∧
      (∀ st, sp.structure? = some st → DistinctTerms st → DistinctF sp.formula → SameTerms sp.formula st →
        (∀ t ∈ spec, ∃ r ∈ st, sortStrs r.term = sortStrs t) →
        ∃ sub, sp.subset o p = .ok sub ∧
          sub.structure? = some (spec.filterMap (rowOf st)) ∧
          Pointwise (fun t r => r ∈ st ∧ sortStrs r.term = sortStrs t) spec (spec.filterMap (rowOf st)) ∧
          Pointwise (fun t own => own ∈ sp.formula ∧ sortStrs own = sortStrs t) spec sub.formula ∧
          sub.enc = sp.enc)) := by
  constructor
  · rintro rfl; rfl
  · intro spec hspec
    refine ⟨?_, ?_, ?_⟩
    · intro hbad
      unfold Spec.subset
      rw [hspec]
      simp only [bind, Except.bind]
      rw [restricted_err _ _ hbad]
    · intro hgood hnone
      unfold Spec.subset
      rw [hspec]
      simp only [bind, Except.bind]
      rw [(restricted_iff _ _).mpr hgood]
      simp [Spec.st, hnone]
    · intro st hst h hF hsame hS
      have hgood : ∀ t ∈ spec, ∃ u ∈ sp.formula, sortStrs t = sortStrs u := fun t ht => (hsame t).mpr (hS t ht)
      obtain ⟨hok, hpw⟩ := (subset_succeeds_iff sp.formula st spec h hsame).1 hS
      obtain ⟨own, hown, hpo⟩ := ownTerms_mapM sp.formula hF spec hgood
      refine ⟨{ formula := own, structure? := some (spec.filterMap (rowOf st)), enc := sp.enc }, ?_, rfl, hpw, hpo, rfl⟩
      unfold Spec.subset
      rw [hspec]
      simp only [bind, Except.bind]
      rw [(restricted_iff _ _).mpr hgood]
      simp only [Spec.st, hst, hok, hown]
      rfl

/-- the demo spec asked for `["G", "A:B"]` (strings, default ordering) and for the same as a
`SimpleFormula`: rows `G`, `B:A` — the formula of the subset holds the parent's `B:A`, not `A:B` -/
example : ((Spec.subset ⟨demo.map (·.term), some demo, []⟩ .degree
      (.terms [⟨[['G']], [false]⟩, ⟨[['A'], ['B']], [false, false]⟩])).toOption.map (·.formula))
      = some [[['G']], [['B'], ['A']]] ∧
    ((Spec.subset ⟨demo.map (·.term), some demo, []⟩ .degree
      (.formula [[['A'], ['B']], [['G']]])).toOption.map (·.formula)) = some [[['B'], ['A']], [['G']]] ∧
    (Spec.subset ⟨demo.map (·.term), none, []⟩ .degree (.formula [[['G']]])).toOption.isNone = true := by decide

example : DistinctF (demo.map (·.term)) := by decide


/-! ## `ModelSpecs.subset` -/

section Specs
open FormulaicVerif.Model.St FormulaicVerif.Model.SpecsMeta

/-- C10.14  `ModelSpecs.subset`. (a) One request part: `self[path].subset(part)` — what is found at
the path must be a `ModelSpec` (then the outcome is `ModelSpec.subset` with the part's terms as they
are, a `KeyError` turned into `ValueError`); a tuple there raises `AttributeError`, a nested
`ModelSpecs` `ValueError`; a path that leaves the structure raises `ValueError`, an index beyond a
tuple `IndexError`. (b) A request without structure raises `ValueError`. (c) When the call succeeds the
request is structured, the result is exactly `_map` of the request (`St.mapV`: same keys, `root`
moved last, same tuples, hence the request's shape) with, at every part, the subset of the spec found
at the SAME path — so C10.5 applies part by part. (d) When it fails the exception is the exception
of one of the parts. -/
theorem specs_subset_leafwise (specs : Val Spec) (parsed : Val (List Term)) :
    (∀ terms path, leafSubset specs terms path =
      match lookupPathPy path specs with
      | .ok (.leaf sp) => keyToValue (sp.subset .degree (.formula terms))
      | .ok (.tup _) => .error .attributeError
      | .ok (.node _) => .error .valueError
      | .error .keyError => .error .valueError
      | .error e => .error e) ∧
    ((∀ kvs, parsed ≠ .node kvs) → specsSubset specs parsed = .error .valueError) ∧
    (∀ out, specsSubset specs parsed = .ok out →
      (∃ kvs, parsed = .node kvs) ∧
      ∃ g : List Term → Path → Spec, out = mapV g [] parsed ∧ shape out = shape (norm parsed) ∧
        ∀ p ∈ flattenP [] parsed, ∃ sp, lookupPathPy p.2 specs = .ok (.leaf sp) ∧
          sp.subset .degree (.formula p.1) = .ok (g p.1 p.2)) ∧
    (∀ e, specsSubset specs parsed = .error e → (∃ kvs, parsed = .node kvs) →
      ∃ p ∈ flattenP [] parsed, leafSubset specs p.1 p.2 = .error e) := by
  have hleaf : ∀ terms path, leafSubset specs terms path =
      match lookupPathPy path specs with
      | .ok (.leaf sp) => keyToValue (sp.subset .degree (.formula terms))
      | .ok (.tup _) => .error .attributeError
      | .ok (.node _) => .error .valueError
      | .error .keyError => .error .valueError
      | .error e => .error e := by
    intro terms path
    unfold leafSubset
    cases hl : lookupPathPy path specs with
    | ok target => cases target <;> simp [bind, Except.bind, keyToValue]
    | error e => cases e <;> simp [bind, Except.bind, keyToValue]
  refine ⟨hleaf, ?_, ?_, ?_⟩
  · intro hn
    cases parsed with
    | node kvs => exact absurd rfl (hn kvs)
    | leaf _ => rfl
    | tup _ => rfl
  · intro out hout
    cases parsed with
    | leaf _ => cases hout
    | tup _ => cases hout
    | node kvs =>
      refine ⟨⟨kvs, rfl⟩, ?_⟩
      simp only [specsSubset] at hout
      obtain ⟨g, hg, hall⟩ := mapE_ok_eq _ _ _ _ hout
      refine ⟨g, hg, by rw [hg]; exact FormulaicVerif.Proofs.C19.shape_mapV g _ _, ?_⟩
      intro p hp
      have h1 := hall p hp
      rw [hleaf] at h1
      cases hl : lookupPathPy p.2 specs with
      | error e => rw [hl] at h1; cases e <;> cases h1
      | ok target =>
        rw [hl] at h1
        cases target with
        | leaf sp => exact ⟨sp, rfl, (keyToValue_ok _ _).mp h1⟩
        | tup _ => cases h1
        | node _ => cases h1
  · intro e he hn
    obtain ⟨kvs, rfl⟩ := hn
    simp only [specsSubset] at he
    exact mapE_err_leaf _ _ _ _ he

/-- `y ~ 1 + a | A` (a spec per part) subset by `{lhs: [y], rhs: ([a], [A])}`: part by part -/
def demoSpecs : Val Spec :=
  .node [("lhs", .leaf ⟨[[['y']]], some [⟨[['y']], [[sf ['y'] [dv ['y']]]], [['y']]⟩], []⟩),
         ("rhs", .tup [
           .leaf ⟨[[['1']], [['a']]], some [⟨[['1']], [[]], [['I']]⟩, ⟨[['a']], [[sf ['a'] [dv ['a']]]], [['a']]⟩], []⟩,
           .leaf ⟨[[['A']]], some [⟨[['A']], [[sf ['A'] [dv ['A']]]], [['A', 'x'], ['A', 'y']]⟩], []⟩])]

def outNames : Except PyErr (Val Spec) → Except PyErr (List (List Str))
  | .ok v => .ok ((flatten v).map (fun sp => match sp.structure? with | some st => columnNames st | none => []))
  | .error e => .error e

example : outNames (specsSubset demoSpecs (.node [("lhs", .leaf [[['y']]]), ("rhs", .tup [.leaf [[['a']]], .leaf [[['A']]]])]))
      = .ok [[['y']], [['a']], [['A', 'x'], ['A', 'y']]] ∧
    -- a third part: the tuple of specs has only two
    outNames (specsSubset demoSpecs (.node [("rhs", .tup [.leaf [], .leaf [], .leaf []])])) = .error .indexError ∧
    -- a part where the specs have a tuple
    outNames (specsSubset demoSpecs (.node [("rhs", .leaf [[['a']]])])) = .error .attributeError ∧
    -- a key the specs do not have / a tuple where the specs have one spec / a foreign term / no structure
    outNames (specsSubset demoSpecs (.node [("zzz", .leaf [])])) = .error .valueError ∧
    outNames (specsSubset demoSpecs (.node [("lhs", .tup [.leaf []])])) = .error .valueError ∧
    outNames (specsSubset demoSpecs (.node [("lhs", .leaf [[['q']]])])) = .error .valueError ∧
    outNames (specsSubset demoSpecs (.leaf [[['a']]])) = .error .valueError := by decide


/-- C10.14b  `ModelSpecs.required_variables` is the union of the parts' `required_variables`
(C10.10: the variables each part draws from the data), every name once. -/
theorem specs_required_variables (leaves : List Structure) :
    (specsRequiredVariables leaves).Nodup ∧
    ∀ v, v ∈ specsRequiredVariables leaves ↔ ∃ st ∈ leaves, v ∈ requiredVariables st := by
  have he : specsRequiredVariables leaves = unionStrs (leaves.map requiredVariables) := by
    unfold specsRequiredVariables unionStrs
    rw [List.foldl_map]
  rw [he]
  refine ⟨nodup_unionStrs _, fun v => ?_⟩
  rw [mem_unionStrs]
  constructor
  · rintro ⟨s, hs, hv⟩
    obtain ⟨st, hst, rfl⟩ := List.mem_map.mp hs
    exact ⟨st, hst, hv⟩
  · rintro ⟨st, hst, hv⟩
    exact ⟨_, List.mem_map_of_mem hst, hv⟩

end Specs
/-! ## histories of look-ups on one spec -/

/-- C10.16  Look-ups are pure. Whatever sequence of accessor calls is made on a materialized spec —
`term_indices[k]`, `.get(k)`, `k in`, the same on `term_slices`, `get_slice`, `get_term_indices`,
`column_indices[n]`, `get_column_indices`, `variable_indices[v]`, `get_variable_indices`; by `Term`, by
printed form, by column name; succeeding or raising; in any order, any number of times — the cached
mappings are afterwards exactly what they were (same keys, same order, same values: reading the
metadata again gives what it gave before), and every call of the history is answered exactly as it
would have been answered as the first call. -/
theorem lookup_history_pure (s : SpecState) (h : List Op) :
    (s.run h).1 = s ∧
    (s.run h).2 = h.map (fun op => (s.step op).2) ∧
    (∀ h' : List Op, (s.run (h ++ h')).2 = (s.run h).2 ++ (s.run h').2) := by
  have hstep : ∀ (s : SpecState) (op : Op), (s.step op).1 = s := by
    intro s op; cases op <;> rfl
  have hrun : ∀ (h : List Op) (s : SpecState),
      (s.run h).1 = s ∧ (s.run h).2 = h.map (fun op => (s.step op).2) := by
    intro h
    induction h with
    | nil => intro s; exact ⟨rfl, rfl⟩
    | cons op rest ih =>
      intro s
      simp only [SpecState.run, hstep s op, List.map_cons]
      exact ⟨(ih s).1, by rw [(ih s).2]⟩
  refine ⟨(hrun h s).1, (hrun h s).2, ?_⟩
  intro h'
  rw [(hrun (h ++ h') s).2, (hrun h s).2, (hrun h' s).2, List.map_append]

/-- C10.17  On the state of a materialized spec every transition answers with the look-up functions
that C10.2–C10.5 and C10.11–C10.12 are about (so those theorems describe every call of every history). -/
theorem history_step_is_lookup (F : List Term) (st : Structure) :
    (∀ k, ((SpecState.init F st).step (.tiItem k)).2 = ((termIndices st).get k).map .nats) ∧
    (∀ k, ((SpecState.init F st).step (.tiGet k)).2 = ((termIndices st).getDefault k).map .optNats) ∧
    (∀ k, ((SpecState.init F st).step (.tiIn k)).2 = .ok (.bool ((termIndices st).contains k))) ∧
    (∀ k, ((SpecState.init F st).step (.tsItem k)).2 = ((termSlices st).get k).map .range) ∧
    (∀ k, ((SpecState.init F st).step (.tsGet k)).2 = ((termSlices st).getDefault k).map .optRange) ∧
    (∀ k, ((SpecState.init F st).step (.tsIn k)).2 = .ok (.bool ((termSlices st).contains k))) ∧
    (∀ id, ((SpecState.init F st).step (.slice id)).2 = (getSliceAny st id).map .pyslice) ∧
    (∀ o p, ((SpecState.init F st).step (.termIdx o p)).2 =
      (getTermIndicesSpec F st o p).map .nats) ∧
    (∀ cols, ((SpecState.init F st).step (.colIdx cols)).2 = (getColumnIndices st cols).map .nats) ∧
    (∀ vs, ((SpecState.init F st).step (.varIdx vs)).2 = (getVariableIndices st vs).map .nats) := by
  refine ⟨fun _ => rfl, fun _ => rfl, fun _ => rfl, fun _ => rfl, fun _ => rfl, fun _ => rfl, ?_, ?_,
    fun _ => rfl, ?_⟩
  · intro id
    cases id <;> rfl
  · intro o p
    simp only [SpecState.step, SpecState.init, getTermIndicesSpec, getTermIndices]
    cases specTerms o p with
    | error e => rfl
    | ok spec =>
      simp only [bind, Except.bind]
      cases restricted F spec with
      | error e => rfl
      | ok terms =>
        simp only
        cases terms.mapM (fun t => (termIndices st).get (.term t)) <;> rfl
  · intro vs
    simp only [SpecState.step, SpecState.init, getVariableIndices]
    cases variableIndices st with
    | error e => rfl
    | ok d =>
      simp only [bind, Except.bind]
      cases vs.mapM (fun v => match d.lookup v with | some i => Except.ok i | none => Except.error PyErr.keyError) <;> rfl

/-- a history on the demo spec: failing and succeeding look-ups by printed form, the first one twice -/
example : ((SpecState.init (demo.map (·.term)) demo).run
      [.tiItem (.str ['B', ':', 'A']), .tiIn (.str ['z']), .tiGet (.str ['A', ':', 'B']),
       .tiItem (.str ['B', ':', 'A']), .tiItem (.str ['q'])]).2
    = [.ok (.nats [1, 2]), .ok (.bool false), .ok (.optNats (some [1, 2])), .ok (.nats [1, 2]),
       .error .keyError] := by decide


/-! ## the finite tables of the model against the live package -/

/-- C10.15  What the model copies from the code is what the live package holds (regenerated into
`Gen/SpecMetaTable.lean` on every run): the pattern of `Term.FACTOR_MATCHER` is the one `matchFactors`
models (no flags); and for every registered materializer and output, a matrix whose columns repeat a
label keeps every column exactly when the model assembles that combination by position
(`combineMode … = .list`). -/
theorem tables_live :
    Gen.SpecMetaTable.factorMatcherPattern = factorMatcherPattern ∧
    Gen.SpecMetaTable.factorMatcherFlags = 0 ∧
    (∀ e ∈ Gen.SpecMetaTable.keepsRepeatedLabels,
      ∃ m o, Materializer.ofName e.1 = some m ∧ Output.ofName e.2.1 = some o ∧
        (combineMode m o == .list) = e.2.2) ∧
    Gen.SpecMetaTable.keepsRepeatedLabels.length = 7 := by
  refine ⟨by decide, by decide, ?_, by decide⟩
  intro e he
  simp only [Gen.SpecMetaTable.keepsRepeatedLabels, List.mem_cons, List.mem_nil_iff, or_false] at he
  rcases he with rfl | rfl | rfl | rfl | rfl | rfl | rfl <;> exact ⟨_, _, rfl, rfl, rfl⟩


end FormulaicVerif.Props.C10
