import FormulaicVerif.Proofs.C10Dict
import FormulaicVerif.Proofs.C10Split
import FormulaicVerif.Proofs.C10Cols
import FormulaicVerif.Proofs.C10Vars
import FormulaicVerif.Proofs.C10Subset
import FormulaicVerif.Proofs.C10Sort
/-! # C10 — Model-spec metadata indexes the generated columns truthfully

Property theorems only (helper lemmas: `Proofs/C10Dict.lean`, `Proofs/C10Split.lean`,
`Proofs/C10Cols.lean`, `Proofs/C10Vars.lean`, `Proofs/C10Subset.lean`, `Proofs/C10Sort.lean`). They are about the executable model
`Model/SpecMeta.lean` of `ModelSpec`'s derived metadata, which the engine `c10` runs against the
real code on every check. All theorems quantify over EVERY structure (any number of terms, any
factor order, zero-column rows, repeated column labels) — hypotheses are stated explicitly and shown
to be necessary by counterexamples on the model. Reference notions: `blocks` (rows with the offset
of their first column), `DistinctTerms`, `DistinctPrinted`, `GoodExpr` (in `Proofs/`). -/

namespace FormulaicVerif.Props.C10
open FormulaicVerif.Model.SpecMeta FormulaicVerif.Proofs.C10

/-! ### a concrete instance used by the non-vacuity examples: `1 + B:A + b:a:C(A) + G`
(`B:A` and `b:a:C(A)` are not in alphabetical order, `G` generates no column) -/

def demo : Structure :=
  [ ⟨[['1']], [[]], [['I']]⟩,
    ⟨[['B'], ['A']], [[[['B']], [['A']]]], [['B', 'y', ':', 'A', 'a'], ['B', 'y', ':', 'A', 'b']]⟩,
    ⟨[['b'], ['a'], ['C', '(', 'A', ')']], [[[['b']], [['a']], [['A'], ['C']]]],
      [['b', ':', 'a', ':', 'A', 'a'], ['b', ':', 'a', ':', 'A', 'b']]⟩,
    ⟨[['G']], [], []⟩ ]

example : DistinctTerms demo := by decide
example : DistinctPrinted demo := by decide
example : ∀ r ∈ demo, ∀ e ∈ r.term, GoodExpr e := by decide

/-- C10.1  The reported column names are the labels of the matrix. Positional assembly (every
output of the pandas materializer, sparse output of the narwhals materializer): always, whatever
labels repeat. Name-keyed assembly (the other narwhals outputs): exactly when no label repeats — a
name-keyed frame cannot hold two columns of one name (finding C10-F2). -/
theorem names_eq_labels (st : Structure) :
    (∀ out, matrixLabels (combineMode .pandas out) st = columnNames st) ∧
    matrixLabels (combineMode .narwhals .sparse) st = columnNames st ∧
    (∀ out, out ≠ .sparse →
      (matrixLabels (combineMode .narwhals out) st = columnNames st ↔ (columnNames st).Nodup)) := by
  have hlist : matrixLabels .list st = columnNames st := by
    simp [matrixLabels, combine, List.map_map, Function.comp_def]
  have hdict : matrixLabels .dict st = columnNames st ↔ (columnNames st).Nodup := by
    rw [matrixLabels_dict]
    constructor
    · intro h
      have := foldl_addKey_nodup (columnNames st) [] List.nodup_nil
      rwa [h] at this
    · intro h
      simpa using foldl_addKey_of_nodup (columnNames st) [] (by simpa using h)
  refine ⟨fun out => by cases out <;> exact hlist, hlist, ?_⟩
  intro out hout
  cases out <;> first | exact absurd rfl hout | exact hdict

/-- what happens with a repeated label under name-keyed assembly: two of three columns survive -/
example : matrixLabels .dict [⟨[['A']], [], [['x'], ['y']]⟩, ⟨[['z']], [], [['x']]⟩] = [['x'], ['y']] := by decide

/-- C10.2  Term ranges. When no term occurs twice, `term_indices` holds, in term order, one entry per
row whose value is the block `[start, start + #columns)` of consecutive integers starting where the
previous row's block ended (so a zero-column row gets `[]`); the blocks concatenate to
`[0, ncols)` (pairwise disjoint and covering); `term_slices` selects exactly the same positions. -/
theorem term_ranges_partition (st : Structure) (h : DistinctTerms st) :
    termIndices st = (blocks 0 st).map (fun b => (b.1.term, List.range' b.2 b.1.columns.length)) ∧
    (termIndices st).flatMap (·.2) = List.range (columnNames st).length ∧
    termSlices st = (blocks 0 st).map (fun b =>
      (b.1.term, if b.1.columns.length = 0 then (0, 0) else (b.2, b.2 + b.1.columns.length))) := by
  have h1 := termIndices_eq st h
  refine ⟨h1, ?_, ?_⟩
  · rw [h1, entries, List.flatMap_map, List.range_eq_range']
    exact blocks_ranges 0 st
  · unfold termSlices
    rw [h1, entries, List.map_map]
    apply List.map_congr_left
    intro b _
    simp [sliceOf_range']

/-- the row blocks themselves always partition `[0, ncols)`, repeated terms or not -/
theorem blocks_partition (st : Structure) :
    (blocks 0 st).flatMap (fun b => List.range' b.2 b.1.columns.length) = List.range (columnNames st).length := by
  rw [List.range_eq_range']; exact blocks_ranges 0 st

example : (termIndices demo).map (·.2) = [[0], [1, 2], [3, 4], []] := by decide

/-- the hypothesis of C10.2 is necessary: with a repeated term the later row overwrites the earlier
range and column 0 belongs to no term (finding C10-F1) -/
example : (termIndices [⟨[['a']], [], [['a']]⟩, ⟨[['a']], [], []⟩]).map (·.2) = [[]] := by decide

/-- C10.3a  Looking a term up by object — the stored term or any `Term` that compares equal to it
(same factors in any order) — returns exactly its block, through `term_indices[t]`,
`term_slices[t]`, `t in term_indices` and `get_slice(t)`; a term that is not in the spec raises
`KeyError` / `ValueError`. -/
theorem lookup_by_term (st : Structure) (h : DistinctTerms st) :
    (∀ b ∈ blocks 0 st, ∀ u : Term, sortStrs u = sortStrs b.1.term →
      (termIndices st).get (.term u) = .ok (List.range' b.2 b.1.columns.length) ∧
      (termIndices st).contains (.term u) = true ∧
      (termSlices st).get (.term u) = .ok (sliceOf (List.range' b.2 b.1.columns.length)) ∧
      getSlice st (.term u) = .ok (sliceOf (List.range' b.2 b.1.columns.length))) ∧
    (∀ u : Term, (∀ r ∈ st, sortStrs r.term ≠ sortStrs u) →
      (termIndices st).get (.term u) = .error .keyError ∧
      getSlice st (.term u) = .error .valueError) := by
  have hi : termIndices st = rowDict (fun b => List.range' b.2 b.1.columns.length) 0 st :=
    termIndices_eq st h
  have hs : termSlices st = rowDict (fun b => sliceOf (List.range' b.2 b.1.columns.length)) 0 st := by
    unfold termSlices; rw [hi]; simp [rowDict, List.map_map, Function.comp_def]
  constructor
  · intro b hb u hu
    have g1 : (termIndices st).get (.term u) = .ok (List.range' b.2 b.1.columns.length) := by
      rw [hi]; unfold TDict.get; rw [rowDict_lookup_term _ h hb u hu]
    have g2 : (termSlices st).get (.term u) = .ok (sliceOf (List.range' b.2 b.1.columns.length)) := by
      rw [hs]; unfold TDict.get; rw [rowDict_lookup_term _ h hb u hu]
    refine ⟨g1, by simp [TDict.contains, g1], g2, ?_⟩
    simp [getSlice, TDict.contains, g2]
  · intro u hu
    have g1 : (termIndices st).get (.term u) = .error .keyError := by
      rw [hi]; unfold TDict.get; rw [rowDict_lookup_term_none _ u hu]
    have g2 : (termSlices st).get (.term u) = .error .keyError := by
      rw [hs]; unfold TDict.get; rw [rowDict_lookup_term_none _ u hu]
    exact ⟨g1, by simp [getSlice, TDict.contains, g2]⟩

example : getSlice demo (.term [['A'], ['B']]) = .ok (1, 3) := by decide

/-- C10.3a'  "compares equal" is "same factors in any order": a `Term` object built from any
permutation of a row's factors finds that row's block (`sorted` is order-insensitive because
`str` comparison is a strict total order). -/
theorem lookup_by_term_any_order (st : Structure) (h : DistinctTerms st) (b : Row × Nat)
    (hb : b ∈ blocks 0 st) (u : Term) (hu : u.Perm b.1.term) :
    (termIndices st).get (.term u) = .ok (List.range' b.2 b.1.columns.length) ∧
    getSlice st (.term u) = .ok (sliceOf (List.range' b.2 b.1.columns.length)) := by
  obtain ⟨g1, _, _, g4⟩ := (lookup_by_term st h).1 b hb u (sortStrs_perm hu)
  exact ⟨g1, g4⟩

/-- C10.3b  Looking a term up by its printed form (`str(term)`: factors in the term's OWN order, a
factor containing `:` between backticks) returns exactly its block — through `term_indices[s]`,
`term_slices[s]`, `s in term_indices` and `get_slice(s)` — for every row whose factor
expressions contain no backtick/newline, provided terms and printed forms are pairwise
different. The dict is probed as Python does (hash of the string, then `Term.__eq__` through
`FACTOR_MATCHER`), then `_TermMapping.__missing__` compares printed forms. -/
theorem lookup_by_printed_form (st : Structure) (h : DistinctTerms st) (hp : DistinctPrinted st)
    (b : Row × Nat) (hb : b ∈ blocks 0 st) (hgood : ∀ e ∈ b.1.term, GoodExpr e) :
    (termIndices st).get (.str (termRepr b.1.term)) = .ok (List.range' b.2 b.1.columns.length) ∧
    (termIndices st).contains (.str (termRepr b.1.term)) = true ∧
    (termSlices st).get (.str (termRepr b.1.term)) = .ok (sliceOf (List.range' b.2 b.1.columns.length)) ∧
    getSlice st (.str (termRepr b.1.term)) = .ok (sliceOf (List.range' b.2 b.1.columns.length)) := by
  have hi : termIndices st = rowDict (fun b => List.range' b.2 b.1.columns.length) 0 st :=
    termIndices_eq st h
  have hs : termSlices st = rowDict (fun b => sliceOf (List.range' b.2 b.1.columns.length)) 0 st := by
    unfold termSlices; rw [hi]; simp [rowDict, List.map_map, Function.comp_def]
  have hsplit := matchFactors_termRepr b.1.term hgood
  have g1 := rowDict_get_str (fun b => List.range' b.2 b.1.columns.length) h hp hb hsplit
  have g2 := rowDict_get_str (fun b => sliceOf (List.range' b.2 b.1.columns.length)) h hp hb hsplit
  rw [← hi] at g1
  rw [← hs] at g2
  refine ⟨g1, by simp [TDict.contains, g1], g2, ?_⟩
  simp [getSlice, TDict.contains, g2]

/-- the unsorted printed forms `B:A` and `b:a:C(A)` find their blocks -/
example : getSlice demo (.str ['B', ':', 'A']) = .ok (1, 3) ∧
    (termIndices demo).get (.str ['b', ':', 'a', ':', 'C', '(', 'A', ')']) = .ok [3, 4] ∧
    getSlice demo (.str ['G']) = .ok (0, 0) := by decide

/-- without `__missing__` (a plain dict, the behaviour before the repair) `B:A` is not found:
its hash is not the hash of the sorted join `A:B` -/
example : (termIndices demo).lookup (.str ['B', ':', 'A']) = none ∧
    (termIndices demo).lookup (.str ['A', ':', 'B']) = some [1, 2] := by decide

/-- C10.3c  Looking a column up by name: `column_indices[n]` is the position of the LAST column
labelled `n` (so exactly the column's position when the label is not repeated),
`get_column_indices` agrees, `get_slice(n)` selects `[k, k+1)` unless the string also denotes a term
(terms take precedence); an unknown name raises. -/
theorem lookup_by_column_name (st : Structure) (n : Str) :
    (∀ k, (columnIndices st).lookup n = some k ↔
      ((columnNames st)[k]? = some n ∧ ∀ j, k < j → (columnNames st)[j]? ≠ some n)) ∧
    (∀ k, (columnIndices st).lookup n = some k →
      getColumnIndices st [n] = .ok [k] ∧
      ((termSlices st).contains (.str n) = false → getSlice st (.str n) = .ok (k, k + 1))) ∧
    (n ∉ columnNames st →
      (columnIndices st).lookup n = none ∧ getColumnIndices st [n] = .error .keyError ∧
      ((termSlices st).contains (.str n) = false → getSlice st (.str n) = .error .valueError)) := by
  have hl := columnIndices_lookup st n
  refine ⟨?_, ?_, ?_⟩
  · intro k
    rw [hl]
    constructor
    · exact lastIdx_some
    · intro ⟨h1, h2⟩
      cases hk : lastIdx n (columnNames st) with
      | none => exact absurd (List.mem_of_getElem? h1) (lastIdx_none hk)
      | some k' =>
        obtain ⟨h1', h2'⟩ := lastIdx_some hk
        rcases Nat.lt_trichotomy k k' with hlt | heq | hgt
        · exact absurd h1' (h2 k' hlt)
        · rw [heq]
        · exact absurd h1 (h2' k hgt)
  · intro k hk
    refine ⟨by simp [getColumnIndices, hk, List.mapM_cons, List.mapM_nil, pure, Except.pure, bind, Except.bind], ?_⟩
    intro hc
    simp [getSlice, hc, hk]
  · intro hn
    have hnone : (columnIndices st).lookup n = none := by
      rw [hl]
      cases hk : lastIdx n (columnNames st) with
      | none => rfl
      | some k => exact absurd (List.mem_of_getElem? (lastIdx_some hk).1) hn
    refine ⟨hnone, by simp [getColumnIndices, hnone, List.mapM_cons, bind, Except.bind], ?_⟩
    intro hc
    simp [getSlice, hc, hnone]

example : (columnIndices demo).lookup ['B', 'y', ':', 'A', 'b'] = some 2 ∧
    getSlice demo (.str ['B', 'y', ':', 'A', 'b']) = .ok (2, 3) := by decide

/-- C10.4  `variable_indices` never raises; its keys are exactly the variables used by some row;
`variable_indices[v]` is exactly the concatenation, in row order, of the blocks of the rows whose
terms use `v` — a strictly increasing list (no index twice, none missing, none foreign). -/
theorem variable_indices_exact (st : Structure) (h : DistinctTerms st) :
    ∃ vi, variableIndices st = .ok vi ∧
      ∀ v, (vi.lookup v =
          if (st.filter (fun r => (rowVars r).contains v)) = [] then none
          else some (((blocks 0 st).filter (fun b => (rowVars b.1).contains v)).flatMap
                (fun b => List.range' b.2 b.1.columns.length))) ∧
        (((blocks 0 st).filter (fun b => (rowVars b.1).contains v)).flatMap
                (fun b => List.range' b.2 b.1.columns.length)).Pairwise (· < ·) := by
  refine ⟨_, variableIndices_eq st h, ?_⟩
  intro v
  refine ⟨?_, (filter_blocks_increasing (fun b => (rowVars b.1).contains v) 0 st).1⟩
  rw [SDict.lookup_map, variableTerms_lookup st h v]
  have hiff : usesTerms v st = [] ↔ st.filter (fun r => (rowVars r).contains v) = [] := by
    unfold usesTerms; simp
  by_cases he : st.filter (fun r => (rowVars r).contains v) = []
  · rw [if_pos (hiff.mpr he), if_pos he]; rfl
  · have : usesTerms v st ≠ [] := fun e => he (hiff.mp e)
    simp only [this, he, if_false, Option.map_some, viOf_usesTerms st h v]

example : (variableIndices demo).toOption.map (fun vi => (vi.lookup ['A'], vi.lookup ['b'], vi.lookup ['G']))
    = some (some [1, 2, 3, 4], some [3, 4], none) := by decide

/-- C10.5  A spec subset to chosen terms. When `subset` succeeds its structure consists, term by
term in the requested order, of the PARENT'S rows of those terms (whatever factor order the request
uses); hence its column names are exactly the parent's names at `get_term_indices` of the same
request, in order; and when rows are regenerated one by one (`replayBlocks`: `gen` regenerates a
row's columns from the data, `_enforce_structure` forces them onto the recorded names), the subset's
regenerated blocks are the parent's regenerated blocks of those rows. -/
theorem subset_regenerates (F : List Term) (st : Structure) (spec : List Term) (sub : Structure)
    (h : DistinctTerms st) (hs : subset F st spec = .ok sub) :
    Pointwise (fun t r => r ∈ st ∧ sortStrs r.term = sortStrs t) spec sub ∧
    (∃ idx, getTermIndices F st spec = .ok idx ∧
      idx.map (fun i => (columnNames st)[i]?) = (columnNames sub).map some) ∧
    (∀ {V : Type} (zero : V) (gen : Row → SDict V) (P : List (SDict V)),
      replayBlocks zero gen st = .ok P →
      ∃ g : Row → SDict V, P = st.map g ∧ replayBlocks zero gen sub = .ok (sub.map g)) := by
  obtain ⟨_, hf⟩ := subset_rows F st spec sub h hs
  refine ⟨hf, subset_names F st spec sub h hs, ?_⟩
  intro V zero gen P hP
  let g : Row → SDict V := fun r =>
    match enforceRow zero r.columns (gen r) with
    | .ok b => b
    | .error _ => []
  have hall : ∀ r ∈ st, enforceRow zero r.columns (gen r) = .ok (g r) := by
    intro r hr
    have hpw := mapM_ok_inv _ _ _ hP
    obtain ⟨q, _, hq⟩ := hpw.exists_left hr
    simp only [g, hq]
  refine ⟨g, ?_, ?_⟩
  · have := mapM_ok_of_forall _ g st hall
    unfold replayBlocks at hP
    rw [this] at hP
    cases hP; rfl
  · unfold replayBlocks
    apply mapM_ok_of_forall
    intro r hr
    obtain ⟨_, _, hin, _⟩ := hf.exists_right hr
    exact hall r hin

/-- `subset(["A:B", "1"])` on the demo spec (whose term prints `B:A`): the parent's rows, in the
requested order -/
example : (subset (demo.map (·.term)) demo [[['A'], ['B']], [['1']]]).toOption.map columnNames
      = some [['B', 'y', ':', 'A', 'a'], ['B', 'y', ':', 'A', 'b'], ['I']] ∧
    getTermIndices (demo.map (·.term)) demo [[['A'], ['B']], [['1']]] = .ok [1, 2, 0] := by decide

/-- a term that is not in the spec: `ValueError` -/
example : subset (demo.map (·.term)) demo [[['z']]] = .error .valueError := by decide

end FormulaicVerif.Props.C10
