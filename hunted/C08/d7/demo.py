"""C08 d7: text that reaches a formula as a Python list (a context variable, or
`s.tolist()` of a text data column) is copied into the model matrix as text."""
import sys, warnings
import numpy as np, pandas as pd
from formulaic import model_matrix
warnings.simplefilter("ignore")

df = pd.DataFrame({"s": ["b", "a", "c", "a"], "x": [1.0, 2.0, 3.0, 4.0]})
bad = False
for label, f, ctx in (("list in context", "z + x", {"z": ["b", "a", "c", "a"]}), ("s.tolist()", "s.tolist() + x", {})):
    for out in ("pandas", "numpy", "sparse"):
        try:
            mm = model_matrix(f, df, output=out, context=ctx)
        except Exception as e:
            print("%-16s output=%-6s raised %s: %s" % (label, out, type(e).__name__, str(e)[:70])); bad = True; continue
        raw = mm.__wrapped__
        arr = raw.toarray() if hasattr(raw, "toarray") else np.asarray(raw)
        numeric = arr.dtype.kind in "biuf"
        print("%-16s output=%-6s columns=%s cell dtype=%s first row=%s" % (label, out, list(mm.model_spec.column_names), arr.dtype, arr[0].tolist()))
        bad |= not numeric
print("required: text is dummy-coded; every cell of every model matrix is a number")
print("DEFECT PRESENT" if bad else "ok")
sys.exit(1 if bad else 0)
