"""C08 d3: text columns that share a column label are not dummy-coded; the
strings end up in the model matrix (or the text column silently vanishes)."""
import sys, warnings
import numpy as np, pandas as pd
from formulaic import model_matrix
warnings.simplefilter("ignore")

bad = False
df = pd.DataFrame([["a", "q"], ["b", "r"], ["c", "q"]], columns=["s", "s"])   # two text columns labelled "s"
for out in ("pandas", "numpy", "sparse"):
    try:
        mm = model_matrix("s", df, output=out)
    except Exception as e:
        print("text/text  output=%-6s raised %s: %s" % (out, type(e).__name__, str(e)[:80])); bad = True; continue
    raw = mm.__wrapped__
    arr = raw.toarray() if hasattr(raw, "toarray") else np.asarray(raw)
    print("text/text  output=%-6s columns=%s cell dtype=%s cells=%s" % (out, list(mm.model_spec.column_names), arr.dtype, arr.tolist()))
    if arr.dtype.kind not in "biuf":
        bad = True

df2 = pd.DataFrame([["a", 1.0], ["b", 2.0], ["c", 3.0]], columns=["s", "s"])  # text + numeric labelled "s"
mm = model_matrix("s", df2)
print("text/num   output=pandas columns=%s" % list(mm.model_spec.column_names))
print(mm)
if not any("a" in c or "b" in c or "c" in c for c in mm.model_spec.column_names if c != "Intercept"):
    print("  -> the text column was dropped without any indicator column"); bad = True
print("required: every data column holding text is encoded as 0/1 indicator columns; every cell a number")
print("DEFECT PRESENT" if bad else "ok")
sys.exit(1 if bad else 0)
