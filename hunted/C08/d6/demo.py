"""C08 d6: in a `string[python]` column two different texts that differ only by a
trailing NUL are folded into ONE level; object / str / string[pyarrow] columns
holding the same values give two levels."""
import sys, warnings
import numpy as np, pandas as pd
from formulaic import model_matrix
warnings.simplefilter("ignore")

vals = ["a\x00", "a", "b"]
res = {}
for dt in (object, "str", "string[pyarrow]", "string[python]"):
    mm = model_matrix("v - 1", pd.DataFrame({"v": pd.Series(vals, dtype=dt)}))
    res[str(dt)] = [repr(c) for c in mm.model_spec.column_names]
    print("%-22s columns=%s rows=%s" % (dt, res[str(dt)], mm.to_numpy().tolist()))
bad = len(res["string[python]"]) != 3
print("required: three levels in sorted order v[a], v[a\\x00], v[b] for every text dtype")
print("DEFECT PRESENT" if bad else "ok")
sys.exit(1 if bad else 0)
