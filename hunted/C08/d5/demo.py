"""C08 d5: a nullable boolean column with a missing value and na_action='ignore'
yields an object matrix containing pandas.NA (sparse output raises), whereas
nullable integers/floats yield NaN in a float matrix."""
import sys, warnings
import numpy as np, pandas as pd
from formulaic import model_matrix
warnings.simplefilter("ignore")

df = pd.DataFrame({"b": pd.Series([True, None, False], dtype="boolean"),
                   "i": pd.Series([1, None, 3], dtype="Int64")})
bad = False
for kw in ({}, {"materializer": "narwhals"}):
    for out in ("pandas", "numpy", "sparse"):
        for f in ("i - 1", "b - 1"):
            label = "materializer=%-8s output=%-6s %-6s" % (kw.get("materializer", "pandas"), out, f)
            try:
                mm = model_matrix(f, df, output=out, na_action="ignore", **kw)
            except Exception as e:
                print(label, "raised", type(e).__name__, str(e)[:70]); bad = True; continue
            raw = mm.__wrapped__
            arr = raw.toarray() if hasattr(raw, "toarray") else np.asarray(raw)
            numeric = arr.dtype.kind in "biuf"
            print(label, "cell dtype", arr.dtype, "cells", arr.ravel().tolist(), "" if numeric else "<-- not numeric")
            bad |= not numeric
print("required: bool columns pass through as numbers (1/0, missing -> NaN like the Int64 column); the matrix is always numeric")
print("DEFECT PRESENT" if bad else "ok")
sys.exit(1 if bad else 0)
