"""C08 d4: levels of a categorical dtype whose labels print alike (10 and '10')
share one indicator column; the other level's rows get no indicator at all."""
import sys, warnings
import numpy as np, pandas as pd
from formulaic import model_matrix
warnings.simplefilter("ignore")

cat = pd.Categorical([10, "10", 10, "x"], categories=[10, "10", "x"])
df = pd.DataFrame({"v": cat})
expected = np.array([[1, 0, 0], [0, 1, 0], [1, 0, 0], [0, 0, 1]], dtype=float)
bad = False
for kw in ({}, {"materializer": "narwhals"}):
    for out in ("pandas", "numpy", "sparse"):
        mm = model_matrix("v - 1", df, output=out, **kw)
        raw = mm.__wrapped__
        arr = raw.toarray() if hasattr(raw, "toarray") else np.asarray(raw, dtype=float)
        ok = arr.shape == expected.shape and np.array_equal(arr, expected)
        print("materializer=%-8s output=%-6s columns=%s rows=%s %s" % (kw.get("materializer", "pandas"), out,
              list(mm.model_spec.column_names), arr.tolist(), "ok" if ok else "<-- level 10 has no indicator"))
        bad |= not ok
print("declared levels:", list(cat.categories), "-> required: three indicator columns in declared order; rows 0 and 2 (level 10) are 1 in the first")
print("DEFECT PRESENT" if bad else "ok")
sys.exit(1 if bad else 0)
